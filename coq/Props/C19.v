(* Props/C19.v — exp, outer exponentials, sqrt, powers, norms (C19, PARTIAL).
   Statements only; proofs in Theory/Series.v (which builds on Theory/Algebra.v).  Everything is about the
   executable model Model/Series.v of codegen_outerexp/outersin/outercos/outertan, codegen_sqrt,
   MultiVector.__pow__/norm/normalized/exp, for EVERY well-formed algebra (any dimension, signature
   ordering, start index, admissible basis), every commutative ring R of coefficients, sparse operands in
   any key order.  [x == y]: the same coefficient on every blade (absent = 0).  [F] is the symbolic
   zero-filter of the code generator (any map that only drops zero coefficients: [filter_ok]; the identity
   and Composite.filter_nz are instances, Theory.Series.filter_ok_id / filter_ok_nz).
   Division by integers: R is a Q-algebra, [divn_ok]: n * (v / n) = v for n >= 1.

   The analytic half of the exp clause is C19_exp_series_limit / C19_exp_power_series at the end (Coq's real
   numbers; they use the standard-library axioms of Reals, listed by Print Assumptions).
   What is NOT proved here (hence PARTIAL): IEEE rounding, numpy/sympy functions, complex coefficients and the
   symbolic (sympy) class beyond the branch selection, and that the
   [o_sqrt]/[o_inv] of a concrete number type satisfy the hypotheses of the sqrt theorems (they are exactly
   the "Study number with positive scalar part" domain; the code checks none of them). *)
From Coq Require Import Ring_theory ZArith List.
From KV Require Import Model.All Model.Series Theory.WF Theory.Sparse Theory.Ops Theory.OpsWF Theory.Algebra Theory.Series Theory.SeriesReal.
Import ListNotations.
Local Open Scope Z_scope.

Section Ring.
  Variable R : Type.
  Variables (rO rI : R) (radd rmul rsub : R -> R -> R) (ropp : R -> R).
  Hypothesis Rth : ring_theory rO rI radd rmul rsub ropp (@eq R).
  Variables (divn : R -> Z -> R) (rsqrt rinv : R -> R).
  Local Notation O := (mkOps R radd rsub rmul ropp rO rI).
  Local Notation SO := (mkSops R O divn rsqrt rinv).
  Local Notation "x == y" := (equiv rO rI radd rmul rsub ropp x y) (at level 70).
  Local Notation filter_ok A := (Series.filter_ok R rO rI radd rmul rsub ropp A).
  Local Notation divn_ok := (Series.divn_ok R rO rI radd rmul divn).
  Local Notation wpow A := (Series.wpow R rO rI radd rmul rsub ropp A).
  Local Notation wterm A := (Series.wterm R rO rI radd rmul rsub ropp divn A).       (* x^(wedge k) / k! *)
  Local Notation msum A := (Series.msum R rO rI radd rmul rsub ropp A).              (* sum of a list *)
  Local Notation gpow A := (Series.gpow R rO rI radd rmul rsub ropp A).              (* n-fold gp *)
  Local Notation pterm A := (Series.pterm R rO rI radd rmul rsub ropp divn A).       (* x^k / k! *)
  Local Notation E A := (Series.E R rO rI radd rmul rsub ropp A).                    (* E x c t = c + t x *)
  Local Notation invfact := (Series.invfact R rI rmul divn).
  Local Notation rnat := (Series.rnat R rO rI radd).
  Local Notation ev := (Series.ev R rO rI radd rmul divn).
  Local Notation od := (Series.od R rO rI radd rmul divn).
  Local Notation scal := (Algebra.scal rmul).
  Local Notation one := (Algebra.one rI).
  Local Notation min_grade A := (Algebra.min_grade rO rI radd rmul rsub ropp A).
  Local Notation "a * b" := (rmul a b).
  Local Notation "a + b" := (radd a b).
  Local Notation "a - b" := (rsub a b).
  Local Notation two := (radd rI rI).

  (* 1/k! really is the inverse of k! *)
  Theorem C19_invfact : divn_ok -> forall k, rnat (fact k) * invfact k = rI.
  Proof. intros H k. exact (invfact_spec R rO rI radd rmul rsub ropp Rth divn rsqrt rinv H k). Qed.

  (* ---------- outer exponential ---------- *)
  (* codegen_outerexp(x, asterms=True): the k-th element of Ws is x^(wedge k)/k! up to where the loop stops
     (between 2 and last_term+1 = max(1,d)+1 elements, never out of fuel); it stops early only when that term
     and all later ones vanish *)
  Theorem C19_outerexp_terms : divn_ok -> forall A, wf_alg A = true -> forall F, filter_ok A F ->
    forall x, wfmv A x ->
    exists Ws, outerexp_terms_with SO F A x = Ok Ws /\
      (2 <= length Ws <= S (last_term A))%nat /\
      (forall k, (k < length Ws)%nat -> wfmv A (nth k Ws []) /\ nth k Ws [] == wterm A x k) /\
      (forall k, (length Ws <= k <= last_term A)%nat -> wterm A x k == []).
  Proof. intros Hd A Hwf F HF x Hx.
    exact (outerexp_terms_spec R rO rI radd rmul rsub ropp Rth divn rsqrt rinv A (wf_sign_hyps A Hwf) Hd F HF x Hx). Qed.
  (* the `break`: once a wedge power is zero all later ones are *)
  Theorem C19_outerexp_break_sound : divn_ok -> forall A, wf_alg A = true -> forall x n k, wfmv A x ->
    wpow A x n == [] -> (n <= k)%nat -> wpow A x k == [].
  Proof. intros Hd A Hwf x n k.
    exact (outerexp_break_sound R rO rI radd rmul rsub ropp Rth divn rsqrt rinv A (wf_sign_hyps A Hwf) Hd x n k). Qed.
  (* outerexp(x) = sum_{k=0..max(1,d)} x^(wedge k)/k! *)
  Theorem C19_outerexp : divn_ok -> forall A, wf_alg A = true -> forall F, filter_ok A F -> forall x, wfmv A x ->
    exists r, outerexp_with SO F A x = Ok r /\ wfmv A r /\
      r == msum A (map (wterm A x) (seq 0 (S (last_term A)))).
  Proof. intros Hd A Hwf F HF x Hx.
    exact (outerexp_spec R rO rI radd rmul rsub ropp Rth divn rsqrt rinv A (wf_sign_hyps A Hwf) Hd F HF x Hx). Qed.
  (* for an x without scalar part this is the whole series: any upper limit N >= d gives the same sum *)
  Theorem C19_outerexp_full_series : divn_ok -> forall A, wf_alg A = true -> forall F, filter_ok A F ->
    forall x N, wfmv A x -> min_grade A 1 x -> (a_d A <= N)%nat ->
    exists r, outerexp_with SO F A x = Ok r /\ wfmv A r /\ r == msum A (map (wterm A x) (seq 0 (S N))).
  Proof. intros Hd A Hwf F HF x N Hx Hg HN.
    exact (outerexp_full_series R rO rI radd rmul rsub ropp Rth divn rsqrt rinv A (wf_sign_hyps A Hwf) Hd F x N HF Hx Hg HN). Qed.
  (* outersin = the odd terms, outercos = the even terms, and they add up to outerexp *)
  Theorem C19_outersin : divn_ok -> forall A, wf_alg A = true -> forall F, filter_ok A F -> forall x, wfmv A x ->
    exists r, outersin_with SO F A x = Ok r /\ wfmv A r /\
      r == msum A (map (fun i => wterm A x (2 * i + 1)) (seq 0 (S (last_term A) / 2))).
  Proof. intros Hd A Hwf F HF x Hx.
    exact (outersin_spec R rO rI radd rmul rsub ropp Rth divn rsqrt rinv A (wf_sign_hyps A Hwf) Hd F HF x Hx). Qed.
  Theorem C19_outercos : divn_ok -> forall A, wf_alg A = true -> forall F, filter_ok A F -> forall x, wfmv A x ->
    exists r, outercos_with SO F A x = Ok r /\ wfmv A r /\
      r == msum A (map (fun i => wterm A x (2 * i)) (seq 0 ((S (last_term A) + 1) / 2))).
  Proof. intros Hd A Hwf F HF x Hx.
    exact (outercos_spec R rO rI radd rmul rsub ropp Rth divn rsqrt rinv A (wf_sign_hyps A Hwf) Hd F HF x Hx). Qed.
  Theorem C19_outersin_cos_split : divn_ok -> forall A, wf_alg A = true -> forall F, filter_ok A F -> forall x, wfmv A x ->
    exists e s c, outerexp_with SO F A x = Ok e /\ outersin_with SO F A x = Ok s /\
      outercos_with SO F A x = Ok c /\ add O A s c == e.
  Proof. intros Hd A Hwf F HF x Hx.
    exact (outersin_cos_split R rO rI radd rmul rsub ropp Rth divn rsqrt rinv A (wf_sign_hyps A Hwf) Hd F HF x Hx). Qed.
  (* outertan = outersin * inverse(outercos): for whatever the inverse routine returns, and when that is a
     left inverse ci of c = outercos the result t satisfies t * c = outersin *)
  Theorem C19_outertan : divn_ok -> forall A, wf_alg A = true -> forall F, filter_ok A F ->
    forall (invf : mv R -> res (mv R)) x, wfmv A x ->
    exists s c, outersin_with SO F A x = Ok s /\ outercos_with SO F A x = Ok c /\ wfmv A s /\ wfmv A c /\
      outertan_with SO F invf A x = (ci <- invf c ;; Ok (F (gp O A s ci))) /\
      forall ci, invf c = Ok ci -> wfmv A ci -> gp O A ci c == one ->
        exists t, outertan_with SO F invf A x = Ok t /\ wfmv A t /\ t == gp O A s ci /\ gp O A t c == s.
  Proof. intros Hd A Hwf F HF invf x Hx.
    exact (outertan_spec R rO rI radd rmul rsub ropp Rth divn rsqrt rinv A (wf_sign_hyps A Hwf) Hd F HF invf x Hx). Qed.

  (* ---------- powers ---------- *)
  Theorem C19_pow_zero : forall A invf sqrtf (x : mv R), pow_model SO invf sqrtf A x (PInt 0) = Ok one.
  Proof. intros A invf sqrtf x. exact (pow_zero R rO rI radd rmul rsub ropp divn rsqrt rinv A invf sqrtf x). Qed.
  (* x ** n is the n-fold product ((x*x)*x)*... *)
  Theorem C19_pow_int : forall A, wf_alg A = true -> forall invf sqrtf x n, wfmv A x ->
    exists r, pow_model SO invf sqrtf A x (PInt (Z.of_nat n)) = Ok r /\ wfmv A r /\ r == gpow A x n.
  Proof. intros A Hwf invf sqrtf x n Hx.
    exact (pow_spec R rO rI radd rmul rsub ropp Rth divn rsqrt rinv A (wf_sign_hyps A Hwf) invf sqrtf x n Hx). Qed.
  (* negative powers are the powers of the inverse; an error of the inverse is the error of the power *)
  Theorem C19_pow_neg : forall A invf sqrtf (x xi : mv R) n, 0 < n -> invf x = Ok xi ->
    pow_model SO invf sqrtf A x (PInt (- n)) = pow_model SO invf sqrtf A xi (PInt n).
  Proof. intros A invf sqrtf x xi n. exact (pow_neg R rO rI radd rmul rsub ropp divn rsqrt rinv A invf sqrtf x xi n). Qed.
  Theorem C19_pow_neg_err : forall A invf sqrtf (x : mv R) e n, 0 < n -> invf x = Err e ->
    pow_model SO invf sqrtf A x (PInt (- n)) = Err e.
  Proof. intros A invf sqrtf x e n. exact (pow_neg_err R rO rI radd rmul rsub ropp divn rsqrt rinv A invf sqrtf x e n). Qed.
  (* x ** 0.5 is sqrt(x) *)
  Theorem C19_pow_half : forall A invf sqrtf (x : mv R), pow_model SO invf sqrtf A x PHalf = sqrtf x.
  Proof. intros A invf sqrtf x. exact (pow_half R rO rI radd rmul rsub ropp divn rsqrt rinv A invf sqrtf x). Qed.
  Theorem C19_pow_add : forall A, wf_alg A = true -> forall x m n, wfmv A x ->
    gpow A x (m + n) == gp O A (gpow A x m) (gpow A x n).
  Proof. intros A Hwf x m n Hx.
    exact (pow_add R rO rI radd rmul rsub ropp Rth rsqrt rinv A (wf_sign_hyps A Hwf) x m n Hx). Qed.
  Theorem C19_pow_inverse : forall A, wf_alg A = true -> forall x xi n, wfmv A x -> wfmv A xi ->
    gp O A x xi == one -> gp O A (gpow A x n) (gpow A xi n) == one.
  Proof. intros A Hwf x xi n.
    exact (pow_inverse R rO rI radd rmul rsub ropp Rth rsqrt rinv A (wf_sign_hyps A Hwf) x xi n). Qed.

  (* ---------- elements with a scalar square ---------- *)
  (* (c1 + t1 x)(c2 + t2 x) = (c1 c2 + s t1 t2) + (c1 t2 + t1 c2) x  when x x = s *)
  Theorem C19_E_mul : forall A, wf_alg A = true -> forall x s c1 t1 c2 t2, wfmv A x -> gp O A x x == scal s one ->
    gp O A (E A x c1 t1) (E A x c2 t2) == E A x (c1 * c2 + s * (t1 * t2)) (c1 * t2 + t1 * c2).
  Proof. intros A Hwf x s c1 t1 c2 t2.
    exact (E_mul R rO rI radd rmul rsub ropp Rth A (wf_sign_hyps A Hwf) x s c1 t1 c2 t2). Qed.

  (* ---------- sqrt of a Study number ---------- *)
  (* the formula  c + bI * c2_inv  squares to  a + bI  when (bI)^2 = s is a scalar and
        r^2 = a^2 - s,   2 c^2 = a + r,   2 c c2_inv = 1
     (r = normS ** 0.5, c = (0.5 (a + r)) ** 0.5, c2_inv = 0.5 / c in the generated code) *)
  Theorem C19_sqrt_formula : forall A, wf_alg A = true -> forall F, filter_ok A F -> forall bI s a r c e,
    wfmv A bI -> gp O A bI bI == scal s one ->
    r * r = a * a - s -> two * (c * c) = a + r -> two * (c * e) = rI ->
    let y := sqrt_formula_with SO F A bI c e in gp O A y y == add O A (scalar_mv a) bI.
  Proof. intros A Hwf F HF bI s a r c e.
    exact (sqrt_formula_square R rO rI radd rmul rsub ropp Rth divn rsqrt rinv A (wf_sign_hyps A Hwf) F HF bI s a r c e). Qed.
  (* the model of codegen_sqrt, branch by branch; the hypotheses on rsqrt / rinv are what the code does NOT
     check (it only warns when x has more than two grades or no scalar part) *)
  Theorem C19_sqrt_scalar : forall A, wf_alg A = true -> forall F x, wfmv A x -> is_scalar_only x = true ->
    let v := coeff O 0 x in rsqrt v * rsqrt v = v ->
    let y := sqrt_model_with SO F A x in gp O A y y == x.
  Proof. intros A Hwf F x.
    exact (sqrt_model_scalar R rO rI radd rmul rsub ropp Rth divn rsqrt rinv A (wf_sign_hyps A Hwf) F x). Qed.
  Theorem C19_sqrt_study : divn_ok -> forall A, wf_alg A = true -> forall F, filter_ok A F -> forall x s,
    wfmv A x -> is_scalar_only x = false ->
    let a := coeff O 0 x in let bI := study_bI SO F A x in
    gp O A bI bI == scal s one -> mv_truthy (F (gp O A bI bI)) = true ->
    let r := rsqrt (a * a - s) in r * r = a * a - s ->
    let c := rsqrt (half SO (a + r)) in c * c = half SO (a + r) -> c * rinv c = rI ->
    let y := sqrt_model_with SO F A x in gp O A y y == x.
  Proof. intros Hd A Hwf F HF x s.
    exact (sqrt_model_study R rO rI radd rmul rsub ropp Rth divn rsqrt rinv A (wf_sign_hyps A Hwf) Hd F HF x s). Qed.
  Theorem C19_sqrt_null : divn_ok -> forall A, wf_alg A = true -> forall F, filter_ok A F -> forall x,
    wfmv A x -> is_scalar_only x = false ->
    let a := coeff O 0 x in let bI := study_bI SO F A x in
    mv_truthy (F (gp O A bI bI)) = false ->
    let c := rsqrt a in c * c = a -> c * rinv c = rI ->
    let y := sqrt_model_with SO F A x in gp O A y y == x.
  Proof. intros Hd A Hwf F HF x.
    exact (sqrt_model_null R rO rI radd rmul rsub ropp Rth divn rsqrt rinv A (wf_sign_hyps A Hwf) Hd F HF x). Qed.

  (* ---------- norm, normalized ---------- *)
  (* norm squared is normsq (when the generated normsq stores the scalar blade only) *)
  Theorem C19_norm_square : forall A, wf_alg A = true -> forall F x n,
    normsq_with O F A x = [(0, n)] -> rsqrt n * rsqrt n = n ->
    gp O A (norm_with SO F A x) (norm_with SO F A x) == normsq_with O F A x.
  Proof. intros A Hwf F x n.
    exact (norm_square R rO rI radd rmul rsub ropp Rth divn rsqrt rinv A (wf_sign_hyps A Hwf) F x n). Qed.
  (* normalized(x) has squared norm 1 *)
  Theorem C19_normalized : forall A, wf_alg A = true -> forall invf F, filter_ok A F -> forall x n r ni,
    wfmv A x -> normsq O A x == scal n one ->
    norm_with SO F A x == scal r one -> wfmv A (norm_with SO F A x) -> r * r = n ->
    invf (norm_with SO F A x) = Ok ni -> wfmv A ni -> gp O A (norm_with SO F A x) ni == one ->
    exists t, normalized_with SO F invf A x = Ok t /\ wfmv A t /\ normsq O A t == one.
  Proof. intros A Hwf invf F HF x n r ni.
    exact (normalized_spec R rO rI radd rmul rsub ropp Rth divn rsqrt rinv A (wf_sign_hyps A Hwf) invf F HF x n r ni). Qed.

  (* ---------- exp ---------- *)
  (* the partial sums of the power series of an x with x x = s:
       sum_{k<=2n+1} x^k/k! = (sum_{j<=n} s^j/(2j)!) + (sum_{j<=n} s^j/(2j+1)!) x       for every n *)
  Theorem C19_exp_formula : forall A, wf_alg A = true -> forall x s, wfmv A x -> gp O A x x == scal s one ->
    forall n, msum A (map (pterm A x) (seq 0 (2 * n + 2))) == E A x (ev s n) (od s n).
  Proof. intros A Hwf x s Hx Hsq n.
    exact (exp_formula_algebraic R rO rI radd rmul rsub ropp Rth divn rsqrt rinv A (wf_sign_hyps A Hwf) x Hx s Hsq n). Qed.
  (* a square-zero element: every partial sum from the second on is 1 + x *)
  Theorem C19_exp_zero_square : divn_ok -> forall A, wf_alg A = true -> forall x n, wfmv A x -> gp O A x x == [] ->
    msum A (map (pterm A x) (seq 0 (2 * n + 2))) == E A x rI rI.
  Proof. intros Hd A Hwf x n.
    exact (exp_zero_square R rO rI radd rmul rsub ropp Rth divn rsqrt rinv A (wf_sign_hyps A Hwf) Hd x n). Qed.
  (* what MultiVector.exp returns: cosh(l) + sinhc(l) x with l = sqrt(s), s = the scalar x x, for the triple
     selected by the class of s *)
  Theorem C19_exp_model : forall A, wf_alg A = true -> forall truth classify tf,
    (forall v, truth v = Ok false -> v = rO) -> forall x r, wfmv A x ->
    exp_model SO truth classify tf A x = Ok r ->
    exists ll, filter_truth truth (gp O A x x) = Ok ll /\ exp_not_implemented ll = false /\
      let s := coeff O 0 ll in gp O A x x == scal s one /\
      let '(fsqrt, fcosh, fsinhc) := tf (exp_branch (classify s)) in
      wfmv A r /\ r == E A x (fcosh (fsqrt s)) (fsinhc (fsqrt s)).
  Proof. intros A Hwf truth classify tf Ht x r.
    exact (exp_model_spec R rO rI radd rmul rsub ropp Rth divn rsqrt rinv A (wf_sign_hyps A Hwf) truth classify tf Ht x r). Qed.
  Theorem C19_exp_raises : forall A truth classify tf (x ll : mv R), filter_truth truth (gp O A x x) = Ok ll ->
    (exp_model SO truth classify tf A x = Err ENotImpl <-> exp_not_implemented ll = true).
  Proof. intros A truth classify tf x ll.
    exact (exp_raises R rO rI radd rmul rsub ropp divn rsqrt rinv A truth classify tf x ll). Qed.
  (* with an exact zero test NotImplementedError is not raised for an element whose square is a scalar *)
  Theorem C19_exp_defined : forall A, wf_alg A = true -> forall truth, (forall v, truth v = Ok false -> v = rO) ->
    forall x s ll, wfmv A x -> gp O A x x == scal s one -> (forall v, truth v = Ok true -> v <> rO) ->
    filter_truth truth (gp O A x x) = Ok ll -> exp_not_implemented ll = false.
  Proof. intros A Hwf truth Ht x s ll.
    exact (exp_defined R rO rI radd rmul rsub ropp Rth A (wf_sign_hyps A Hwf) truth Ht x s ll). Qed.
  (* the branch selection installs each triple for exactly one class of ll = (x*x).e *)
  Theorem C19_exp_branch : forall c,
    match exp_branch c with THyp => c = LPos | TUnit => c = LZero | TTrigSym => c = LExpr | TTrigNum => c = LOther end.
  Proof. exact exp_branch_sound. Qed.
  (* known finding (F11): when taking the truth value of a coefficient of x*x raises (numpy arrays: ValueError)
     exp raises that error instead of returning the exponential *)
  Theorem C19_exp_array_refuted : forall A truth classify tf (x : mv R) k v rest e,
    gp O A x x = (k, v) :: rest -> truth v = Err e -> exp_model SO truth classify tf A x = Err e.
  Proof. intros A truth classify tf x k v rest e.
    exact (exp_truth_error R rO rI radd rmul rsub ropp divn rsqrt rinv A truth classify tf x k v rest e). Qed.
End Ring.
Print Assumptions C19_invfact.
Print Assumptions C19_outerexp_terms.
Print Assumptions C19_outerexp_break_sound.
Print Assumptions C19_outerexp.
Print Assumptions C19_outerexp_full_series.
Print Assumptions C19_outersin.
Print Assumptions C19_outercos.
Print Assumptions C19_outersin_cos_split.
Print Assumptions C19_outertan.
Print Assumptions C19_pow_zero.
Print Assumptions C19_pow_int.
Print Assumptions C19_pow_neg.
Print Assumptions C19_pow_neg_err.
Print Assumptions C19_pow_half.
Print Assumptions C19_pow_add.
Print Assumptions C19_pow_inverse.
Print Assumptions C19_E_mul.
Print Assumptions C19_sqrt_formula.
Print Assumptions C19_sqrt_scalar.
Print Assumptions C19_sqrt_study.
Print Assumptions C19_sqrt_null.
Print Assumptions C19_norm_square.
Print Assumptions C19_normalized.
Print Assumptions C19_exp_formula.
Print Assumptions C19_exp_zero_square.
Print Assumptions C19_exp_model.
Print Assumptions C19_exp_raises.
Print Assumptions C19_exp_defined.
Print Assumptions C19_exp_branch.
Print Assumptions C19_exp_array_refuted.

(* ---------- exp over the real numbers (standard-library Reals; v / j is real division) ---------- *)
From Coq Require Import Reals.
(* for every real s the (sqrt, cosh, sinhc) triple that MultiVector.exp selects for a python float s
   (s > 0: sqrt, cosh, sinh(l)/l;  s = 0: 1, 1;  s < 0: sqrt(-s), cos, sinc) gives the limits of the two scalar
   series  sum_j s^j/(2j)!  and  sum_j s^j/(2j+1)! *)
Theorem C19_exp_series_limit : forall s : R,
  let '(fsqrt, fcosh, fsinhc) := tf_real (exp_branch (classify_float s)) in
  Un_cv (ev R 0%R 1%R Rplus Rmult Rdivn s) (fcosh (fsqrt s)) /\
  Un_cv (od R 0%R 1%R Rplus Rmult Rdivn s) (fsinhc (fsqrt s)).
Proof. exact exp_series_limit. Qed.
(* hence, in every well-formed algebra, for a real x with x x = s the partial sums sum_{k<=2n+1} x^k/k! of the
   power series converge blade by blade to cosh(l) + sinhc(l) x, the value MultiVector.exp assembles *)
Theorem C19_exp_power_series : forall A, wf_alg A = true -> forall (x : mv R) (s : R),
  wfmv A x ->
  equiv 0%R 1%R Rplus Rmult Rminus Ropp (gp (mkOps R Rplus Rminus Rmult Ropp 0%R 1%R) A x x) (Algebra.scal Rmult s (Algebra.one 1%R)) ->
  let '(fsqrt, fcosh, fsinhc) := tf_real (exp_branch (classify_float s)) in
  forall K,
    Un_cv (fun n => coeff (mkOps R Rplus Rminus Rmult Ropp 0%R 1%R) K
                      (msum R 0%R 1%R Rplus Rmult Rminus Ropp A
                         (map (pterm R 0%R 1%R Rplus Rmult Rminus Ropp Rdivn A x) (seq 0 (2 * n + 2)))))
          (coeff (mkOps R Rplus Rminus Rmult Ropp 0%R 1%R) K
             (E R 0%R 1%R Rplus Rmult Rminus Ropp A x (fcosh (fsqrt s)) (fsinhc (fsqrt s)))).
Proof. intros A Hwf x s. exact (exp_power_series A (wf_sign_hyps A Hwf) x s). Qed.
(* sqrt(x) * sqrt(x) = x for a real Study number x = a + bI, (bI)^2 = s, with positive scalar part a and
   non-negative Study norm a^2 - s (automatic for s <= 0): the unchecked hypotheses of C19_sqrt_study hold *)
Theorem C19_sqrt_study_real : forall A, wf_alg A = true -> forall F (x : mv R) (s : R),
  Series.filter_ok R 0%R 1%R Rplus Rmult Rminus Ropp A F -> wfmv A x -> is_scalar_only x = false ->
  let a := coeff RO 0 x in let bI := study_bI RSO F A x in
  equiv 0%R 1%R Rplus Rmult Rminus Ropp (gp RO A bI bI) (Algebra.scal Rmult s (Algebra.one 1%R)) ->
  mv_truthy (F (gp RO A bI bI)) = true ->
  (0 < a)%R -> (0 <= a * a - s)%R ->
  let y := sqrt_model_with RSO F A x in equiv 0%R 1%R Rplus Rmult Rminus Ropp (gp RO A y y) x.
Proof. intros A Hwf F x s. exact (sqrt_study_real A (wf_sign_hyps A Hwf) F x s). Qed.
Print Assumptions C19_exp_series_limit.
Print Assumptions C19_exp_power_series.
Print Assumptions C19_sqrt_study_real.

(* ---- source pins: the functions whose hand-written model carries the theorems above are still, textually (after
   ast normalisation), the functions the model was validated against; an edit breaks Bridge/Pins_C19.v ---- *)
From KV Require Bridge.Pins_C19.
