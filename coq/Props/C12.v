(* Props/C12.v — symbolic evaluation commutes with numeric evaluation.
   map_mv h applies h to every stored coefficient.  For ANY map h that preserves the operations the
   generators use (0, 1, +, *, -, unary minus) - in particular the evaluation of kingdon's polynomials
   at ANY values in ANY commutative ring - substituting after operating is LITERALLY (same keys, same
   order) operating after substituting, for any partition of the coefficients into symbols and numbers.
   Statements only; proofs in Theory/Natural.v. *)
From Coq Require Import Ring_theory.
From KV Require Import Model.All Model.Composite Model.Poly Bridge.Codegen Theory.Sparse Theory.Poly Theory.Natural.
Local Open Scope Z_scope.

(* every product-type operator (any sign function, filter, key-out function) and the canonical re-sort *)
Theorem C12_products_natural : forall (R S : Type) (OR : ops R) (OS : ops S) (h : R -> S), ops_hom OR OS h ->
  forall A sfun filt kout (x y : mv R),
  map_mv h (canon_sort A (codegen_product OR sfun filt kout x y))
  = canon_sort A (codegen_product OS sfun filt kout (map_mv h x) (map_mv h y)).
Proof. intros. rewrite nat_canon_sort. f_equal. apply nat_codegen_product. assumption. Qed.
Print Assumptions C12_products_natural.

Theorem C12_operators_natural : forall (R S : Type) (OR : ops R) (OS : ops S) (h : R -> S), ops_hom OR OS h ->
  forall A (x y : mv R),
  map_mv h (gp OR A x y) = gp OS A (map_mv h x) (map_mv h y) /\
  map_mv h (op OR A x y) = op OS A (map_mv h x) (map_mv h y) /\
  map_mv h (ip OR A x y) = ip OS A (map_mv h x) (map_mv h y) /\
  map_mv h (rp OR A x y) = rp OS A (map_mv h x) (map_mv h y) /\
  map_mv h (cp OR A x y) = cp OS A (map_mv h x) (map_mv h y) /\
  map_mv h (add OR A x y) = add OS A (map_mv h x) (map_mv h y) /\
  map_mv h (sub OR A x y) = sub OS A (map_mv h x) (map_mv h y) /\
  map_mv h (neg OR A x) = neg OS A (map_mv h x) /\
  map_mv h (reverse OR A x) = reverse OS A (map_mv h x) /\
  map_mv h (hodge OR A x) = hodge OS A (map_mv h x) /\
  map_mv h (sw OR A x y) = sw OS A (map_mv h x) (map_mv h y) /\
  map_mv h (proj OR A x y) = proj OS A (map_mv h x) (map_mv h y) /\
  map_mv h (normsq OR A x) = normsq OS A (map_mv h x).
Proof.
  intros R S OR OS h H A x y.
  repeat split; [apply nat_gp | apply nat_op | apply nat_ip | apply nat_rp | apply nat_cp | apply nat_add | apply nat_sub
                | apply nat_neg | apply nat_reverse | apply nat_hodge | apply nat_sw | apply nat_proj | apply nat_normsq]; exact H.
Qed.
Print Assumptions C12_operators_natural.

(* evaluation of kingdon's polynomials IS such a map, for every commutative ring and valuation *)
Theorem C12_evaluation_is_homomorphism : forall (R : Type) (R0 R1 : R) (Radd Rmul Rsub : R -> R -> R) (Ropp : R -> R),
  ring_theory R0 R1 Radd Rmul Rsub Ropp (@eq R) -> forall rho : nat -> R,
  ops_hom Pops (mkOps R Radd Rsub Rmul Ropp R0 R1) (peval R R0 R1 Radd Rmul Ropp rho).
Proof. intros. apply peval_hom. assumption. Qed.
Print Assumptions C12_evaluation_is_homomorphism.

(* the automatic simplification drops a blade only if its coefficient is identically zero: dropping
   the falsy coefficients does not change any coefficient after evaluation *)
Theorem C12_filter_sound : forall (R : Type) (R0 R1 : R) (Radd Rmul Rsub : R -> R -> R) (Ropp : R -> R),
  ring_theory R0 R1 Radd Rmul Rsub Ropp (@eq R) -> forall (rho : nat -> R) (X : mv poly),
  NoDup (keys X) -> all_coeffs Inv X ->
  Sparse.equiv R0 R1 Radd Rmul Rsub Ropp
    (map_mv (peval R R0 R1 Radd Rmul Ropp rho) (filter_nz pzero X))
    (map_mv (peval R R0 R1 Radd Rmul Ropp rho) X).
Proof. intros. apply (filter_poly_equiv _ _ _ _ _ _ _ H); assumption. Qed.
Print Assumptions C12_filter_sound.

(* the kernels deciding the SHAPE of a generated function depend on keys only (regenerated from source) *)
Theorem C12_kernels_value_independent : forall s kx ky,
  Gen.Codegen.term_positive s = Z.ltb 0 s /\ Gen.Codegen.keyout_default kx ky = Z.lxor kx ky.
Proof. intros. split; reflexivity. Qed.
Print Assumptions C12_kernels_value_independent.

(* the polynomial class the symbolic generators run on: its translated kernels and pinned methods (see Props/C17.v) *)
From KV Require Bridge.Poly Bridge.Pins_C17.
