(* Props/C12.v — symbolic evaluation commutes with numeric evaluation.
   map_mv h applies h to every stored coefficient.  For ANY map h that preserves the operations the
   generators use (0, 1, +, *, -, unary minus) - in particular the evaluation of kingdon's polynomials
   at ANY values in ANY commutative ring - substituting after operating is LITERALLY (same keys, same
   order) operating after substituting, for any partition of the coefficients into symbols and numbers.
   Statements only; proofs in Theory/Natural.v. *)
From Coq Require Import Ring_theory.
From KV Require Import Model.All Model.Composite Model.Poly Bridge.Codegen Theory.Sparse Theory.Poly Theory.Natural.
Local Open Scope Z_scope.

(* every product-type operator (any sign function, filter, key-out function) and the canonical re-sort *)
Theorem C12_products_natural : forall (R S : Type) (OR : ops R) (OS : ops S) (h : R -> S), ops_hom OR OS h ->
  forall A sfun filt kout (x y : mv R),
  map_mv h (canon_sort A (codegen_product OR sfun filt kout x y))
  = canon_sort A (codegen_product OS sfun filt kout (map_mv h x) (map_mv h y)).
Proof. intros. rewrite nat_canon_sort. f_equal. apply nat_codegen_product. assumption. Qed.
Print Assumptions C12_products_natural.

Theorem C12_operators_natural : forall (R S : Type) (OR : ops R) (OS : ops S) (h : R -> S), ops_hom OR OS h ->
  forall A (x y : mv R),
  map_mv h (gp OR A x y) = gp OS A (map_mv h x) (map_mv h y) /\
  map_mv h (op OR A x y) = op OS A (map_mv h x) (map_mv h y) /\
  map_mv h (ip OR A x y) = ip OS A (map_mv h x) (map_mv h y) /\
  map_mv h (rp OR A x y) = rp OS A (map_mv h x) (map_mv h y) /\
  map_mv h (cp OR A x y) = cp OS A (map_mv h x) (map_mv h y) /\
  map_mv h (add OR A x y) = add OS A (map_mv h x) (map_mv h y) /\
  map_mv h (sub OR A x y) = sub OS A (map_mv h x) (map_mv h y) /\
  map_mv h (neg OR A x) = neg OS A (map_mv h x) /\
  map_mv h (reverse OR A x) = reverse OS A (map_mv h x) /\
  map_mv h (hodge OR A x) = hodge OS A (map_mv h x) /\
  map_mv h (sw OR A x y) = sw OS A (map_mv h x) (map_mv h y) /\
  map_mv h (proj OR A x y) = proj OS A (map_mv h x) (map_mv h y) /\
  map_mv h (normsq OR A x) = normsq OS A (map_mv h x).
Proof.
  intros R S OR OS h H A x y.
  repeat split; [apply nat_gp | apply nat_op | apply nat_ip | apply nat_rp | apply nat_cp | apply nat_add | apply nat_sub
                | apply nat_neg | apply nat_reverse | apply nat_hodge | apply nat_sw | apply nat_proj | apply nat_normsq]; exact H.
Qed.
Print Assumptions C12_operators_natural.

(* evaluation of kingdon's polynomials IS such a map, for every commutative ring and valuation *)
Theorem C12_evaluation_is_homomorphism : forall (R : Type) (R0 R1 : R) (Radd Rmul Rsub : R -> R -> R) (Ropp : R -> R),
  ring_theory R0 R1 Radd Rmul Rsub Ropp (@eq R) -> forall rho : nat -> R,
  ops_hom Pops (mkOps R Radd Rsub Rmul Ropp R0 R1) (peval R R0 R1 Radd Rmul Ropp rho).
Proof. intros. apply peval_hom. assumption. Qed.
Print Assumptions C12_evaluation_is_homomorphism.

(* the automatic simplification drops a blade only if its coefficient is identically zero: dropping
   the falsy coefficients does not change any coefficient after evaluation *)
Theorem C12_filter_sound : forall (R : Type) (R0 R1 : R) (Radd Rmul Rsub : R -> R -> R) (Ropp : R -> R),
  ring_theory R0 R1 Radd Rmul Rsub Ropp (@eq R) -> forall (rho : nat -> R) (X : mv poly),
  NoDup (keys X) -> all_coeffs Inv X ->
  Sparse.equiv R0 R1 Radd Rmul Rsub Ropp
    (map_mv (peval R R0 R1 Radd Rmul Ropp rho) (filter_nz pzero X))
    (map_mv (peval R R0 R1 Radd Rmul Ropp rho) X).
Proof. intros. apply (filter_poly_equiv _ _ _ _ _ _ _ H); assumption. Qed.
Print Assumptions C12_filter_sound.

(* the kernels deciding the SHAPE of a generated function depend on keys only (regenerated from source) *)
Theorem C12_kernels_value_independent : forall s kx ky,
  Gen.Codegen.term_positive s = Z.ltb 0 s /\ Gen.Codegen.keyout_default kx ky = Z.lxor kx ky.
Proof. intros. split; reflexivity. Qed.
Print Assumptions C12_kernels_value_independent.

(* ================= the call: argument binding and substitution (Model/Call.v, Theory/Call.v) =================
   A symbol is its name (list of code points), a symbolic coefficient an expression tree over names, values live
   in any structure [ops S] with the image [inj] of the python integers; [call] follows MultiVector.__call__ /
   _lambdify_mv statement by statement, exceptions included. *)
From Coq Require Import Permutation Sorted.
From KV Require Import Model.Call Theory.Call.

(* "name order" is well defined: python's string order is a strict total order on names *)
Theorem C12_name_order_strict_total : forall a b c : sname,
  str_ltb a a = false /\
  (str_ltb a b = true -> str_ltb b c = true -> str_ltb a c = true) /\
  ((str_lt a b /\ a <> b /\ ~ str_lt b a) \/ (~ str_lt a b /\ a = b /\ ~ str_lt b a) \/ (~ str_lt a b /\ a <> b /\ str_lt b a)).
Proof. exact (fun a b c => conj (str_ltb_irrefl a) (conj (str_ltb_trans a b c) (str_ltb_trichotomy a b))). Qed.
Print Assumptions C12_name_order_strict_total.

(* free_symbols is the duplicate-free set of the names occurring in some coefficient *)
Theorem C12_free_symbols : forall (x : mv sexpr),
  NoDup (free_symbols x) /\ forall n, In n (free_symbols x) <-> exists kv, In kv x /\ occurs n (snd kv).
Proof. exact (fun x => conj (free_symbols_NoDup x) (free_symbols_In x)). Qed.
Print Assumptions C12_free_symbols.

(* sorted(free_symbols, key=name): strictly increasing, a permutation of the set, and the only such list
   (whatever the iteration order of the python set) *)
Theorem C12_sorted_names : forall (x : mv sexpr),
  StronglySorted str_lt (sorted_names (free_symbols x)) /\
  Permutation (sorted_names (free_symbols x)) (free_symbols x) /\
  (forall l, StronglySorted str_lt l -> (forall n, In n l <-> In n (free_symbols x)) -> l = sorted_names (free_symbols x)).
Proof.
  exact (fun x => conj (sorted_names_sorted _) (conj (sorted_names_perm _ (free_symbols_NoDup x))
                                                     (fun l => sorted_names_unique (free_symbols x) l))).
Qed.
Print Assumptions C12_sorted_names.

(* positional arguments: the i-th argument is bound to the i-th free symbol in name order; the result has the
   keys of the multivector in the same order and, per key, the value of the coefficient under ANY valuation
   with that binding *)
Theorem C12_call_positional : forall (S : Type) (OS : ops S) (inj : Z -> S) (x : mv sexpr) (args : list S) (rho : sname -> S),
  let names := sorted_names (free_symbols x) in
  (names = [] \/ length args = length names) ->
  (forall i n a, nth_error names i = Some n -> nth_error args i = Some a -> rho n = a) ->
  call_positional OS inj x args = Ok (map_mv (evalT OS inj rho) x).
Proof. exact (fun S OS inj => call_positional_spec OS inj). Qed.
Print Assumptions C12_call_positional.

(* ... it raises exactly when there are free symbols and their number is not the number of arguments: ValueError *)
Theorem C12_call_positional_raises_iff : forall (S : Type) (OS : ops S) (inj : Z -> S) (x : mv sexpr) (args : list S) e,
  call_positional OS inj x args = Err e <->
  free_symbols x <> [] /\ length args <> length (free_symbols x) /\ e = EValue.
Proof. exact (fun S OS inj => call_positional_raises_iff OS inj). Qed.
Print Assumptions C12_call_positional_raises_iff.

(* keyword arguments are bound by name *)
Theorem C12_call_keywords : forall (S : Type) (OS : ops S) (inj : Z -> S) (x : mv sexpr) (kw : list (sname * S)) (rho : sname -> S),
  (forall n, In n (free_symbols x) -> kw_get n kw = Some (rho n)) ->
  call_keywords OS inj x kw = Ok (map_mv (evalT OS inj rho) x).
Proof. exact (fun S OS inj => call_keywords_spec OS inj). Qed.
Print Assumptions C12_call_keywords.

(* ... in whatever order the keywords are passed (value and exception alike) *)
Theorem C12_call_keywords_order_irrelevant : forall (S : Type) (OS : ops S) (inj : Z -> S) (x : mv sexpr) (kw kw' : list (sname * S)),
  NoDup (map fst kw) -> Permutation kw kw' -> call_keywords OS inj x kw = call_keywords OS inj x kw'.
Proof. exact (fun S OS inj => call_keywords_order_irrelevant OS inj). Qed.
Print Assumptions C12_call_keywords_order_irrelevant.

(* ... keywords {name_i := a_i} = positional (a_1, ..., a_n) *)
Theorem C12_call_keywords_eq_positional : forall (S : Type) (OS : ops S) (inj : Z -> S) (x : mv sexpr) (args : list S),
  let names := sorted_names (free_symbols x) in
  (names = [] \/ length args = length names) ->
  call_keywords OS inj x (combine names args) = call_positional OS inj x args.
Proof. exact (fun S OS inj => call_keywords_eq_positional OS inj). Qed.
Print Assumptions C12_call_keywords_eq_positional.

(* every exception of __call__: both kinds of arguments (Exception); free symbols and a wrong number of
   positional arguments, zero included (ValueError); free symbols and keywords that leave some free symbol
   without a value (KeyError).  A keyword that names no free symbol is otherwise ignored. *)
Theorem C12_call_raises_iff : forall (S : Type) (OS : ops S) (inj : Z -> S) (x : mv sexpr) (args : list S) (kw : list (sname * S)) e,
  call OS inj x args kw = Err e <->
  (args <> [] /\ kw <> [] /\ e = EOther) \/
  (kw = [] /\ free_symbols x <> [] /\ length args <> length (free_symbols x) /\ e = EValue) \/
  (args = [] /\ kw <> [] /\ free_symbols x <> [] /\ e = EKey /\ exists n, In n (free_symbols x) /\ kw_get n kw = None).
Proof. exact (fun S OS inj => call_raises_iff OS inj). Qed.
Print Assumptions C12_call_raises_iff.

Theorem C12_call_keywords_extra_ignored : forall (S : Type) (OS : ops S) (inj : Z -> S) (x : mv sexpr) (kw kw' : list (sname * S)),
  (kw = [] <-> kw' = []) -> (forall n, In n (free_symbols x) -> kw_get n kw = kw_get n kw') ->
  call_keywords OS inj x kw = call_keywords OS inj x kw'.
Proof. exact (fun S OS inj => call_keywords_extra_ignored OS inj). Qed.
Print Assumptions C12_call_keywords_extra_ignored.

(* the model operators do not invent symbols ... *)
Theorem C12_operators_no_new_symbols : forall A (x y : mv sexpr) n,
  (forall o, In n (free_symbols (run2 o A sexpr Eops x y)) -> In n (free_symbols x) \/ In n (free_symbols y)) /\
  (forall o, In n (free_symbols (run1 o A sexpr Eops x)) -> In n (free_symbols x)).
Proof.
  exact (fun A x y n => conj (fun o => natural2_no_new_symbols _ (run2_natural o A) x y n)
                             (fun o => natural1_no_new_symbols _ (run1_natural o A) x n)).
Qed.
Print Assumptions C12_operators_no_new_symbols.

(* ... and CALLING THE RESULT of a model operator on symbolic operands = the operator on the called operands
   (run2: gp op ip lc rc sp cp acp rp add sub sw proj; run1: neg reverse involute conjugate hodge unhodge normsq),
   for keywords binding the free symbols of the operands, literally: same keys, same order *)
Theorem C12_call_commutes : forall (S : Type) (OS : ops S) (inj : Z -> S), inj 0 = o_zero OS -> inj 1 = o_one OS ->
  forall A (x y : mv sexpr) (kw : list (sname * S)) (rho : sname -> S),
  (forall n, In n (free_symbols x) \/ In n (free_symbols y) -> kw_get n kw = Some (rho n)) ->
  call_keywords OS inj x kw = Ok (map_mv (evalT OS inj rho) x) /\
  call_keywords OS inj y kw = Ok (map_mv (evalT OS inj rho) y) /\
  (forall o, call_keywords OS inj (run2 o A sexpr Eops x y) kw
             = Ok (run2 o A S OS (map_mv (evalT OS inj rho) x) (map_mv (evalT OS inj rho) y))) /\
  (forall o, call_keywords OS inj (run1 o A sexpr Eops x) kw = Ok (run1 o A S OS (map_mv (evalT OS inj rho) x))).
Proof.
  exact (fun S OS inj i0 i1 A x y kw rho Hb =>
    conj (proj1 (proj2 (call_commutes2 OS inj i0 i1 _ (run2_natural Bgp A) x y kw rho Hb)))
   (conj (proj2 (proj2 (call_commutes2 OS inj i0 i1 _ (run2_natural Bgp A) x y kw rho Hb)))
   (conj (fun o => proj1 (call_commutes2 OS inj i0 i1 _ (run2_natural o A) x y kw rho Hb))
         (fun o => proj1 (call_commutes1 OS inj i0 i1 _ (run1_natural o A) x kw rho (fun n Hn => Hb n (or_introl Hn))))))).
Qed.
Print Assumptions C12_call_commutes.

(* positional: the arguments follow the free symbols of the RESULT in name order; a symbol of the operands
   that cancelled in the result may take any value *)
Theorem C12_call_commutes_positional : forall (S : Type) (OS : ops S) (inj : Z -> S), inj 0 = o_zero OS -> inj 1 = o_one OS ->
  forall A o (x y : mv sexpr) (args : list S) (rho : sname -> S),
  let names := sorted_names (free_symbols (run2 o A sexpr Eops x y)) in
  (names = [] \/ length args = length names) ->
  (forall i n a, nth_error names i = Some n -> nth_error args i = Some a -> rho n = a) ->
  call_positional OS inj (run2 o A sexpr Eops x y) args
  = Ok (run2 o A S OS (map_mv (evalT OS inj rho) x) (map_mv (evalT OS inj rho) y)).
Proof. exact (fun S OS inj i0 i1 A o => call_commutes2_positional OS inj i0 i1 _ (run2_natural o A)). Qed.
Print Assumptions C12_call_commutes_positional.

Theorem C12_call_commutes_positional_unary : forall (S : Type) (OS : ops S) (inj : Z -> S), inj 0 = o_zero OS -> inj 1 = o_one OS ->
  forall A o (x : mv sexpr) (args : list S) (rho : sname -> S),
  let names := sorted_names (free_symbols (run1 o A sexpr Eops x)) in
  (names = [] \/ length args = length names) ->
  (forall i n a, nth_error names i = Some n -> nth_error args i = Some a -> rho n = a) ->
  call_positional OS inj (run1 o A sexpr Eops x) args = Ok (run1 o A S OS (map_mv (evalT OS inj rho) x)).
Proof. exact (fun S OS inj i0 i1 A o => call_commutes1_positional OS inj i0 i1 _ (run1_natural o A)). Qed.
Print Assumptions C12_call_commutes_positional_unary.

(* the polynomial class the symbolic generators run on: its translated kernels and pinned methods (see Props/C17.v) *)
From KV Require Bridge.Poly Bridge.Pins_C17.
(* the functions Model/Call.v follows statement by statement *)
From KV Require Bridge.Pins_C12.
