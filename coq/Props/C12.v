(* Props/C12.v — symbolic evaluation commutes with numeric evaluation.  Statements only.
   (The naturality theorems of Theory/Natural.v are added below when that file is part of the build.) *)
From KV Require Import Model.All Bridge.Codegen.
Local Open Scope Z_scope.

(* the generated functions are built from the kernels below only (regenerated from today's source):
   their shape depends on the keys, never on coefficient values *)
Theorem C12_kernels_value_independent : forall s kx ky,
  Gen.Codegen.term_positive s = Z.ltb 0 s /\ Gen.Codegen.keyout_default kx ky = Z.lxor kx ky.
Proof. intros. split; reflexivity. Qed.
Print Assumptions C12_kernels_value_independent.
