(* Props/C14.v — custom bases and start indices are a pure relabelling.  Statements only; proofs in
   Theory/Relabel.v (on top of Theory/Sign.v, Theory/SignBits.v, Theory/Product.v, Theory/Ops.v).

   A is the algebra with the custom basis (reordered generators, permuted blade spellings such as e31,
   any order within a grade, any start index), D any other well-formed algebra with the same signature
   list and start index - the intended D is the default-basis algebra mk_default (a_sig A) (a_start A) _
   (C14_default_is_instance), but nothing uses that: the statements are symmetric.
     phi(e_I of A) := the ORDERED PRODUCT in D of the generators of A's spelling of I
                    = phi_sign A D I * e_(phi_key A D I) of D      (C14_phi_is_ordered_product)
   Every theorem: every dimension, signature over {1,-1,0}, start index, admissible basis
   (wf_alg, decidable), every commutative ring of coefficients, all duplicate-free in-range key lists.
   The dual-type operators (hodge, unhodge, polarity, unpolarity, dual, undual, rp) commute with phi up
   to the orientation o = phi_sign A D (pss_key A) of the custom pseudoscalar, as C05 forces
   (E ^ hodge E = pss).  Not here: inverse/division (partial as C07), matrix representation (known
   finding F10) and the rejection clause (dataclass equality) are handled elsewhere. *)
From Coq Require Import Ring_theory Permutation.
From KV Require Import Model.All Theory.WF Theory.Words Theory.Sign Theory.Sparse Theory.Product Theory.Ops
  Theory.SignBits Theory.OpsWF Theory.Relabel.
Local Open Scope Z_scope.

(* the three named constructors are well-formed instances *)
Theorem C14_named_algebras_wellformed :
  let wf r := match r with Ok A => wf_alg A | Err _ => false end in
  wf (mk_custom (sig_of_pqr 2 0 1) [[];[1];[2];[0];[2;0];[0;1];[1;2];[0;1;2]]%nat false) = true /\
  wf (mk_custom (sig_of_pqr 3 0 1) [[];[1];[2];[3];[0];[0;1];[0;2];[0;3];[1;2];[3;1];[2;3];[0;3;2];[0;1;3];[0;2;1];[1;2;3];[0;1;2;3]]%nat false) = true /\
  wf (mk_custom (sig_of_pqr 3 1 1) [[];[0];[1];[2];[3];[4];[0;1];[0;2];[0;3];[4;0];[1;2];[3;1];[2;3];[4;1];[4;2];[4;3];
        [2;3;4];[3;1;4];[1;2;4];[1;2;3];[0;1;4];[0;2;4];[0;3;4];[0;3;2];[0;1;3];[0;2;1];
        [0;3;2;4];[0;1;3;4];[0;2;1;4];[0;1;2;3];[1;2;3;4];[0;1;2;3;4]]%nat false) = true.
Proof. vm_compute. repeat split. Qed.
Print Assumptions C14_named_algebras_wellformed.

(* in every well-formed algebra a named blade is the ordered product of its generators *)
Theorem C14_named_blade_is_ordered_product : forall A, wf_alg A = true -> forall B n, bin2canon A B = Some n ->
  fold_left (fun '(s, k) g => (s * sgn A k (genbit A g), Z.lxor k (genbit A g))) n (1, 0) = (1, B).
Proof. exact sgn_ordered_product. Qed.
Print Assumptions C14_named_blade_is_ordered_product.

(* ... and the ordered product of ANY duplicate-free spelling n of generators is +-1 times the blade with
   the same generator set: the key is the OR of the generator keys, the sign is the parity of the
   permutation between n and the table's own spelling (difference of inversion parities) *)
Theorem C14_ordered_product_any_spelling : forall A, wf_alg A = true ->
  forall n, NoDup n -> (forall g, In g n -> In g (alg_vecs A)) ->
  0 <= name_key A n < alg_len A /\
  Permutation n (nm A (name_key A n)) /\
  name_fold A n = (par (xorb (inv2 n) (inv2 (nm A (name_key A n)))), name_key A n).
Proof. exact name_fold_closed. Qed.
Print Assumptions C14_ordered_product_any_spelling.

(* accessor clause, one algebra: _blade2canon on any duplicate-free spelling n finds the table's spelling
   c of the same generators and a swap count sw with  e_n1 e_n2 .. = (-1)^sw e_c *)
Theorem C14_blade_lookup_parity : forall A, wf_alg A = true ->
  forall n, NoDup n -> (forall g, In g n -> In g (alg_vecs A)) ->
  exists c sw K,
    blade2canon A n = (Some c, sw) /\ canon2bin A c = Some K /\ bin2canon A K = Some c /\
    Permutation n c /\ name_fold A n = (par (Z.odd sw), K).
Proof. exact blade2canon_spec. Qed.
Print Assumptions C14_blade_lookup_parity.

(* the default-basis algebra of the same signature and start index is an instance of D *)
Theorem C14_default_is_instance : forall A graded,
  let D := mk_default (a_sig A) (a_start A) graded in a_sig A = a_sig D /\ a_start A = a_start D.
Proof. exact default_instance. Qed.
Print Assumptions C14_default_is_instance.

(* phi on a basis blade IS the ordered product of its generators taken in D; +-1, never 0; the spelling
   in D of the image has the same generators *)
Theorem C14_phi_is_ordered_product : forall A D, wf_alg A = true -> wf_alg D = true ->
  a_sig A = a_sig D -> a_start A = a_start D ->
  forall I, 0 <= I < alg_len A ->
  0 <= phi_key A D I < alg_len D /\
  Permutation (nm A I) (nm D (phi_key A D I)) /\
  phi_sign A D I = par (xorb (inv2 (nm A I)) (inv2 (nm D (phi_key A D I)))) /\
  fold_left (fun '(s, k) g => (s * sgn D k (genbit D g), Z.lxor k (genbit D g))) (nm A I) (1, 0)
    = (phi_sign A D I, phi_key A D I).
Proof. exact phi_spec. Qed.
Print Assumptions C14_phi_is_ordered_product.

(* THE TABLE ISOMORPHISM  phi(e_I) phi(e_J) = phi(e_I e_J) *)
Theorem C14_table_isomorphism : forall A D, wf_alg A = true -> wf_alg D = true ->
  a_sig A = a_sig D -> a_start A = a_start D ->
  forall I J, 0 <= I < alg_len A -> 0 <= J < alg_len A ->
  phi_sign A D I * phi_sign A D J * sgn D (phi_key A D I) (phi_key A D J)
    = sgn A I J * phi_sign A D (Z.lxor I J).
Proof. exact table_iso. Qed.
Print Assumptions C14_table_isomorphism.

Theorem C14_phi_key_xor : forall A D, wf_alg A = true -> wf_alg D = true ->
  a_sig A = a_sig D -> a_start A = a_start D ->
  forall I J, 0 <= I < alg_len A -> 0 <= J < alg_len A ->
  phi_key A D (Z.lxor I J) = Z.lxor (phi_key A D I) (phi_key A D J).
Proof. exact phi_lxor. Qed.
Print Assumptions C14_phi_key_xor.

(* phi_key is a bijection of [0, 2^d) (inverse: phi in the other direction, with the same signs),
   preserves the grade, phi_sign is +-1, the pseudoscalar goes to the pseudoscalar *)
Theorem C14_phi_bijection : forall A D, wf_alg A = true -> wf_alg D = true ->
  a_sig A = a_sig D -> a_start A = a_start D ->
  alg_len A = alg_len D /\
  phi_key A D (pss_key A) = pss_key D /\
  forall I, 0 <= I < alg_len A ->
    0 <= phi_key A D I < alg_len D /\
    phi_key D A (phi_key A D I) = I /\ phi_sign D A (phi_key A D I) = phi_sign A D I /\
    popcount (phi_key A D I) = popcount I /\
    (phi_sign A D I = 1 \/ phi_sign A D I = -1).
Proof. exact phi_bijection. Qed.
Print Assumptions C14_phi_bijection.

Section Ring.
  Variable R : Type.
  Variables (rO rI : R) (radd rmul rsub : R -> R -> R) (ropp : R -> R).
  Hypothesis Rth : ring_theory rO rI radd rmul rsub ropp (@eq R).
  Local Notation O := (mkOps R radd rsub rmul ropp rO rI).
  Local Notation "x == y" := (Sparse.equiv rO rI radd rmul rsub ropp x y) (at level 70, no associativity).
  (* relabel A D x: every stored (k, v) becomes (phi_key A D k, sg (phi_sign A D k) * v);
     mscal c x: every coefficient multiplied by c; sg z: the image of the sign z in the ring *)
  Local Notation relabel := (relabel R rO rI rmul ropp).
  Local Notation mscal := (mscal R rmul).
  Local Notation sg := (Ops.sg rO rI ropp).
  Local Notation iso A D := (wf_alg A = true /\ wf_alg D = true /\ a_sig A = a_sig D /\ a_start A = a_start D).

  (* relabel maps well-formed multivectors of A to well-formed multivectors of D, coefficient by coefficient *)
  Theorem C14_relabel_coeff : forall A D, iso A D -> forall (x : mv R), wfmv A x ->
    wfmv D (relabel A D x) /\
    forall K, 0 <= K < alg_len A -> coeff O (phi_key A D K) (relabel A D x) = rmul (sg (phi_sign A D K)) (coeff O K x).
  Proof. exact (relabel_wf_coeff R rO rI radd rmul rsub ropp Rth). Qed.

  (* phi is multiplicative *)
  Theorem C14_gp : forall A D, iso A D -> forall (x y : mv R), wfmv A x -> wfmv A y ->
    relabel A D (gp O A x y) == gp O D (relabel A D x) (relabel A D y).
  Proof. exact (iso_gp R rO rI radd rmul rsub ropp Rth). Qed.

  (* the grade-based products, the commutator products, sum, difference, negation, involutions *)
  Theorem C14_grade_ops : forall A D, iso A D -> forall (x y : mv R), wfmv A x -> wfmv A y ->
    relabel A D (op O A x y) == op O D (relabel A D x) (relabel A D y) /\
    relabel A D (ip O A x y) == ip O D (relabel A D x) (relabel A D y) /\
    relabel A D (lc O A x y) == lc O D (relabel A D x) (relabel A D y) /\
    relabel A D (rc O A x y) == rc O D (relabel A D x) (relabel A D y) /\
    relabel A D (sp O A x y) == sp O D (relabel A D x) (relabel A D y) /\
    relabel A D (cp O A x y) == cp O D (relabel A D x) (relabel A D y) /\
    relabel A D (acp O A x y) == acp O D (relabel A D x) (relabel A D y) /\
    relabel A D (add O A x y) == add O D (relabel A D x) (relabel A D y) /\
    relabel A D (sub O A x y) == sub O D (relabel A D x) (relabel A D y) /\
    relabel A D (neg O A x) == neg O D (relabel A D x) /\
    relabel A D (reverse O A x) == reverse O D (relabel A D x) /\
    relabel A D (involute O A x) == involute O D (relabel A D x) /\
    relabel A D (conjugate O A x) == conjugate O D (relabel A D x).
  Proof. exact (iso_grade_ops R rO rI radd rmul rsub ropp Rth). Qed.

  (* grade selection: the same KeyError for inadmissible grade lists, corresponding parts otherwise *)
  Theorem C14_grade_selection : forall A D, iso A D -> forall grades (x : mv R), wfmv A x ->
    match grade_sel O A grades x with
    | Ok r => exists r', grade_sel O D grades (relabel A D x) = Ok r' /\ relabel A D r == r'
    | Err e => grade_sel O D grades (relabel A D x) = Err e
    end.
  Proof. exact (iso_grade_sel R rO rI radd rmul rsub ropp Rth). Qed.

  (* the dual-type operators: relative to the image of the custom pseudoscalar, i.e. up to the
     orientation sign o = phi_sign A D (pss_key A); polarity/dual raise the same error *)
  Theorem C14_duals : forall A D, iso A D -> forall (x y : mv R), wfmv A x -> wfmv A y ->
    let o := sg (phi_sign A D (pss_key A)) in
    relabel A D (hodge O A x) == mscal o (hodge O D (relabel A D x)) /\
    relabel A D (unhodge O A x) == mscal o (unhodge O D (relabel A D x)) /\
    relabel A D (unpolarity O A x) == mscal o (unpolarity O D (relabel A D x)) /\
    relabel A D (rp O A x y) == mscal o (rp O D (relabel A D x) (relabel A D y)) /\
    match polarity O A x with
    | Ok r => exists r', polarity O D (relabel A D x) = Ok r' /\ relabel A D r == mscal o r'
    | Err e => polarity O D (relabel A D x) = Err e
    end /\
    (forall k, match dual O A k x with
               | Ok r => exists r', dual O D k (relabel A D x) = Ok r' /\ relabel A D r == mscal o r'
               | Err e => dual O D k (relabel A D x) = Err e
               end) /\
    (forall k, match undual O A k x with
               | Ok r => exists r', undual O D k (relabel A D x) = Ok r' /\ relabel A D r == mscal o r'
               | Err e => undual O D k (relabel A D x) = Err e
               end).
  Proof. exact (iso_duals R rO rI radd rmul rsub ropp Rth). Qed.

  (* every generated product whose sign function, filter and output key correspond under phi up to a
     constant sign c corresponds on multivectors up to c (gp, the filtered products and rp are instances) *)
  Theorem C14_generic_product : forall A D, wf_alg A = true -> wf_alg D = true -> a_sig A = a_sig D -> a_start A = a_start D ->
    forall (sfA sfD : Z -> Z -> Z) (fA fD : option (Z -> Z -> Z -> bool)) (koA koD : Z -> Z -> Z) (c : Z),
    c = 1 \/ c = -1 ->
    (forall a b, 0 <= a < alg_len A -> 0 <= b < alg_len A ->
       0 <= koA a b < alg_len A /\ koD (phi_key A D a) (phi_key A D b) = phi_key A D (koA a b)) ->
    (forall a b, 0 <= a < alg_len A -> 0 <= b < alg_len A ->
       accepts fD (phi_key A D a) (phi_key A D b) (koD (phi_key A D a) (phi_key A D b)) = accepts fA a b (koA a b)) ->
    (forall a b, 0 <= a < alg_len A -> 0 <= b < alg_len A ->
       phi_sign A D a * phi_sign A D b * sfD (phi_key A D a) (phi_key A D b) = c * sfA a b * phi_sign A D (koA a b)) ->
    forall (x y : mv R), wfmv A x -> wfmv A y ->
    relabel A D (canon_sort A (codegen_product O sfA fA koA x y))
    == mscal (sg c) (canon_sort D (codegen_product O sfD fD koD (relabel A D x) (relabel A D y))).
  Proof. exact (relabel_product R rO rI radd rmul rsub ropp Rth). Qed.

  (* accessor clause: the coefficient of a blade spelled with any duplicate-free sequence of generators
     (x.e31, x.e13, ..: the canonical blade found by _blade2canon, negated for an odd swap count) is the
     same before and after relabelling; never "not in the algebra" *)
  Theorem C14_accessors : forall A D, iso A D -> forall n (x : mv R),
    NoDup n -> (forall g, In g n -> In g (alg_vecs A)) -> wfmv A x ->
    exists v, spelled_coeff R rO rI radd rmul rsub ropp A n x = Some v /\
              spelled_coeff R rO rI radd rmul rsub ropp D n (relabel A D x) = Some v.
  Proof. exact (iso_spelled_coeff R rO rI radd rmul rsub ropp Rth). Qed.
End Ring.
Print Assumptions C14_relabel_coeff.
Print Assumptions C14_gp.
Print Assumptions C14_grade_ops.
Print Assumptions C14_grade_selection.
Print Assumptions C14_duals.
Print Assumptions C14_generic_product.
Print Assumptions C14_accessors.

(* non-vacuity: 3DPGA against the default basis of the same signature: phi_sign = -1 on e31, e021, e032,
   the table isomorphism evaluated on all 256 pairs; Cl(1,1) with pseudoscalar e21: orientation o = -1 *)
Theorem C14_instance_3dpga :
  wf_alg ex_pga3d = true /\ wf_alg ex_D = true /\ a_sig ex_pga3d = a_sig ex_D /\ a_start ex_pga3d = a_start ex_D /\
  map (fun I => (phi_key ex_pga3d ex_D I, phi_sign ex_pga3d ex_D I)) (Alg.zrange 16)
  = [(0, 1); (2, 1); (4, 1); (6, 1); (8, 1); (10, -1); (12, 1); (14, 1);
     (1, 1); (3, 1); (5, 1); (7, -1); (9, 1); (11, 1); (13, -1); (15, 1)] /\
  table_iso_b ex_pga3d ex_D = true /\
  phi_sign ex_A2 ex_D2 (pss_key ex_A2) = -1 /\ table_iso_b ex_A2 ex_D2 = true.
Proof. exact ex_instances. Qed.
Print Assumptions C14_instance_3dpga.
