(* Props/C14.v — custom bases and start indices are a pure relabelling.  Statements only.
   (The table isomorphism and multivector-level theorems of Theory/Relabel.v are added when that file
   is part of the build.)  Already available from Theory/SignBits.v: every theorem of C01-C05 is proved
   for every WELL-FORMED algebra - custom generator order, permuted blade spellings, any order within a
   grade, any start index - so a custom basis satisfies exactly the same Clifford relations. *)
From KV Require Import Model.All Theory.WF Theory.SignBits.
Local Open Scope Z_scope.

(* the three named constructors are well-formed instances *)
Theorem C14_named_algebras_wellformed :
  let wf r := match r with Ok A => wf_alg A | Err _ => false end in
  wf (mk_custom (sig_of_pqr 2 0 1) [[];[1];[2];[0];[2;0];[0;1];[1;2];[0;1;2]]%nat false) = true /\
  wf (mk_custom (sig_of_pqr 3 0 1) [[];[1];[2];[3];[0];[0;1];[0;2];[0;3];[1;2];[3;1];[2;3];[0;3;2];[0;1;3];[0;2;1];[1;2;3];[0;1;2;3]]%nat false) = true /\
  wf (mk_custom (sig_of_pqr 3 1 1) [[];[0];[1];[2];[3];[4];[0;1];[0;2];[0;3];[4;0];[1;2];[3;1];[2;3];[4;1];[4;2];[4;3];
        [2;3;4];[3;1;4];[1;2;4];[1;2;3];[0;1;4];[0;2;4];[0;3;4];[0;3;2];[0;1;3];[0;2;1];
        [0;3;2;4];[0;1;3;4];[0;2;1;4];[0;1;2;3];[1;2;3;4];[0;1;2;3;4]]%nat false) = true.
Proof. vm_compute. repeat split. Qed.
Print Assumptions C14_named_algebras_wellformed.

(* in every well-formed algebra a named blade is the ordered product of its generators *)
Theorem C14_named_blade_is_ordered_product : forall A, wf_alg A = true -> forall B n, bin2canon A B = Some n ->
  fold_left (fun '(s, k) g => (s * sgn A k (genbit A g), Z.lxor k (genbit A g))) n (1, 0) = (1, B).
Proof. exact sgn_ordered_product. Qed.
Print Assumptions C14_named_blade_is_ordered_product.
