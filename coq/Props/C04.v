(* Props/C04.v — sum, difference, negation, involutions and grade selection act blade-wise.
   Statements only; proofs in Theory/Product.v and Theory/Bits.v. *)
From Coq Require Import Ring_theory.
From KV Require Import Model.All Bridge.Codegen Theory.WF Theory.Sparse Theory.Product Theory.Bits Theory.Ops Theory.OpsWF.
Local Open Scope Z_scope.

Section Ring.
  Variable R : Type.
  Variables (rO rI : R) (radd rmul rsub : R -> R -> R) (ropp : R -> R).
  Hypothesis Rth : ring_theory rO rI radd rmul rsub ropp (@eq R).
  Local Notation O := (mkOps R radd rsub rmul ropp rO rI).

  (* a + b and a - b combine coefficients blade by blade, a missing blade counting as zero *)
  Theorem C04_add : forall A (x y : mv R) K, In K (canon_keys A) -> NoDup (keys x) -> NoDup (keys y) ->
    coeff O K (add O A x y) = radd (coeff O K x) (coeff O K y).
  Proof. intros. apply (add_coeff _ _ _ _ _ _ _ Rth); assumption. Qed.
  Theorem C04_sub : forall A (x y : mv R) K, In K (canon_keys A) -> NoDup (keys x) -> NoDup (keys y) ->
    coeff O K (sub O A x y) = rsub (coeff O K x) (coeff O K y).
  Proof. intros. apply (sub_coeff _ _ _ _ _ _ _ Rth); assumption. Qed.
  (* ... so a - b carries minus b's coefficient on blades only b stores *)
  Theorem C04_sub_only_in_b : forall (x y : mv R) K, NoDup (keys x) -> NoDup (keys y) -> ~ In K (keys x) ->
    coeff O K (raw_sub O x y) = ropp (coeff O K y).
  Proof. intros. apply (coeff_raw_sub_only_y _ _ _ _ _ _ _ Rth); assumption. Qed.
  Theorem C04_neg : forall A (x : mv R) K, In K (canon_keys A) -> NoDup (keys x) ->
    coeff O K (neg O A x) = ropp (coeff O K x).
  Proof. intros. apply (neg_coeff _ _ _ _ _ _ _ Rth); assumption. Qed.

  (* reverse / grade involution / Clifford conjugation multiply the grade-g coefficient by
     (-1)^(g(g-1)/2), (-1)^g, (-1)^(g(g+1)/2) *)
  Theorem C04_reverse : forall A (x : mv R) K, In K (canon_keys A) -> NoDup (keys x) ->
    coeff O K (reverse O A x) =
      if Z.odd (popcount K * (popcount K - 1) / 2) then ropp (coeff O K x) else coeff O K x.
  Proof. intros. rewrite (reverse_coeff _ _ _ _ _ _ _ Rth) by assumption. rewrite involution_flips_reverse. reflexivity. Qed.
  Theorem C04_involute : forall A (x : mv R) K, In K (canon_keys A) -> NoDup (keys x) ->
    coeff O K (involute O A x) = if Z.odd (popcount K) then ropp (coeff O K x) else coeff O K x.
  Proof. intros. rewrite (involute_coeff _ _ _ _ _ _ _ Rth) by assumption. rewrite involution_flips_involute. reflexivity. Qed.
  Theorem C04_conjugate : forall A (x : mv R) K, In K (canon_keys A) -> NoDup (keys x) ->
    coeff O K (conjugate O A x) =
      if Z.odd (popcount K * (popcount K + 1) / 2) then ropp (coeff O K x) else coeff O K x.
  Proof. intros. rewrite (conjugate_coeff _ _ _ _ _ _ _ Rth) by assumption. rewrite involution_flips_conjugate. reflexivity. Qed.

  Local Notation "x == y" := (equiv rO rI radd rmul rsub ropp x y) (at level 70).

  (* each involution is an involution *)
  Theorem C04_reverse_involutive : forall A, wf_alg A = true -> forall x : mv R, wfmv A x ->
    reverse O A (reverse O A x) == x.
  Proof. intros A H. pose proof (wf_sign_hyps A H) as S.
    apply (reverse_involutive _ _ _ _ _ _ _ Rth A (sh_keys A S) (sh_nodup A S)). Qed.
  Theorem C04_involute_involutive : forall A, wf_alg A = true -> forall x : mv R, wfmv A x ->
    involute O A (involute O A x) == x.
  Proof. intros A H. pose proof (wf_sign_hyps A H) as S.
    apply (involute_involutive _ _ _ _ _ _ _ Rth A (sh_keys A S) (sh_nodup A S)). Qed.
  Theorem C04_conjugate_involutive : forall A, wf_alg A = true -> forall x : mv R, wfmv A x ->
    conjugate O A (conjugate O A x) == x.
  Proof. intros A H. pose proof (wf_sign_hyps A H) as S.
    apply (conjugate_involutive _ _ _ _ _ _ _ Rth A (sh_keys A S) (sh_nodup A S)). Qed.

  (* reverse and conjugate are anti-automorphisms, grade involution an automorphism of the geometric
     product - in every well-formed algebra *)
  Theorem C04_reverse_antiautomorphism : forall A, wf_alg A = true -> forall x y : mv R, wfmv A x -> wfmv A y ->
    reverse O A (gp O A x y) == gp O A (reverse O A y) (reverse O A x).
  Proof. intros A H. pose proof (wf_sign_hyps A H) as S.
    apply (reverse_gp _ _ _ _ _ _ _ Rth A (sh_keys A S) (sh_nodup A S) (sh_swap A S)). Qed.
  Theorem C04_conjugate_antiautomorphism : forall A, wf_alg A = true -> forall x y : mv R, wfmv A x -> wfmv A y ->
    conjugate O A (gp O A x y) == gp O A (conjugate O A y) (conjugate O A x).
  Proof. intros A H. pose proof (wf_sign_hyps A H) as S.
    apply (conjugate_gp _ _ _ _ _ _ _ Rth A (sh_keys A S) (sh_nodup A S) (sh_swap A S)). Qed.
  Theorem C04_involute_automorphism : forall A, wf_alg A = true -> forall x y : mv R, wfmv A x -> wfmv A y ->
    involute O A (gp O A x y) == gp O A (involute O A x) (involute O A y).
  Proof. intros A H. pose proof (wf_sign_hyps A H) as S.
    apply (involute_gp _ _ _ _ _ _ _ Rth A (sh_keys A S) (sh_nodup A S)). Qed.

  (* a.grade(..) returns exactly the stored coefficients of the requested grades; it raises KeyError
     exactly for grade tuples that are not strictly increasing within 0..d *)
  Theorem C04_grade : forall A, wf_alg A = true -> forall (grades : list nat) (x : mv R),
    (grade_sel O A grades x = Err EKey <-> grades_ok A grades = false) /\
    (forall r, grade_sel O A grades x = Ok r ->
      (forall K, 0 <= K < alg_len A ->
         coeff O K r = if grade_in grades K && zin K (keys x) then coeff O K x else rO) /\
      (wfmv A x -> NoDup (keys r) /\ forall K, In K (keys r) <-> In K (keys x) /\ grade_in grades K = true)).
  Proof. intros A H. pose proof (wf_sign_hyps A H) as S.
    apply (grade_sel_spec _ rO rI radd rmul rsub ropp A (sh_keys A S) (sh_nodup A S) (sh_grade A S)). Qed.
End Ring.
Print Assumptions C04_reverse_involutive.
Print Assumptions C04_involute_involutive.
Print Assumptions C04_conjugate_involutive.
Print Assumptions C04_reverse_antiautomorphism.
Print Assumptions C04_conjugate_antiautomorphism.
Print Assumptions C04_involute_automorphism.
Print Assumptions C04_grade.
Print Assumptions C04_add.
Print Assumptions C04_sub.
Print Assumptions C04_sub_only_in_b.
Print Assumptions C04_neg.
Print Assumptions C04_reverse.
Print Assumptions C04_involute.
Print Assumptions C04_conjugate.

(* the involution test and the three grade tuples regenerated from today's source are the model's *)
Theorem C04_kernel_tie : forall g k,
  Gen.Codegen.involution_flips g k = Model.Codegen.involution_flips g k
  /\ Gen.Codegen.grades_reverse = Model.Codegen.grades_reverse
  /\ Gen.Codegen.grades_involute = Model.Codegen.grades_involute
  /\ Gen.Codegen.grades_conjugate = Model.Codegen.grades_conjugate.
Proof. intros. repeat split. Qed.
Print Assumptions C04_kernel_tie.

Example C04_example :
  sub Zops (mk_default [1; 1] 1 false) [(1, 5)] [(2, 7); (1, 1)] = [(1, 4); (2, -7)].
Proof. vm_compute. reflexivity. Qed.

(* ---- the tie to today's source: the loop bodies of codegen_add / codegen_sub / codegen_neg as regenerated
   from /repo/kingdon/codegen.py (Gen/Kernels.v) ARE the model's ---- *)
From KV Require Import Gen.Kernels Bridge.Kernels.
Theorem C04_addsub_kernel_is_todays_source : forall (R : Type) (O : ops R) (vals : mv R) kv,
  gen_add_step O vals kv = add_step O vals kv /\ gen_sub_step O vals kv = sub_step O vals kv /\
  forall v, gen_neg_val O v = o_neg O v.
Proof. intros R O vals kv. exact (conj (br_add_step O vals kv) (conj (br_sub_step O vals kv) (br_neg_val O))). Qed.
Print Assumptions C04_addsub_kernel_is_todays_source.

(* ---- source pins: the functions whose hand-written model carries the theorems above are still, textually (after
   ast normalisation), the functions the model was validated against; an edit breaks Bridge/Pins_C04.v ---- *)
From KV Require Bridge.Pins_C04.
