(* Props/C04.v — sum, difference, negation, involutions and grade selection act blade-wise.
   Statements only; proofs in Theory/Product.v and Theory/Bits.v. *)
From Coq Require Import Ring_theory.
From KV Require Import Model.All Bridge.Codegen Theory.Sparse Theory.Product Theory.Bits.
Local Open Scope Z_scope.

Section Ring.
  Variable R : Type.
  Variables (rO rI : R) (radd rmul rsub : R -> R -> R) (ropp : R -> R).
  Hypothesis Rth : ring_theory rO rI radd rmul rsub ropp (@eq R).
  Local Notation O := (mkOps R radd rsub rmul ropp rO rI).

  (* a + b and a - b combine coefficients blade by blade, a missing blade counting as zero *)
  Theorem C04_add : forall A (x y : mv R) K, In K (canon_keys A) -> NoDup (keys x) -> NoDup (keys y) ->
    coeff O K (add O A x y) = radd (coeff O K x) (coeff O K y).
  Proof. intros. apply (add_coeff _ _ _ _ _ _ _ Rth); assumption. Qed.
  Theorem C04_sub : forall A (x y : mv R) K, In K (canon_keys A) -> NoDup (keys x) -> NoDup (keys y) ->
    coeff O K (sub O A x y) = rsub (coeff O K x) (coeff O K y).
  Proof. intros. apply (sub_coeff _ _ _ _ _ _ _ Rth); assumption. Qed.
  (* ... so a - b carries minus b's coefficient on blades only b stores *)
  Theorem C04_sub_only_in_b : forall (x y : mv R) K, NoDup (keys x) -> NoDup (keys y) -> ~ In K (keys x) ->
    coeff O K (raw_sub O x y) = ropp (coeff O K y).
  Proof. intros. apply (coeff_raw_sub_only_y _ _ _ _ _ _ _ Rth); assumption. Qed.
  Theorem C04_neg : forall A (x : mv R) K, In K (canon_keys A) -> NoDup (keys x) ->
    coeff O K (neg O A x) = ropp (coeff O K x).
  Proof. intros. apply (neg_coeff _ _ _ _ _ _ _ Rth); assumption. Qed.

  (* reverse / grade involution / Clifford conjugation multiply the grade-g coefficient by
     (-1)^(g(g-1)/2), (-1)^g, (-1)^(g(g+1)/2) *)
  Theorem C04_reverse : forall A (x : mv R) K, In K (canon_keys A) -> NoDup (keys x) ->
    coeff O K (reverse O A x) =
      if Z.odd (popcount K * (popcount K - 1) / 2) then ropp (coeff O K x) else coeff O K x.
  Proof. intros. rewrite (reverse_coeff _ _ _ _ _ _ _ Rth) by assumption. rewrite involution_flips_reverse. reflexivity. Qed.
  Theorem C04_involute : forall A (x : mv R) K, In K (canon_keys A) -> NoDup (keys x) ->
    coeff O K (involute O A x) = if Z.odd (popcount K) then ropp (coeff O K x) else coeff O K x.
  Proof. intros. rewrite (involute_coeff _ _ _ _ _ _ _ Rth) by assumption. rewrite involution_flips_involute. reflexivity. Qed.
  Theorem C04_conjugate : forall A (x : mv R) K, In K (canon_keys A) -> NoDup (keys x) ->
    coeff O K (conjugate O A x) =
      if Z.odd (popcount K * (popcount K + 1) / 2) then ropp (coeff O K x) else coeff O K x.
  Proof. intros. rewrite (conjugate_coeff _ _ _ _ _ _ _ Rth) by assumption. rewrite involution_flips_conjugate. reflexivity. Qed.
End Ring.
Print Assumptions C04_add.
Print Assumptions C04_sub.
Print Assumptions C04_sub_only_in_b.
Print Assumptions C04_neg.
Print Assumptions C04_reverse.
Print Assumptions C04_involute.
Print Assumptions C04_conjugate.

(* the involution test and the three grade tuples regenerated from today's source are the model's *)
Theorem C04_kernel_tie : forall g k,
  Gen.Codegen.involution_flips g k = Model.Codegen.involution_flips g k
  /\ Gen.Codegen.grades_reverse = Model.Codegen.grades_reverse
  /\ Gen.Codegen.grades_involute = Model.Codegen.grades_involute
  /\ Gen.Codegen.grades_conjugate = Model.Codegen.grades_conjugate.
Proof. intros. repeat split. Qed.
Print Assumptions C04_kernel_tie.

Example C04_example :
  sub Zops (mk_default [1; 1] 1 false) [(1, 5)] [(2, 7); (1, 1)] = [(1, 4); (2, -7)].
Proof. vm_compute. reflexivity. Qed.
