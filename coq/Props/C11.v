(* Props/C11.v — registered (compiled) expressions equal direct evaluation.
   Model/Tape.v: [plain_call] = f( *args) on MultiVectors (MultiVector's members statement by statement),
   [registered] = alg.register(f)( *args): the TapeRecorder run of f builds the call tree of generated
   functions ([record]), which is then evaluated on the value lists of the arguments ([run_tape]) and zipped
   with the keys the recorder tracked.  Both use the SAME table of generated functions: [std_opd] = every
   polynomial operator of Model/Codegen.v / Model/Composite.v; inverse, division, roots, outer exponentials are
   the parameter [ext] (C07 / C19) and are only assumed not to depend on the storage order of their operand
   ([ext_ok], C08 for them).  Which algebra operator a member calls, with which operand first, is read from
   the tables translated from multivector.py / taperecorder.py (Gen/Dunder.v), and the members modelled by
   hand are pinned to their source text.
   [supported]: the fragment of the property (operators between multivector-valued subexpressions in infix
   and method form, duals, norm, normalized, grade, a number on either side of + - * ( ^ ), division by a
   number, integer powers, coefficient access used as a number, calls of registered functions);
   [isnum body = false]: f does not return a bare number literal; [noswap]: no EXPLICIT call x.__rmul__(y)
   of a reflected member (the correspondence check covers those on the implementation).
   m == v: the same coefficient on every blade; Permutation m v: moreover the same stored blades.
   Number literals stand for numbers whose str() reads back exactly (int, float): known finding F19.
   The symbolic=True route: only one step is proved ([C11_symbolic_step_partial]); it fails on the real code
   for sqrt / norm / normalized (known finding F18).  Statements only; proofs in Theory/Tape.v. *)
From Coq Require Import String List ZArith Permutation Ring_theory.
From KV Require Import Model.All Model.Composite Model.Poly Model.Tape Gen.Dunder.
From KV Require Import Theory.WF Theory.Sparse Theory.Poly Theory.Natural Theory.Tape.
Import ListNotations.

(* whenever f(args) returns, alg.register(f)(args) returns the same multivector - every well-formed algebra,
   every commutative ring of coefficients, every body of the supported fragment, any number of arguments with
   any duplicate-free key tuples, any values, any depth of calls of other registered functions *)
Theorem C11_agree : forall (R : Type) (rO rI : R) (radd rmul rsub : R -> R -> R) (ropp : R -> R),
  ring_theory rO rI radd rmul rsub ropp (@eq R) ->
  forall A : alg, wf_alg A = true ->
  forall ext : optable R, ext_ok R A ext ->
  forall (bodies : list (expr R)) (fuel k : nat) (body : expr R) (xs : list (mv R)) (v : val),
    nth_error bodies k = Some body -> supported body = true -> isnum body = false -> noswap body = true ->
    Forall (wfm R A) xs ->
    plain_call (mkOps R radd rsub rmul ropp rO rI) A (std_opd (mkOps R radd rsub rmul ropp rO rI) A ext)
               mv_methods tape_methods bodies fuel k xs = Ok v ->
    exists m, registered (mkOps R radd rsub rmul ropp rO rI) A (std_opd (mkOps R radd rsub rmul ropp rO rI) A ext)
                         tape_methods bodies fuel k xs = Ok m
              /\ Permutation m (as_mv v) /\ Sparse.equiv rO rI radd rmul rsub ropp m (as_mv v).
Proof. exact tape_agrees. Qed.
Print Assumptions C11_agree.

(* for EVERY body of the expression language (also outside the supported fragment): the registered function
   may raise, but when it returns it returns the value of the plain function *)
Theorem C11_never_a_different_value : forall (R : Type) (rO rI : R) (radd rmul rsub : R -> R -> R) (ropp : R -> R),
  ring_theory rO rI radd rmul rsub ropp (@eq R) ->
  forall A : alg, wf_alg A = true ->
  forall ext : optable R, ext_ok R A ext ->
  forall (bodies : list (expr R)) (fuel k : nat) (body : expr R) (xs : list (mv R)) (v : val) (m : mv R),
    nth_error bodies k = Some body -> noswap body = true -> Forall (wfm R A) xs ->
    plain_call (mkOps R radd rsub rmul ropp rO rI) A (std_opd (mkOps R radd rsub rmul ropp rO rI) A ext)
               mv_methods tape_methods bodies fuel k xs = Ok v ->
    registered (mkOps R radd rsub rmul ropp rO rI) A (std_opd (mkOps R radd rsub rmul ropp rO rI) A ext)
               tape_methods bodies fuel k xs = Ok m ->
    Permutation m (as_mv v) /\ Sparse.equiv rO rI radd rmul rsub ropp m (as_mv v).
Proof. exact tape_never_differs. Qed.
Print Assumptions C11_never_a_different_value.

(* members the recorder does not have raise (AttributeError / TypeError) - never a value: a number on the left
   of / | & >> @, any member that is neither bound by partialmethod nor one of __rsub__ __rmul__ __rxor__ *)
Theorem C11_outside_fragment_raises : forall (R : Type) (rO rI : R) (radd rmul rsub : R -> R -> R) (ropp : R -> R)
    (A : alg) (ext : optable R),
  (forall o c ks t, match o with IDiv | IOr | IAnd | IRshift | IMatmul => True | _ => False end ->
     rec_infix (mkOps R radd rsub rmul ropp rO rI) (std_opd (mkOps R radd rsub rmul ropp rO rI) A ext) tape_methods
               o (RNum c) (RRec ks t) = Err EAttr) /\
  (forall m ks t r2, mlookup m tape_methods = None -> ~ In m ["__rsub__"; "__rmul__"; "__rxor__"]%string ->
     rec_meth2 (std_opd (mkOps R radd rsub rmul ropp rO rI) A ext) tape_methods m (RRec ks t) r2 = Err EAttr) /\
  (forall m ks t, mlookup m tape_methods = None ->
     rec_meth1 (std_opd (mkOps R radd rsub rmul ropp rO rI) A ext) tape_methods m (RRec ks t) = Err EAttr).
Proof. exact tape_outside_fragment. Qed.
Print Assumptions C11_outside_fragment_raises.

Theorem C11_members_outside_the_recorder :
  mlookup "__ror__" tape_methods = None /\ mlookup "__rand__" tape_methods = None
  /\ mlookup "__rrshift__" tape_methods = None /\ mlookup "__rmatmul__" tape_methods = None
  /\ mlookup "__rtruediv__" tape_methods = None /\ mlookup "exp" tape_methods = None /\ mlookup "asfullmv" tape_methods = None.
Proof. exact outside_members. Qed.
Print Assumptions C11_members_outside_the_recorder.

(* the compiled function does not depend on the order in which its arguments store their blades (it is
   compiled per ordered key tuple: this is where positional value lists could go out of step) *)
Theorem C11_storage_independent : forall (R : Type) (rO rI : R) (radd rmul rsub : R -> R -> R) (ropp : R -> R),
  ring_theory rO rI radd rmul rsub ropp (@eq R) ->
  forall A : alg, wf_alg A = true ->
  forall ext : optable R, ext_ok R A ext ->
  forall (bodies : list (expr R)) (fuel k : nat) (xs xs' : list (mv R)) (m : mv R),
    Forall (wfm R A) xs -> Forall2 (@Permutation (Z * R)) xs xs' ->
    registered (mkOps R radd rsub rmul ropp rO rI) A (std_opd (mkOps R radd rsub rmul ropp rO rI) A ext)
               tape_methods bodies fuel k xs = Ok m ->
    exists m', registered (mkOps R radd rsub rmul ropp rO rI) A (std_opd (mkOps R radd rsub rmul ropp rO rI) A ext)
                          tape_methods bodies fuel k xs' = Ok m' /\ Permutation m m'.
Proof. exact tape_storage_independent. Qed.
Print Assumptions C11_storage_independent.

(* the same two clauses for ANY table of generated functions that is well-formed, storage independent and
   satisfies the scalar laws the recorder relies on (optable_ok) ... *)
Theorem C11_agree_any_table : forall (R : Type) (rO rI : R) (radd rmul rsub : R -> R -> R) (ropp : R -> R),
  ring_theory rO rI radd rmul rsub ropp (@eq R) ->
  forall (A : alg) (opd : optable R) (bodies : list (expr R)),
  optable_ok R radd rmul rsub ropp A opd -> In 0%Z (canon_keys A) ->
  (forall gs bb, indices_for_grades A gs = Ok bb -> NoDup bb) ->
  forall (fuel k : nat) (body : expr R) (xs : list (mv R)) (v : val),
    Forall (wfm R A) xs -> nth_error bodies k = Some body -> noswap body = true ->
    direct (mkOps R radd rsub rmul ropp rO rI) A opd mv_methods tape_methods bodies fuel xs body = Ok v ->
    (forall m, registered (mkOps R radd rsub rmul ropp rO rI) A opd tape_methods bodies fuel k xs = Ok m ->
               Permutation m (as_mv v)) /\
    (supported body = true -> isnum body = false ->
     exists m, registered (mkOps R radd rsub rmul ropp rO rI) A opd tape_methods bodies fuel k xs = Ok m
               /\ Permutation m (as_mv v)).
Proof. exact registered_agrees. Qed.
Print Assumptions C11_agree_any_table.

(* ... and the table of the model is such a table in every well-formed algebra over every commutative ring *)
Theorem C11_table_well_behaved : forall (R : Type) (rO rI : R) (radd rmul rsub : R -> R -> R) (ropp : R -> R),
  ring_theory rO rI radd rmul rsub ropp (@eq R) ->
  forall A : alg, wf_alg A = true -> forall ext : optable R, ext_ok R A ext ->
  optable_ok R radd rmul rsub ropp A (std_opd (mkOps R radd rsub rmul ropp rO rI) A ext).
Proof. exact std_opd_ok. Qed.
Print Assumptions C11_table_well_behaved.

(* the hypothesis on the unmodelled operators is satisfiable *)
Theorem C11_ext_hypothesis_satisfiable : forall R A, ext_ok R A (@no_ext R).
Proof. exact no_ext_ok. Qed.
Print Assumptions C11_ext_hypothesis_satisfiable.

(* a member that exists on both operator surfaces calls the same algebra operator with the same arity
   (computed from the translated tables) *)
Theorem C11_tables_agree : forall m op sw ar op' sw' ar',
  mlookup m mv_methods = Some (op, sw, ar) -> mlookup m tape_methods = Some (op', sw', ar') -> op = op' /\ ar = ar'.
Proof. exact tables_agree. Qed.
Print Assumptions C11_tables_agree.

(* the members modelled by hand are the ones in today's source *)
Theorem C11_source_pinned : mv_defs = pinned_mv_defs /\ tape_defs = pinned_tape_defs /\ glue_defs = pinned_glue_defs
  /\ tape_names = pinned_tape_names.
Proof. exact (conj mv_defs_pinned (conj tape_defs_pinned (conj glue_defs_pinned tape_names_pinned))). Qed.
Print Assumptions C11_source_pinned.

(* symbolic=True: one step (an operator of the table on symbolic operands, zero filter, evaluation) commutes with
   evaluation; the induction over bodies is NOT proved, and sqrt / norm fail on the real code (F18) *)
Theorem C11_symbolic_step_partial : forall (R : Type) (rO rI : R) (radd rmul rsub : R -> R -> R) (ropp : R -> R)
    (Rth : ring_theory rO rI radd rmul rsub ropp (@eq R)) (rho : nat -> R) (A : alg), wf_alg A = true ->
  forall op f, sassoc op poly2_table = Some f ->
  forall X Y : mv rpoly, all_coeffs rpolyQ X -> all_coeffs rpolyQ Y ->
    Sparse.equiv rO rI radd rmul rsub ropp
      (map_mv (Poly.N R rO rI radd rmul ropp rho) (filter_nz rzero (f rpoly Rops A X Y)))
      (f R (mkOps R radd rsub rmul ropp rO rI) A (map_mv (Poly.N R rO rI radd rmul ropp rho) X)
                                                 (map_mv (Poly.N R rO rI radd rmul ropp rho) Y)).
Proof. exact symbolic_step_partial. Qed.
Print Assumptions C11_symbolic_step_partial.

(* non-vacuity: a closed instance (integers, Algebra(2), a body with coefficient access in a permuted spelling,
   a number on the left of -, grade selection, a call of another registered function, ~ and a power) *)
Theorem C11_example :
  exists v m, plain_call Zops exA (std_opd Zops exA no_ext) mv_methods tape_methods exbodies 40 1 exargs = Ok v /\
              registered Zops exA (std_opd Zops exA no_ext) tape_methods exbodies 40 1 exargs = Ok m /\
              Permutation m (as_mv v) /\ m <> [].
Proof. exact example_agrees. Qed.
Print Assumptions C11_example.
