(* Props/C11.v — registered (compiled) expressions equal direct evaluation.
   Model/Tape.v: [plain_call] = f( *args) on MultiVectors (MultiVector's members statement by statement),
   [registered] = alg.register(f)( *args): the TapeRecorder run of f builds the call tree of generated
   functions ([record]), which is then evaluated on the value lists of the arguments ([run_tape]) and zipped
   with the keys the recorder tracked.  Both use the SAME table of generated functions: [std_opd] = every
   polynomial operator of Model/Codegen.v / Model/Composite.v; inverse, division, roots, outer exponentials are
   the parameter [ext] (C07 / C19) and are only assumed not to depend on the storage order of their operand
   ([ext_ok], C08 for them).  Which algebra operator a member calls, with which operand first, is read from
   the tables translated from multivector.py / taperecorder.py (Gen/Dunder.v), and the members modelled by
   hand are pinned to their source text.
   [supported]: the fragment of the property (operators between multivector-valued subexpressions in infix
   and method form, duals, norm, normalized, grade, a number on either side of + - * ( ^ ), division by a
   number, integer powers, coefficient access used as a number, calls of registered functions);
   [isnum body = false]: f does not return a bare number literal; [noswap]: no EXPLICIT call x.__rmul__(y)
   of a reflected member (the correspondence check covers those on the implementation).
   m == v: the same coefficient on every blade; Permutation m v: moreover the same stored blades.
   Number literals stand for numbers whose str() reads back exactly (int, float): known finding F19.
   The symbolic=True route ([C11_symbolic_agree], Theory/TapeSymbolic.v): [symbolic_run] = [direct] over the
   RationalPolynomial coefficients with OperatorDict.filter after every operator call; whenever f(args) returns
   in the table of the polynomial operators (the division-free fragment: inv, div, sqrt, norm, normalized, negative
   powers raise there; on the real code sqrt / norm / normalized fail, known finding F18) the symbolic run returns
   and its coefficient expressions evaluate to the coefficients of f(args).
   Statements only; proofs in Theory/Tape.v, Theory/TapeSymbolic.v. *)
From Coq Require Import String List ZArith Permutation Ring_theory.
From KV Require Import Model.All Model.Composite Model.Poly Model.Tape Gen.Dunder.
From KV Require Import Theory.WF Theory.Sparse Theory.Poly Theory.Natural Theory.Tape Theory.TapeSymbolic.
Import ListNotations.

(* whenever f(args) returns, alg.register(f)(args) returns the same multivector - every well-formed algebra,
   every commutative ring of coefficients, every body of the supported fragment, any number of arguments with
   any duplicate-free key tuples, any values, any depth of calls of other registered functions *)
Theorem C11_agree : forall (R : Type) (rO rI : R) (radd rmul rsub : R -> R -> R) (ropp : R -> R),
  ring_theory rO rI radd rmul rsub ropp (@eq R) ->
  forall A : alg, wf_alg A = true ->
  forall ext : optable R, ext_ok R A ext ->
  forall (bodies : list (expr R)) (fuel k : nat) (body : expr R) (xs : list (mv R)) (v : val),
    nth_error bodies k = Some body -> supported body = true -> isnum body = false -> noswap body = true ->
    Forall (wfm R A) xs ->
    plain_call (mkOps R radd rsub rmul ropp rO rI) A (std_opd (mkOps R radd rsub rmul ropp rO rI) A ext)
               mv_methods tape_methods bodies fuel k xs = Ok v ->
    exists m, registered (mkOps R radd rsub rmul ropp rO rI) A (std_opd (mkOps R radd rsub rmul ropp rO rI) A ext)
                         tape_methods bodies fuel k xs = Ok m
              /\ Permutation m (as_mv v) /\ Sparse.equiv rO rI radd rmul rsub ropp m (as_mv v).
Proof. exact tape_agrees. Qed.
Print Assumptions C11_agree.

(* for EVERY body of the expression language (also outside the supported fragment): the registered function
   may raise, but when it returns it returns the value of the plain function *)
Theorem C11_never_a_different_value : forall (R : Type) (rO rI : R) (radd rmul rsub : R -> R -> R) (ropp : R -> R),
  ring_theory rO rI radd rmul rsub ropp (@eq R) ->
  forall A : alg, wf_alg A = true ->
  forall ext : optable R, ext_ok R A ext ->
  forall (bodies : list (expr R)) (fuel k : nat) (body : expr R) (xs : list (mv R)) (v : val) (m : mv R),
    nth_error bodies k = Some body -> noswap body = true -> Forall (wfm R A) xs ->
    plain_call (mkOps R radd rsub rmul ropp rO rI) A (std_opd (mkOps R radd rsub rmul ropp rO rI) A ext)
               mv_methods tape_methods bodies fuel k xs = Ok v ->
    registered (mkOps R radd rsub rmul ropp rO rI) A (std_opd (mkOps R radd rsub rmul ropp rO rI) A ext)
               tape_methods bodies fuel k xs = Ok m ->
    Permutation m (as_mv v) /\ Sparse.equiv rO rI radd rmul rsub ropp m (as_mv v).
Proof. exact tape_never_differs. Qed.
Print Assumptions C11_never_a_different_value.

(* members the recorder does not have raise (AttributeError / TypeError) - never a value: a number on the left
   of / | & >> @, any member that is neither bound by partialmethod nor one of __rsub__ __rmul__ __rxor__ *)
Theorem C11_outside_fragment_raises : forall (R : Type) (rO rI : R) (radd rmul rsub : R -> R -> R) (ropp : R -> R)
    (A : alg) (ext : optable R),
  (forall o c ks t, match o with IDiv | IOr | IAnd | IRshift | IMatmul => True | _ => False end ->
     rec_infix (mkOps R radd rsub rmul ropp rO rI) (std_opd (mkOps R radd rsub rmul ropp rO rI) A ext) tape_methods
               o (RNum c) (RRec ks t) = Err EAttr) /\
  (forall m ks t r2, mlookup m tape_methods = None -> ~ In m ["__rsub__"; "__rmul__"; "__rxor__"]%string ->
     rec_meth2 (std_opd (mkOps R radd rsub rmul ropp rO rI) A ext) tape_methods m (RRec ks t) r2 = Err EAttr) /\
  (forall m ks t, mlookup m tape_methods = None ->
     rec_meth1 (std_opd (mkOps R radd rsub rmul ropp rO rI) A ext) tape_methods m (RRec ks t) = Err EAttr).
Proof. exact tape_outside_fragment. Qed.
Print Assumptions C11_outside_fragment_raises.

Theorem C11_members_outside_the_recorder :
  mlookup "__ror__" tape_methods = None /\ mlookup "__rand__" tape_methods = None
  /\ mlookup "__rrshift__" tape_methods = None /\ mlookup "__rmatmul__" tape_methods = None
  /\ mlookup "__rtruediv__" tape_methods = None /\ mlookup "exp" tape_methods = None /\ mlookup "asfullmv" tape_methods = None.
Proof. exact outside_members. Qed.
Print Assumptions C11_members_outside_the_recorder.

(* the compiled function does not depend on the order in which its arguments store their blades (it is
   compiled per ordered key tuple: this is where positional value lists could go out of step) *)
Theorem C11_storage_independent : forall (R : Type) (rO rI : R) (radd rmul rsub : R -> R -> R) (ropp : R -> R),
  ring_theory rO rI radd rmul rsub ropp (@eq R) ->
  forall A : alg, wf_alg A = true ->
  forall ext : optable R, ext_ok R A ext ->
  forall (bodies : list (expr R)) (fuel k : nat) (xs xs' : list (mv R)) (m : mv R),
    Forall (wfm R A) xs -> Forall2 (@Permutation (Z * R)) xs xs' ->
    registered (mkOps R radd rsub rmul ropp rO rI) A (std_opd (mkOps R radd rsub rmul ropp rO rI) A ext)
               tape_methods bodies fuel k xs = Ok m ->
    exists m', registered (mkOps R radd rsub rmul ropp rO rI) A (std_opd (mkOps R radd rsub rmul ropp rO rI) A ext)
                          tape_methods bodies fuel k xs' = Ok m' /\ Permutation m m'.
Proof. exact tape_storage_independent. Qed.
Print Assumptions C11_storage_independent.

(* the same two clauses for ANY table of generated functions that is well-formed, storage independent and
   satisfies the scalar laws the recorder relies on (optable_ok) ... *)
Theorem C11_agree_any_table : forall (R : Type) (rO rI : R) (radd rmul rsub : R -> R -> R) (ropp : R -> R),
  ring_theory rO rI radd rmul rsub ropp (@eq R) ->
  forall (A : alg) (opd : optable R) (bodies : list (expr R)),
  optable_ok R radd rmul rsub ropp A opd -> In 0%Z (canon_keys A) ->
  (forall gs bb, indices_for_grades A gs = Ok bb -> NoDup bb) ->
  forall (fuel k : nat) (body : expr R) (xs : list (mv R)) (v : val),
    Forall (wfm R A) xs -> nth_error bodies k = Some body -> noswap body = true ->
    direct (mkOps R radd rsub rmul ropp rO rI) A opd mv_methods tape_methods bodies fuel xs body = Ok v ->
    (forall m, registered (mkOps R radd rsub rmul ropp rO rI) A opd tape_methods bodies fuel k xs = Ok m ->
               Permutation m (as_mv v)) /\
    (supported body = true -> isnum body = false ->
     exists m, registered (mkOps R radd rsub rmul ropp rO rI) A opd tape_methods bodies fuel k xs = Ok m
               /\ Permutation m (as_mv v)).
Proof. exact registered_agrees. Qed.
Print Assumptions C11_agree_any_table.

(* ... and the table of the model is such a table in every well-formed algebra over every commutative ring *)
Theorem C11_table_well_behaved : forall (R : Type) (rO rI : R) (radd rmul rsub : R -> R -> R) (ropp : R -> R),
  ring_theory rO rI radd rmul rsub ropp (@eq R) ->
  forall A : alg, wf_alg A = true -> forall ext : optable R, ext_ok R A ext ->
  optable_ok R radd rmul rsub ropp A (std_opd (mkOps R radd rsub rmul ropp rO rI) A ext).
Proof. exact std_opd_ok. Qed.
Print Assumptions C11_table_well_behaved.

(* the hypothesis on the unmodelled operators is satisfiable *)
Theorem C11_ext_hypothesis_satisfiable : forall R A, ext_ok R A (@no_ext R).
Proof. exact no_ext_ok. Qed.
Print Assumptions C11_ext_hypothesis_satisfiable.

(* a member that exists on both operator surfaces calls the same algebra operator with the same arity
   (computed from the translated tables) *)
Theorem C11_tables_agree : forall m op sw ar op' sw' ar',
  mlookup m mv_methods = Some (op, sw, ar) -> mlookup m tape_methods = Some (op', sw', ar') -> op = op' /\ ar = ar'.
Proof. exact tables_agree. Qed.
Print Assumptions C11_tables_agree.

(* the members modelled by hand are the ones in today's source *)
Theorem C11_source_pinned : mv_defs = pinned_mv_defs /\ tape_defs = pinned_tape_defs /\ glue_defs = pinned_glue_defs
  /\ tape_names = pinned_tape_names.
Proof. exact (conj mv_defs_pinned (conj tape_defs_pinned (conj glue_defs_pinned tape_names_pinned))). Qed.
Print Assumptions C11_source_pinned.

(* symbolic=True: one step (an operator of the table on symbolic operands, zero filter, evaluation) commutes with
   evaluation (kept; the induction over bodies is C11_symbolic_agree below) *)
Theorem C11_symbolic_step_partial : forall (R : Type) (rO rI : R) (radd rmul rsub : R -> R -> R) (ropp : R -> R)
    (Rth : ring_theory rO rI radd rmul rsub ropp (@eq R)) (rho : nat -> R) (A : alg), wf_alg A = true ->
  forall op f, sassoc op poly2_table = Some f ->
  forall X Y : mv rpoly, all_coeffs rpolyQ X -> all_coeffs rpolyQ Y ->
    Sparse.equiv rO rI radd rmul rsub ropp
      (map_mv (Poly.N R rO rI radd rmul ropp rho) (filter_nz rzero (f rpoly Rops A X Y)))
      (f R (mkOps R radd rsub rmul ropp rO rI) A (map_mv (Poly.N R rO rI radd rmul ropp rho) X)
                                                 (map_mv (Poly.N R rO rI radd rmul ropp rho) Y)).
Proof. exact symbolic_step_partial. Qed.
Print Assumptions C11_symbolic_step_partial.

(* ---------------- alg.register(symbolic=True)(f) ----------------
   [symbolic_run OT A F opd ..] = do_codegen(f, symbolic multivectors): MultiVector's members exactly as in [direct]
   ([directG], C11_symbolic_run_is_direct), every operator call followed by the filter [F operands result], a call of
   a registered function = its compiled tape on the symbolic value lists.  [sym_args 0 (map keys xs)] = one
   RationalPolynomial variable per stored key of each argument, [valuation rO xs] = the stored values of xs.
   For every well-formed algebra, commutative ring, filter that only drops coefficients testing zero, body with
   integer literals (any depth of calls of registered functions), arguments with pairwise distinct stored blades:
   whenever f( *xs) returns w in the table of the polynomial operators (no_ext: the division-free fragment), the
   symbolic run returns a value v of the same kind (number / multivector), and the coefficient expressions of v -
   as stored, and in the canonical order do_codegen compiles them in - evaluated at the values of xs are the
   coefficients of w on every blade. *)
Theorem C11_symbolic_agree : forall (R : Type) (rO rI : R) (radd rmul rsub : R -> R -> R) (ropp : R -> R),
  ring_theory rO rI radd rmul rsub ropp (@eq R) ->
  forall A : alg, wf_alg A = true ->
  forall (F : list (mv rpoly) -> mv rpoly -> mv rpoly) (mvtab tapetab : mtable) (bodies : list (expr Z)),
  drops_zero_tests A F ->
  forall (fuel : nat) (body : expr Z) (xs : list (mv R)) (w : val),
    Forall (wfm R A) xs ->
    direct (mkOps R radd rsub rmul ropp rO rI) A (std_opd (mkOps R radd rsub rmul ropp rO rI) A no_ext) mvtab tapetab
           (map (emap (Poly.zinj R rO rI radd rmul ropp)) bodies) fuel xs (emap (Poly.zinj R rO rI radd rmul ropp) body) = Ok w ->
    exists v, symbolic_run Rops A F (std_opd Rops A no_ext) mvtab tapetab (map (emap R_of_Z) bodies) fuel
                           (sym_args 0 (map keys xs)) (emap R_of_Z body) = Ok v
              /\ val_is_num v = val_is_num w
              /\ Sparse.equiv rO rI radd rmul rsub ropp
                   (map_mv (Poly.N R rO rI radd rmul ropp (valuation rO xs)) (as_mv v)) (as_mv w)
              /\ Sparse.equiv rO rI radd rmul rsub ropp
                   (map_mv (Poly.N R rO rI radd rmul ropp (valuation rO xs)) (canon_sort A (as_mv v))) (as_mv w).
Proof. exact symbolic_call_agrees. Qed.
Print Assumptions C11_symbolic_agree.

(* the same for ANY symbolic arguments with coefficients in the symbol class (any numbering / sharing of variables,
   any polynomial coefficients) and ANY valuation rho: the numeric arguments are their evaluation *)
Theorem C11_symbolic_agree_any_valuation : forall (R : Type) (rO rI : R) (radd rmul rsub : R -> R -> R) (ropp : R -> R),
  ring_theory rO rI radd rmul rsub ropp (@eq R) ->
  forall (rho : nat -> R) (A : alg), wf_alg A = true ->
  forall (F : list (mv rpoly) -> mv rpoly -> mv rpoly) (mvtab tapetab : mtable) (bodies : list (expr Z)),
  drops_zero_tests A F ->
  forall (fuel : nat) (body : expr Z) (xs : list (mv rpoly)) (w : val),
    Forall (all_coeffs rpolyQ) xs -> Forall (wfm rpoly A) xs ->
    direct (mkOps R radd rsub rmul ropp rO rI) A (std_opd (mkOps R radd rsub rmul ropp rO rI) A no_ext) mvtab tapetab
           (map (emap (Poly.zinj R rO rI radd rmul ropp)) bodies) fuel
           (map (map_mv (Poly.N R rO rI radd rmul ropp rho)) xs) (emap (Poly.zinj R rO rI radd rmul ropp) body) = Ok w ->
    exists v, symbolic_run Rops A F (std_opd Rops A no_ext) mvtab tapetab (map (emap R_of_Z) bodies) fuel xs (emap R_of_Z body) = Ok v
              /\ val_is_num v = val_is_num w /\ all_coeffs rpolyQ (as_mv v) /\ wfm rpoly A (as_mv v)
              /\ Sparse.equiv rO rI radd rmul rsub ropp (map_mv (Poly.N R rO rI radd rmul ropp rho) (as_mv v)) (as_mv w).
Proof. exact symbolic_agree. Qed.
Print Assumptions C11_symbolic_agree_any_valuation.

(* ... and for any symbol class (algebra.codegen_symbolcls): coefficients S with a representation invariant Q closed
   under the operations, any map h that is a homomorphism on Q, any filter that only drops stored pairs whose
   coefficient is mapped to zero, literals in Q; [simm] / [simv]: coefficients in Q, pairwise distinct blades of the
   algebra, h of the symbolic coefficients = the numeric coefficients on every blade *)
Theorem C11_symbolic_agree_any_symbol_class :
  forall (S : Type) (sO sI : S) (sadd smul ssub : S -> S -> S) (sopp : S -> S) (Q : S -> Prop),
  ops_closed (mkOps S sadd ssub smul sopp sO sI) Q ->
  forall (R : Type) (rO rI : R) (radd rmul rsub : R -> R -> R) (ropp : R -> R),
  ring_theory rO rI radd rmul rsub ropp (@eq R) ->
  forall h : S -> R, ops_hom_on (mkOps S sadd ssub smul sopp sO sI) (mkOps R radd rsub rmul ropp rO rI) h Q ->
  forall A : alg, wf_alg A = true ->
  forall (F : list (mv S) -> mv S -> mv S) (mvtab tapetab : mtable) (bodies : list (expr S)),
  filter_sound S Q R rO h A F -> Forall (lits Q) bodies ->
  forall (fuel : nat) (e : expr S) (envS : list (mv S)) (envN : list (mv R)) (w : val),
    lits Q e -> Forall2 (simm S Q R rO rI radd rmul rsub ropp h A) envS envN ->
    direct (mkOps R radd rsub rmul ropp rO rI) A (std_opd (mkOps R radd rsub rmul ropp rO rI) A no_ext) mvtab tapetab
           (map (emap h) bodies) fuel envN (emap h e) = Ok w ->
    exists v, symbolic_run (mkOps S sadd ssub smul sopp sO sI) A F (std_opd (mkOps S sadd ssub smul sopp sO sI) A no_ext)
                           mvtab tapetab bodies fuel envS e = Ok v
              /\ simv S Q R rO rI radd rmul rsub ropp h A v w.
Proof. exact symbolic_sim. Qed.
Print Assumptions C11_symbolic_agree_any_symbol_class.

(* the hypothesis on the filter is satisfied by OperatorDict.filter of the default mode - applied always, or only
   when an operand stores a symbolic coefficient (`if issymbolic and simp_func`) - and by no filter at all *)
Theorem C11_symbolic_filters : forall A : alg,
  drops_zero_tests A (fun _ => filter_nz rzero) /\ drops_zero_tests A filter_if_symbolic /\ drops_zero_tests A (fun _ X => X)
  /\ (forall c : list (mv rpoly) -> bool, drops_zero_tests A (fun xs X => if c xs then filter_nz rzero X else X)).
Proof. exact (fun A => conj (drops_filter_nz A) (conj (drops_if_symbolic A) (conj (drops_nothing A) (drops_when A)))). Qed.
Print Assumptions C11_symbolic_filters.

(* the hypothesis "f( *xs) returns in the table of the polynomial operators alone" selects the runs that never call
   inv / div / sqrt, it does not change what f computes: such a run returns the same value in the table extended by
   ANY ext (the table of C11_agree) *)
Theorem C11_division_free_run_is_a_run : forall (T : Type) (OT : ops T) (A : alg) (ext : optable T) (mvtab tapetab : mtable)
    (bodies : list (expr T)) (fuel : nat) (env : list (mv T)) (e : expr T) (w : val),
  direct OT A (std_opd OT A no_ext) mvtab tapetab bodies fuel env e = Ok w ->
  direct OT A (std_opd OT A ext) mvtab tapetab bodies fuel env e = Ok w.
Proof. exact (@direct_noext_le). Qed.
Print Assumptions C11_division_free_run_is_a_run.

(* nothing of MultiVector is modelled a second time: [direct] is [directG] at the table, and the symbolic run with the
   filter that keeps everything is [direct] over the symbol coefficients *)
Theorem C11_symbolic_run_is_direct :
  (forall (T : Type) (OT : ops T) (A : alg) (opd : optable T) (mvtab tapetab : mtable) (bodies : list (expr T))
          (fuel : nat) (env : list (mv T)) (e : expr T),
     direct OT A opd mvtab tapetab bodies fuel env e
     = directG OT A (call_op opd) (registered OT A opd tapetab bodies) mvtab fuel env e) /\
  (forall (T : Type) (OT : ops T) (A : alg) (opd : optable T) (mvtab tapetab : mtable) (bodies : list (expr T))
          (fuel : nat) (env : list (mv T)) (e : expr T),
     symbolic_run OT A (fun _ r => r) opd mvtab tapetab bodies fuel env e
     = direct OT A opd mvtab tapetab bodies fuel env e).
Proof. exact (conj (@directG_direct) (@symbolic_run_nofilter)). Qed.
Print Assumptions C11_symbolic_run_is_direct.

(* non-vacuity: a closed instance (integers, Algebra(2), a body with coefficient access in a permuted spelling,
   a number on the left of -, grade selection, a call of another registered function, ~ and a power) *)
Theorem C11_example :
  exists v m, plain_call Zops exA (std_opd Zops exA no_ext) mv_methods tape_methods exbodies 40 1 exargs = Ok v /\
              registered Zops exA (std_opd Zops exA no_ext) tape_methods exbodies 40 1 exargs = Ok m /\
              Permutation m (as_mv v) /\ m <> [].
Proof. exact example_agrees. Qed.
Print Assumptions C11_example.

(* non-vacuity of the symbolic route: the same bodies and arguments, the symbolic run returns four coefficient
   polynomials in six variables that evaluate to the coefficients of f( *xs) *)
Theorem C11_symbolic_example :
  exists v w,
    direct Zops exA (std_opd Zops exA no_ext) mv_methods tape_methods
           (map (emap (Poly.zinj Z 0%Z 1%Z Z.add Z.mul Z.opp)) exbodies) 40 exargs
           (emap (Poly.zinj Z 0%Z 1%Z Z.add Z.mul Z.opp) (nth 1 exbodies (ENum 0%Z))) = Ok w /\
    symbolic_run Rops exA filter_if_symbolic (std_opd Rops exA no_ext) mv_methods tape_methods
                 (map (emap R_of_Z) exbodies) 40 (sym_args 0 (map keys exargs)) (emap R_of_Z (nth 1 exbodies (ENum 0%Z))) = Ok v /\
    Sparse.equiv 0%Z 1%Z Z.add Z.mul Z.sub Z.opp
      (map_mv (Poly.N Z 0%Z 1%Z Z.add Z.mul Z.opp (valuation 0%Z exargs)) (as_mv v)) (as_mv w) /\
    as_mv w = [(0, 28); (1, 76); (2, 116); (3, 128)]%Z.
Proof. exact symbolic_example. Qed.
Print Assumptions C11_symbolic_example.
