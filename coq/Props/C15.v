(* Props/C15.v — multivector construction and coefficient access round-trip.
   Statements only; proofs in Theory/Construct.v (model: Model/Construct.v, MultiVector.__new__ and the
   accessors; Algebra._blade2canon is Model/Alg.v blade2canon, its swap parity comes from Theory/Words.v).

   Vocabulary.   spells A n K     : n is a duplicate-free list of generator digits whose bits XOR to K
                                    (a spelling of blade K; every permutation of the table's name is one);
                 sp_odd n c       : parity of the permutation n -> c  (inv2 n xor inv2 c);
                 sg b v           : if b then - v else v;
                 key_denotes A k z: an int key is itself, a string key is looked up in canon2bin;
                 reads_back m zs vs: keys m = zs, values m = vs, items = zip, and (for duplicate-free zs)
                                    every accessor reads v_i on blade zs_i and 0 / False elsewhere;
                 ifg A g = Ok full: g is a valid grade tuple and full = algebra.indices_for_grades[g];
                 declared g0 dflt : the grades= argument, or dflt when absent.
   Excluded by hypothesis (documented in DESIGN, shown by Examples in Theory/Construct.v): the same blade
   supplied twice under two spellings and spellings that repeat a generator ([valid_items]); duplicate
   keys (NoDup in [reads_back]); keyword blades passed together with values/keys (ignored by the code). *)
From Coq Require Import List ZArith Bool Ring_theory Permutation.
From KV Require Import Model.All Model.Construct Theory.WF Theory.Words Theory.Ops Theory.SignBits Theory.Construct.
Import ListNotations.
Local Open Scope Z_scope.

Section Ring.
  Variable R : Type.
  Variables (rO rI : R) (radd rmul rsub : R -> R -> R) (ropp : R -> R).
  Hypothesis Rth : ring_theory rO rI radd rmul rsub ropp (@eq R).
  Local Notation O := (mkOps R radd rsub rmul ropp rO rI).
  Local Notation sg := (sg R ropp).
  Local Notation reads_back := (reads_back R rO rI radd rmul rsub ropp).
  Local Notation allg A := (map Z.of_nat (all_grades A)).

  (* ---------------- round trips, one per construction form ---------------- *)

  (* keys= / values= : exactly zip(keys, values) is stored, in the order given *)
  Theorem C15_roundtrip_keysvalues : forall A, wf_alg A = true ->
    forall (sym : Z -> R) ks vs nm g0 its m, ks <> [] -> (nm = false \/ vs <> []) ->
    construct O A sym (mkInput (VList vs) (Some ks) nm g0 its) = Ok m ->
    exists zs, Forall2 (key_denotes A) ks zs /\ length zs = length vs /\ m = combine zs vs
      /\ (forall K, In K zs -> 0 <= K < alg_len A) /\ reads_back A m zs vs.
  Proof. exact (roundtrip_keysvalues R rO rI radd rmul rsub ropp Rth). Qed.

  (* a mapping: exactly its items *)
  Theorem C15_roundtrip_mapping : forall A, wf_alg A = true ->
    forall (sym : Z -> R) mp nm g0 its m,
    construct O A sym (mkInput (VMap mp) None nm g0 its) = Ok m ->
    exists zs, Forall2 (key_denotes A) (map fst mp) zs /\ m = combine zs (map snd mp)
      /\ (forall K, In K zs -> 0 <= K < alg_len A) /\ reads_back A m zs (map snd mp).
  Proof. exact (roundtrip_mapping R rO rI radd rmul rsub ropp Rth). Qed.

  (* keyword blades in any spelling: every supplied blade is stored with its parity-adjusted value,
     reading back with the SAME spelling returns the supplied value, nothing else is stored *)
  Theorem C15_roundtrip_keywords : forall A, wf_alg A = true ->
    forall (sym : Z -> R) its nm g0 m, its <> [] -> valid_items R A its ->
    construct O A sym (mkInput VNone None nm g0 its) = Ok m ->
    NoDup (keys m)
    /\ (forall n v K c, In (n, v) its -> spells A n K -> bin2canon A K = Some c ->
          In K (keys m) /\ coeff O K m = sg (sp_odd n c) v /\ getattr O A m (SName n) = Ok v
          /\ getattr O A m (SName c) = Ok (sg (sp_odd n c) v))
    /\ (forall K, In K (keys m) -> exists n v, In (n, v) its /\ spells A n K)
    /\ (forall K, (forall n v, In (n, v) its -> ~ spells A n K) -> coeff O K m = rO).
  Proof. exact (roundtrip_keywords R rO rI radd rmul rsub ropp Rth). Qed.

  (* a value list for the declared grades (all grades when none is declared) *)
  Theorem C15_roundtrip_grades : forall A, wf_alg A = true ->
    forall (sym : Z -> R) vs nm g0 its m, vs <> [] ->
    construct O A sym (mkInput (VList vs) None nm g0 its) = Ok m ->
    exists full, ifg A (declared g0 (allg A)) = Ok full /\ length full = length vs /\ NoDup full
      /\ m = combine full vs /\ reads_back A m full vs.
  Proof. exact (roundtrip_grades R rO rI radd rmul rsub ropp Rth). Qed.

  (* by name: one symbol per blade of the declared grades / per given key *)
  Theorem C15_roundtrip_name : forall A, wf_alg A = true ->
    forall (sym : Z -> R) v g0 m, novalues R v ->
    construct O A sym (mkInput v None true g0 []) = Ok m ->
    exists full, ifg A (declared g0 (allg A)) = Ok full /\ NoDup full
      /\ m = combine full (map sym full) /\ reads_back A m full (map sym full).
  Proof. exact (roundtrip_name R rO rI radd rmul rsub ropp Rth). Qed.

  Theorem C15_roundtrip_name_keys : forall A, wf_alg A = true ->
    forall (sym : Z -> R) ks v g0 its m, ks <> [] -> novalues R v ->
    construct O A sym (mkInput v (Some ks) true g0 its) = Ok m ->
    exists zs, Forall2 (key_denotes A) ks zs /\ m = combine zs (map sym zs) /\ reads_back A m zs (map sym zs).
  Proof. exact (roundtrip_name_keys R rO rI radd rmul rsub ropp Rth). Qed.

  (* ---------------- accessors ---------------- *)

  (* any permutation n of the table's name c of blade K reads (parity of n -> c) x coefficient of K *)
  Theorem C15_getattr_parity : forall A, wf_alg A = true ->
    forall (m : mv R) K c n, bin2canon A K = Some c -> Permutation n c ->
    getattr O A m (SName n) = Ok (sg (sp_odd n c) (coeff O K m)).
  Proof. exact (getattr_parity R rO rI radd rmul rsub ropp Rth). Qed.

  (* ... in particular one transposition negates *)
  Theorem C15_getattr_transposition : forall A, wf_alg A = true ->
    forall (m : mv R) K p x y r, bin2canon A K = Some (p ++ x :: y :: r) ->
    getattr O A m (SName (p ++ y :: x :: r)) = Ok (ropp (coeff O K m)).
  Proof. exact (getattr_swap R rO rI radd rmul rsub ropp Rth). Qed.

  Theorem C15_absent_is_zero : forall A, wf_alg A = true -> forall m : mv R,
    (forall K c n, bin2canon A K = Some c -> Permutation n c -> ~ In K (keys m) ->
       getattr O A m (SName n) = Ok rO)
    /\ (forall n, (exists g, In g n /\ ~ In g (alg_vecs A)) -> getattr O A m (SName n) = Ok rO)
    /\ getattr O A m SOther = Err EAttr.
  Proof. exact (absent_is_zero R rO rI radd rmul rsub ropp Rth). Qed.

  Theorem C15_contains_iff : forall A, wf_alg A = true -> forall m : mv R,
    (forall k, contains A m (KInt k) = Ok (zin k (keys m)))
    /\ (forall K c, bin2canon A K = Some c -> contains A m (KName c) = Ok (zin K (keys m)))
    /\ (forall n, canon2bin A n = None -> contains A m (KName n) = Err EKey)
    /\ (forall K, zin K (keys m) = true <-> In K (keys m)).
  Proof. exact (contains_iff R). Qed.

  Theorem C15_items_exact : forall m : mv R,
    mv_items m = combine (keys m) (map snd m)
    /\ (NoDup (keys m) -> forall K v, In (K, v) (mv_items m) <-> In K (keys m) /\ coeff O K m = v).
  Proof. exact (items_exact R rO rI radd rmul rsub ropp). Qed.

  (* all 2^d blades, canonical or binary order; stored blades keep their coefficient, the others read 0 *)
  Theorem C15_asfullmv_coeffs : forall A, wf_alg A = true -> forall canonical (m : mv R),
    asfullmv O A canonical m = Ok (map (fun k => (k, coeff O k m)) (full_keys A canonical))
    /\ (forall f, asfullmv O A canonical m = Ok f ->
          keys f = full_keys A canonical
          /\ (forall K, 0 <= K < alg_len A -> coeff O K f = coeff O K m)
          /\ (forall K, ~ (0 <= K < alg_len A) -> coeff O K f = rO)).
  Proof. exact (asfullmv_coeffs R rO rI radd rmul rsub ropp Rth). Qed.

  Theorem C15_map_exact : forall m : mv R,
    (forall f, keys (map_v f m) = keys m /\ map snd (map_v f m) = map f (map snd m)
       /\ forall K, coeff O K (map_v f m) = if zin K (keys m) then f (coeff O K m) else rO)
    /\ (forall f, keys (map_kv f m) = keys m
       /\ forall K, coeff O K (map_kv f m) = if zin K (keys m) then f K (coeff O K m) else rO).
  Proof. exact (map_exact R rO rI radd rmul rsub ropp). Qed.

  Theorem C15_filter_exact : forall m : mv R, NoDup (keys m) ->
    (forall p, keys (filter_v p m) = filter (fun k => p (coeff O k m)) (keys m)
       /\ forall K, coeff O K (filter_v p m) = if zin K (keys m) && p (coeff O K m) then coeff O K m else rO)
    /\ (forall p, keys (filter_kv p m) = filter (fun k => p k (coeff O k m)) (keys m)
       /\ forall K, coeff O K (filter_kv p m) = if zin K (keys m) && p K (coeff O K m) then coeff O K m else rO).
  Proof. exact (filter_exact R rO rI radd rmul rsub ropp). Qed.

  Theorem C15_grade_exact : forall A, wf_alg A = true -> forall grades (m : mv R),
    (grade_sel O A grades m = Err EKey <-> grades_ok A grades = false)
    /\ (forall r, grade_sel O A grades m = Ok r ->
          (forall K, 0 <= K < alg_len A ->
             coeff O K r = if grade_in grades K && zin K (keys m) then coeff O K m else rO)
          /\ (wfmv A m -> NoDup (keys r)
                          /\ forall K, In K (keys r) <-> (In K (keys m) /\ grade_in grades K = true))).
  Proof. exact (grade_exact R rO rI radd rmul rsub ropp). Qed.

  (* ---------------- inconsistent input raises ---------------- *)

  (* the constructor raises EXACTLY when the input is inconsistent, form by form (ok_* spell out:
     keys resolvable, grades within 0..d and strictly increasing, lengths matching, keys within the
     grades, complete grades in graded mode) *)
  Theorem C15_errors_iff : forall A, wf_alg A = true -> forall sym : Z -> R,
    (forall ks vs nm g0 its, ks <> [] -> (nm = false \/ vs <> []) ->
       ((exists e, construct O A sym (mkInput (VList vs) (Some ks) nm g0 its) = Err e)
        <-> ~ ok_keyed A ks g0 (Some (length vs))))
    /\ (forall ks v g0 its, ks <> [] -> novalues R v ->
       ((exists e, construct O A sym (mkInput v (Some ks) true g0 its) = Err e) <-> ~ ok_keyed A ks g0 None))
    /\ (forall mp nm g0 its,
       ((exists e, construct O A sym (mkInput (VMap mp) None nm g0 its) = Err e) <-> ~ ok_mapping R A mp g0))
    /\ (forall vs nm g0 its, (nm = false \/ vs <> []) ->
       ((exists e, construct O A sym (mkInput (VList vs) None nm g0 its) = Err e)
        <-> ~ ok_grades A g0 (Some (length vs))))
    /\ (forall v g0, novalues R v ->
       ((exists e, construct O A sym (mkInput v None true g0 []) = Err e) <-> ~ ok_grades A g0 None))
    /\ (forall its nm g0, its <> [] -> valid_items R A its ->
       ((exists e, construct O A sym (mkInput VNone None nm g0 its) = Err e) <-> ~ ok_keywords R ropp A its g0)).
  Proof. exact (errors_iff R rO rI radd rmul rsub ropp). Qed.

  (* whatever the mixture of arguments: every stored key is a blade of the algebra, and with grades=
     declared the grades are valid and every stored key has a declared grade *)
  Theorem C15_stored_keys_sound : forall A, wf_alg A = true -> forall (sym : Z -> R) inp m,
    construct O A sym inp = Ok m ->
    (forall K, In K (keys m) -> 0 <= K < alg_len A)
    /\ (forall g, i_grades inp = Some g ->
          grade_range_ok A g = true /\ grades_ok A (map Z.to_nat g) = true
          /\ forall K, In K (keys m) -> grade_in (map Z.to_nat g) K = true).
  Proof. exact (stored_keys_sound R rO rI radd rmul rsub ropp). Qed.

  (* the clauses of the property, one by one *)
  Theorem C15_err_invalid_grades : forall A, wf_alg A = true -> forall (sym : Z -> R) inp g,
    i_grades inp = Some g -> grade_range_ok A g = false \/ grades_ok A (map Z.to_nat g) = false ->
    exists e, construct O A sym inp = Err e.
  Proof. exact (err_invalid_grades R rO rI radd rmul rsub ropp). Qed.

  Theorem C15_err_length_mismatch : forall A, wf_alg A = true -> forall sym : Z -> R,
    (forall ks vs nm g0 its, ks <> [] -> (nm = false \/ vs <> []) -> length ks <> length vs ->
       exists e, construct O A sym (mkInput (VList vs) (Some ks) nm g0 its) = Err e)
    /\ (forall vs nm g0 its full, vs <> [] -> ifg A (declared g0 (allg A)) = Ok full -> length vs <> length full ->
       exists e, construct O A sym (mkInput (VList vs) None nm g0 its) = Err e).
  Proof.
    exact (fun A H sym => conj (err_length_keysvalues R rO rI radd rmul rsub ropp Rth A H sym)
                               (err_length_grades R rO rI radd rmul rsub ropp Rth A H sym)).
  Qed.

  Theorem C15_err_key_outside_grades : forall A, wf_alg A = true -> forall sym : Z -> R,
    (forall ks vs nm g its zs K, ks <> [] -> (nm = false \/ vs <> []) ->
       Forall2 (key_denotes A) ks zs -> In K zs -> grade_in (map Z.to_nat g) K = false ->
       exists e, construct O A sym (mkInput (VList vs) (Some ks) nm (Some g) its) = Err e)
    /\ (forall mp nm g its zs K,
       Forall2 (key_denotes A) (map fst mp) zs -> In K zs -> grade_in (map Z.to_nat g) K = false ->
       exists e, construct O A sym (mkInput (VMap mp) None nm (Some g) its) = Err e)
    /\ (forall (its : list (name * R)) nm g (n : name) v K, valid_items R A its ->
       In (n, v) its -> spells A n K -> grade_in (map Z.to_nat g) K = false ->
       exists e, construct O A sym (mkInput VNone None nm (Some g) its) = Err e).
  Proof.
    exact (fun A H sym => conj (err_outside_keysvalues R rO rI radd rmul rsub ropp Rth A H sym)
                         (conj (err_outside_mapping R rO rI radd rmul rsub ropp Rth A H sym)
                               (err_outside_keywords R rO rI radd rmul rsub ropp Rth A H sym))).
  Qed.

  (* graded mode: a constructed multivector stores exactly complete grades, in canonical order *)
  Theorem C15_graded_complete : forall A, wf_alg A = true -> forall sym : Z -> R, a_graded A = true ->
    (forall ks vs nm g0 its m, ks <> [] -> (nm = false \/ vs <> []) ->
       construct O A sym (mkInput (VList vs) (Some ks) nm g0 its) = Ok m ->
       ifg A (declared g0 (grades_of_keys (keys m))) = Ok (keys m))
    /\ (forall mp nm g0 its m, mp <> [] -> construct O A sym (mkInput (VMap mp) None nm g0 its) = Ok m ->
       ifg A (grades_of_keys (keys m)) = Ok (keys m))
    /\ (forall its nm g0 m, its <> [] -> valid_items R A its ->
       construct O A sym (mkInput VNone None nm g0 its) = Ok m ->
       ifg A (declared g0 (grades_of_keys (keys m))) = Ok (keys m))
    /\ (forall ks v g0 its m, ks <> [] -> novalues R v ->
       construct O A sym (mkInput v (Some ks) true g0 its) = Ok m ->
       ifg A (declared g0 (grades_of_keys (keys m))) = Ok (keys m)).
  Proof. exact (graded_complete R rO rI radd rmul rsub ropp). Qed.

  Theorem C15_err_graded_incomplete : forall A, wf_alg A = true ->
    forall (sym : Z -> R) ks vs nm g0 its zs, a_graded A = true -> ks <> [] -> (nm = false \/ vs <> []) ->
    Forall2 (key_denotes A) ks zs -> ifg A (declared g0 (grades_of_keys zs)) <> Ok zs ->
    exists e, construct O A sym (mkInput (VList vs) (Some ks) nm g0 its) = Err e.
  Proof. exact (err_graded_incomplete R rO rI radd rmul rsub ropp Rth). Qed.

  (* unknown blade names: a keyword with a letter that is no generator, a string key that is no table name *)
  Theorem C15_err_unknown_name : forall A, wf_alg A = true -> forall sym : Z -> R,
    (forall (its : list (name * R)) nm g0 (n : name) v, In (n, v) its -> (exists g, In g n /\ ~ In g (alg_vecs A)) ->
       exists e, construct O A sym (mkInput VNone None nm g0 its) = Err e)
    /\ (forall v ks nm g0 its n, In (KName n) ks -> canon2bin A n = None ->
       exists e, construct O A sym (mkInput v (Some ks) nm g0 its) = Err e)
    /\ (forall mp nm g0 its n, In (KName n) (map fst mp) -> canon2bin A n = None ->
       exists e, construct O A sym (mkInput (VMap mp) None nm g0 its) = Err e).
  Proof.
    exact (fun A H sym => conj (err_unknown_keyword R rO rI radd rmul rsub ropp A H sym)
                         (conj (err_unknown_key R rO rI radd rmul rsub ropp A H sym)
                               (err_unknown_mapkey R rO rI radd rmul rsub ropp A H sym))).
  Qed.

  (* the convenience constructors are the general constructor with grades= *)
  Theorem C15_convenience_constructors : forall A, wf_alg A = true -> forall (sym : Z -> R) inp,
    multivector O A sym inp = construct O A sym inp
    /\ evenmv O A sym inp = construct O A sym (with_grades (filter Z.even (allg A)) inp)
    /\ oddmv O A sym inp = construct O A sym (with_grades (filter Z.odd (allg A)) inp)
    /\ (forall g, purevector O A sym g inp = construct O A sym (with_grades [g] inp))
    /\ scalar O A sym inp = purevector O A sym 0 inp /\ vector O A sym inp = purevector O A sym 1 inp
    /\ bivector O A sym inp = purevector O A sym 2 inp /\ trivector O A sym inp = purevector O A sym 3 inp
    /\ quadvector O A sym inp = purevector O A sym 4 inp
    /\ pseudoscalar O A sym inp = purevector O A sym (Z.of_nat (a_d A)) inp
    /\ pseudovector O A sym inp = purevector O A sym (Z.of_nat (a_d A) - 1) inp
    /\ pseudobivector O A sym inp = purevector O A sym (Z.of_nat (a_d A) - 2) inp
    /\ pseudotrivector O A sym inp = purevector O A sym (Z.of_nat (a_d A) - 3) inp
    /\ pseudoquadvector O A sym inp = purevector O A sym (Z.of_nat (a_d A) - 4) inp
    /\ (forall g, g < 0 \/ Z.of_nat (a_d A) < g -> exists e, purevector O A sym g inp = Err e).
  Proof. exact (convenience_constructors R rO rI radd rmul rsub ropp). Qed.
End Ring.

(* every permutation of a table name is a spelling of that blade, and conversely; _blade2canon returns the
   table's name with a swap count of the permutation's parity, and None for names outside the algebra *)
Theorem C15_spellings : forall A, wf_alg A = true ->
  (forall n K c, bin2canon A K = Some c -> Permutation n c -> spells A n K)
  /\ (forall n K c, spells A n K -> bin2canon A K = Some c -> Permutation n c)
  /\ (forall n K, spells A n K -> exists c sw, bin2canon A K = Some c /\ canon2bin A c = Some K /\ Permutation n c
        /\ blade2canon A n = (Some c, sw) /\ Z.odd sw = sp_odd n c)
  /\ (forall n, (exists g, In g n /\ ~ In g (alg_vecs A)) -> blade2canon A n = (None, 0)).
Proof.
  exact (fun A H => conj (perm_spells A H) (conj (spells_perm A H) (conj (blade2canon_spells A H) (blade2canon_nonblade A H)))).
Qed.

Print Assumptions C15_roundtrip_keysvalues.
Print Assumptions C15_roundtrip_mapping.
Print Assumptions C15_roundtrip_keywords.
Print Assumptions C15_roundtrip_grades.
Print Assumptions C15_roundtrip_name.
Print Assumptions C15_roundtrip_name_keys.
Print Assumptions C15_getattr_parity.
Print Assumptions C15_getattr_transposition.
Print Assumptions C15_absent_is_zero.
Print Assumptions C15_contains_iff.
Print Assumptions C15_items_exact.
Print Assumptions C15_asfullmv_coeffs.
Print Assumptions C15_map_exact.
Print Assumptions C15_filter_exact.
Print Assumptions C15_grade_exact.
Print Assumptions C15_errors_iff.
Print Assumptions C15_stored_keys_sound.
Print Assumptions C15_err_invalid_grades.
Print Assumptions C15_err_length_mismatch.
Print Assumptions C15_err_key_outside_grades.
Print Assumptions C15_graded_complete.
Print Assumptions C15_err_graded_incomplete.
Print Assumptions C15_err_unknown_name.
Print Assumptions C15_convenience_constructors.
Print Assumptions C15_spellings.

(* ---- source pins: the functions whose hand-written model carries the theorems above are still, textually (after
   ast normalisation), the functions the model was validated against; an edit breaks Bridge/Pins_C15.v ---- *)
From KV Require Bridge.Pins_C15.
