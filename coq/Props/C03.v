(* Props/C03.v — op, ip, lc, rc, sp, cp, acp match their definitions.  Statements only. *)
From KV Require Import Model.All Bridge.Codegen.
Local Open Scope Z_scope.

(* the seven filters regenerated from today's source are the model's filters (all arguments) *)
Theorem C03_filters_tie : forall sgn kx ky ko,
  Gen.Codegen.filter_op kx ky ko = Model.Codegen.filter_op kx ky ko /\
  Gen.Codegen.filter_ip kx ky ko = Model.Codegen.filter_ip kx ky ko /\
  Gen.Codegen.filter_lc kx ky ko = Model.Codegen.filter_lc kx ky ko /\
  Gen.Codegen.filter_rc kx ky ko = Model.Codegen.filter_rc kx ky ko /\
  Gen.Codegen.filter_sp kx ky ko = Model.Codegen.filter_sp kx ky ko /\
  Gen.Codegen.filter_cp sgn kx ky ko = Model.Codegen.filter_cp sgn kx ky ko /\
  Gen.Codegen.filter_acp sgn kx ky ko = Model.Codegen.filter_acp sgn kx ky ko.
Proof. intros. repeat split. Qed.
Print Assumptions C03_filters_tie.
