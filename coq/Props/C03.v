(* Props/C03.v — op, ip, lc, rc, sp, cp, acp match their definitions.  Statements only; proofs in
   Theory/Bits.v (bit tricks), Theory/Product.v, Theory/Ops.v, Theory/SignBits.v, Theory/OpsWF.v.
   All theorems: every commutative ring of coefficients, every well-formed algebra (any dimension,
   signature ordering incl. negative and null generators, start index, admissible custom basis), all
   duplicate-free key tuples in any order. *)
From Coq Require Import Ring_theory.
From KV Require Import Model.All Bridge.Codegen Theory.WF Theory.Bits Theory.Sparse Theory.Product Theory.Ops Theory.OpsWF.
Local Open Scope Z_scope.

(* the seven filters regenerated from today's source are the model's filters (all arguments) *)
Theorem C03_filters_tie : forall sgn kx ky ko,
  Gen.Codegen.filter_op kx ky ko = Model.Codegen.filter_op kx ky ko /\
  Gen.Codegen.filter_ip kx ky ko = Model.Codegen.filter_ip kx ky ko /\
  Gen.Codegen.filter_lc kx ky ko = Model.Codegen.filter_lc kx ky ko /\
  Gen.Codegen.filter_rc kx ky ko = Model.Codegen.filter_rc kx ky ko /\
  Gen.Codegen.filter_sp kx ky ko = Model.Codegen.filter_sp kx ky ko /\
  Gen.Codegen.filter_cp sgn kx ky ko = Model.Codegen.filter_cp sgn kx ky ko /\
  Gen.Codegen.filter_acp sgn kx ky ko = Model.Codegen.filter_acp sgn kx ky ko.
Proof. intros. repeat split. Qed.
Print Assumptions C03_filters_tie.

(* the bit tricks, for unbounded non-negative keys: k_out == kx + ky selects exactly the disjoint pairs,
   i.e. grade(out) = r + s;  k_out == |kx - ky| exactly the nested pairs, i.e. grade |r - s|; etc. *)
Theorem C03_filter_op_grade : forall kx ky, 0 <= kx -> 0 <= ky ->
  (filter_op kx ky (Z.lxor kx ky) = true <-> popcount (Z.lxor kx ky) = popcount kx + popcount ky).
Proof. exact filter_op_grade. Qed.
Theorem C03_filter_ip_grade : forall kx ky, 0 <= kx -> 0 <= ky ->
  (filter_ip kx ky (Z.lxor kx ky) = true <-> popcount (Z.lxor kx ky) = Z.abs (popcount kx - popcount ky)).
Proof. exact filter_ip_grade. Qed.
Theorem C03_filter_lc_grade : forall kx ky, 0 <= kx -> 0 <= ky ->
  (filter_lc kx ky (Z.lxor kx ky) = true <-> popcount (Z.lxor kx ky) = popcount ky - popcount kx).
Proof. exact filter_lc_grade. Qed.
Theorem C03_filter_rc_grade : forall kx ky, 0 <= kx -> 0 <= ky ->
  (filter_rc kx ky (Z.lxor kx ky) = true <-> popcount (Z.lxor kx ky) = popcount kx - popcount ky).
Proof. exact filter_rc_grade. Qed.
Theorem C03_filter_sp_grade : forall kx ky, 0 <= kx -> 0 <= ky ->
  (filter_sp kx ky (Z.lxor kx ky) = true <-> popcount (Z.lxor kx ky) = 0).
Proof. exact filter_sp_grade. Qed.
Print Assumptions C03_filter_op_grade.
Print Assumptions C03_filter_ip_grade.
Print Assumptions C03_filter_lc_grade.
Print Assumptions C03_filter_rc_grade.
Print Assumptions C03_filter_sp_grade.

Section Ring.
  Variable R : Type.
  Variables (rO rI : R) (radd rmul rsub : R -> R -> R) (ropp : R -> R).
  Hypothesis Rth : ring_theory rO rI radd rmul rsub ropp (@eq R).
  Local Notation O := (mkOps R radd rsub rmul ropp rO rI).
  Local Notation gsum sel A K x y := (rsum rO radd (map (gcontrib rO rmul ropp A sel K) (list_prod x y))).

  (* a ^ b = sum over r, s of the grade r+s part of a_r b_s, coefficient by coefficient; likewise
     |r-s| (ip), s-r (lc), r-s (rc), 0 (sp): gcontrib sel K is the geometric-product contribution of a
     pair of stored blades when the grades (r, s, grade of the product blade) satisfy sel, else 0 *)
  Theorem C03_op : forall A, wf_alg A = true -> forall (x y : mv R) K, wfmv A x -> wfmv A y -> 0 <= K < alg_len A ->
    coeff O K (op O A x y) = gsum sel_op A K x y.
  Proof. intros A H. apply (op_graded _ _ _ _ _ _ _ Rth A (sh_keys A (wf_sign_hyps A H))). Qed.
  Theorem C03_ip : forall A, wf_alg A = true -> forall (x y : mv R) K, wfmv A x -> wfmv A y -> 0 <= K < alg_len A ->
    coeff O K (ip O A x y) = gsum sel_ip A K x y.
  Proof. intros A H. apply (ip_graded _ _ _ _ _ _ _ Rth A (sh_keys A (wf_sign_hyps A H))). Qed.
  Theorem C03_lc : forall A, wf_alg A = true -> forall (x y : mv R) K, wfmv A x -> wfmv A y -> 0 <= K < alg_len A ->
    coeff O K (lc O A x y) = gsum sel_lc A K x y.
  Proof. intros A H. apply (lc_graded _ _ _ _ _ _ _ Rth A (sh_keys A (wf_sign_hyps A H))). Qed.
  Theorem C03_rc : forall A, wf_alg A = true -> forall (x y : mv R) K, wfmv A x -> wfmv A y -> 0 <= K < alg_len A ->
    coeff O K (rc O A x y) = gsum sel_rc A K x y.
  Proof. intros A H. apply (rc_graded _ _ _ _ _ _ _ Rth A (sh_keys A (wf_sign_hyps A H))). Qed.
  Theorem C03_sp : forall A, wf_alg A = true -> forall (x y : mv R) K, wfmv A x -> wfmv A y -> 0 <= K < alg_len A ->
    coeff O K (sp O A x y) = gsum sel_sp A K x y.
  Proof. intros A H. apply (sp_graded _ _ _ _ _ _ _ Rth A (sh_keys A (wf_sign_hyps A H))). Qed.

  (* ip + sp = lc + rc *)
  Theorem C03_ip_sp_lc_rc : forall A, wf_alg A = true -> forall (x y : mv R) K, wfmv A x -> wfmv A y -> 0 <= K < alg_len A ->
    radd (coeff O K (ip O A x y)) (coeff O K (sp O A x y)) = radd (coeff O K (lc O A x y)) (coeff O K (rc O A x y)).
  Proof. intros A H. apply (ip_sp_lc_rc _ _ _ _ _ _ _ Rth A (sh_keys A (wf_sign_hyps A H))). Qed.

  (* cp + acp = gp;  2 cp = ab - ba;  2 acp = ab + ba *)
  Theorem C03_cp_acp_gp : forall A, wf_alg A = true -> forall (x y : mv R) K, wfmv A x -> wfmv A y -> 0 <= K < alg_len A ->
    radd (coeff O K (cp O A x y)) (coeff O K (acp O A x y)) = coeff O K (gp O A x y).
  Proof. intros A H. pose proof (wf_sign_hyps A H) as S.
    apply (cp_acp_gp _ _ _ _ _ _ _ Rth A (sh_keys A S) (sh_val A S) (sh_swap A S)). Qed.
  Theorem C03_cp : forall A, wf_alg A = true -> forall (x y : mv R) K, wfmv A x -> wfmv A y -> 0 <= K < alg_len A ->
    radd (coeff O K (cp O A x y)) (coeff O K (cp O A x y)) = rsub (coeff O K (gp O A x y)) (coeff O K (gp O A y x)).
  Proof. intros A H. pose proof (wf_sign_hyps A H) as S.
    apply (cp_spec _ _ _ _ _ _ _ Rth A (sh_keys A S) (sh_val A S) (sh_swap A S)). Qed.
  Theorem C03_acp : forall A, wf_alg A = true -> forall (x y : mv R) K, wfmv A x -> wfmv A y -> 0 <= K < alg_len A ->
    radd (coeff O K (acp O A x y)) (coeff O K (acp O A x y)) = radd (coeff O K (gp O A x y)) (coeff O K (gp O A y x)).
  Proof. intros A H. pose proof (wf_sign_hyps A H) as S.
    apply (acp_spec _ _ _ _ _ _ _ Rth A (sh_keys A S) (sh_val A S) (sh_swap A S)). Qed.
End Ring.
Print Assumptions C03_op.
Print Assumptions C03_ip.
Print Assumptions C03_lc.
Print Assumptions C03_rc.
Print Assumptions C03_sp.
Print Assumptions C03_ip_sp_lc_rc.
Print Assumptions C03_cp_acp_gp.
Print Assumptions C03_cp.
Print Assumptions C03_acp.

(* non-vacuity: in Cl(2,0), (e1 + 2 e2) ^ (3 e1 + e12) = -6 e12 and the hypotheses are satisfiable *)
Example C03_example :
  let A := mk_default [1; 1] 1 false in
  wf_alg A = true /\ op Zops A [(1, 1); (2, 2)] [(1, 3); (3, 1)] = [(3, -6)].
Proof. vm_compute. split; reflexivity. Qed.

(* ---- the tie to today's source: codegen_product as regenerated from /repo/kingdon/codegen.py
   (Gen/Kernels.v) IS the model function the theorems above speak about, for every coefficient type ---- *)
From KV Require Import Gen.Kernels Bridge.Kernels.
Theorem C03_product_kernel_is_todays_source : forall (R : Type) (O : ops R) sfun filt kout (x y : mv R),
  gen_codegen_product O sfun filt kout x y = codegen_product O sfun filt kout x y.
Proof. exact @br_codegen_product. Qed.
Print Assumptions C03_product_kernel_is_todays_source.

(* ---- source pins: the functions whose hand-written model carries the theorems above are still, textually (after
   ast normalisation), the functions the model was validated against; an edit breaks Bridge/Pins_C03.v ---- *)
From KV Require Bridge.Pins_C03.
