(* Props/C07.v — inverse and division  (PARTIAL).
   Model/Inverse.v: codegen_inv / codegen_hitzer_inv / codegen_shirokov_inv / codegen_div / power_supply
   / AdditionChains and MultiVector.inv, __truediv__, __rtruediv__, __pow__, hand-modelled branch by
   branch over a coefficient structure with division [dv], zero test [isz] and the OperatorDict filter
   [F] of the symbolic path (filter_ok: F keeps the element; identity and filter_nz qualify).
   Statements only; proofs in Theory/Inverse.v and Theory/Hitzer.v (on Theory/Algebra.v).

   PROVED, every dimension / signature / basis (wf_alg A = true), every commutative ring, sparse
   operands in any key order:
     C07_inv_sound, C07_inverse_unique, C07_zde_iff, C07_no_other_zde, C07_inv_model_sound, C07_div,
     C07_rdiv, C07_power_supply, and C07_shirokov_partial, C07_inv_shirokov_partial (both under the
     proviso that the loop stops by its break).
   PROVED, d <= 4, every basis spelled in ascending generator order (all default bases: every
   signature over {1,-1,0} in any order, start index 0..2), ALL operands:
     C07_hitzer_le4, C07_hitzer_default_le4, C07_inv_le4, C07_inv_default_le4, C07_zde_only_singular_le4,
     C07_inv_le4_complete.
   NOT PROVED (left to the direct oracle of tools/props/C07.py, labelled exploration in the evidence):
     the closed form for d = 5 (x * num scalar), that the Shirokov loop reaches its `break` within
     2^ceil(d/2) rounds for d >= 6 (C07_shirokov_partial assumes the break), and "ZeroDivisionError
     only for singular operands" beyond d = 4.
   PROVED, d <= 4, EVERY admissible basis (wf_alg A = true: any generator order, any spellings such as
   e31 / e021, any order within a grade; 2DPGA, 3DPGA, STAP ...), start index >= 0, ALL operands
   (Theory/InverseRelabel.v: the ascending statements composed with the C14 relabelling isomorphism of
   Theory/Relabel.v onto the default basis of the same signature and start index):
     C07_hitzer_le4_any_basis, C07_inv_le4_any_basis, C07_zde_only_singular_le4_any_basis,
     C07_inv_le4_complete_any_basis, with C07_default_ascending, C07_invertible_transfer,
     C07_hitzer_num_relabel, C07_hitzer_den_relabel (every dimension, every pair of filters) and the
     instance C07_inv_pga3d_fractions. *)
From Coq Require Import List ZArith QArith Qcanon Ring_theory.
From KV Require Import Model.All Model.Inverse Theory.WF Theory.Sparse Theory.Ops Theory.OpsWF
  Theory.Algebra Theory.Inverse Theory.Hitzer.
Import ListNotations.
Local Open Scope Z_scope.

Section AnyRing.
  Variable R : Type.
  Variables (R0 R1 : R) (Radd Rmul Rsub : R -> R -> R) (Ropp : R -> R).
  Hypothesis Rth : ring_theory R0 R1 Radd Rmul Rsub Ropp (@eq R).
  Local Notation O := (mkOps R Radd Rsub Rmul Ropp R0 R1).
  Local Notation "x == y" := (Sparse.equiv R0 R1 Radd Rmul Rsub Ropp x y) (at level 70).
  Local Notation scal := (Algebra.scal Rmul).
  Local Notation one := (Algebra.one R1).
  Local Notation filter_ok := (filter_ok R0 R1 Radd Rmul Rsub Ropp).
  Variable dv : R -> R -> R.
  Variable isz : R -> bool.

  (* ---------- every algebra ---------- *)

  (* what codegen_inv relies on: scalar denominators on both sides give a two-sided inverse *)
  Theorem C07_inv_sound : forall A, wf_alg A = true -> forall (x num : mv R) den e,
    wfmv A x -> wfmv A num ->
    gp O A x num == scal den one -> gp O A num x == scal den one -> Rmul den e = R1 ->
    gp O A x (scal e num) == one /\ gp O A (scal e num) x == one.
  Proof. intros A Hwf. exact (inv_sound R R0 R1 Radd Rmul Rsub Ropp Rth A (wf_sign_hyps A Hwf)). Qed.

  Theorem C07_inverse_unique : forall A, wf_alg A = true -> forall x y z : mv R,
    wfmv A x -> wfmv A y -> wfmv A z -> gp O A x y == one -> gp O A z x == one -> y == z.
  Proof. intros A Hwf. exact (inverse_unique' R R0 R1 Radd Rmul Rsub Ropp Rth A (wf_sign_hyps A Hwf)). Qed.

  (* ZeroDivisionError exactly when the generated denominator tests zero ... *)
  Theorem C07_zde_iff : forall A F (y : mv R),
    inv_model O dv isz F A y = Err EZeroDiv
    <-> exists num den, inv_numden O dv isz F A y = Ok (num, den) /\ isz den = true.
  Proof. intros A F. exact (zde_iff R R0 R1 Radd Rmul Rsub Ropp A dv isz F). Qed.
  (* ... the generators of numerator and denominator never raise it themselves *)
  Theorem C07_no_other_zde : forall A F (y : mv R), inv_numden O dv isz F A y <> Err EZeroDiv.
  Proof. intros A F. exact (inv_numden_no_zde R R0 R1 Radd Rmul Rsub Ropp A dv isz F). Qed.

  (* whatever alg.inv returns is a two-sided inverse as soon as its numerator/denominator pair satisfies
     the two scalar equations (proved below for d <= 3, explored by the check beyond) *)
  Theorem C07_inv_model_sound : forall A, wf_alg A = true -> forall F, filter_ok A F ->
    forall (y num : mv R) den r, wfmv A y ->
    inv_numden O dv isz F A y = Ok (num, den) ->
    gp O A y num == scal den one -> gp O A num y == scal den one ->
    Rmul den (dv R1 den) = R1 ->
    inv_model O dv isz F A y = Ok r -> gp O A y r == one /\ gp O A r y == one.
  Proof.
    intros A Hwf F HF. exact (inv_model_sound R R0 R1 Radd Rmul Rsub Ropp Rth A (wf_sign_hyps A Hwf) dv isz F HF).
  Qed.

  (* a / b = a * b.inv() *)
  Theorem C07_div : forall A, wf_alg A = true -> forall F, filter_ok A F -> forall x y : mv R, wfmv A x ->
    match div_model O dv isz F A x y, inv_model O dv isz F A y with
    | Ok r, Ok yi => r == gp O A x yi
    | Err e1, Err e2 => e1 = e2
    | _, _ => False
    end.
  Proof.
    intros A Hwf F HF. exact (div_spec R R0 R1 Radd Rmul Rsub Ropp Rth A (wf_sign_hyps A Hwf) dv isz F HF).
  Qed.

  (* number / x = number * x.inv() *)
  Theorem C07_rdiv : forall A, wf_alg A = true -> forall F, filter_ok A F -> forall c (x : mv R),
    match rdiv_number O dv isz F A c x, inv_model O dv isz F A x with
    | Ok r, Ok xi => r == scal c xi /\ r == gp O A (scalar_mv c) xi
    | Err e1, Err e2 => e1 = e2
    | _, _ => False
    end.
  Proof.
    intros A Hwf F HF. exact (rdiv_spec R R0 R1 Radd Rmul Rsub Ropp Rth A (wf_sign_hyps A Hwf) dv isz F HF).
  Qed.

  (* the two filters kingdon uses satisfy the hypothesis on F *)
  Theorem C07_filter_numeric : forall A, filter_ok A (fun z : mv R => z).
  Proof. exact (filter_ok_id R R0 R1 Radd Rmul Rsub Ropp). Qed.
  Theorem C07_filter_symbolic : forall A (z : R -> bool), (forall r, z r = true -> r = R0) ->
    filter_ok A (Composite.filter_nz z).
  Proof. exact (filter_ok_nz R R0 R1 Radd Rmul Rsub Ropp). Qed.

  (* ---------- closed forms, d <= 4 ---------- *)

  (* for ALL operands: x * num and num * x are the scalar den; den = 0 only for singular operands *)
  Theorem C07_hitzer_le4 : forall A, wf_alg A = true -> ascending_ok A = true -> (a_d A <= 4)%nat ->
    forall F, filter_ok A F -> forall x : mv R, wfmv A x ->
    exists num, hitzer_num O F A x = Ok num /\ wfmv A num /\
      let den := hitzer_den O F A x num in
      gp O A x num == scal den one /\ gp O A num x == scal den one /\
      (den = R0 -> R1 <> R0 -> ~ exists y, wfmv A y /\ gp O A x y == one /\ gp O A y x == one).
  Proof.
    intros A Hwf Hasc Hd F HF x Hx.
    exact (hitzer_le4 R R0 R1 Radd Rmul Rsub Ropp Rth A (wf_sign_hyps A Hwf) Hasc F HF Hd x Hx).
  Qed.

  (* x * x.inv() = x.inv() * x = 1 whenever x.inv() returns *)
  Theorem C07_inv_le4 : forall A, wf_alg A = true -> ascending_ok A = true -> (a_d A <= 4)%nat ->
    forall F, filter_ok A F -> forall (x r : mv R), wfmv A x ->
    (forall b, isz b = false -> Rmul b (dv R1 b) = R1) ->
    inv_model O dv isz F A x = Ok r -> gp O A x r == one /\ gp O A r x == one.
  Proof.
    intros A Hwf Hasc Hd F HF x r.
    exact (inv_le4_sound R R0 R1 Radd Rmul Rsub Ropp Rth A (wf_sign_hyps A Hwf) Hasc dv isz F HF Hd x r).
  Qed.

  (* ZeroDivisionError only for operands that have no inverse *)
  Theorem C07_zde_only_singular_le4 : forall A, wf_alg A = true -> ascending_ok A = true -> (a_d A <= 4)%nat ->
    forall F, filter_ok A F -> forall x : mv R, wfmv A x -> R1 <> R0 -> (forall r, isz r = true -> r = R0) ->
    inv_model O dv isz F A x = Err EZeroDiv ->
    ~ exists y, wfmv A y /\ gp O A x y == one /\ gp O A y x == one.
  Proof.
    intros A Hwf Hasc Hd F HF x.
    exact (zde_only_singular_le4 R R0 R1 Radd Rmul Rsub Ropp Rth A (wf_sign_hyps A Hwf) Hasc dv isz F HF Hd x).
  Qed.

  (* over a field: a value exactly for the invertible operands, ZeroDivisionError exactly for the others,
     and no other outcome *)
  Theorem C07_inv_le4_complete : forall A, wf_alg A = true -> ascending_ok A = true -> (a_d A <= 4)%nat ->
    forall F, filter_ok A F -> forall x : mv R, wfmv A x -> R1 <> R0 ->
    (forall r, isz r = true -> r = R0) -> (forall b, isz b = false -> Rmul b (dv R1 b) = R1) ->
    ((exists y, wfmv A y /\ gp O A x y == one /\ gp O A y x == one) <-> exists r, inv_model O dv isz F A x = Ok r)
    /\ (~ (exists y, wfmv A y /\ gp O A x y == one /\ gp O A y x == one) <-> inv_model O dv isz F A x = Err EZeroDiv).
  Proof.
    intros A Hwf Hasc Hd F HF x.
    exact (inv_le4_complete R R0 R1 Radd Rmul Rsub Ropp Rth A (wf_sign_hyps A Hwf) Hasc dv isz F HF Hd x).
  Qed.

  (* every default basis up to four dimensions: all 1 + 3 + 9 + 27 + 81 signatures in every order *)
  Theorem C07_hitzer_default_le4 : forall sig start g,
    (length sig <= 4)%nat -> Forall (fun s => s = 1 \/ s = -1 \/ s = 0) sig ->
    (start = 0 \/ start = 1 \/ start = 2) ->
    let A := mk_default sig start g in
    forall F, filter_ok A F -> forall x : mv R, wfmv A x ->
    exists num, hitzer_num O F A x = Ok num /\ wfmv A num /\
      let den := hitzer_den O F A x num in
      gp O A x num == scal den one /\ gp O A num x == scal den one /\
      (den = R0 -> R1 <> R0 -> ~ exists y, wfmv A y /\ gp O A x y == one /\ gp O A y x == one).
  Proof.
    intros sig start g Hl Hsig Hst A F HF x Hx.
    destruct (default_le4_ok sig start g Hl Hsig Hst) as (SH & Hasc & Hd).
    exact (hitzer_le4 R R0 R1 Radd Rmul Rsub Ropp Rth A SH Hasc F HF Hd x Hx).
  Qed.

  Theorem C07_inv_default_le4 : forall sig start g,
    (length sig <= 4)%nat -> Forall (fun s => s = 1 \/ s = -1 \/ s = 0) sig ->
    (start = 0 \/ start = 1 \/ start = 2) ->
    let A := mk_default sig start g in
    forall F, filter_ok A F -> forall (x r : mv R), wfmv A x ->
    (forall b, isz b = false -> Rmul b (dv R1 b) = R1) ->
    inv_model O dv isz F A x = Ok r -> gp O A x r == one /\ gp O A r x == one.
  Proof.
    intros sig start g Hl Hsig Hst A F HF x r.
    destruct (default_le4_ok sig start g Hl Hsig Hst) as (SH & Hasc & Hd).
    exact (inv_le4_sound R R0 R1 Radd Rmul Rsub Ropp Rth A SH Hasc dv isz F HF Hd x r).
  Qed.

  (* ---------- power_supply and the iterative (Shirokov) scheme, every dimension ---------- *)

  (* every `next(supply)` is x^e for the requested exponent e (left-nested power xp), for whatever
     chains AdditionChains produced *)
  Theorem C07_power_supply : forall A, wf_alg A = true -> forall F, filter_ok A F -> forall (x : mv R), wfmv A x ->
    forall exps vs, power_supply O F A x exps = Ok vs ->
    Forall2 (fun e v => 1 <= e /\ wfmv A v /\ v == xp R R0 R1 Radd Rmul Rsub Ropp A x e) exps vs.
  Proof.
    intros A Hwf F HF x Hx.
    exact (power_supply_correct R R0 R1 Radd Rmul Rsub Ropp Rth A (wf_sign_hyps A Hwf) F HF x Hx).
  Qed.

  (* whenever the loop of codegen_shirokov_inv stops on a purely scalar xi (its `break`):
     x * adj = adj * x = xi.e.   PARTIAL: that the break is reached within 2^ceil(d/2) rounds
     (Shirokov's theorem) is not proved; without it the loop runs out and returns a wrong pair. *)
  Theorem C07_shirokov_partial : forall A, wf_alg A = true -> forall F, filter_ok A F -> forall (x : mv R), wfmv A x ->
    forall i xi xs cs, shirokov_run O dv isz F A x = Ok (i, xi, xs, cs) -> grades_is_0 xi = true ->
    let adj := shirokov_adj O F A i xs cs in
    let den := e_of O xi in
    shirokov O dv isz F A x = Ok (adj, den) /\
    gp O A x adj == scal den one /\ gp O A adj x == scal den one.
  Proof.
    intros A Hwf F HF x Hx.
    exact (shirokov_sound_partial R R0 R1 Radd Rmul Rsub Ropp Rth A (wf_sign_hyps A Hwf) dv isz F HF x Hx).
  Qed.

  Theorem C07_inv_shirokov_partial : forall A, wf_alg A = true -> forall F, filter_ok A F -> forall (x : mv R), wfmv A x ->
    forall i xi xs cs r, Nat.ltb (a_d A) 6 = false ->
    shirokov_run O dv isz F A x = Ok (i, xi, xs, cs) -> grades_is_0 xi = true ->
    (forall b, isz b = false -> Rmul b (dv R1 b) = R1) ->
    inv_model O dv isz F A x = Ok r -> gp O A x r == one /\ gp O A r x == one.
  Proof.
    intros A Hwf F HF x Hx.
    exact (inv_shirokov_sound_partial R R0 R1 Radd Rmul Rsub Ropp Rth A (wf_sign_hyps A Hwf) dv isz F HF x Hx).
  Qed.
End AnyRing.
Print Assumptions C07_inv_sound.
Print Assumptions C07_inverse_unique.
Print Assumptions C07_zde_iff.
Print Assumptions C07_no_other_zde.
Print Assumptions C07_inv_model_sound.
Print Assumptions C07_div.
Print Assumptions C07_rdiv.
Print Assumptions C07_filter_numeric.
Print Assumptions C07_filter_symbolic.
Print Assumptions C07_hitzer_le4.
Print Assumptions C07_inv_le4.
Print Assumptions C07_zde_only_singular_le4.
Print Assumptions C07_inv_le4_complete.
Print Assumptions C07_hitzer_default_le4.
Print Assumptions C07_inv_default_le4.
Print Assumptions C07_power_supply.
Print Assumptions C07_shirokov_partial.
Print Assumptions C07_inv_shirokov_partial.

(* the instance "fractions": exact coefficients, numeric path, every default basis up to 4-D — no hypothesis left *)
Theorem C07_inv_default_le4_fractions : forall sig start g,
  (length sig <= 4)%nat -> Forall (fun s => s = 1 \/ s = -1 \/ s = 0) sig ->
  (start = 0 \/ start = 1 \/ start = 2) ->
  let A := mk_default sig start g in
  forall (x r : mv Qc), wfmv A x ->
  inv_model Qcops Qcdiv Qcisz (fun z => z) A x = Ok r ->
  Sparse.equiv (Q2Qc 0) (Q2Qc 1) Qcplus Qcmult Qcminus Qcopp (gp Qcops A x r) (Algebra.one (Q2Qc 1))
  /\ Sparse.equiv (Q2Qc 0) (Q2Qc 1) Qcplus Qcmult Qcminus Qcopp (gp Qcops A r x) (Algebra.one (Q2Qc 1)).
Proof.
  intros sig start g Hl Hs Hst A x r Hx.
  exact (C07_inv_default_le4 Qc (Q2Qc 0) (Q2Qc 1) Qcplus Qcmult Qcminus Qcopp Qcrt Qcdiv Qcisz sig start g Hl Hs Hst
           (fun z => z) (C07_filter_numeric Qc (Q2Qc 0) (Q2Qc 1) Qcplus Qcmult Qcminus Qcopp _) x r Hx Qc_div_inverts).
Qed.
Print Assumptions C07_inv_default_le4_fractions.
(* ... and ZeroDivisionError exactly for the operands without inverse *)
Theorem C07_inv_default_le4_fractions_complete : forall sig start g,
  (length sig <= 4)%nat -> Forall (fun s => s = 1 \/ s = -1 \/ s = 0) sig ->
  (start = 0 \/ start = 1 \/ start = 2) ->
  let A := mk_default sig start g in
  let eqv := Sparse.equiv (Q2Qc 0) (Q2Qc 1) Qcplus Qcmult Qcminus Qcopp in
  forall x : mv Qc, wfmv A x ->
  ((exists y, wfmv A y /\ eqv (gp Qcops A x y) (Algebra.one (Q2Qc 1)) /\ eqv (gp Qcops A y x) (Algebra.one (Q2Qc 1)))
     <-> exists r, inv_model Qcops Qcdiv Qcisz (fun z => z) A x = Ok r)
  /\ (~ (exists y, wfmv A y /\ eqv (gp Qcops A x y) (Algebra.one (Q2Qc 1)) /\ eqv (gp Qcops A y x) (Algebra.one (Q2Qc 1)))
     <-> inv_model Qcops Qcdiv Qcisz (fun z => z) A x = Err EZeroDiv).
Proof.
  intros sig start g Hl Hs Hst A eqv x Hx.
  destruct (default_le4_ok sig start g Hl Hs Hst) as (SH & Hasc & Hd).
  exact (inv_le4_complete Qc (Q2Qc 0) (Q2Qc 1) Qcplus Qcmult Qcminus Qcopp Qcrt A SH Hasc Qcdiv Qcisz (fun z => z)
           (filter_ok_id Qc (Q2Qc 0) (Q2Qc 1) Qcplus Qcmult Qcminus Qcopp A) Hd x Hx Qc_one_neq_zero Qc_isz_exact Qc_div_inverts).
Qed.
Print Assumptions C07_inv_default_le4_fractions_complete.

(* non-vacuity: the hypotheses hold for concrete algebras, and the model computes *)
Example C07_ex_default_ok : default_ok (mk_default [1; -1; 0] 1 false) = true.
Proof. vm_compute. reflexivity. Qed.
Example C07_ex_inverse_Z :
  let A := mk_default [1; 1; 1] 1 false in
  hitzer Zops idF A [(0, 1); (1, 2); (3, 5); (7, 1)]
  = Ok ([(0, 23); (1, -42); (2, 0); (4, -10); (3, -105); (5, 0); (6, 4); (7, 19)], 445).
Proof. vm_compute. reflexivity. Qed.
Example C07_ex_zde :
  inv_model Zops Zdv Zisz idF (mk_default [1] 1 false) [(0, 1); (1, 1)] = Err EZeroDiv.
Proof. vm_compute. reflexivity. Qed.
(* the Shirokov loop on 1 + 2 e1 in a 6-dimensional algebra, over Q with the numeric zero filter: it stops by
   its break in round 8 = 2^(6/2) on the scalar -81, and alg.inv returns -1/3 + 2/3 e1 *)
Example C07_ex_shirokov :
  let A := mk_default [1; 1; 1; 1; -1; 0] 1 false in
  let x := [(1, (2 # 1)%Q); (0, (1 # 1)%Q)] in
  match shirokov_run Qops Qdv Qisz (Composite.filter_nz Qisz) A x with
  | Ok (i, xi, _, _) => i = 8%nat /\ grades_is_0 xi = true /\ xi = [(0, (-81 # 1)%Q)]
  | Err _ => False
  end
  /\ inv_model Qops Qdv Qisz (Composite.filter_nz Qisz) A x = Ok [(0, (-1 # 3)%Q); (1, (2 # 3)%Q)].
Proof. vm_compute. auto. Qed.
(* AdditionChains(16).minimal_chains, in dictionary order *)
Example C07_ex_chains :
  minimal_chains 8 = Ok [(1, [1]); (2, [1; 2]); (3, [1; 2; 3]); (4, [1; 2; 4]); (5, [1; 2; 3; 5]);
                         (6, [1; 2; 3; 6]); (8, [1; 2; 4; 8]); (7, [1; 2; 3; 5; 7])].
Proof. vm_compute. reflexivity. Qed.

(* ================= d <= 4, every admissible basis (Theory/InverseRelabel.v) ================= *)
From KV Require Import Theory.Relabel Theory.InverseRelabel.

(* the default basis is ascending for EVERY start index >= 0 (C07_hitzer_default_le4 had 0..2) *)
Theorem C07_default_ascending : forall sig start g,
  (forall s, In s sig -> s = 1 \/ s = -1 \/ s = 0) -> 0 <= start -> (length sig <= 4)%nat ->
  ascending_ok (mk_default sig start g) = true.
Proof. exact default_ascending. Qed.
Print Assumptions C07_default_ascending.

Section AnyBasis.
  Variable R : Type.
  Variables (R0 R1 : R) (Radd Rmul Rsub : R -> R -> R) (Ropp : R -> R).
  Hypothesis Rth : ring_theory R0 R1 Radd Rmul Rsub Ropp (@eq R).
  Local Notation O := (mkOps R Radd Rsub Rmul Ropp R0 R1).
  Local Notation "x == y" := (Sparse.equiv R0 R1 Radd Rmul Rsub Ropp x y) (at level 70).
  Local Notation scal := (Algebra.scal Rmul).
  Local Notation one := (Algebra.one R1).
  Local Notation filter_ok := (filter_ok R0 R1 Radd Rmul Rsub Ropp).
  Local Notation relabel := (Relabel.relabel R R0 R1 Rmul Ropp).
  Variable dv : R -> R -> R.
  Variable isz : R -> bool.

  (* relabel A D (C14) maps 1 to 1, is linear and injective up to ==; invertibility transfers both ways *)
  Theorem C07_invertible_transfer : forall A D, wf_alg A = true -> wf_alg D = true ->
    a_sig A = a_sig D -> a_start A = a_start D ->
    relabel A D one == one
    /\ (forall c (x : mv R), relabel A D (scal c x) == scal c (relabel A D x))
    /\ (forall u v : mv R, wfmv A u -> wfmv A v -> relabel A D u == relabel A D v -> u == v)
    /\ (forall x y : mv R, wfmv A x -> wfmv A y ->
          (gp O A x y == one <-> gp O D (relabel A D x) (relabel A D y) == one)).
  Proof.
    intros A D HA HD Hs Ht.
    exact (conj (relabel_one R R0 R1 Radd Rmul Rsub Ropp Rth A D HA)
          (conj (relabel_scal R R0 R1 Radd Rmul Rsub Ropp Rth A D)
          (conj (relabel_inj R R0 R1 Radd Rmul Rsub Ropp Rth A D HA HD Hs Ht)
                (invertible_transfer R R0 R1 Radd Rmul Rsub Ropp Rth A D HA HD Hs Ht)))).
  Qed.

  (* the numerator of codegen_hitzer_inv commutes with relabel: every dimension (d <= 5 formulas, the
     same NotImplementedError beyond), every filter F on A and G on D that keep the element *)
  Theorem C07_hitzer_num_relabel : forall A D, wf_alg A = true -> wf_alg D = true ->
    a_sig A = a_sig D -> a_start A = a_start D ->
    forall F G, filter_ok A F -> filter_ok D G -> forall x : mv R, wfmv A x ->
    match hitzer_num O F A x with
    | Ok n => exists n', hitzer_num O G D (relabel A D x) = Ok n' /\ wfmv A n /\ wfmv D n' /\ relabel A D n == n'
    | Err e => hitzer_num O G D (relabel A D x) = Err e
    end.
  Proof. exact (hitzer_num_relabel R R0 R1 Radd Rmul Rsub Ropp Rth). Qed.

  (* ... and the denominator is the same ring element *)
  Theorem C07_hitzer_den_relabel : forall A D, wf_alg A = true -> wf_alg D = true ->
    a_sig A = a_sig D -> a_start A = a_start D ->
    forall F G, filter_ok A F -> filter_ok D G ->
    forall x n n' : mv R, wfmv A x -> wfmv A n -> wfmv D n' -> relabel A D n == n' ->
    hitzer_den O F A x n = hitzer_den O G D (relabel A D x) n'.
  Proof. exact (hitzer_den_relabel R R0 R1 Radd Rmul Rsub Ropp Rth). Qed.

  (* C07_hitzer_le4 without ascending_ok: for ALL operands x * num and num * x are the scalar den;
     den = 0 only for singular operands *)
  Theorem C07_hitzer_le4_any_basis : forall A, wf_alg A = true -> (a_d A <= 4)%nat -> 0 <= a_start A ->
    forall F, filter_ok A F -> forall x : mv R, wfmv A x ->
    exists num, hitzer_num O F A x = Ok num /\ wfmv A num /\
      let den := hitzer_den O F A x num in
      gp O A x num == scal den one /\ gp O A num x == scal den one /\
      (den = R0 -> R1 <> R0 -> ~ exists y, wfmv A y /\ gp O A x y == one /\ gp O A y x == one).
  Proof.
    intros A Hwf Hd Hst F HF x Hx.
    exact (hitzer_le4_any_basis R R0 R1 Radd Rmul Rsub Ropp Rth A Hwf Hd Hst F HF x Hx).
  Qed.

  (* x * x.inv() = x.inv() * x = 1 whenever x.inv() returns *)
  Theorem C07_inv_le4_any_basis : forall A, wf_alg A = true -> (a_d A <= 4)%nat -> 0 <= a_start A ->
    forall F, filter_ok A F -> forall (x r : mv R), wfmv A x ->
    (forall b, isz b = false -> Rmul b (dv R1 b) = R1) ->
    inv_model O dv isz F A x = Ok r -> gp O A x r == one /\ gp O A r x == one.
  Proof.
    intros A Hwf Hd Hst F HF x r.
    exact (inv_le4_sound_any_basis R R0 R1 Radd Rmul Rsub Ropp Rth A Hwf Hd Hst dv isz F HF x r).
  Qed.

  (* ZeroDivisionError only for operands that have no inverse *)
  Theorem C07_zde_only_singular_le4_any_basis : forall A, wf_alg A = true -> (a_d A <= 4)%nat -> 0 <= a_start A ->
    forall F, filter_ok A F -> forall x : mv R, wfmv A x -> R1 <> R0 -> (forall r, isz r = true -> r = R0) ->
    inv_model O dv isz F A x = Err EZeroDiv ->
    ~ exists y, wfmv A y /\ gp O A x y == one /\ gp O A y x == one.
  Proof.
    intros A Hwf Hd Hst F HF x.
    exact (zde_only_singular_le4_any_basis R R0 R1 Radd Rmul Rsub Ropp Rth A Hwf Hd Hst dv isz F HF x).
  Qed.

  (* over a field: a value exactly for the invertible operands, ZeroDivisionError exactly for the others *)
  Theorem C07_inv_le4_complete_any_basis : forall A, wf_alg A = true -> (a_d A <= 4)%nat -> 0 <= a_start A ->
    forall F, filter_ok A F -> forall x : mv R, wfmv A x -> R1 <> R0 ->
    (forall r, isz r = true -> r = R0) -> (forall b, isz b = false -> Rmul b (dv R1 b) = R1) ->
    ((exists y, wfmv A y /\ gp O A x y == one /\ gp O A y x == one) <-> exists r, inv_model O dv isz F A x = Ok r)
    /\ (~ (exists y, wfmv A y /\ gp O A x y == one /\ gp O A y x == one) <-> inv_model O dv isz F A x = Err EZeroDiv).
  Proof.
    intros A Hwf Hd Hst F HF x.
    exact (inv_le4_complete_any_basis R R0 R1 Radd Rmul Rsub Ropp Rth A Hwf Hd Hst dv isz F HF x).
  Qed.
End AnyBasis.
Print Assumptions C07_invertible_transfer.
Print Assumptions C07_hitzer_num_relabel.
Print Assumptions C07_hitzer_den_relabel.
Print Assumptions C07_hitzer_le4_any_basis.
Print Assumptions C07_inv_le4_any_basis.
Print Assumptions C07_zde_only_singular_le4_any_basis.
Print Assumptions C07_inv_le4_complete_any_basis.

(* the instance 3DPGA (basis e, e1, e2, e3, e0, e01, e02, e03, e12, e31, e23, e032, e013, e021, e123, e0123 —
   not ascending: C07_ex_pga3d), exact fractions, numeric path — no hypothesis left *)
Theorem C07_inv_pga3d_fractions : forall x : mv Qc, wfmv SignBits.ex_pga3d x ->
  let A := SignBits.ex_pga3d in
  let eqv := Sparse.equiv (Q2Qc 0) (Q2Qc 1) Qcplus Qcmult Qcminus Qcopp in
  let has_inverse := exists y, wfmv A y /\ eqv (gp Qcops A x y) (Algebra.one (Q2Qc 1))
                               /\ eqv (gp Qcops A y x) (Algebra.one (Q2Qc 1)) in
  (forall r, inv_model Qcops Qcdiv Qcisz (fun z => z) A x = Ok r ->
     eqv (gp Qcops A x r) (Algebra.one (Q2Qc 1)) /\ eqv (gp Qcops A r x) (Algebra.one (Q2Qc 1)))
  /\ (has_inverse <-> exists r, inv_model Qcops Qcdiv Qcisz (fun z => z) A x = Ok r)
  /\ (~ has_inverse <-> inv_model Qcops Qcdiv Qcisz (fun z => z) A x = Err EZeroDiv).
Proof. exact inv_pga3d_fractions. Qed.
Print Assumptions C07_inv_pga3d_fractions.
Example C07_ex_pga3d :
  wf_alg SignBits.ex_pga3d = true /\ (a_d SignBits.ex_pga3d <= 4)%nat /\ 0 <= a_start SignBits.ex_pga3d
  /\ ascending_ok SignBits.ex_pga3d = false.
Proof. exact (conj (proj1 ex_pga3d_hyps) (conj (proj1 (proj2 ex_pga3d_hyps)) (conj (proj2 (proj2 ex_pga3d_hyps)) ex_pga3d_not_ascending))). Qed.

(* ---- source pins: the functions whose hand-written model carries the theorems above are still, textually (after
   ast normalisation), the functions the model was validated against; an edit breaks Bridge/Pins_C07.v ---- *)
From KV Require Bridge.Pins_C07.
