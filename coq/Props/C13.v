(* Props/C13.v — algebra options change speed, never results.  Statements only; proofs in
   Theory/Natural.v.  The options cse / wrapper / printing select printers and builders (glue, validated
   by the differential correspondence); the option codegen_symbolcls selects the coefficient structure
   the generators run on, and for THAT the independence is a theorem: *)
From KV Require Import Model.All Model.Composite Bridge.Codegen Theory.Natural.
Local Open Scope Z_scope.

(* two symbol classes (any two coefficient structures with operation-preserving maps into the same
   target, e.g. kingdon's rational polynomials and sympy expressions, both evaluated at the same
   values): operands with equal images give LITERALLY equal images of the results *)
Theorem C13_symbol_class_independent : forall (R1 R2 S : Type) (O1 : ops R1) (O2 : ops R2) (OS : ops S)
  (h1 : R1 -> S) (h2 : R2 -> S), ops_hom O1 OS h1 -> ops_hom O2 OS h2 ->
  forall A (x1 y1 : mv R1) (x2 y2 : mv R2),
  map_mv h1 x1 = map_mv h2 x2 -> map_mv h1 y1 = map_mv h2 y2 ->
  map_mv h1 (gp O1 A x1 y1) = map_mv h2 (gp O2 A x2 y2) /\
  map_mv h1 (sw O1 A x1 y1) = map_mv h2 (sw O2 A x2 y2) /\
  map_mv h1 (proj O1 A x1 y1) = map_mv h2 (proj O2 A x2 y2) /\
  map_mv h1 (normsq O1 A x1) = map_mv h2 (normsq O2 A x2).
Proof.
  intros. repeat split; [eapply C13_gp | eapply C13_sw | eapply C13_proj | eapply C13_normsq]; eassumption.
Qed.
Print Assumptions C13_symbol_class_independent.

Theorem C13_products_symbol_class_independent : forall (R1 R2 S : Type) (O1 : ops R1) (O2 : ops R2) (OS : ops S)
  (h1 : R1 -> S) (h2 : R2 -> S), ops_hom O1 OS h1 -> ops_hom O2 OS h2 ->
  forall sfun filt kout (x1 y1 : mv R1) (x2 y2 : mv R2),
  map_mv h1 x1 = map_mv h2 x2 -> map_mv h1 y1 = map_mv h2 y2 ->
  map_mv h1 (codegen_product O1 sfun filt kout x1 y1) = map_mv h2 (codegen_product O2 sfun filt kout x2 y2).
Proof. intros. eapply C13_codegen_product; eassumption. Qed.
Print Assumptions C13_products_symbol_class_independent.

(* the kernels that decide WHICH terms a generated function contains are functions of the keys only *)
Theorem C13_kernels_option_independent : forall sgn kx ky ko,
  Gen.Codegen.filter_op kx ky ko = Model.Codegen.filter_op kx ky ko /\
  Gen.Codegen.filter_cp sgn kx ky ko = Model.Codegen.filter_cp sgn kx ky ko /\
  Gen.Codegen.keyout_default kx ky = Z.lxor kx ky.
Proof. intros. repeat split. Qed.
Print Assumptions C13_kernels_option_independent.
(* ---- graded mode (Model/Graded.v: the completion of grades in do_codegen and the grade-wise zero filter of
   OperatorDict.filter) ---- for every well-formed algebra, every coefficient type, every generated dictionary d: *)
From KV Require Import Model.Graded Theory.WF Theory.Graded.

(* a graded result stores COMPLETE grades: exactly the blades of the grades occurring among the generated keys *)
Theorem C13_graded_complete : forall R rO radd rsub rmul ropp rI A (d : mv R) K,
  wf_alg A = true -> a_graded A = true -> (forall k, In k (keys d) -> 0 <= k < alg_len A) ->
  (In K (keys (finish (mkOps R radd rsub rmul ropp rO rI) A d)) <->
   0 <= K < alg_len A /\ exists k, In k (keys d) /\ popcount k = popcount K).
Proof. exact graded_result_complete_wf. Qed.
Print Assumptions C13_graded_complete.

(* ... and holds on every blade the coefficient default mode computes: the option changes no value *)
Theorem C13_graded_same_coefficients : forall R rO radd rsub rmul ropp rI A (d : mv R) K,
  wf_alg A = true -> (forall k, In k (keys d) -> 0 <= k < alg_len A) -> 0 <= K < alg_len A ->
  coeff (mkOps R radd rsub rmul ropp rO rI) K (finish (mkOps R radd rsub rmul ropp rO rI) A d)
  = coeff (mkOps R radd rsub rmul ropp rO rI) K (canon_sort A d).
Proof. exact graded_result_same_coefficients_wf. Qed.
Print Assumptions C13_graded_same_coefficients.

(* the symbolic zero filter keeps grades whole in graded mode, and drops a grade only if every stored coefficient
   of that grade tests zero *)
Theorem C13_graded_filter : forall (R : Type) A (isz : R -> bool) (x : mv R), a_graded A = true ->
  (forall k v k' v', In (k, v) (filter_graded A isz x) -> In (k', v') x -> popcount k' = popcount k ->
     In (k', v') (filter_graded A isz x)) /\
  (forall kv, In kv (filter_graded A isz x) -> In kv x).
Proof.
  intros R A isz x Hg. split.
  - intros k v k' v'. apply filter_graded_whole. exact Hg.
  - apply filter_graded_sub.
Qed.
Print Assumptions C13_graded_filter.

(* regression of the repaired defect F5 (fixed in /repo): bivector * bivector in Cl(1,0,2) - graded mode now
   stores the whole grade 2, default mode the single generated key *)
Example C13_graded_F5_regression :
  keys (ggp Zops (mk_default [1; 0; 0] 1 true) [(3, 1); (5, 2); (6, 3)] [(3, 1); (5, 2); (6, 3)]) = [3; 5; 6] /\
  keys (gp Zops (mk_default [1; 0; 0] 1 false) [(3, 1); (5, 2); (6, 3)] [(3, 1); (5, 2); (6, 3)]) = [6].
Proof. exact graded_F5_regression. Qed.

