(* Props/C13.v — algebra options change speed, never results.  Statements only; proofs in
   Theory/Natural.v.  The options cse / wrapper / printing select printers and builders (glue, validated
   by the differential correspondence); the option codegen_symbolcls selects the coefficient structure
   the generators run on, and for THAT the independence is a theorem: *)
From KV Require Import Model.All Model.Composite Bridge.Codegen Theory.Natural.
Local Open Scope Z_scope.

(* two symbol classes (any two coefficient structures with operation-preserving maps into the same
   target, e.g. kingdon's rational polynomials and sympy expressions, both evaluated at the same
   values): operands with equal images give LITERALLY equal images of the results *)
Theorem C13_symbol_class_independent : forall (R1 R2 S : Type) (O1 : ops R1) (O2 : ops R2) (OS : ops S)
  (h1 : R1 -> S) (h2 : R2 -> S), ops_hom O1 OS h1 -> ops_hom O2 OS h2 ->
  forall A (x1 y1 : mv R1) (x2 y2 : mv R2),
  map_mv h1 x1 = map_mv h2 x2 -> map_mv h1 y1 = map_mv h2 y2 ->
  map_mv h1 (gp O1 A x1 y1) = map_mv h2 (gp O2 A x2 y2) /\
  map_mv h1 (sw O1 A x1 y1) = map_mv h2 (sw O2 A x2 y2) /\
  map_mv h1 (proj O1 A x1 y1) = map_mv h2 (proj O2 A x2 y2) /\
  map_mv h1 (normsq O1 A x1) = map_mv h2 (normsq O2 A x2).
Proof.
  intros. repeat split; [eapply C13_gp | eapply C13_sw | eapply C13_proj | eapply C13_normsq]; eassumption.
Qed.
Print Assumptions C13_symbol_class_independent.

Theorem C13_products_symbol_class_independent : forall (R1 R2 S : Type) (O1 : ops R1) (O2 : ops R2) (OS : ops S)
  (h1 : R1 -> S) (h2 : R2 -> S), ops_hom O1 OS h1 -> ops_hom O2 OS h2 ->
  forall sfun filt kout (x1 y1 : mv R1) (x2 y2 : mv R2),
  map_mv h1 x1 = map_mv h2 x2 -> map_mv h1 y1 = map_mv h2 y2 ->
  map_mv h1 (codegen_product O1 sfun filt kout x1 y1) = map_mv h2 (codegen_product O2 sfun filt kout x2 y2).
Proof. intros. eapply C13_codegen_product; eassumption. Qed.
Print Assumptions C13_products_symbol_class_independent.

(* the kernels that decide WHICH terms a generated function contains are functions of the keys only *)
Theorem C13_kernels_option_independent : forall sgn kx ky ko,
  Gen.Codegen.filter_op kx ky ko = Model.Codegen.filter_op kx ky ko /\
  Gen.Codegen.filter_cp sgn kx ky ko = Model.Codegen.filter_cp sgn kx ky ko /\
  Gen.Codegen.keyout_default kx ky = Z.lxor kx ky.
Proof. intros. repeat split. Qed.
Print Assumptions C13_kernels_option_independent.
(* graded mode "every result stores complete grades" is REFUTED on the current tree for algebras with a
   null generator (known finding F5): the model's codegen_product omits sign-0 pairs exactly as the code *)
Example C13_graded_incomplete_witness :
  keys (gp Zops (mk_default [1; 0; 0] 1 true) [(3, 1); (5, 2); (6, 3)] [(3, 1); (5, 2); (6, 3)]) = [6].
Proof. vm_compute. reflexivity. Qed.
