(* Props/C13.v — algebra options change speed, never results.  Statements only.
   (The symbol-class independence theorem of Theory/Natural.v is added when that file is in the build.) *)
From KV Require Import Model.All Bridge.Codegen.
Local Open Scope Z_scope.

(* the kernels that decide WHICH terms a generated function contains are functions of the keys only:
   no option (cse, symbol class, wrapper) occurs in them *)
Theorem C13_kernels_option_independent : forall sgn kx ky ko,
  Gen.Codegen.filter_op kx ky ko = Model.Codegen.filter_op kx ky ko /\
  Gen.Codegen.filter_cp sgn kx ky ko = Model.Codegen.filter_cp sgn kx ky ko /\
  Gen.Codegen.keyout_default kx ky = Z.lxor kx ky.
Proof. intros. repeat split. Qed.
Print Assumptions C13_kernels_option_independent.
