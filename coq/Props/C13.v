(* Props/C13.v — algebra options change speed, never results.  Statements only; proofs in
   Theory/Natural.v.  The options cse / wrapper / printing select printers and builders (glue, validated
   by the differential correspondence); the option codegen_symbolcls selects the coefficient structure
   the generators run on, and for THAT the independence is a theorem: *)
From KV Require Import Model.All Model.Composite Bridge.Codegen Theory.Natural.
Local Open Scope Z_scope.

(* two symbol classes (any two coefficient structures with operation-preserving maps into the same
   target, e.g. kingdon's rational polynomials and sympy expressions, both evaluated at the same
   values): operands with equal images give LITERALLY equal images of the results *)
Theorem C13_symbol_class_independent : forall (R1 R2 S : Type) (O1 : ops R1) (O2 : ops R2) (OS : ops S)
  (h1 : R1 -> S) (h2 : R2 -> S), ops_hom O1 OS h1 -> ops_hom O2 OS h2 ->
  forall A (x1 y1 : mv R1) (x2 y2 : mv R2),
  map_mv h1 x1 = map_mv h2 x2 -> map_mv h1 y1 = map_mv h2 y2 ->
  map_mv h1 (gp O1 A x1 y1) = map_mv h2 (gp O2 A x2 y2) /\
  map_mv h1 (sw O1 A x1 y1) = map_mv h2 (sw O2 A x2 y2) /\
  map_mv h1 (proj O1 A x1 y1) = map_mv h2 (proj O2 A x2 y2) /\
  map_mv h1 (normsq O1 A x1) = map_mv h2 (normsq O2 A x2).
Proof.
  intros. repeat split; [eapply C13_gp | eapply C13_sw | eapply C13_proj | eapply C13_normsq]; eassumption.
Qed.
Print Assumptions C13_symbol_class_independent.

Theorem C13_products_symbol_class_independent : forall (R1 R2 S : Type) (O1 : ops R1) (O2 : ops R2) (OS : ops S)
  (h1 : R1 -> S) (h2 : R2 -> S), ops_hom O1 OS h1 -> ops_hom O2 OS h2 ->
  forall sfun filt kout (x1 y1 : mv R1) (x2 y2 : mv R2),
  map_mv h1 x1 = map_mv h2 x2 -> map_mv h1 y1 = map_mv h2 y2 ->
  map_mv h1 (codegen_product O1 sfun filt kout x1 y1) = map_mv h2 (codegen_product O2 sfun filt kout x2 y2).
Proof. intros. eapply C13_codegen_product; eassumption. Qed.
Print Assumptions C13_products_symbol_class_independent.

(* the kernels that decide WHICH terms a generated function contains are functions of the keys only *)
Theorem C13_kernels_option_independent : forall sgn kx ky ko,
  Gen.Codegen.filter_op kx ky ko = Model.Codegen.filter_op kx ky ko /\
  Gen.Codegen.filter_cp sgn kx ky ko = Model.Codegen.filter_cp sgn kx ky ko /\
  Gen.Codegen.keyout_default kx ky = Z.lxor kx ky.
Proof. intros. repeat split. Qed.
Print Assumptions C13_kernels_option_independent.
(* ---- graded mode (Model/Graded.v: the completion of grades in do_codegen and the grade-wise zero filter of
   OperatorDict.filter) ---- for every well-formed algebra, every coefficient type, every generated dictionary d: *)
From KV Require Import Model.Graded Theory.WF Theory.Graded.

(* a graded result stores COMPLETE grades: exactly the blades of the grades occurring among the generated keys *)
Theorem C13_graded_complete : forall R rO radd rsub rmul ropp rI A (d : mv R) K,
  wf_alg A = true -> a_graded A = true -> (forall k, In k (keys d) -> 0 <= k < alg_len A) ->
  (In K (keys (finish (mkOps R radd rsub rmul ropp rO rI) A d)) <->
   0 <= K < alg_len A /\ exists k, In k (keys d) /\ popcount k = popcount K).
Proof. exact graded_result_complete_wf. Qed.
Print Assumptions C13_graded_complete.

(* ... and holds on every blade the coefficient default mode computes: the option changes no value *)
Theorem C13_graded_same_coefficients : forall R rO radd rsub rmul ropp rI A (d : mv R) K,
  wf_alg A = true -> (forall k, In k (keys d) -> 0 <= k < alg_len A) -> 0 <= K < alg_len A ->
  coeff (mkOps R radd rsub rmul ropp rO rI) K (finish (mkOps R radd rsub rmul ropp rO rI) A d)
  = coeff (mkOps R radd rsub rmul ropp rO rI) K (canon_sort A d).
Proof. exact graded_result_same_coefficients_wf. Qed.
Print Assumptions C13_graded_same_coefficients.

(* the symbolic zero filter keeps grades whole in graded mode, and drops a grade only if every stored coefficient
   of that grade tests zero *)
Theorem C13_graded_filter : forall (R : Type) A (isz : R -> bool) (x : mv R), a_graded A = true ->
  (forall k v k' v', In (k, v) (filter_graded A isz x) -> In (k', v') x -> popcount k' = popcount k ->
     In (k', v') (filter_graded A isz x)) /\
  (forall kv, In kv (filter_graded A isz x) -> In kv x).
Proof.
  intros R A isz x Hg. split.
  - intros k v k' v'. apply filter_graded_whole. exact Hg.
  - apply filter_graded_sub.
Qed.
Print Assumptions C13_graded_filter.

(* regression of the repaired defect F5 (fixed in /repo): bivector * bivector in Cl(1,0,2) - graded mode now
   stores the whole grade 2, default mode the single generated key *)
Example C13_graded_F5_regression :
  keys (ggp Zops (mk_default [1; 0; 0] 1 true) [(3, 1); (5, 2); (6, 3)] [(3, 1); (5, 2); (6, 3)]) = [3; 5; 6] /\
  keys (gp Zops (mk_default [1; 0; 0] 1 false) [(3, 1); (5, 2); (6, 3)] [(3, 1); (5, 2); (6, 3)]) = [6].
Proof. exact graded_F5_regression. Qed.


(* ================= the generated TEXT (clause generated-code; Model/Slp.v, Theory/Slp.v) =================
   Whatever options (cse, graded, codegen_symbolcls) made kingdon print a function, the text that runs is parsed
   (tools/genvalidate.py, python ast -> [prog], fail closed) and run by Coq on INDETERMINATES - kingdon's own
   polynomial class, canonical forms, exact == (C17) - against the model operator on indeterminate multivectors
   with the same keys: `validate2 (model2 o A) kx ky kout p = true` is ONE vm_compute per generated function.
   The theorems below turn that one `true` into a statement about every input in every commutative ring; neither
   sympy.cse nor the printer is trusted for a validated function. *)
From Coq Require Import Ring_theory String.
From KV Require Import Model.Poly Model.Slp Theory.Poly Theory.Call Theory.Slp.

(* running a generated program commutes with every operation-preserving map of the coefficients, exceptions
   included (NameError, ValueError of an unpacking, TypeError of the arity) *)
Theorem C13_slp_hom : forall (R S : Type) (OR : ops R) (OS : ops S) (h : R -> S) (injR : Z -> R) (injS : Z -> S),
  ops_hom OR OS h -> (forall z, h (injR z) = injS z) ->
  forall (p : prog) (args : list (list R)),
  slp_eval OS injS p (map (map h) args) = map_res (map h) (slp_eval OR injR p args).
Proof. exact (fun R S => @slp_eval_hom R S). Qed.
Print Assumptions C13_slp_hom.

(* common-subexpression elimination on its own: substituting the assignments away gives a program without
   assignments that computes the same (values AND exceptions), as soon as every assignment refers only to
   unpacked names and earlier assignments (false without that: ex_cse_needs_scoping) *)
Theorem C13_cse_sound : forall (R : Type) (O : ops R) (inj : Z -> R) (p : prog) (args : list (list R)),
  well_scoped p = true -> slp_eval O inj (inline p) args = slp_eval O inj p args.
Proof. exact (fun R => @cse_sound R). Qed.
Print Assumptions C13_cse_sound.

(* MAIN: a generated binary function that validates against the model operator o of the algebra A on the key
   tuples kx, ky computes, for EVERY commutative ring and ALL coefficient lists of the right lengths, exactly the
   values of the model operator, stored under the keys kout (zinj = the image n |-> 1 + .. + 1 of the python
   integer literals).  o ranges over gp op ip lc rc sp cp acp rp add sub sw proj; graded algebras included. *)
Theorem C13_generated_code_all_inputs : forall (R : Type) (R0 R1 : R) (Radd Rmul Rsub : R -> R -> R) (Ropp : R -> R),
  ring_theory R0 R1 Radd Rmul Rsub Ropp (@eq R) ->
  forall (o : gop2) (A : alg) (kx ky kout : list Z) (p : prog),
  validate2 (model2 o A) kx ky kout p = true ->
  forall xs ys : list R, length xs = length kx -> length ys = length ky ->
  slp_eval (mkOps R Radd Rsub Rmul Ropp R0 R1) (zinj R R0 R1 Radd Rmul Ropp) p [xs; ys]
  = Ok (map snd (model2 o A R (mkOps R Radd Rsub Rmul Ropp R0 R1) (combine kx xs) (combine ky ys))) /\
  keys (model2 o A R (mkOps R Radd Rsub Rmul Ropp R0 R1) (combine kx xs) (combine ky ys)) = kout.
Proof.
  exact (fun R R0 R1 Radd Rmul Rsub Ropp Rth o A => slp_validated2 R R0 R1 Radd Rmul Rsub Ropp Rth (model2 o A) (model2_natural o A)).
Qed.
Print Assumptions C13_generated_code_all_inputs.

(* unary: neg reverse involute conjugate hodge unhodge normsq *)
Theorem C13_generated_code_all_inputs_unary : forall (R : Type) (R0 R1 : R) (Radd Rmul Rsub : R -> R -> R) (Ropp : R -> R),
  ring_theory R0 R1 Radd Rmul Rsub Ropp (@eq R) ->
  forall (o : gop1) (A : alg) (kx kout : list Z) (p : prog),
  validate1 (model1 o A) kx kout p = true ->
  forall xs : list R, length xs = length kx ->
  slp_eval (mkOps R Radd Rsub Rmul Ropp R0 R1) (zinj R R0 R1 Radd Rmul Ropp) p [xs]
  = Ok (map snd (model1 o A R (mkOps R Radd Rsub Rmul Ropp R0 R1) (combine kx xs))) /\
  keys (model1 o A R (mkOps R Radd Rsub Rmul Ropp R0 R1) (combine kx xs)) = kout.
Proof.
  exact (fun R R0 R1 Radd Rmul Rsub Ropp Rth o A => slp_validated1 R R0 R1 Radd Rmul Rsub Ropp Rth (model1 o A) (model1_natural o A)).
Qed.
Print Assumptions C13_generated_code_all_inputs_unary.

(* the coefficient level, used for the composites sw proj normsq (whose generators drop identically-zero blades
   on the way, so the stored keys may be fewer than the model's): the same coefficient on EVERY blade, absent = 0 *)
Theorem C13_generated_code_all_inputs_coefficients : forall (R : Type) (R0 R1 : R) (Radd Rmul Rsub : R -> R -> R) (Ropp : R -> R),
  ring_theory R0 R1 Radd Rmul Rsub Ropp (@eq R) ->
  forall (A : alg) (kx ky kout : list Z) (p : prog),
  (forall o, validate2c (model2 o A) kx ky kout p = true ->
     forall xs ys : list R, length xs = length kx -> length ys = length ky ->
     exists vs, slp_eval (mkOps R Radd Rsub Rmul Ropp R0 R1) (zinj R R0 R1 Radd Rmul Ropp) p [xs; ys] = Ok vs /\
       length vs = length kout /\
       forall K, coeff (mkOps R Radd Rsub Rmul Ropp R0 R1) K (combine kout vs)
                 = coeff (mkOps R Radd Rsub Rmul Ropp R0 R1) K
                     (model2 o A R (mkOps R Radd Rsub Rmul Ropp R0 R1) (combine kx xs) (combine ky ys))) /\
  (forall o, validate1c (model1 o A) kx kout p = true ->
     forall xs : list R, length xs = length kx ->
     exists vs, slp_eval (mkOps R Radd Rsub Rmul Ropp R0 R1) (zinj R R0 R1 Radd Rmul Ropp) p [xs] = Ok vs /\
       length vs = length kout /\
       forall K, coeff (mkOps R Radd Rsub Rmul Ropp R0 R1) K (combine kout vs)
                 = coeff (mkOps R Radd Rsub Rmul Ropp R0 R1) K
                     (model1 o A R (mkOps R Radd Rsub Rmul Ropp R0 R1) (combine kx xs))).
Proof.
  exact (fun R R0 R1 Radd Rmul Rsub Ropp Rth A kx ky kout p =>
    conj (fun o => slp_validated2c R R0 R1 Radd Rmul Rsub Ropp Rth (model2 o A) (model2_natural o A) kx ky kout p)
         (fun o => slp_validated1c R R0 R1 Radd Rmul Rsub Ropp Rth (model1 o A) (model1_natural o A) kx kout p)).
Qed.
Print Assumptions C13_generated_code_all_inputs_coefficients.

(* ... for ANY operator family that commutes with operation-preserving maps, not only the tagged ones *)
Theorem C13_generated_code_all_inputs_natural : forall (R : Type) (R0 R1 : R) (Radd Rmul Rsub : R -> R -> R) (Ropp : R -> R),
  ring_theory R0 R1 Radd Rmul Rsub Ropp (@eq R) ->
  forall F : (forall T, ops T -> mv T -> mv T -> mv T), natural_bin F ->
  forall (kx ky kout : list Z) (p : prog), validate2 F kx ky kout p = true ->
  forall xs ys : list R, length xs = length kx -> length ys = length ky ->
  slp_eval (mkOps R Radd Rsub Rmul Ropp R0 R1) (zinj R R0 R1 Radd Rmul Ropp) p [xs; ys]
  = Ok (map snd (F R (mkOps R Radd Rsub Rmul Ropp R0 R1) (combine kx xs) (combine ky ys))) /\
  keys (F R (mkOps R Radd Rsub Rmul Ropp R0 R1) (combine kx xs) (combine ky ys)) = kout.
Proof. exact slp_validated2. Qed.
Print Assumptions C13_generated_code_all_inputs_natural.

(* the error branch: operands of any other length make the unpacking raise ValueError (nothing is computed) *)
Theorem C13_generated_code_wrong_length : forall (R : Type) (R0 R1 : R) (Radd Rmul Rsub : R -> R -> R) (Ropp : R -> R),
  forall (o : gop2) (A : alg) (kx ky kout : list Z) (p : prog),
  validate2 (model2 o A) kx ky kout p = true ->
  forall xs ys : list R, length xs <> length kx \/ length ys <> length ky ->
  slp_eval (mkOps R Radd Rsub Rmul Ropp R0 R1) (zinj R R0 R1 Radd Rmul Ropp) p [xs; ys] = Err EValue.
Proof.
  exact (fun R R0 R1 Radd Rmul Rsub Ropp o A kx ky kout p =>
           slp_validated2_wrong_length R R0 R1 Radd Rmul Rsub Ropp (model2 o A) kx ky kout p agree_exact).
Qed.
Print Assumptions C13_generated_code_wrong_length.

(* the tagged model operators are the operators every other property speaks about (Model/Codegen.v, Model/Composite.v;
   run2 / run1 of C12) outside graded mode, and the graded operators of C13_graded_complete in graded mode *)
Theorem C13_generated_code_model_operators : forall A R (O : ops R) (x y : mv R),
  (a_graded A = false -> (forall o, model2 o A R O x y = run2 (tag2 o) A R O x y) /\
                         (forall o, model1 o A R O x = run1 (tag1 o) A R O x)) /\
  model2 G2gp A R O x y = ggp O A x y /\ model2 G2op A R O x y = gop O A x y /\
  model2 G2ip A R O x y = gip O A x y /\ model2 G2add A R O x y = gadd O A x y.
Proof.
  exact (fun A R O x y => conj (fun Hg => conj (fun o => model2_run2 o A R O x y Hg) (fun o => model1_run1 o A R O x Hg))
                               (model2_graded A R O x y)).
Qed.
Print Assumptions C13_generated_code_model_operators.

(* no false alarm from the comparison itself: a failed validation is an exception on indeterminates, another key
   list / arity, or a blade whose two polynomials differ in a formal coefficient *)
Theorem C13_validation_complete : forall (o : gop2) (A : alg) (kx ky kout : list Z) (p : prog),
  let X := indets 0 (length kx) in let Y := indets (length kx) (length ky) in
  let M := model2 o A poly PolyOps (combine kx X) (combine ky Y) in
  validate2 (model2 o A) kx ky kout p = false ->
  (exists e, slp_eval PolyOps P_of_Z p [X; Y] = Err e) \/ kout <> keys M \/
  exists out, slp_eval PolyOps P_of_Z p [X; Y] = Ok out /\
    (length out <> length M \/
     exists i q m mu, nth_error out i = Some q /\ nth_error (map snd M) i = Some m /\ coef mu q <> coef mu m).
Proof. exact (fun o A => validate2_complete (model2 o A) (model2_natural o A)). Qed.
Print Assumptions C13_validation_complete.

(* non-vacuity: the text Algebra(2) generates today for gp of two vectors validates (with and without cse), so does
   the sandwich with three cse assignments; a flipped sign, a dropped assignment, a reused symbol, other keys,
   another operator, another signature do not *)
Example C13_generated_code_validates :
  validate2 (model2 G2gp ex_A2) [1; 2] [1; 2] [0; 3] ex_gp = true /\
  validate2 (model2 G2gp ex_A2) [1; 2] [1; 2] [0; 3] ex_gp_cse = true /\
  validate2c (model2 G2sw ex_A2) [0; 3] [1; 2] [1; 2] ex_sw = true /\
  validate2 (model2 G2sw ex_A2) [0; 3] [1; 2] [1; 2] ex_sw = true.
Proof. exact ex_validates. Qed.
Example C13_generated_code_rejected :
  validate2 (model2 G2gp ex_A2) [1; 2] [1; 2] [0; 3] ex_gp_sign = false /\
  validate2 (model2 G2gp ex_A2) [1; 2] [1; 2] [0; 3] ex_gp_dropped = false /\
  validate2 (model2 G2gp ex_A2) [1; 2] [1; 2] [0; 3] ex_gp_reused = false /\
  validate2 (model2 G2gp ex_A2) [1; 2] [1; 2] [3; 0] ex_gp = false /\
  validate2 (model2 G2op ex_A2) [1; 2] [1; 2] [0; 3] ex_gp = false /\
  validate2 (model2 G2gp (mk_default [1; -1] 1 false)) [1; 2] [1; 2] [0; 3] ex_gp = false /\
  validate2c (model2 G2gp ex_A2) [1; 2] [1; 2] [0; 3] ex_gp_sign = false.
Proof. exact ex_rejected. Qed.

(* ---- translation validation of the generated code that DIVIDES: alg.inv, alg.div (Model/SlpDiv.v, Theory/SlpDiv.v;
   tools/genvalidate.py program_div_of parses the generated text).  The coefficient structure: EVERY commutative ring with an
   arbitrary function dv that divides by non-zero elements and an exact zero test isz.  slpf_eval = python's own evaluation of
   the text (a / b raises ZeroDivisionError when b is zero); inv_model / div_model = codegen_inv / codegen_div of
   Model/Inverse.v on numbers (C07, C08).  validate_inv / validate_div = true is ONE computation on indeterminates (fractions of
   kingdon polynomials, compared with the closed-form numerator / denominator by cross-multiplication); it implies d <= 5. ---- *)
From KV Require Import Model.Inverse Model.SlpDiv Theory.SlpDiv.

Theorem C13_generated_inverse_all_inputs : forall (R : Type) (R0 R1 : R) (Radd Rmul Rsub : R -> R -> R) (Ropp : R -> R),
  ring_theory R0 R1 Radd Rmul Rsub Ropp (@eq R) ->
  forall (dv : R -> R -> R) (isz : R -> bool),
  (forall a b, b <> R0 -> Rmul (dv a b) b = a) -> (forall r, isz r = true <-> r = R0) ->
  forall A : alg, wf_alg A = true ->
  forall (ky kout : list Z) (p : dprog), validate_inv A ky kout p = true ->
  let O := mkOps R Radd Rsub Rmul Ropp R0 R1 in let zi := zinj R R0 R1 Radd Rmul Ropp in
  forall xs, length xs = length ky ->
  (slpf_eval O zi dv isz p [xs] = Err EZeroDiv \/ exists vs, slpf_eval O zi dv isz p [xs] = Ok vs) /\
  (forall vs r, slpf_eval O zi dv isz p [xs] = Ok vs -> inv_model O dv isz idF A (combine ky xs) = Ok r ->
     length vs = length kout /\ forall K, coeff O K (combine kout vs) = coeff O K r) /\
  NoDup kout /\ exists num den, inv_symbolic A ky 0 = Ok (num, den) /\ kout = keys (filter_nz pisz num).
Proof. exact slp_validated_inv. Qed.
Print Assumptions C13_generated_inverse_all_inputs.

Theorem C13_generated_division_all_inputs : forall (R : Type) (R0 R1 : R) (Radd Rmul Rsub : R -> R -> R) (Ropp : R -> R),
  ring_theory R0 R1 Radd Rmul Rsub Ropp (@eq R) ->
  forall (dv : R -> R -> R) (isz : R -> bool),
  (forall a b, b <> R0 -> Rmul (dv a b) b = a) -> (forall r, isz r = true <-> r = R0) ->
  forall A : alg, wf_alg A = true ->
  forall (kx ky kout : list Z) (p : dprog), validate_div A kx ky kout p = true ->
  let O := mkOps R Radd Rsub Rmul Ropp R0 R1 in let zi := zinj R R0 R1 Radd Rmul Ropp in
  forall xs ys, length xs = length kx -> length ys = length ky ->
  (slpf_eval O zi dv isz p [xs; ys] = Err EZeroDiv \/ exists vs, slpf_eval O zi dv isz p [xs; ys] = Ok vs) /\
  (forall vs r, slpf_eval O zi dv isz p [xs; ys] = Ok vs -> div_model O dv isz idF A (combine kx xs) (combine ky ys) = Ok r ->
     length vs = length kout /\ forall K, coeff O K (combine kout vs) = coeff O K r) /\
  NoDup kout /\ exists num den, div_symbolic A kx ky = Ok (num, den) /\ kout = keys (filter_nz pisz num).
Proof. exact slp_validated_div. Qed.
Print Assumptions C13_generated_division_all_inputs.

(* "returns" is implied by: no denominator of the symbolic fractions vanishes at the operand; other lengths: ValueError *)
Theorem C13_generated_inverse_returns : forall (R : Type) (R0 R1 : R) (Radd Rmul Rsub : R -> R -> R) (Ropp : R -> R),
  ring_theory R0 R1 Radd Rmul Rsub Ropp (@eq R) ->
  forall (dv : R -> R -> R) (isz : R -> bool),
  (forall a b, b <> R0 -> Rmul (dv a b) b = a) -> (forall r, isz r = true <-> r = R0) ->
  forall A : alg, wf_alg A = true ->
  forall (ky kout : list Z) (p : dprog), validate_inv A ky kout p = true ->
  let O := mkOps R Radd Rsub Rmul Ropp R0 R1 in let zi := zinj R R0 R1 Radd Rmul Ropp in
  forall xs,
  (length xs = length ky ->
   Forall (fun q => peval R R0 R1 Radd Rmul Ropp (fun i => nth i (xs ++ []) R0) q <> R0)
          (slpq_dens PolyOps poly_eqb P_of_Z p [indets 0 (length ky)]) ->
   exists vs, slpf_eval O zi dv isz p [xs] = Ok vs) /\
  (length xs <> length ky -> slpf_eval O zi dv isz p [xs] = Err EValue).
Proof.
  exact (fun R R0 R1 Radd Rmul Rsub Ropp Rth dv isz Hdv Hisz A HA ky kout p Hv xs =>
           conj (slp_validated_inv_returns R R0 R1 Radd Rmul Rsub Ropp Rth dv isz Hdv Hisz A HA ky kout p Hv xs)
                (slp_validated_inv_wrong_length R R0 R1 Radd Rmul Rsub Ropp dv isz A ky kout p Hv xs)).
Qed.
Print Assumptions C13_generated_inverse_returns.

Theorem C13_generated_division_returns : forall (R : Type) (R0 R1 : R) (Radd Rmul Rsub : R -> R -> R) (Ropp : R -> R),
  ring_theory R0 R1 Radd Rmul Rsub Ropp (@eq R) ->
  forall (dv : R -> R -> R) (isz : R -> bool),
  (forall a b, b <> R0 -> Rmul (dv a b) b = a) -> (forall r, isz r = true <-> r = R0) ->
  forall A : alg, wf_alg A = true ->
  forall (kx ky kout : list Z) (p : dprog), validate_div A kx ky kout p = true ->
  let O := mkOps R Radd Rsub Rmul Ropp R0 R1 in let zi := zinj R R0 R1 Radd Rmul Ropp in
  forall xs ys,
  (length xs = length kx -> length ys = length ky ->
   Forall (fun q => peval R R0 R1 Radd Rmul Ropp (fun i => nth i (xs ++ ys) R0) q <> R0)
          (slpq_dens PolyOps poly_eqb P_of_Z p [indets 0 (length kx); indets (length kx) (length ky)]) ->
   exists vs, slpf_eval O zi dv isz p [xs; ys] = Ok vs) /\
  (length xs <> length kx \/ length ys <> length ky -> slpf_eval O zi dv isz p [xs; ys] = Err EValue).
Proof.
  exact (fun R R0 R1 Radd Rmul Rsub Ropp Rth dv isz Hdv Hisz A HA kx ky kout p Hv xs ys =>
           conj (slp_validated_div_returns R R0 R1 Radd Rmul Rsub Ropp Rth dv isz Hdv Hisz A HA kx ky kout p Hv xs ys)
                (slp_validated_div_wrong_length R R0 R1 Radd Rmul Rsub Ropp dv isz A kx ky kout p Hv xs ys)).
Qed.
Print Assumptions C13_generated_division_returns.

(* fraction evaluation commutes with every operation-preserving map of the coefficients that preserves the test on
   denominators - exceptions and the denominators met on the way included *)
Theorem C13_slpq_hom : forall (R S : Type) (OR : ops R) (OS : ops S) (h : R -> S) (injR : Z -> R) (injS : Z -> S)
  (deqR : R -> R -> bool) (deqS : S -> S -> bool),
  ops_hom OR OS h -> (forall z, h (injR z) = injS z) -> (forall a b, deqS (h a) (h b) = deqR a b) ->
  forall p args,
  slpq_eval OS deqS injS p (map (map h) args) = map_res (map (fmap h)) (slpq_eval OR deqR injR p args) /\
  slpq_dens OS deqS injS p (map (map h) args) = map h (slpq_dens OR deqR injR p args).
Proof.
  exact (fun R S OR OS h injR injS deqR deqS Hh Hi Hd p args =>
           conj (slpq_eval_hom OR OS h injR injS deqR deqS Hh Hi Hd p args) (slpq_dens_hom OR OS h injR injS deqR deqS Hh Hi Hd p args)).
Qed.
Print Assumptions C13_slpq_hom.

(* the fractions describe python's evaluation: over R itself, if the fraction evaluation returns and no denominator met on
   the way is zero, python's evaluation returns dv num den componentwise (deq: any test that implies equality) *)
Theorem C13_slpq_sound : forall (R : Type) (rO rI : R) (radd rmul rsub : R -> R -> R) (ropp : R -> R),
  ring_theory rO rI radd rmul rsub ropp (@eq R) ->
  forall (dv : R -> R -> R) (isz : R -> bool),
  (forall a b, b <> rO -> rmul (dv a b) b = a) -> (forall r, isz r = true <-> r = rO) ->
  forall deq : R -> R -> bool, (forall a b, deq a b = true -> a = b) ->
  forall (inj : Z -> R) p args frs,
  let O := mkOps R radd rsub rmul ropp rO rI in
  slpq_eval O deq inj p args = Ok frs ->
  Forall (fun d => d <> rO) (slpq_dens O deq inj p args) ->
  exists vs, slpf_eval O inj dv isz p args = Ok vs /\ Forall2 (fun v f => v = dv (fst f) (snd f)) vs frs.
Proof. exact slpq_sound_id. Qed.
Print Assumptions C13_slpq_sound.

(* non-vacuity: the real generated text of the inverse of a vector in Algebra(3) (with cse), of a rotor in Algebra(2), of
   vector / rotor in Algebra(3) validate - and so does the hand-simplified a_i / (a1^2 + a2^2 + a3^2); a flipped sign, a
   denominator that lost a term, other keys, another storage order, another signature, d = 6 do not *)
Example C13_generated_division_validates :
  validate_inv ex_A3 [1; 2; 4] [1; 2; 4] ex_inv3 = true /\
  validate_inv ex_A3 [1; 2; 4] [1; 2; 4] ex_inv3_short = true /\
  validate_inv ex_A2 [0; 3] [0; 3] ex_rotor = true /\
  validate_div ex_A3 [1; 2; 4] [0; 3] [1; 2; 4; 7] ex_div3 = true.
Proof. exact exd_validates. Qed.
Example C13_generated_division_rejected :
  validate_inv ex_A3 [1; 2; 4] [1; 2; 4] ex_inv3_sign = false /\
  validate_inv ex_A3 [1; 2; 4] [1; 2; 4] ex_inv3_den_wrong = false /\
  validate_inv ex_A2 [0; 3] [0; 3] ex_rotor_sign = false /\
  validate_inv ex_A2 [0; 3] [0; 3] ex_rotor_den = false /\
  validate_inv ex_A3 [1; 2; 4] [2; 1; 4] ex_inv3 = false /\
  validate_inv ex_A3 [2; 1; 4] [1; 2; 4] ex_inv3 = false /\
  validate_inv (mk_default [1; -1; 1] 1 false) [1; 2; 4] [1; 2; 4] ex_inv3 = false /\
  validate_inv (mk_default [1; 1; 1; 1; 1; 1] 1 false) [1; 2; 4] [1; 2; 4] ex_inv3 = false /\
  validate_div ex_A3 [1; 2; 4] [0; 3] [1; 2; 4; 7] (mkDProg (d_unpack ex_div3) (d_lets ex_div3) (rev (d_ret ex_div3))) = false.
Proof. exact exd_rejected. Qed.
