(* Props/C20.v — the graph widget payload reflects the multivectors it is given.
   Model/Graph.v: subject trees (numbers, strings, multivectors - sparse, full in any layout,
   array-valued -, lists, tuples, zero-argument callables), encode/walker of graph.py, the front end's
   decode/toElement of graph.js, key2idx, inplacereplace.  coeffs_of canon m i = the coefficient of
   every blade, in canonical order, of m at trailing index i (first match, absent = 0);
   expected = the specification (numbers and strings pass through, a multivector becomes its
   coefficient list, arrays expand element by element, lists/tuples map, a callable is replaced by the
   expectation of its value).  Statements only; proofs in Theory/Graph.v. *)
From KV Require Import Model.Util Model.Graph Theory.Graph.
Local Open Scope Z_scope.

(* decoding the payload the way the front end does reproduces, for EVERY well-formed subject tree,
   exactly the coefficient of every multivector on every blade *)
Theorem C20_decode_encode : forall canon s, NoDup canon -> wf_subj canon s ->
  map (decode canon) (encode_one canon s) = expected canon s.
Proof. exact decode_encode. Qed.
Print Assumptions C20_decode_encode.

(* ... for the whole subject list the widget sends, including the single-callable form *)
Theorem C20_decode_subjects : forall canon raw, NoDup canon -> Forall (wf_subj canon) raw ->
  map (decode canon) (graph_subjects canon raw) = expected_root canon (pre_subjects raw).
Proof. exact decode_graph_subjects. Qed.
Print Assumptions C20_decode_subjects.

(* one multivector: keys are sent unless it is stored in the canonical full layout; either way the
   front end places every coefficient on its own blade (permuted, binary-order, sparse layouts) *)
Theorem C20_multivector : forall canon m, NoDup canon -> wf_mv canon m -> g_arr m = false ->
  map (decode canon) (encode_one canon (SMv m)) = [EMv (coeffs_of canon m 0)].
Proof. exact decode_encode_mv. Qed.
Print Assumptions C20_multivector.

(* array-valued multivectors are expanded element by element *)
Theorem C20_array_expanded : forall canon m, NoDup canon -> wf_mv canon m -> g_arr m = true ->
  map (decode canon) (encode_one canon (SMv m))
  = map (fun i => EMv (coeffs_of canon m i)) (seq 0 (mv_width m)).
Proof. exact decode_encode_array. Qed.
Print Assumptions C20_array_expanded.

(* the key-to-index map is the position in the canonical key order *)
Theorem C20_key2idx : forall canon k i, NoDup canon ->
  (key2idx canon k = Some i <-> nth_error canon i = Some k).
Proof. exact key2idx_spec. Qed.
Print Assumptions C20_key2idx.

(* a drag overwrites exactly the stored coefficients with the reported ones: same keys, every stored
   blade takes the reported value, nothing else changes; re-sending shows the reported values *)
Theorem C20_drag : forall canon m new, NoDup canon -> wf_mv canon m -> g_arr m = false ->
  length new = length canon ->
  g_keys (inplace_one canon m new) = g_keys m /\
  coeffs_of canon (inplace_one canon m new) 0
  = map (fun kv => if zin (fst kv) (g_keys m) then snd kv else 0) (combine canon new).
Proof. exact inplace_spec. Qed.
Print Assumptions C20_drag.
Theorem C20_drag_resent : forall canon m new, NoDup canon -> wf_mv canon m -> g_arr m = false ->
  length new = length canon ->
  map (decode canon) (encode_one canon (SMv (inplace_one canon m new)))
  = [EMv (map (fun kv => if zin (fst kv) (g_keys m) then snd kv else 0) (combine canon new))].
Proof. exact decode_encode_inplace. Qed.
Print Assumptions C20_drag_resent.
(* nothing moved => nothing changes *)
Theorem C20_drag_identity : forall canon m, NoDup canon -> wf_mv canon m -> g_arr m = false ->
  inplace_one canon m (coeffs_of canon m 0) = m.
Proof. exact inplace_fixpoint. Qed.
Print Assumptions C20_drag_identity.

(* ---- source pins: the functions whose hand-written model carries the theorems above are still, textually (after
   ast normalisation), the functions the model was validated against; an edit breaks Bridge/Pins_C20.v ---- *)
From KV Require Bridge.Pins_C20.
