(* Props/C17.v — the built-in polynomial arithmetic is exact rational-function arithmetic.
   Model/Poly.v follows kingdon/polynomial.py statement by statement (integer coefficients; variables
   abstracted to their rank).  peval = evaluation in ANY commutative ring under ANY valuation;
   coef mu p = formal coefficient of the monomial mu; fzero p = all formal coefficients vanish.
   Statements only; proofs in Theory/Poly.v. *)
From Coq Require Import Ring_theory ZArith.
From KV Require Import Model.Util Model.Poly Theory.Poly.
Local Open Scope Z_scope.

(* compare is a strict total order on monomials (all monomials: sortedness is not needed) *)
Theorem C17_compare_total_order : forall a b c : mono,
  pcompare (Some a) (Some a) = 0 /\
  (pcompare (Some a) (Some b) = 0 <-> snd a = snd b) /\
  Z.sgn (pcompare (Some b) (Some a)) = - Z.sgn (pcompare (Some a) (Some b)) /\
  (pcompare (Some a) (Some b) < 0 -> pcompare (Some b) (Some c) < 0 -> pcompare (Some a) (Some c) < 0) /\
  (pcompare (Some a) (Some b) < 0 \/ snd a = snd b \/ pcompare (Some b) (Some a) < 0).
Proof.
  intros a b c. repeat split.
  - apply pcompare_refl. - apply pcompare_eq. - apply pcompare_eq. - apply pcompare_antisym.
  - apply pcompare_trans. - apply pcompare_total.
Qed.
Print Assumptions C17_compare_total_order.

Section Eval.
  Variable R : Type.
  Variables (R0 R1 : R) (Radd Rmul Rsub : R -> R -> R) (Ropp : R -> R).
  Hypothesis Rth : ring_theory R0 R1 Radd Rmul Rsub Ropp (@eq R).
  Variable rho : nat -> R.
  Local Notation ev := (peval R R0 R1 Radd Rmul Ropp rho).
  Local Notation num r := (peval R R0 R1 Radd Rmul Ropp rho (rnum r)).
  Local Notation den r := (peval R R0 R1 Radd Rmul Ropp rho (rden r)).
  Local Notation zi := (zinj R R0 R1 Radd Rmul Ropp).

  (* sums, differences, products, negations and integer powers of Polynomial objects denote the sum,
     ... of the functions their operands denote - unconditionally *)
  Theorem C17_poly_homomorphism : forall p q c,
    ev (padd p q) = Radd (ev p) (ev q) /\ ev (psub p q) = Rsub (ev p) (ev q) /\
    ev (pmul p q) = Rmul (ev p) (ev q) /\ ev (pneg p) = Ropp (ev p) /\
    ev (padd_Z p c) = Radd (ev p) (zi c) /\ ev (pmul_Z p c) = Rmul (ev p) (zi c).
  Proof.
    intros. repeat split.
    - apply (peval_padd _ _ _ _ _ _ _ Rth). - apply (peval_psub _ _ _ _ _ _ _ Rth).
    - apply (peval_pmul _ _ _ _ _ _ _ Rth). - apply (peval_pneg _ _ _ _ _ _ _ Rth).
    - apply (peval_padd_Z _ _ _ _ _ _ _ Rth). - apply (peval_pmul_Z _ _ _ _ _ _ _ Rth).
  Qed.
  Theorem C17_poly_pow : forall x steps y, ppow_chain x steps = Some y ->
    ev y = rpow R R1 Rmul (ev x) (last_exp 1 steps).
  Proof. intros. apply (peval_ppow_chain _ _ _ _ _ _ _ Rth). assumption. Qed.

  (* RationalPolynomial: cross-multiplied correctness of + - * / neg inv and powers *)
  Theorem C17_rational_add : forall a b,
    Rmul (num (radd a b)) (Rmul (den a) (den b))
    = Rmul (Radd (Rmul (num a) (den b)) (Rmul (num b) (den a))) (den (radd a b)).
  Proof. intros. apply (radd_correct _ _ _ _ _ _ _ Rth). Qed.
  Theorem C17_rational_sub : forall a b,
    Rmul (num (rsub a b)) (Rmul (den a) (den b))
    = Rmul (Rsub (Rmul (num a) (den b)) (Rmul (num b) (den a))) (den (rsub a b)).
  Proof. intros. apply (rsub_correct _ _ _ _ _ _ _ Rth). Qed.
  Theorem C17_rational_mul : forall a b,
    Rmul (num (rmul a b)) (Rmul (den a) (den b)) = Rmul (Rmul (num a) (num b)) (den (rmul a b)).
  Proof. intros. apply (rmul_correct _ _ _ _ _ _ _ Rth). Qed.
  Theorem C17_rational_div : forall a b, rinv b <> None ->
    Rmul (num (rdiv a b)) (Rmul (den a) (num b)) = Rmul (Rmul (num a) (den b)) (den (rdiv a b)).
  Proof. intros. apply (rdiv_correct _ _ _ _ _ _ _ Rth). assumption. Qed.
  Theorem C17_rational_neg_inv : forall a r,
    Rmul (num (rneg a)) (den a) = Rmul (Ropp (num a)) (den (rneg a)) /\
    (rinv a = Some r -> Rmul (num r) (num a) = Rmul (den a) (den r)).
  Proof. intros. split; [apply (rneg_correct _ _ _ _ _ _ _ Rth) | intros H; first [apply (rinv_correct _ _ _ _ _ _ _ Rth); exact H | eapply rinv_correct; eauto]]. Qed.
  Theorem C17_rational_pow : forall x steps y, rpow_chain x steps = Some y ->
    Rmul (num y) (rpow R R1 Rmul (den x) (last_exp 1 steps))
    = Rmul (rpow R R1 Rmul (num x) (last_exp 1 steps)) (den y).
  Proof. intros. apply (rpow_chain_correct _ _ _ _ _ _ _ Rth). assumption. Qed.

  (* == never equates objects denoting different functions; what the zero tests call zero is zero *)
  Theorem C17_eq_sound : forall p q a b,
    (peq p q = true -> ev p = ev q) /\ (peq_Z p 0 = true -> ev p = R0) /\
    (req a b = true -> Rmul (num a) (den b) = Rmul (num b) (den a)) /\ (req_Z a 0 = true -> num a = R0).
  Proof.
    intros. repeat split.
    - apply (peq_sound _ _ _ _ _ _ _ Rth). - apply (peq_Z0_sound _ _ _ _ _ _ _ Rth).
    - apply (req_sound _ _ _ _ _ _ _ Rth). - apply (req_Z0_sound _ _ _ _ _ _ _ Rth).
  Qed.
  Theorem C17_formal_zero_is_zero : forall p, fzero p -> ev p = R0.
  Proof. intros. apply (fzero_peval _ _ _ _ _ _ _ Rth). assumption. Qed.
End Eval.
Print Assumptions C17_poly_homomorphism.
Print Assumptions C17_poly_pow.
Print Assumptions C17_rational_add.
Print Assumptions C17_rational_sub.
Print Assumptions C17_rational_mul.
Print Assumptions C17_rational_div.
Print Assumptions C17_rational_neg_inv.
Print Assumptions C17_rational_pow.
Print Assumptions C17_eq_sound.
Print Assumptions C17_formal_zero_is_zero.

(* the global ordering invariant (variables sorted in each monomial, monomials strictly increasing,
   no zero coefficient - or the special zero [[0]]) holds for the constructors and is preserved by
   every operation *)
Theorem C17_invariant_preserved : forall p q c v,
  Inv (P_of_Z c) /\ Inv (P_of_var v) /\
  (Inv p -> Inv q -> Inv (padd p q) /\ Inv (psub p q) /\ Inv (pmul p q)) /\
  (Inv p -> Inv (pneg p) /\ Inv (padd_Z p c) /\ Inv (pmul_Z p c)).
Proof.
  intros. split; [apply Inv_P_of_Z|]. split; [apply Inv_iff; left; apply InvS_P_of_var|]. split.
  - intros Hp Hq. split; [|split]; [apply Inv_padd | apply Inv_psub | apply Inv_iff; left; apply InvS_pmul]; assumption.
  - intros Hp. split; [|split]; [apply Inv_pneg | apply Inv_padd_Z | apply Inv_iff; left; apply InvS_pmul_Z]; assumption.
Qed.
Print Assumptions C17_invariant_preserved.

(* under the invariant, truthiness and comparison with 0 are EXACT zero tests, and == is exact *)
Theorem C17_zero_tests_exact : forall p q, Inv p -> Inv q ->
  (pbool p = false <-> fzero p) /\ (peq_Z p 0 = true <-> fzero p) /\
  (peq p q = true <-> forall mu, coef mu p = coef mu q).
Proof. intros p q Hp Hq. split; [|split]; [apply pbool_exact | apply peq_Z0_exact | apply peq_exact]; assumption. Qed.
Print Assumptions C17_zero_tests_exact.

(* rational functions: well-formedness (invariant on both parts, denominator not formally zero) is
   preserved, and the zero tests are exact *)
Theorem C17_rational_wf_preserved : forall a b c,
  rwf (R_of_Z c) /\
  (rwf a -> rwf b -> rwf (radd a b) /\ rwf (rsub a b) /\ rwf (rmul a b) /\ rwf (rdiv a b)) /\
  (rwf a -> rwf (rneg a) /\ rwf (radd_Z a c) /\ rwf (rmul_Z a c) /\ (forall r, rinv a = Some r -> rwf r)).
Proof.
  intros. split; [apply rwf_R_of_Z|]. split.
  - intros Ha Hb. split; [|split; [|split]]; [apply rwf_radd | apply rwf_rsub | apply rwf_rmul | apply rwf_rdiv]; assumption.
  - intros Ha. split; [|split; [|split]]; [apply rwf_rneg | apply rwf_radd_Z | apply rwf_rmul_Z | intros r; apply rwf_rinv]; assumption.
Qed.
Print Assumptions C17_rational_wf_preserved.
Theorem C17_rational_zero_tests_exact : forall r, rwf r ->
  (rbool r = false <-> fzero (rnum r)) /\ (req_Z r 0 = true <-> fzero (rnum r)).
Proof. intros r H. split; [apply rbool_exact | apply req_Z0_exact]; assumption. Qed.
Print Assumptions C17_rational_zero_tests_exact.

(* a product of non-zero polynomials is non-zero: what keeps denominators non-zero *)
Theorem C17_no_zero_divisors : forall p q, Inv p -> Inv q -> fzero (pmul p q) -> fzero p \/ fzero q.
Proof. exact pmul_integral. Qed.
Print Assumptions C17_no_zero_divisors.

(* ---- source pins: the functions whose hand-written model carries the theorems above are still, textually (after
   ast normalisation), the functions the model was validated against; an edit breaks Bridge/Pins_C17.v ---- *)
From KV Require Bridge.Pins_C17.

(* ---- kernels regenerated from today's source: the index-based loops of polynomial.py, translated statement by
   statement on every run (tools/translate_poly.py -> Gen/Poly.v; `while` loops with fuel, subscripts as nth_error,
   None = raises / out of fuel), compute for ALL arguments what the structural model above computes (Bridge/Poly.v).
   enc (c, [r1; ..; rn]) = [PInt c; PStr r1; ..; PStr rn] is the python monomial [c, 'v1', .., 'vn'] with the names
   abstracted to their ranks; encp = map enc.  An edit of a comparison, a branch, an index increment of these loops
   flows into Gen/Poly.v and breaks these theorems. ---- *)
From KV Require Import Gen.Poly Bridge.Poly.
Theorem C17_compare_kernel_is_todays_source : forall a b : option mono,
  gen_compare (option_map enc a) (option_map enc b) = Some (pcompare a b).
Proof. exact br_compare. Qed.
Print Assumptions C17_compare_kernel_is_todays_source.
(* the `while not (ai == al and bi == bl)` loop of Polynomial.__add__ from ai = bi = 0, res = []: fuel al + bl + 1 suffices *)
Theorem C17_add_kernel_is_todays_source : forall (p q : poly) (fuel : nat), (length p + length q < fuel)%nat ->
  gen_add_while fuel (encp p) (encp q) (length p) (length q) 0 0 [] = Some (length p, length q, encp (padd_loop p q)).
Proof. exact br_add_loop. Qed.
Print Assumptions C17_add_kernel_is_todays_source.
(* the `while i < len(A) or j < len(B)` merge loop of Polynomial.__mul__ from i = j = 1, C = [A[0] * B[0]] *)
Theorem C17_mul_merge_kernel_is_todays_source : forall (a b : mono) (fuel : nat),
  (length (snd a) + length (snd b) < fuel)%nat ->
  gen_mul_while fuel (enc a) (enc b) [PInt (fst a * fst b)] 1 1
  = Some (enc (mono_mul a b), S (length (snd a)), S (length (snd b))).
Proof. exact br_vmerge. Qed.
Print Assumptions C17_mul_merge_kernel_is_todays_source.
(* the whole methods __eq__ (int / Polynomial other), __bool__, __neg__, __add__, __mul__ (Polynomial / int other) *)
Theorem C17_methods_are_todays_source : forall (p q : poly) (c : Z) (fuel : nat),
  gen_eq_int (encp p) c = Some (peq_Z p c) /\ gen_eq (encp p) (encp q) = Some (peq p q) /\
  gen_bool (encp p) = Some (pbool p) /\ gen_neg (encp p) = Some (encp (pneg p)) /\
  ((length p + length q < fuel)%nat -> gen_add fuel (encp p) (encp q) = Some (encp (padd p q))) /\
  ((length p + 1 < fuel)%nat -> gen_add_int fuel (encp p) c = Some (encp (padd_Z p c))) /\
  ((mul_fuel p q <= fuel)%nat -> gen_mul fuel (encp p) (encp q) = Some (encp (pmul p q))) /\
  ((mul_fuel p (P_of_Z c) <= fuel)%nat -> gen_mul_int fuel (encp p) c = Some (encp (pmul_Z p c))).
Proof. exact br_methods. Qed.
Print Assumptions C17_methods_are_todays_source.
