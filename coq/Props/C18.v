(* Props/C18.v — matrix representations are faithful.  Model/Matrix.v follows matrixreps.py
   (Kronecker construction, ordering-matrix similarity transform) and MultiVector.asmatrix/frommatrix.
   hom_ok A is a boolean: for every pair of basis blades M(e_I) M(e_J) = signs[I,J] M(e_{I xor J}),
   column 0 of M(e_I) is the I-th unit vector (plus shape checks).  Statements only; proofs in
   Theory/Matrix.v.  expr_as_matrix: Model/ExprMatrix.v (coefficient extraction on expanded polynomials),
   theorems C18_expr_as_matrix_* below (Theory/ExprMatrix.v); sympy's expand/collect/lambdify are read, not modelled. *)
From KV Require Import Model.All Model.Matrix Theory.Matrix.
Local Open Scope Z_scope.

(* FINITE DOMAIN (the bound is part of the statement): every default-basis algebra with 1 <= d <= 4,
   every ordering of +1/-1/0 signature entries, start index 0, 1 or 2 *)
Theorem C18_blade_homomorphism_le4 : forall sig start,
  (1 <= length sig <= 4)%nat -> Forall (fun s => s = 1 \/ s = -1 \/ s = 0) sig ->
  (start = 0 \/ start = 1 \/ start = 2) -> hom_ok (mk_default sig start false) = true.
Proof. exact C18_hom_le4. Qed.
Print Assumptions C18_blade_homomorphism_le4.

(* UNBOUNDED in the operands: in any algebra passing the blade check, asmatrix is linear,
   multiplicative, its first column holds the coefficients in canonical order, frommatrix inverts it
   and it is injective - for all multivectors with duplicate-free keys of the algebra *)
Theorem C18_multiplicative : forall A, hom_ok A = true -> NoDup (canon_keys A) -> forall x y : mv Z,
  NoDup (keys x) -> incl (keys x) (canon_keys A) -> NoDup (keys y) -> incl (keys y) (canon_keys A) ->
  asmatrix A (gp Zops A x y) = mat_mul (asmatrix A x) (asmatrix A y).
Proof. exact asmatrix_hom. Qed.
Print Assumptions C18_multiplicative.
Theorem C18_linear : forall A, hom_ok A = true -> NoDup (canon_keys A) -> forall x y : mv Z,
  NoDup (keys x) -> incl (keys x) (canon_keys A) -> NoDup (keys y) -> incl (keys y) (canon_keys A) ->
  asmatrix A (add Zops A x y) = mat_add (asmatrix A x) (asmatrix A y).
Proof. exact asmatrix_add. Qed.
Print Assumptions C18_linear.
Theorem C18_first_column : forall A, hom_ok A = true -> NoDup (canon_keys A) -> forall x : mv Z,
  NoDup (keys x) -> incl (keys x) (canon_keys A) ->
  mat_col 0 (asmatrix A x) = map (fun k => coeff Zops k x) (canon_keys A).
Proof. exact asmatrix_col0. Qed.
Print Assumptions C18_first_column.
Theorem C18_frommatrix_inverts : forall A, hom_ok A = true -> NoDup (canon_keys A) -> forall (x : mv Z) k,
  NoDup (keys x) -> incl (keys x) (canon_keys A) -> In k (canon_keys A) ->
  coeff Zops k (frommatrix A (asmatrix A x)) = coeff Zops k x.
Proof. exact frommatrix_asmatrix. Qed.
Print Assumptions C18_frommatrix_inverts.
Theorem C18_injective : forall A, hom_ok A = true -> NoDup (canon_keys A) -> forall x y : mv Z,
  NoDup (keys x) -> incl (keys x) (canon_keys A) -> NoDup (keys y) -> incl (keys y) (canon_keys A) ->
  asmatrix A x = asmatrix A y -> forall k, coeff Zops k x = coeff Zops k y.
Proof. exact asmatrix_injective. Qed.
Print Assumptions C18_injective.

(* all of it together for every default algebra up to four dimensions *)
Theorem C18_faithful_default_le4 : forall sig start, let A := mk_default sig start false in forall x y : mv Z,
  (1 <= length sig <= 4)%nat -> Forall (fun s => s = 1 \/ s = -1 \/ s = 0) sig ->
  (start = 0 \/ start = 1 \/ start = 2) ->
  NoDup (keys x) -> incl (keys x) (canon_keys A) -> NoDup (keys y) -> incl (keys y) (canon_keys A) ->
  asmatrix A (gp Zops A x y) = mat_mul (asmatrix A x) (asmatrix A y) /\
  asmatrix A (add Zops A x y) = mat_add (asmatrix A x) (asmatrix A y) /\
  mat_col 0 (asmatrix A x) = map (fun k => coeff Zops k x) (canon_keys A) /\
  frommatrix A (asmatrix A x) = map (fun k => (k, coeff Zops k x)) (canon_keys A) /\
  (asmatrix A x = asmatrix A y -> forall k, coeff Zops k x = coeff Zops k y).
Proof. exact C18_faithful_le4. Qed.
Print Assumptions C18_faithful_default_le4.

(* custom bases (after the repair of finding F10 in /repo: blade matrices are built along the blade names): the named
   algebras 2DPGA, 3DPGA and a basis with permuted generators and spellings pass the same blade-level check; every
   custom basis explored by the correspondence is checked the same way on every run, and the unbounded theorems
   below apply to each algebra that passes *)
Theorem C18_custom_bases_hom :
  res_hom_ok named_2dpga = true /\ res_hom_ok named_3dpga = true /\ res_hom_ok custom_cl111 = true.
Proof. exact hom_ok_named_custom. Qed.
Print Assumptions C18_custom_bases_hom.

(* the model's single definition of matrix_basis (products along the names) is, on default algebras, the list of
   matrices the code's default branch (combinations of the generators) builds *)
Theorem C18_default_branch_le4 : forall sig start,
  (1 <= length sig <= 4)%nat -> Forall (fun s => s = 1 \/ s = -1 \/ s = 0) sig ->
  (start = 0 \/ start = 1 \/ start = 2) ->
  matrix_basis (mk_default sig start false) = matrix_basis_default_branch (mk_default sig start false).
Proof. exact matrix_basis_default_branch_le4. Qed.
Print Assumptions C18_default_branch_le4.

(* ================= EVERY DIMENSION (Theory/Universal.v, Theory/MatrixAll.v): no enumeration ================= *)
From KV Require Import Theory.WF Theory.SignBits Theory.Universal Theory.MatrixAll.

(* stage 1, pure algebra: in ANY associative unital structure with integer scalars (given on a carrier predicate ok)
   whose elements g c satisfy the Clifford relations of a well-formed algebra A, the ordered products along the
   table's spellings multiply exactly like kingdon's sign table *)
Theorem C18_universal_property : forall (A : alg), wf_alg A = true ->
  forall (T : Type) (ok : T -> Prop) (mul : T -> T -> T) (one : T) (zsc : Z -> T -> T) (g : nat -> T),
  ok one -> (forall c, In c (alg_vecs A) -> ok (g c)) -> (forall x y, ok x -> ok y -> ok (mul x y)) ->
  (forall x y z, ok x -> ok y -> ok z -> mul (mul x y) z = mul x (mul y z)) ->
  (forall x, ok x -> mul one x = x) -> (forall x, ok x -> mul x one = x) ->
  (forall a x y, ok x -> ok y -> mul (zsc a x) y = zsc a (mul x y)) ->
  (forall a x y, ok x -> ok y -> mul x (zsc a y) = zsc a (mul x y)) ->
  (forall x, ok x -> zsc 1 x = x) -> (forall a b x, ok x -> zsc a (zsc b x) = zsc (a * b) x) ->
  (forall c, In c (alg_vecs A) -> mul (g c) (g c) = zsc (metric A c) one) ->
  (forall c e, In c (alg_vecs A) -> In e (alg_vecs A) -> c <> e -> mul (g c) (g e) = zsc (-1) (mul (g e) (g c))) ->
  forall I J, 0 <= I < alg_len A -> 0 <= J < alg_len A ->
  mul (blade A T mul one g I) (blade A T mul one g J) = zsc (sgn A I J) (blade A T mul one g (Z.lxor I J)).
Proof. exact universal_hom. Qed.
Print Assumptions C18_universal_property.

(* stage 2: the Kronecker generators Es of matrix_rep satisfy the Clifford relations, for every signature over
   {1,-1,0} of every length: E_i E_i = sig_i Id, E_i E_j = - E_j E_i, all 2^d x 2^d *)
Theorem C18_kron_generators_clifford : forall sig,
  Forall (fun s => s = 1 \/ s = -1 \/ s = 0) sig ->
  let d := length sig in
  let Es := gen_mats_from 0 d (sig_mats sig) in
  let Id := kron_all (repeat I2 d) in
  length Es = d /\
  (forall i, (i < d)%nat ->
     wfm (2 ^ d) (nth i Es []) /\ mat_mul (nth i Es []) (nth i Es []) = mat_scale (nth i sig 0) Id) /\
  (forall i j, (i < d)%nat -> (j < d)%nat -> i <> j ->
     mat_mul (nth i Es []) (nth j Es []) = mat_scale (-1) (mat_mul (nth j Es []) (nth i Es []))).
Proof. exact kron_generators_clifford. Qed.
Print Assumptions C18_kron_generators_clifford.

(* stage 3: the blade-level check (M(e_I) M(e_J) = signs[I,J] M(e_(I xor J)) for all pairs, column 0 of M_i = e_i,
   shapes) holds in EVERY well-formed algebra of dimension >= 1: any signature ordering, start index, default or
   admissible custom basis; in particular in every default algebra *)
Theorem C18_blade_homomorphism_all : forall A, wf_alg A = true -> (1 <= a_d A)%nat -> hom_ok A = true.
Proof. exact hom_ok_all_dim. Qed.
Print Assumptions C18_blade_homomorphism_all.
Theorem C18_blade_homomorphism_default : forall sig start,
  (1 <= length sig)%nat -> Forall (fun s => s = 1 \/ s = -1 \/ s = 0) sig -> 0 <= start ->
  hom_ok (mk_default sig start false) = true.
Proof. exact hom_ok_default_dim. Qed.
Print Assumptions C18_blade_homomorphism_default.

(* the representation is faithful for all multivectors of all well-formed algebras / all default algebras *)
Theorem C18_faithful_all : forall A (x y : mv Z), wf_alg A = true -> (1 <= a_d A)%nat ->
  NoDup (keys x) -> incl (keys x) (canon_keys A) -> NoDup (keys y) -> incl (keys y) (canon_keys A) ->
  asmatrix A (gp Zops A x y) = mat_mul (asmatrix A x) (asmatrix A y) /\
  asmatrix A (add Zops A x y) = mat_add (asmatrix A x) (asmatrix A y) /\
  mat_col 0 (asmatrix A x) = map (fun k => coeff Zops k x) (canon_keys A) /\
  frommatrix A (asmatrix A x) = map (fun k => (k, coeff Zops k x)) (canon_keys A) /\
  (asmatrix A x = asmatrix A y -> forall k, coeff Zops k x = coeff Zops k y).
Proof. exact faithful_all_dim. Qed.
Print Assumptions C18_faithful_all.
Theorem C18_faithful_default : forall sig start, let A := mk_default sig start false in forall x y : mv Z,
  (1 <= length sig)%nat -> Forall (fun s => s = 1 \/ s = -1 \/ s = 0) sig -> 0 <= start ->
  NoDup (keys x) -> incl (keys x) (canon_keys A) -> NoDup (keys y) -> incl (keys y) (canon_keys A) ->
  asmatrix A (gp Zops A x y) = mat_mul (asmatrix A x) (asmatrix A y) /\
  asmatrix A (add Zops A x y) = mat_add (asmatrix A x) (asmatrix A y) /\
  mat_col 0 (asmatrix A x) = map (fun k => coeff Zops k x) (canon_keys A) /\
  frommatrix A (asmatrix A x) = map (fun k => (k, coeff Zops k x)) (canon_keys A) /\
  (asmatrix A x = asmatrix A y -> forall k, coeff Zops k x = coeff Zops k y).
Proof. exact faithful_default_dim. Qed.
Print Assumptions C18_faithful_default.

(* ---- the default branch of matrix_rep, EVERY dimension (Theory/MatrixBranch.v): the canonical blades of a default
   algebra are, as index tuples, grade by grade the itertools.combinations of 0 .. d-1, hence the combinations branch
   (run by the Python for a default basis) and the blades branch (the model's matrix_basis, the subject of the
   theorems above) return the same list of matrices — any number of generators, any start index >= 0 ---- *)
From KV Require Import Theory.MatrixBranch.
Theorem C18_default_blade_indices : forall sig start graded, 0 <= start ->
  blade_indices (mk_default sig start graded) =
  [] :: map (fun i => [i]) (seq 0 (length sig))
     ++ flat_map (fun r => combinations (seq 0 (length sig)) r) (seq 2 (length sig - 1)).
Proof. exact blade_indices_default. Qed.
Print Assumptions C18_default_blade_indices.
Theorem C18_default_branch_all : forall sig start,
  Forall (fun s => s = 1 \/ s = -1 \/ s = 0) sig -> 0 <= start ->
  matrix_basis (mk_default sig start false) = matrix_basis_default_branch (mk_default sig start false).
Proof. exact matrix_basis_default_branch_all. Qed.
Print Assumptions C18_default_branch_all.

(* ---- expr_as_matrix (Model/ExprMatrix.v, Theory/ExprMatrix.v).  Coefficients of symbolic multivectors are expanded
   polynomials: lists of terms (c, symbols with multiplicity) over ANY commutative ring R; [eval rho p] is the value at
   a valuation rho of the symbols; A = expr_matrix xs ys has the entries A[i][j] = coeff_of x_j y_i (sympy's
   `collect(expand(y_i), x).coeff(x_j)`: the terms in which x_j has exponent exactly 1, that factor removed);
   mat_vec rho A xs = (sum_j eval rho A[i][j] * rho x_j)_i ---- *)
From KV Require Import Model.ExprMatrix Theory.ExprMatrix.

(* (a) A . coefficients(x) = coefficients(y) for every y linear in the distinct symbols xs, every ring, every valuation *)
Theorem C18_expr_as_matrix_linear :
  forall (R : Type) (rO rI : R) (radd rmul rsub : R -> R -> R) (ropp : R -> R),
  ring_theory rO rI radd rmul rsub ropp (@eq R) ->
  forall (rho : nat -> R) (xs : list nat) (ys : list (xpoly R)),
  forallb (linear_in xs) ys = true -> NoDup xs ->
  mat_vec R rO rI radd rmul rho (expr_matrix xs ys) xs = map (eval R rO rI radd rmul rho) ys.
Proof. exact expr_matrix_linear. Qed.
Print Assumptions C18_expr_as_matrix_linear.

(* for ANY y (no hypothesis): row . x counts every term k times, k = number of x symbols with exponent exactly 1 in it *)
Theorem C18_expr_as_matrix_general :
  forall (R : Type) (rO rI : R) (radd rmul rsub : R -> R -> R) (ropp : R -> R),
  ring_theory rO rI radd rmul rsub ropp (@eq R) ->
  forall (rho : nat -> R) (xs : list nat) (p : xpoly R),
  dot R rO rI radd rmul rho (expr_row xs p) xs
  = esum R rO radd (map (fun t => nsmul R rO radd (kone xs (snd t)) (eval_term R rI rmul rho t)) p).
Proof. exact expr_row_general. Qed.
Print Assumptions C18_expr_as_matrix_general.

(* (b) why the property says "linear": over a ring without additive torsion (Z, Q) the polynomial row . x equals p
   (same coefficient at every monomial) IFF every monomial of p either has exactly one x symbol with exponent 1 or has
   total coefficient 0.  A non-zero constant term, x1*x1, x1*x2 (k = 0, 0, 2) each refute the identity. *)
Theorem C18_expr_as_matrix_identity_iff :
  forall (R : Type) (rO rI : R) (radd rmul rsub : R -> R -> R) (ropp : R -> R),
  ring_theory rO rI radd rmul rsub ropp (@eq R) ->
  forall (xs : list nat) (p : xpoly R), torsion_free R rO radd ->
  (peq R rO radd (row_poly (mkOps R radd rsub rmul ropp rO rI) (expr_row xs p) xs) p
   <-> (forall m, kone xs m = 1%nat \/ coef_at R rO radd m p = rO)).
Proof. exact row_identity_iff. Qed.
Print Assumptions C18_expr_as_matrix_identity_iff.

Theorem C18_expr_as_matrix_nonlinear_refuted :
  torsion_free Z 0 Z.add /\
  (let xs := [10; 11]%nat in
   let fails p := ~ peq Z 0 Z.add (row_poly Zops (expr_row xs p) xs) p in
   fails [(3, [0]%nat)] /\ fails [(1, [10; 10]%nat)] /\ fails [(1, [10; 11]%nat)] /\
   (forall rho : nat -> Z,
      dot Z 0 1 Z.add Z.mul rho (expr_row xs [(1, [10; 11]%nat)]) xs = 2 * (rho 10%nat * rho 11%nat))).
Proof.
  exact (conj torsion_free_Z (conj ex_constant_refuted (conj ex_quadratic_refuted
          (conj ex_bilinear_refuted ex_bilinear_twice)))).
Qed.
Print Assumptions C18_expr_as_matrix_nonlinear_refuted.

(* (c) for linear y the entries of A contain no x symbol (A is a matrix of the OTHER inputs), and the value of such an
   entry does not depend on the values given to the xs *)
Theorem C18_expr_as_matrix_entries_free_of_x :
  forall (C : Type) (xs : list nat) (ys : list (xpoly C)),
  forallb (linear_in xs) ys = true ->
  Forall (Forall (fun a => free_of xs a = true)) (expr_matrix xs ys).
Proof. exact (@expr_matrix_entries_free). Qed.
Print Assumptions C18_expr_as_matrix_entries_free_of_x.
Theorem C18_expr_as_matrix_entries_value :
  forall (R : Type) (rO rI : R) (radd rmul : R -> R -> R) (rho rho' : nat -> R) (xs : list nat) (p : xpoly R),
  (forall v, ~ In v xs -> rho v = rho' v) -> free_of xs p = true ->
  eval R rO rI radd rmul rho p = eval R rO rI radd rmul rho' p.
Proof. exact eval_free_indep. Qed.
Print Assumptions C18_expr_as_matrix_entries_value.

(* (d) res_like: row r of the selected matrix is the row of the full matrix at the (first) position where y stores the
   r-th key of res_like, a row of empty sums when y does not store it; and the returned pair satisfies A . x = y *)
Theorem C18_expr_as_matrix_res_like :
  forall (C : Type) (xs : list nat) (ks : list Z) (y : mv (xpoly C)) (r : nat) (k : Z),
  nth_error ks r = Some k ->
  let Asel := expr_matrix xs (map snd (res_like_sel ks y)) in
  let Afull := expr_matrix xs (map snd y) in
  match zindex k (keys y) with
  | Some i => nth_error Asel r = nth_error Afull i /\ nth_error Afull i <> None
  | None => nth_error Asel r = Some (map (fun _ => []) xs)
  end.
Proof. exact (@res_like_rows). Qed.
Print Assumptions C18_expr_as_matrix_res_like.
Theorem C18_expr_as_matrix_sound :
  forall (R : Type) (rO rI : R) (radd rmul rsub : R -> R -> R) (ropp : R -> R),
  ring_theory rO rI radd rmul rsub ropp (@eq R) ->
  forall (rho : nat -> R) (res_like : option (list Z)) (x : mv nat) (y : mv (xpoly R)),
  forallb (linear_in (map snd x)) (map snd y) = true -> NoDup (map snd x) ->
  let Ay := expr_as_matrix res_like x y in
  mat_vec R rO rI radd rmul rho (fst Ay) (map snd x) = map (eval R rO rI radd rmul rho) (map snd (snd Ay)).
Proof. exact expr_as_matrix_sound. Qed.
Print Assumptions C18_expr_as_matrix_sound.

(* (e) the hypothesis of (a) is PROVED for the main use: every expression e built from the last input x, other inputs
   env n whose coefficients are x-free polynomials, the nine products, +, - and neg / reverse / involute / conjugate /
   hodge / unhodge that has degree 1 in x (gdeg e = Some 1: every product has x in exactly one factor, sums have
   summands of degree 1) yields, on a symbolic x with distinct symbols, a y that is linear in x; the returned pair
   satisfies A . x = y; and the values of y are the SAME expression evaluated numerically on the values of the inputs *)
Theorem C18_expr_as_matrix_expression :
  forall (R : Type) (rO rI : R) (radd rmul rsub : R -> R -> R) (ropp : R -> R),
  ring_theory rO rI radd rmul rsub ropp (@eq R) ->
  forall (rho : nat -> R) (A : alg) (e : gexpr) (res_like : option (list Z)) (x : mv nat)
         (env : nat -> mv (xpoly R)),
  gdeg e = Some 1%nat -> NoDup (map snd x) ->
  (forall n, Natural.all_coeffs (fun p => free_of (map snd x) p = true) (env n)) ->
  let O := mkOps R radd rsub rmul ropp rO rI in
  let xs := map snd x in
  let y := geval (Fops O) A env (sym_mv O x) e in
  let Ay := expr_as_matrix res_like x y in
  forallb (linear_in xs) (map snd y) = true /\
  mat_vec R rO rI radd rmul rho (fst Ay) xs = map (eval R rO rI radd rmul rho) (map snd (snd Ay)) /\
  Composite.map_mv (eval R rO rI radd rmul rho) y
  = geval O A (fun n => Composite.map_mv (eval R rO rI radd rmul rho) (env n)) (Composite.map_mv rho x) e.
Proof. exact expr_as_matrix_of_expression. Qed.
Print Assumptions C18_expr_as_matrix_expression.

(* what a passing correspondence case of tools/props/C18.py (eam_case evaluated on exact rationals: yfull = expr(inputs)
   as the harness computed it, (A_impl, y_impl) what the implementation returned) establishes: the returned y has the
   keys and the values of the (selected) expression result, and A_impl . x = y_impl at every rational valuation *)
Theorem C18_expr_as_matrix_check_sound :
  forall (rho : nat -> Qcanon.Qc) (res_like : option (list Z)) (x : mv nat) (yfull y_impl : mv (xpoly Qcanon.Qc))
         (A_impl : list (list (xpoly Qcanon.Qc))),
  eam_case_Qc res_like x yfull A_impl y_impl = true ->
  forallb (linear_in (map snd x)) (map snd y_impl) = true ->
  keys y_impl = keys (snd (expr_as_matrix res_like x yfull)) /\
  map (eval Qcanon.Qc Qc0 Qc1 Qcanon.Qcplus Qcanon.Qcmult rho) (map snd y_impl)
  = map (eval Qcanon.Qc Qc0 Qc1 Qcanon.Qcplus Qcanon.Qcmult rho) (map snd (snd (expr_as_matrix res_like x yfull))) /\
  mat_vec Qcanon.Qc Qc0 Qc1 Qcanon.Qcplus Qcanon.Qcmult rho A_impl (map snd x)
  = map (eval Qcanon.Qc Qc0 Qc1 Qcanon.Qcplus Qcanon.Qcmult rho) (map snd y_impl).
Proof. exact eam_case_Qc_sound. Qed.
Print Assumptions C18_expr_as_matrix_check_sound.

(* non-vacuity: Theory/ExprMatrix.v ex_linear_hyp / ex_linear (a), ex_cubic_identity (the identity without linearity),
   ex_entries_free (c), ex_res_like (d), ex_sandwich_hyp / ex_sandwich_row / ex_sandwich_numeric (e: R * x * ~R in
   Cl(3,0), first row (R1^2 - R2^2 - R3^2, 2 R1 R2, 2 R1 R3)) *)

(* ---- source pins: the functions whose hand-written model carries the theorems above are still, textually (after
   ast normalisation), the functions the model was validated against; an edit breaks Bridge/Pins_C18.v ---- *)
From KV Require Bridge.Pins_C18.
