(* Props/C18.v — matrix representations are faithful.  Model/Matrix.v follows matrixreps.py
   (Kronecker construction, ordering-matrix similarity transform) and MultiVector.asmatrix/frommatrix.
   hom_ok A is a boolean: for every pair of basis blades M(e_I) M(e_J) = signs[I,J] M(e_{I xor J}),
   column 0 of M(e_I) is the I-th unit vector (plus shape checks).  Statements only; proofs in
   Theory/Matrix.v.  expr_as_matrix is NOT modelled (sympy collect/coeff/lambdify): see DESIGN. *)
From KV Require Import Model.All Model.Matrix Theory.Matrix.
Local Open Scope Z_scope.

(* FINITE DOMAIN (the bound is part of the statement): every default-basis algebra with 1 <= d <= 4,
   every ordering of +1/-1/0 signature entries, start index 0, 1 or 2 *)
Theorem C18_blade_homomorphism_le4 : forall sig start,
  (1 <= length sig <= 4)%nat -> Forall (fun s => s = 1 \/ s = -1 \/ s = 0) sig ->
  (start = 0 \/ start = 1 \/ start = 2) -> hom_ok (mk_default sig start false) = true.
Proof. exact C18_hom_le4. Qed.
Print Assumptions C18_blade_homomorphism_le4.

(* UNBOUNDED in the operands: in any algebra passing the blade check, asmatrix is linear,
   multiplicative, its first column holds the coefficients in canonical order, frommatrix inverts it
   and it is injective - for all multivectors with duplicate-free keys of the algebra *)
Theorem C18_multiplicative : forall A, hom_ok A = true -> NoDup (canon_keys A) -> forall x y : mv Z,
  NoDup (keys x) -> incl (keys x) (canon_keys A) -> NoDup (keys y) -> incl (keys y) (canon_keys A) ->
  asmatrix A (gp Zops A x y) = mat_mul (asmatrix A x) (asmatrix A y).
Proof. exact asmatrix_hom. Qed.
Print Assumptions C18_multiplicative.
Theorem C18_linear : forall A, hom_ok A = true -> NoDup (canon_keys A) -> forall x y : mv Z,
  NoDup (keys x) -> incl (keys x) (canon_keys A) -> NoDup (keys y) -> incl (keys y) (canon_keys A) ->
  asmatrix A (add Zops A x y) = mat_add (asmatrix A x) (asmatrix A y).
Proof. exact asmatrix_add. Qed.
Print Assumptions C18_linear.
Theorem C18_first_column : forall A, hom_ok A = true -> NoDup (canon_keys A) -> forall x : mv Z,
  NoDup (keys x) -> incl (keys x) (canon_keys A) ->
  mat_col 0 (asmatrix A x) = map (fun k => coeff Zops k x) (canon_keys A).
Proof. exact asmatrix_col0. Qed.
Print Assumptions C18_first_column.
Theorem C18_frommatrix_inverts : forall A, hom_ok A = true -> NoDup (canon_keys A) -> forall (x : mv Z) k,
  NoDup (keys x) -> incl (keys x) (canon_keys A) -> In k (canon_keys A) ->
  coeff Zops k (frommatrix A (asmatrix A x)) = coeff Zops k x.
Proof. exact frommatrix_asmatrix. Qed.
Print Assumptions C18_frommatrix_inverts.
Theorem C18_injective : forall A, hom_ok A = true -> NoDup (canon_keys A) -> forall x y : mv Z,
  NoDup (keys x) -> incl (keys x) (canon_keys A) -> NoDup (keys y) -> incl (keys y) (canon_keys A) ->
  asmatrix A x = asmatrix A y -> forall k, coeff Zops k x = coeff Zops k y.
Proof. exact asmatrix_injective. Qed.
Print Assumptions C18_injective.

(* all of it together for every default algebra up to four dimensions *)
Theorem C18_faithful_default_le4 : forall sig start, let A := mk_default sig start false in forall x y : mv Z,
  (1 <= length sig <= 4)%nat -> Forall (fun s => s = 1 \/ s = -1 \/ s = 0) sig ->
  (start = 0 \/ start = 1 \/ start = 2) ->
  NoDup (keys x) -> incl (keys x) (canon_keys A) -> NoDup (keys y) -> incl (keys y) (canon_keys A) ->
  asmatrix A (gp Zops A x y) = mat_mul (asmatrix A x) (asmatrix A y) /\
  asmatrix A (add Zops A x y) = mat_add (asmatrix A x) (asmatrix A y) /\
  mat_col 0 (asmatrix A x) = map (fun k => coeff Zops k x) (canon_keys A) /\
  frommatrix A (asmatrix A x) = map (fun k => (k, coeff Zops k x)) (canon_keys A) /\
  (asmatrix A x = asmatrix A y -> forall k, coeff Zops k x = coeff Zops k y).
Proof. exact C18_faithful_le4. Qed.
Print Assumptions C18_faithful_default_le4.

(* custom bases (after the repair of finding F10 in /repo: blade matrices are built along the blade names): the named
   algebras 2DPGA, 3DPGA and a basis with permuted generators and spellings pass the same blade-level check; every
   custom basis explored by the correspondence is checked the same way on every run, and the unbounded theorems
   below apply to each algebra that passes *)
Theorem C18_custom_bases_hom :
  res_hom_ok named_2dpga = true /\ res_hom_ok named_3dpga = true /\ res_hom_ok custom_cl111 = true.
Proof. exact hom_ok_named_custom. Qed.
Print Assumptions C18_custom_bases_hom.

(* the model's single definition of matrix_basis (products along the names) is, on default algebras, the list of
   matrices the code's default branch (combinations of the generators) builds *)
Theorem C18_default_branch_le4 : forall sig start,
  (1 <= length sig <= 4)%nat -> Forall (fun s => s = 1 \/ s = -1 \/ s = 0) sig ->
  (start = 0 \/ start = 1 \/ start = 2) ->
  matrix_basis (mk_default sig start false) = matrix_basis_default_branch (mk_default sig start false).
Proof. exact matrix_basis_default_branch_le4. Qed.
Print Assumptions C18_default_branch_le4.

(* ================= EVERY DIMENSION (Theory/Universal.v, Theory/MatrixAll.v): no enumeration ================= *)
From KV Require Import Theory.WF Theory.SignBits Theory.Universal Theory.MatrixAll.

(* stage 1, pure algebra: in ANY associative unital structure with integer scalars (given on a carrier predicate ok)
   whose elements g c satisfy the Clifford relations of a well-formed algebra A, the ordered products along the
   table's spellings multiply exactly like kingdon's sign table *)
Theorem C18_universal_property : forall (A : alg), wf_alg A = true ->
  forall (T : Type) (ok : T -> Prop) (mul : T -> T -> T) (one : T) (zsc : Z -> T -> T) (g : nat -> T),
  ok one -> (forall c, In c (alg_vecs A) -> ok (g c)) -> (forall x y, ok x -> ok y -> ok (mul x y)) ->
  (forall x y z, ok x -> ok y -> ok z -> mul (mul x y) z = mul x (mul y z)) ->
  (forall x, ok x -> mul one x = x) -> (forall x, ok x -> mul x one = x) ->
  (forall a x y, ok x -> ok y -> mul (zsc a x) y = zsc a (mul x y)) ->
  (forall a x y, ok x -> ok y -> mul x (zsc a y) = zsc a (mul x y)) ->
  (forall x, ok x -> zsc 1 x = x) -> (forall a b x, ok x -> zsc a (zsc b x) = zsc (a * b) x) ->
  (forall c, In c (alg_vecs A) -> mul (g c) (g c) = zsc (metric A c) one) ->
  (forall c e, In c (alg_vecs A) -> In e (alg_vecs A) -> c <> e -> mul (g c) (g e) = zsc (-1) (mul (g e) (g c))) ->
  forall I J, 0 <= I < alg_len A -> 0 <= J < alg_len A ->
  mul (blade A T mul one g I) (blade A T mul one g J) = zsc (sgn A I J) (blade A T mul one g (Z.lxor I J)).
Proof. exact universal_hom. Qed.
Print Assumptions C18_universal_property.

(* stage 2: the Kronecker generators Es of matrix_rep satisfy the Clifford relations, for every signature over
   {1,-1,0} of every length: E_i E_i = sig_i Id, E_i E_j = - E_j E_i, all 2^d x 2^d *)
Theorem C18_kron_generators_clifford : forall sig,
  Forall (fun s => s = 1 \/ s = -1 \/ s = 0) sig ->
  let d := length sig in
  let Es := gen_mats_from 0 d (sig_mats sig) in
  let Id := kron_all (repeat I2 d) in
  length Es = d /\
  (forall i, (i < d)%nat ->
     wfm (2 ^ d) (nth i Es []) /\ mat_mul (nth i Es []) (nth i Es []) = mat_scale (nth i sig 0) Id) /\
  (forall i j, (i < d)%nat -> (j < d)%nat -> i <> j ->
     mat_mul (nth i Es []) (nth j Es []) = mat_scale (-1) (mat_mul (nth j Es []) (nth i Es []))).
Proof. exact kron_generators_clifford. Qed.
Print Assumptions C18_kron_generators_clifford.

(* stage 3: the blade-level check (M(e_I) M(e_J) = signs[I,J] M(e_(I xor J)) for all pairs, column 0 of M_i = e_i,
   shapes) holds in EVERY well-formed algebra of dimension >= 1: any signature ordering, start index, default or
   admissible custom basis; in particular in every default algebra *)
Theorem C18_blade_homomorphism_all : forall A, wf_alg A = true -> (1 <= a_d A)%nat -> hom_ok A = true.
Proof. exact hom_ok_all_dim. Qed.
Print Assumptions C18_blade_homomorphism_all.
Theorem C18_blade_homomorphism_default : forall sig start,
  (1 <= length sig)%nat -> Forall (fun s => s = 1 \/ s = -1 \/ s = 0) sig -> 0 <= start ->
  hom_ok (mk_default sig start false) = true.
Proof. exact hom_ok_default_dim. Qed.
Print Assumptions C18_blade_homomorphism_default.

(* the representation is faithful for all multivectors of all well-formed algebras / all default algebras *)
Theorem C18_faithful_all : forall A (x y : mv Z), wf_alg A = true -> (1 <= a_d A)%nat ->
  NoDup (keys x) -> incl (keys x) (canon_keys A) -> NoDup (keys y) -> incl (keys y) (canon_keys A) ->
  asmatrix A (gp Zops A x y) = mat_mul (asmatrix A x) (asmatrix A y) /\
  asmatrix A (add Zops A x y) = mat_add (asmatrix A x) (asmatrix A y) /\
  mat_col 0 (asmatrix A x) = map (fun k => coeff Zops k x) (canon_keys A) /\
  frommatrix A (asmatrix A x) = map (fun k => (k, coeff Zops k x)) (canon_keys A) /\
  (asmatrix A x = asmatrix A y -> forall k, coeff Zops k x = coeff Zops k y).
Proof. exact faithful_all_dim. Qed.
Print Assumptions C18_faithful_all.
Theorem C18_faithful_default : forall sig start, let A := mk_default sig start false in forall x y : mv Z,
  (1 <= length sig)%nat -> Forall (fun s => s = 1 \/ s = -1 \/ s = 0) sig -> 0 <= start ->
  NoDup (keys x) -> incl (keys x) (canon_keys A) -> NoDup (keys y) -> incl (keys y) (canon_keys A) ->
  asmatrix A (gp Zops A x y) = mat_mul (asmatrix A x) (asmatrix A y) /\
  asmatrix A (add Zops A x y) = mat_add (asmatrix A x) (asmatrix A y) /\
  mat_col 0 (asmatrix A x) = map (fun k => coeff Zops k x) (canon_keys A) /\
  frommatrix A (asmatrix A x) = map (fun k => (k, coeff Zops k x)) (canon_keys A) /\
  (asmatrix A x = asmatrix A y -> forall k, coeff Zops k x = coeff Zops k y).
Proof. exact faithful_default_dim. Qed.
Print Assumptions C18_faithful_default.

(* ---- the default branch of matrix_rep, EVERY dimension (Theory/MatrixBranch.v): the canonical blades of a default
   algebra are, as index tuples, grade by grade the itertools.combinations of 0 .. d-1, hence the combinations branch
   (run by the Python for a default basis) and the blades branch (the model's matrix_basis, the subject of the
   theorems above) return the same list of matrices — any number of generators, any start index >= 0 ---- *)
From KV Require Import Theory.MatrixBranch.
Theorem C18_default_blade_indices : forall sig start graded, 0 <= start ->
  blade_indices (mk_default sig start graded) =
  [] :: map (fun i => [i]) (seq 0 (length sig))
     ++ flat_map (fun r => combinations (seq 0 (length sig)) r) (seq 2 (length sig - 1)).
Proof. exact blade_indices_default. Qed.
Print Assumptions C18_default_blade_indices.
Theorem C18_default_branch_all : forall sig start,
  Forall (fun s => s = 1 \/ s = -1 \/ s = 0) sig -> 0 <= start ->
  matrix_basis (mk_default sig start false) = matrix_basis_default_branch (mk_default sig start false).
Proof. exact matrix_basis_default_branch_all. Qed.
Print Assumptions C18_default_branch_all.

(* ---- source pins: the functions whose hand-written model carries the theorems above are still, textually (after
   ast normalisation), the functions the model was validated against; an edit breaks Bridge/Pins_C18.v ---- *)
From KV Require Bridge.Pins_C18.
