(* Model/Tape.v — kingdon.taperecorder.TapeRecorder, Registry.__getitem__/__call__ (operator_dict.py),
   do_compile (codegen.py), Algebra.register, and the part of the MultiVector operator surface a registered
   function can use (multivector.py).  Executable definitions only, NO proofs (Theory/Tape.v).

   What `alg.register(f)` does.  The first call with a new tuple of argument key tuples runs `f` on
   TapeRecorder objects (one per argument: expr = the parameter name 'a', 'b', ..., keys = the argument's
   keys).  Every operator method of the recorder looks the generated function for its operand KEYS up in the
   same OperatorDict the numeric path uses (`getattr(algebra, op)[keys_in]` -> (keys_out, func)), appends
   `func.__name__(<operand expressions>)` to the expression string and tracks keys_out.  do_compile wraps the
   final expression in `def name(a, b): return <expr>` and compiles it in Algebra.numspace; the result is
   called with the VALUE LISTS of the arguments and its output list is zipped with the tracked keys.

   Model.  An expression language [expr] for the body of f (member access by NAME, so an unsupported member
   is expressible and raises), and
     [direct]    f( *args)  - MultiVector's methods, statement by statement, on values;
     [record]    f( *tapes) - TapeRecorder's methods, statement by statement: the expression string is the
                 call tree [tape], whose nodes say WHICH generated function is called (operator, ordered
                 keys_in - by C09 that is what the name in numspace denotes) on which sub-expressions, with
                 the literal leaves '(0,)', '(1,)', '(number,)', '(±e[idx],)', '[e[idx] for idx in (..)]';
     [run_tape]  evaluation of the compiled expression on value lists;
     [registered] Registry.__call__ = compile for the keys of the arguments, run on their values, zip.
   Both worlds use the SAME table of generated functions [opd : operator -> keys_in -> (keys_out, func)]
   (in Python: the same OperatorDict objects).  Which algebra operator a method name calls, with which
   operand first, comes from the tables translated from the source (Gen/Dunder.v: mv_methods, tape_methods),
   passed as parameters [mvtab], [tapetab].

   Python numbers.  A number literal is a number in both worlds ([ENum], [VNum]/[RNum]).  Coefficient access
   yields a plain number on a MultiVector ([VNum]) but a recorder with keys (0,) on a TapeRecorder.
   Arithmetic BETWEEN two plain numbers is Python's own: + - * and unary minus are modelled (ring
   operations), everything else on two numbers (/ ** ^ | & >> @, ~) is reported as ENotImpl (not modelled:
   the coefficient type is an abstract commutative ring). *)
From Coq Require Import String.
From KV Require Export Model.Composite.
Local Open Scope Z_scope.

(* ---------------------------------------------------------------- method tables (Gen/Dunder.v) *)
Definition mtable := list (string * string * bool * nat).   (* (member, algebra operator, operands swapped?, arity) *)
(* class-body semantics: a later binding of the same name wins *)
Fixpoint mlookup (m : string) (t : mtable) : option (string * bool * nat) :=
  match t with
  | [] => None
  | (n, op, sw, ar) :: r =>
      match mlookup m r with
      | Some x => Some x
      | None => if String.eqb n m then Some (op, sw, ar) else None
      end
  end.

Inductive infix := IAdd | ISub | IMul | IDiv | IXor | IOr | IAnd | IRshift | IMatmul.
Inductive prefix := PNeg | PInvert.
Definition dunder (o : infix) : string :=
  match o with
  | IAdd => "__add__" | ISub => "__sub__" | IMul => "__mul__" | IDiv => "__truediv__" | IXor => "__xor__"
  | IOr => "__or__" | IAnd => "__and__" | IRshift => "__rshift__" | IMatmul => "__matmul__"
  end%string.
Definition rdunder (o : infix) : string :=
  match o with
  | IAdd => "__radd__" | ISub => "__rsub__" | IMul => "__rmul__" | IDiv => "__rtruediv__" | IXor => "__rxor__"
  | IOr => "__ror__" | IAnd => "__rand__" | IRshift => "__rrshift__" | IMatmul => "__rmatmul__"
  end%string.
Definition pdunder (u : prefix) : string := match u with PNeg => "__neg__" | PInvert => "__invert__" end%string.

(* ---------------------------------------------------------------- the body of a registered function *)
Inductive expr (R : Type) :=
| EArg (i : nat)                                  (* the i-th parameter *)
| ENum (c : R)                                    (* a number literal *)
| EMeth1 (m : string) (e : expr R)                (* e.m() *)
| EMeth2 (m : string) (e1 e2 : expr R)            (* e1.m(e2) *)
| EPrefix (u : prefix) (e : expr R)               (* -e, ~e *)
| EInfix (o : infix) (e1 e2 : expr R)             (* e1 o e2, Python's binary-operator dispatch *)
| EPow (e : expr R) (n : Z)                       (* e ** n, n an int literal *)
| EGrade (e : expr R) (gs : list nat)             (* e.grade( *gs) / e.grade(gs) *)
| ECoeff (e : expr R) (nm : name)                 (* e.e12: attribute 'e' + hex digits *)
| EDual (e : expr R) (k : dual_kind)              (* e.dual(kind) *)
| EUndual (e : expr R) (k : dual_kind)            (* e.undual(kind) *)
| ENorm (e : expr R)                              (* e.norm() *)
| ENormalized (e : expr R)                        (* e.normalized() *)
| ECall (k : nat) (args : list (expr R)).         (* g_k(args): another function registered with alg.register *)
Arguments EArg {R}. Arguments ENum {R}. Arguments EMeth1 {R}. Arguments EMeth2 {R}. Arguments EPrefix {R}.
Arguments EInfix {R}. Arguments EPow {R}. Arguments EGrade {R}. Arguments ECoeff {R}. Arguments EDual {R}.
Arguments EUndual {R}. Arguments ENorm {R}. Arguments ENormalized {R}. Arguments ECall {R}.

(* ---------------------------------------------------------------- the compiled expression string *)
Inductive tape (R : Type) :=
| TArg (i : nat)                                            (* 'a', 'b', ...: the whole value list of argument i *)
| TZero                                                     (* '(0,)' *)
| TOne                                                      (* '(1,)' *)
| TNum (c : R)                                              (* '(number,)' *)
| TIdx (neg : bool) (t : tape R) (idx : nat)                (* '(-t[idx],)' / '(t[idx],)' *)
| TSel (t : tape R) (idxs : list nat)                       (* '[t[idx] for idx in (i0, i1, ..)]' *)
| TOp (op : string) (kin : list (list Z)) (ts : list (tape R))   (* 'op_<typenumbers>(t0, t1)': the function generated for (op, kin) *)
| TCall (k : nat) (kin : list (list Z)) (body : tape R) (ts : list (tape R)).
      (* 'g_<typenumbers>(t0, ..)': the compiled registered function g_k for kin, whose expression is [body] *)
Arguments TArg {R}. Arguments TZero {R}. Arguments TOne {R}. Arguments TNum {R}. Arguments TIdx {R}.
Arguments TSel {R}. Arguments TOp {R}. Arguments TCall {R}.

(* a generated function: value lists in, value list out (may raise, e.g. ZeroDivisionError) *)
Definition gfun (R : Type) := list (list R) -> res (list R).
(* getattr(algebra, op)[keys_in] = (keys_out, func); Err = code generation raises *)
Definition optable (R : Type) := string -> list (list Z) -> res (list Z * gfun R).

Fixpoint mapM {X Y} (f : X -> res Y) (l : list X) : res (list Y) :=
  match l with
  | [] => Ok []
  | x :: r => y <- f x ;; ys <- mapM f r ;; Ok (y :: ys)
  end.

Definition vals {R} (x : mv R) : list R := map snd x.

Section Tape.
  Context {R : Type} (O : ops R).
  Variable A : alg.
  Variable opd : optable R.
  Variables mvtab tapetab : mtable.
  Variable bodies : list (expr R).          (* the registered functions g_0, g_1, ... *)

  (* ============================ the numeric path: MultiVector ============================ *)
  Inductive val := VNum (c : R) | VMv (x : mv R).
  (* MultiVector.fromkeysvalues(algebra, (0,), [number]) *)
  Definition as_mv (v : val) : mv R := match v with VNum c => [(0, c)] | VMv x => x end.

  (* OperatorDict.__call__ / _call_binary / UnaryOperatorDict.__call__ on multivectors:
       keys_out, func = self[keys_in]; values_out = func( *values_in); fromkeysvalues(keys_out, values_out) *)
  Definition call_op (op : string) (xs : list (mv R)) : res (mv R) :=
    '(ko, f) <- opd op (map keys xs) ;;
    vs <- f (map vals xs) ;;
    Ok (combine ko vs).

  (* x.m()  ->  self.algebra.<op>(self) *)
  Definition mv_meth1 (m : string) (v : val) : res val :=
    match v with
    | VNum _ => Err EAttr                                   (* a Python number has no such member *)
    | VMv x =>
        match mlookup m mvtab with
        | Some (op, _, 1%nat) => r <- call_op op [x] ;; Ok (VMv r)
        | Some _ => Err EType                               (* wrong number of arguments *)
        | None => Err EAttr
        end
    end.
  (* x.m(y)  ->  self.algebra.<op>(self, other) or (other, self); _call_binary wraps a number as a scalar *)
  Definition mv_meth2 (m : string) (v1 v2 : val) : res val :=
    match v1 with
    | VNum _ => Err EAttr
    | VMv x =>
        match mlookup m mvtab with
        | Some (op, sw, 2%nat) =>
            r <- (if sw then call_op op [as_mv v2; x] else call_op op [x; as_mv v2]) ;; Ok (VMv r)
        | Some _ => Err EType
        | None => Err EAttr
        end
    end.
  Definition mv_prefix (u : prefix) (v : val) : res val :=
    match v with
    | VNum c => match u with PNeg => Ok (VNum (o_neg O c)) | PInvert => Err ENotImpl end
    | VMv _ => mv_meth1 (pdunder u) v
    end.
  (* l o r: type(l).__o__(l, r); a number on the left returns NotImplemented, then type(r).__ro__(r, l) *)
  Definition mv_infix (o : infix) (v1 v2 : val) : res val :=
    match v1, v2 with
    | VMv _, _ => mv_meth2 (dunder o) v1 v2
    | VNum _, VMv _ => mv_meth2 (rdunder o) v2 v1
    | VNum a, VNum b =>
        match o with
        | IAdd => Ok (VNum (o_add O a b)) | ISub => Ok (VNum (o_sub O a b)) | IMul => Ok (VNum (o_mul O a b))
        | _ => Err ENotImpl
        end
    end.
  (* for i in range(1, power): res = res.gp(x) *)
  Fixpoint pow_loop {V} (n : nat) (step : V -> res V) (acc : V) : res V :=
    match n with 0%nat => Ok acc | S k => r <- step acc ;; pow_loop k step r end.
  (* MultiVector.__pow__ for an int power *)
  Definition mv_pow (v : val) (n : Z) : res val :=
    match v with
    | VNum _ => Err ENotImpl
    | VMv _ =>
        if n =? 0 then Ok (VMv [(0, o_one O)])                       (* self.algebra.scalar((1,)) *)
        else
          x <- (if n <? 0 then mv_meth1 "inv" v else Ok v) ;;        (* res = x = self.inv() / self *)
          pow_loop (Z.to_nat (Z.abs n - 1)) (fun r => mv_meth2 "gp" r x) x
    end.
  (* MultiVector.grade *)
  Definition mv_grade (v : val) (gs : list nat) : res val :=
    match v with
    | VNum _ => Err EAttr
    | VMv x => r <- grade_sel O A gs x ;; Ok (VMv r)
    end.
  (* MultiVector.__getattr__ on 'e' + hex digits *)
  Definition mv_getattr (v : val) (nm : name) : res val :=
    match v with
    | VNum _ => Err EAttr
    | VMv x =>
        let '(c, swaps) := blade2canon A nm in
        match c with
        | None => Ok (VNum (o_zero O))                               (* basis_blade not in canon2bin: return 0 *)
        | Some cn =>
            match canon2bin A cn with
            | None => Ok (VNum (o_zero O))
            | Some b =>
                match zindex b (keys x) with
                | None => Ok (VNum (o_zero O))                       (* except ValueError: return 0 *)
                | Some idx =>
                    match nth_error (vals x) idx with
                    | Some c0 => Ok (VNum (if Z.even swaps then c0 else o_neg O c0))
                    | None => Err EIndex
                    end
                end
            end
        end
    end.
  (* kind selection of MultiVector.dual / undual and of TapeRecorder.dual / undual (the same text) *)
  Definition dual_member (un : bool) (k : dual_kind) : res string :=
    let pol := (if un then "unpolarity" else "polarity")%string in
    let hod := (if un then "unhodge" else "hodge")%string in
    match k with
    | KPolarity => Ok pol
    | KHodge => Ok hod
    | KAuto => if Nat.eqb (alg_r A) 0 then Ok pol else if Nat.eqb (alg_r A) 1 then Ok hod else Err EOther
    | KUnknown => Err EValue
    end.
  Definition mv_dual (un : bool) (v : val) (k : dual_kind) : res val :=
    match v with
    | VNum _ => Err EAttr
    | VMv _ => m <- dual_member un k ;; mv_meth1 m v
    end.
  (* normsq = self.normsq(); return normsq.sqrt() *)
  Definition mv_norm (v : val) : res val := n <- mv_meth1 "normsq" v ;; mv_meth1 "sqrt" n.
  (* return self / self.norm() *)
  Definition mv_normalized (v : val) : res val :=
    match v with
    | VNum _ => Err EAttr
    | VMv _ => n <- mv_norm v ;; mv_infix IDiv v n
    end.

  (* ============================ the compiled path: TapeRecorder ============================ *)
  Inductive rval := RNum (c : R) | RRec (ks : list Z) (t : tape R).

  (* unary_operator: keys_out, func = getattr(self.algebra, operator)[self.keys()] *)
  Definition rec_unary (op : string) (ks : list Z) (t : tape R) : res rval :=
    '(ko, _) <- opd op [ks] ;; Ok (RRec ko (TOp op [ks] [t])).
  (* binary_operator: a non-recorder `other` is assumed scalar: [self.keys(), (0,)], '(other,)' *)
  Definition rec_binary (op : string) (ks : list Z) (t : tape R) (other : rval) : res rval :=
    match other with
    | RRec ks2 t2 => '(ko, _) <- opd op [ks; ks2] ;; Ok (RRec ko (TOp op [ks; ks2] [t; t2]))
    | RNum c => '(ko, _) <- opd op [ks; [0]] ;; Ok (RRec ko (TOp op [ks; [0]] [t; TNum c]))
    end.
  Definition rec_meth1 (m : string) (r : rval) : res rval :=
    match r with
    | RNum _ => Err EAttr
    | RRec ks t =>
        match mlookup m tapetab with
        | Some (op, _, 1%nat) => rec_unary op ks t
        | Some _ => Err EType
        | None => Err EAttr                     (* __getattr__: the name is not 'e' + hex digits *)
        end
    end.
  (* members bound by partialmethod(binary_operator, operator=..) *)
  Definition rec_meth2tab (m : string) (r1 r2 : rval) : res rval :=
    match r1 with
    | RNum _ => Err EAttr
    | RRec ks t =>
        match mlookup m tapetab with
        | Some (op, _, 2%nat) => rec_binary op ks t r2
        | Some _ => Err EType
        | None => Err EAttr
        end
    end.
  (* the reflected members written out as methods:
       def __rsub__(self, other): return other + (-self)
       def __rmul__(self, other): return other.gp(self) if isinstance(other, self.__class__) else self.gp(other)
       def __rxor__(self, other): return other.op(self) if isinstance(other, self.__class__) else self.op(other) *)
  Definition rec_special (m : string) (self other : rval) : res rval :=
    if String.eqb m "__rsub__" then
      n <- rec_meth1 "__neg__" self ;;
      match other with
      | RRec _ _ => rec_meth2tab "__add__" other n           (* other + n: type(other).__add__ *)
      | RNum _ => rec_meth2tab "__radd__" n other            (* a number on the left: n.__radd__(other) *)
      end
    else if String.eqb m "__rmul__" then
      match other with RRec _ _ => rec_meth2tab "gp" other self | RNum _ => rec_meth2tab "gp" self other end
    else if String.eqb m "__rxor__" then
      match other with RRec _ _ => rec_meth2tab "op" other self | RNum _ => rec_meth2tab "op" self other end
    else Err EAttr.                         (* __getattr__: the name is not 'e' + hex digits *)
  Definition rec_meth2 (m : string) (r1 r2 : rval) : res rval :=
    match r1 with
    | RNum _ => Err EAttr
    | RRec _ _ =>
        match mlookup m tapetab with
        | Some _ => rec_meth2tab m r1 r2
        | None => rec_special m r1 r2
        end
    end.
  Definition rec_prefix (u : prefix) (r : rval) : res rval :=
    match r with
    | RNum c => match u with PNeg => Ok (RNum (o_neg O c)) | PInvert => Err ENotImpl end
    | RRec _ _ => rec_meth1 (pdunder u) r
    end.
  (* l o r: a recorder on the left answers with __o__; a number on the left returns NotImplemented and the
     recorder's reflected member __ro__ is tried (TypeError when it has none) *)
  Definition rec_infix (o : infix) (r1 r2 : rval) : res rval :=
    match r1, r2 with
    | RRec _ _, _ => rec_meth2 (dunder o) r1 r2
    | RNum c, RRec _ _ => rec_meth2 (rdunder o) r2 r1
    | RNum a, RNum b =>
        match o with
        | IAdd => Ok (RNum (o_add O a b)) | ISub => Ok (RNum (o_sub O a b)) | IMul => Ok (RNum (o_mul O a b))
        | _ => Err ENotImpl
        end
    end.
  (* TapeRecorder.__pow__ *)
  Definition rec_pow (r : rval) (n : Z) : res rval :=
    match r with
    | RNum _ => Err ENotImpl
    | RRec _ _ =>
        if n =? 0 then Ok (RRec [0] TOne)                             (* expr='(1,)', keys=(0,) *)
        else
          x <- (if n <? 0 then rec_meth1 "inv" r else Ok r) ;;
          pow_loop (Z.to_nat (Z.abs n - 1)) (fun acc => rec_meth2 "gp" acc x) x
    end.
  (* [(idx, k) for idx, k in enumerate(self.keys()) if k in basis_blades] *)
  Fixpoint enum_from {X} (i : nat) (l : list X) : list (nat * X) :=
    match l with [] => [] | x :: r => (i, x) :: enum_from (S i) r end.
  Definition rec_grade (r : rval) (gs : list nat) : res rval :=
    match r with
    | RNum _ => Err EAttr
    | RRec ks t =>
        bb <- indices_for_grades A gs ;;
        let ik := filter (fun p => zin (snd p) bb) (enum_from 0 ks) in
        Ok (RRec (map snd ik) (TSel t (map fst ik)))
    end.
  (* TapeRecorder.__getattr__ on 'e' + hex digits *)
  Definition rec_getattr (r : rval) (nm : name) : res rval :=
    match r with
    | RNum _ => Err EAttr
    | RRec ks t =>
        let '(c, swaps) := blade2canon A nm in
        match c with
        | None => Ok (RRec [0] TZero)
        | Some cn =>
            match canon2bin A cn with
            | None => Ok (RRec [0] TZero)
            | Some b =>
                match zindex b ks with
                | None => Ok (RRec [0] TZero)
                | Some idx => Ok (RRec [0] (TIdx (Z.odd swaps) t idx))      (* sign = '-' if swaps % 2 else '' *)
                end
            end
        end
    end.
  Definition rec_dual (un : bool) (r : rval) (k : dual_kind) : res rval :=
    match r with
    | RNum _ => Err EAttr
    | RRec _ _ => m <- dual_member un k ;; rec_meth1 m r
    end.
  Definition rec_norm (r : rval) : res rval := n <- rec_meth1 "normsq" r ;; rec_meth1 "sqrt" n.
  Definition rec_normalized (r : rval) : res rval :=
    match r with
    | RNum _ => Err EAttr
    | RRec _ _ => n <- rec_norm r ;; rec_infix IDiv r n
    end.

  Definition is_rec (r : rval) : bool := match r with RRec _ _ => true | RNum _ => false end.
  (* Registry.__call__ while recording: TapeRecorder(expr='(number,)', keys=(0,)) for an input that is not a recorder *)
  Definition as_rec (r : rval) : list Z * tape R :=
    match r with RRec ks t => (ks, t) | RNum c => ([0], TNum c) end.

  (* f( *tapes): the recorder run.  [kenv] = the keys of the parameters.  A call of another registered
     function with at least one recorder argument (Registry.__call__, first branch): a plain number is
     wrapped as a scalar recorder, keys_out, func = self[keys_in] compiles g_k for the keys of the argument
     recorders and the call expression names that function.  A call with plain numbers only goes down the
     numeric branch and yields a MultiVector inside the recording: not modelled (EOther). *)
  Fixpoint record (fuel : nat) (kenv : list (list Z)) (e : expr R) {struct fuel} : res rval :=
    match fuel with
    | 0%nat => Err EFuel
    | S fu =>
        let rc := record fu kenv in
        match e with
        | EArg i => ks <- of_opt EIndex (nth_error kenv i) ;; Ok (RRec ks (TArg i))
        | ENum c => Ok (RNum c)
        | EMeth1 m e1 => r <- rc e1 ;; rec_meth1 m r
        | EMeth2 m e1 e2 => r1 <- rc e1 ;; r2 <- rc e2 ;; rec_meth2 m r1 r2
        | EPrefix u e1 => r <- rc e1 ;; rec_prefix u r
        | EInfix o e1 e2 => r1 <- rc e1 ;; r2 <- rc e2 ;; rec_infix o r1 r2
        | EPow e1 n => r <- rc e1 ;; rec_pow r n
        | EGrade e1 gs => r <- rc e1 ;; rec_grade r gs
        | ECoeff e1 nm => r <- rc e1 ;; rec_getattr r nm
        | EDual e1 k => r <- rc e1 ;; rec_dual false r k
        | EUndual e1 k => r <- rc e1 ;; rec_dual true r k
        | ENorm e1 => r <- rc e1 ;; rec_norm r
        | ENormalized e1 => r <- rc e1 ;; rec_normalized r
        | ECall k args =>
            rs <- mapM rc args ;;
            if negb (existsb is_rec rs) then Err EOther else
            let kts := map as_rec rs in
                let kin := map fst kts in
                body <- of_opt EIndex (nth_error bodies k) ;;
                rb <- record fu kin body ;;                      (* do_compile(self.codegen, *tapes) *)
                match rb with
                | RRec ko tb => Ok (RRec ko (TCall k kin tb (map snd kts)))
                | RNum _ => Err EAttr                            (* res.expr on a plain number *)
                end
        end
    end.

  (* evaluation of the compiled expression; [env] = the value lists bound to the parameters *)
  Fixpoint run_tape (env : list (list R)) (t : tape R) {struct t} : res (list R) :=
    let fix run_list (l : list (tape R)) : res (list (list R)) :=
      match l with
      | [] => Ok []
      | t0 :: r => v <- run_tape env t0 ;; vs <- run_list r ;; Ok (v :: vs)
      end in
    match t with
    | TArg i => of_opt EIndex (nth_error env i)
    | TZero => Ok [o_zero O]
    | TOne => Ok [o_one O]
    | TNum c => Ok [c]
    | TIdx neg t0 idx =>
        vs <- run_tape env t0 ;;
        v <- of_opt EIndex (nth_error vs idx) ;;
        Ok [if neg then o_neg O v else v]
    | TSel t0 idxs =>
        vs <- run_tape env t0 ;;
        mapM (fun i => of_opt EIndex (nth_error vs i)) idxs
    | TOp op kin ts =>
        '(_, f) <- opd op kin ;;
        args <- run_list ts ;;
        f args
    | TCall _ _ body ts =>
        args <- run_list ts ;;
        run_tape args body
    end.

  (* Registry.__getitem__ + do_compile: (keys_out, compiled expression) for the key tuples kin *)
  Definition compile (fuel : nat) (k : nat) (kin : list (list Z)) : res (list Z * tape R) :=
    body <- of_opt EIndex (nth_error bodies k) ;;
    rb <- record fuel kin body ;;
    match rb with
    | RRec ko tb => Ok (ko, tb)
    | RNum _ => Err EAttr
    end.
  (* Registry.__call__ on multivectors (numbers were wrapped as scalars by the caller) *)
  Definition registered (fuel : nat) (k : nat) (xs : list (mv R)) : res (mv R) :=
    '(ko, tb) <- compile fuel k (map keys xs) ;;
    vs <- run_tape (map vals xs) tb ;;
    Ok (combine ko vs).

  (* f( *args): the plain Python function on MultiVectors; a call of a registered function g_k goes through
     Registry.__call__, i.e. it is itself a compiled call *)
  Fixpoint direct (fuel : nat) (env : list (mv R)) (e : expr R) {struct fuel} : res val :=
    match fuel with
    | 0%nat => Err EFuel
    | S fu =>
        let dr := direct fu env in
        match e with
        | EArg i => x <- of_opt EIndex (nth_error env i) ;; Ok (VMv x)
        | ENum c => Ok (VNum c)
        | EMeth1 m e1 => v <- dr e1 ;; mv_meth1 m v
        | EMeth2 m e1 e2 => v1 <- dr e1 ;; v2 <- dr e2 ;; mv_meth2 m v1 v2
        | EPrefix u e1 => v <- dr e1 ;; mv_prefix u v
        | EInfix o e1 e2 => v1 <- dr e1 ;; v2 <- dr e2 ;; mv_infix o v1 v2
        | EPow e1 n => v <- dr e1 ;; mv_pow v n
        | EGrade e1 gs => v <- dr e1 ;; mv_grade v gs
        | ECoeff e1 nm => v <- dr e1 ;; mv_getattr v nm
        | EDual e1 k => v <- dr e1 ;; mv_dual false v k
        | EUndual e1 k => v <- dr e1 ;; mv_dual true v k
        | ENorm e1 => v <- dr e1 ;; mv_norm v
        | ENormalized e1 => v <- dr e1 ;; mv_normalized v
        | ECall k args =>
            vs <- mapM dr args ;;
            m <- registered fu k (map as_mv vs) ;;
            Ok (VMv m)
        end
    end.

  (* the two sides of C11 for the registered function g_k *)
  Definition plain_call (fuel : nat) (k : nat) (xs : list (mv R)) : res val :=
    body <- of_opt EIndex (nth_error bodies k) ;; direct fuel xs body.
End Tape.
Arguments VNum {R}. Arguments VMv {R}. Arguments RNum {R}. Arguments RRec {R}.

(* ---------------------------------------------------------------- the table of generated functions *)
(* keys_out of an operator: the stored keys of the generator run on symbolic operands depend on the
   operand KEYS only; they are computed over the one-point coefficient structure *)
Definition Uops : ops unit := mkOps unit (fun _ _ => tt) (fun _ _ => tt) (fun _ _ => tt) (fun _ => tt) tt tt.
Definition ksym (ks : list Z) : mv unit := map (fun k => (k, tt)) ks.

Definition op2 := forall T : Type, ops T -> alg -> mv T -> mv T -> mv T.
Definition op1 := forall T : Type, ops T -> alg -> mv T -> mv T.
Definition poly2_table : list (string * op2) :=
  [("gp", @gp); ("op", @op); ("ip", @ip); ("lc", @lc); ("rc", @rc); ("sp", @sp); ("cp", @cp); ("acp", @acp);
   ("rp", @rp); ("add", @add); ("sub", @sub); ("sw", @sw); ("proj", @proj)]%string.
Definition poly1_table : list (string * op1) :=
  [("neg", @neg); ("reverse", @reverse); ("involute", @involute); ("conjugate", @conjugate);
   ("hodge", @hodge); ("unhodge", @unhodge); ("unpolarity", @unpolarity); ("normsq", @normsq)]%string.
Fixpoint sassoc {V} (k : string) (l : list (string * V)) : option V :=
  match l with [] => None | (k', v) :: r => if String.eqb k' k then Some v else sassoc k r end.

Section Std.
  Context {R : Type} (O : ops R).
  Variable A : alg.
  Variable ext : optable R.          (* inv, div, sqrt, outerexp, ...: not modelled here (C07, C19) *)

  (* the generated function for a polynomial operator and operand keys kx, ky: unpack the value lists
     ([a0, a1, ..] = A raises ValueError on a length mismatch), evaluate, return the values in keys_out order.
     Composite operators (sw, proj, normsq): kingdon drops the blades whose coefficient polynomial is
     identically zero from keys_out (C06); this table keeps them (with value 0). *)
  Definition gen2 (f : op2) (kx ky : list Z) : list Z * gfun R :=
    (keys (f unit Uops A (ksym kx) (ksym ky)),
     fun vs => match vs with
               | [vx; vy] => if Nat.eqb (length vx) (length kx) && Nat.eqb (length vy) (length ky)
                             then Ok (vals (f R O A (combine kx vx) (combine ky vy))) else Err EValue
               | _ => Err EType
               end).
  Definition gen1 (f : op1) (kx : list Z) : list Z * gfun R :=
    (keys (f unit Uops A (ksym kx)),
     fun vs => match vs with
               | [vx] => if Nat.eqb (length vx) (length kx) then Ok (vals (f R O A (combine kx vx))) else Err EValue
               | _ => Err EType
               end).
  Definition gen_polarity (kx : list Z) : res (list Z * gfun R) :=
    ku <- polarity Uops A (ksym kx) ;;
    Ok (keys ku,
        fun vs => match vs with
                  | [vx] => if Nat.eqb (length vx) (length kx)
                            then r <- polarity O A (combine kx vx) ;; Ok (vals r) else Err EValue
                  | _ => Err EType
                  end).

  Definition std_opd : optable R := fun op kin =>
    match kin with
    | [kx; ky] => match sassoc op poly2_table with Some f => Ok (gen2 f kx ky) | None => ext op kin end
    | [kx] =>
        if String.eqb op "polarity" then gen_polarity kx
        else match sassoc op poly1_table with Some f => Ok (gen1 f kx) | None => ext op kin end
    | _ => ext op kin
    end.
End Std.

(* no inverse / division / square root: every such call raises *)
Definition no_ext {R} : optable R := fun _ _ => Err ENotImpl.

(* ---------------------------------------------------------------- observation (integer coefficients) *)
Definition val_mv (v : @val Z) : mv Z := as_mv v.
(* alg.register(f)( *xs) for f = bodies[k], integer coefficients, the generated tables of Gen/Dunder.v passed in *)
Definition registered_Z (A : alg) (mvtab tapetab : mtable) (bodies : list (expr Z)) (fuel k : nat) (xs : list (mv Z))
  : res (mv Z) := registered Zops A (std_opd Zops A no_ext) tapetab bodies fuel k xs.
Definition plain_Z (A : alg) (mvtab tapetab : mtable) (bodies : list (expr Z)) (fuel k : nat) (xs : list (mv Z))
  : res (mv Z) :=
  v <- plain_call Zops A (std_opd Zops A no_ext) mvtab tapetab bodies fuel k xs ;; Ok (as_mv v).
(* the keys the recorder tracks for the result *)
Definition recorded_keys_Z (A : alg) (tapetab : mtable) (bodies : list (expr Z)) (fuel k : nat) (kin : list (list Z))
  : res (list Z) :=
  '(ko, _) <- compile Zops A (std_opd Zops A no_ext) tapetab bodies fuel k kin ;; Ok ko.
