(* Model/Poly.v — executable model of kingdon/polynomial.py (classes Polynomial and
   RationalPolynomial, function compare) and of the multiplication schedule of
   codegen.power_supply.  No proofs here (see Theory/Poly.v).

   Representation.  A Python monomial [coeff, 'v1', 'v2', ...] is a pair (coeff, [r1; r2; ...]):
   integer coefficient (Python ints are unbounded: Z) and the variable names abstracted to their
   rank (nat) in Python's string order, in the order in which they are stored.  Only integer
   coefficients are modelled (float coefficients, created by `/ number`, are out of scope).
   Polynomial.args is a list of monomials; a RationalPolynomial is a pair of such lists.

   Loops.  `res.append(x)` loops are modelled as `x :: <rest of the loop>`; index pairs (ai, bi) /
   (i, j) / (p1, p2) are modelled by the not yet consumed suffixes, so every `while` loop is a
   structural (nested) fixpoint and no fuel is needed.  The branch of `compare` / of the element tests
   taken when one side is exhausted (`None`) is written in the comments. *)
From KV Require Export Model.Util.
Local Open Scope Z_scope.

Definition mono := (Z * list nat)%type.
Definition poly := list mono.
Record rpoly := mkR { rnum : poly; rden : poly }.

(* structural equality = Python list equality of .args *)
Definition mono_eqb (a b : mono) : bool := pair_eqb Z.eqb (list_eqb Nat.eqb) a b.
Definition poly_eqb (p q : poly) : bool := list_eqb mono_eqb p q.
Definition rpoly_eqb (a b : rpoly) : bool := poly_eqb (rnum a) (rnum b) && poly_eqb (rden a) (rden b).

(* ------------------------------------------------------------------ compare *)
(* for i in range(1, l): if a[i] < b[i]: return -1 / elif a[i] > b[i]: return 1     (l = min(la, lb));
   falls through to `return la - lb` (passed as [dflt]) when one of the two is exhausted *)
Fixpoint cmp_loop (va vb : list nat) (dflt : Z) : Z :=
  match va, vb with
  | x :: ra, y :: rb =>
      if (x <? y)%nat then -1 else if (y <? x)%nat then 1 else cmp_loop ra rb dflt
  | _, _ => dflt
  end.

Definition pcompare (a b : option mono) : Z :=
  match a, b with
  | None, _ => 1                              (* if a is None: return 1 *)
  | Some _, None => -1                        (* if b is None: return -1 *)
  | Some (_, va), Some (_, vb) =>
      let la := 1 + Z.of_nat (length va) in   (* len(a): coefficient + variables *)
      let lb := 1 + Z.of_nat (length vb) in
      cmp_loop va vb (la - lb)
  end.

(* ------------------------------------------------------------------ Polynomial *)
Definition P_of_Z (c : Z) : poly := [(c, [])].              (* Polynomial(c), c an int *)
Definition P_of_var (v : nat) : poly := [(1, [v])].         (* Polynomial.fromname(name) *)

(* `not self.args or self.args == [[0]]` *)
Definition is_zero_args (p : poly) : bool :=
  match p with [] => true | _ => poly_eqb p [(0, [])] end.

(* Polynomial.__eq__(self, other) with an int other: the third line returns False (classes differ) *)
Definition peq_Z (p : poly) (c : Z) : bool :=
  if (c =? 0) && is_zero_args p then true
  else if (c =? 1) && poly_eqb p [(1, [])] then true
  else false.

(* Polynomial.__eq__(self, other) with a Polynomial other; `other == 0` / `other == 1` are
   other.__eq__(0) / other.__eq__(1) *)
Definition peq (p q : poly) : bool :=
  if peq_Z q 0 && is_zero_args p then true
  else if peq_Z q 1 && poly_eqb p [(1, [])] then true
  else poly_eqb p q.

(* __bool__ *)
Definition pbool (p : poly) : bool :=
  match p with
  | [m] => negb (fst m =? 0)          (* len(self.args) == 1: bool(self.args[0][0]) *)
  | [] => false                       (* bool(self.args) *)
  | _ => true
  end.

(* the while loop of __add__ *)
Fixpoint padd_loop (a : poly) : poly -> poly :=
  fix inner (b : poly) : poly :=
    match a with
    | [] =>
        match b with
        | [] => []                                   (* ai == al and bi == bl *)
        | eb :: b' => eb :: inner b'                 (* ea is None: compare = 1 > 0 *)
        end
    | ea :: a' =>
        match b with
        | [] => ea :: padd_loop a' []                (* eb is None: compare = -1 < 0 *)
        | eb :: b' =>
            let diff := pcompare (Some ea) (Some eb) in
            if diff <? 0 then ea :: padd_loop a' b
            else if 0 <? diff then eb :: inner b'
            else
              let c := fst ea + fst eb in            (* ea = ea.copy(); ea[0] += eb[0] *)
              if negb (c =? 0) then (c, snd ea) :: padd_loop a' b'
              else padd_loop a' b'
        end
    end.

(* __add__ with a Polynomial other *)
Definition padd (p q : poly) : poly :=
  if peq_Z q 0 then p                 (* if other == 0: return self *)
  else if peq_Z p 0 then q            (* if self == 0: return other *)
  else padd_loop p q.

(* __add__ (and __radd__) with an int other *)
Definition padd_Z (p : poly) (c : Z) : poly :=
  if c =? 0 then p                    (* if other == 0: return self *)
  else
    let other := P_of_Z c in          (* other = self.__class__(other) *)
    if peq_Z p 0 then other           (* if self == 0: return other *)
    else padd_loop p other.

(* the inner while loop of __mul__ on the variables of the two monomials: take ea when eb is None or
   ea < eb, otherwise (also when ea == eb, and when ea is None) take eb *)
Fixpoint vmerge (a : list nat) : list nat -> list nat :=
  fix inner (b : list nat) : list nat :=
    match a with
    | [] =>
        match b with
        | [] => []
        | y :: b' => y :: inner b'
        end
    | x :: a' =>
        match b with
        | [] => x :: vmerge a' []
        | y :: b' => if (x <? y)%nat then x :: vmerge a' b else y :: inner b'
        end
    end.

Definition mono_mul (A B : mono) : mono := (fst A * fst B, vmerge (snd A) (snd B)).

(* for ai, bi in itertools.product(range(al), range(bl)): ... res = res + Polynomial([C]) *)
Definition pmul_loop (p q : poly) : poly :=
  fold_left (fun res AB => padd res [mono_mul (fst AB) (snd AB)]) (list_prod p q) [].

Definition pmul (p q : poly) : poly :=
  if peq_Z p 0 || peq_Z q 0 then []   (* if self == 0 or other == 0: return Polynomial([]) *)
  else pmul_loop p q.

(* __mul__ (and __rmul__) with an int other *)
Definition pmul_Z (p : poly) (c : Z) : poly :=
  if peq_Z p 0 || (c =? 0) then []
  else pmul_loop p (P_of_Z c).

Definition pneg (p : poly) : poly := map (fun m : mono => (- fst m, snd m)) p.
Definition psub (p q : poly) : poly := padd p (pneg q).     (* self + (-other) *)

(* ------------------------------------------------------------------ RationalPolynomial *)
Definition R_of_poly (p : poly) : rpoly := mkR p [(1, [])]. (* RationalPolynomial(numer_args) *)
Definition R_of_Z (c : Z) : rpoly := R_of_poly [(c, [])].
Definition R_of_var (v : nat) : rpoly := R_of_poly [(1, [v])].

(* RationalPolynomial.__eq__ with an int other *)
Definition req_Z (a : rpoly) (c : Z) : bool :=
  if (c =? 0) && peq_Z (rnum a) 0 then true
  else if (c =? 1) && (peq_Z (rnum a) 1 && peq_Z (rden a) 1) then true
  else false.

(* RationalPolynomial.__eq__ with a RationalPolynomial other *)
Definition req (a b : rpoly) : bool :=
  if req_Z b 0 && peq_Z (rnum a) 0 then true
  else if req_Z b 1 && (peq_Z (rnum a) 1 && peq_Z (rden a) 1) then true
  else peq (rnum a) (rnum b) && peq (rden a) (rden b).

Definition rbool (a : rpoly) : bool := pbool (rnum a).

Definition radd (a b : rpoly) : rpoly :=
  if req_Z b 0 then a else
  if req_Z a 0 then b else
  let na := rnum a in let da := rden a in
  let nb := rnum b in let db := rden b in
  let nn_nd :=
    if (length da =? length db)%nat && peq da db then (padd na nb, da)
    else (padd (pmul na db) (pmul nb da), pmul da db) in
  let nn := fst nn_nd in let nd := snd nn_nd in
  if peq_Z nn 0 then R_of_poly [] else
  if (length nn =? length nd)%nat && peq nn nd then R_of_poly [(1, [])] else
  mkR nn nd.

(* the common-factor removal loop of __mul__: returns (variables of nnn, variables of nnd) *)
Fixpoint cancel (fl1 : list nat) : list nat -> list nat * list nat :=
  fix inner (fl2 : list nat) : list nat * list nat :=
    match fl1 with
    | [] =>
        match fl2 with
        | [] => ([], [])
        | f2 :: r2 => let nd := inner r2 in (fst nd, f2 :: snd nd)     (* f1 is None *)
        end
    | f1 :: r1 =>
        match fl2 with
        | [] => let nd := cancel r1 [] in (f1 :: fst nd, snd nd)        (* f2 is None *)
        | f2 :: r2 =>
            if (f1 =? f2)%nat then cancel r1 r2
            else if (f1 <? f2)%nat then let nd := cancel r1 fl2 in (f1 :: fst nd, snd nd)
            else let nd := inner r2 in (fst nd, f2 :: snd nd)
        end
    end.

Definition rmul (a b : rpoly) : rpoly :=
  if req_Z a 0 then a else
  if req_Z b 0 then b else
  if req_Z b 1 then a else
  if req_Z a 1 then b else
  let numer := pmul (rnum a) (rnum b) in
  let denom := pmul (rden a) (rden b) in
  if peq_Z numer 0 then R_of_poly [(0, [])] else
  if (length numer =? length denom)%nat && peq numer denom then R_of_poly [(1, [])] else
  match numer, denom with
  | [fl1], [fl2] =>
      let nd := cancel (snd fl1) (snd fl2) in
      mkR [(fst fl1, fst nd)] [(fst fl2, snd nd)]
  | _, _ => mkR numer denom
  end.

(* __add__/__radd__ and __mul__/__rmul__ with an int other: other = RationalPolynomial([[other]]) *)
Definition radd_Z (a : rpoly) (c : Z) : rpoly := radd a (R_of_Z c).
Definition rmul_Z (a : rpoly) (c : Z) : rpoly := rmul a (R_of_Z c).

(* inv: the int 0 returned for a zero operand is modelled as None *)
Definition rinv (a : rpoly) : option rpoly :=
  if req_Z a 0 then None else Some (mkR (rden a) (rnum a)).

(* __truediv__ by a RationalPolynomial: self * other.inv() (self * 0 when other is zero) *)
Definition rdiv (a b : rpoly) : rpoly :=
  match rinv b with
  | Some ib => rmul a ib
  | None => rmul_Z a 0
  end.

(* __rtruediv__: RationalPolynomial(other * self.denom, self.numer); int * Polynomial is
   Polynomial.__rmul__ = __mul__ *)
Definition rrdiv_Z (c : Z) (a : rpoly) : rpoly := mkR (pmul_Z (rden a) c) (rnum a).

Definition rneg (a : rpoly) : rpoly := mkR (pneg (rnum a)) (rden a).
Definition rsub (a b : rpoly) : rpoly := radd a (rneg b).          (* self + (-other) *)
Definition rsub_Z (a : rpoly) (c : Z) : rpoly := radd_Z a (- c).
Definition rrsub_Z (c : Z) (a : rpoly) : rpoly := radd_Z (rneg a) c. (* other + (-self) = (-self).__radd__(other) *)

(* ------------------------------------------------------------------ __pow__ / power_supply *)
(* The search for a minimal addition chain (AdditionChains) is not modelled: the multiplication
   schedule is data.  [powers] is the dict {1: x, ...}; the step (i, j) is
   powers[i + j] = operation(powers[i], powers[j])   with i = chain[-2], j = step - chain[-2]. *)
Fixpoint nassoc {V} (k : nat) (d : list (nat * V)) : option V :=
  match d with
  | [] => None
  | (k', v) :: r => if Nat.eqb k' k then Some v else nassoc k r
  end.

Fixpoint pow_chain_loop {V} (mul : V -> V -> V) (powers : list (nat * V)) (last : V)
         (steps : list (nat * nat)) : option V :=
  match steps with
  | [] => Some last
  | (i, j) :: rest =>
      match nassoc i powers, nassoc j powers with
      | Some xi, Some xj =>
          let y := mul xi xj in
          pow_chain_loop mul (powers ++ [((i + j)%nat, y)]) y rest
      | _, _ => None
      end
  end.

Definition ppow_chain (x : poly) (steps : list (nat * nat)) : option poly :=
  pow_chain_loop pmul [(1%nat, x)] x steps.
Definition rpow_chain (x : rpoly) (steps : list (nat * nat)) : option rpoly :=
  pow_chain_loop rmul [(1%nat, x)] x steps.
