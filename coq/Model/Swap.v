(* Model/Swap.v — kingdon.algebra._swap_blades, statement by statement.
   Blade names are lists of hex-digit values ('e31' |-> [3;1]).  No proofs. *)
From KV Require Export Model.Util.

Definition name := list nat.

Fixpoint index (c : nat) (l : name) : option nat :=          (* list.index *)
  match l with
  | [] => None
  | x :: r => if Nat.eqb x c then Some 0 else option_map S (index c r)
  end.

Fixpoint remove1 (c : nat) (l : name) : name :=              (* list.remove *)
  match l with
  | [] => []
  | x :: r => if Nat.eqb x c then r else x :: remove1 c r
  end.

Definition insert_at (i : nat) (c : nat) (l : name) := firstn i l ++ c :: skipn i l.   (* list.insert *)

Definition st := (name * Z * name)%type.          (* blade1, swaps, eliminated *)

(* body of   for char in blade2:   *)
Definition phase1_step (s : st) (c : nat) : st :=
  let '(b1, swaps, elim) := s in
  match index c b1 with
  | None => (b1 ++ [c], swaps, elim)
  | Some idx => (remove1 c b1,
                 (swaps + (Z.of_nat (length b1) - Z.of_nat idx - 1))%Z,
                 elim ++ [c])
  end.

Definition phase1 (b1 b2 : name) : st := fold_left phase1_step b2 (b1, 0%Z, []).

(* for i, char in enumerate(target): idx = blade1.index(char); blade1.insert(i, blade1.pop(idx)); swaps += idx - i *)
Fixpoint phase2 (i : nat) (target b1 : name) (sw : Z) : option (name * Z) :=
  match target with
  | [] => Some (b1, sw)
  | c :: t =>
      match index c b1 with
      | None => None                                  (* ValueError *)
      | Some idx => phase2 (S i) t (insert_at i c (remove1 c b1))
                           (sw + (Z.of_nat idx - Z.of_nat i))%Z
      end
  end.

(* returns (swaps, resulting blade, eliminated); None = ValueError *)
Definition swap_blades (b1 b2 target : name) : option (Z * name * name) :=
  let '(b, sw, el) := phase1 b1 b2 in
  match target with
  | [] => Some (sw, b, el)
  | _ => match phase2 0 target b sw with
         | Some (b', sw') => Some (sw', b', el)
         | None => None
         end
  end.
