(* Model/Cache.v — kingdon.operator_dict: OperatorDict / UnaryOperatorDict / Registry caches, the shared
   name-keyed namespace Algebra.numspace, and which generated function a call actually runs.
   A generated function is identified by the (operator, ORDERED key tuples) it was generated for:
   that determines its behaviour, so "the call ran the right function" is decidable in the model.
   Sequential big-step semantics (getitem / call) and a small-step semantics over threads whose
   atomic steps are single dict operations (membership test, setdefault, store, read).  No proofs. *)
From KV Require Export Model.Util.
From Coq Require Import NArith.
Local Open Scope nat_scope.

Definition okey := (nat * list (list Z))%type.          (* operator id, ordered keys_in *)
Inductive fn := Fn (k : okey).
(* generated name: operator, order-INSENSITIVE type numbers of the key tuples, number of '_' appended *)
Definition fname := (nat * list N * nat)%type.

Definition lz_eqb : list Z -> list Z -> bool := list_eqb Z.eqb.
Definition okey_eqb (a b : okey) : bool := Nat.eqb (fst a) (fst b) && list_eqb lz_eqb (snd a) (snd b).
Definition fn_eqb (f g : fn) : bool := match f, g with Fn a, Fn b => okey_eqb a b end.
Definition fname_eqb (a b : fname) : bool :=
  Nat.eqb (fst (fst a)) (fst (fst b)) && list_eqb N.eqb (snd (fst a)) (snd (fst b)) && Nat.eqb (snd a) (snd b).
Definition bump (n : fname) : fname := (fst n, S (snd n)).             (* func.__name__ += '_' *)

Fixpoint alookup {K V} (eqb : K -> K -> bool) (k : K) (l : list (K * V)) : option V :=
  match l with [] => None | (k', v) :: r => if eqb k' k then Some v else alookup eqb k r end.
Fixpoint aset {K V} (eqb : K -> K -> bool) (k : K) (v : V) (l : list (K * V)) : list (K * V) :=
  match l with
  | [] => [(k, v)]
  | (k', v') :: r => if eqb k' k then (k', v) :: r else (k', v') :: aset eqb k v r
  end.

(* a cache entry: the function object, its (final) name, and - for a compiled registered function -
   the callees its body calls BY NAME together with the function each name stood for at trace time *)
Record entry := mkEntry { e_fn : fn; e_name : fname; e_callees : list (fname * fn) }.

Record state := mkState {
  cache : list (okey * entry);        (* all operator_dict's: (operator, keys_in) -> entry *)
  numspace : list (fname * fn);       (* Algebra.numspace *)
  gens : list okey;                   (* log of code-generation events (do_codegen / do_compile) *)
}.
Definition init : state := mkState [] [] [].

Section Cache.
  Variable tn : list Z -> N.            (* MultiVector.type_number: depends on the SET of keys only *)
  Variable deps : okey -> list okey.    (* the operator lookups made while generating code for a key *)
  Variable byname : nat -> bool.        (* operator is a Registry: its compiled body calls callees by name *)

  Definition base_name (k : okey) : fname := (fst k, map tn (snd k), 0).

  (* while numspace.setdefault(name, wrapped) is not wrapped: name += '_' *)
  Fixpoint claim (fuel : nat) (ns : list (fname * fn)) (nm : fname) (f : fn) : fname * list (fname * fn) :=
    match alookup fname_eqb nm ns with
    | None => (nm, ns ++ [(nm, f)])
    | Some _ => match fuel with
                | O => (nm, ns)                        (* unreachable with fuel > length ns *)
                | S fu => claim fu ns (bump nm) f
                end
    end.

  (* OperatorDict.__getitem__ (sequential): membership test, code generation (which itself looks the
     dependencies up), _store.  None = out of fuel. *)
  Fixpoint getitem (fuel : nat) (st : state) (k : okey) : option (state * entry) :=
    match alookup okey_eqb k (cache st) with
    | Some e => Some (st, e)
    | None =>
      match fuel with
      | O => None
      | S fu =>
        let step := fun (acc : option (state * list (fname * fn))) d =>
          match acc with
          | None => None
          | Some (s, cs) => match getitem fu s d with
                            | Some (s', e) => Some (s', cs ++ [(e_name e, e_fn e)])
                            | None => None
                            end
          end in
        match fold_left step (deps k) (Some (st, [])) with
        | None => None
        | Some (s1, callees) =>
          let f := Fn k in
          let '(nm, ns') := claim (S (length (numspace s1))) (numspace s1) (base_name k) f in
          let e := mkEntry f nm (if byname (fst k) then callees else []) in
          Some (mkState (aset okey_eqb k e (cache s1)) ns' (gens s1 ++ [k]), e)
        end
      end
    end.

  (* how the function is invoked *)
  Inductive via := Direct | Wrapped.       (* func itself  /  numspace[func.__name__] *)

  (* what a call runs: the top-level function and, for by-name bodies, what each callee name resolves
     to at call time *)
  Definition runs (st : state) (v : via) (e : entry) : option fn * list (option fn) :=
    (match v with Direct => Some (e_fn e) | Wrapped => alookup fname_eqb (e_name e) (numspace st) end,
     map (fun c => alookup fname_eqb (fst c) (numspace st)) (e_callees e)).
  (* the call is right iff it runs the function generated for its own ordered keys and every callee
     name still denotes the function it denoted when the body was compiled *)
  Definition right (k : okey) (e : entry) (r : option fn * list (option fn)) : bool :=
    opt_eqb fn_eqb (fst r) (Some (Fn k))
    && list_eqb (opt_eqb fn_eqb) (snd r) (map (fun c => Some (snd c)) (e_callees e)).

  Definition call (fuel : nat) (st : state) (v : via) (k : okey) : option (state * bool) :=
    match getitem fuel st k with
    | Some (st', e) => Some (st', right k e (runs st' v e))
    | None => None
    end.

  (* a sequential history: every call must be right *)
  Fixpoint run_history (fuel : nat) (st : state) (h : list (via * okey)) : option (state * bool) :=
    match h with
    | [] => Some (st, true)
    | (v, k) :: r => match call fuel st v k with
                     | Some (st', ok) => match run_history fuel st' r with
                                         | Some (st'', ok') => Some (st'', ok && ok')
                                         | None => None
                                         end
                     | None => None
                     end
    end.

  (* ---------------- small-step semantics over threads ---------------- *)
  (* micro-operations of one thread; each is one atomic dict operation (or thread-local work) *)
  Inductive mop :=
  | MTest (k : okey)                       (* if keys_in not in operator_dict: ... *)
  | MGen (k : okey)                        (* do_codegen finished: read the callee entries, log the event *)
  | MClaim (k : okey) (nm : fname) (cs : list (fname * fn))   (* one numspace.setdefault attempt *)
  | MStore (k : okey) (e : entry)          (* operator_dict[keys_in] = (keys_out, func) *)
  | MRun (v : via) (k : okey).             (* return self.operator_dict[keys_in]; call it *)

  Record tstate := mkT { prog : list mop; verdicts : list bool }.

  (* the micro-program of  __getitem__(k)  when k was found absent *)
  Definition gen_prog (k : okey) : list mop := map MTest (deps k) ++ [MGen k].

  Definition tstep (st : state) (t : tstate) : state * tstate :=
    match prog t with
    | [] => (st, t)
    | MTest k :: rest =>
        match alookup okey_eqb k (cache st) with
        | Some _ => (st, mkT rest (verdicts t))
        | None => (st, mkT (gen_prog k ++ rest) (verdicts t))
        end
    | MGen k :: rest =>
        let cs := flat_map (fun d => match alookup okey_eqb d (cache st) with
                                     | Some e => [(e_name e, e_fn e)] | None => [] end) (deps k) in
        (mkState (cache st) (numspace st) (gens st ++ [k]),
         mkT (MClaim k (base_name k) (if byname (fst k) then cs else []) :: rest) (verdicts t))
    | MClaim k nm cs :: rest =>
        match alookup fname_eqb nm (numspace st) with
        | None => (mkState (cache st) (numspace st ++ [(nm, Fn k)]) (gens st),
                   mkT (MStore k (mkEntry (Fn k) nm cs) :: rest) (verdicts t))
        | Some _ => (st, mkT (MClaim k (bump nm) cs :: rest) (verdicts t))
        end
    | MStore k e :: rest =>
        (mkState (aset okey_eqb k e (cache st)) (numspace st) (gens st), mkT rest (verdicts t))
    | MRun v k :: rest =>
        match alookup okey_eqb k (cache st) with
        | Some e => (st, mkT rest (verdicts t ++ [right k e (runs st v e)]))
        | None => (st, mkT rest (verdicts t ++ [false]))      (* KeyError: cannot happen after MTest/MStore *)
        end
    end.

  (* a thread performing the calls h *)
  Definition thread_of (h : list (via * okey)) : tstate :=
    mkT (flat_map (fun vk => [MTest (snd vk); MRun (fst vk) (snd vk)]) h) [].

  Fixpoint nth_update {A} (n : nat) (f : A -> A) (l : list A) : list A :=
    match l, n with
    | [], _ => []
    | x :: r, O => f x :: r
    | x :: r, S m => x :: nth_update m f r
    end.

  (* a schedule = which thread performs its next micro-operation *)
  Fixpoint run_sched (st : state) (ts : list tstate) (sched : list nat) : state * list tstate :=
    match sched with
    | [] => (st, ts)
    | i :: r =>
        match nth_error ts i with
        | None => run_sched st ts r
        | Some t => let '(st', t') := tstep st t in run_sched st' (nth_update i (fun _ => t') ts) r
        end
    end.
End Cache.
