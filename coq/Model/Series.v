(* Model/Series.v — the series / root / power functions of kingdon:
     codegen.py     codegen_outerexp, codegen_outersin, codegen_outercos, codegen_outertan, codegen_sqrt
     multivector.py __pow__, norm, normalized, exp  (with __bool__ and filter, which they use)
   written statement by statement after the Python.  Executable definitions only, NO proofs
   (Theory/Series.v).

   Coefficients: the record [ops R] of Model/Codegen.v extended by what these functions need on top of
   the ring operations — division by a positive python int ([v / j] in codegen_outerexp, [0.5 * v]),
   [v ** 0.5] and [1 / v] (the dependencies [c], [c2_inv] of codegen_sqrt) — as abstract fields.
   The generators run on SYMBOLIC multivectors: after every elementary operator OperatorDict.filter
   drops the coefficients that test falsy; as in Model/Composite.v that filter is the argument [F]
   ([F] = identity is the same function evaluated on numbers, where nothing is dropped). *)
From Coq Require Import QArith.
From KV Require Export Model.Composite.
Local Open Scope Z_scope.

Record sops (R : Type) := mkSops {
  s_ops  : ops R;
  o_divn : R -> Z -> R;      (* v / j   for a python int j >= 1;  0.5 * v  is  o_divn v 2 *)
  o_sqrt : R -> R;           (* v ** 0.5 *)
  o_inv  : R -> R;           (* 1 / v *)
}.
Arguments s_ops {R}. Arguments o_divn {R}. Arguments o_sqrt {R}. Arguments o_inv {R}.

(* the classes of [ll = (x*x).filter().e] that MultiVector.exp distinguishes, in the order it tests them *)
Inductive ll_class :=
| LExpr      (* isinstance(ll, sympy.Expr) *)
| LPos       (* isinstance(ll, (float, int)) and ll > 0 *)
| LZero      (* isinstance(ll, (float, int)) and ll == 0 *)
| LOther.    (* everything else: negative float/int, complex, Fraction, numpy scalars that are not
                float subclasses, numpy arrays ("Assume numpy") *)
(* which (sqrt, cosh, sinhc) triple is installed *)
Inductive exp_triple :=
| TTrigSym   (* sqrt = (-x)**0.5, cosh = sympy.cos, sinhc = sympy.sinc *)
| THyp       (* sqrt = x**0.5,    cosh = np.cosh,   sinhc = sinh(x)/x *)
| TUnit      (* sqrt = x**0.5,    cosh = sinhc = lambda x: 1 *)
| TTrigNum.  (* sqrt = (-x)**0.5, cosh = np.cos,    sinhc = np.sinc(x/pi) *)
Definition exp_branch (c : ll_class) : exp_triple :=
  match c with LExpr => TTrigSym | LPos => THyp | LZero => TUnit | LOther => TTrigNum end.

(* the exponent of __pow__ *)
Inductive power :=
| PInt (n : Z)      (* a python int (or a float equal to 0: `power == 0`) *)
| PHalf             (* 0.5 *)
| PNegHalf          (* -0.5 *)
| PFloatPos         (* any other positive float, 2.0 included: range(1, power) raises TypeError *)
| PFloatNeg.        (* any other negative float: inv() first, then the TypeError *)

Section Series.
  Context {R : Type} (SO : sops R).
  Local Notation O := (s_ops SO).

  (* MultiVector.__bool__ = bool(self.values()): a multivector is falsy iff it stores NO coefficient
     (a stored 0 makes it truthy) *)
  Definition mv_truthy (x : mv R) : bool := match x with [] => false | _ :: _ => true end.
  (* alg.scalar([v]) and the wrapping of a plain number operand *)
  Definition scalar_mv (v : R) : mv R := [(0, v)].
  (* Wj._values = tuple(v / j for v in Wj._values) *)
  Definition divn_mv (x : mv R) (j : Z) : mv R := map (fun kv => (fst kv, o_divn SO (snd kv) j)) x.
  (* x.grades == (0,) : some key stored and every stored key has grade 0 *)
  Definition is_scalar_only (x : mv R) : bool :=
    mv_truthy x && forallb (fun k => Z.eqb (popcount k) 0) (keys x).
  (* len(x.grades) *)
  Definition ngrades (x : mv R) : nat := length (nodup Z.eq_dec (map popcount (keys x))).
  (* x.grade(0) (= grade_sel O A [0] x: indices_for_grade[0] = [0]) *)
  Definition grade0 (x : mv R) : mv R := if zin 0 (keys x) then [(0, coeff O 0 x)] else [].

  (* ---- codegen_outerexp ---- *)
  (* the   while j <= k:   loop, k = alg.d;  fuel = number of iterations still allowed *)
  Fixpoint outerexp_loop (F : mv R -> mv R) (A : alg) (x : mv R) (fuel : nat) (j : Z) (Ws : list (mv R))
    : res (list (mv R)) :=
    if Z.leb j (Z.of_nat (a_d A)) then
      match fuel with
      | 0%nat => Err EFuel
      | S fuel' =>
          let Wj := F (op O A (last Ws []) x) in         (* Wj = Ws[-1] ^ x *)
          let Wj := divn_mv Wj j in                       (* values / j *)
          if mv_truthy Wj                                 (* if Wj: *)
          then outerexp_loop F A x fuel' (j + 1) (Ws ++ [Wj])
          else Ok Ws                                      (* break *)
      end
    else Ok Ws.
  (* codegen_outerexp(x, asterms=True):  Ws = [alg.scalar([1]), x]; j = 2; loop *)
  Definition outerexp_terms_with F (A : alg) (x : mv R) : res (list (mv R)) :=
    outerexp_loop F A x (a_d A) 2 [scalar_mv (o_one O); x].
  (* reduce(operator.add, Ws): TypeError on an empty list *)
  Definition sum_mvs F (A : alg) (Ws : list (mv R)) : res (mv R) :=
    match Ws with
    | [] => Err EType
    | w :: r => Ok (fold_left (fun acc w' => F (add O A acc w')) r w)
    end.
  (* Ws[0::2] and Ws[1::2] *)
  Fixpoint evens {X} (l : list X) : list X :=
    match l with [] => [] | a :: r => a :: match r with [] => [] | _ :: r' => evens r' end end.
  Definition odds {X} (l : list X) : list X := match l with [] => [] | _ :: r => evens r end.

  Definition outerexp_with F A x : res (mv R) := Ws <- outerexp_terms_with F A x ;; sum_mvs F A Ws.
  Definition outersin_with F A x : res (mv R) := Ws <- outerexp_terms_with F A x ;; sum_mvs F A (odds Ws).
  Definition outercos_with F A x : res (mv R) := Ws <- outerexp_terms_with F A x ;; sum_mvs F A (evens Ws).
  (* a / b through codegen_div:  a * inverse(b); the inverse is C07's subject and an argument here *)
  Definition div_with F (invf : mv R -> res (mv R)) (A : alg) (a b : mv R) : res (mv R) :=
    bi <- invf b ;; Ok (F (gp O A a bi)).
  Definition outertan_with F invf A x : res (mv R) :=
    Ws <- outerexp_terms_with F A x ;;
    co <- sum_mvs F A (evens Ws) ;;
    si <- sum_mvs F A (odds Ws) ;;
    div_with F invf A si co.

  Definition outerexp_terms := outerexp_terms_with (fun x => x).
  Definition outerexp := outerexp_with (fun x => x).
  Definition outersin := outersin_with (fun x => x).
  Definition outercos := outercos_with (fun x => x).
  Definition outertan := outertan_with (fun x => x).

  (* ---- codegen_sqrt ---- *)
  Definition half (v : R) : R := o_divn SO v 2.                      (* 0.5 * v *)
  (* res = c + bI * c2_inv  with c, c2_inv scalars: the algebraic shape of the result *)
  Definition sqrt_formula_with F (A : alg) (bI : mv R) (c c2inv : R) : mv R :=
    F (add O A (scalar_mv c) (F (gp O A bI (scalar_mv c2inv)))).
  Definition sqrt_formula := sqrt_formula_with (fun x => x).
  (* bI = x - x.grade(0) *)
  Definition study_bI F (A : alg) (x : mv R) : mv R := F (sub O A x (grade0 x)).
  (* normS = (a * a - bI * bI).e *)
  Definition study_normS F (A : alg) (x : mv R) : R :=
    let a := grade0 x in let bI := study_bI F A x in
    coeff O 0 (F (sub O A (F (gp O A a a)) (F (gp O A bI bI)))).
  (* the dependency  c  (the string cp) *)
  Definition study_c F (A : alg) (x : mv R) : R :=
    let a := grade0 x in let bI := study_bI F A x in
    let bIsq := F (gp O A bI bI) in
    if mv_truthy bIsq
    then o_sqrt SO (half (o_add O (coeff O 0 a) (o_sqrt SO (study_normS F A x))))   (* (0.5*(a + normS**0.5))**0.5 *)
    else o_sqrt SO (coeff O 0 a).                                                  (* `if not bI_sq`: a**0.5 *)
  Definition sqrt_model_with F (A : alg) (x : mv R) : mv R :=
    if is_scalar_only x then [(0, o_sqrt SO (coeff O 0 x))]               (* {0: x.e**0.5} *)
    else let c := study_c F A x in
         let c2inv := half (o_inv SO c) in                                 (* 0.5 / cp *)
         sqrt_formula_with F A (study_bI F A x) c c2inv.
  Definition sqrt_model := sqrt_model_with (fun x => x).
  (* the RuntimeWarning "Cannot verify that we really are taking the sqrt of a Study number" is issued
     iff   not (len(x.grades) <= 2 and 0 in x.grades);   nothing else is checked *)
  Definition sqrt_warns (x : mv R) : bool := negb (Nat.leb (ngrades x) 2 && zin 0 (map popcount (keys x))).

  (* ---- MultiVector.__pow__ ---- *)
  (* for i in range(1, power): res = res.gp(x)      (n = power - 1 iterations) *)
  Fixpoint pow_loop (A : alg) (x : mv R) (n : nat) (acc : mv R) : mv R :=
    match n with 0%nat => acc | S m => pow_loop A x m (gp O A acc x) end.
  Definition pow_model (invf sqrtf : mv R -> res (mv R)) (A : alg) (x : mv R) (p : power) : res (mv R) :=
    match p with
    | PInt n =>
        if Z.eqb n 0 then Ok (scalar_mv (o_one O))
        else if Z.ltb n 0 then xi <- invf x ;; Ok (pow_loop A xi (Z.to_nat (- n - 1)) xi)
        else Ok (pow_loop A x (Z.to_nat (n - 1)) x)
    | PHalf => sqrtf x
    | PNegHalf => xi <- invf x ;; sqrtf xi
    | PFloatPos => Err EType
    | PFloatNeg => xi <- invf x ;; Err EType
    end.

  (* ---- norm, normalized ---- *)
  (* normsq().sqrt() *)
  Definition norm_with F (A : alg) (x : mv R) : mv R := sqrt_model_with F A (normsq_with O F A x).
  (* self / self.norm() *)
  Definition normalized_with F invf (A : alg) (x : mv R) : res (mv R) := div_with F invf A x (norm_with F A x).

  (* ---- MultiVector.exp ---- *)
  (* .filter() on a numeric multivector: keep (k, v) when simp_func(v) = v is truthy; taking the truth
     value can raise (numpy arrays with more than one element: ValueError) *)
  Fixpoint filter_truth (truth : R -> res bool) (x : mv R) : res (mv R) :=
    match x with
    | [] => Ok []
    | (k, v) :: r => b <- truth v ;; r' <- filter_truth truth r ;; Ok (if b then (k, v) :: r' else r')
    end.
  (* `ll.grades and ll.grades != (0,)` *)
  Definition exp_not_implemented (ll : mv R) : bool := mv_truthy ll && negb (is_scalar_only ll).
  (* tf gives the (sqrt, cosh, sinhc) functions of a triple *)
  Definition exp_model (truth : R -> res bool) (classify : R -> ll_class)
             (tf : exp_triple -> (R -> R) * (R -> R) * (R -> R)) (A : alg) (x : mv R) : res (mv R) :=
    ll <- filter_truth truth (gp O A x x) ;;                          (* (self * self).filter() *)
    if exp_not_implemented ll then Err ENotImpl else
    let s := coeff O 0 ll in                                           (* ll.e *)
    let '(fsqrt, fcosh, fsinhc) := tf (exp_branch (classify s)) in
    let l := fsqrt s in
    Ok (add O A (gp O A x (scalar_mv (fsinhc l))) (scalar_mv (fcosh l))). (* self * sinhc(l) + cosh(l) *)
End Series.

(* ---- an exact coefficient structure for the correspondence: Coq's rationals, kept reduced ---- *)
Definition Qsqrt_exact (q : Q) : Q :=          (* exact on squares of rationals (floor otherwise) *)
  let r := Qred q in Qmake (Z.sqrt (Qnum r)) (Pos.sqrt (Qden r)).
Definition Qops : ops Q :=
  mkOps Q (fun a b => Qred (Qplus a b)) (fun a b => Qred (Qminus a b)) (fun a b => Qred (Qmult a b))
        (fun a => Qred (Qopp a)) (Qmake 0 1) (Qmake 1 1).
Definition Qsops : sops Q :=
  mkSops Q Qops (fun v j => Qred (Qdiv v (inject_Z j))) Qsqrt_exact (fun v => Qred (Qinv v)).
Definition QofZ (z : Z) : Q := Qmake z 1.
Definition mvQ (x : mv Z) : mv Q := map (fun kv => (fst kv, QofZ (snd kv))) x.
(* the same element, coefficient by coefficient (absent = 0), on the keys of the algebra *)
Definition mvQ_equiv (A : alg) (x y : mv Q) : bool :=
  forallb (fun k => Qeq_bool (coeff Qops k x) (coeff Qops k y)) (canon_keys A)
  && forallb (fun k => zin k (canon_keys A)) (keys x) && forallb (fun k => zin k (canon_keys A)) (keys y).
(* ... and the same stored keys in the same order *)
Definition mvQ_same (x y : mv Q) : bool :=
  list_eqb (pair_eqb Z.eqb Qeq_bool) x y.
