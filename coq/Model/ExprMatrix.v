(* Model/ExprMatrix.v — executable model of kingdon.matrixreps.expr_as_matrix (the coefficient
   extraction that turns a multivector expression y = f(.., x), linear in the symbolic last input x,
   into a matrix A with A . coefficients(x) = coefficients(y)).  No proofs (see Theory/ExprMatrix.v).

       y = expr( *inputs)
       if res_like is not None:
           y = alg.multivector({k: sympy.sympify(getattr(y, alg.bin2canon[k])) for k in res_like.keys()})
       A = sympy.zeros(len(y), len(x))
       for i, (blade_y, yi) in enumerate(y.items()):
           cv = sympy.collect(yi.expand(), x.values())
           for j, (blade_x, xj) in enumerate(x.items()):
               A[i, j] = cv.coeff(xj)
       return A, y

   Representation.  A coefficient of a symbolic multivector is a polynomial in EXPANDED form: a list of
   terms (c, [s1; s2; ...]), c a coefficient of an arbitrary type C (Z, Qc, an abstract commutative ring in
   the theory) and the symbols of the term WITH MULTIPLICITY, in any order (x1^2*R2 = [x1; x1; R2]); symbols
   are numbered (nat).  The list is what `yi.expand()` denotes: a sum of products of a number and symbols;
   nothing in this file needs the terms to be merged or sorted (the harness reads sympy expressions with
   `Poly.terms()`, which gives merged terms; the free polynomial operations [Fops] below give unmerged
   ones - the functions are the same on both).

   [coeff_of xj p] is sympy's `Expr.coeff(xj)` on an expanded sum: the sum of the terms in which xj occurs
   with exponent EXACTLY 1, with that factor removed.  Terms without xj and terms with xj^2, xj^3, ...
   contribute nothing; a term x1*x2 contributes x2 to the coefficient of x1 AND x1 to that of x2.
   `sympy.collect(.., x.values())` only regroups the sum (x1*(a + b) instead of a*x1 + b*x1); for every
   expression that is linear in x it does not change what `coeff` returns (that is what the correspondence
   of tools/props/C18.py compares, entry by entry).  For NON-linear expressions collect groups a term under
   the first x symbol it contains, which can hide further x symbols from `coeff` (a*x1 + b*x1 + x1*x2 is
   collected to x1*(a + b + x2), whose coeff(x2) is 0, not x1): outside the domain of the property and of
   this model, see Theory/ExprMatrix.v (b) for what A . x is then. *)
From KV Require Export Model.Codegen.
Local Open Scope nat_scope.

Section Terms.
  Context {C : Type}.

  Definition xterm := (C * list nat)%type.
  Definition xpoly := list xterm.

  (* exponent of the symbol v in a term *)
  Fixpoint count_sym (v : nat) (vs : list nat) : nat :=
    match vs with [] => 0 | w :: r => (if Nat.eqb w v then 1 else 0) + count_sym v r end.

  (* remove ONE factor v *)
  Fixpoint remove1 (v : nat) (vs : list nat) : list nat :=
    match vs with [] => [] | w :: r => if Nat.eqb w v then r else w :: remove1 v r end.

  (* the contribution of one term to `.coeff(xj)` *)
  Definition coeff_term (xj : nat) (t : xterm) : list xterm :=
    if Nat.eqb (count_sym xj (snd t)) 1 then [(fst t, remove1 xj (snd t))] else [].

  (* cv.coeff(xj) *)
  Definition coeff_of (xj : nat) (p : xpoly) : xpoly := flat_map (coeff_term xj) p.

  (* row i of A:  for j, (blade_x, xj) in enumerate(x.items()): A[i, j] = cv.coeff(xj) *)
  Definition expr_row (xs : list nat) (p : xpoly) : list xpoly := map (fun xj => coeff_of xj p) xs.

  (* A:  for i, (blade_y, yi) in enumerate(y.items()) *)
  Definition expr_matrix (xs : list nat) (ys : list xpoly) : list (list xpoly) := map (expr_row xs) ys.

  (* degree of a term in the symbols xs: the number of its factors that are one of the xs *)
  Definition is_x (xs : list nat) (v : nat) : bool := existsb (Nat.eqb v) xs.
  Definition xdeg (xs : list nat) (vs : list nat) : nat := length (filter (is_x xs) vs).

  (* every term has degree d in the xs *)
  Definition homog_term (xs : list nat) (d : nat) (t : xterm) : bool := Nat.eqb (xdeg xs (snd t)) d.
  Definition homog_in (xs : list nat) (d : nat) (p : xpoly) : bool := forallb (homog_term xs d) p.
  (* every term contains exactly one of the xs, to the power 1 *)
  Definition linear_in (xs : list nat) (p : xpoly) : bool := homog_in xs 1 p.
  (* no term contains one of the xs *)
  Definition free_of (xs : list nat) (p : xpoly) : bool := homog_in xs 0 p.

  (* res_like: {k: sympify(getattr(y, bin2canon[k])) for k in res_like.keys()} - first match of the key among
     the stored keys of y, the number 0 (the empty sum) for a key that y does not store *)
  Definition getattr_key (k : Z) (y : mv xpoly) : xpoly :=
    match zassoc k y with Some p => p | None => [] end.
  Definition res_like_sel (ks : list Z) (y : mv xpoly) : mv xpoly := map (fun k => (k, getattr_key k y)) ks.

  (* expr_as_matrix(expr, ..rest, x, res_like=..) given y = expr( *rest, x):
     x = zip(keys, symbols) of the symbolic last input; returns (A, y) *)
  Definition expr_as_matrix (res_like : option (list Z)) (x : mv nat) (y : mv xpoly)
    : list (list xpoly) * mv xpoly :=
    let y' := match res_like with Some ks => res_like_sel ks y | None => y end in
    (expr_matrix (map snd x) (map snd y'), y').

  (* ---- the free polynomial operations (what sympy's +, *, - denote on expanded sums before merging) ---- *)
  Context (O : ops C).
  Definition fadd (p q : xpoly) : xpoly := p ++ q.
  Definition fneg (p : xpoly) : xpoly := map (fun t => (o_neg O (fst t), snd t)) p.
  Definition fsub (p q : xpoly) : xpoly := p ++ fneg q.
  Definition fmul (p q : xpoly) : xpoly :=
    map (fun ab => (o_mul O (fst (fst ab)) (fst (snd ab)), snd (fst ab) ++ snd (snd ab))) (list_prod p q).
  Definition fconst (c : C) : xpoly := [(c, [])].
  Definition fvar (v : nat) : xpoly := [(o_one O, [v])].
  Definition Fops : ops xpoly := mkOps xpoly fadd fsub fmul fneg [] (fconst (o_one O)).

  (* a symbolic multivector alg.multivector(name=.., keys=..): key k holds the symbol s *)
  Definition sym_mv (kvs : mv nat) : mv xpoly := map (fun kv => (fst kv, fvar (snd kv))) kvs.

  (* the polynomial  sum_j row_j * x_j  (row i of A times the vector of x symbols) *)
  Fixpoint row_poly (row : list xpoly) (xs : list nat) : xpoly :=
    match row, xs with
    | a :: row', xj :: xs' => fadd (fmul a (fvar xj)) (row_poly row' xs')
    | _, _ => []
    end.

  (* ---- canonical form, used to COMPARE polynomials: symbols of every term sorted, equal monomials merged,
     zero coefficients dropped, terms sorted by monomial ---- *)
  Context (isz : C -> bool).
  Fixpoint ins_sym (v : nat) (vs : list nat) : list nat :=
    match vs with [] => [v] | w :: r => if Nat.leb v w then v :: vs else w :: ins_sym v r end.
  Definition sort_syms (vs : list nat) : list nat := fold_right ins_sym [] vs.
  (* lexicographic comparison of sorted symbol lists *)
  Fixpoint mono_cmp (a b : list nat) : comparison :=
    match a, b with
    | [], [] => Eq
    | [], _ => Lt
    | _, [] => Gt
    | x :: a', y :: b' => match Nat.compare x y with Eq => mono_cmp a' b' | c => c end
    end.
  Fixpoint ins_term (t : xterm) (p : xpoly) : xpoly :=
    match p with
    | [] => [t]
    | u :: r => match mono_cmp (snd t) (snd u) with
                | Lt => t :: p
                | Eq => (o_add O (fst u) (fst t), snd u) :: r
                | Gt => u :: ins_term t r
                end
    end.
  Definition xnorm (p : xpoly) : xpoly :=
    filter (fun t => negb (isz (fst t)))
           (fold_left (fun acc t => ins_term (fst t, sort_syms (snd t)) acc) p []).

  Context (ceqb : C -> C -> bool).
  Definition xterm_eqb (t u : xterm) : bool := ceqb (fst t) (fst u) && list_eqb Nat.eqb (snd t) (snd u).
  (* equal as canonical polynomials *)
  Definition xpoly_equiv (p q : xpoly) : bool := list_eqb xterm_eqb (xnorm p) (xnorm q).
  Definition matrix_eqb (A B : list (list xpoly)) : bool := list_eqb (list_eqb xpoly_equiv) A B.

  (* row i of a matrix A times the vector of x symbols IS y_i as a canonical polynomial - asked only of linear y *)
  Definition row_identity_ok (xs : list nat) (ys : list xpoly) (A : list (list xpoly)) : bool :=
    if forallb (linear_in xs) ys
    then list_eqb xpoly_equiv (map (fun row => row_poly row xs) A) ys
    else true.

  (* the verdict of one correspondence case of tools/props/C18.py (no res_like): the implementation's matrix is the
     model's, entry by entry, and satisfies the row identity *)
  Definition eam_check (xs : list nat) (ys : list xpoly) (A_impl : list (list xpoly)) : bool :=
    matrix_eqb (expr_matrix xs ys) A_impl && row_identity_ok xs ys A_impl.

  (* the general case: yfull = expr( *inputs) as the harness computed it, (A_impl, y_impl) what the implementation
     returned for the same inputs and res_like: same keys in the same order, same coefficients, same matrix, and
     the implementation's pair satisfies the row identity *)
  Definition eam_case (res_like : option (list Z)) (x : mv nat) (yfull : mv xpoly)
             (A_impl : list (list xpoly)) (y_impl : mv xpoly) : bool :=
    let Ay := expr_as_matrix res_like x yfull in
    list_eqb Z.eqb (keys (snd Ay)) (keys y_impl)
    && list_eqb xpoly_equiv (map snd (snd Ay)) (map snd y_impl)
    && matrix_eqb (fst Ay) A_impl
    && row_identity_ok (map snd x) (map snd y_impl) A_impl.
End Terms.

Arguments xterm C : clear implicits.
Arguments xpoly C : clear implicits.

(* exact rationals for the correspondence (sympy Rational / float coefficients read with fractions.Fraction) *)
From Coq Require Import QArith Qcanon.
Definition Qcops : ops Qc := mkOps Qc Qcplus Qcminus Qcmult Qcopp (Q2Qc 0) (Q2Qc 1).
Definition Qc_isz (c : Qc) : bool := Qeq_bool (this c) 0.
Definition Qc_eqb (a b : Qc) : bool := Qeq_bool (this a) (this b).
Definition qc (n : Z) (d : positive) : Qc := Q2Qc (n # d).
Definition eam_check_Qc := @eam_check Qc Qcops Qc_isz Qc_eqb.
Definition eam_case_Qc := @eam_case Qc Qcops Qc_isz Qc_eqb.
Definition xpolyQ := xpoly Qc.
Definition Qc0 : Qc := Q2Qc 0.
Definition Qc1 : Qc := Q2Qc 1.

(* ---- the expressions `expr` is applied to: built from the last input x (GX), the other inputs (GIn n),
   the nine products, +, - and the sign-flipping unary operators of Model/Codegen.v; one definition for every
   coefficient type (numbers, arrays, the expanded polynomials above), as the generated code is ---- *)
Inductive bop := BGp | BOp | BIp | BLc | BRc | BSp | BCp | BAcp | BRp.
Inductive uop := UNeg | URev | UInvolute | UConj | UHodge | UUnhodge.
Inductive gexpr :=
| GX
| GIn (n : nat)
| GBin (b : bop) (e1 e2 : gexpr)
| GAdd (e1 e2 : gexpr)
| GSub (e1 e2 : gexpr)
| GUn (u : uop) (e : gexpr).

Section GEval.
  Context {T : Type} (O : ops T) (A : alg).
  Definition bop_fun (b : bop) : mv T -> mv T -> mv T :=
    match b with
    | BGp => gp O A | BOp => op O A | BIp => ip O A | BLc => lc O A | BRc => rc O A
    | BSp => sp O A | BCp => cp O A | BAcp => acp O A | BRp => rp O A
    end.
  Definition uop_fun (u : uop) : mv T -> mv T :=
    match u with
    | UNeg => neg O A | URev => reverse O A | UInvolute => involute O A | UConj => conjugate O A
    | UHodge => hodge O A | UUnhodge => unhodge O A
    end.
  Fixpoint geval (env : nat -> mv T) (x : mv T) (e : gexpr) : mv T :=
    match e with
    | GX => x
    | GIn n => env n
    | GBin b e1 e2 => bop_fun b (geval env x e1) (geval env x e2)
    | GAdd e1 e2 => add O A (geval env x e1) (geval env x e2)
    | GSub e1 e2 => sub O A (geval env x e1) (geval env x e2)
    | GUn u e1 => uop_fun u (geval env x e1)
    end.
End GEval.

(* degree of an expression in x when it is homogeneous: sums need summands of one degree *)
Fixpoint gdeg (e : gexpr) : option nat :=
  match e with
  | GX => Some 1%nat
  | GIn _ => Some 0%nat
  | GBin _ e1 e2 => match gdeg e1, gdeg e2 with Some a, Some b => Some (a + b)%nat | _, _ => None end
  | GAdd e1 e2 | GSub e1 e2 =>
      match gdeg e1, gdeg e2 with Some a, Some b => if Nat.eqb a b then Some a else None | _, _ => None end
  | GUn _ e1 => gdeg e1
  end.
