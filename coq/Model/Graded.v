(* Model/Graded.v — graded mode (Algebra(graded=True)): do_codegen stores COMPLETE grades
   (keys_out = indices_for_grades[grades of the generated keys], absent coefficients 0) and
   OperatorDict.filter drops a grade only as a whole.  Executable definitions, no proofs. *)
From KV Require Export Model.Codegen.
Local Open Scope Z_scope.

(* tuple(sorted({format(k, 'b').count('1') for k in keys})) *)
Definition grades_present (A : alg) (ks : list Z) : list nat :=
  filter (fun g => existsb (fun k => Z.eqb (popcount k) (Z.of_nat g)) ks) (seq 0 (S (a_d A))).

Section Graded.
  Context {R : Type} (O : ops R).

  (* do_codegen: {bin: (res[bin] if bin in res else 0) for canon, bin in canon2bin.items() if bin in keys_out} *)
  Definition finish (A : alg) (d : mv R) : mv R :=
    if a_graded A then
      match d with
      | [] => []
      | _ => let keys_out := flat_map (indices_for_grade A) (grades_present A (keys d)) in
             flat_map (fun k => if zin k keys_out
                                then [(k, match zassoc k d with Some v => v | None => o_zero O end)] else [])
                      (canon_keys A)
      end
    else canon_sort A d.

  (* OperatorDict.filter with the simplified value's falsiness [isz] *)
  Definition filter_graded (A : alg) (isz : R -> bool) (x : mv R) : mv R :=
    if a_graded A then
      let grades := filter (fun g => existsb (fun kv => negb (isz (snd kv)) && Z.eqb (popcount (fst kv)) (Z.of_nat g)) x)
                           (seq 0 (S (a_d A))) in
      filter (fun kv => existsb (fun g => Z.eqb (popcount (fst kv)) (Z.of_nat g)) grades) x
    else filter (fun kv => negb (isz (snd kv))) x.

  (* the graded versions of the product operators: what alg.<op>(x, y) returns in graded mode *)
  Definition ggp A x y := finish A (raw_gp O A x y).
  Definition gop A x y := finish A (raw_op O A x y).
  Definition gip A x y := finish A (raw_ip O A x y).
  Definition gadd A x y := finish A (raw_add O x y).
End Graded.
