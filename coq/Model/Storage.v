(* Model/Storage.v — the storage / indexing / operand-unwrapping glue of property C16.

   Part 1: kingdon.multivector.MultiVector  __getitem__, __setitem__, shape, itermv, keys / values / items, map,
           statement by statement, for the two storage kinds of `_values`
             - a python LIST with one entry per key, each entry a python number, a numpy scalar or an array
               ([LBack], entries [CNum | CNp | CArr]); entries may have different lengths;
             - an NDARRAY whose first axis is the key axis ([Nd2 n rows]: shape (len rows, n), and [Nd1 v]:
               shape (len v,), which is what X[int] returns for an [Nd2] X).
           ONE trailing axis is modelled: an array-valued coefficient is a [list R] (a 1-D array of any length);
           trailing shapes of higher rank are covered by the differential part of the check and by the
           naturality theorem (Theory/Natural.v), which is stated for an arbitrary index space.
           numpy is modelled as far as these methods use it: integer and slice subscripts of a 1-D / 2-D array
           (negative indices, bounds, slice.indices, "too many indices", zero step), and the broadcasting of the
           value assigned to a 1-D array (a number, or an array of the addressed length or of length 1).
           Not modelled: views / aliasing (every result is a value; the right-hand side of an assignment does not
           alias the target), dtype casts (one coefficient type R), None / Ellipsis / boolean / array subscripts,
           tuple-valued `_values` (identical to the list case up to the class of the container).
           Exceptions: IndexError = EIndex, TypeError = EType, ValueError = EValue, NotImplementedError = ENotImpl.
           An assignment mutates in place, entry by entry: the model returns the final storage TOGETHER with the
           exception that was raised, if any (entries before the failing one stay modified, as in python).

   Part 2: kingdon.operator_dict  OperatorDict.__call__ / _call_binary, UnaryOperatorDict.__call__: the operand
           normalisation (zero-argument callables are called until something that is not callable appears,
           a list / tuple on the right, then on the left, is mapped element-wise and gives a list / tuple,
           anything that is not a multivector becomes the scalar multivector [(0, c)] of the operator's own
           algebra, the algebra check).  The operator itself is a parameter.  Callables are pure here.
   No proofs. *)
From KV Require Export Model.All.

(* python's  list(f(x) for x in l): elements in order, the first exception wins *)
Section MapM.
  Context {A B : Type} (f : A -> res B).
  Fixpoint mapM (l : list A) : res (list B) :=
    match l with
    | [] => Ok []
    | a :: r => b <- f a ;; bs <- mapM r ;; Ok (b :: bs)
    end.
End MapM.

(* ------------------------------------------------------------------------------------------------
   index expressions *)
Record pyslice := mkSlice { sl_start : option Z; sl_stop : option Z; sl_step : option Z }.
Inductive idx1 := IInt (i : Z) | ISlice (s : pyslice).
(* what the caller writes between the brackets: one subscript, or a tuple of subscripts *)
Inductive pyidx := PyOne (i : idx1) | PyTup (l : list idx1).
(* if not isinstance(item, tuple): item = (item,) *)
Definition norm_item (item : pyidx) : list idx1 := match item with PyOne i => [i] | PyTup l => l end.

(* an integer subscript of an axis of length n: negative indices count from the end *)
Definition norm_int (n : nat) (i : Z) : res nat :=
  let N := Z.of_nat n in
  if (i <? - N)%Z || (N <=? i)%Z then Err EIndex else Ok (Z.to_nat (if (i <? 0)%Z then i + N else i)%Z).

(* slice.indices(n)  (PySlice_Unpack + PySlice_AdjustIndices) *)
Definition slice_indices (n : Z) (s : pyslice) : res (Z * Z * Z) :=
  let step := match sl_step s with None => 1 | Some k => k end%Z in
  if (step =? 0)%Z then Err EValue else
  let neg := (step <? 0)%Z in
  let clip (v : Z) := (if v <? 0 then (let v' := v + n in if v' <? 0 then (if neg then -1 else 0) else v')
                       else if n <=? v then (if neg then n - 1 else n) else v)%Z in
  let start := match sl_start s with None => (if neg then n - 1 else 0)%Z | Some v => clip v end in
  let stop := match sl_stop s with None => (if neg then -1 else n)%Z | Some v => clip v end in
  Ok (start, stop, step).
Definition slice_len (start stop step : Z) : Z :=
  (if step <? 0 then (if stop <? start then (start - stop - 1) / (- step) + 1 else 0)
   else (if start <? stop then (stop - start - 1) / step + 1 else 0))%Z.
(* the positions a slice addresses on an axis of length n, in the order of the slice *)
Definition slice_pos (n : nat) (s : pyslice) : res (list nat) :=
  '(start, stop, step) <- slice_indices (Z.of_nat n) s ;;
  Ok (map (fun j => Z.to_nat (start + Z.of_nat j * step)%Z) (seq 0 (Z.to_nat (slice_len start stop step)))).

(* what a (normalised) subscript tuple addresses on ONE axis of length n: a single position (the axis
   disappears from the result) or a list of positions (the axis stays).  The empty tuple addresses the whole
   axis; two or more subscripts are "too many indices" (checked before anything else by numpy). *)
Inductive addr := AOne (p : nat) | AMany (ps : list nat).
Definition addr_of (n : nat) (ix : list idx1) : res addr :=
  match ix with
  | [] => Ok (AMany (seq 0 n))
  | [IInt i] => p <- norm_int n i ;; Ok (AOne p)
  | [ISlice s] => ps <- slice_pos n s ;; Ok (AMany ps)
  | _ :: _ :: _ => Err EIndex
  end.

Section Storage.
  Context {R : Type}.

  (* ---------------------------------------------------------------------------------------------
     1-D arrays *)
  Definition pick (ps : list nat) (a : list R) : list R :=
    flat_map (fun p => match nth_error a p with Some x => [x] | None => [] end) ps.
  Fixpoint set_nth (p : nat) (v : R) (a : list R) : list R :=
    match a, p with
    | [], _ => []
    | _ :: r, O => v :: r
    | x :: r, S p' => x :: set_nth p' v r
    end.
  (* a[ps[j]] = vs[j] for j = 0, 1, ... *)
  Fixpoint write_pos (ps : list nat) (vs : list R) (a : list R) : list R :=
    match ps, vs with
    | p :: ps', v :: vs' => write_pos ps' vs' (set_nth p v a)
    | _, _ => a
    end.

  (* one entry of a list-valued `_values` *)
  Inductive coef := CNum (c : R) (* python int / float *) | CNp (c : R) (* numpy scalar *) | CArr (a : list R).
  (* `_values` *)
  Inductive store := LBack (l : list coef) | Nd1 (v : list R) | Nd2 (n : nat) (rows : list (list R)).
  Record smv := mkSmv { s_keys : list Z; s_vals : store }.

  (* iterating over `_values` (zip(self._keys, self._values), zip(self.values(), values), [f(v) for v in values]) *)
  Definition entries (st : store) : list coef :=
    match st with LBack l => l | Nd1 v => map CNp v | Nd2 _ rows => map CArr rows end.

  (* ---------------------------------------------------------------------------------------------
     value[item] for one entry *)
  Definition get_arr (ix : list idx1) (a : list R) : res coef :=
    ad <- addr_of (length a) ix ;;
    match ad with
    | AOne p => x <- of_opt EIndex (nth_error a p) ;; Ok (CNp x)
    | AMany ps => Ok (CArr (pick ps a))
    end.
  Definition get_coef (ix : list idx1) (v : coef) : res coef :=
    match v with
    | CNum _ => Err EType                                        (* 'int' object is not subscriptable *)
    | CNp c => match ix with [] => Ok (CNp c) | _ => Err EIndex end   (* invalid index to scalar variable *)
    | CArr a => get_arr ix a
    end.

  (* MultiVector.__getitem__ *)
  Definition mv_getitem (X : smv) (item : pyidx) : res smv :=
    let ix := norm_item item in                                  (* if not isinstance(item, tuple): item = (item,) *)
    vals <- match s_vals X with
            | LBack l => l' <- mapM (get_coef ix) l ;; Ok (LBack l')      (* values.__class__(value[item] for value in values) *)
            | Nd1 v => match ix with [] => Ok (Nd1 v) | _ => Err EIndex end    (* values[(slice(None), *item)], 1-D *)
            | Nd2 n rows =>                                                (* values[(slice(None), *item)], 2-D *)
                ad <- addr_of n ix ;;
                match ad with
                | AOne p => col <- mapM (fun r => of_opt EIndex (nth_error r p)) rows ;; Ok (Nd1 col)
                | AMany ps => Ok (Nd2 (length ps) (map (pick ps) rows))
                end
            end ;;
    Ok (mkSmv (s_keys X) vals).

  (* ---------------------------------------------------------------------------------------------
     numpy assignment  a[...] = value  for a 1-D array a: the value (a number or a 1-D array) is broadcast to
     the addressed shape *)
  (* shape (len l,) -> shape (p,) *)
  Definition bc_row (p : nat) (l : list R) : res (list R) :=
    if Nat.eqb (length l) p then Ok l else match l with [c] => Ok (repeat c p) | _ => Err EValue end.
  Definition bc_coef (p : nat) (o : coef) : res (list R) :=
    match o with CNum c | CNp c => Ok (repeat c p) | CArr l => bc_row p l end.

  (* a[ix] = o  for a 1-D array a.  Subscript errors come first, then the value is checked. *)
  Definition assign_arr (ix : list idx1) (a : list R) (o : coef) : res (list R) :=
    ad <- addr_of (length a) ix ;;
    match ad with
    | AOne p => match o with
                | CNum c | CNp c => Ok (set_nth p c a)
                | CArr _ => Err EValue                             (* setting an array element with a sequence *)
                end
    | AMany ps => vs <- bc_coef (length ps) o ;; Ok (write_pos ps vs a)
    end.
  (* self_values[indices] = other_value *)
  Definition assign_coef (ix : list idx1) (self other : coef) : res coef :=
    match self with
    | CArr a => a' <- assign_arr ix a other ;; Ok (CArr a')
    | _ => Err EType                                             (* object does not support item assignment *)
    end.
  (* for self_values, other_value in zip(self.values(), values): self_values[indices] = other_value
     -- in place, entry by entry: the entries before a failing one stay modified *)
  Fixpoint set_loop (ix : list idx1) (selfs others : list coef) : list coef * option err :=
    match selfs, others with
    | s :: ss, o :: os =>
        match assign_coef ix s o with
        | Ok s' => let '(r, e) := set_loop ix ss os in (s' :: r, e)
        | Err e => (s :: ss, Some e)
        end
    | _, _ => (selfs, None)
    end.

  (* the right-hand side of X[idx] = V *)
  Inductive rhs := FromMv (keys : list Z) (st : store)   (* a multivector *)
                 | FromRaw (st : store)                  (* a list of coefficients / an ndarray *)
                 | FromNum (c : R).                      (* a plain number *)

  (* the loop mutates the objects `_values` iterates over: the entries of a list, the rows of a 2-D ndarray
     (row views).  Iterating a 1-D ndarray yields numpy scalars, which cannot be assigned to: it never changes. *)
  Definition arrays_of (l : list coef) : list (list R) :=
    flat_map (fun c => match c with CArr a => [a] | _ => [] end) l.
  Definition restore (st : store) (l' : list coef) : store :=
    match st with LBack _ => LBack l' | Nd1 v => Nd1 v | Nd2 n _ => Nd2 n (arrays_of l') end.

  (* MultiVector.__setitem__ : (final `_values`, exception raised) *)
  Definition mv_setitem (X : smv) (item : pyidx) (V : rhs) : store * option err :=
    let st := s_vals X in
    (* if isinstance(values, MultiVector): if self.keys() != values.keys(): raise ValueError; values = values.values() *)
    match (match V with
           | FromMv ks vst => if list_eqb Z.eqb (s_keys X) ks then Ok (FromRaw vst) else Err EValue
           | _ => Ok V
           end) with
    | Err e => (st, Some e)
    | Ok V' =>
        let ix := norm_item item in                              (* if not isinstance(indices, tuple): ... *)
        match V' with
        | FromNum _ => (st, Some EType)                          (* zip(..., number): not iterable *)
        | FromRaw vst | FromMv _ vst =>
            let '(l', e) := set_loop ix (entries st) (entries vst) in (restore st l', e)
        end
    end.

  (* ---------------------------------------------------------------------------------------------
     shape, itermv, keys / values / items, map *)
  Definition mv_shape (X : smv) : list nat :=
    match s_vals X with
    | Nd1 v => [length v]                                        (* hasattr(self._values, 'shape') *)
    | Nd2 n rows => [length rows; n]
    | LBack l => match l with
                 | CArr a :: _ => [length l; length a]           (* len(self), *self._values[0].shape *)
                 | _ => [length l]                               (* numpy scalar: shape (); number: no shape; empty list *)
                 end
    end.

  Inductive iter_result := ItSelf (X : smv) | ItGen (g : list (res smv)) | ItErr (e : err).
  (* itermv(axis): `axis_none` = (axis is None).  The generator yields self[(i,)], evaluated when reached. *)
  Definition mv_itermv (X : smv) (axis_none : bool) : iter_result :=
    match tl (mv_shape X) with
    | [] => ItSelf X                                             (* if not shape: return self *)
    | n :: _ => if axis_none
                then ItGen (map (fun i => mv_getitem X (PyTup [IInt (Z.of_nat i)])) (seq 0 n))
                else ItErr ENotImpl
    end.

  Definition mv_keys (X : smv) : list Z := s_keys X.
  Definition mv_values (X : smv) : store := s_vals X.
  Definition mv_items (X : smv) : list (Z * coef) := combine (s_keys X) (entries (s_vals X)).     (* zip *)
  Definition mv_len (X : smv) : nat := length (entries (s_vals X)).
  (* map(func): one-argument form and (key, value) form; the result is always list-valued *)
  Definition mv_map1 (f : coef -> coef) (X : smv) : smv := mkSmv (s_keys X) (LBack (map f (entries (s_vals X)))).
  Definition mv_map2 (f : Z -> coef -> coef) (X : smv) : smv :=
    mkSmv (s_keys X) (LBack (map (fun kv => f (fst kv) (snd kv)) (mv_items X))).

  (* ---------------------------------------------------------------------------------------------
     Part 2: operands of an operator *)
  Inductive operand :=
  | ONum (c : R)                       (* anything that is no multivector, sequence or callable: a coefficient *)
  | OMv (a : nat) (m : mv R)           (* a multivector of the algebra with tag a *)
  | OSeq (l : list operand)            (* list *)
  | OTup (l : list operand)            (* tuple *)
  | OCall (o : operand).               (* zero-argument callable returning o *)
  Inductive result := RMv (m : mv R) | RSeq (l : list result) | RTup (l : list result).

  Section Call.
    Variable self_alg : nat.                               (* self.algebra of the OperatorDict *)
    Variable f : mv R -> mv R -> res (mv R).              (* the generated binary operator (keys lookup + call) *)

    (* mv if isinstance(mv, MultiVector) else MultiVector.fromkeysvalues(self.algebra, (0,), [mv]) *)
    Definition wrap (o : operand) : nat * mv R :=
      match o with OMv a m => (a, m) | ONum c => (self_alg, [(0%Z, c)]) | _ => (self_alg, []) end.

    (* OperatorDict._call_binary.  One unit of fuel per call of a callable and per recursive call. *)
    Fixpoint call_binary (fuel : nat) (l r : operand) : res result :=
      match fuel with
      | O => Err EFuel
      | S fuel =>
          match l with
          | OCall l' => call_binary fuel l' r                    (* while callable(mv1): mv1 = mv1() *)
          | _ =>
          match r with
          | OCall r' => call_binary fuel l r'                    (* while callable(mv2): mv2 = mv2() *)
          | OSeq xs => s <- mapM (fun x => call_binary fuel l x) xs ;; Ok (RSeq s)    (* type(mv2)(... for mv in mv2) *)
          | OTup xs => s <- mapM (fun x => call_binary fuel l x) xs ;; Ok (RTup s)
          | _ =>
          match l with
          | OSeq xs => s <- mapM (fun x => call_binary fuel x r) xs ;; Ok (RSeq s)    (* type(mv1)(... for mv in mv1) *)
          | OTup xs => s <- mapM (fun x => call_binary fuel x r) xs ;; Ok (RTup s)
          | _ =>
              let '(a1, m1) := wrap l in
              let '(a2, m2) := wrap r in
              if Nat.eqb a1 a2 then m <- f m1 m2 ;; Ok (RMv m) else Err EAlgebra
          end end end
      end.

    (* UnaryOperatorDict.__call__(mv): mv.keys() -- nothing is unwrapped *)
    Definition call_unary (g : mv R -> res (mv R)) (o : operand) : res result :=
      match o with OMv _ m => m' <- g m ;; Ok (RMv m') | _ => Err EAttr end.

    (* OperatorDict.__call__ with *mvs: two operands go to _call_binary; otherwise every operand that is no
       multivector becomes the coefficient of a scalar (a sequence or callable stored as a coefficient is
       outside the model: EOther), then the algebra check, then the operator *)
    Definition call_op (fuel : nat) (g : list (mv R) -> res (mv R)) (args : list operand) : res result :=
      match args with
      | [l; r] => call_binary fuel l r
      | _ =>
          ms <- mapM (fun o => match o with ONum _ | OMv _ _ => Ok (wrap o) | _ => Err EOther end) args ;;
          if forallb (fun am => Nat.eqb (fst (hd (self_alg, []) ms)) (fst am)) (tl ms)
          then m <- g (map snd ms) ;; Ok (RMv m) else Err EAlgebra
      end.
  End Call.

  (* enough fuel for every pair of operands *)
  Fixpoint osize (o : operand) : nat :=
    match o with
    | ONum _ | OMv _ _ => 1
    | OSeq l | OTup l => S ((fix go (l : list operand) := match l with [] => 0 | x :: r => osize x + go r end) l)
    | OCall o' => S (osize o')
    end.
  Definition call_binary_total (self_alg : nat) (f : mv R -> mv R -> res (mv R)) (l r : operand) : res result :=
    call_binary self_alg f (S (osize l + osize r)) l r.
End Storage.

Arguments coef : clear implicits. Arguments store : clear implicits. Arguments smv : clear implicits.
Arguments rhs : clear implicits. Arguments iter_result : clear implicits.
Arguments operand : clear implicits. Arguments result : clear implicits.

(* ------------------------------------------------------------------------------------------------
   comparison of outcomes over Z (used by the correspondence, evaluated by vm_compute) *)
Definition coef_eqb (x y : coef Z) : bool :=
  match x, y with
  | CNum a, CNum b | CNp a, CNp b => Z.eqb a b
  | CArr a, CArr b => list_eqb Z.eqb a b
  | _, _ => false
  end.
Definition store_eqb (x y : store Z) : bool :=
  match x, y with
  | LBack a, LBack b => list_eqb coef_eqb a b
  | Nd1 a, Nd1 b => list_eqb Z.eqb a b
  | Nd2 n a, Nd2 m b => Nat.eqb n m && list_eqb (list_eqb Z.eqb) a b
  | _, _ => false
  end.
Definition smv_eqb (x y : smv Z) : bool := list_eqb Z.eqb (s_keys x) (s_keys y) && store_eqb (s_vals x) (s_vals y).
Definition set_outcome_eqb (x y : store Z * option err) : bool :=
  store_eqb (fst x) (fst y) && opt_eqb err_eqb (snd x) (snd y).
(* coarser level: the coefficients only (a python number and a numpy scalar are the same number; the kind of
   container is not observed) *)
Definition coef_values (c : coef Z) : list Z * bool := match c with CNum a | CNp a => ([a], false) | CArr a => (a, true) end.
Definition store_coarse_eqb (x y : store Z) : bool :=
  list_eqb (pair_eqb (list_eqb Z.eqb) Bool.eqb) (map coef_values (entries x)) (map coef_values (entries y)).
Definition smv_coarse_eqb (x y : smv Z) : bool :=
  list_eqb Z.eqb (s_keys x) (s_keys y) && store_coarse_eqb (s_vals x) (s_vals y).
Definition set_outcome_coarse_eqb (x y : store Z * option err) : bool :=
  store_coarse_eqb (fst x) (fst y) && opt_eqb err_eqb (snd x) (snd y).
Definition iter_eqb (x y : iter_result Z) : bool :=
  match x, y with
  | ItSelf a, ItSelf b => smv_eqb a b
  | ItGen a, ItGen b => list_eqb (res_eqb smv_eqb) a b
  | ItErr a, ItErr b => err_eqb a b
  | _, _ => false
  end.

(* results of an operator on operands: same nesting of lists / tuples, the same element (stored blades and
   coefficients, Model/Codegen.v [mv_same]) at every leaf *)
Fixpoint result_same (A : alg) (x y : result Z) : bool :=
  match x, y with
  | RMv a, RMv b => mv_same A a b
  | RSeq a, RSeq b | RTup a, RTup b =>
      (fix go (a b : list (result Z)) : bool :=
         match a, b with
         | [], [] => true
         | u :: a', v :: b' => result_same A u v && go a' b'
         | _, _ => false
         end) a b
  | _, _ => false
  end.
Definition res_result_same (A : alg) (x y : res (result Z)) : bool :=
  match x, y with Ok a, Ok b => result_same A a b | Err a, Err b => err_eqb a b | _, _ => false end.

(* consuming the generator returned by itermv: it ends with the first exception *)
Fixpoint gen_consume {A} (g : list (res A)) : list (res A) :=
  match g with
  | [] => []
  | Ok a :: r => Ok a :: gen_consume r
  | Err e :: _ => [Err e]
  end.
