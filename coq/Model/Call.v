(* Model/Call.v — kingdon/multivector.py  MultiVector.__call__, free_symbols, _callable  and
   kingdon/codegen.py  _lambdify_mv: substitution of values for the free symbols of a symbolic
   multivector, the ARGUMENT BINDING of the call.  Executable definitions only, no proofs (see Theory/Call.v).

   What the Python does (read off the source; pinned in Bridge/Pins_C12.v):

     def free_symbols(self):  reduce(operator.or_, (v.free_symbols for v in self.values() if hasattr(v, "free_symbols")), set())
     def _callable(self):     _lambdify_mv(self)
     def _lambdify_mv(mv):    func = lambdify(args={'x': sorted(mv.free_symbols, key=lambda x: x.name)}, exprs=list(mv.values()), ...)
                              return CodegenOutput(tuple(mv.keys()), func)
         the generated function is     def custom_N(x):
                                           [a, b, c] = x            # the sorted free symbols
                                           return [<expr of key 0>, <expr of key 1>, ...]
     def __call__(self, *args, **kwargs):
         if args and kwargs: raise Exception(...)
         if not self.free_symbols: return self
         keys_out, func = self._callable
         if kwargs: args = [kwargs[s.name] for s in sorted(self.free_symbols, key=lambda x: x.name)]
         values = func(args)
         return self.fromkeysvalues(self.algebra, keys_out, values)

   Representation.
   - a symbol IS its name (sympy symbols with equal names and different assumptions are outside the model);
     a name is the list of the code points of the python string, python's string order is the
     lexicographic order on code points: [str_ltb].
   - a symbolic coefficient is an expression tree over names (the tree of the sympy expression: Symbol,
     Integer, Add, Mul, unary minus; a python number is [SConst]); its free symbols are the names that
     occur in it; a python set of symbols is a duplicate-free list (the order of a set is never observed:
     the code only tests emptiness and sorts it).
   - values live in any structure [ops S] with the embedding [inj] of the python integers that occur in
     the expressions (Z with inj = id in the correspondence).
   - [if not self.free_symbols: return self]: the coefficients of such a multivector contain no symbol,
     i.e. they ARE numbers; the model returns their values (evaluation under the empty environment).
   - the unpacking  [a, b, c] = x  raises ValueError unless len(x) = 3;  kwargs[name]  raises KeyError;
     a keyword that is not a free symbol is never looked at. *)
From KV Require Export Model.Util Model.Codegen Model.Composite.
Local Open Scope Z_scope.

Definition sname := list nat.

(* python  a < b  on str *)
Fixpoint str_ltb (a b : sname) : bool :=
  match a, b with
  | [], [] => false
  | [], _ :: _ => true
  | _ :: _, [] => false
  | x :: a', y :: b' => if Nat.ltb x y then true else if Nat.ltb y x then false else str_ltb a' b'
  end.
Definition str_eqb (a b : sname) : bool := list_eqb Nat.eqb a b.

Inductive sexpr :=
| SVar (n : sname)
| SConst (z : Z)
| SAdd (a b : sexpr)
| SSub (a b : sexpr)
| SMul (a b : sexpr)
| SNeg (a : sexpr).

(* the coefficient structure of symbolic multivectors: the model operators of Model/Codegen.v run on it *)
Definition Eops : ops sexpr := mkOps sexpr SAdd SSub SMul SNeg (SConst 0) (SConst 1).

(* ---- sets of symbols ---- *)
Definition name_in (n : sname) (s : list sname) : bool := existsb (str_eqb n) s.
Definition set_add (s : list sname) (n : sname) : list sname := if name_in n s then s else s ++ [n].
Definition set_union (s t : list sname) : list sname := fold_left set_add t s.      (* s | t *)

Fixpoint expr_free (e : sexpr) : list sname :=                                      (* Expr.free_symbols *)
  match e with
  | SVar n => [n]
  | SConst _ => []
  | SAdd a b | SSub a b | SMul a b => set_union (expr_free a) (expr_free b)
  | SNeg a => expr_free a
  end.

(* MultiVector.free_symbols: reduce(operator.or_, (v.free_symbols for v in self.values() ...), set()) *)
Definition free_symbols (x : mv sexpr) : list sname :=
  fold_left (fun acc kv => set_union acc (expr_free (snd kv))) x [].

(* sorted(symbols, key=lambda x: x.name) *)
Fixpoint insert_name (n : sname) (l : list sname) : list sname :=
  match l with
  | [] => [n]
  | m :: r => if str_ltb n m then n :: m :: r
              else if str_ltb m n then m :: insert_name n r
              else m :: r                                       (* the same symbol: a set has it once *)
  end.
Definition sorted_names (s : list sname) : list sname := fold_right insert_name [] s.

Fixpoint call_mapM {A B} (f : A -> res B) (l : list A) : res (list B) :=
  match l with
  | [] => Ok []
  | a :: r => b <- f a ;; bs <- call_mapM f r ;; Ok (b :: bs)
  end.

Section Call.
  Context {S : Type} (OS : ops S) (inj : Z -> S).

  (* a python dict str -> value (kwargs; the local variables of the generated function) *)
  Fixpoint kw_get (n : sname) (kw : list (sname * S)) : option S :=
    match kw with [] => None | (m, v) :: r => if str_eqb m n then Some v else kw_get n r end.

  (* evaluation of an expression of the generated function; an unbound variable would be a NameError *)
  Fixpoint eval (rho : sname -> option S) (e : sexpr) : res S :=
    match e with
    | SVar n => of_opt EOther (rho n)
    | SConst z => Ok (inj z)
    | SAdd a b => x <- eval rho a ;; y <- eval rho b ;; Ok (o_add OS x y)
    | SSub a b => x <- eval rho a ;; y <- eval rho b ;; Ok (o_sub OS x y)
    | SMul a b => x <- eval rho a ;; y <- eval rho b ;; Ok (o_mul OS x y)
    | SNeg a => x <- eval rho a ;; Ok (o_neg OS x)
    end.

  (* the denotation of an expression under a total valuation (the specification side) *)
  Fixpoint evalT (rho : sname -> S) (e : sexpr) : S :=
    match e with
    | SVar n => rho n
    | SConst z => inj z
    | SAdd a b => o_add OS (evalT rho a) (evalT rho b)
    | SSub a b => o_sub OS (evalT rho a) (evalT rho b)
    | SMul a b => o_mul OS (evalT rho a) (evalT rho b)
    | SNeg a => o_neg OS (evalT rho a)
    end.

  (* the function generated by _lambdify_mv:   def custom(x): [n1, ..., nk] = x; return [e1, ..., em] *)
  Definition generated (names : list sname) (exprs : list sexpr) (x : list S) : res (list S) :=
    if Nat.eqb (length x) (length names)
    then call_mapM (eval (fun n => kw_get n (combine names x))) exprs
    else Err EValue.

  Definition is_nil {A} (l : list A) : bool := match l with [] => true | _ => false end.

  (* MultiVector.__call__(self, *args, **kwargs) *)
  Definition call (x : mv sexpr) (args : list S) (kwargs : list (sname * S)) : res (mv S) :=
    if negb (is_nil args) && negb (is_nil kwargs) then Err EOther else
    let fs := free_symbols x in
    if is_nil fs then                                             (* return self *)
      values <- call_mapM (eval (fun _ => None)) (map snd x) ;;
      Ok (combine (keys x) values)
    else
      let names := sorted_names fs in                             (* keys_out, func = self._callable *)
      args' <- (if is_nil kwargs then Ok args
                else call_mapM (fun n => of_opt EKey (kw_get n kwargs)) names) ;;
      values <- generated names (map snd x) args' ;;
      Ok (combine (keys x) values).

  Definition call_positional (x : mv sexpr) (args : list S) : res (mv S) := call x args [].
  Definition call_keywords (x : mv sexpr) (kwargs : list (sname * S)) : res (mv S) := call x [] kwargs.

  (* the valuation a keyword dictionary denotes (unbound names: the image of 0, never consulted) *)
  Definition env_of (kw : list (sname * S)) (n : sname) : S :=
    match kw_get n kw with Some v => v | None => inj 0 end.
End Call.
