(* Model/Codegen.v — kingdon.codegen: codegen_product and the operators built on it,
   add/sub/neg, involutions, Hodge duals, polarity, the canonical re-sort of do_codegen.
   Generic in the coefficient type (record of the operations the generators use), so the
   same definitions run on numbers (Z, Q) and on the polynomial model.  No proofs. *)
From KV Require Export Model.Alg.
Local Open Scope Z_scope.

Record ops (R : Type) := mkOps {
  o_add : R -> R -> R;
  o_sub : R -> R -> R;
  o_mul : R -> R -> R;
  o_neg : R -> R;
  o_zero : R;
  o_one : R;
}.
Arguments o_add {R}. Arguments o_sub {R}. Arguments o_mul {R}. Arguments o_neg {R}.
Arguments o_zero {R}. Arguments o_one {R}.

Definition Zops : ops Z := mkOps Z Z.add Z.sub Z.mul Z.opp 0 1.

(* a multivector: zip(_keys, _values) *)
Definition mv (R : Type) := list (Z * R).
Definition keys {R} (x : mv R) : list Z := map fst x.

(* coefficient read-out: first match, absent = 0 (MultiVector.__getattr__ on a canonical name) *)
Fixpoint coeff {R} (O : ops R) (K : Z) (x : mv R) : R :=
  match x with [] => o_zero O | (k, v) :: r => if Z.eqb k K then v else coeff O K r end.

(* ---- the kernels of the product family, as the Python writes them ---- *)
Definition filter_op (kx ky kout : Z) : bool := Z.eqb kout (kx + ky).
Definition filter_ip (kx ky kout : Z) : bool := Z.eqb kout (Z.abs (kx - ky)).
Definition filter_lc (kx ky kout : Z) : bool := Z.eqb kout (- (kx - ky)).
Definition filter_rc (kx ky kout : Z) : bool := Z.eqb kout (kx - ky).
Definition filter_sp (kx ky kout : Z) : bool := Z.eqb kout 0.
Definition filter_cp (sgn : Z -> Z -> Z) (kx ky kout : Z) : bool := negb (Z.eqb (sgn kx ky - sgn ky kx) 0).
Definition filter_acp (sgn : Z -> Z -> Z) (kx ky kout : Z) : bool := negb (Z.eqb (sgn kx ky + sgn ky kx) 0).
Definition filter_rp (alglen : Z) (kx ky kout : Z) : bool := Z.eqb (alglen - 1) (kx + ky - kout).
Definition keyout_rp (alglen : Z) (kx ky : Z) : Z := (alglen - 1) - Z.lxor kx ky.
Definition sign_rp (sgn : Z -> Z -> Z) (alglen : Z) (kx ky : Z) : Z :=
  let pss := alglen - 1 in
  sgn kx (pss - kx) * sgn ky (pss - ky) * sgn (pss - kx) (pss - ky) * sgn (pss - Z.lxor kx ky) (Z.lxor kx ky).
Definition involution_flips (invert_grades : list Z) (k : Z) : bool :=
  existsb (Z.eqb (popcount k mod 4)) invert_grades.
Definition grades_reverse := [2; 3].
Definition grades_involute := [1; 3].
Definition grades_conjugate := [1; 2].

Inductive dual_kind := KAuto | KPolarity | KHodge | KUnknown.

Section Ops.
  Context {R : Type} (O : ops R).

  (* res[key_out] += termstr   /   res[key_out] = termstr *)
  Fixpoint dacc (k : Z) (t : R) (d : mv R) : mv R :=
    match d with
    | [] => [(k, t)]
    | (k', v) :: r => if Z.eqb k' k then (k', o_add O v t) :: r else (k', v) :: dacc k t r
    end.

  (* one iteration of   for (kx, vx), (ky, vy) in product(x.items(), y.items())   *)
  Definition product_step (sfun : Z -> Z -> Z) (filt : option (Z -> Z -> Z -> bool)) (kout : Z -> Z -> Z)
             (res : mv R) (p : (Z * R) * (Z * R)) : mv R :=
    let '((kx, vx), (ky, vy)) := p in
    let s := sfun kx ky in
    if Z.eqb s 0 then res else
    let ko := kout kx ky in
    if match filt with Some f => negb (f kx ky ko) | None => false end then res else
    let term := if Z.ltb 0 s then o_mul O vx vy else o_mul O (o_neg O vx) vy in
    dacc ko term res.

  Definition codegen_product sfun filt kout (x y : mv R) : mv R :=
    fold_left (product_step sfun filt kout) (list_prod x y) [].

  (* do_codegen: {bin: res[bin] for canon, bin in algebra.canon2bin.items() if bin in res} *)
  Definition canon_sort (A : alg) (d : mv R) : mv R :=
    flat_map (fun k => match zassoc k d with Some v => [(k, v)] | None => [] end) (canon_keys A).

  Definition raw_gp (A : alg) := codegen_product (sgn A) None Z.lxor.
  Definition raw_op (A : alg) := codegen_product (sgn A) (Some filter_op) Z.lxor.
  Definition raw_ip (A : alg) := codegen_product (sgn A) (Some filter_ip) Z.lxor.
  Definition raw_lc (A : alg) := codegen_product (sgn A) (Some filter_lc) Z.lxor.
  Definition raw_rc (A : alg) := codegen_product (sgn A) (Some filter_rc) Z.lxor.
  Definition raw_sp (A : alg) := codegen_product (sgn A) (Some filter_sp) Z.lxor.
  Definition raw_cp (A : alg) := codegen_product (sgn A) (Some (filter_cp (sgn A))) Z.lxor.
  Definition raw_acp (A : alg) := codegen_product (sgn A) (Some (filter_acp (sgn A))) Z.lxor.
  Definition raw_rp (A : alg) :=
    codegen_product (sign_rp (sgn A) (alg_len A)) (Some (filter_rp (alg_len A))) (keyout_rp (alg_len A)).

  (* codegen_add / codegen_sub / codegen_neg *)
  Definition add_step (vals : mv R) (kv : Z * R) : mv R :=
    let '(k, v) := kv in
    match zassoc k vals with Some a => zset k (o_add O a v) vals | None => zset k v vals end.
  Definition sub_step (vals : mv R) (kv : Z * R) : mv R :=
    let '(k, v) := kv in
    match zassoc k vals with Some a => zset k (o_sub O a v) vals | None => zset k (o_neg O v) vals end.
  (* dict(x.items()): later duplicates overwrite, first position kept *)
  Definition todict (x : mv R) : mv R := fold_left (fun d kv => zset (fst kv) (snd kv) d) x [].
  Definition raw_add (x y : mv R) : mv R := fold_left add_step y (todict x).
  Definition raw_sub (x y : mv R) : mv R := fold_left sub_step y (todict x).
  Definition raw_neg (x : mv R) : mv R := todict (map (fun kv => (fst kv, o_neg O (snd kv))) x).
  Definition raw_involution (g : list Z) (x : mv R) : mv R :=
    todict (map (fun kv => (fst kv, if involution_flips g (fst kv) then o_neg O (snd kv) else snd kv)) x).
  Definition raw_hodge (A : alg) (x : mv R) : mv R :=
    todict (map (fun kv => let kd := pss_key A - fst kv in
                           (kd, if Z.ltb (sgn A (fst kv) kd) 0 then o_neg O (snd kv) else snd kv)) x).
  Definition raw_unhodge (A : alg) (x : mv R) : mv R :=
    todict (map (fun kv => let kd := pss_key A - fst kv in
                           (kd, if Z.ltb (sgn A kd (fst kv)) 0 then o_neg O (snd kv) else snd kv)) x).

  (* what alg.<op>(x, y) returns on the numeric path: generated keys in canonical order *)
  Definition gp A x y := canon_sort A (raw_gp A x y).
  Definition op A x y := canon_sort A (raw_op A x y).
  Definition ip A x y := canon_sort A (raw_ip A x y).
  Definition lc A x y := canon_sort A (raw_lc A x y).
  Definition rc A x y := canon_sort A (raw_rc A x y).
  Definition sp A x y := canon_sort A (raw_sp A x y).
  Definition cp A x y := canon_sort A (raw_cp A x y).
  Definition acp A x y := canon_sort A (raw_acp A x y).
  Definition rp A x y := canon_sort A (raw_rp A x y).
  Definition add A x y := canon_sort A (raw_add x y).
  Definition sub A x y := canon_sort A (raw_sub x y).
  Definition neg A x := canon_sort A (raw_neg x).
  Definition reverse A x := canon_sort A (raw_involution grades_reverse x).
  Definition involute A x := canon_sort A (raw_involution grades_involute x).
  Definition conjugate A x := canon_sort A (raw_involution grades_conjugate x).
  Definition hodge A x := canon_sort A (raw_hodge A x).
  Definition unhodge A x := canon_sort A (raw_unhodge A x).

  (* the pseudoscalar blade: alg.pss = blades[bin2canon[2**d - 1]] *)
  Definition pss_mv (A : alg) : mv R := [(pss_key A, o_one O)].
  (* codegen_polarity / codegen_unpolarity *)
  Definition polarity (A : alg) (x : mv R) : res (mv R) :=
    let s := sgn A (pss_key A) (pss_key A) in
    if Z.eqb s (-1) then Ok (gp A (neg A x) (pss_mv A))
    else if Z.eqb s 1 then Ok (gp A x (pss_mv A))
    else if Z.eqb s 0 then Err EZeroDiv
    else Err EOther.                       (* codegen returns None: do_codegen fails *)
  Definition unpolarity (A : alg) (x : mv R) : mv R := gp A x (pss_mv A).

  (* MultiVector.dual(kind) / undual(kind): polarity for r = 0, Hodge for r = 1 *)
  Definition alg_r (A : alg) : nat := count_sig 0 (a_sig A).
  Definition dual (A : alg) (k : dual_kind) (x : mv R) : res (mv R) :=
    match k with
    | KPolarity => polarity A x
    | KHodge => Ok (hodge A x)
    | KAuto => if Nat.eqb (alg_r A) 0 then polarity A x
               else if Nat.eqb (alg_r A) 1 then Ok (hodge A x) else Err EOther
    | KUnknown => Err EValue
    end.
  Definition undual (A : alg) (k : dual_kind) (x : mv R) : res (mv R) :=
    match k with
    | KPolarity => Ok (unpolarity A x)
    | KHodge => Ok (unhodge A x)
    | KAuto => if Nat.eqb (alg_r A) 0 then Ok (unpolarity A x)
               else if Nat.eqb (alg_r A) 1 then Ok (unhodge A x) else Err EOther
    | KUnknown => Err EValue
    end.

  (* MultiVector.grade( grades ): stored coefficients of the requested grades, canonical order *)
  Definition grade_sel (A : alg) (grades : list nat) (x : mv R) : res (mv R) :=
    ks <- indices_for_grades A grades ;;
    Ok (flat_map (fun k => if zin k (keys x) then [(k, coeff O k x)] else []) ks).
End Ops.

Definition mv_eqb (x y : mv Z) : bool := list_eqb (pair_eqb Z.eqb Z.eqb) x y.

(* observation level of the product properties: the same coefficient on every blade and the same
   SET of stored blades (order of storage is not observed) *)
Definition mv_same (A : alg) (x y : mv Z) : bool :=
  forallb (fun k => Z.eqb (coeff Zops k x) (coeff Zops k y) && Bool.eqb (zin k (keys x)) (zin k (keys y))) (canon_keys A)
  && forallb (fun k => zin k (canon_keys A)) (keys x) && forallb (fun k => zin k (canon_keys A)) (keys y)
  && Nat.eqb (length x) (length y).
(* only the coefficients (absent = 0) *)
Definition mv_equiv (A : alg) (x y : mv Z) : bool :=
  forallb (fun k => Z.eqb (coeff Zops k x) (coeff Zops k y)) (canon_keys A)
  && forallb (fun k => zin k (canon_keys A)) (keys x) && forallb (fun k => zin k (canon_keys A)) (keys y).
Definition resmv_same (A : alg) (x y : res (mv Z)) : bool :=
  match x, y with Ok a, Ok b => mv_same A a b | Err a, Err b => err_eqb a b | _, _ => false end.
