(* Model/Util.v — small executable helpers shared by the model files.  No proofs. *)
From Coq Require Export List ZArith Bool Arith.
Export ListNotations.

(* Result of a modelled Python call: a value or the class of the raised exception. *)
Inductive err := EValue | EKey | EType | EZeroDiv | EIndex | EAttr | EAlgebra | ENotImpl | EFuel | EOther.
Inductive res (A : Type) := Ok (a : A) | Err (e : err).
Arguments Ok {A} a. Arguments Err {A} e.

Definition bind {A B} (x : res A) (f : A -> res B) : res B :=
  match x with Ok a => f a | Err e => Err e end.
Notation "x <- e1 ;; e2" := (bind e1 (fun x => e2)) (at level 61, e1 at next level, right associativity).
Notation "' p <- e1 ;; e2" := (bind e1 (fun x => let p := x in e2)) (at level 61, p pattern, e1 at next level, right associativity).

Definition of_opt {A} (e : err) (o : option A) : res A := match o with Some a => Ok a | None => Err e end.

Definition err_eqb (a b : err) : bool :=
  match a, b with
  | EValue, EValue | EKey, EKey | EType, EType | EZeroDiv, EZeroDiv | EIndex, EIndex
  | EAttr, EAttr | EAlgebra, EAlgebra | ENotImpl, ENotImpl | EFuel, EFuel | EOther, EOther => true
  | _, _ => false
  end.

Definition res_eqb {A} (eqb : A -> A -> bool) (x y : res A) : bool :=
  match x, y with Ok a, Ok b => eqb a b | Err a, Err b => err_eqb a b | _, _ => false end.

Fixpoint list_eqb {A} (eqb : A -> A -> bool) (l1 l2 : list A) : bool :=
  match l1, l2 with
  | [], [] => true
  | a :: r1, b :: r2 => eqb a b && list_eqb eqb r1 r2
  | _, _ => false
  end.

Definition pair_eqb {A B} (ea : A -> A -> bool) (eb : B -> B -> bool) (x y : A * B) : bool :=
  ea (fst x) (fst y) && eb (snd x) (snd y).

Definition opt_eqb {A} (eqb : A -> A -> bool) (x y : option A) : bool :=
  match x, y with Some a, Some b => eqb a b | None, None => true | _, _ => false end.

(* indices of the [false] entries of a list of per-case verdicts (what a cases file prints) *)
Fixpoint false_idx_from (i : nat) (l : list bool) : list nat :=
  match l with [] => [] | b :: r => if b then false_idx_from (S i) r else i :: false_idx_from (S i) r end.
Definition false_idx := false_idx_from 0.

(* association lists = Python dicts with insertion order *)
Fixpoint zassoc {V} (k : Z) (d : list (Z * V)) : option V :=
  match d with [] => None | (k', v) :: r => if Z.eqb k' k then Some v else zassoc k r end.
Definition zmem {V} (k : Z) (d : list (Z * V)) : bool := match zassoc k d with Some _ => true | None => false end.
Fixpoint zset {V} (k : Z) (v : V) (d : list (Z * V)) : list (Z * V) :=   (* d[k] = v, keeps position *)
  match d with
  | [] => [(k, v)]
  | (k', v') :: r => if Z.eqb k' k then (k', v) :: r else (k', v') :: zset k v r
  end.
Definition zin (k : Z) (l : list Z) : bool := existsb (Z.eqb k) l.
Fixpoint zindex (k : Z) (l : list Z) : option nat :=
  match l with [] => None | x :: r => if Z.eqb x k then Some 0%nat else option_map S (zindex k r) end.

(* popcount = bin(k).count('1') for k >= 0 *)
Fixpoint pos_popcount (p : positive) : Z :=
  match p with xH => 1 | xO q => pos_popcount q | xI q => 1 + pos_popcount q end%Z.
Definition popcount (k : Z) : Z :=
  match k with Z0 => 0 | Zpos p => pos_popcount p | Zneg p => pos_popcount p end%Z.
