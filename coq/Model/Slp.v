(* Model/Slp.v — the TEXT kingdon generates (codegen.py: do_codegen -> lambdify -> KingdonPrinter.doprint,
   optionally after sympy.cse; func_builder) as a straight-line program, and its evaluation in any
   coefficient structure.  Executable definitions only, no proofs (see Theory/Slp.v).

   A generated function is
        def codegen_gp_6_x_6(A, B):
            [a1, a2] = A                   # p_unpack: one list of names per positional argument, in order
            [b1, b2] = B
            x0 = a1*b2                     # p_lets:   only with cse
            return [a1*b1 + a2*b2, x0 - a2*b1]          # p_ret
   tools/genvalidate.py parses exactly this shape with python's `ast` (anything else: untranslatable, fail
   closed).  Variables are python identifiers (strings), function-local; name resolution happens HERE (the
   environment is the dict of locals: the latest binding of a name wins), not in the translator.
   Exceptions: a name that is not bound = NameError (EOther); `[n1, .., nk] = arg` with len(arg) <> k =
   ValueError; a wrong number of positional arguments = TypeError. *)
From Coq Require Export String.
From KV Require Export Model.Util Model.Codegen Model.Composite Model.Graded Model.Poly.
Local Open Scope Z_scope.

Inductive sexp :=
| XVar (v : string)                 (* a name *)
| XInt (z : Z)                      (* an integer literal *)
| XAdd (a b : sexp)                 (* a + b *)
| XSub (a b : sexp)                 (* a - b *)
| XMul (a b : sexp)                 (* a * b *)
| XNeg (a : sexp)                   (* -a *)
| XPow (a : sexp) (n : nat).        (* a ** n, n a literal natural number *)

Record prog := mkProg {
  p_unpack : list (list string);
  p_lets : list (string * sexp);
  p_ret : list sexp;
}.

Fixpoint slookup {V} (v : string) (rho : list (string * V)) : option V :=
  match rho with [] => None | (w, x) :: r => if String.eqb w v then Some x else slookup v r end.

Fixpoint res_mapM {A B} (f : A -> res B) (l : list A) : res (list B) :=
  match l with
  | [] => Ok []
  | a :: r => b <- f a ;; bs <- res_mapM f r ;; Ok (b :: bs)
  end.

Section Eval.
  Context {R : Type} (O : ops R) (inj : Z -> R).

  Definition senv := list (string * R).     (* the locals; the head is the latest binding *)

  Fixpoint pow_nat (x : R) (n : nat) : R :=
    match n with 0%nat => o_one O | S k => o_mul O x (pow_nat x k) end.

  Fixpoint sexp_eval (rho : senv) (e : sexp) : res R :=
    match e with
    | XVar v => of_opt EOther (slookup v rho)
    | XInt z => Ok (inj z)
    | XAdd a b => x <- sexp_eval rho a ;; y <- sexp_eval rho b ;; Ok (o_add O x y)
    | XSub a b => x <- sexp_eval rho a ;; y <- sexp_eval rho b ;; Ok (o_sub O x y)
    | XMul a b => x <- sexp_eval rho a ;; y <- sexp_eval rho b ;; Ok (o_mul O x y)
    | XNeg a => x <- sexp_eval rho a ;; Ok (o_neg O x)
    | XPow a n => x <- sexp_eval rho a ;; Ok (pow_nat x n)
    end.

  (* [n1, ..., nk] = arg *)
  Definition bind_unpack (rho : senv) (names : list string) (vals : list R) : res senv :=
    if Nat.eqb (length names) (length vals) then Ok (rev (combine names vals) ++ rho) else Err EValue.

  Fixpoint bind_args (rho : senv) (unp : list (list string)) (args : list (list R)) : res senv :=
    match unp, args with
    | [], [] => Ok rho
    | ns :: unp', a :: args' => rho' <- bind_unpack rho ns a ;; bind_args rho' unp' args'
    | _, _ => Err EType
    end.

  Fixpoint run_lets (rho : senv) (lets : list (string * sexp)) : res senv :=
    match lets with
    | [] => Ok rho
    | (v, e) :: r => x <- sexp_eval rho e ;; run_lets ((v, x) :: rho) r
    end.

  Definition slp_eval (p : prog) (args : list (list R)) : res (list R) :=
    rho <- bind_args [] (p_unpack p) args ;;
    rho' <- run_lets rho (p_lets p) ;;
    res_mapM (sexp_eval rho') (p_ret p).
End Eval.

(* ---- common-subexpression elimination undone: substitute the lets away ---- *)
Fixpoint sexp_subst (sg : list (string * sexp)) (e : sexp) : sexp :=
  match e with
  | XVar v => match slookup v sg with Some e' => e' | None => XVar v end
  | XInt z => XInt z
  | XAdd a b => XAdd (sexp_subst sg a) (sexp_subst sg b)
  | XSub a b => XSub (sexp_subst sg a) (sexp_subst sg b)
  | XMul a b => XMul (sexp_subst sg a) (sexp_subst sg b)
  | XNeg a => XNeg (sexp_subst sg a)
  | XPow a n => XPow (sexp_subst sg a) n
  end.

Fixpoint inline_lets (sg : list (string * sexp)) (lets : list (string * sexp)) : list (string * sexp) :=
  match lets with
  | [] => sg
  | (v, e) :: r => inline_lets ((v, sexp_subst sg e) :: sg) r
  end.

Definition inline (p : prog) : prog :=
  mkProg (p_unpack p) [] (map (sexp_subst (inline_lets [] (p_lets p))) (p_ret p)).

(* every let refers only to unpacked names and earlier lets *)
Definition sin (v : string) (l : list string) : bool := existsb (String.eqb v) l.
Fixpoint vars_in (bound : list string) (e : sexp) : bool :=
  match e with
  | XVar v => sin v bound
  | XInt _ => true
  | XAdd a b | XSub a b | XMul a b => vars_in bound a && vars_in bound b
  | XNeg a | XPow a _ => vars_in bound a
  end.
Fixpoint lets_scoped (bound : list string) (lets : list (string * sexp)) : bool :=
  match lets with
  | [] => true
  | (v, e) :: r => vars_in bound e && lets_scoped (v :: bound) r
  end.
Definition well_scoped (p : prog) : bool := lets_scoped (concat (p_unpack p)) (p_lets p).

(* ---- the model operators, by tag, for every coefficient structure.  Elementary operators: what do_codegen
   stores (canonical order; complete grades in graded mode: Model/Graded.v [finish], = canon_sort when the algebra
   is not graded).  sw / proj / normsq: the compositions of Model/Composite.v. ---- *)
Inductive gop2 := G2gp | G2op | G2ip | G2lc | G2rc | G2sp | G2cp | G2acp | G2rp | G2add | G2sub | G2sw | G2proj.
Inductive gop1 := G1neg | G1reverse | G1involute | G1conjugate | G1hodge | G1unhodge | G1normsq.

Definition model2 (o : gop2) (A : alg) (R : Type) (O : ops R) (x y : mv R) : mv R :=
  match o with
  | G2gp => finish O A (raw_gp O A x y) | G2op => finish O A (raw_op O A x y)
  | G2ip => finish O A (raw_ip O A x y) | G2lc => finish O A (raw_lc O A x y)
  | G2rc => finish O A (raw_rc O A x y) | G2sp => finish O A (raw_sp O A x y)
  | G2cp => finish O A (raw_cp O A x y) | G2acp => finish O A (raw_acp O A x y)
  | G2rp => finish O A (raw_rp O A x y)
  | G2add => finish O A (raw_add O x y) | G2sub => finish O A (raw_sub O x y)
  | G2sw => sw O A x y | G2proj => proj O A x y
  end.
Definition model1 (o : gop1) (A : alg) (R : Type) (O : ops R) (x : mv R) : mv R :=
  match o with
  | G1neg => finish O A (raw_neg O x)
  | G1reverse => finish O A (raw_involution O grades_reverse x)
  | G1involute => finish O A (raw_involution O grades_involute x)
  | G1conjugate => finish O A (raw_involution O grades_conjugate x)
  | G1hodge => finish O A (raw_hodge O A x) | G1unhodge => finish O A (raw_unhodge O A x)
  | G1normsq => normsq O A x
  end.

(* ---- validation: the program, run on INDETERMINATES (kingdon's own polynomial class, Model/Poly.v), against the
   model operator on the indeterminate multivectors with the same keys ---- *)
Definition PolyOps : ops poly := mkOps poly padd psub pmul pneg (P_of_Z 0) (P_of_Z 1).
Definition indets (off n : nat) : list poly := map P_of_var (seq off n).

(* exact level: the same stored keys in the same order, and per position the same polynomial *)
Definition agree_exact (kout : list Z) (out : list poly) (M : mv poly) : bool :=
  list_eqb Z.eqb kout (keys M) && list_eqb peq out (map snd M).
(* coefficient level: the same polynomial on every blade, absent = 0 (the composites drop identically-zero blades) *)
Definition agree_coeff (kout : list Z) (out : list poly) (M : mv poly) : bool :=
  Nat.eqb (length out) (length kout) &&
  forallb (fun K => peq (coeff PolyOps K (combine kout out)) (coeff PolyOps K M)) (kout ++ keys M).

Definition validate2_with (agree : list Z -> list poly -> mv poly -> bool)
           (F : forall T, ops T -> mv T -> mv T -> mv T) (kx ky kout : list Z) (p : prog) : bool :=
  let X := indets 0 (length kx) in
  let Y := indets (length kx) (length ky) in
  match slp_eval PolyOps P_of_Z p [X; Y] with
  | Ok out => agree kout out (F poly PolyOps (combine kx X) (combine ky Y))
  | Err _ => false
  end.
Definition validate1_with (agree : list Z -> list poly -> mv poly -> bool)
           (F : forall T, ops T -> mv T -> mv T) (kx kout : list Z) (p : prog) : bool :=
  let X := indets 0 (length kx) in
  match slp_eval PolyOps P_of_Z p [X] with
  | Ok out => agree kout out (F poly PolyOps (combine kx X))
  | Err _ => false
  end.
Definition validate2 := validate2_with agree_exact.
Definition validate1 := validate1_with agree_exact.
Definition validate2c := validate2_with agree_coeff.
Definition validate1c := validate1_with agree_coeff.

(* on concrete integers (used to exhibit a concrete failing input once a validation failed) *)
Definition agree_exact_Z (kout : list Z) (out : list Z) (M : mv Z) : bool :=
  list_eqb Z.eqb kout (keys M) && list_eqb Z.eqb out (map snd M).
Definition agree_coeff_Z (kout : list Z) (out : list Z) (M : mv Z) : bool :=
  Nat.eqb (length out) (length kout) &&
  forallb (fun K => Z.eqb (coeff Zops K (combine kout out)) (coeff Zops K M)) (kout ++ keys M).
