(* Model/Alg.v — kingdon.algebra.Algebra: signature, blade names, canon2bin/bin2canon,
   the sign table (_prepare_signs/_compute_sign), cayley, _blade2canon, indices_for_grade(s).
   Hand-written after the Python, function by function.  No proofs. *)
From KV Require Export Model.Swap.
Local Open Scope Z_scope.

Record alg := mkAlg {
  a_sig   : list Z;             (* self.signature (by digit - start_index) *)
  a_start : Z;                  (* self.start_index *)
  a_d     : nat;                (* self.d *)
  a_c2b   : list (name * Z);    (* self.canon2bin.items(), dict order = canonical order *)
  a_graded : bool;
}.

Definition name_eqb : name -> name -> bool := list_eqb Nat.eqb.

(* sort key (len(name), name): hex digits compare like their values *)
Fixpoint lex_ltb (a b : name) : bool :=
  match a, b with
  | [], [] => false
  | [], _ :: _ => true
  | _ :: _, [] => false
  | x :: r, y :: s => if Nat.ltb x y then true else if Nat.ltb y x then false else lex_ltb r s
  end.
Definition key_ltb (a b : name) : bool :=
  if Nat.ltb (length a) (length b) then true
  else if Nat.ltb (length b) (length a) then false else lex_ltb a b.

Fixpoint insert_sorted (x : name * Z) (l : list (name * Z)) : list (name * Z) :=   (* stable *)
  match l with
  | [] => [x]
  | y :: r => if key_ltb (fst x) (fst y) then x :: y :: r else y :: insert_sorted x r
  end.
Definition sort_c2b (l : list (name * Z)) : list (name * Z) := fold_left (fun acc x => insert_sorted x acc) l [].

(* default basis: name of bitmask k = digits (ei + start_index) of its set bits, ascending ei *)
Definition default_name (d : nat) (start : Z) (k : Z) : name :=
  flat_map (fun ei => if Z.testbit k (Z.of_nat ei) then [Z.to_nat (Z.of_nat ei + start)] else []) (seq 0 d).
Definition zrange (n : nat) : list Z := map Z.of_nat (seq 0 n).
Definition default_c2b (d : nat) (start : Z) : list (name * Z) :=
  sort_c2b (map (fun k => (default_name d start k, k)) (zrange (2 ^ d))).

(* custom basis: vecs = names of length 1 in basis order, vec2bin[v] = 2**j,
   canon2bin[eJ] = xor of vec2bin over its digits; None = KeyError *)
Fixpoint vec2bin_from (j : nat) (vecs : list nat) (g : nat) : option Z :=
  match vecs with
  | [] => None
  | v :: r => match vec2bin_from (S j) r g with        (* later duplicates overwrite *)
              | Some b => Some b
              | None => if Nat.eqb v g then Some (2 ^ Z.of_nat j) else None
              end
  end.
Definition vecs_of (basis : list name) : list nat :=
  flat_map (fun n => match n with [g] => [g] | _ => [] end) basis.
Fixpoint name_bin (vecs : list nat) (n : name) : option Z :=
  match n with
  | [] => Some 0
  | g :: r => match vec2bin_from 0 vecs g, name_bin vecs r with
              | Some b, Some acc => Some (Z.lxor b acc)
              | _, _ => None
              end
  end.
Fixpoint custom_c2b_aux (vecs : list nat) (basis : list name) : option (list (name * Z)) :=
  match basis with
  | [] => Some []
  | n :: r => match name_bin vecs n, custom_c2b_aux vecs r with
              | Some b, Some acc => Some ((n, b) :: acc)
              | _, _ => None
              end
  end.
Definition custom_c2b (basis : list name) := custom_c2b_aux (vecs_of basis) basis.

(* signature from p, q, r (PGA: the null vector first) and default start index *)
Definition sig_of_pqr (p q r : nat) : list Z :=
  if Nat.eqb r 1 then repeat 0 r ++ repeat 1 p ++ repeat (-1) q
  else repeat 1 p ++ repeat (-1) q ++ repeat 0 r.
Definition count_sig (s : Z) (l : list Z) : nat := length (filter (Z.eqb s) l).
Definition default_start (sig : list Z) : Z := if Nat.eqb (count_sig 0 sig) 1 then 0 else 1.

Definition mk_default (sig : list Z) (start : Z) (graded : bool) : alg :=
  mkAlg sig start (length sig) (default_c2b (length sig) start) graded.
Definition min_nat (l : list nat) : nat := fold_left Nat.min l (hd 0%nat l).
Definition mk_custom (sig : list Z) (basis : list name) (graded : bool) : res alg :=
  c2b <- of_opt EKey (custom_c2b basis) ;;
  Ok (mkAlg sig (Z.of_nat (min_nat (vecs_of basis))) (length sig) c2b graded).

Definition alg_len (A : alg) : Z := 2 ^ Z.of_nat (a_d A).
Definition pss_key (A : alg) : Z := alg_len A - 1.

Fixpoint find_by_bin (k : Z) (l : list (name * Z)) : option name :=
  match l with [] => None | (n, b) :: r => if Z.eqb b k then Some n else find_by_bin k r end.
Fixpoint find_by_name (n : name) (l : list (name * Z)) : option Z :=
  match l with [] => None | (m, b) :: r => if name_eqb m n then Some b else find_by_name n r end.
Definition bin2canon (A : alg) (k : Z) : option name := find_by_bin k (a_c2b A).
Definition canon2bin (A : alg) (n : name) : option Z := find_by_name n (a_c2b A).
Definition canon_keys (A : alg) : list Z := map snd (a_c2b A).          (* canon2bin.values() *)

(* self.signature[int(key, 16) - self.start_index]  (numpy: negative indices wrap) *)
Definition sig_at (A : alg) (g : nat) : option Z :=
  let i := Z.of_nat g - a_start A in
  let n := Z.of_nat (length (a_sig A)) in
  if (i <? - n) || (n <=? i) then None
  else nth_error (a_sig A) (Z.to_nat (if i <? 0 then i + n else i)).

Fixpoint metric_of (A : alg) (elim : name) (s : Z) : option Z :=
  match elim with
  | [] => Some s
  | g :: r => match sig_at A g with Some m => metric_of A r (s * m) | None => None end
  end.

(* _compute_sign on spellings, and on the bit keys *)
Definition sign_names (A : alg) (n1 n2 target : name) : res Z :=
  '(swaps, _, elim) <- of_opt EValue (swap_blades n1 n2 target) ;;
  of_opt EIndex (metric_of A elim (if Z.odd swaps then -1 else 1)).
Definition compute_sign (A : alg) (I J : Z) : res Z :=
  nI <- of_opt EKey (bin2canon A I) ;;
  nJ <- of_opt EKey (bin2canon A J) ;;
  t <- of_opt EKey (bin2canon A (Z.lxor I J)) ;;
  sign_names A nI nJ t.
(* total version used as the [signs] parameter of the code generators; errors cannot
   occur for keys of a well-formed algebra (Theory/Sign.v) *)
Definition sgn (A : alg) (I J : Z) : Z := match compute_sign A I J with Ok s => s | Err _ => 0 end.

(* the eager table: for (eI, I), (eJ, J) in product(canon2bin.items(), repeat=2) *)
Definition signs_table (A : alg) : list (Z * Z * res Z) :=
  map (fun p => (snd (fst p), snd (snd p), compute_sign A (snd (fst p)) (snd (snd p))))
      (list_prod (a_c2b A) (a_c2b A)).

(* cayley: (eI, eJ) -> (sign, name of I ^ J)  rendered '-e12' / 'e12' / '0' by the harness *)
Definition cayley_entry (A : alg) (I J : Z) : res (Z * option name) :=
  s <- compute_sign A I J ;;
  if Z.eqb s 0 then Ok (0, None) else Ok (s, bin2canon A (Z.lxor I J)).

(* indices_for_grade / indices_for_grades *)
Definition indices_for_grade (A : alg) (g : nat) : list Z :=
  map snd (filter (fun nb => Nat.eqb (length (fst nb)) g) (a_c2b A)).
Fixpoint strictly_inc (l : list nat) : bool :=
  match l with
  | a :: ((b :: _) as r) => Nat.ltb a b && strictly_inc r
  | _ => true
  end.
Definition indices_for_grades (A : alg) (grades : list nat) : res (list Z) :=
  if strictly_inc grades && forallb (fun g => Nat.leb g (a_d A)) grades
  then Ok (flat_map (indices_for_grade A) grades) else Err EKey.

(* _blade2canon: (Some canonical name | None = a blade outside the algebra, number of swaps) *)
Definition gen_bin (A : alg) (g : nat) : Z :=
  match canon2bin A [g] with Some b => b | None => alg_len A end.
Definition blade2canon (A : alg) (n : name) : option name * Z :=
  match canon2bin A n with
  | Some _ => (Some n, 0)
  | None =>
      let b := fold_left (fun acc g => Z.lor acc (gen_bin A g)) n 0 in
      match bin2canon A b with
      | Some c => match swap_blades n [] c with
                  | Some (sw, _, _) => (Some c, sw)
                  | None => (None, 0)       (* cannot happen: c's letters all occur in n *)
                  end
      | None => (None, 0)
      end
  end.
