From KV Require Export Model.Util Model.Swap Model.Alg Model.Codegen.
