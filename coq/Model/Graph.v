(* Model/Graph.v — kingdon/graph.py (walker, encode, GraphWidget) and the front end kingdon/graph.js
   (toElement, decode): the payload sent to ganja.js and the write-back of dragged points.  No proofs.

   An algebra is represented only by  canon = list(algebra.canon2bin.values())  (canonical key order).
   Coefficients are in Z.  Array-valued multivectors are modelled with ONE trailing dimension.

   What the Python code does (read off graph.py):
   - walker builds Python LISTS only: a tuple item is replaced by  walker(item)  which is a list, so tuples
     and lists are indistinguishable in widget.subjects.  PTuple is therefore NEVER produced by the encoder
     (it is kept in the type for the interface; decode treats it like a JSON array).
   - encode(o, root=True) on a list/tuple yields one generator per child; walker splices (extend) each of
     them into the result: the top level is flattened by exactly one level.
   - a nested list/tuple yields ONE item  o.__class__(generators)  which walker turns into ONE nested list
     whose content is the spliced encodings of the children.
   - an array-valued multivector (len(o.shape) > 1) yields one generator per trailing index; they are spliced:
     it contributes n items {'mv':…} to the ENCLOSING list (n = 0 is possible: it then disappears).
   - a callable yields the generator  encode(o())  which walker splices: the callable contributes exactly
     what its result would contribute at the same place (a returned multivector: one {'mv':…}; a returned
     list: ONE nested list, not spliced; a returned array-valued multivector: n items).
   - 'keys' is sent unless  tuple(o._keys) == tuple(algebra.canon2bin.values()).
   - o.shape evaluates  self._values[0]  for list values: a multivector WITHOUT any key (empty _values list)
     raises IndexError inside encode; see [encode_raises]. *)
From KV Require Export Model.Util.
Local Open Scope Z_scope.

(* a multivector value: keys, and per key the list of coefficients indexed by the trailing array index
   (shape () is arr = false with one-element lists; a 1-D array-valued multivector is arr = true with
   n-element lists). *)
Record gmv := mkG { g_keys : list Z; g_vals : list (list Z); g_arr : bool }.

Inductive subj :=                          (* what can be passed to Algebra.graph *)
| SNum (n : Z)            (* colour ints and other plain values: passed through *)
| SStr (s : nat)          (* a string, abstracted to an id: passed through *)
| SMv (m : gmv)
| SList (l : list subj)   (* list *)
| STuple (l : list subj)  (* tuple *)
| SCall (result : subj).  (* a zero-argument callable, modelled by the value it returns when called *)

Inductive payload :=                       (* what ends up in widget.subjects (JSON-like) *)
| PNum (n : Z) | PStr (s : nat)
| PMv (vals : list Z) (keys : option (list Z))     (* {'mv': values} or {'mv': values, 'keys': keys} *)
| PList (l : list payload)
| PTuple (l : list payload).               (* never produced: walker turns tuples into lists *)

Definition lz_eqb : list Z -> list Z -> bool := list_eqb Z.eqb.

(* ---- MultiVector.shape / itermv / __getitem__ ---- *)
(* shape[1] for an array-valued multivector: _values[0].shape[0] (resp. _values.shape[1]) *)
Definition mv_width (m : gmv) : nat := length (hd [] (g_vals m)).
(* self[(i,)]._values = [value[i] for value in values];  for a plain multivector  _values.copy()  is the
   same with i = 0 *)
Definition mv_at (m : gmv) (i : nat) : list Z := map (fun col => nth i col 0) (g_vals m).

(* ---- encode / walker ---- *)
(* the plain-MultiVector branch of encode *)
Definition encode_plain (canon keys vals : list Z) : payload :=
  if lz_eqb keys canon then PMv vals None else PMv vals (Some keys).

(* both MultiVector branches: len(o.shape) > 1 -> yield from (encode(value) for value in o.itermv()) *)
Definition encode_mv (canon : list Z) (m : gmv) : list payload :=
  if g_arr m
  then map (fun i => encode_plain canon (g_keys m) (mv_at m i)) (seq 0 (mv_width m))
  else [encode_plain canon (g_keys m) (mv_at m 0)].

(* walker(encode(o)) for a single non-root object: what one subject contributes to the enclosing list *)
Fixpoint encode_one (canon : list Z) (s : subj) : list payload :=
  match s with
  | SNum n => [PNum n]
  | SStr x => [PStr x]
  | SMv m => encode_mv canon m
  | SList l => [PList (flat_map (encode_one canon) l)]
  | STuple l => [PList (flat_map (encode_one canon) l)]     (* walker(item) is a list *)
  | SCall r => encode_one canon r                           (* yield encode(o()): spliced by walker *)
  end.

(* walker(encode(pre_subjects, root=True)) *)
Definition encode_root (canon : list Z) (pre : list subj) : list payload :=
  flat_map (encode_one canon) pre.

(* Python raises IndexError in MultiVector.shape (self._values[0]) for a multivector with no values *)
Fixpoint encode_raises (s : subj) : bool :=
  match s with
  | SNum _ | SStr _ => false
  | SMv m => match g_vals m with [] => true | _ => false end
  | SList l | STuple l => existsb encode_raises l
  | SCall r => encode_raises r
  end.

(* GraphWidget._get_pre_subjects: a single callable subject is called and its result taken as THE list of
   subjects when it is a list/tuple (wrapped in a list otherwise) *)
Definition pre_subjects (raw : list subj) : list subj :=
  match raw with
  | [SCall r] => match r with SList l | STuple l => l | _ => [r] end
  | _ => raw
  end.

(* GraphWidget.get_subjects for Algebra.graph( *raw ) *)
Definition graph_subjects (canon : list Z) (raw : list subj) : list payload :=
  encode_root canon (pre_subjects raw).

(* ---- get_key2idx: {k: i for i, k in enumerate(canon)}  (a later duplicate would overwrite) ---- *)
Fixpoint key2idx_from (i : nat) (canon : list Z) (k : Z) : option nat :=
  match canon with
  | [] => None
  | x :: r => match key2idx_from (S i) r k with
              | Some j => Some j
              | None => if Z.eqb x k then Some i else None
              end
  end.
Definition key2idx (canon : list Z) (k : Z) : option nat := key2idx_from 0 canon k.

(* ---- the front end (graph.js) ---- *)
Inductive elem :=
| ENum (n : Z) | EStr (s : nat)
| EMv (coeffs : list Z)        (* length = len(algebra), canonical order *)
| EList (l : list elem).

(* values[i] = v  (out of range: no effect on the modelled entries) *)
Fixpoint set_nth {A} (i : nat) (v : A) (l : list A) : list A :=
  match l, i with
  | [], _ => []
  | _ :: r, O => v :: r
  | x :: r, S i' => x :: set_nth i' v r
  end.

(* o['keys'].forEach((k, j) => values[key2idx[k]] = _values[j]) *)
Fixpoint place (canon : list Z) (keys : list Z) (j : nat) (vals : list Z) (acc : list Z) : list Z :=
  match keys with
  | [] => acc
  | k :: r => place canon r (S j) vals
                (match key2idx canon k with Some i => set_nth i (nth j vals 0) acc | None => acc end)
  end.

(* toElement *)
Definition to_element (canon : list Z) (vals : list Z) (keys : option (list Z)) : list Z :=
  match keys with
  | Some ks => place canon ks 0 vals (repeat 0 (length (nodup Z.eq_dec canon)))  (* Object.keys(key2idx).length *)
  | None => vals
  end.

(* decode = x => typeof x === 'object' && 'mv' in x ? toElement(x) : Array.isArray(x) ? x.map(decode) : x *)
Fixpoint decode (canon : list Z) (p : payload) : elem :=
  match p with
  | PNum n => ENum n
  | PStr s => EStr s
  | PMv vals keys => EMv (to_element canon vals keys)
  | PList l => EList (map (decode canon) l)
  | PTuple l => EList (map (decode canon) l)
  end.

(* ---- drag write-back: GraphWidget.inplacereplace for ONE (j, new_subject) pair ---- *)
(* if old_vals[j] != val: old_vals[j] = val     (plain multivector: the stored entry is one number) *)
Definition assign_ne (j : nat) (val : Z) (vals : list (list Z)) : list (list Z) :=
  if Z.eqb (hd 0 (nth j vals [])) val then vals else set_nth j [val] vals.

(* for j, val in enumerate(new_vals): ...    (Python: IndexError if new_vals is longer than old_vals) *)
Fixpoint inplace_pos (j : nat) (new : list Z) (vals : list (list Z)) : list (list Z) :=
  match new with
  | [] => vals
  | v :: r => inplace_pos (S j) r (assign_ne j v vals)
  end.

(* for j, k in enumerate(old_subject._keys): val = new_vals[self.key2idx[k]]; ...
   (Python: KeyError for a key outside the algebra: the loop stops there) *)
Fixpoint inplace_keyed (canon : list Z) (j : nat) (keys : list Z) (new : list Z) (vals : list (list Z))
  : list (list Z) :=
  match keys with
  | [] => vals
  | k :: r => match key2idx canon k with
              | Some i => inplace_keyed canon (S j) r new (assign_ne j (nth i new 0) vals)
              | None => vals
              end
  end.

Definition inplace_one (canon : list Z) (m : gmv) (new : list Z) : gmv :=
  if lz_eqb (g_keys m) canon
  then mkG (g_keys m) (inplace_pos 0 new (g_vals m)) (g_arr m)
  else mkG (g_keys m) (inplace_keyed canon 0 (g_keys m) new (g_vals m)) (g_arr m).

(* inplacereplace(old_subjects, zip(idxs, new)): old_subjects[j] is updated for each pair (only plain
   multivectors are meaningful targets; anything else is left alone here, Python raises) *)
Fixpoint inplace_all (canon : list Z) (pre : list subj) (upd : list (nat * list Z)) : list subj :=
  match upd with
  | [] => pre
  | (j, new) :: r =>
      inplace_all canon
        (match nth_error pre j with
         | Some (SMv m) => set_nth j (SMv (inplace_one canon m new)) pre
         | _ => pre
         end) r
  end.

(* get_draggable_points_idxs: indices IN pre_subjects of the MultiVector subjects; for PGA (r = 1 and
   d = 3 or 4) only those with grades == (d-1,), passed as  pga = Some (d-1) *)
Definition mv_pure_grade (g : Z) (m : gmv) : bool :=
  match g_keys m with [] => false | _ => forallb (fun k => Z.eqb (popcount k) g) (g_keys m) end.
Fixpoint draggable_idxs_from (j : nat) (pga : option Z) (pre : list subj) : list nat :=
  match pre with
  | [] => []
  | s :: r =>
      let rest := draggable_idxs_from (S j) pga r in
      match s with
      | SMv m => match pga with
                 | Some g => if mv_pure_grade g m then j :: rest else rest
                 | None => j :: rest
                 end
      | _ => rest
      end
  end.
Definition draggable_idxs := draggable_idxs_from 0.

(* get_draggable_points: the DEFAULT value of the trait, walker(encode(points)) with a NON-root list, i.e. ONE
   nested list holding the encoded points (the front end never reads it; it only overwrites the trait with a
   flat list  [{mv: [...canonical coefficients]}, ...]  in the order of draggable_points_idxs) *)
Definition is_draggable (pga : option Z) (s : subj) : bool :=
  match s with
  | SMv m => match pga with Some g => mv_pure_grade g m | None => true end
  | _ => false
  end.
Definition draggable_points_default (canon : list Z) (pga : option Z) (pre : list subj) : list payload :=
  encode_one canon (SList (filter (is_draggable pga) pre)).

(* ---- equality tests (for comparison with the real Python) ---- *)
Fixpoint payload_eqb (a b : payload) : bool :=
  let fix all (l1 l2 : list payload) : bool :=
    match l1, l2 with
    | [], [] => true
    | x :: r1, y :: r2 => payload_eqb x y && all r1 r2
    | _, _ => false
    end in
  match a, b with
  | PNum x, PNum y => Z.eqb x y
  | PStr x, PStr y => Nat.eqb x y
  | PMv v1 k1, PMv v2 k2 => lz_eqb v1 v2 && opt_eqb lz_eqb k1 k2
  | PList l1, PList l2 => all l1 l2
  | PTuple l1, PTuple l2 => all l1 l2
  | _, _ => false
  end.

Fixpoint elem_eqb (a b : elem) : bool :=
  let fix all (l1 l2 : list elem) : bool :=
    match l1, l2 with
    | [], [] => true
    | x :: r1, y :: r2 => elem_eqb x y && all r1 r2
    | _, _ => false
    end in
  match a, b with
  | ENum x, ENum y => Z.eqb x y
  | EStr x, EStr y => Nat.eqb x y
  | EMv v1, EMv v2 => lz_eqb v1 v2
  | EList l1, EList l2 => all l1 l2
  | _, _ => false
  end.

Definition gmv_eqb (a b : gmv) : bool :=
  lz_eqb (g_keys a) (g_keys b) && list_eqb lz_eqb (g_vals a) (g_vals b) && Bool.eqb (g_arr a) (g_arr b).
