(* Model/Inverse.v — kingdon.codegen: codegen_inv, codegen_hitzer_inv, codegen_shirokov_inv,
   AdditionChains.minimal_chains, power_supply, codegen_div; kingdon.multivector: inv, __truediv__,
   __rtruediv__, __pow__ (integer powers).  Hand-written after the Python, branch by branch and loop
   by loop.  Executable definitions only, NO proofs (see Theory/Inverse.v, Theory/Hitzer.v).

   Coefficients: a record [ops R] (Model/Codegen.v) extended by
     dv  : R -> R -> R     python `/` on coefficients (Fraction / float / RationalPolynomial division)
     isz : R -> bool       `not v` / `v == 0`   (truth value of a coefficient)
     F   : mv R -> mv R    OperatorDict.filter.  The generators below run on SYMBOLIC multivectors
                           (the inverse is generated once per key pattern over RationalPolynomial
                           symbols), where every elementary operator called through an OperatorDict
                           drops the coefficients that are identically zero; on numeric multivectors
                           (codegen_hitzer_inv / codegen_shirokov_inv called directly on numbers, as the
                           correspondence check does) nothing is dropped:  F = fun x => x.
   MultiVector.grade(...) and attribute access (.e) do not go through an OperatorDict: no filter. *)
From KV Require Export Model.Codegen Model.Composite.
From Coq Require Import QArith Qcanon.
Local Open Scope Z_scope.

Section Inverse.
  Context {R : Type} (O : ops R).
  Variable dv : R -> R -> R.
  Variable isz : R -> bool.
  Variable F : mv R -> mv R.
  Variable A : alg.

  (* the elementary operators as the generators call them: x * y, x - y, ~x, x.conjugate(),
     x.involute(), x.sp(y)  —  OperatorDict.__call__ followed by the filter *)
  Definition i_mul (x y : mv R) : mv R := F (gp O A x y).
  Definition i_sub (x y : mv R) : mv R := F (sub O A x y).
  Definition i_rev (x : mv R) : mv R := F (reverse O A x).
  Definition i_conj (x : mv R) : mv R := F (conjugate O A x).
  Definition i_invo (x : mv R) : mv R := F (involute O A x).
  Definition i_sp (x y : mv R) : mv R := F (sp O A x y).
  (* a coefficient used as an operand: MultiVector.fromkeysvalues(algebra, (0,), [c]) *)
  Definition scalar_mv (c : R) : mv R := [(0, c)].
  (* alg.blades.e *)
  Definition blade_e : mv R := [(0, o_one O)].
  (* the python ints 2, n, i as coefficients *)
  Fixpoint cst (n : nat) : R :=
    match n with
    | 0%nat => o_zero O
    | 1%nat => o_one O
    | S m => o_add O (cst m) (o_one O)
    end.
  (* x.e : coefficient of the scalar blade, 0 when absent *)
  Definition e_of (x : mv R) : R := coeff O 0 x.

  (* ---------------- codegen_hitzer_inv(x, symbolic=True): numerator, then denominator ---------- *)
  Definition hitzer_num (x : mv R) : res (mv R) :=
    match a_d A with
    | 0%nat => Ok blade_e                                   (* num = alg.blades.e *)
    | 1%nat => Ok (i_invo x)                                (* num = x.involute() *)
    | 2%nat => Ok (i_conj x)                                (* num = x.conjugate() *)
    | 3%nat => let xconj := i_conj x in
               Ok (i_mul xconj (i_rev (i_mul x xconj)))     (* xconj * ~(x * xconj) *)
    | 4%nat => let xconj := i_conj x in
               let x_xconj := i_mul x xconj in
               g <- grade_sel O A [3%nat; 4%nat] x_xconj ;;
               (* xconj * (x_xconj - 2 * x_xconj.grade(3, 4)) *)
               Ok (i_mul xconj (i_sub x_xconj (i_mul (scalar_mv (cst 2)) g)))
    | 5%nat => let xconj := i_conj x in
               let x_xconj := i_mul x xconj in
               let combo := i_mul xconj (i_rev x_xconj) in
               let x_combo := i_mul x combo in
               g <- grade_sel O A [1%nat; 4%nat] x_combo ;;
               (* combo * (x_combo - 2 * x_combo.grade(1, 4)) *)
               Ok (i_mul combo (i_sub x_combo (i_mul (scalar_mv (cst 2)) g)))
    | _ => Err ENotImpl
    end.
  (* denom = (x.sp(num)).e *)
  Definition hitzer_den (x num : mv R) : R := e_of (i_sp x num).
  Definition hitzer (x : mv R) : res (mv R * R) :=
    num <- hitzer_num x ;; Ok (num, hitzer_den x num).

  (* ---------------- AdditionChains(limit).minimal_chains ---------------- *)
  (* for left_summand in chain: value = left + right; if value <= limit and value not in chains: ... *)
  Definition chain_step (limit : Z) (chain : list Z) (chains : list (Z * list Z)) (left : Z)
    : list (Z * list Z) :=
    let value := left + last chain 0 in
    if (value <=? limit) && negb (zmem value chains) then zset value (chain ++ [value]) chains else chains.
  (* for chain in chains.copy().values(): ... *)
  Definition chains_pass (limit : Z) (chains : list (Z * list Z)) : list (Z * list Z) :=
    fold_left (fun cs chain => fold_left (chain_step limit chain) chain cs) (map snd chains) chains.
  (* while any(i not in chains for i in range(1, limit + 1)) *)
  Definition chains_missing (limit : Z) (chains : list (Z * list Z)) : bool :=
    existsb (fun i => negb (zmem i chains)) (map (fun i => Z.of_nat i) (seq 1 (Z.to_nat limit))).
  Fixpoint minimal_chains_loop (fuel : nat) (limit : Z) (chains : list (Z * list Z))
    : res (list (Z * list Z)) :=
    if chains_missing limit chains then
      match fuel with
      | 0%nat => Err EFuel
      | S f => minimal_chains_loop f limit (chains_pass limit chains)
      end
    else Ok chains.
  (* every pass adds at least max+1, so [limit] passes always suffice *)
  Definition minimal_chains (limit : Z) : res (list (Z * list Z)) :=
    minimal_chains_loop (Z.to_nat limit) limit [(1, [1])].

  (* ---------------- power_supply(x, exponents) : one `next(supply)` ---------------- *)
  (* chain[-2] *)
  Definition chain_penult (c : list Z) : option Z := nth_error (rev c) 1.
  (* if step not in powers: chain = addition_chains[step];
        powers[step] = operation(powers[chain[-2]], powers[step - chain[-2]])
     yield powers[step] *)
  Definition supply_next (chains : list (Z * list Z)) (pw : list (Z * mv R)) (step : Z)
    : res (list (Z * mv R) * mv R) :=
    match zassoc step pw with
    | Some v => Ok (pw, v)
    | None =>
        chain <- of_opt EKey (zassoc step chains) ;;
        c <- of_opt EIndex (chain_penult chain) ;;
        a <- of_opt EKey (zassoc c pw) ;;
        b <- of_opt EKey (zassoc (step - c) pw) ;;
        let v := i_mul a b in Ok (zset step v pw, v)
    end.
  (* list(power_supply(x, exponents)) for an explicit tuple of exponents *)
  Fixpoint power_supply_from (chains : list (Z * list Z)) (pw : list (Z * mv R)) (exponents : list Z)
    : res (list (mv R)) :=
    match exponents with
    | [] => Ok []
    | step :: r => '(pw', v) <- supply_next chains pw step ;;
                   vs <- power_supply_from chains pw' r ;; Ok (v :: vs)
    end.
  Definition zmax_list (l : list Z) : Z := fold_left Z.max l (hd 0 l).
  Definition power_supply (x : mv R) (exponents : list Z) : res (list (mv R)) :=
    chains <- minimal_chains (zmax_list exponents) ;;
    power_supply_from chains [(1, x)] exponents.

  (* ---------------- codegen_shirokov_inv(x, symbolic=True) ---------------- *)
  (* xi.grades == (0,) : the set of grades of the stored keys is exactly {0} *)
  Definition grades_is_0 (x : mv R) : bool :=
    match keys x with [] => false | ks => forallb (fun k => Z.eqb (popcount k) 0) ks end.
  (* for j in range(i - 1): xi = xi - powers[i - j - 2] * cs[j] *)
  Definition shirokov_xi (i : nat) (powers : list (mv R)) (cs : list R) (xi0 : mv R) : mv R :=
    fold_left (fun xi j => i_sub xi (i_mul (nth (i - j - 2)%nat powers []) (scalar_mv (nth j cs (o_zero O)))))
              (seq 0 (i - 1)) xi0.
  (* result of the for loop: (i, xi, xs, cs) as they stand after it (after `break` or exhaustion) *)
  Fixpoint shirokov_loop (chains : list (Z * list Z)) (n : nat) (is : list nat)
           (pw : list (Z * mv R)) (powers : list (mv R)) (cs : list R) (xs : list (mv R))
           (cur : nat * mv R) : res (nat * mv R * list (mv R) * list R) :=
    match is with
    | [] => Ok (fst cur, snd cur, xs, cs)
    | i :: is' =>
        '(pw', p) <- supply_next chains pw (Z.of_nat i) ;;        (* powers.append(next(supply)) *)
        let powers' := powers ++ [p] in
        let xi := shirokov_xi i powers' cs (nth (i - 1)%nat powers' []) in
        if grades_is_0 xi then Ok (i, xi, xs, cs)                  (* break *)
        else
          let s := e_of xi in
          (* cs.append(s if (s := xi.e) == 0 else n * s / i) *)
          let c := if isz s then s else dv (o_mul O (cst n) s) (cst i) in
          shirokov_loop chains n is' pw' powers' (cs ++ [c]) (xs ++ [xi]) (i, xi)
    end.
  Definition shirokov_n : nat := 2 ^ ((a_d A + 1) / 2).
  (* the for loop: (i, xi, xs, cs) after it *)
  Definition shirokov_run (x : mv R) : res (nat * mv R * list (mv R) * list R) :=
    let n := shirokov_n in
    chains <- minimal_chains (Z.of_nat n) ;;
    shirokov_loop chains n (seq 1 n) [(1, x)] [] [] [] (0%nat, []).
  (* if i == 1: adj = alg.blades.e  else: adj = xs[-1] - cs[-1];  return Fraction(adj, xi.e) *)
  Definition shirokov_adj (i : nat) (xs : list (mv R)) (cs : list R) : mv R :=
    if Nat.eqb i 1 then blade_e else i_sub (last xs []) (scalar_mv (last cs (o_zero O))).
  Definition shirokov (x : mv R) : res (mv R * R) :=
    '(i, xi, xs, cs) <- shirokov_run x ;;
    Ok (shirokov_adj i xs cs, e_of xi).

  (* ---------------- codegen_inv / codegen_div ---------------- *)
  (* codegen_inv(y, symbolic=True) *)
  Definition inv_numden (y : mv R) : res (mv R * R) :=
    if Nat.ltb (a_d A) 6 then hitzer y else shirokov y.
  (* alg.inv(y): denom_inv = 1 / denom raises ZeroDivisionError for a zero denominator (at generation
     time when it is identically zero — x.e of a filtered multivector is then the int 0 — and at call
     time when it evaluates to 0); yinv = num * d.e with d = 1 / denom *)
  Definition inv_model (y : mv R) : res (mv R) :=
    '(num, den) <- inv_numden y ;;
    if isz den then Err EZeroDiv
    else Ok (i_mul num (scalar_mv (dv (o_one O) den))).
  (* alg.div(x, y): num = x * num;  if not denom: raise ZeroDivisionError;  res = num * d.e *)
  Definition div_model (x y : mv R) : res (mv R) :=
    '(num, den) <- inv_numden y ;;
    let num' := i_mul x num in
    if isz den then Err EZeroDiv
    else Ok (i_mul num' (scalar_mv (dv (o_one O) den))).
  (* number / x  =  MultiVector.__rtruediv__: alg.div(number, x), the number wrapped as a scalar *)
  Definition rdiv_number (c : R) (x : mv R) : res (mv R) := div_model (scalar_mv c) x.
  (* x / number = alg.div(x, number) *)
  Definition div_number (x : mv R) (c : R) : res (mv R) := div_model x (scalar_mv c).

  (* MultiVector.__pow__ for an integer power:  0 -> scalar 1;  < 0 -> powers of x.inv() *)
  Definition pow_model (x : mv R) (p : Z) : res (mv R) :=
    if Z.eqb p 0 then Ok blade_e
    else if Z.ltb p 0 then
      xi <- inv_model x ;;
      Ok (fold_left (fun r _ => i_mul r xi) (seq 1 (Z.to_nat (- p) - 1)) xi)
    else Ok (fold_left (fun r _ => i_mul r x) (seq 1 (Z.to_nat p - 1)) x).
End Inverse.

(* ---------------- coefficient structures used by the correspondence check ---------------- *)
(* integers: the Hitzer numerator and denominator never divide *)
Definition Zisz (z : Z) : bool := Z.eqb z 0.
Definition Zdv (a b : Z) : Z := Z.div a b.
(* fractions.Fraction *)
Definition Qops : ops Q :=
  mkOps Q (fun a b => Qred (Qplus a b)) (fun a b => Qred (Qminus a b)) (fun a b => Qred (Qmult a b))
        (fun a => Qred (Qopp a)) (0 # 1)%Q (1 # 1)%Q.
Definition Qdv (a b : Q) : Q := Qred (Qdiv a b).
Definition Qisz (a : Q) : bool := Z.eqb (Qnum a) 0.
Definition qmv_equiv (A : alg) (x y : mv Q) : bool :=
  forallb (fun k => Qeq_bool (coeff Qops k x) (coeff Qops k y)) (canon_keys A)
  && forallb (fun k => zin k (canon_keys A)) (keys x) && forallb (fun k => zin k (canon_keys A)) (keys y).
Definition idF {R} (x : mv R) : mv R := x.
(* canonical fractions: a coefficient field with Leibniz equality (instance of the theorems) *)
Definition Qcops : ops Qc := mkOps Qc Qcplus Qcminus Qcmult Qcopp (Q2Qc 0) (Q2Qc 1).
Definition Qcisz (r : Qc) : bool := Qc_eq_bool r (Q2Qc 0).
