(* Model/SlpDiv.v — the TEXT kingdon generates for the operators that DIVIDE (codegen.py: codegen_inv, codegen_div ->
   do_codegen -> lambdify with `dependencies`), e.g.

        def codegen_inv_14(y):
            [a1, a2, a3] = y
            x0 = a2**2                        # cse lines
            d = 1/(a1**4 + ... + 2*x0*x1)     # the dependency: d = 1 / denominator
            return [a1**3*d + a1*d*x0 + a1*d*x1, ...]

   as a straight-line program over the expression language of Model/Slp.v EXTENDED WITH DIVISION, and three ways of running
   it.  Executable definitions only, no proofs (see Theory/SlpDiv.v).

     dslp_eval   the generic evaluator: any value type V with ring-like operations [ops V], the image of the python
                 integers, and a division that may raise;
     slpf_eval   python's own evaluation on numbers of a field-like coefficient structure:  a / b  raises
                 ZeroDivisionError when b tests zero and is [dv a b] otherwise;
     slpq_eval   evaluation into FRACTIONS (num, den) over any coefficient structure, by cross-multiplication, with NO
                 simplification:  (a,b) + (c,d) = (ad + cb, bd),  (a,b) * (c,d) = (ac, bd),  (a,b) / (c,d) = (ad, bc);
                 nothing is ever divided, nothing raises ZeroDivisionError (one shortcut, by a parameter: fractions with
                 the SAME denominator are added / subtracted on that denominator);
     slpq_dens   the denominators of ALL fractions met on the way (every sub-expression of every assignment and of every
                 returned expression, leaves included): the side condition under which the fractions describe what
                 slpf_eval computes is that none of them is zero.

   Exceptions as in Model/Slp.v: unbound name = NameError (EOther), wrong unpacking length = ValueError, wrong number
   of arguments = TypeError.

     validate_inv / validate_div   the program, run by slpq_eval on polynomial INDETERMINATES (kingdon's Polynomial class,
                 Model/Poly.v), against the numerator multivector and the scalar denominator of the model
                 (Model/Inverse.v: codegen_hitzer_inv, d <= 5; for codegen_div the numerator is x * num) on the
                 indeterminate operands, by CROSS-MULTIPLIED polynomial equality per blade
                       num_i * den_model == num_model_K * den_i
                 (absent blade = the fraction 0/1), and the output keys: the blades whose model numerator is not the
                 zero polynomial, in canonical order (what OperatorDict.filter leaves of  num * d.e ). *)
From Coq Require Export String.
From KV Require Export Model.Slp Model.Inverse.
Local Open Scope Z_scope.

Inductive dexp :=
| DVar (v : string)                 (* a name *)
| DInt (z : Z)                      (* an integer literal *)
| DAdd (a b : dexp)                 (* a + b *)
| DSub (a b : dexp)                 (* a - b *)
| DMul (a b : dexp)                 (* a * b *)
| DNeg (a : dexp)                   (* -a *)
| DPow (a : dexp) (n : nat)         (* a ** n, n a literal natural number *)
| DDiv (a b : dexp).                (* a / b *)

Record dprog := mkDProg {
  d_unpack : list (list string);
  d_lets : list (string * dexp);
  d_ret : list dexp;
}.

Definition ok_list {A} (r : res A) : list A := match r with Ok a => [a] | Err _ => [] end.

Section DEval.
  Context {V : Type} (O : ops V) (inj : Z -> V) (dvd : V -> V -> res V).

  Fixpoint dexp_eval (rho : list (string * V)) (e : dexp) : res V :=
    match e with
    | DVar v => of_opt EOther (slookup v rho)
    | DInt z => Ok (inj z)
    | DAdd a b => x <- dexp_eval rho a ;; y <- dexp_eval rho b ;; Ok (o_add O x y)
    | DSub a b => x <- dexp_eval rho a ;; y <- dexp_eval rho b ;; Ok (o_sub O x y)
    | DMul a b => x <- dexp_eval rho a ;; y <- dexp_eval rho b ;; Ok (o_mul O x y)
    | DNeg a => x <- dexp_eval rho a ;; Ok (o_neg O x)
    | DPow a n => x <- dexp_eval rho a ;; Ok (pow_nat O x n)
    | DDiv a b => x <- dexp_eval rho a ;; y <- dexp_eval rho b ;; dvd x y
    end.

  Fixpoint drun_lets (rho : list (string * V)) (lets : list (string * dexp)) : res (list (string * V)) :=
    match lets with
    | [] => Ok rho
    | (v, e) :: r => x <- dexp_eval rho e ;; drun_lets ((v, x) :: rho) r
    end.

  Definition dslp_eval (p : dprog) (args : list (list V)) : res (list V) :=
    rho <- bind_args [] (d_unpack p) args ;;
    rho' <- drun_lets rho (d_lets p) ;;
    res_mapM (dexp_eval rho') (d_ret p).

  (* every value met on the way: the values of all sub-expressions (in evaluation order, leaves included) *)
  Fixpoint dexp_trace (rho : list (string * V)) (e : dexp) : list V :=
    match e with
    | DVar _ | DInt _ => []
    | DAdd a b | DSub a b | DMul a b | DDiv a b => dexp_trace rho a ++ dexp_trace rho b
    | DNeg a | DPow a _ => dexp_trace rho a
    end ++ ok_list (dexp_eval rho e).

  Fixpoint dlets_trace (rho : list (string * V)) (lets : list (string * dexp)) : list V :=
    match lets with
    | [] => []
    | (v, e) :: r => dexp_trace rho e ++ match dexp_eval rho e with
                                         | Ok x => dlets_trace ((v, x) :: rho) r
                                         | Err _ => []
                                         end
    end.

  Definition dslp_trace (p : dprog) (args : list (list V)) : list V :=
    match bind_args [] (d_unpack p) args with
    | Ok rho => dlets_trace rho (d_lets p) ++
                match drun_lets rho (d_lets p) with
                | Ok rho' => flat_map (dexp_trace rho') (d_ret p)
                | Err _ => []
                end
    | Err _ => []
    end.
End DEval.

(* ---- python on numbers: `/` raises ZeroDivisionError on a zero divisor ---- *)
Definition fdiv {R} (dv : R -> R -> R) (isz : R -> bool) (x y : R) : res R :=
  if isz y then Err EZeroDiv else Ok (dv x y).
Definition slpf_eval {R} (O : ops R) (inj : Z -> R) (dv : R -> R -> R) (isz : R -> bool) : dprog -> list (list R) -> res (list R) :=
  dslp_eval O inj (fdiv dv isz).

(* ---- fractions by cross-multiplication, no simplification ----
   [deq] is a test on DENOMINATORS used by + and - only:  (a,b) + (c,b) = (a + c, b)  when it answers true, the cross-multiplied
   (ad + cb, bd) otherwise.  [no_deq] (never true) is the pure cross-multiplying evaluator; the validation uses structural
   equality of polynomials (without it the denominator of  a*d + b*d + c*d,  d = 1/D,  is D^3: the generated sums have up to
   a dozen terms).  Theory/SlpDiv.v proves everything for an arbitrary test that only answers true on denominators with the
   same value. ---- *)
Section Frac.
  Context {R : Type} (O : ops R) (deq : R -> R -> bool).
  Local Notation frac := (R * R)%type.
  Definition frac_of (x : R) : frac := (x, o_one O).
  Definition fr_add (a b : frac) : frac :=
    if deq (snd a) (snd b) then (o_add O (fst a) (fst b), snd a)
    else (o_add O (o_mul O (fst a) (snd b)) (o_mul O (fst b) (snd a)), o_mul O (snd a) (snd b)).
  Definition fr_sub (a b : frac) : frac :=
    if deq (snd a) (snd b) then (o_sub O (fst a) (fst b), snd a)
    else (o_sub O (o_mul O (fst a) (snd b)) (o_mul O (fst b) (snd a)), o_mul O (snd a) (snd b)).
  Definition fr_mul (a b : frac) : frac := (o_mul O (fst a) (fst b), o_mul O (snd a) (snd b)).
  Definition fr_neg (a : frac) : frac := (o_neg O (fst a), snd a).
  Definition fr_swap (a : frac) : frac := (snd a, fst a).
  Definition fr_div (a b : frac) : res frac := Ok (fr_mul a (fr_swap b)).
  Definition FracOps : ops frac := mkOps frac fr_add fr_sub fr_mul fr_neg (frac_of (o_zero O)) (frac_of (o_one O)).
End Frac.
Definition no_deq {R} (a b : R) : bool := false.

Definition slpq_eval {R} (O : ops R) (deq : R -> R -> bool) (inj : Z -> R) (p : dprog) (args : list (list R)) : res (list (R * R)) :=
  dslp_eval (FracOps O deq) (fun z => frac_of O (inj z)) (fr_div O) p (map (map (frac_of O)) args).
Definition slpq_dens {R} (O : ops R) (deq : R -> R -> bool) (inj : Z -> R) (p : dprog) (args : list (list R)) : list R :=
  map snd (dslp_trace (FracOps O deq) (fun z => frac_of O (inj z)) (fr_div O) p (map (map (frac_of O)) args)).

(* ---- validation on indeterminates ---- *)
Definition pisz (p : poly) : bool := peq_Z p 0.               (* `not p` / p == 0 of a Polynomial *)

(* the fraction the program returns on blade K: the first position of K in the output keys, absent = 0/1 *)
Definition frac_at (K : Z) (kout : list Z) (out : list (poly * poly)) : poly * poly :=
  match zassoc K (combine kout out) with Some f => f | None => (P_of_Z 0, P_of_Z 1) end.

Definition agree_frac (kout : list Z) (out : list (poly * poly)) (num : mv poly) (den : poly) : bool :=
  Nat.eqb (length out) (length kout) &&
  list_eqb Z.eqb kout (keys (filter_nz pisz num)) &&
  forallb (fun K => let f := frac_at K kout out in
                    peq (pmul (fst f) den) (pmul (coeff PolyOps K num) (snd f))) (kout ++ keys num).

(* numerator and denominator of the model on indeterminates: codegen_hitzer_inv (no coefficient is ever divided); the numeric
   path of the model (nothing filtered): identically-zero blades are dropped at the end, by the comparison of the keys *)
Definition inv_symbolic (A : alg) (ky : list Z) (off : nat) : res (mv poly * poly) :=
  hitzer PolyOps idF A (combine ky (indets off (length ky))).
Definition div_symbolic (A : alg) (kx ky : list Z) : res (mv poly * poly) :=
  '(num, den) <- inv_symbolic A ky (length kx) ;;
  Ok (gp PolyOps A (combine kx (indets 0 (length kx))) num, den).

Definition validate_inv (A : alg) (ky kout : list Z) (p : dprog) : bool :=
  match inv_symbolic A ky 0, slpq_eval PolyOps poly_eqb P_of_Z p [indets 0 (length ky)] with
  | Ok (num, den), Ok out => agree_frac kout out num den
  | _, _ => false
  end.
Definition validate_div (A : alg) (kx ky kout : list Z) (p : dprog) : bool :=
  match div_symbolic A kx ky, slpq_eval PolyOps poly_eqb P_of_Z p [indets 0 (length kx); indets (length kx) (length ky)] with
  | Ok (num, den), Ok out => agree_frac kout out num den
  | _, _ => false
  end.

(* on concrete fractions (used to exhibit a concrete failing input once a validation failed): the values the real function
   returned, as integer pairs (numerator, denominator), against the model over the canonical rationals Qc *)
Definition Qc_of (n d : Z) : Qcanon.Qc := Qcanon.Q2Qc (QArith_base.Qmake n (Z.to_pos d)).
Definition Qcdv (a b : Qcanon.Qc) : Qcanon.Qc := Qcanon.Qcdiv a b.
Definition agree_coeff_Qc (A : alg) (kout : list Z) (out : list Qcanon.Qc) (M : res (mv Qcanon.Qc)) : bool :=
  match M with
  | Ok r => Nat.eqb (length out) (length kout) &&
            forallb (fun K => Qcanon.Qc_eq_bool (coeff Qcops K (combine kout out)) (coeff Qcops K r)) (kout ++ keys r)
  | Err _ => false
  end.
