(* Model/Matrix.v — kingdon.matrixreps.matrix_rep, Algebra.matrix_basis, MultiVector.asmatrix and
   MultiVector.frommatrix.  Integer matrices are lists of rows.  Hand-written after the Python,
   step by step.  No proofs.

   Deviations from the Python (all outside the domain of the theorems):
   - d = 0: [reduce(np.kron, [])] raises TypeError, so Algebra(0).matrix_basis fails; here the empty
     Kronecker product is the 1x1 matrix [[1]] and matrix_rep [] = [ [[1]] ].
   - asmatrix of a multivector without stored entries: Python's [sum] of nothing is the int 0; here
     it is the zero matrix (the start value 0 of [sum] is modelled as the zero matrix: 0 + M = M).
   - asmatrix of a key outside the algebra: KeyError in Python; here the key contributes the zero
     matrix (position = None).
   - a signature entry other than 1 / -1 / 0 is skipped by the loop of matrix_rep (Algebra itself
     refuses such a signature); modelled by flat_map. *)
From KV Require Export Model.Codegen.
Local Open Scope Z_scope.

Definition mat := list (list Z).

(* ---- numpy on integer matrices ---- *)
Fixpoint dot (u v : list Z) : Z :=
  match u, v with a :: u', b :: v' => a * b + dot u' v' | _, _ => 0 end.
Definition ncols (m : mat) : nat := length (hd [] m).
Definition mat_col (c : nat) (m : mat) : list Z := map (fun row => nth c row 0) m.     (* m[:, c] *)
Definition mat_T (m : mat) : mat := map (fun c => mat_col c m) (seq 0 (ncols m)).      (* m.T *)
Definition mat_mul (a b : mat) : mat :=                                               (* a @ b *)
  let bt := mat_T b in map (fun ra => map (dot ra) bt) a.
Definition mat_kron (a b : mat) : mat :=                                              (* np.kron *)
  flat_map (fun ra => map (fun rb => flat_map (fun x => map (Z.mul x) rb) ra) b) a.
Definition mat_scale (s : Z) (m : mat) : mat := map (map (Z.mul s)) m.                (* s * m *)
Fixpoint vec_add (u v : list Z) : list Z :=
  match u, v with a :: u', b :: v' => (a + b) :: vec_add u' v' | _, _ => [] end.
Fixpoint mat_add (a b : mat) : mat :=                                                 (* a + b *)
  match a, b with ra :: a', rb :: b' => vec_add ra rb :: mat_add a' b' | _, _ => [] end.
Definition mat_eqb : mat -> mat -> bool := list_eqb (list_eqb Z.eqb).
Definition mat_zero (n : nat) : mat := repeat (repeat 0 n) n.
Definition unit_vec (n i : nat) : list Z := map (fun j => if Nat.eqb j i then 1 else 0) (seq 0 n).

(* ---- matrixreps.py ---- *)
Definition I2 : mat := [[1; 0]; [0; 1]].
Definition Ip2 : mat := [[1; 0]; [0; -1]].
Definition P2 : mat := [[0; 1]; [1; 0]].
Definition N2 : mat := [[0; 1]; [-1; 0]].
Definition Z2 : mat := [[0; 0]; [1; 0]].

(* reduce(np.kron, mats, 1): the scalar start value 1 as the 1x1 matrix *)
Definition scalar1 : mat := [[1]].
Definition kron_all (ms : list mat) : mat := fold_left mat_kron ms scalar1.

(* Ss: one of Z / P / N per signature entry (every stack holds copies of one matrix) *)
Definition sig_mats (sig : list Z) : list mat :=
  flat_map (fun s => if s =? 0 then [Z2] else if s =? 1 then [P2] else if s =? -1 then [N2] else []) sig.

(* for i, Si in enumerate(Ss): Es.append(reduce(np.kron, [I]*i + [Si] + [Ip]*(d-i-1), 1)) *)
Fixpoint gen_mats_from (i d : nat) (Ss : list mat) : list mat :=
  match Ss with
  | [] => []
  | Si :: r => kron_all (repeat I2 i ++ [Si] ++ repeat Ip2 (d - i - 1)) :: gen_mats_from (S i) d r
  end.

(* itertools.combinations(l, r): lexicographic in the indices *)
Fixpoint combinations {A} (l : list A) (r : nat) : list (list A) :=
  match r, l with
  | O, _ => [[]]
  | S _, [] => []
  | S r', a :: l' => map (cons a) (combinations l' r') ++ combinations l' r
  end.

(* reduce(lambda x, y: x @ y, comb)   (comb has at least 2 elements where it is used) *)
Definition mat_prod (comb : list mat) : mat :=
  match comb with [] => scalar1 | m :: r => fold_left mat_mul r m end.

(* matrix_rep(p, q, r, signature=sig, blades=None) with p, q, r = the counts of 1, -1, 0 in sig: the blades are the
   combinations of the generator matrices (the branch taken for a default basis) *)
Definition matrix_rep (sig : list Z) : list mat :=
  let Ss := sig_mats sig in
  let d := length Ss in
  let Es := gen_mats_from 0 d Ss in
  let Iden := kron_all (repeat I2 d) in                          (* d = 0: TypeError in Python *)
  let Rs := Iden :: Es ++ flat_map (fun i => map mat_prod (combinations Es i)) (seq 2 (d - 1)) in
  let O := map (mat_col 0) Rs in                                 (* ordering_matrix: np.vstack of the columns 0 *)
  let OT := mat_T O in
  map (fun Ri => mat_mul (mat_mul O Ri) OT) Rs.

(* matrix_rep(..., blades=[...]) (a custom basis): every blade is the product of the generator matrices in the
   order its name spells them:  reduce(lambda x, y: x @ y, (Es[i] for i in blade), Iden) *)
Definition matrix_rep_blades (sig : list Z) (blades : list (list nat)) : list mat :=
  let Ss := sig_mats sig in
  let d := length Ss in
  let Es := gen_mats_from 0 d Ss in
  let Iden := kron_all (repeat I2 d) in
  let Rs := map (fun bl => fold_left (fun acc i => mat_mul acc (nth i Es [])) bl Iden) blades in
  let O := map (mat_col 0) Rs in
  let OT := mat_T O in
  map (fun Ri => mat_mul (mat_mul O Ri) OT) Rs.

(* [tuple(int(c, 16) - start_index for c in name[1:]) for name in canon2bin] *)
Definition blade_indices (A : alg) : list (list nat) :=
  map (fun nb => map (fun g => Z.to_nat (Z.of_nat g - a_start A)) (fst nb)) (a_c2b A).

(* Algebra.matrix_basis.  The Python takes the combinations branch when no basis was given and the blades branch for
   a custom basis.  The model algebra does not record which constructor built it; the blades branch is used for every
   algebra, and for the default basis the two branches produce the same list of matrices (Theory/MatrixBranch.v:
   [matrix_basis_default_branch_all], every dimension; compared with the implementation on every run). *)
Definition matrix_basis (A : alg) : list mat := matrix_rep_blades (a_sig A) (blade_indices A).
Definition matrix_basis_default_branch (A : alg) : list mat := matrix_rep (a_sig A).

(* ---- multivector.py ---- *)
Definition mat_dim (A : alg) : nat := (2 ^ a_d A)%nat.
(* matrix_basis[bin2index[k]], bin2index = {k: i for i, k in enumerate(canon2bin.values())} *)
Definition basis_mat_in (A : alg) (M : list mat) (k : Z) : mat :=
  match zindex k (canon_keys A) with
  | Some i => nth i M (mat_zero (mat_dim A))
  | None => mat_zero (mat_dim A)
  end.
Definition basis_mat (A : alg) (k : Z) : mat := basis_mat_in A (matrix_basis A) k.

(* sum(v * matrix_basis[bin2index[k]] for k, v in self.items()) *)
Definition asmatrix (A : alg) (x : mv Z) : mat :=
  let M := matrix_basis A in
  fold_left (fun acc kv => mat_add acc (mat_scale (snd kv) (basis_mat_in A M (fst kv)))) x
            (mat_zero (mat_dim A)).

(* MultiVector(algebra, values=matrix[..., 0]): a full multivector, keys = indices_for_grades[all
   grades] = canon2bin.values() (Algebra asserts that a custom basis is ordered by grade) *)
Definition frommatrix (A : alg) (m : mat) : mv Z := combine (canon_keys A) (mat_col 0 m).
