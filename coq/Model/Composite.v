(* Model/Composite.v — the composite generators of kingdon.codegen (codegen_sw, codegen_proj,
   codegen_normsq), which multiply SYMBOLIC multivectors, and OperatorDict.filter, which on the
   symbolic path drops after every elementary operator the coefficients that test falsy
   (algebra.simp_func is the identity on every coefficient that is not a sympy expression).
   Executable definitions only, no proofs (see Theory/Natural.v). *)
From KV Require Export Model.Codegen.

Section Composite.
  Context {R : Type} (O : ops R).

  (* OperatorDict.filter: keep the (key, value) pairs whose value is truthy; [isz v] = `not v` *)
  Definition filter_nz (isz : R -> bool) (x : mv R) : mv R :=
    filter (fun kv => negb (isz (snd kv))) x.

  (* the composite generators, with the filter F applied after every elementary operator as on
     the symbolic path (F = identity on the numeric path) *)
  (* codegen_sw: x * y * ~x   =  (x * y) * (~x) *)
  Definition sw_with (F : mv R -> mv R) (A : alg) (x y : mv R) : mv R :=
    F (gp O A (F (gp O A x y)) (F (reverse O A x))).
  (* codegen_proj: (x | y) * ~y *)
  Definition proj_with (F : mv R -> mv R) (A : alg) (x y : mv R) : mv R :=
    F (gp O A (F (ip O A x y)) (F (reverse O A y))).
  (* codegen_normsq: x * ~x *)
  Definition normsq_with (F : mv R -> mv R) (A : alg) (x : mv R) : mv R :=
    F (gp O A x (F (reverse O A x))).

  Definition sw := sw_with (fun x => x).
  Definition proj := proj_with (fun x => x).
  Definition normsq := normsq_with (fun x => x).
End Composite.

(* apply a map to every stored coefficient, keys and storage order unchanged *)
Definition map_mv {R S} (h : R -> S) (x : mv R) : mv S := map (fun kv => (fst kv, h (snd kv))) x.
