(* Model/Construct.v — kingdon.multivector.MultiVector.__new__ (input normalisation), the coefficient
   accessors __getattr__ / __contains__ / items / asfullmv / map / filter (grade is Model/Codegen.v
   [grade_sel]) and the convenience constructors of Algebra (evenmv, oddmv, purevector, scalar ...
   pseudoquadvector).  Hand-written after the Python, statement by statement.  No proofs.

   Representation.
   - a key given by the caller is an int or a string:           [key := KInt z | KName n];
   - `values` is None, a sequence or a Mapping:                 [vals := VNone | VList l | VMap m];
   - `name=` only matters through its truthiness:               [i_name : bool]; the symbols it creates
     (symbolcls(f'{name}{bin2canon[k][1:]}')) are one placeholder per key, [sym : Z -> R];
   - `grades=` is a tuple of ints (negative ones are possible and rejected):   [option (list Z)];
   - keyword blades `**items`: association list spelling -> value in call order.  A keyword is modelled
     by the digits of key[1:] (the Python looks at key[0] only through `key in canon2bin`);
     characters that are not hex digits are encoded by the caller as numbers that are no generator;
   - an attribute name is [SName n] when it matches  ^e[0-9a-fA-F]*$  (n = its digits), else [SOther].
   Algebra._blade2canon is Model/Alg.v [blade2canon]: (Some canonical name | None = outside the algebra, swaps). *)
From KV Require Export Model.All.
Local Open Scope Z_scope.

Inductive key := KInt (k : Z) | KName (n : name).
Inductive vals (R : Type) := VNone | VList (l : list R) | VMap (m : list (key * R)).
Arguments VNone {R}. Arguments VList {R} l. Arguments VMap {R} m.

Record input (R : Type) := mkInput {
  i_values : vals R;               (* values=  *)
  i_keys   : option (list key);    (* keys=    *)
  i_name   : bool;                 (* bool(name) *)
  i_grades : option (list Z);      (* grades=  *)
  i_items  : list (name * R);      (* **items  *)
}.
Arguments mkInput {R}. Arguments i_values {R}. Arguments i_keys {R}. Arguments i_name {R}.
Arguments i_grades {R}. Arguments i_items {R}.

Inductive spelling := SName (n : name) | SOther.

(* ---- dict with string keys (insertion order) ---- *)
Fixpoint nassoc {V} (n : name) (d : list (name * V)) : option V :=
  match d with [] => None | (m, v) :: r => if name_eqb m n then Some v else nassoc n r end.
Fixpoint nset {V} (n : name) (v : V) (d : list (name * V)) : list (name * V) :=     (* d[n] = v *)
  match d with
  | [] => [(n, v)]
  | (m, w) :: r => if name_eqb m n then (m, v) :: r else (m, w) :: nset n v r
  end.
Fixpoint nremove {V} (n : name) (d : list (name * V)) : list (name * V) :=          (* d.pop(n) *)
  match d with [] => [] | (m, w) :: r => if name_eqb m n then r else (m, w) :: nremove n r end.

Fixpoint mapM_res {X Y} (f : X -> res Y) (l : list X) : res (list Y) :=
  match l with
  | [] => Ok []
  | x :: r => y <- f x ;; ys <- mapM_res f r ;; Ok (y :: ys)
  end.

Definition isnil {X} (l : list X) : bool := match l with [] => true | _ => false end.

Section Construct.
  Context {R : Type}.
  Variable O : ops R.
  Variable A : alg.

  (* ---------------- accessors ---------------- *)

  (* MultiVector.__getattr__ *)
  Definition getattr (m : mv R) (s : spelling) : res R :=
    match s with
    | SOther => Err EAttr
    | SName n =>
        match blade2canon A n with
        | (None, _) => Ok (o_zero O)                       (* None not in canon2bin *)
        | (Some c, sw) =>
            match canon2bin A c with
            | None => Ok (o_zero O)
            | Some b =>
                match zindex b (keys m) with
                | None => Ok (o_zero O)
                | Some idx =>
                    match nth_error (map snd m) idx with
                    | Some v => Ok (if Z.even sw then v else o_neg O v)
                    | None => Err EIndex
                    end
                end
            end
        end
    end.

  (* MultiVector.__contains__ *)
  Definition contains (m : mv R) (it : key) : res bool :=
    match it with
    | KInt k => Ok (zin k (keys m))
    | KName n => b <- of_opt EKey (canon2bin A n) ;; Ok (zin b (keys m))
    end.

  (* MultiVector.items(): zip(_keys, _values) *)
  Definition mv_items (m : mv R) : list (Z * R) := m.

  (* MultiVector.asfullmv(canonical) *)
  Definition all_grades : list nat := seq 0 (S (a_d A)).
  Definition asfullmv (canonical : bool) (m : mv R) : res (mv R) :=
    ks <- (if canonical then indices_for_grades A all_grades else Ok (zrange (2 ^ a_d A))) ;;
    mapM_res (fun k => n <- of_opt EKey (bin2canon A k) ;; v <- getattr m (SName n) ;; Ok (k, v)) ks.

  (* MultiVector.map: one-argument and two-argument callables *)
  Definition map_v (f : R -> R) (m : mv R) : mv R := map (fun kv => (fst kv, f (snd kv))) m.
  Definition map_kv (f : Z -> R -> R) (m : mv R) : mv R := map (fun kv => (fst kv, f (fst kv) (snd kv))) m.

  (* MultiVector.filter: one-argument and two-argument predicates *)
  Definition filter_v (p : R -> bool) (m : mv R) : mv R := filter (fun kv => p (snd kv)) m.
  Definition filter_kv (p : Z -> R -> bool) (m : mv R) : mv R := filter (fun kv => p (fst kv) (snd kv)) m.

  (* ---------------- MultiVector.__new__ ---------------- *)
  Variable sym : Z -> R.          (* the symbol created for key k in `name=` mode *)

  (* body of  for key in list(items.keys()):  *)
  Definition kw_step (d : list (name * R)) (k : name) : res (list (name * R)) :=
    match canon2bin A k with
    | Some _ => Ok d
    | None =>
        match blade2canon A k with
        | (None, _) => Err EKey                                    (* if target is None: raise KeyError *)
        | (Some target, swaps) =>
            v <- of_opt EKey (nassoc k d) ;;                       (* items.pop(key) *)
            Ok (nset target (if Z.odd swaps then o_neg O v else v) (nremove k d))
        end
    end.

  (* keys, values = zip( * ((blade, items[blade]) for blade in algebra.canon2bin if blade in items)) *)
  Definition kw_collect (d : list (name * R)) : list (name * R) :=
    flat_map (fun cb => match nassoc (fst cb) d with Some v => [(fst cb, v)] | None => [] end) (a_c2b A).

  Definition kw_normalise (items : list (name * R)) : res (list key * list R) :=
    d <- fold_left (fun acc k => d <- acc ;; kw_step d k) (map fst items) (Ok items) ;;
    match kw_collect d with
    | [] => Err EValue                                             (* zip of nothing unpacked into two names *)
    | kv => Ok (map (fun x => KName (fst x)) kv, map snd kv)
    end.

  (* keys = tuple(k if k in algebra.bin2canon else algebra.canon2bin[k] for k in keys), only when some
     key is not an int *)
  Definition is_int (k : key) : bool := match k with KInt _ => true | KName _ => false end.
  Definition raw_int (k : key) : Z := match k with KInt z => z | KName _ => 0 end.
  Definition conv_key (k : key) : res Z :=
    match k with
    | KInt z => match bin2canon A z with Some _ => Ok z | None => Err EKey end
    | KName n => of_opt EKey (canon2bin A n)
    end.
  Definition sanitize (ks : list key) : res (list Z) :=
    if forallb is_int ks then Ok (map raw_int ks) else mapM_res conv_key ks.

  (* tuple(sorted({format(k, 'b').count('1') for k in keys})) *)
  Fixpoint zinsert (x : Z) (l : list Z) : list Z :=
    match l with
    | [] => [x]
    | y :: r => if x <? y then x :: y :: r else if x =? y then y :: r else y :: zinsert x r
    end.
  Definition grades_of_keys (ks : list Z) : list Z := fold_left (fun acc k => zinsert (popcount k) acc) ks [].

  (* algebra.indices_for_grades[grades] *)
  Definition ifg (g : list Z) : res (list Z) := indices_for_grades A (map Z.to_nat g).

  Definition grade_range_ok (g : list Z) : bool :=
    forallb (fun x => (0 <=? x) && (x <=? Z.of_nat (a_d A))) g.

  (* everything after the keyword-blade block and the first sanitation of `keys`:
     keys1 = the int keys (None when keys= was not given), values0 = values as given *)
  Definition core (keys1 : option (list Z)) (values0 : vals R) (nm : bool) (g0 : option (list Z)) : res (mv R) :=
    (* if grades is None and name and keys is not None: *)
    let grades1 := match g0, nm, keys1 with
                   | None, true, Some zs => Some (grades_of_keys zs)
                   | g, _, _ => g
                   end in
    let keys := match keys1 with Some zs => zs | None => [] end in
    (* if grades is not None: range check  else: from the keys, or all grades *)
    grades <- (match grades1 with
               | Some g => if grade_range_ok g then Ok g else Err EValue
               | None => Ok (match keys with
                             | [] => map Z.of_nat all_grades
                             | _ => grades_of_keys keys
                             end)
               end) ;;
    (* if algebra.graded and keys and tuple(keys) != algebra.indices_for_grades[grades]: *)
    chk <- (if a_graded A && negb (isnil keys)
            then full <- ifg grades ;; if list_eqb Z.eqb keys full then Ok tt else Err EValue
            else Ok tt) ;;
    (* the kind of input *)
    '(keysk, values) <-
       (match values0 with
        | VMap mp =>
            if a_graded A && negb (isnil mp) then
              (* the keys only become known here: converted unconditionally, compared with their own grades *)
              zs <- mapM_res conv_key (map fst mp) ;;
              full <- ifg (grades_of_keys zs) ;;
              if list_eqb Z.eqb zs full then Ok (map KInt zs, map snd mp) else Err EValue
            else Ok (map fst mp, map snd mp)
        | _ =>
            let vs := match values0 with VList l => l | _ => [] end in
            full <- ifg grades ;;
            if Nat.eqb (length vs) (length full) && isnil keys then Ok (map KInt full, vs)
            else if nm && isnil vs then
              let ks := if isnil keys then full else keys in
              vs' <- mapM_res (fun k => match bin2canon A k with Some _ => Ok (sym k) | None => Err EKey end) ks ;;
              Ok (map KInt ks, vs')
            else if Nat.eqb (length keys) (length vs) then Ok (map KInt keys, vs)
            else Err EType
        end) ;;
    (* if not all(isinstance(k, int) for k in keys): *)
    keys8 <- sanitize keysk ;;
    (* if not set(keys) <= set(algebra.indices_for_grades[grades]): *)
    full <- ifg grades ;;
    if forallb (fun k => zin k full) keys8 then Ok (combine keys8 values) else Err EValue.

  Definition construct (inp : input R) : res (mv R) :=
    (* if items and keys is None and values is None: *)
    '(keys0, values0) <-
       (match i_items inp, i_keys inp, i_values inp with
        | _ :: _, None, VNone => '(ks, vs) <- kw_normalise (i_items inp) ;; Ok (Some ks, VList vs)
        | _, _, _ => Ok (i_keys inp, i_values inp)
        end) ;;
    (* if keys is not None and not all(isinstance(k, int) for k in keys): *)
    keys1 <- (match keys0 with
              | None => Ok None
              | Some ks => zs <- sanitize ks ;; Ok (Some zs)
              end) ;;
    core keys1 values0 (i_name inp) (i_grades inp).

  (* ---------------- Algebra convenience constructors ---------------- *)
  Definition with_grades (g : list Z) (inp : input R) : input R :=
    mkInput (i_values inp) (i_keys inp) (i_name inp) (Some g) (i_items inp).
  Definition d_Z : Z := Z.of_nat (a_d A).
  Definition multivector (inp : input R) := construct inp.
  Definition evenmv (inp : input R) := construct (with_grades (filter Z.even (map Z.of_nat all_grades)) inp).
  Definition oddmv (inp : input R) := construct (with_grades (filter Z.odd (map Z.of_nat all_grades)) inp).
  Definition purevector (g : Z) (inp : input R) := construct (with_grades [g] inp).
  Definition scalar := purevector 0.
  Definition vector := purevector 1.
  Definition bivector := purevector 2.
  Definition trivector := purevector 3.
  Definition quadvector := purevector 4.
  Definition pseudoscalar := purevector (d_Z - 0).
  Definition pseudovector := purevector (d_Z - 1).
  Definition pseudobivector := purevector (d_Z - 2).
  Definition pseudotrivector := purevector (d_Z - 3).
  Definition pseudoquadvector := purevector (d_Z - 4).
End Construct.

(* observation helpers for the correspondence (coefficients in Z) *)
Definition resmv_eqb (x y : res (mv Z)) : bool := res_eqb mv_eqb x y.
Definition resZ_eqb (x y : res Z) : bool := res_eqb Z.eqb x y.
Definition resb_eqb (x y : res bool) : bool := res_eqb Bool.eqb x y.
