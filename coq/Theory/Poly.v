(* Theory/Poly.v — proofs about Model/Poly.v (kingdon/polynomial.py): property C17. *)
From Coq Require Import List ZArith Bool Arith Lia Ring InitialRing.
From KV Require Import Model.Poly.
Import ListNotations.
Local Open Scope Z_scope.

(* ================================================================== 0. structural equality *)
Lemma nlist_eqb_eq (a b : list nat) : list_eqb Nat.eqb a b = true <-> a = b.
Proof.
  revert b; induction a as [|x a IH]; intros [|y b]; cbn [list_eqb]; try (split; congruence).
  rewrite andb_true_iff, Nat.eqb_eq, IH. split; [intros [-> ->]; reflexivity | intros H; inversion H; auto].
Qed.

Lemma nlist_eqb_refl a : list_eqb Nat.eqb a a = true.
Proof. apply nlist_eqb_eq; reflexivity. Qed.

Lemma nlist_eqb_neq a b : a <> b -> list_eqb Nat.eqb a b = false.
Proof. intros H. destruct (list_eqb Nat.eqb a b) eqn:E; [apply nlist_eqb_eq in E; contradiction | reflexivity]. Qed.

Lemma mono_eqb_eq (a b : mono) : mono_eqb a b = true <-> a = b.
Proof.
  destruct a as [ca va], b as [cb vb]; unfold mono_eqb, pair_eqb; cbn [fst snd].
  rewrite andb_true_iff, Z.eqb_eq, nlist_eqb_eq. split; [intros [-> ->]; reflexivity | intros H; inversion H; auto].
Qed.

Lemma poly_eqb_eq (p q : poly) : poly_eqb p q = true <-> p = q.
Proof.
  unfold poly_eqb. revert q; induction p as [|x p IH]; intros [|y q]; cbn [list_eqb]; try (split; congruence).
  rewrite andb_true_iff, mono_eqb_eq, IH. split; [intros [-> ->]; reflexivity | intros H; inversion H; auto].
Qed.

Lemma rpoly_eqb_eq (a b : rpoly) : rpoly_eqb a b = true <-> a = b.
Proof.
  destruct a as [na da], b as [nb db]; unfold rpoly_eqb; cbn [rnum rden].
  rewrite andb_true_iff, !poly_eqb_eq. split; [intros [-> ->]; reflexivity | intros H; inversion H; auto].
Qed.

(* ================================================================== 1. compare is a strict total order *)
(* compare(a, b) only looks at the variables *)
Definition vcmp (va vb : list nat) : Z := cmp_loop va vb (Z.of_nat (length va) - Z.of_nat (length vb)).

Lemma pcompare_SS (a b : mono) : pcompare (Some a) (Some b) = vcmp (snd a) (snd b).
Proof. destruct a as [ca va], b as [cb vb]; cbn [pcompare snd]; unfold vcmp; f_equal; lia. Qed.

Lemma vcmp_cons x a y b :
  vcmp (x :: a) (y :: b) = if (x <? y)%nat then -1 else if (y <? x)%nat then 1 else vcmp a b.
Proof.
  unfold vcmp; cbn [cmp_loop length]. destruct (x <? y)%nat; [reflexivity|]. destruct (y <? x)%nat; [reflexivity|].
  f_equal; lia.
Qed.

Lemma vcmp_nil_l b : vcmp [] b = - Z.of_nat (length b).
Proof. unfold vcmp; destruct b; cbn [cmp_loop length]; lia. Qed.

Lemma vcmp_nil_r a : vcmp a [] = Z.of_nat (length a).
Proof. unfold vcmp; destruct a; cbn [cmp_loop length]; lia. Qed.

(* the order it implements: lexicographic, a proper prefix is smaller *)
Fixpoint vlt (a b : list nat) : Prop :=
  match a, b with
  | _, [] => False
  | [], _ :: _ => True
  | x :: a', y :: b' => (x < y)%nat \/ (x = y /\ vlt a' b')
  end.

Lemma vcmp_spec a b :
  (vcmp a b < 0 /\ vlt a b) \/ (vcmp a b = 0 /\ a = b) \/ (vcmp a b > 0 /\ vlt b a).
Proof.
  revert b; induction a as [|x a IH]; intros [|y b].
  - right; left; split; reflexivity.
  - left. rewrite vcmp_nil_l. cbn [length vlt]. split; [lia | exact I].
  - right; right. rewrite vcmp_nil_r. cbn [length vlt]. split; [lia | exact I].
  - rewrite vcmp_cons. cbn [vlt].
    destruct (x <? y)%nat eqn:E1; [apply Nat.ltb_lt in E1; left; split; [lia | left; exact E1] |].
    destruct (y <? x)%nat eqn:E2; [apply Nat.ltb_lt in E2; right; right; split; [lia | left; exact E2] |].
    apply Nat.ltb_ge in E1, E2. assert (x = y) by lia; subst y.
    destruct (IH b) as [[H1 H2]|[[H1 H2]|[H1 H2]]].
    + left; split; [exact H1 | right; split; [reflexivity | exact H2]].
    + right; left; split; [exact H1 | subst; reflexivity].
    + right; right; split; [exact H1 | right; split; [reflexivity | exact H2]].
Qed.

Lemma vlt_irrefl a : ~ vlt a a.
Proof. induction a as [|x a IH]; cbn [vlt]; [tauto | intros [H|[_ H]]; [lia | auto]]. Qed.

Lemma vlt_trans a b c : vlt a b -> vlt b c -> vlt a c.
Proof.
  revert b c; induction a as [|x a IH]; intros [|y b] [|z c]; cbn [vlt]; try tauto.
  intros [H1|[H1 H2]] [H3|[H3 H4]]; try (left; lia). right; split; [lia | eauto].
Qed.

Lemma vlt_asym a b : vlt a b -> ~ vlt b a.
Proof. intros H1 H2. exact (vlt_irrefl a (vlt_trans _ _ _ H1 H2)). Qed.

Lemma vcmp_lt_iff a b : vcmp a b < 0 <-> vlt a b.
Proof.
  destruct (vcmp_spec a b) as [[H1 H2]|[[H1 H2]|[H1 H2]]]; split; intros H; try assumption; try lia.
  - subst; exfalso; exact (vlt_irrefl _ H).
  - exfalso; exact (vlt_asym _ _ H H2).
Qed.

Lemma vcmp_gt_iff a b : vcmp a b > 0 <-> vlt b a.
Proof.
  destruct (vcmp_spec a b) as [[H1 H2]|[[H1 H2]|[H1 H2]]]; split; intros H; try assumption; try lia.
  - exfalso; exact (vlt_asym _ _ H H2).
  - subst; exfalso; exact (vlt_irrefl _ H).
Qed.

Lemma vcmp_eq_iff a b : vcmp a b = 0 <-> a = b.
Proof.
  destruct (vcmp_spec a b) as [[H1 H2]|[[H1 H2]|[H1 H2]]]; split; intros H; try assumption; try lia.
  - subst; exfalso; exact (vlt_irrefl _ H2).
  - subst; exfalso; exact (vlt_irrefl _ H2).
Qed.

Lemma vcmp_refl a : vcmp a a = 0.
Proof. apply vcmp_eq_iff; reflexivity. Qed.

Lemma vcmp_antisym a b : Z.sgn (vcmp b a) = - Z.sgn (vcmp a b).
Proof.
  destruct (vcmp_spec a b) as [[H1 H2]|[[H1 H2]|[H1 H2]]].
  - apply vcmp_gt_iff in H2. lia.
  - subst. rewrite vcmp_refl. reflexivity.
  - apply vcmp_lt_iff in H2. lia.
Qed.

Lemma vcmp_trans a b c : vcmp a b < 0 -> vcmp b c < 0 -> vcmp a c < 0.
Proof. rewrite !vcmp_lt_iff. apply vlt_trans. Qed.

(* --- the statements about compare itself (any monomials: sortedness of the variables is not needed) *)
Theorem pcompare_refl (a : mono) : pcompare (Some a) (Some a) = 0.
Proof. rewrite pcompare_SS. apply vcmp_refl. Qed.

Theorem pcompare_eq (a b : mono) : pcompare (Some a) (Some b) = 0 <-> snd a = snd b.
Proof. rewrite pcompare_SS. apply vcmp_eq_iff. Qed.

Theorem pcompare_antisym (a b : mono) :
  Z.sgn (pcompare (Some b) (Some a)) = - Z.sgn (pcompare (Some a) (Some b)).
Proof. rewrite !pcompare_SS. apply vcmp_antisym. Qed.

Theorem pcompare_trans (a b c : mono) :
  pcompare (Some a) (Some b) < 0 -> pcompare (Some b) (Some c) < 0 -> pcompare (Some a) (Some c) < 0.
Proof. rewrite !pcompare_SS. apply vcmp_trans. Qed.

Theorem pcompare_total (a b : mono) :
  pcompare (Some a) (Some b) < 0 \/ snd a = snd b \/ pcompare (Some b) (Some a) < 0.
Proof.
  rewrite !pcompare_SS. destruct (vcmp_spec (snd a) (snd b)) as [[H1 H2]|[[H1 H2]|[H1 H2]]]; auto.
  right; right. apply vcmp_lt_iff; exact H2.
Qed.

(* None sorts after every monomial *)
Theorem pcompare_None_r (a : mono) : pcompare (Some a) None = -1.
Proof. destruct a; reflexivity. Qed.
Theorem pcompare_None_l (b : option mono) : pcompare None b = 1.
Proof. reflexivity. Qed.
(* ================================================================== 2. unfolding equations of the loops *)
Lemma padd_loop_nil_l b : padd_loop [] b = b.
Proof. induction b as [|eb b IH]; [reflexivity|]. cbn [padd_loop]. f_equal. exact IH. Qed.

Lemma padd_loop_nil_r a : padd_loop a [] = a.
Proof. induction a as [|ea a IH]; [reflexivity|]. cbn [padd_loop]. f_equal. exact IH. Qed.

Lemma padd_loop_cons ea a eb b :
  padd_loop (ea :: a) (eb :: b) =
  if vcmp (snd ea) (snd eb) <? 0 then ea :: padd_loop a (eb :: b)
  else if 0 <? vcmp (snd ea) (snd eb) then eb :: padd_loop (ea :: a) b
  else if negb (fst ea + fst eb =? 0) then (fst ea + fst eb, snd ea) :: padd_loop a b
  else padd_loop a b.
Proof. rewrite <- pcompare_SS. reflexivity. Qed.

Lemma vmerge_nil_l b : vmerge [] b = b.
Proof. induction b as [|y b IH]; [reflexivity|]. cbn [vmerge]. f_equal. exact IH. Qed.

Lemma vmerge_nil_r a : vmerge a [] = a.
Proof. induction a as [|x a IH]; [reflexivity|]. cbn [vmerge]. f_equal. exact IH. Qed.

Lemma vmerge_cons x a y b :
  vmerge (x :: a) (y :: b) = if (x <? y)%nat then x :: vmerge a (y :: b) else y :: vmerge (x :: a) b.
Proof. reflexivity. Qed.

(* ================================================================== 3. formal semantics: coefficients *)
(* coefficient of the monomial with variable list exactly [mu] *)
Fixpoint coef (mu : list nat) (p : poly) : Z :=
  match p with
  | [] => 0
  | m :: r => (if list_eqb Nat.eqb (snd m) mu then fst m else 0) + coef mu r
  end.

Definition fzero (p : poly) : Prop := forall mu, coef mu p = 0.

Lemma coef_app mu p q : coef mu (p ++ q) = coef mu p + coef mu q.
Proof. induction p as [|m p IH]; cbn [coef app]; [reflexivity | rewrite IH; ring]. Qed.

Lemma coef_padd_loop mu a b : coef mu (padd_loop a b) = coef mu a + coef mu b.
Proof.
  revert b; induction a as [|ea a IHa]; intros b.
  - rewrite padd_loop_nil_l. reflexivity.
  - induction b as [|eb b IHb].
    + rewrite padd_loop_nil_r. cbn [coef]. ring.
    + rewrite padd_loop_cons.
      destruct (vcmp (snd ea) (snd eb) <? 0) eqn:E1; [cbn [coef]; rewrite IHa; cbn [coef]; ring|].
      destruct (0 <? vcmp (snd ea) (snd eb)) eqn:E2; [cbn [coef]; rewrite IHb; cbn [coef]; ring|].
      apply Z.ltb_ge in E1, E2. assert (E : snd ea = snd eb) by (apply vcmp_eq_iff; lia).
      destruct (fst ea + fst eb =? 0) eqn:E3; cbn [negb coef]; rewrite IHa; cbn [fst snd]; rewrite <- E.
      * apply Z.eqb_eq in E3. destruct (list_eqb Nat.eqb (snd ea) mu); lia.
      * destruct (list_eqb Nat.eqb (snd ea) mu); ring.
Qed.

Lemma is_zero_args_iff p : is_zero_args p = true <-> p = [] \/ p = [(0, [])].
Proof.
  destruct p as [|m p]; cbn [is_zero_args]; [split; auto|].
  rewrite poly_eqb_eq. split; [auto | intros [H|H]; [discriminate | exact H]].
Qed.

Lemma peq_Z_0 p : peq_Z p 0 = is_zero_args p.
Proof. unfold peq_Z. cbn [Z.eqb andb]. destruct (is_zero_args p); reflexivity. Qed.

Lemma peq_Z_1 p : peq_Z p 1 = poly_eqb p [(1, [])].
Proof. unfold peq_Z. cbn [Z.eqb andb]. destruct (poly_eqb p [(1, [])]); reflexivity. Qed.

Lemma peq_Z_other p c : c <> 0 -> c <> 1 -> peq_Z p c = false.
Proof. intros H0 H1. unfold peq_Z. apply Z.eqb_neq in H0, H1. rewrite H0, H1. reflexivity. Qed.

Lemma fzero_zero_args p : is_zero_args p = true -> fzero p.
Proof. intros H mu. apply is_zero_args_iff in H. destruct H as [->| ->]; cbn [coef fst snd]; [reflexivity|]. destruct (list_eqb Nat.eqb [] mu); reflexivity. Qed.

Theorem coef_padd mu p q : coef mu (padd p q) = coef mu p + coef mu q.
Proof.
  unfold padd. rewrite !peq_Z_0. destruct (is_zero_args q) eqn:E.
  - rewrite (fzero_zero_args q E mu). ring.
  - destruct (is_zero_args p) eqn:Ep; [rewrite (fzero_zero_args p Ep mu); ring | apply coef_padd_loop].
Qed.

Theorem coef_pneg mu p : coef mu (pneg p) = - coef mu p.
Proof.
  induction p as [|m p IH]; cbn [pneg map coef fst snd]; [reflexivity|].
  fold (pneg p). rewrite IH. destruct (list_eqb Nat.eqb (snd m) mu); ring.
Qed.

Theorem coef_psub mu p q : coef mu (psub p q) = coef mu p - coef mu q.
Proof. unfold psub. rewrite coef_padd, coef_pneg. ring. Qed.

Lemma coef_P_of_Z mu c : coef mu (P_of_Z c) = if list_eqb Nat.eqb [] mu then c else 0.
Proof. cbn [P_of_Z coef fst snd]. ring. Qed.



(* contribution of the pair (A, B) of monomials to the coefficient of [mu] in a product *)
Definition cterm (mu : list nat) (AB : mono * mono) : Z :=
  if list_eqb Nat.eqb (vmerge (snd (fst AB)) (snd (snd AB))) mu then fst (fst AB) * fst (snd AB) else 0.

Fixpoint zsum {A} (f : A -> Z) (l : list A) : Z :=
  match l with [] => 0 | x :: r => f x + zsum f r end.

Lemma zsum_app {A} (f : A -> Z) l1 l2 : zsum f (l1 ++ l2) = zsum f l1 + zsum f l2.
Proof. induction l1 as [|x l1 IH]; cbn [zsum app]; [reflexivity | rewrite IH; ring]. Qed.

Lemma zsum_zero {A} (f : A -> Z) l : (forall x, In x l -> f x = 0) -> zsum f l = 0.
Proof. induction l as [|x l IH]; intros H; cbn [zsum]; [reflexivity|]. rewrite (H x (or_introl eq_refl)), IH; [reflexivity|]. intros y Hy; apply H; right; exact Hy. Qed.

Lemma coef_pmul_fold mu l res :
  coef mu (fold_left (fun res AB => padd res [mono_mul (fst AB) (snd AB)]) l res) = coef mu res + zsum (cterm mu) l.
Proof.
  revert res; induction l as [|AB l IH]; intros res; cbn [fold_left zsum]; [ring|].
  rewrite IH, coef_padd. unfold cterm, mono_mul. cbn [coef fst snd]. ring.
Qed.

Lemma coef_pmul_loop mu p q : coef mu (pmul_loop p q) = zsum (cterm mu) (list_prod p q).
Proof. unfold pmul_loop. rewrite coef_pmul_fold. reflexivity. Qed.

Lemma zsum_list_prod_nil_r mu p : zsum (cterm mu) (list_prod p []) = 0.
Proof. induction p as [|A p IH]; cbn [list_prod map app zsum]; [reflexivity | exact IH]. Qed.

Lemma zsum_cterm_zero_l mu q : zsum (cterm mu) (list_prod [(0, [])] q) = 0.
Proof. apply zsum_zero. intros [A B] H. apply in_prod_iff in H. destruct H as [[<-|[]] _]. unfold cterm; cbn [fst snd]. destruct (list_eqb _ _ _); ring. Qed.

Lemma zsum_cterm_zero_r mu p : zsum (cterm mu) (list_prod p [(0, [])]) = 0.
Proof. apply zsum_zero. intros [A B] H. apply in_prod_iff in H. destruct H as [_ [<-|[]]]. unfold cterm; cbn [fst snd]. destruct (list_eqb _ _ _); ring. Qed.

(* the coefficient formula of the product holds whatever the operands are (shortcuts included) *)
Theorem coef_pmul mu p q : coef mu (pmul p q) = zsum (cterm mu) (list_prod p q).
Proof.
  unfold pmul. rewrite !peq_Z_0.
  destruct (is_zero_args p) eqn:Ep.
  { apply is_zero_args_iff in Ep. cbn [orb coef]. destruct Ep as [->| ->]; [reflexivity | symmetry; apply zsum_cterm_zero_l]. }
  destruct (is_zero_args q) eqn:Eq.
  { apply is_zero_args_iff in Eq. cbn [orb coef]. destruct Eq as [->| ->]; symmetry; [apply zsum_list_prod_nil_r | apply zsum_cterm_zero_r]. }
  cbn [orb]. apply coef_pmul_loop.
Qed.

(* the int forms are the Polynomial forms on Polynomial(c) *)
Theorem pmul_Z_eq p c : pmul_Z p c = pmul p (P_of_Z c).
Proof.
  unfold pmul_Z, pmul. rewrite !peq_Z_0. unfold P_of_Z at 2. cbn [is_zero_args].
  replace (poly_eqb [(c, [])] [(0, [])]) with (c =? 0); [reflexivity|].
  unfold poly_eqb, mono_eqb, pair_eqb; cbn [list_eqb fst snd]. rewrite !andb_true_r. reflexivity.
Qed.

Theorem padd_Z_eq p c : padd_Z p c = padd p (P_of_Z c).
Proof.
  unfold padd_Z, padd. rewrite (peq_Z_0 (P_of_Z c)). unfold P_of_Z at 3. cbn [is_zero_args].
  replace (poly_eqb [(c, [])] [(0, [])]) with (c =? 0); [reflexivity|].
  unfold poly_eqb, mono_eqb, pair_eqb; cbn [list_eqb fst snd]. rewrite !andb_true_r. reflexivity.
Qed.

Theorem coef_padd_Z mu p c : coef mu (padd_Z p c) = coef mu p + coef mu (P_of_Z c).
Proof. rewrite padd_Z_eq. apply coef_padd. Qed.

(* the zero operands of + are absorbed *)
Lemma padd_zero_r p q : is_zero_args q = true -> padd p q = p.
Proof. intros H. unfold padd. rewrite peq_Z_0, H. reflexivity. Qed.

Lemma padd_zero_l p q : is_zero_args p = true -> is_zero_args q = false -> padd p q = q.
Proof. intros Hp Hq. unfold padd. rewrite !peq_Z_0, Hp, Hq. reflexivity. Qed.

Lemma padd_nonzero p q : is_zero_args p = false -> is_zero_args q = false -> padd p q = padd_loop p q.
Proof. intros Hp Hq. unfold padd. rewrite !peq_Z_0, Hp, Hq. reflexivity. Qed.
(* ================================================================== 4. the invariant *)
Fixpoint vsortedb (vs : list nat) : bool :=           (* variables of a monomial: non-decreasing *)
  match vs with
  | x :: ((y :: _) as r) => (x <=? y)%nat && vsortedb r
  | _ => true
  end.

Definition mono_okb (m : mono) : bool := negb (fst m =? 0) && vsortedb (snd m).

Fixpoint incrb (p : poly) : bool :=                   (* strictly increasing w.r.t. compare *)
  match p with
  | a :: ((b :: _) as r) => (pcompare (Some a) (Some b) <? 0) && incrb r
  | _ => true
  end.

(* strict invariant: what every operation returns *)
Definition invsb (p : poly) : bool := forallb mono_okb p && incrb p.
(* invariant: strict, or the special zero [[0]] (Polynomial(0), RationalPolynomial.__mul__) *)
Definition invb (p : poly) : bool := invsb p || poly_eqb p [(0, [])].

Definition InvS (p : poly) : Prop := invsb p = true.
Definition Inv (p : poly) : Prop := invb p = true.

Definition mlt (a b : mono) : Prop := vlt (snd a) (snd b).
Definition mono_ok (m : mono) : Prop := fst m <> 0 /\ vsortedb (snd m) = true.
Fixpoint ssorted (p : poly) : Prop :=
  match p with [] => True | a :: r => Forall (mlt a) r /\ ssorted r end.

Lemma mlt_trans a b c : mlt a b -> mlt b c -> mlt a c.
Proof. apply vlt_trans. Qed.

Lemma mono_okb_iff m : mono_okb m = true <-> mono_ok m.
Proof. unfold mono_okb, mono_ok. rewrite andb_true_iff, negb_true_iff, Z.eqb_neq. tauto. Qed.

Lemma incrb_ssorted p : incrb p = true <-> ssorted p.
Proof.
  induction p as [|a p IH]; [cbn; tauto|].
  destruct p as [|b r].
  - cbn [incrb ssorted]. split; auto.
  - change (incrb (a :: b :: r)) with ((pcompare (Some a) (Some b) <? 0) && incrb (b :: r)).
    rewrite andb_true_iff, IH, Z.ltb_lt, pcompare_SS, vcmp_lt_iff.
    change (ssorted (a :: b :: r)) with (Forall (mlt a) (b :: r) /\ ssorted (b :: r)).
    split.
    + intros [Hab Hs]. split; [|exact Hs]. constructor; [exact Hab|].
      destruct Hs as [Hb _]. eapply Forall_impl; [|exact Hb]. intros c Hc. eapply mlt_trans; [exact Hab | exact Hc].
    + intros [Hf Hs]. split; [|exact Hs]. inversion Hf; assumption.
Qed.

Theorem InvS_iff p : InvS p <-> Forall mono_ok p /\ ssorted p.
Proof.
  unfold InvS, invsb. rewrite andb_true_iff, incrb_ssorted, forallb_forall, Forall_forall.
  split; intros [H1 H2]; (split; [|exact H2]); intros m Hm; apply mono_okb_iff; auto.
Qed.

Theorem Inv_iff p : Inv p <-> InvS p \/ p = [(0, [])].
Proof. unfold Inv, invb, InvS. rewrite orb_true_iff, poly_eqb_eq. tauto. Qed.

Lemma InvS_Inv p : InvS p -> Inv p.
Proof. intros H; apply Inv_iff; left; exact H. Qed.

Lemma InvS_nil : InvS [].
Proof. reflexivity. Qed.

Lemma InvS_single m : mono_ok m -> InvS [m].
Proof. intros H. apply InvS_iff. split; [constructor; [exact H | constructor] | cbn; auto]. Qed.

Lemma InvS_not_zero_args p : InvS p -> is_zero_args p = true -> p = [].
Proof.
  intros H Hz. apply is_zero_args_iff in Hz. destruct Hz as [->| ->]; [reflexivity | discriminate H].
Qed.

Lemma Inv_not_zero_args p : Inv p -> is_zero_args p = false -> InvS p /\ p <> [].
Proof.
  intros H Hz. apply Inv_iff in H. destruct H as [H| ->]; [|discriminate Hz].
  split; [exact H | intros ->; discriminate Hz].
Qed.

(* --- constructors *)
Theorem Inv_P_of_Z c : Inv (P_of_Z c).
Proof.
  destruct (Z.eq_dec c 0) as [->|Hc]; [reflexivity|]. apply InvS_Inv, InvS_single. split; [exact Hc | reflexivity].
Qed.

Theorem InvS_P_of_Z c : c <> 0 -> InvS (P_of_Z c).
Proof. intros Hc. apply InvS_single. split; [exact Hc | reflexivity]. Qed.

Theorem InvS_P_of_var v : InvS (P_of_var v).
Proof. reflexivity. Qed.

(* --- addition *)
Lemma padd_loop_In m a b :
  In m (padd_loop a b) ->
  In m a \/ In m b \/
  exists ea eb, In ea a /\ In eb b /\ snd ea = snd eb /\ m = (fst ea + fst eb, snd ea) /\ fst ea + fst eb <> 0.
Proof.
  revert b; induction a as [|ea a IHa]; intros b.
  - rewrite padd_loop_nil_l. auto.
  - induction b as [|eb b IHb].
    + rewrite padd_loop_nil_r. auto.
    + rewrite padd_loop_cons.
      destruct (vcmp (snd ea) (snd eb) <? 0) eqn:E1.
      { intros [<-|H]; [left; left; reflexivity|]. apply IHa in H.
        destruct H as [H|[H|(xa & xb & H1 & H2 & H3)]]; [left; right; exact H | right; left; exact H |].
        right; right; exists xa, xb. split; [right; exact H1 | split; [exact H2 | exact H3]]. }
      destruct (0 <? vcmp (snd ea) (snd eb)) eqn:E2.
      { intros [<-|H]; [right; left; left; reflexivity|]. apply IHb in H.
        destruct H as [H|[H|(xa & xb & H1 & H2 & H3)]]; [left; exact H | right; left; right; exact H |].
        right; right; exists xa, xb. split; [exact H1 | split; [right; exact H2 | exact H3]]. }
      apply Z.ltb_ge in E1, E2. assert (E : snd ea = snd eb) by (apply vcmp_eq_iff; lia).
      assert (Hrest : In m (padd_loop a b) -> In m (ea :: a) \/ In m (eb :: b) \/
         exists xa xb, In xa (ea :: a) /\ In xb (eb :: b) /\ snd xa = snd xb /\ m = (fst xa + fst xb, snd xa) /\ fst xa + fst xb <> 0).
      { intros H. apply IHa in H.
        destruct H as [H|[H|(xa & xb & H1 & H2 & H3)]]; [left; right; exact H | right; left; right; exact H |].
        right; right; exists xa, xb. split; [right; exact H1 | split; [right; exact H2 | exact H3]]. }
      destruct (fst ea + fst eb =? 0) eqn:E3; cbn [negb]; [exact Hrest|].
      intros [<-|H]; [|exact (Hrest H)].
      right; right; exists ea, eb. apply Z.eqb_neq in E3.
      split; [left; reflexivity | split; [left; reflexivity | auto]].
Qed.

Lemma Forall_mlt_padd_loop x a b :
  Forall (mlt x) a -> Forall (mlt x) b -> Forall (mlt x) (padd_loop a b).
Proof.
  rewrite !Forall_forall. intros Ha Hb m Hm. apply padd_loop_In in Hm.
  destruct Hm as [H|[H|(xa & xb & H1 & H2 & H3 & -> & _)]]; auto.
  unfold mlt; cbn [snd]. apply Ha; exact H1.
Qed.

Lemma Forall_ok_padd_loop a b :
  Forall mono_ok a -> Forall mono_ok b -> Forall mono_ok (padd_loop a b).
Proof.
  rewrite !Forall_forall. intros Ha Hb m Hm. apply padd_loop_In in Hm.
  destruct Hm as [H|[H|(xa & xb & H1 & H2 & H3 & -> & H4)]]; auto.
  split; cbn [fst snd]; [exact H4 | apply Ha; exact H1].
Qed.

Lemma ssorted_padd_loop a b : ssorted a -> ssorted b -> ssorted (padd_loop a b).
Proof.
  revert b; induction a as [|ea a IHa]; intros b Ha Hb.
  - rewrite padd_loop_nil_l. exact Hb.
  - revert Hb; induction b as [|eb b IHb]; intros Hb.
    + rewrite padd_loop_nil_r. exact Ha.
    + rewrite padd_loop_cons. destruct Ha as [Ha1 Ha2]. destruct Hb as [Hb1 Hb2].
      destruct (vcmp (snd ea) (snd eb) <? 0) eqn:E1.
      { apply Z.ltb_lt, vcmp_lt_iff in E1. split.
        - apply Forall_mlt_padd_loop; [exact Ha1|]. constructor; [exact E1|].
          eapply Forall_impl; [|exact Hb1]. intros c Hc. eapply mlt_trans; [exact E1 | exact Hc].
        - apply IHa; [exact Ha2 | split; assumption]. }
      destruct (0 <? vcmp (snd ea) (snd eb)) eqn:E2.
      { apply Z.ltb_lt in E2. assert (E2' : mlt eb ea) by (apply vcmp_gt_iff; lia). split.
        - apply Forall_mlt_padd_loop; [|exact Hb1]. constructor; [exact E2'|].
          eapply Forall_impl; [|exact Ha1]. intros c Hc. eapply mlt_trans; [exact E2' | exact Hc].
        - apply IHb. exact Hb2. }
      apply Z.ltb_ge in E1, E2. assert (E : snd ea = snd eb) by (apply vcmp_eq_iff; lia).
      assert (Hs : ssorted (padd_loop a b)) by (apply IHa; assumption).
      destruct (fst ea + fst eb =? 0); cbn [negb]; [exact Hs|].
      split; [|exact Hs]. apply Forall_mlt_padd_loop.
      * eapply Forall_impl; [|exact Ha1]. intros c Hc. exact Hc.
      * eapply Forall_impl; [|exact Hb1]. intros c Hc. unfold mlt in *; cbn [snd]. rewrite E. exact Hc.
Qed.

Lemma InvS_padd_loop a b : InvS a -> InvS b -> InvS (padd_loop a b).
Proof.
  rewrite !InvS_iff. intros [Ha1 Ha2] [Hb1 Hb2]. split; [apply Forall_ok_padd_loop | apply ssorted_padd_loop]; assumption.
Qed.

(* + preserves the invariant; the special zero [[0]] is absorbed on either side
   (`if other == 0: return self`, `if self == 0: return other`) *)
Theorem Inv_padd p q : Inv p -> Inv q -> Inv (padd p q).
Proof.
  intros Hp Hq. unfold padd. rewrite !peq_Z_0. destruct (is_zero_args q) eqn:Eq; [exact Hp|].
  destruct (is_zero_args p) eqn:Ep; [exact Hq|].
  apply InvS_Inv, InvS_padd_loop; apply Inv_not_zero_args; assumption.
Qed.

(* the result is even strict as soon as the left operand is strict, or as soon as neither operand is a zero *)
Theorem InvS_padd p q : InvS p -> Inv q -> InvS (padd p q).
Proof.
  intros Hp Hq. unfold padd. rewrite !peq_Z_0. destruct (is_zero_args q) eqn:Eq; [exact Hp|].
  destruct (is_zero_args p) eqn:Ep; [apply Inv_not_zero_args; assumption|].
  apply InvS_padd_loop; [exact Hp | apply Inv_not_zero_args; assumption].
Qed.

Theorem InvS_padd_nonzero p q :
  Inv p -> Inv q -> is_zero_args p = false -> is_zero_args q = false -> InvS (padd p q).
Proof.
  intros Hp Hq Ep Eq. rewrite padd_nonzero by assumption. apply InvS_padd_loop; apply Inv_not_zero_args; assumption.
Qed.

Theorem InvS_pneg p : InvS p -> InvS (pneg p).
Proof.
  rewrite !InvS_iff. intros [H1 H2]. split.
  - unfold pneg. apply Forall_map. eapply Forall_impl; [|exact H1]. intros m [Ha Hb]. split; cbn [fst snd]; [lia | exact Hb].
  - clear H1. induction p as [|a p IH]; [exact I|]. destruct H2 as [Ha Hs]. cbn [pneg map ssorted]. split; [|apply IH; exact Hs].
    apply Forall_map. eapply Forall_impl; [|exact Ha]. intros m Hm. exact Hm.
Qed.

Theorem Inv_pneg p : Inv p -> Inv (pneg p).
Proof. rewrite !Inv_iff. intros [H| ->]; [left; apply InvS_pneg; exact H | right; reflexivity]. Qed.

Theorem Inv_psub p q : Inv p -> Inv q -> Inv (psub p q).
Proof. intros Hp Hq. apply Inv_padd; [exact Hp | apply Inv_pneg; exact Hq]. Qed.

Theorem InvS_psub p q : InvS p -> Inv q -> InvS (psub p q).
Proof. intros Hp Hq. apply InvS_padd; [exact Hp | apply Inv_pneg; exact Hq]. Qed.

Theorem Inv_padd_Z p c : Inv p -> Inv (padd_Z p c).
Proof. intros Hp. rewrite padd_Z_eq. apply Inv_padd; [exact Hp | apply Inv_P_of_Z]. Qed.

Theorem InvS_padd_Z p c : InvS p -> InvS (padd_Z p c).
Proof. intros Hp. rewrite padd_Z_eq. apply InvS_padd; [exact Hp | apply Inv_P_of_Z]. Qed.

(* --- multiplication *)
Definition hle (x : nat) (l : list nat) : Prop := match l with [] => True | y :: _ => (x <= y)%nat end.

Lemma vsortedb_cons x l : vsortedb (x :: l) = true <-> hle x l /\ vsortedb l = true.
Proof.
  destruct l as [|y r]; [cbn; tauto|].
  change (vsortedb (x :: y :: r)) with ((x <=? y)%nat && vsortedb (y :: r)).
  rewrite andb_true_iff, Nat.leb_le. cbn [hle]. tauto.
Qed.

Lemma hle_vmerge x a b : hle x a -> hle x b -> hle x (vmerge a b).
Proof.
  destruct a as [|u a]; [rewrite vmerge_nil_l; auto|]. destruct b as [|v b]; [rewrite vmerge_nil_r; auto|].
  rewrite vmerge_cons. destruct (u <? v)%nat; cbn [hle]; auto.
Qed.

Lemma vsortedb_vmerge a b : vsortedb a = true -> vsortedb b = true -> vsortedb (vmerge a b) = true.
Proof.
  revert b; induction a as [|x a IHa]; intros b Ha Hb.
  - rewrite vmerge_nil_l. exact Hb.
  - revert Hb; induction b as [|y b IHb]; intros Hb.
    + rewrite vmerge_nil_r. exact Ha.
    + rewrite vmerge_cons. apply vsortedb_cons in Ha, Hb. destruct Ha as [Ha1 Ha2], Hb as [Hb1 Hb2].
      destruct (x <? y)%nat eqn:E; apply vsortedb_cons.
      * apply Nat.ltb_lt in E. split; [|apply IHa; [exact Ha2 | apply vsortedb_cons; auto]].
        apply hle_vmerge; [exact Ha1 | cbn [hle]; lia].
      * apply Nat.ltb_ge in E. split; [|apply IHb; exact Hb2].
        apply hle_vmerge; [cbn [hle]; lia | exact Hb1].
Qed.

Lemma mono_ok_mul A B : mono_ok A -> mono_ok B -> mono_ok (mono_mul A B).
Proof.
  intros [Ha1 Ha2] [Hb1 Hb2]. split; cbn [mono_mul fst snd]; [|apply vsortedb_vmerge; assumption].
  intros H. apply Z.mul_eq_0 in H. tauto.
Qed.

Lemma peq_Z_single_ok m : mono_ok m -> peq_Z [m] 0 = false.
Proof.
  intros [H _]. rewrite peq_Z_0. destruct (is_zero_args [m]) eqn:E; [|reflexivity].
  apply is_zero_args_iff in E. destruct E as [E|E]; [discriminate|]. inversion E; subst m. exfalso; apply H; reflexivity.
Qed.

Lemma InvS_pmul_fold l res :
  (forall AB, In AB l -> mono_ok (fst AB) /\ mono_ok (snd AB)) -> InvS res ->
  InvS (fold_left (fun res AB => padd res [mono_mul (fst AB) (snd AB)]) l res).
Proof.
  revert res; induction l as [|AB l IH]; intros res Hl Hres; cbn [fold_left]; [exact Hres|].
  apply IH; [intros X HX; apply Hl; right; exact HX|].
  apply InvS_padd; [exact Hres|]. apply InvS_Inv, InvS_single.
  destruct (Hl AB (or_introl eq_refl)) as [H1 H2]. apply mono_ok_mul; assumption.
Qed.

Lemma InvS_pmul_loop p q : InvS p -> InvS q -> InvS (pmul_loop p q).
Proof.
  intros Hp Hq. apply InvS_iff in Hp, Hq. destruct Hp as [Hp _], Hq as [Hq _]. rewrite Forall_forall in Hp, Hq.
  apply InvS_pmul_fold; [|exact InvS_nil]. intros [A B] H. apply in_prod_iff in H. cbn [fst snd]. split; [apply Hp | apply Hq]; tauto.
Qed.

Theorem InvS_pmul p q : Inv p -> Inv q -> InvS (pmul p q).
Proof.
  intros Hp Hq. unfold pmul. rewrite !peq_Z_0.
  destruct (is_zero_args p) eqn:Ep; [exact InvS_nil|]. destruct (is_zero_args q) eqn:Eq; [exact InvS_nil|].
  cbn [orb]. apply InvS_pmul_loop; apply Inv_not_zero_args; assumption.
Qed.

Theorem InvS_pmul_Z p c : Inv p -> InvS (pmul_Z p c).
Proof. intros Hp. rewrite pmul_Z_eq. apply InvS_pmul; [exact Hp | apply Inv_P_of_Z]. Qed.

(* --- powers along a multiplication schedule *)
Lemma nassoc_In {V} k (d : list (nat * V)) v : nassoc k d = Some v -> In (k, v) d.
Proof.
  induction d as [|[k' v'] d IH]; cbn [nassoc]; [discriminate|].
  destruct (Nat.eqb k' k) eqn:E; [apply Nat.eqb_eq in E; subst k'; intros H; inversion H; left; reflexivity | intros H; right; auto].
Qed.

(* generic invariant of the schedule: Q n v = "v is an n-th power" *)
Definition last_exp (n0 : nat) (steps : list (nat * nat)) : nat :=
  fold_left (fun _ ij => (fst ij + snd ij)%nat) steps n0.

Lemma pow_chain_loop_inv {V} (Q : nat -> V -> Prop) (mul : V -> V -> V) :
  (forall i j a b, Q i a -> Q j b -> Q (i + j)%nat (mul a b)) ->
  forall steps powers last n0 y,
    Forall (fun kv => Q (fst kv) (snd kv)) powers -> Q n0 last ->
    pow_chain_loop mul powers last steps = Some y -> Q (last_exp n0 steps) y.
Proof.
  intros Hmul. induction steps as [|[i j] rest IH]; intros powers last n0 y Hp Hl; cbn [pow_chain_loop last_exp fold_left].
  - intros H; inversion H; subst; exact Hl.
  - destruct (nassoc i powers) as [xi|] eqn:Ei; [|discriminate]. destruct (nassoc j powers) as [xj|] eqn:Ej; [|discriminate].
    rewrite Forall_forall in Hp. apply nassoc_In in Ei, Ej. apply Hp in Ei, Ej. cbn [fst snd] in Ei, Ej.
    intros H. apply (IH _ _ (i + j)%nat _) in H; [exact H | | apply Hmul; assumption].
    apply Forall_app. split; [apply Forall_forall; exact Hp|]. constructor; [cbn [fst snd]; apply Hmul; assumption | constructor].
Qed.

Theorem Inv_ppow_chain x steps y : Inv x -> ppow_chain x steps = Some y -> Inv y.
Proof.
  intros Hx H. unfold ppow_chain in H.
  assert (Hmul : forall i j a b, (fun (_ : nat) v => Inv v) i a -> (fun (_ : nat) v => Inv v) j b ->
                                 (fun (_ : nat) v => Inv v) (i + j)%nat (pmul a b)).
  { intros _ _ a b Ha Hb. apply InvS_Inv, InvS_pmul; assumption. }
  refine (pow_chain_loop_inv (fun _ v => Inv v) pmul Hmul steps _ x 1%nat y _ Hx H).
  constructor; [exact Hx | constructor].
Qed.

Theorem InvS_ppow_chain x steps y : InvS x -> ppow_chain x steps = Some y -> InvS y.
Proof.
  intros Hx H. unfold ppow_chain in H.
  assert (Hmul : forall i j a b, (fun (_ : nat) v => InvS v) i a -> (fun (_ : nat) v => InvS v) j b ->
                                 (fun (_ : nat) v => InvS v) (i + j)%nat (pmul a b)).
  { intros _ _ a b Ha Hb. apply InvS_pmul; apply InvS_Inv; assumption. }
  refine (pow_chain_loop_inv (fun _ v => InvS v) pmul Hmul steps _ x 1%nat y _ Hx H).
  constructor; [exact Hx | constructor].
Qed.
(* ================================================================== 5. exact zero tests (formal level) *)
Lemma mlt_neq a b : mlt a b -> snd a <> snd b.
Proof. unfold mlt. intros H E. rewrite E in H. exact (vlt_irrefl _ H). Qed.

Lemma coef_above a r : Forall (mlt a) r -> coef (snd a) r = 0.
Proof.
  induction r as [|b r IH]; intros H; cbn [coef]; [reflexivity|]. inversion H as [|? ? Hb Hr]; subst.
  rewrite IH by exact Hr. rewrite nlist_eqb_neq; [reflexivity|]. intros E. exact (mlt_neq _ _ Hb (eq_sym E)).
Qed.

Lemma InvS_coef_head a r : InvS (a :: r) -> coef (snd a) (a :: r) = fst a /\ fst a <> 0.
Proof.
  intros H. apply InvS_iff in H. destruct H as [H1 [H2 _]]. inversion H1 as [|? ? [Ha _] _]; subst.
  cbn [coef]. rewrite nlist_eqb_refl, coef_above by exact H2. split; [ring | exact Ha].
Qed.

Theorem InvS_fzero_nil p : InvS p -> (fzero p <-> p = []).
Proof.
  intros H. split; [|intros -> mu; reflexivity].
  destruct p as [|a r]; [reflexivity|]. intros Hz. destruct (InvS_coef_head a r H) as [H1 H2]. rewrite Hz in H1. congruence.
Qed.

Lemma fzero_special : fzero [(0, [])].
Proof. apply fzero_zero_args. reflexivity. Qed.

Theorem Inv_fzero_iff p : Inv p -> (fzero p <-> is_zero_args p = true).
Proof.
  intros H. split; [|apply fzero_zero_args]. apply Inv_iff in H. destruct H as [H| ->]; [|reflexivity].
  intros Hz. apply (InvS_fzero_nil p H) in Hz. subst; reflexivity.
Qed.

(* C17_bool_exact *)
Theorem pbool_exact p : Inv p -> (pbool p = false <-> fzero p).
Proof.
  intros H. apply Inv_iff in H. destruct H as [H| ->]; [|split; [intros _; exact fzero_special | reflexivity]].
  rewrite (InvS_fzero_nil p H). destruct p as [|a [|b r]]; cbn [pbool]; try (split; congruence).
  apply InvS_iff in H. destruct H as [H _]. inversion H as [|? ? [Ha _] _]; subst.
  apply Z.eqb_neq in Ha. rewrite Ha. cbn [negb]. split; congruence.
Qed.

(* C17_eq0_exact *)
Theorem peq_Z0_exact p : Inv p -> (peq_Z p 0 = true <-> fzero p).
Proof. intros H. rewrite peq_Z_0. symmetry. apply Inv_fzero_iff; exact H. Qed.

Lemma Inv_nonzero p : Inv p -> ~ fzero p -> InvS p /\ p <> [].
Proof.
  intros H Hz. apply Inv_not_zero_args; [exact H|]. destruct (is_zero_args p) eqn:E; [|reflexivity].
  exfalso; apply Hz, fzero_zero_args; exact E.
Qed.

(* ================================================================== 6. Z[X] has no zero divisors (formal level) *)
(* compare is NOT compatible with multiplication ([] < [0] but [1] > [0;1]); the proof uses another order,
   lexicographic on the exponent vectors: at the first difference the SMALLER variable wins. *)
Fixpoint glt (a b : list nat) : Prop :=
  match a, b with
  | _, [] => False
  | [], _ :: _ => True
  | x :: a', y :: b' => (y < x)%nat \/ (x = y /\ glt a' b')
  end.

Lemma glt_irrefl a : ~ glt a a.
Proof. induction a as [|x a IH]; cbn [glt]; [tauto | intros [H|[_ H]]; [lia | auto]]. Qed.

Lemma glt_trans a b c : glt a b -> glt b c -> glt a c.
Proof.
  revert b c; induction a as [|x a IH]; intros [|y b] [|z c]; cbn [glt]; try tauto.
  intros [H1|[H1 H2]] [H3|[H3 H4]]; try (left; lia). right; split; [lia | eauto].
Qed.

Lemma glt_total a b : glt a b \/ a = b \/ glt b a.
Proof.
  revert b; induction a as [|x a IH]; intros [|y b]; cbn [glt]; auto.
  destruct (lt_eq_lt_dec x y) as [[H|H]|H]; [right; right; left; exact H | | left; left; exact H].
  subst y. destruct (IH b) as [H|[H|H]]; [left; right; auto | right; left; subst; reflexivity | right; right; right; auto].
Qed.

Lemma glt_vmerge_l k : forall a b, glt a b -> glt (vmerge a k) (vmerge b k).
Proof.
  induction k as [|z k IHk]; intros a b H; [rewrite !vmerge_nil_r; exact H|].
  revert b H; induction a as [|x a IHa]; intros [|y b] H; cbn [glt] in H; try tauto.
  - rewrite vmerge_nil_l, vmerge_cons. destruct (y <? z)%nat eqn:E; cbn [glt].
    + apply Nat.ltb_lt in E. left; exact E.
    + right; split; [reflexivity|]. specialize (IHk [] (y :: b) I). rewrite vmerge_nil_l in IHk. exact IHk.
  - rewrite !vmerge_cons. destruct (Nat.ltb_spec x z) as [E1|E1], (Nat.ltb_spec y z) as [E2|E2]; cbn [glt].
    + destruct H as [H|[-> H]]; [left; exact H | right; split; [reflexivity | apply IHa; exact H]].
    + destruct H as [H|[-> H]]; lia.
    + destruct H as [H|[-> H]]; [left; exact E2 | lia].
    + right; split; [reflexivity|]. apply IHk. cbn [glt]. exact H.
Qed.

Lemma vmerge_hle_l x a b : hle x a -> hle x b -> vsortedb b = true -> vmerge (x :: a) b = x :: vmerge a b.
Proof.
  intros Ha. induction b as [|y b IH]; intros Hb Hs; [rewrite !vmerge_nil_r; reflexivity|].
  cbn [hle] in Hb. rewrite vmerge_cons. destruct (x <? y)%nat eqn:E; [reflexivity|].
  apply Nat.ltb_ge in E. assert (x = y) by lia; subst y. apply vsortedb_cons in Hs. destruct Hs as [Hs1 Hs2].
  rewrite IH by assumption.
  destruct a as [|w a]; [rewrite !vmerge_nil_l; reflexivity|]. cbn [hle] in Ha.
  rewrite vmerge_cons. replace (w <? x)%nat with false by (symmetry; apply Nat.ltb_ge; lia). reflexivity.
Qed.

Lemma vmerge_comm a b : vsortedb a = true -> vsortedb b = true -> vmerge a b = vmerge b a.
Proof.
  revert b; induction a as [|x a IHa]; intros b Ha Hb; [rewrite vmerge_nil_l, vmerge_nil_r; reflexivity|].
  revert Hb; induction b as [|y b IHb]; intros Hb; [rewrite vmerge_nil_l, vmerge_nil_r; reflexivity|].
  pose proof Ha as Ha'. pose proof Hb as Hb'. apply vsortedb_cons in Ha', Hb'. destruct Ha' as [Ha1 Ha2], Hb' as [Hb1 Hb2].
  rewrite !vmerge_cons. destruct (Nat.ltb_spec x y) as [E1|E1], (Nat.ltb_spec y x) as [E2|E2]; try lia.
  - f_equal. apply IHa; assumption.
  - f_equal. apply IHb; assumption.
  - assert (x = y) by lia; subst y.
    rewrite (vmerge_hle_l x a b) by assumption. rewrite (vmerge_hle_l x b a) by assumption.
    f_equal. f_equal. apply IHa; assumption.
Qed.

Lemma glt_vmerge_r k a b :
  vsortedb k = true -> vsortedb a = true -> vsortedb b = true -> glt a b -> glt (vmerge k a) (vmerge k b).
Proof. intros Hk Ha Hb H. rewrite (vmerge_comm k a), (vmerge_comm k b) by assumption. apply glt_vmerge_l; exact H. Qed.

Definition gle (a b : list nat) : Prop := a = b \/ glt a b.

Lemma gle_vmerge a a' b b' :
  vsortedb a = true -> vsortedb a' = true -> vsortedb b = true -> vsortedb b' = true ->
  gle a a' -> gle b b' -> (a <> a' \/ b <> b') -> glt (vmerge a b) (vmerge a' b').
Proof.
  intros Ha Ha' Hb Hb' [->|H1] [->|H2] Hne.
  - destruct Hne; congruence.
  - apply glt_vmerge_r; assumption.
  - apply glt_vmerge_l; assumption.
  - eapply glt_trans; [apply glt_vmerge_l; exact H1 | apply glt_vmerge_r; assumption].
Qed.

Lemma gle_max (p : poly) : p <> [] -> exists M, In M p /\ forall A, In A p -> gle (snd A) (snd M).
Proof.
  induction p as [|a p IH]; [congruence|]. intros _. destruct p as [|b r].
  - exists a. split; [left; reflexivity|]. intros A [<-|[]]. left; reflexivity.
  - destruct IH as (M & HM & Hall); [discriminate|].
    destruct (glt_total (snd a) (snd M)) as [H|[H|H]].
    + exists M. split; [right; exact HM|]. intros A [<-|HA]; [right; exact H | apply Hall; exact HA].
    + exists M. split; [right; exact HM|]. intros A [<-|HA]; [left; exact H | apply Hall; exact HA].
    + exists a. split; [left; reflexivity|]. intros A [<-|HA]; [left; reflexivity|].
      destruct (Hall A HA) as [E|E]; right; [rewrite E; exact H | eapply glt_trans; [exact E | exact H]].
Qed.

Lemma ssorted_NoDup p : ssorted p -> NoDup p.
Proof.
  induction p as [|a p IH]; intros H; [constructor|]. destruct H as [H1 H2]. constructor; [|apply IH; exact H2].
  intros Hin. rewrite Forall_forall in H1. exact (mlt_neq _ _ (H1 a Hin) eq_refl).
Qed.

Lemma ssorted_snd_inj p A B : ssorted p -> In A p -> In B p -> snd A = snd B -> A = B.
Proof.
  induction p as [|a p IH]; intros H HA HB E; [destruct HA|]. destruct H as [H1 H2]. rewrite Forall_forall in H1.
  destruct HA as [<-|HA], HB as [<-|HB]; auto.
  - exfalso. exact (mlt_neq _ _ (H1 B HB) E).
  - exfalso. exact (mlt_neq _ _ (H1 A HA) (eq_sym E)).
Qed.

Lemma zsum_single {A} (f : A -> Z) l x :
  NoDup l -> In x l -> (forall y, In y l -> y <> x -> f y = 0) -> zsum f l = f x.
Proof.
  induction l as [|a l IH]; intros Hnd Hin Hz; [destruct Hin|]. inversion Hnd as [|? ? Hna Hnd']; subst. cbn [zsum].
  destruct Hin as [->|Hin].
  - rewrite zsum_zero; [ring|]. intros y Hy. apply Hz; [right; exact Hy | intros ->; contradiction].
  - rewrite IH; [|exact Hnd' | exact Hin | intros y Hy; apply Hz; right; exact Hy].
    rewrite Hz; [ring | left; reflexivity | intros ->; contradiction].
Qed.

Lemma zsum_map {A B} (g : A -> B) (f : B -> Z) l : zsum f (map g l) = zsum (fun x => f (g x)) l.
Proof. induction l as [|a l IH]; cbn [map zsum]; [reflexivity | rewrite IH; reflexivity]. Qed.

Lemma zsum_list_prod {A B} (f : A * B -> Z) p q :
  zsum f (list_prod p q) = zsum (fun a => zsum (fun b => f (a, b)) q) p.
Proof. induction p as [|a p IH]; cbn [list_prod zsum]; [reflexivity|]. rewrite zsum_app, zsum_map, IH. reflexivity. Qed.

(* the product of two non-zero polynomials has a non-zero coefficient *)
Theorem pmul_leading p q :
  InvS p -> InvS q -> p <> [] -> q <> [] ->
  exists Mp Mq, In Mp p /\ In Mq q /\
    coef (vmerge (snd Mp) (snd Mq)) (pmul p q) = fst Mp * fst Mq /\ fst Mp * fst Mq <> 0.
Proof.
  intros Hp Hq Np Nq. apply InvS_iff in Hp, Hq. destruct Hp as [Okp Sp], Hq as [Okq Sq].
  rewrite Forall_forall in Okp, Okq.
  destruct (gle_max p Np) as (Mp & HMp & Maxp). destruct (gle_max q Nq) as (Mq & HMq & Maxq).
  exists Mp, Mq. split; [exact HMp|]. split; [exact HMq|]. split.
  2:{ intros H. apply Z.mul_eq_0 in H. destruct (Okp Mp HMp) as [H1 _]. destruct (Okq Mq HMq) as [H2 _]. tauto. }
  rewrite coef_pmul, zsum_list_prod.
  assert (Hterm : forall A B, In A p -> In B q -> (A <> Mp \/ B <> Mq) -> cterm (vmerge (snd Mp) (snd Mq)) (A, B) = 0).
  { intros A B HA HB Hne. unfold cterm; cbn [fst snd]. rewrite nlist_eqb_neq; [reflexivity|].
    intros E. apply (glt_irrefl (vmerge (snd Mp) (snd Mq))). rewrite <- E at 1.
    apply gle_vmerge; try (apply Okp; assumption); try (apply Okq; assumption); auto.
    destruct Hne as [Hne|Hne]; [left | right]; intros E'; apply Hne.
    - apply (ssorted_snd_inj p); assumption.
    - apply (ssorted_snd_inj q); assumption. }
  rewrite (zsum_single _ p Mp (ssorted_NoDup p Sp) HMp).
  - rewrite (zsum_single _ q Mq (ssorted_NoDup q Sq) HMq).
    + unfold cterm; cbn [fst snd]. rewrite nlist_eqb_refl. reflexivity.
    + intros B HB Hne. apply Hterm; auto.
  - intros A HA Hne. apply zsum_zero. intros B HB. apply Hterm; auto.
Qed.

Theorem pmul_nonzero p q : InvS p -> InvS q -> p <> [] -> q <> [] -> pmul p q <> [].
Proof.
  intros Hp Hq Np Nq E. destruct (pmul_leading p q Hp Hq Np Nq) as (Mp & Mq & _ & _ & H1 & H2).
  rewrite E in H1. cbn [coef] in H1. congruence.
Qed.

Theorem pmul_integral p q : Inv p -> Inv q -> fzero (pmul p q) -> fzero p \/ fzero q.
Proof.
  intros Hp Hq Hz.
  destruct (is_zero_args p) eqn:Ep; [left; apply fzero_zero_args; exact Ep|].
  destruct (is_zero_args q) eqn:Eq; [right; apply fzero_zero_args; exact Eq|].
  exfalso. destruct (Inv_not_zero_args p Hp Ep) as [Sp Np]. destruct (Inv_not_zero_args q Hq Eq) as [Sq Nq].
  apply (pmul_nonzero p q Sp Sq Np Nq). apply InvS_fzero_nil; [apply InvS_pmul; assumption | exact Hz].
Qed.
(* ================================================================== 7. rational polynomials: well-formedness *)
Definition rwf (r : rpoly) : Prop := Inv (rnum r) /\ Inv (rden r) /\ ~ fzero (rden r).

Lemma rwf_iff r : rwf r <-> Inv (rnum r) /\ InvS (rden r) /\ rden r <> [].
Proof.
  unfold rwf. split; intros (H1 & H2 & H3); (split; [exact H1|]).
  - apply Inv_nonzero; assumption.
  - split; [apply InvS_Inv; exact H2|]. intros Hz. apply H3. apply InvS_fzero_nil; assumption.
Qed.

Lemma rwf_intro n d : Inv n -> InvS d -> d <> [] -> rwf (mkR n d).
Proof. intros. apply rwf_iff. cbn [rnum rden]. auto. Qed.

Lemma req_Z_0 a : req_Z a 0 = is_zero_args (rnum a).
Proof. unfold req_Z. cbn [Z.eqb andb]. rewrite peq_Z_0. destruct (is_zero_args (rnum a)); reflexivity. Qed.

Lemma req_Z_1 a : req_Z a 1 = poly_eqb (rnum a) [(1, [])] && poly_eqb (rden a) [(1, [])].
Proof. unfold req_Z. cbn [Z.eqb andb]. rewrite !peq_Z_1. destruct (poly_eqb (rnum a) [(1, [])] && poly_eqb (rden a) [(1, [])]); reflexivity. Qed.

Theorem rwf_R_of_poly p : Inv p -> rwf (R_of_poly p).
Proof. intros H. apply rwf_intro; [exact H | reflexivity | discriminate]. Qed.

Theorem rwf_R_of_Z c : rwf (R_of_Z c).
Proof. apply rwf_R_of_poly. apply (Inv_P_of_Z c). Qed.

Theorem rwf_R_of_var v : rwf (R_of_var v).
Proof. apply rwf_R_of_poly. apply InvS_Inv. apply (InvS_P_of_var v). Qed.

Theorem rwf_radd a b : rwf a -> rwf b -> rwf (radd a b).
Proof.
  intros Ha Hb. unfold radd. rewrite !req_Z_0.
  destruct (is_zero_args (rnum b)) eqn:Eb; [exact Ha|]. destruct (is_zero_args (rnum a)) eqn:Ea; [exact Hb|].
  apply rwf_iff in Ha, Hb. destruct Ha as (Na & Da & Za), Hb as (Nb & Db & Zb).
  destruct (Inv_not_zero_args _ Na Ea) as [Na' _]. destruct (Inv_not_zero_args _ Nb Eb) as [Nb' _].
  set (nn_nd := if (length (rden a) =? length (rden b))%nat && peq (rden a) (rden b) then _ else _).
  assert (H : InvS (fst nn_nd) /\ InvS (snd nn_nd) /\ snd nn_nd <> []).
  { subst nn_nd. destruct ((length (rden a) =? length (rden b))%nat && peq (rden a) (rden b)); cbn [fst snd].
    - split; [apply InvS_padd; [exact Na' | exact Nb] | split; assumption].
    - split; [apply InvS_padd; [|apply InvS_Inv]; apply InvS_pmul; auto using InvS_Inv|].
      split; [apply InvS_pmul; apply InvS_Inv; assumption | apply pmul_nonzero; assumption]. }
  clearbody nn_nd. destruct H as (H1 & H2 & H3). cbv zeta.
  destruct (peq_Z (fst nn_nd) 0); [apply rwf_R_of_poly; reflexivity|].
  destruct ((length (fst nn_nd) =? length (snd nn_nd))%nat && peq (fst nn_nd) (snd nn_nd)); [apply rwf_R_of_poly; reflexivity|].
  apply rwf_intro; [apply InvS_Inv; exact H1 | exact H2 | exact H3].
Qed.

(* the common-factor loop *)
Lemma cancel_nil_l b : cancel [] b = ([], b).
Proof. induction b as [|y b IH]; [reflexivity|]. cbn [cancel] in *. rewrite IH. reflexivity. Qed.

Lemma cancel_nil_r a : cancel a [] = (a, []).
Proof. induction a as [|x a IH]; [reflexivity|]. cbn [cancel] in *. rewrite IH. reflexivity. Qed.

Lemma cancel_cons x a y b :
  cancel (x :: a) (y :: b) =
  if (x =? y)%nat then cancel a b
  else if (x <? y)%nat then (x :: fst (cancel a (y :: b)), snd (cancel a (y :: b)))
  else (fst (cancel (x :: a) b), y :: snd (cancel (x :: a) b)).
Proof. reflexivity. Qed.

Lemma cancel_Forall (P : nat -> Prop) a b :
  (Forall P a -> Forall P (fst (cancel a b))) /\ (Forall P b -> Forall P (snd (cancel a b))).
Proof.
  revert b; induction a as [|x a IHa]; intros b; [rewrite cancel_nil_l; cbn [fst snd]; auto|].
  induction b as [|y b IHb]; [rewrite cancel_nil_r; cbn [fst snd]; auto|].
  rewrite cancel_cons. destruct (x =? y)%nat.
  - destruct (IHa b) as [H1 H2]. split; intros H; inversion H; auto.
  - destruct (x <? y)%nat; cbn [fst snd].
    + destruct (IHa (y :: b)) as [H1 H2]. split; [intros H; inversion H; subst; constructor; auto | exact H2].
    + destruct IHb as [H1 H2]. split; [exact H1 | intros H; inversion H; subst; constructor; auto].
Qed.

Lemma vsortedb_Forall x l : vsortedb (x :: l) = true -> Forall (le x) l.
Proof.
  revert x; induction l as [|y l IH]; intros x H; [constructor|].
  apply vsortedb_cons in H. destruct H as [H1 H2]. cbn [hle] in H1. constructor; [exact H1|].
  eapply Forall_impl; [|apply IH; exact H2]. intros z Hz. cbn beta in *. lia.
Qed.

Lemma Forall_hle x l : Forall (le x) l -> hle x l.
Proof. intros H; destruct l; [exact I | inversion H; assumption]. Qed.

Lemma cancel_sorted a b :
  vsortedb a = true -> vsortedb b = true -> vsortedb (fst (cancel a b)) = true /\ vsortedb (snd (cancel a b)) = true.
Proof.
  revert b; induction a as [|x a IHa]; intros b Ha Hb; [rewrite cancel_nil_l; cbn [fst snd]; auto|].
  revert Hb; induction b as [|y b IHb]; intros Hb; [rewrite cancel_nil_r; cbn [fst snd]; auto|].
  pose proof (vsortedb_Forall _ _ Ha) as Fa. pose proof (vsortedb_Forall _ _ Hb) as Fb.
  pose proof Ha as Ha'. pose proof Hb as Hb'. apply vsortedb_cons in Ha', Hb'. destruct Ha' as [_ Ha2], Hb' as [_ Hb2].
  rewrite cancel_cons. destruct (x =? y)%nat; [apply IHa; assumption|].
  destruct (x <? y)%nat; cbn [fst snd].
  - destruct (IHa (y :: b) Ha2 Hb) as [H1 H2]. split; [|exact H2]. apply vsortedb_cons. split; [|exact H1].
    apply Forall_hle. apply (cancel_Forall (le x) a (y :: b)). exact Fa.
  - destruct (IHb Hb2) as [H1 H2]. split; [exact H1|]. apply vsortedb_cons. split; [|exact H2].
    apply Forall_hle. apply (cancel_Forall (le y) (x :: a) b). exact Fb.
Qed.

Theorem rwf_rmul a b : rwf a -> rwf b -> rwf (rmul a b).
Proof.
  intros Ha Hb. unfold rmul. rewrite !req_Z_0.
  destruct (is_zero_args (rnum a)) eqn:Ea; [exact Ha|]. destruct (is_zero_args (rnum b)) eqn:Eb; [exact Hb|].
  destruct (req_Z b 1); [exact Ha|]. destruct (req_Z a 1); [exact Hb|].
  apply rwf_iff in Ha, Hb. destruct Ha as (Na & Da & Za), Hb as (Nb & Db & Zb).
  assert (H1 : InvS (pmul (rnum a) (rnum b))) by (apply InvS_pmul; assumption).
  assert (H2 : InvS (pmul (rden a) (rden b))) by (apply InvS_pmul; apply InvS_Inv; assumption).
  assert (H3 : pmul (rden a) (rden b) <> []) by (apply pmul_nonzero; assumption).
  cbv zeta. destruct (peq_Z (pmul (rnum a) (rnum b)) 0); [apply rwf_R_of_poly; reflexivity|].
  destruct ((length (pmul (rnum a) (rnum b)) =? length (pmul (rden a) (rden b)))%nat && peq (pmul (rnum a) (rnum b)) (pmul (rden a) (rden b)));
    [apply rwf_R_of_poly; reflexivity|].
  destruct (pmul (rnum a) (rnum b)) as [|fl1 [|? ?]] eqn:En; try (apply rwf_intro; [apply InvS_Inv|..]; assumption).
  destruct (pmul (rden a) (rden b)) as [|fl2 [|? ?]] eqn:Ed; try (apply rwf_intro; [apply InvS_Inv|..]; assumption).
  apply InvS_iff in H1, H2. destruct H1 as [H1 _], H2 as [H2 _].
  inversion H1 as [|? ? [C1 S1] _]; subst. inversion H2 as [|? ? [C2 S2] _]; subst.
  destruct (cancel_sorted _ _ S1 S2) as [T1 T2].
  apply rwf_intro; [apply InvS_Inv| |discriminate]; apply InvS_single; split; assumption.
Qed.

Theorem rwf_rneg a : rwf a -> rwf (rneg a).
Proof. intros (H1 & H2 & H3). split; [apply Inv_pneg; exact H1 | split; assumption]. Qed.

Theorem rwf_rsub a b : rwf a -> rwf b -> rwf (rsub a b).
Proof. intros Ha Hb. apply rwf_radd; [exact Ha | apply rwf_rneg; exact Hb]. Qed.

Theorem rwf_radd_Z a c : rwf a -> rwf (radd_Z a c).
Proof. intros Ha. apply rwf_radd; [exact Ha | apply rwf_R_of_Z]. Qed.

Theorem rwf_rmul_Z a c : rwf a -> rwf (rmul_Z a c).
Proof. intros Ha. apply rwf_rmul; [exact Ha | apply rwf_R_of_Z]. Qed.

Theorem rwf_rsub_Z a c : rwf a -> rwf (rsub_Z a c).
Proof. apply rwf_radd_Z. Qed.

Theorem rwf_rrsub_Z c a : rwf a -> rwf (rrsub_Z c a).
Proof. intros Ha. apply rwf_radd_Z, rwf_rneg; exact Ha. Qed.

(* inv answers None exactly for the (formally) zero operands; otherwise the result is well formed *)
Theorem rinv_None a : rwf a -> (rinv a = None <-> fzero (rnum a)).
Proof.
  intros (H1 & _). unfold rinv. rewrite req_Z_0. rewrite (Inv_fzero_iff _ H1).
  destruct (is_zero_args (rnum a)); split; congruence.
Qed.

Theorem rwf_rinv a r : rwf a -> rinv a = Some r -> rwf r.
Proof.
  intros Ha. unfold rinv. rewrite req_Z_0. destruct (is_zero_args (rnum a)) eqn:E; [discriminate|].
  intros H; inversion H; subst r. apply rwf_iff in Ha. destruct Ha as (H1 & H2 & H3).
  destruct (Inv_not_zero_args _ H1 E) as [H4 H5]. apply rwf_intro; [apply InvS_Inv; exact H2 | exact H4 | exact H5].
Qed.

Theorem rwf_rdiv a b : rwf a -> rwf b -> rwf (rdiv a b).
Proof.
  intros Ha Hb. unfold rdiv. destruct (rinv b) as [ib|] eqn:E.
  - apply rwf_rmul; [exact Ha | eapply rwf_rinv; eassumption].
  - apply rwf_rmul_Z; exact Ha.
Qed.

Theorem rwf_rrdiv_Z c a : rwf a -> ~ fzero (rnum a) -> rwf (rrdiv_Z c a).
Proof.
  intros (H1 & H2 & H3) Hz. unfold rrdiv_Z. split; cbn [rnum rden]; [apply InvS_Inv, InvS_pmul_Z; exact H2 | split; assumption].
Qed.

Theorem rwf_rpow_chain x steps y : rwf x -> rpow_chain x steps = Some y -> rwf y.
Proof.
  intros Hx H. unfold rpow_chain in H.
  assert (Hmul : forall i j a b, (fun (_ : nat) v => rwf v) i a -> (fun (_ : nat) v => rwf v) j b ->
                                 (fun (_ : nat) v => rwf v) (i + j)%nat (rmul a b)).
  { intros _ _ a b Ha Hb. apply rwf_rmul; assumption. }
  refine (pow_chain_loop_inv (fun _ v => rwf v) rmul Hmul steps _ x 1%nat y _ Hx H).
  constructor; [exact Hx | constructor].
Qed.

(* exact zero tests *)
Theorem rbool_exact r : rwf r -> (rbool r = false <-> fzero (rnum r)).
Proof. intros (H & _). apply pbool_exact; exact H. Qed.

Theorem req_Z0_exact r : rwf r -> (req_Z r 0 = true <-> fzero (rnum r)).
Proof. intros (H & _). rewrite req_Z_0. symmetry. apply Inv_fzero_iff; exact H. Qed.
(* ================================================================== 8. evaluation in a commutative ring *)
Section Eval.
  Variable R : Type.
  Variables (R0 R1 : R) (Radd Rmul Rsub : R -> R -> R) (Ropp : R -> R).
  Hypothesis Rth : ring_theory R0 R1 Radd Rmul Rsub Ropp (@eq R).
  Add Ring Rring : Rth.
  Local Notation "x [+] y" := (Radd x y) (at level 50, left associativity).
  Local Notation "x [*] y" := (Rmul x y) (at level 40, left associativity).
  Local Notation "x [-] y" := (Rsub x y) (at level 50, left associativity).
  Local Notation "[~] x" := (Ropp x) (at level 35, right associativity).

  (* the canonical map Z -> R *)
  Definition zinj : Z -> R := gen_phiZ R0 R1 Radd Rmul Ropp.

  Lemma zinj_morph : ring_morph R0 R1 Radd Rmul Rsub Ropp (@eq R) 0 1 Z.add Z.mul Z.sub Z.opp Zeq_bool zinj.
  Proof. exact (gen_phiZ_morph (Eqsth R) (Eq_ext Radd Rmul Ropp) Rth). Qed.

  Lemma zinj_0 : zinj 0 = R0. Proof. exact (morph0 zinj_morph). Qed.
  Lemma zinj_1 : zinj 1 = R1. Proof. exact (morph1 zinj_morph). Qed.
  Lemma zinj_add x y : zinj (x + y) = zinj x [+] zinj y. Proof. exact (morph_add zinj_morph x y). Qed.
  Lemma zinj_sub x y : zinj (x - y) = zinj x [-] zinj y. Proof. exact (morph_sub zinj_morph x y). Qed.
  Lemma zinj_mul x y : zinj (x * y) = zinj x [*] zinj y. Proof. exact (morph_mul zinj_morph x y). Qed.
  Lemma zinj_opp x : zinj (- x) = [~] zinj x. Proof. exact (morph_opp zinj_morph x). Qed.

  Variable rho : nat -> R.       (* valuation of the variables *)

  Fixpoint eval_vars (vs : list nat) : R :=
    match vs with [] => R1 | v :: r => rho v [*] eval_vars r end.
  Definition eval_mono (m : mono) : R := zinj (fst m) [*] eval_vars (snd m).
  Fixpoint peval (p : poly) : R :=
    match p with [] => R0 | m :: r => eval_mono m [+] peval r end.

  Fixpoint rpow (x : R) (n : nat) : R := match n with O => R1 | S k => x [*] rpow x k end.

  Lemma rpow_add x i j : rpow x (i + j) = rpow x i [*] rpow x j.
  Proof. induction i as [|i IH]; cbn [rpow Nat.add]; [ring | rewrite IH; ring]. Qed.

  Lemma rpow_1 x : rpow x 1 = x.
  Proof. cbn [rpow]. ring. Qed.

  Lemma peval_app p q : peval (p ++ q) = peval p [+] peval q.
  Proof. induction p as [|m p IH]; cbn [peval app]; [ring | rewrite IH; ring]. Qed.

  Lemma peval_one : peval [(1, [])] = R1.
  Proof. cbn [peval]; unfold eval_mono; cbn [eval_vars fst snd]. rewrite zinj_1. ring. Qed.

  Lemma peval_special_zero : peval [(0, [])] = R0.
  Proof. cbn [peval]; unfold eval_mono; cbn [eval_vars fst snd]. rewrite zinj_0. ring. Qed.

  Theorem peval_P_of_Z c : peval (P_of_Z c) = zinj c.
  Proof. unfold P_of_Z; cbn [peval]; unfold eval_mono; cbn [eval_vars fst snd]. ring. Qed.

  Theorem peval_P_of_var v : peval (P_of_var v) = rho v.
  Proof. unfold P_of_var; cbn [peval]; unfold eval_mono; cbn [eval_vars fst snd]. rewrite zinj_1. ring. Qed.

  Lemma peval_zero_args p : is_zero_args p = true -> peval p = R0.
  Proof. intros H. apply is_zero_args_iff in H. destruct H as [->| ->]; [reflexivity | apply peval_special_zero]. Qed.

  (* --- homomorphism: no invariant needed *)
  Lemma peval_padd_loop a b : peval (padd_loop a b) = peval a [+] peval b.
  Proof.
    revert b; induction a as [|ea a IHa]; intros b.
    - rewrite padd_loop_nil_l. cbn [peval]. ring.
    - induction b as [|eb b IHb].
      + rewrite padd_loop_nil_r. cbn [peval]. ring.
      + rewrite padd_loop_cons.
        destruct (vcmp (snd ea) (snd eb) <? 0) eqn:E1; [cbn [peval]; rewrite IHa; cbn [peval]; ring|].
        destruct (0 <? vcmp (snd ea) (snd eb)) eqn:E2; [cbn [peval]; rewrite IHb; cbn [peval]; ring|].
        apply Z.ltb_ge in E1, E2. assert (E : snd ea = snd eb) by (apply vcmp_eq_iff; lia).
        destruct (fst ea + fst eb =? 0) eqn:E3; cbn [negb peval]; rewrite IHa; unfold eval_mono; cbn [fst snd]; rewrite <- E.
        * apply Z.eqb_eq in E3.
          assert (H : zinj (fst ea) [+] zinj (fst eb) = R0) by (rewrite <- zinj_add, E3; apply zinj_0).
          transitivity ((zinj (fst ea) [+] zinj (fst eb)) [*] eval_vars (snd ea) [+] (peval a [+] peval b)); [rewrite H|]; ring.
        * rewrite zinj_add. ring.
  Qed.

  Theorem peval_padd p q : peval (padd p q) = peval p [+] peval q.
  Proof.
    unfold padd. rewrite !peq_Z_0. destruct (is_zero_args q) eqn:E.
    - rewrite (peval_zero_args q E). ring.
    - destruct (is_zero_args p) eqn:Ep; [rewrite (peval_zero_args p Ep); ring | apply peval_padd_loop].
  Qed.

  Theorem peval_pneg p : peval (pneg p) = [~] peval p.
  Proof.
    induction p as [|m p IH]; cbn [pneg map peval]; [ring|]. fold (pneg p). rewrite IH.
    unfold eval_mono; cbn [fst snd]. rewrite zinj_opp. ring.
  Qed.

  Theorem peval_psub p q : peval (psub p q) = peval p [-] peval q.
  Proof. unfold psub. rewrite peval_padd, peval_pneg. ring. Qed.

  Theorem peval_padd_Z p c : peval (padd_Z p c) = peval p [+] zinj c.
  Proof. rewrite padd_Z_eq, peval_padd, peval_P_of_Z. reflexivity. Qed.

  Lemma eval_vars_vmerge a b : eval_vars (vmerge a b) = eval_vars a [*] eval_vars b.
  Proof.
    revert b; induction a as [|x a IHa]; intros b.
    - rewrite vmerge_nil_l. cbn [eval_vars]. ring.
    - induction b as [|y b IHb].
      + rewrite vmerge_nil_r. cbn [eval_vars]. ring.
      + rewrite vmerge_cons. destruct (x <? y)%nat; cbn [eval_vars]; [rewrite IHa | rewrite IHb]; cbn [eval_vars]; ring.
  Qed.

  Lemma eval_mono_mul A B : eval_mono (mono_mul A B) = eval_mono A [*] eval_mono B.
  Proof. unfold eval_mono, mono_mul; cbn [fst snd]. rewrite zinj_mul, eval_vars_vmerge. ring. Qed.

  Fixpoint rsumf {A} (f : A -> R) (l : list A) : R :=
    match l with [] => R0 | x :: r => f x [+] rsumf f r end.

  Lemma rsumf_app {A} (f : A -> R) l1 l2 : rsumf f (l1 ++ l2) = rsumf f l1 [+] rsumf f l2.
  Proof. induction l1 as [|x l1 IH]; cbn [rsumf app]; [ring | rewrite IH; ring]. Qed.

  Lemma peval_pmul_fold l res :
    peval (fold_left (fun res AB => padd res [mono_mul (fst AB) (snd AB)]) l res) =
    peval res [+] rsumf (fun AB : mono * mono => eval_mono (fst AB) [*] eval_mono (snd AB)) l.
  Proof.
    revert res; induction l as [|AB l IH]; intros res; cbn [fold_left rsumf]; [ring|].
    rewrite IH, peval_padd. cbn [peval]. rewrite eval_mono_mul. ring.
  Qed.

  Lemma rsumf_list_prod p q :
    rsumf (fun AB : mono * mono => eval_mono (fst AB) [*] eval_mono (snd AB)) (list_prod p q) = peval p [*] peval q.
  Proof.
    induction p as [|a p IH]; cbn [list_prod peval]; [cbn [rsumf]; ring|].
    rewrite rsumf_app, IH.
    assert (H : rsumf (fun AB : mono * mono => eval_mono (fst AB) [*] eval_mono (snd AB)) (map (fun y => (a, y)) q)
                = eval_mono a [*] peval q).
    { clear IH. induction q as [|b q IHq]; cbn [map rsumf peval fst snd]; [ring | rewrite IHq; ring]. }
    rewrite H. ring.
  Qed.

  Lemma peval_pmul_loop p q : peval (pmul_loop p q) = peval p [*] peval q.
  Proof. unfold pmul_loop. rewrite peval_pmul_fold, rsumf_list_prod. cbn [peval]. ring. Qed.

  Theorem peval_pmul p q : peval (pmul p q) = peval p [*] peval q.
  Proof.
    unfold pmul. rewrite !peq_Z_0.
    destruct (is_zero_args p) eqn:Ep; [rewrite (peval_zero_args p Ep); cbn [orb peval]; ring|].
    destruct (is_zero_args q) eqn:Eq; [rewrite (peval_zero_args q Eq); cbn [orb peval]; ring|].
    cbn [orb]. apply peval_pmul_loop.
  Qed.

  Theorem peval_pmul_Z p c : peval (pmul_Z p c) = peval p [*] zinj c.
  Proof. rewrite pmul_Z_eq, peval_pmul, peval_P_of_Z. reflexivity. Qed.

  (* x ** n along a multiplication schedule: the result is the power recorded for the last step *)
  Theorem peval_ppow_chain x steps y :
    ppow_chain x steps = Some y -> peval y = rpow (peval x) (last_exp 1 steps).
  Proof.
    intros H. unfold ppow_chain in H.
    assert (Hmul : forall i j a b, (fun n v => peval v = rpow (peval x) n) i a -> (fun n v => peval v = rpow (peval x) n) j b ->
                                   (fun n v => peval v = rpow (peval x) n) (i + j)%nat (pmul a b)).
    { intros i j a b Ha Hb. cbn beta in *. rewrite peval_pmul, Ha, Hb, rpow_add. reflexivity. }
    refine (pow_chain_loop_inv (fun n v => peval v = rpow (peval x) n) pmul Hmul steps _ x 1%nat y _ _ H).
    - constructor; [cbn [fst snd]; symmetry; apply rpow_1 | constructor].
    - symmetry; apply rpow_1.
  Qed.

  (* --- formally zero polynomials evaluate to zero (no invariant needed) *)
  Definition premove (mu : list nat) (p : poly) : poly :=
    filter (fun m : mono => negb (list_eqb Nat.eqb (snd m) mu)) p.

  Lemma peval_split mu p : peval p = zinj (coef mu p) [*] eval_vars mu [+] peval (premove mu p).
  Proof.
    induction p as [|m p IH]; cbn [peval coef premove filter]; [rewrite zinj_0; ring|]. fold (premove mu p).
    destruct (list_eqb Nat.eqb (snd m) mu) eqn:E; cbn [negb peval].
    - apply nlist_eqb_eq in E. rewrite zinj_add, IH. unfold eval_mono. rewrite E. ring.
    - rewrite IH. replace (0 + coef mu p) with (coef mu p) by ring. ring.
  Qed.

  Lemma coef_premove nu mu p : coef nu (premove mu p) = if list_eqb Nat.eqb mu nu then 0 else coef nu p.
  Proof.
    induction p as [|m p IH]; cbn [coef premove filter]; [destruct (list_eqb Nat.eqb mu nu); reflexivity|]. fold (premove mu p).
    destruct (list_eqb Nat.eqb (snd m) mu) eqn:E; cbn [negb coef]; rewrite IH.
    - apply nlist_eqb_eq in E. rewrite E. destruct (list_eqb Nat.eqb mu nu); ring.
    - destruct (list_eqb Nat.eqb mu nu) eqn:E2; [|reflexivity]. apply nlist_eqb_eq in E2. subst nu. rewrite E. ring.
  Qed.

  Lemma length_premove mu p : (length (premove mu p) <= length p)%nat.
  Proof. induction p as [|m p IH]; cbn [premove filter length]; [lia|]. fold (premove mu p). destruct (negb _); cbn [length]; lia. Qed.

  Theorem fzero_peval p : fzero p -> peval p = R0.
  Proof.
    remember (length p) as n eqn:Hn. assert (Hle : (length p <= n)%nat) by lia. clear Hn.
    revert p Hle; induction n as [|n IH]; intros p Hle Hz.
    - destruct p; [reflexivity | cbn [length] in Hle; lia].
    - destruct p as [|m r]; [reflexivity|].
      rewrite (peval_split (snd m)), (Hz (snd m)), zinj_0.
      rewrite IH; [ring | |].
      + cbn [premove filter]. rewrite nlist_eqb_refl. cbn [negb]. fold (premove (snd m) r).
        pose proof (length_premove (snd m) r). cbn [length] in Hle. lia.
      + intros nu. rewrite coef_premove. destruct (list_eqb Nat.eqb (snd m) nu); [reflexivity | apply Hz].
  Qed.

  (* formally equal polynomials denote the same function *)
  Theorem coef_ext_peval p q : (forall mu, coef mu p = coef mu q) -> peval p = peval q.
  Proof.
    intros H. assert (Hz : peval (psub p q) = R0) by (apply fzero_peval; intros mu; rewrite coef_psub, H; ring).
    rewrite peval_psub in Hz. transitivity ((peval p [-] peval q) [+] peval q); [ring | rewrite Hz; ring].
  Qed.

  (* --- soundness of == *)
  Theorem peq_Z0_sound p : peq_Z p 0 = true -> peval p = R0.
  Proof. rewrite peq_Z_0. apply peval_zero_args. Qed.

  Theorem peq_Z1_sound p : peq_Z p 1 = true -> peval p = R1.
  Proof. rewrite peq_Z_1. intros H. apply poly_eqb_eq in H. subst p. apply peval_one. Qed.

  Theorem peq_Z_sound p c : peq_Z p c = true -> peval p = zinj c.
  Proof.
    intros H. destruct (Z.eq_dec c 0) as [->|H0]; [rewrite zinj_0; apply peq_Z0_sound; exact H|].
    destruct (Z.eq_dec c 1) as [->|H1]; [rewrite zinj_1; apply peq_Z1_sound; exact H|].
    rewrite peq_Z_other in H by assumption. discriminate.
  Qed.

  Theorem peq_sound p q : peq p q = true -> peval p = peval q.
  Proof.
    unfold peq. destruct (peq_Z q 0 && is_zero_args p) eqn:E0.
    { intros _. apply andb_true_iff in E0. destruct E0 as [H1 H2]. rewrite (peq_Z0_sound q H1), (peval_zero_args p H2). reflexivity. }
    destruct (peq_Z q 1 && poly_eqb p [(1, [])]) eqn:E1.
    { intros _. apply andb_true_iff in E1. destruct E1 as [H1 H2]. apply poly_eqb_eq in H2. subst p.
      rewrite (peq_Z1_sound q H1). apply peval_one. }
    intros H. apply poly_eqb_eq in H. subst; reflexivity.
  Qed.

  (* ================================================================ 9. rational polynomials: semantics *)
  (* N r / D r is the rational function denoted by r.  The main statements have the "common factor" form
       exists k,  <numerator the property demands> = N result * k  /\  <denominator ...> = D result * k
     (the result is the schoolbook fraction with a common factor k removed): it is valid in every commutative
     ring, composes without cancellation, and implies the cross-multiplied equalities (corollaries below). *)
  Definition N (r : rpoly) : R := peval (rnum r).
  Definition D (r : rpoly) : R := peval (rden r).

  Lemma ND_R_of_poly p : N (R_of_poly p) = peval p /\ D (R_of_poly p) = R1.
  Proof. unfold N, D, R_of_poly; cbn [rnum rden]. split; [reflexivity | apply peval_one]. Qed.

  Theorem N_R_of_Z c : N (R_of_Z c) = zinj c.
  Proof. unfold R_of_Z. rewrite (proj1 (ND_R_of_poly _)). apply (peval_P_of_Z c). Qed.
  Theorem D_R_of_Z c : D (R_of_Z c) = R1.
  Proof. apply ND_R_of_poly. Qed.
  Theorem N_R_of_var v : N (R_of_var v) = rho v.
  Proof. unfold R_of_var. rewrite (proj1 (ND_R_of_poly _)). apply (peval_P_of_var v). Qed.
  Theorem D_R_of_var v : D (R_of_var v) = R1.
  Proof. apply ND_R_of_poly. Qed.

  Lemma req_Z1_ND a : req_Z a 1 = true -> N a = R1 /\ D a = R1.
  Proof.
    rewrite req_Z_1. intros H. apply andb_true_iff in H. destruct H as [H1 H2]. apply poly_eqb_eq in H1, H2.
    unfold N, D. rewrite H1, H2. split; apply peval_one.
  Qed.

  Lemma req_Z0_N a : req_Z a 0 = true -> N a = R0.
  Proof. rewrite req_Z_0. apply peval_zero_args. Qed.

  Theorem radd_factor a b :
    exists k, N a [*] D b [+] N b [*] D a = N (radd a b) [*] k /\ D a [*] D b = D (radd a b) [*] k.
  Proof.
    unfold radd.
    destruct (req_Z b 0) eqn:Eb. { exists (D b). rewrite (req_Z0_N b Eb). split; ring. }
    destruct (req_Z a 0) eqn:Ea. { exists (D a). rewrite (req_Z0_N a Ea). split; ring. }
    set (nn_nd := if (length (rden a) =? length (rden b))%nat && peq (rden a) (rden b) then _ else _).
    assert (H : exists k, N a [*] D b [+] N b [*] D a = peval (fst nn_nd) [*] k /\ D a [*] D b = peval (snd nn_nd) [*] k).
    { subst nn_nd. destruct ((length (rden a) =? length (rden b))%nat && peq (rden a) (rden b)) eqn:E; cbn [fst snd].
      - apply andb_true_iff in E. destruct E as [_ E]. apply peq_sound in E. fold (D a) in E. fold (D b) in E.
        exists (D a). rewrite peval_padd. fold (N a). fold (N b). fold (D a). rewrite <- E. split; ring.
      - exists R1. rewrite peval_padd, !peval_pmul. unfold N, D. split; ring. }
    clearbody nn_nd. destruct H as (k & H1 & H2). cbv zeta.
    destruct (peq_Z (fst nn_nd) 0) eqn:E0.
    { apply peq_Z0_sound in E0. destruct (ND_R_of_poly []) as [-> ->]. exists (D a [*] D b). rewrite H1, E0. cbn [peval]. split; ring. }
    destruct ((length (fst nn_nd) =? length (snd nn_nd))%nat && peq (fst nn_nd) (snd nn_nd)) eqn:E1.
    { apply andb_true_iff in E1. destruct E1 as [_ E1]. apply peq_sound in E1. destruct (ND_R_of_poly [(1, [])]) as [-> ->].
      exists (D a [*] D b). rewrite peval_one. rewrite H1, H2, E1. split; ring. }
    exists k. unfold N at 3, D at 4; cbn [rnum rden]. split; assumption.
  Qed.

  Lemma cancel_factor a b :
    exists g, eval_vars a = eval_vars (fst (cancel a b)) [*] g /\ eval_vars b = eval_vars (snd (cancel a b)) [*] g.
  Proof.
    revert b; induction a as [|x a IHa]; intros b; [rewrite cancel_nil_l; exists R1; cbn [fst snd eval_vars]; split; ring|].
    induction b as [|y b IHb]; [rewrite cancel_nil_r; exists R1; cbn [fst snd eval_vars]; split; ring|].
    rewrite cancel_cons. destruct (x =? y)%nat eqn:E.
    - apply Nat.eqb_eq in E. subst y. destruct (IHa b) as (g & H1 & H2). exists (rho x [*] g). cbn [eval_vars]. rewrite H1 at 1. rewrite H2 at 1. split; ring.
    - destruct (x <? y)%nat; cbn [fst snd].
      + destruct (IHa (y :: b)) as (g & H1 & H2). exists g. cbn [eval_vars] in *. rewrite H1 at 1. split; [ring | exact H2].
      + destruct IHb as (g & H1 & H2). exists g. cbn [eval_vars] in *. rewrite H2 at 1. split; [exact H1 | ring].
  Qed.

  Theorem rmul_factor a b :
    exists k, N a [*] N b = N (rmul a b) [*] k /\ D a [*] D b = D (rmul a b) [*] k.
  Proof.
    unfold rmul.
    destruct (req_Z a 0) eqn:Ea. { exists (D b). rewrite (req_Z0_N a Ea). split; ring. }
    destruct (req_Z b 0) eqn:Eb. { exists (D a). rewrite (req_Z0_N b Eb). split; ring. }
    destruct (req_Z b 1) eqn:Eb1. { exists R1. destruct (req_Z1_ND b Eb1) as [-> ->]. split; ring. }
    destruct (req_Z a 1) eqn:Ea1. { exists R1. destruct (req_Z1_ND a Ea1) as [-> ->]. split; ring. }
    cbv zeta.
    pose proof (peval_pmul (rnum a) (rnum b)) as Hn. pose proof (peval_pmul (rden a) (rden b)) as Hd.
    fold (N a) in Hn. fold (N b) in Hn. fold (D a) in Hd. fold (D b) in Hd. rewrite <- Hn, <- Hd.
    destruct (peq_Z (pmul (rnum a) (rnum b)) 0) eqn:E0.
    { apply peq_Z0_sound in E0. destruct (ND_R_of_poly [(0, [])]) as [-> ->]. rewrite peval_special_zero, E0.
      exists (peval (pmul (rden a) (rden b))). split; ring. }
    destruct ((length (pmul (rnum a) (rnum b)) =? length (pmul (rden a) (rden b)))%nat && peq (pmul (rnum a) (rnum b)) (pmul (rden a) (rden b))) eqn:E1.
    { apply andb_true_iff in E1. destruct E1 as [_ E1]. apply peq_sound in E1. destruct (ND_R_of_poly [(1, [])]) as [-> ->].
      rewrite peval_one, E1. exists (peval (pmul (rden a) (rden b))). split; ring. }
    clear Hn Hd E0 E1.
    destruct (pmul (rnum a) (rnum b)) as [|fl1 [|? ?]]; try (exists R1; unfold N, D; cbn [rnum rden]; split; ring).
    destruct (pmul (rden a) (rden b)) as [|fl2 [|? ?]]; try (exists R1; unfold N, D; cbn [rnum rden]; split; ring).
    destruct (cancel_factor (snd fl1) (snd fl2)) as (g & H1 & H2). exists g.
    unfold N, D; cbn [rnum rden peval]. unfold eval_mono; cbn [fst snd]. rewrite H1 at 1. rewrite H2 at 1. split; ring.
  Qed.

  Theorem rneg_ND a : N (rneg a) = [~] N a /\ D (rneg a) = D a.
  Proof. unfold N, D, rneg; cbn [rnum rden]. split; [apply peval_pneg | reflexivity]. Qed.

  Theorem rsub_factor a b :
    exists k, N a [*] D b [-] N b [*] D a = N (rsub a b) [*] k /\ D a [*] D b = D (rsub a b) [*] k.
  Proof.
    unfold rsub. destruct (radd_factor a (rneg b)) as (k & H1 & H2). destruct (rneg_ND b) as [E1 E2]. rewrite E1, E2 in *.
    exists k. split; [rewrite <- H1; ring | exact H2].
  Qed.

  Theorem rinv_ND a r : rinv a = Some r -> N r = D a /\ D r = N a.
  Proof. unfold rinv. destruct (req_Z a 0); [discriminate|]. intros H; inversion H; subst r. split; reflexivity. Qed.

  Theorem rdiv_factor a b : rinv b <> None ->
    exists k, N a [*] D b = N (rdiv a b) [*] k /\ D a [*] N b = D (rdiv a b) [*] k.
  Proof.
    intros Hb. unfold rdiv. destruct (rinv b) as [ib|] eqn:E; [|congruence].
    destruct (rinv_ND b ib E) as [E1 E2]. rewrite <- E1, <- E2. apply rmul_factor.
  Qed.

  Theorem radd_Z_factor a c :
    exists k, N a [+] zinj c [*] D a = N (radd_Z a c) [*] k /\ D a = D (radd_Z a c) [*] k.
  Proof.
    unfold radd_Z. destruct (radd_factor a (R_of_Z c)) as (k & H1 & H2). rewrite N_R_of_Z, D_R_of_Z in *.
    exists k. split; [rewrite <- H1; ring | rewrite <- H2; ring].
  Qed.

  Theorem rmul_Z_factor a c :
    exists k, N a [*] zinj c = N (rmul_Z a c) [*] k /\ D a = D (rmul_Z a c) [*] k.
  Proof.
    unfold rmul_Z. destruct (rmul_factor a (R_of_Z c)) as (k & H1 & H2). rewrite N_R_of_Z, D_R_of_Z in *.
    exists k. split; [exact H1 | rewrite <- H2; ring].
  Qed.

  Theorem rsub_Z_factor a c :
    exists k, N a [-] zinj c [*] D a = N (rsub_Z a c) [*] k /\ D a = D (rsub_Z a c) [*] k.
  Proof.
    unfold rsub_Z. destruct (radd_Z_factor a (- c)) as (k & H1 & H2). rewrite zinj_opp in H1.
    exists k. split; [rewrite <- H1; ring | exact H2].
  Qed.

  Theorem rrsub_Z_factor c a :
    exists k, zinj c [*] D a [-] N a = N (rrsub_Z c a) [*] k /\ D a = D (rrsub_Z c a) [*] k.
  Proof.
    unfold rrsub_Z. destruct (radd_Z_factor (rneg a) c) as (k & H1 & H2). destruct (rneg_ND a) as [E1 E2]. rewrite E1, E2 in *.
    exists k. split; [rewrite <- H1; ring | exact H2].
  Qed.

  Theorem rrdiv_Z_ND c a : N (rrdiv_Z c a) = zinj c [*] D a /\ D (rrdiv_Z c a) = N a.
  Proof. unfold N, D, rrdiv_Z; cbn [rnum rden]. rewrite peval_pmul_Z. split; [ring | reflexivity]. Qed.

  (* x ** n along a schedule: x^n with a common factor removed *)
  Theorem rpow_chain_factor x steps y :
    rpow_chain x steps = Some y ->
    exists k, rpow (N x) (last_exp 1 steps) = N y [*] k /\ rpow (D x) (last_exp 1 steps) = D y [*] k.
  Proof.
    intros H. unfold rpow_chain in H.
    set (Q := fun (n : nat) (v : rpoly) => exists k, rpow (N x) n = N v [*] k /\ rpow (D x) n = D v [*] k).
    assert (Hmul : forall i j a b, Q i a -> Q j b -> Q (i + j)%nat (rmul a b)).
    { intros i j a b (ka & A1 & A2) (kb & B1 & B2). destruct (rmul_factor a b) as (g & G1 & G2).
      exists (g [*] ka [*] kb). rewrite !rpow_add, A1, A2, B1, B2. split.
      - transitivity ((N a [*] N b) [*] (ka [*] kb)); [ring | rewrite G1; ring].
      - transitivity ((D a [*] D b) [*] (ka [*] kb)); [ring | rewrite G2; ring]. }
    assert (H1 : Q 1%nat x) by (exists R1; rewrite !rpow_1; split; ring).
    refine (pow_chain_loop_inv Q rmul Hmul steps _ x 1%nat y _ H1 H).
    constructor; [exact H1 | constructor].
  Qed.

  (* --- the cross-multiplied corollaries *)
  Lemma factor_cross n d n' d' k : n = n' [*] k -> d = d' [*] k -> n' [*] d = n [*] d'.
  Proof. intros -> ->. ring. Qed.

  Corollary radd_correct a b :
    N (radd a b) [*] (D a [*] D b) = (N a [*] D b [+] N b [*] D a) [*] D (radd a b).
  Proof. destruct (radd_factor a b) as (k & H1 & H2). exact (factor_cross _ _ _ _ k H1 H2). Qed.

  Corollary rsub_correct a b :
    N (rsub a b) [*] (D a [*] D b) = (N a [*] D b [-] N b [*] D a) [*] D (rsub a b).
  Proof. destruct (rsub_factor a b) as (k & H1 & H2). exact (factor_cross _ _ _ _ k H1 H2). Qed.

  Corollary rmul_correct a b :
    N (rmul a b) [*] (D a [*] D b) = (N a [*] N b) [*] D (rmul a b).
  Proof. destruct (rmul_factor a b) as (k & H1 & H2). exact (factor_cross _ _ _ _ k H1 H2). Qed.

  Corollary rdiv_correct a b : rinv b <> None ->
    N (rdiv a b) [*] (D a [*] N b) = (N a [*] D b) [*] D (rdiv a b).
  Proof. intros Hb. destruct (rdiv_factor a b Hb) as (k & H1 & H2). exact (factor_cross _ _ _ _ k H1 H2). Qed.

  Corollary rneg_correct a : N (rneg a) [*] D a = ([~] N a) [*] D (rneg a).
  Proof. destruct (rneg_ND a) as [-> ->]. reflexivity. Qed.

  Corollary rinv_correct a r : rinv a = Some r -> N r [*] N a = D a [*] D r.
  Proof. intros H. destruct (rinv_ND a r H) as [-> ->]. reflexivity. Qed.

  Corollary radd_Z_correct a c : N (radd_Z a c) [*] D a = (N a [+] zinj c [*] D a) [*] D (radd_Z a c).
  Proof. destruct (radd_Z_factor a c) as (k & H1 & H2). exact (factor_cross _ _ _ _ k H1 H2). Qed.

  Corollary rmul_Z_correct a c : N (rmul_Z a c) [*] D a = (N a [*] zinj c) [*] D (rmul_Z a c).
  Proof. destruct (rmul_Z_factor a c) as (k & H1 & H2). exact (factor_cross _ _ _ _ k H1 H2). Qed.

  Corollary rsub_Z_correct a c : N (rsub_Z a c) [*] D a = (N a [-] zinj c [*] D a) [*] D (rsub_Z a c).
  Proof. destruct (rsub_Z_factor a c) as (k & H1 & H2). exact (factor_cross _ _ _ _ k H1 H2). Qed.

  Corollary rrsub_Z_correct c a : N (rrsub_Z c a) [*] D a = (zinj c [*] D a [-] N a) [*] D (rrsub_Z c a).
  Proof. destruct (rrsub_Z_factor c a) as (k & H1 & H2). exact (factor_cross _ _ _ _ k H1 H2). Qed.

  Corollary rrdiv_Z_correct c a : N (rrdiv_Z c a) [*] N a = (zinj c [*] D a) [*] D (rrdiv_Z c a).
  Proof. destruct (rrdiv_Z_ND c a) as [-> ->]. reflexivity. Qed.

  Corollary rpow_chain_correct x steps y :
    rpow_chain x steps = Some y ->
    N y [*] rpow (D x) (last_exp 1 steps) = rpow (N x) (last_exp 1 steps) [*] D y.
  Proof. intros H. destruct (rpow_chain_factor x steps y H) as (k & H1 & H2). exact (factor_cross _ _ _ _ k H1 H2). Qed.

  (* denominators stay regular (not zero divisors): so the value of the result is determined *)
  Definition regular (u : R) : Prop := forall x, x [*] u = R0 -> x = R0.

  Lemma regular_mul u v : regular u -> regular v -> regular (u [*] v).
  Proof. intros Hu Hv x H. apply Hu, Hv. rewrite <- H. ring. Qed.

  Lemma regular_factor u v k : u = v [*] k -> regular u -> regular v.
  Proof. intros -> H x Hx. apply H. transitivity ((x [*] v) [*] k); [ring | rewrite Hx; ring]. Qed.

  Theorem regular_radd a b : regular (D a) -> regular (D b) -> regular (D (radd a b)).
  Proof. intros Ha Hb. destruct (radd_factor a b) as (k & _ & H). exact (regular_factor _ _ k H (regular_mul _ _ Ha Hb)). Qed.

  Theorem regular_rmul a b : regular (D a) -> regular (D b) -> regular (D (rmul a b)).
  Proof. intros Ha Hb. destruct (rmul_factor a b) as (k & _ & H). exact (regular_factor _ _ k H (regular_mul _ _ Ha Hb)). Qed.

  (* --- soundness of == on rational polynomials *)
  Theorem req_Z0_sound a : req_Z a 0 = true -> N a = R0.
  Proof. apply req_Z0_N. Qed.

  Theorem req_Z1_sound a : req_Z a 1 = true -> N a = R1 /\ D a = R1.
  Proof. apply req_Z1_ND. Qed.

  Theorem req_sound a b : req a b = true -> N a [*] D b = N b [*] D a.
  Proof.
    unfold req. destruct (req_Z b 0 && peq_Z (rnum a) 0) eqn:E0.
    { intros _. apply andb_true_iff in E0. destruct E0 as [H1 H2]. apply req_Z0_N in H1. apply peq_Z0_sound in H2. fold (N a) in H2.
      rewrite H1, H2. ring. }
    destruct (req_Z b 1 && (peq_Z (rnum a) 1 && peq_Z (rden a) 1)) eqn:E1.
    { intros _. apply andb_true_iff in E1. destruct E1 as [H1 H2]. apply andb_true_iff in H2. destruct H2 as [H2 H3].
      destruct (req_Z1_ND b H1) as [-> ->]. apply peq_Z1_sound in H2, H3. fold (N a) in H2. fold (D a) in H3. rewrite H2, H3. reflexivity. }
    intros H. apply andb_true_iff in H. destruct H as [H1 H2]. apply peq_sound in H1, H2. unfold N, D. rewrite H1, H2. reflexivity.
  Qed.
End Eval.

(* ================================================================== 10. the special zero [[0]] is absorbed by + *)
(* Before the repair of Polynomial.__add__ (`if self == 0: return other`), Polynomial(0) + a was [[0], [1,'a']] and
   (Polynomial(0) + a) * (b + c) - a * (b + c) was [[0,'b'], [0,'c']]: formally zero but truthy and != 0. *)
Example special_zero_left_absorbed :
  padd (P_of_Z 0) (P_of_var 0) = P_of_var 0 /\ padd (P_of_var 0) (P_of_Z 0) = P_of_var 0 /\
  padd_Z (P_of_Z 0) 3 = P_of_Z 3 /\ padd (P_of_Z 0) (P_of_Z 0) = P_of_Z 0 /\ padd (P_of_Z 0) [] = P_of_Z 0 /\
  padd [] (P_of_Z 0) = [] /\ invb (padd (P_of_Z 0) (P_of_var 0)) = true.
Proof. repeat split; reflexivity. Qed.

Definition zero_test_former_counterexample : poly :=
  psub (pmul (padd (P_of_Z 0) (P_of_var 0)) (padd (P_of_var 1) (P_of_var 2)))
       (pmul (P_of_var 0) (padd (P_of_var 1) (P_of_var 2))).

Example zero_tests_exact_after_repair :
  zero_test_former_counterexample = [] /\
  pbool zero_test_former_counterexample = false /\ peq_Z zero_test_former_counterexample 0 = true /\
  psub (pmul (padd (P_of_Z 0) (P_of_var 0)) (P_of_var 1)) (pmul (P_of_var 0) (P_of_var 1)) = [].
Proof. vm_compute. repeat split; reflexivity. Qed.

(* the zero tests are exact only under the invariant: hand-built non-canonical argument lists defeat them *)
Example zero_tests_need_Inv :
  fzero [(0, [1%nat]); (0, [2%nat])] /\ invb [(0, [1%nat]); (0, [2%nat])] = false /\
  pbool [(0, [1%nat]); (0, [2%nat])] = true /\ peq_Z [(0, [1%nat]); (0, [2%nat])] 0 = false.
Proof.
  split; [|repeat split; reflexivity].
  intros mu. cbn [coef fst snd]. destruct (list_eqb Nat.eqb [1%nat] mu), (list_eqb Nat.eqb [2%nat] mu); reflexivity.
Qed.

(* compare is a total order but not a monomial order: 1 < a although b > a*b *)
Example compare_not_multiplicative :
  pcompare (Some (1, [])) (Some (1, [0%nat])) < 0 /\ pcompare (Some (1, [1%nat])) (Some (1, [0%nat; 1%nat])) > 0.
Proof. split; reflexivity. Qed.

(* ================================================================== 11. concrete computations *)
Example ex_diff_of_squares :     (* (a + b) * (a - b) = a*a - b*b *)
  pmul (padd (P_of_var 0) (P_of_var 1)) (psub (P_of_var 0) (P_of_var 1)) = [(1, [0; 0]%nat); (-1, [1; 1]%nat)].
Proof. vm_compute. reflexivity. Qed.

Example ex_invb :
  invb [(3, []); (2, [0; 0; 1]%nat); (-1, [0; 1]%nat); (5, [2]%nat)] = true /\
  invb [(2, [0; 1]%nat); (1, [0; 0]%nat)] = false /\         (* not increasing *)
  invb [(1, [1; 0]%nat)] = false /\                           (* variables not sorted *)
  invb [(0, [])] = true /\ invb [(0, [0%nat])] = false.
Proof. vm_compute. repeat split; reflexivity. Qed.

Example ex_pow5 :                (* (a + b) ** 5 with the schedule of power_supply: x2 = x*x, x3 = x2*x, x5 = x3*x2 *)
  ppow_chain (padd (P_of_var 0) (P_of_var 1)) [(1, 1); (2, 1); (3, 2)]%nat =
  Some [(1, [0; 0; 0; 0; 0]%nat); (5, [0; 0; 0; 0; 1]%nat); (10, [0; 0; 0; 1; 1]%nat);
        (10, [0; 0; 1; 1; 1]%nat); (5, [0; 1; 1; 1; 1]%nat); (1, [1; 1; 1; 1; 1]%nat)]
  /\ last_exp 1 [(1, 1); (2, 1); (3, 2)]%nat = 5%nat.
Proof. vm_compute. split; reflexivity. Qed.

Example ex_rational :
  rdiv (rmul (R_of_var 0) (R_of_var 1)) (R_of_var 0) = R_of_var 1 /\                   (* a*b/a = b *)
  radd (rdiv (R_of_var 0) (R_of_var 1)) (rdiv (R_of_var 1) (R_of_var 0)) =
    mkR [(1, [0; 0]%nat); (1, [1; 1]%nat)] [(1, [0; 1]%nat)] /\                       (* a/b + b/a = (a*a + b*b)/(a*b) *)
  rsub (R_of_var 0) (R_of_var 0) = mkR [] [(1, [])] /\
  rinv (rsub (R_of_var 0) (R_of_var 0)) = None /\
  rpow_chain (rdiv (R_of_var 0) (R_of_var 1)) [(1, 1); (2, 1)]%nat =
    Some (mkR [(1, [0; 0; 0]%nat)] [(1, [1; 1; 1]%nat)]).
Proof. vm_compute. repeat split; reflexivity. Qed.

(* ================================================================== 12. == at the formal level: sound, and exact under the invariant *)
Theorem peq_coef p q : peq p q = true -> forall mu, coef mu p = coef mu q.
Proof.
  unfold peq. intros H mu. destruct (peq_Z q 0 && is_zero_args p) eqn:E0.
  { apply andb_true_iff in E0. destruct E0 as [H1 H2]. rewrite peq_Z_0 in H1.
    rewrite (fzero_zero_args p H2 mu), (fzero_zero_args q H1 mu). reflexivity. }
  destruct (peq_Z q 1 && poly_eqb p [(1, [])]) eqn:E1.
  { apply andb_true_iff in E1. destruct E1 as [H1 H2]. rewrite peq_Z_1 in H1. apply poly_eqb_eq in H1, H2. subst; reflexivity. }
  apply poly_eqb_eq in H. subst; reflexivity.
Qed.

(* the strict invariant makes the representation canonical *)
Theorem InvS_canonical p q : InvS p -> InvS q -> (forall mu, coef mu p = coef mu q) -> p = q.
Proof.
  revert q; induction p as [|a p IH]; intros q Hp Hq H.
  - symmetry. apply InvS_fzero_nil; [exact Hq | intros mu; rewrite <- H; reflexivity].
  - destruct q as [|b q].
    { apply InvS_fzero_nil; [exact Hp | intros mu; rewrite H; reflexivity]. }
    destruct (InvS_coef_head a p Hp) as [Ha1 Ha2]. destruct (InvS_coef_head b q Hq) as [Hb1 Hb2].
    pose proof Hp as Hp'. pose proof Hq as Hq'. apply InvS_iff in Hp', Hq'.
    destruct Hp' as [Okp [Fa Sp]], Hq' as [Okq [Fb Sq]].
    assert (Hp2 : InvS p) by (apply InvS_iff; split; [inversion Okp; assumption | exact Sp]).
    assert (Hq2 : InvS q) by (apply InvS_iff; split; [inversion Okq; assumption | exact Sq]).
    destruct (vcmp_spec (snd a) (snd b)) as [[_ L]|[[_ E]|[_ L]]].
    + exfalso. rewrite H in Ha1. rewrite coef_above in Ha1; [congruence|].
      constructor; [exact L|]. eapply Forall_impl; [|exact Fb]. intros c Hc. eapply mlt_trans; [exact L | exact Hc].
    + assert (Eab : a = b).
      { destruct a as [ca va], b as [cb vb]; cbn [fst snd] in *. subst vb. f_equal. rewrite <- Ha1, <- Hb1. apply H. }
      subst b. f_equal. apply IH; [exact Hp2 | exact Hq2|].
      intros mu. specialize (H mu). cbn [coef] in H. lia.
    + exfalso. rewrite <- H in Hb1. rewrite coef_above in Hb1; [congruence|].
      constructor; [exact L|]. eapply Forall_impl; [|exact Fa]. intros c Hc. eapply mlt_trans; [exact L | exact Hc].
Qed.

Lemma peq_refl p : peq p p = true.
Proof.
  unfold peq. destruct (peq_Z p 0 && is_zero_args p); [reflexivity|].
  destruct (peq_Z p 1 && poly_eqb p [(1, [])]); [reflexivity|]. apply poly_eqb_eq; reflexivity.
Qed.

(* under the invariant == decides equality of the formal polynomials *)
Theorem peq_exact p q : Inv p -> Inv q -> (peq p q = true <-> forall mu, coef mu p = coef mu q).
Proof.
  intros Hp Hq. split; [apply peq_coef|]. intros H.
  destruct (is_zero_args p) eqn:Ep.
  - assert (Hz : is_zero_args q = true).
    { apply (Inv_fzero_iff q Hq). intros mu. rewrite <- H. apply fzero_zero_args; exact Ep. }
    unfold peq. rewrite peq_Z_0, Hz, Ep. reflexivity.
  - destruct (is_zero_args q) eqn:Eq.
    { exfalso. assert (Hz : is_zero_args p = true); [|congruence].
      apply (Inv_fzero_iff p Hp). intros mu. rewrite H. apply fzero_zero_args; exact Eq. }
    destruct (Inv_not_zero_args p Hp Ep) as [Sp _]. destruct (Inv_not_zero_args q Hq Eq) as [Sq _].
    rewrite (InvS_canonical p q Sp Sq H). apply peq_refl.
Qed.

(* ================================================================== 13. valid multiplication schedules never fail *)
(* every step's two indices are among the exponents already available (initially [1]) *)
Fixpoint chain_valid (known : list nat) (steps : list (nat * nat)) : bool :=
  match steps with
  | [] => true
  | (i, j) :: rest =>
      existsb (Nat.eqb i) known && existsb (Nat.eqb j) known && chain_valid (known ++ [(i + j)%nat]) rest
  end.

Lemma nassoc_known {V} k (d : list (nat * V)) :
  existsb (Nat.eqb k) (map fst d) = true -> exists v, nassoc k d = Some v.
Proof.
  induction d as [|[k' v'] d IH]; cbn [map existsb nassoc fst]; [discriminate|].
  rewrite (Nat.eqb_sym k k'). destruct (Nat.eqb k' k); [intros _; exists v'; reflexivity | exact IH].
Qed.

Lemma pow_chain_loop_Some {V} (mul : V -> V -> V) steps : forall powers last,
  chain_valid (map fst powers) steps = true -> exists y, pow_chain_loop mul powers last steps = Some y.
Proof.
  induction steps as [|[i j] rest IH]; intros powers last H; cbn [pow_chain_loop chain_valid] in *; [exists last; reflexivity|].
  apply andb_true_iff in H. destruct H as [H H3]. apply andb_true_iff in H. destruct H as [H1 H2].
  destruct (nassoc_known i powers H1) as (xi & ->). destruct (nassoc_known j powers H2) as (xj & ->).
  apply IH. rewrite map_app. exact H3.
Qed.

Theorem ppow_chain_Some x steps : chain_valid [1%nat] steps = true -> exists y, ppow_chain x steps = Some y.
Proof. intros H. unfold ppow_chain. apply pow_chain_loop_Some. exact H. Qed.

Theorem rpow_chain_Some x steps : chain_valid [1%nat] steps = true -> exists y, rpow_chain x steps = Some y.
Proof. intros H. unfold rpow_chain. apply pow_chain_loop_Some. exact H. Qed.

(* conversely a failing lookup is the only way to get None *)
Lemma nassoc_unknown {V} k (d : list (nat * V)) : existsb (Nat.eqb k) (map fst d) = false -> nassoc k d = None.
Proof.
  induction d as [|[k' v'] d IH]; cbn [map existsb nassoc fst]; [reflexivity|].
  rewrite (Nat.eqb_sym k k'). destruct (Nat.eqb k' k); [discriminate | exact IH].
Qed.

Lemma pow_chain_loop_None {V} (mul : V -> V -> V) steps : forall powers last,
  chain_valid (map fst powers) steps = false -> pow_chain_loop mul powers last steps = None.
Proof.
  induction steps as [|[i j] rest IH]; intros powers last H; cbn [pow_chain_loop chain_valid] in *; [discriminate|].
  destruct (existsb (Nat.eqb i) (map fst powers)) eqn:H1; [|rewrite (nassoc_unknown i powers H1); reflexivity].
  destruct (nassoc_known i powers H1) as (xi & ->).
  destruct (existsb (Nat.eqb j) (map fst powers)) eqn:H2; [|rewrite (nassoc_unknown j powers H2); reflexivity].
  destruct (nassoc_known j powers H2) as (xj & ->).
  cbn [andb] in H. apply IH. rewrite map_app. exact H.
Qed.

Theorem ppow_chain_Some_iff x steps : chain_valid [1%nat] steps = true <-> exists y, ppow_chain x steps = Some y.
Proof.
  split; [apply ppow_chain_Some|]. intros (y & H). destruct (chain_valid [1%nat] steps) eqn:E; [reflexivity|].
  unfold ppow_chain in H. rewrite (pow_chain_loop_None pmul steps [(1%nat, x)] x E) in H. discriminate.
Qed.

(* the schedules power_supply uses for the exponents 2..8 (chain c of the step s: i = c[-2], j = s - c[-2]) *)
Definition power_supply_schedule (n : nat) : list (nat * nat) :=
  match n with
  | 2 => [(1, 1)]
  | 3 => [(1, 1); (2, 1)]
  | 4 => [(1, 1); (2, 2)]
  | 5 => [(1, 1); (2, 1); (3, 2)]
  | 6 => [(1, 1); (2, 1); (3, 3)]
  | 7 => [(1, 1); (2, 1); (3, 2); (5, 2)]
  | 8 => [(1, 1); (2, 2); (4, 4)]
  | _ => []
  end%nat.

Example ex_schedules_2_8 :
  forallb (fun n => chain_valid [1%nat] (power_supply_schedule n) && Nat.eqb (last_exp 1 (power_supply_schedule n)) n
                    && opt_eqb poly_eqb (ppow_chain (P_of_var 0) (power_supply_schedule n)) (Some [(1, repeat 0%nat n)])
                    && opt_eqb rpoly_eqb (rpow_chain (rdiv (R_of_var 0) (R_of_var 1)) (power_supply_schedule n))
                                         (Some (mkR [(1, repeat 0%nat n)] [(1, repeat 1%nat n)])))
          [2; 3; 4; 5; 6; 7; 8]%nat = true.
Proof. vm_compute. reflexivity. Qed.

Example ex_pow8 :                (* (a + b) ** 8 : x2 = x*x, x4 = x2*x2, x8 = x4*x4 *)
  ppow_chain (padd (P_of_var 0) (P_of_var 1)) (power_supply_schedule 8) =
  Some [(1, [0;0;0;0;0;0;0;0]%nat); (8, [0;0;0;0;0;0;0;1]%nat); (28, [0;0;0;0;0;0;1;1]%nat);
        (56, [0;0;0;0;0;1;1;1]%nat); (70, [0;0;0;0;1;1;1;1]%nat); (56, [0;0;0;1;1;1;1;1]%nat);
        (28, [0;0;1;1;1;1;1;1]%nat); (8, [0;1;1;1;1;1;1;1]%nat); (1, [1;1;1;1;1;1;1;1]%nat)].
Proof. vm_compute. reflexivity. Qed.
