(* Theory/Bits.v — the bit tricks behind kingdon's product filters and involutions,
   for unbounded (Python) integers.

   kingdon (codegen.py) selects the terms of the outer / inner / contraction / scalar /
   regressive products by arithmetic on the bitmask keys of basis blades
   (k_out == kx + ky, k_out == abs(kx - ky), key_pss == kx + ky - k_out, ...) and flips signs
   under involutions by  bin(k).count('1') % 4 in (2, 3).  This file characterises these
   tricks in terms of set operations on bitmasks (land / lor / ldiff) and of grades
   (popcount). *)
From Coq Require Import ZArith Lia Bool List.
From KV Require Import Model.All.
Local Open Scope Z_scope.

(* ------------------------------------------------------------------------------------ *)
(** * 0. A small tactic for bitwise reasoning *)

(* [bit_hyp H]: from H : x = y derive  Hb : forall m, testbit x m = testbit y m. *)
Ltac bit_hyp H :=
  let Hb := fresh H "b" in
  assert (Hb := fun m : Z => f_equal (fun z : Z => Z.testbit z m) H); cbv beta in Hb.

Ltac bit_specs :=
  repeat progress
    (rewrite ?Z.land_spec, ?Z.lor_spec, ?Z.lxor_spec, ?Z.ldiff_spec, ?Z.bits_0 in * ).

(* Solve a goal x = y between bitwise expressions, using the pointwise hypotheses
   [forall m, testbit _ m = testbit _ m] in the context. *)
Ltac bit_solve :=
  apply Z.bits_inj'; let m := fresh "m" in intros m _;
  repeat match goal with
         | H : forall i : Z, Z.testbit _ i = _ |- _ => specialize (H m)
         end;
  bit_specs;
  repeat match goal with
         | H : context [Z.testbit ?a m] |- _ => destruct (Z.testbit a m)
         | |- context [Z.testbit ?a m] => destruct (Z.testbit a m)
         end;
  cbn in *; congruence.

(* ------------------------------------------------------------------------------------ *)
(** * 1. xor = plus  iff  disjoint *)

(* These two hold for all integers; the versions with the non-negativity hypotheses
   (the form in which they are used for keys) follow. *)
Lemma lxor_eq_add_iff_Z a b : Z.lxor a b = a + b <-> Z.land a b = 0.
Proof.
  split.
  - intros H.
    destruct (Z.add_carry_bits a b false) as (c & E1 & E2 & E3).
    cbn [Z.b2z] in E1. rewrite Z.add_0_r in E1.
    apply (Z.nocarry_equiv a b c E2 E3).
    rewrite E1 in H.
    apply (f_equal (Z.lxor (Z.lxor a b))) in H.
    rewrite Z.lxor_nilpotent, <- Z.lxor_assoc, Z.lxor_nilpotent, Z.lxor_0_l in H.
    symmetry. exact H.
  - intros H. symmetry. apply Z.add_nocarry_lxor. exact H.
Qed.

Lemma lxor_eq_add_iff a b : 0 <= a -> 0 <= b -> (Z.lxor a b = a + b <-> Z.land a b = 0).
Proof. intros _ _. apply lxor_eq_add_iff_Z. Qed.

(** * 2. xor = minus  iff  subset *)

Lemma subset_lxor_ldiff a b : Z.ldiff b a = 0 -> Z.lxor a b = Z.ldiff a b.
Proof. intros H. bit_hyp H. bit_solve. Qed.

Lemma lxor_eq_sub_iff_Z a b : Z.lxor a b = a - b <-> Z.ldiff b a = 0.
Proof.
  split.
  - intros H.
    assert (H' : Z.lxor a b + b = a) by lia.
    assert (Hx : Z.lxor (Z.lxor a b) b = a).
    { rewrite Z.lxor_assoc, Z.lxor_nilpotent, Z.lxor_0_r. reflexivity. }
    rewrite <- Hx in H' at 2. symmetry in H'.
    apply lxor_eq_add_iff_Z in H'.
    bit_hyp H'. bit_solve.
  - intros H.
    rewrite (subset_lxor_ldiff a b H). symmetry. apply Z.sub_nocarry_ldiff. exact H.
Qed.

Lemma lxor_eq_sub_iff a b : 0 <= a -> 0 <= b -> (Z.lxor a b = a - b <-> Z.ldiff b a = 0).
Proof. intros _ _. apply lxor_eq_sub_iff_Z. Qed.

(* subset implies <= (non-negative masks) *)
Lemma subset_le a b : 0 <= b -> Z.ldiff a b = 0 -> 0 <= a <= b.
Proof. apply Z.ldiff_le. Qed.

Lemma subset_antisym a b : Z.ldiff a b = 0 -> Z.ldiff b a = 0 -> a = b.
Proof. intros H1 H2. bit_hyp H1. bit_hyp H2. bit_solve. Qed.

(* ------------------------------------------------------------------------------------ *)
(** * 3. popcount *)

Lemma pos_popcount_pos p : 1 <= pos_popcount p.
Proof. induction p as [q IH|q IH|]; cbn [pos_popcount]; lia. Qed.

Lemma popcount_nonneg a : 0 <= popcount a.
Proof. destruct a as [|p|p]; cbn [popcount]; [lia| |]; pose proof (pos_popcount_pos p); lia. Qed.

Lemma popcount_0 : popcount 0 = 0.
Proof. reflexivity. Qed.

Lemma popcount_eq_0 a : popcount a = 0 -> a = 0.
Proof.
  destruct a as [|p|p]; cbn [popcount]; intros H; [reflexivity| |];
    pose proof (pos_popcount_pos p); lia.
Qed.

Lemma popcount_eq_0_iff a : popcount a = 0 <-> a = 0.
Proof. split; [apply popcount_eq_0|intros ->; reflexivity]. Qed.

Lemma popcount_double a : 0 <= a -> popcount (2 * a) = popcount a.
Proof. intros _. destruct a as [|p|p]; reflexivity. Qed.

Lemma popcount_succ_double a : 0 <= a -> popcount (2 * a + 1) = popcount a + 1.
Proof.
  intros Ha. destruct a as [|p|p]; [reflexivity| |lia].
  change (2 * Z.pos p + 1) with (Z.pos p~1). cbn [popcount pos_popcount]. lia.
Qed.

(* popcount of the N-valued results of the positive-level bit operations *)
Definition npop (n : N) : Z := popcount (Z.of_N n).

Lemma npop_0 : npop 0%N = 0.
Proof. reflexivity. Qed.
Lemma npop_pos p : npop (Npos p) = pos_popcount p.
Proof. reflexivity. Qed.
Lemma npop_Ndouble n : npop (Pos.Ndouble n) = npop n.
Proof. destruct n; reflexivity. Qed.
Lemma npop_Nsucc_double n : npop (Pos.Nsucc_double n) = 1 + npop n.
Proof. destruct n; reflexivity. Qed.

Ltac npop_simpl :=
  rewrite ?npop_Ndouble, ?npop_Nsucc_double, ?npop_pos, ?npop_0; cbn [pos_popcount].

Lemma pos_popcount_lxor p q :
  npop (Pos.lxor p q) + 2 * npop (Pos.land p q) = pos_popcount p + pos_popcount q.
Proof.
  revert q. induction p as [p IH|p IH|]; intros [q|q|];
    cbn [Pos.lxor Pos.land]; npop_simpl; try specialize (IH q); lia.
Qed.

Lemma pos_popcount_lor p q :
  pos_popcount (Pos.lor p q) + npop (Pos.land p q) = pos_popcount p + pos_popcount q.
Proof.
  revert q. induction p as [p IH|p IH|]; intros [q|q|];
    cbn [Pos.lor Pos.land]; npop_simpl; try specialize (IH q); lia.
Qed.

Lemma pos_popcount_ldiff p q :
  npop (Pos.ldiff p q) + npop (Pos.land p q) = pos_popcount p.
Proof.
  revert q. induction p as [p IH|p IH|]; intros [q|q|];
    cbn [Pos.ldiff Pos.land]; npop_simpl; try specialize (IH q); lia.
Qed.

Lemma popcount_lxor a b : 0 <= a -> 0 <= b ->
  popcount (Z.lxor a b) + 2 * popcount (Z.land a b) = popcount a + popcount b.
Proof.
  intros Ha Hb. destruct a as [|p|p]; [| |lia]; destruct b as [|q|q]; try lia;
    cbn [Z.lxor Z.land popcount]; try lia.
  apply pos_popcount_lxor.
Qed.

Lemma popcount_lor a b : 0 <= a -> 0 <= b ->
  popcount (Z.lor a b) + popcount (Z.land a b) = popcount a + popcount b.
Proof.
  intros Ha Hb. destruct a as [|p|p]; [| |lia]; destruct b as [|q|q]; try lia;
    cbn [Z.lor Z.land popcount]; try lia.
  apply pos_popcount_lor.
Qed.

Lemma popcount_ldiff a b : 0 <= a -> 0 <= b ->
  popcount (Z.ldiff a b) + popcount (Z.land a b) = popcount a.
Proof.
  intros Ha Hb. destruct a as [|p|p]; [| |lia]; destruct b as [|q|q]; try lia;
    cbn [Z.ldiff Z.land popcount]; try lia.
  apply pos_popcount_ldiff.
Qed.

(** ** Complement within a mask [p] (for kingdon: p = 2^n - 1, the pseudoscalar key) *)

Section Complement.
  Variables p k : Z.
  Hypothesis Hsub : Z.ldiff k p = 0.      (* k is a subset of p *)

  Lemma compl_lxor : p - k = Z.lxor p k.
  Proof using Hsub. symmetry. apply lxor_eq_sub_iff_Z. exact Hsub. Qed.

  Lemma compl_ldiff : p - k = Z.ldiff p k.
  Proof using Hsub. apply Z.sub_nocarry_ldiff. exact Hsub. Qed.

  Lemma compl_land : Z.land k (p - k) = 0.
  Proof using Hsub. rewrite compl_lxor. bit_hyp Hsub. bit_solve. Qed.

  Lemma compl_lor : Z.lor k (p - k) = p.
  Proof using Hsub. rewrite compl_lxor. bit_hyp Hsub. bit_solve. Qed.

  Lemma compl_subset : Z.ldiff (p - k) p = 0.
  Proof using Hsub. rewrite compl_lxor. bit_hyp Hsub. bit_solve. Qed.

  Lemma subset_land : Z.land p k = k.
  Proof using Hsub. bit_hyp Hsub. bit_solve. Qed.

  Lemma compl_bounds : 0 <= p -> 0 <= p - k <= p.
  Proof using Hsub. intros Hp. pose proof (subset_le k p Hp Hsub). lia. Qed.

  Lemma popcount_compl : 0 <= p -> popcount (p - k) = popcount p - popcount k.
  Proof using Hsub.
    intros Hp. pose proof (subset_le k p Hp Hsub) as Hk.
    pose proof (popcount_lxor p k Hp (proj1 Hk)) as H.
    rewrite subset_land, <- compl_lxor in H. lia.
  Qed.
End Complement.

(** ** The all-ones masks 2^n - 1 *)

Lemma pow2_pos n : 0 <= n -> 0 < 2 ^ n.
Proof. intros Hn. apply Z.pow_pos_nonneg; lia. Qed.

Lemma ones_succ n : 0 <= n -> 2 ^ (Z.succ n) - 1 = 2 * (2 ^ n - 1) + 1.
Proof. intros Hn. rewrite Z.pow_succ_r by exact Hn. lia. Qed.

Lemma popcount_ones n : 0 <= n -> popcount (2 ^ n - 1) = n.
Proof.
  intros Hn. pattern n. apply natlike_ind; [reflexivity| |exact Hn].
  intros x Hx IH. rewrite ones_succ by exact Hx.
  pose proof (pow2_pos x Hx).
  rewrite popcount_succ_double by lia. rewrite IH. lia.
Qed.

(* for non-negative k:   k <= 2^n - 1   iff   k is a subset of 2^n - 1 *)
Lemma le_ones_subset n k : 0 <= n -> 0 <= k <= 2 ^ n - 1 -> Z.ldiff k (2 ^ n - 1) = 0.
Proof.
  intros Hn Hk. replace (2 ^ n - 1) with (Z.ones n) by (rewrite Z.ones_equiv; lia).
  destruct (Z.eq_dec k 0) as [->|Hk0]; [apply Z.ldiff_0_l|].
  apply Z.ldiff_ones_r_low; [lia|]. apply Z.log2_lt_pow2; lia.
Qed.

Lemma subset_ones_le n k : 0 <= n -> Z.ldiff k (2 ^ n - 1) = 0 -> 0 <= k <= 2 ^ n - 1.
Proof. intros Hn. apply subset_le. pose proof (pow2_pos n Hn). lia. Qed.

Lemma le_ones_subset_iff n k : 0 <= n -> (0 <= k <= 2 ^ n - 1 <-> Z.ldiff k (2 ^ n - 1) = 0).
Proof. intros Hn. split; [apply le_ones_subset|apply subset_ones_le]; exact Hn. Qed.

Section Ones.
  Variables n k : Z.
  Hypothesis Hn : 0 <= n.
  Hypothesis Hk : 0 <= k <= 2 ^ n - 1.
  Local Ltac ones_sub := pose proof (le_ones_subset n k Hn Hk) as Hsub.

  Lemma ones_sub_lxor : (2 ^ n - 1) - k = Z.lxor (2 ^ n - 1) k.
  Proof using Hn Hk. ones_sub. apply compl_lxor, Hsub. Qed.

  Lemma ones_sub_land : Z.land k ((2 ^ n - 1) - k) = 0.
  Proof using Hn Hk. ones_sub. apply compl_land, Hsub. Qed.

  Lemma ones_sub_lor : Z.lor k ((2 ^ n - 1) - k) = 2 ^ n - 1.
  Proof using Hn Hk. ones_sub. apply compl_lor, Hsub. Qed.

  Lemma popcount_ones_sub : popcount ((2 ^ n - 1) - k) = n - popcount k.
  Proof using Hn Hk. ones_sub. rewrite popcount_compl; [|exact Hsub|lia]. rewrite popcount_ones by exact Hn. reflexivity. Qed.

  Lemma ones_sub_bounds : 0 <= (2 ^ n - 1) - k <= 2 ^ n - 1.
  Proof using Hn Hk. lia. Qed.

  Lemma popcount_le_ones : popcount k <= n.
  Proof using Hn Hk. pose proof popcount_ones_sub. pose proof (popcount_nonneg ((2 ^ n - 1) - k)). lia. Qed.
End Ones.

(* masks below 2^n are closed under the bitwise operations *)
Lemma lxor_le_ones n a b : 0 <= n -> 0 <= a <= 2 ^ n - 1 -> 0 <= b <= 2 ^ n - 1 ->
  0 <= Z.lxor a b <= 2 ^ n - 1.
Proof.
  intros Hn Ha Hb. apply subset_ones_le; [exact Hn|].
  pose proof (le_ones_subset n a Hn Ha) as Ha'. pose proof (le_ones_subset n b Hn Hb) as Hb'.
  bit_hyp Ha'. bit_hyp Hb'. bit_solve.
Qed.

Lemma lor_le_ones n a b : 0 <= n -> 0 <= a <= 2 ^ n - 1 -> 0 <= b <= 2 ^ n - 1 ->
  0 <= Z.lor a b <= 2 ^ n - 1.
Proof.
  intros Hn Ha Hb. apply subset_ones_le; [exact Hn|].
  pose proof (le_ones_subset n a Hn Ha) as Ha'. pose proof (le_ones_subset n b Hn Hb) as Hb'.
  bit_hyp Ha'. bit_hyp Hb'. bit_solve.
Qed.

Lemma land_le_ones n a b : 0 <= n -> 0 <= a <= 2 ^ n - 1 -> 0 <= b ->
  0 <= Z.land a b <= 2 ^ n - 1.
Proof.
  intros Hn Ha Hb. apply subset_ones_le; [exact Hn|].
  pose proof (le_ones_subset n a Hn Ha) as Ha'.
  bit_hyp Ha'. bit_solve.
Qed.

(* ------------------------------------------------------------------------------------ *)
(** * 4. The product filters, on the key [ko = lxor kx ky] of the product blade *)

Lemma bool_eq_of_iff (b1 b2 : bool) : (b1 = true <-> b2 = true) -> b1 = b2.
Proof. destruct b1, b2; intuition congruence. Qed.

Section Filters.
  Variables kx ky : Z.
  Hypothesis Hx : 0 <= kx.
  Hypothesis Hy : 0 <= ky.
  Let ko := Z.lxor kx ky.
  Let r := popcount kx.
  Let s := popcount ky.

  (* grade of the product blade: r + s - 2 * (number of common basis vectors) *)
  Lemma popcount_ko : popcount ko = r + s - 2 * popcount (Z.land kx ky).
  Proof using Hx Hy. pose proof (popcount_lxor kx ky Hx Hy). subst ko r s. lia. Qed.

  (** ** outer product: disjoint blades, grade r + s *)
  Lemma filter_op_disjoint : filter_op kx ky ko = true <-> Z.land kx ky = 0.
  Proof using Hx Hy. unfold filter_op. rewrite Z.eqb_eq. apply lxor_eq_add_iff_Z. Qed.

  Lemma disjoint_grade : Z.land kx ky = 0 <-> popcount ko = r + s.
  Proof using Hx Hy.
    rewrite popcount_ko. rewrite <- (popcount_eq_0_iff (Z.land kx ky)). lia.
  Qed.

  Lemma filter_op_grade : filter_op kx ky ko = true <-> popcount ko = r + s.
  Proof using Hx Hy. rewrite filter_op_disjoint. apply disjoint_grade. Qed.

  (** ** right contraction: ky subset of kx, grade r - s *)
  Lemma filter_rc_subset : filter_rc kx ky ko = true <-> Z.ldiff ky kx = 0.
  Proof using Hx Hy. unfold filter_rc. rewrite Z.eqb_eq. apply lxor_eq_sub_iff_Z. Qed.

  Lemma subset_r_grade : Z.ldiff ky kx = 0 <-> popcount ko = r - s.
  Proof using Hx Hy.
    rewrite popcount_ko. rewrite <- (popcount_eq_0_iff (Z.ldiff ky kx)).
    pose proof (popcount_ldiff ky kx Hy Hx) as H. rewrite (Z.land_comm ky kx) in H.
    subst s. lia.
  Qed.

  Lemma filter_rc_grade : filter_rc kx ky ko = true <-> popcount ko = r - s.
  Proof using Hx Hy. rewrite filter_rc_subset. apply subset_r_grade. Qed.

  (** ** left contraction: kx subset of ky, grade s - r *)
  Lemma filter_lc_subset : filter_lc kx ky ko = true <-> Z.ldiff kx ky = 0.
  Proof using Hx Hy.
    unfold filter_lc. rewrite Z.eqb_eq. subst ko. rewrite Z.lxor_comm.
    replace (- (kx - ky)) with (ky - kx) by lia. apply lxor_eq_sub_iff_Z.
  Qed.

  Lemma subset_l_grade : Z.ldiff kx ky = 0 <-> popcount ko = s - r.
  Proof using Hx Hy.
    rewrite popcount_ko. rewrite <- (popcount_eq_0_iff (Z.ldiff kx ky)).
    pose proof (popcount_ldiff kx ky Hx Hy) as H.
    subst r. lia.
  Qed.

  Lemma filter_lc_grade : filter_lc kx ky ko = true <-> popcount ko = s - r.
  Proof using Hx Hy. rewrite filter_lc_subset. apply subset_l_grade. Qed.

  (** ** inner product: one blade contained in the other, grade |r - s| *)
  Lemma filter_ip_subset :
    filter_ip kx ky ko = true <-> (Z.ldiff kx ky = 0 \/ Z.ldiff ky kx = 0).
  Proof using Hx Hy.
    unfold filter_ip. rewrite Z.eqb_eq. split.
    - intros H. destruct (Z.le_ge_cases ky kx) as [Hle|Hle].
      + right. apply lxor_eq_sub_iff_Z. fold ko. lia.
      + left. apply lxor_eq_sub_iff_Z. rewrite Z.lxor_comm. fold ko. lia.
    - intros [H|H].
      + pose proof (subset_le kx ky Hy H) as Hle.
        apply lxor_eq_sub_iff_Z in H. rewrite Z.lxor_comm in H. fold ko in H. lia.
      + pose proof (subset_le ky kx Hx H) as Hle.
        apply lxor_eq_sub_iff_Z in H. fold ko in H. lia.
  Qed.

  Lemma filter_ip_grade : filter_ip kx ky ko = true <-> popcount ko = Z.abs (r - s).
  Proof using Hx Hy.
    rewrite filter_ip_subset, subset_l_grade, subset_r_grade.
    pose proof (popcount_nonneg ko). lia.
  Qed.

  (** ** scalar product: equal blades, grade 0 *)
  Lemma filter_sp_eq : filter_sp kx ky ko = true <-> kx = ky.
  Proof using Hx Hy. unfold filter_sp. rewrite Z.eqb_eq. apply Z.lxor_eq_0_iff. Qed.

  Lemma filter_sp_grade : filter_sp kx ky ko = true <-> popcount ko = 0.
  Proof using Hx Hy. unfold filter_sp. rewrite Z.eqb_eq. symmetry. apply popcount_eq_0_iff. Qed.

  (** ** ip + sp = lc + rc, at the level of the selected terms *)
  Lemma filter_ip_lc_rc : filter_ip kx ky ko = filter_lc kx ky ko || filter_rc kx ky ko.
  Proof using Hx Hy.
    apply bool_eq_of_iff.
    rewrite orb_true_iff, filter_ip_subset, filter_lc_subset, filter_rc_subset. reflexivity.
  Qed.

  Lemma filter_sp_lc_rc : filter_sp kx ky ko = filter_lc kx ky ko && filter_rc kx ky ko.
  Proof using Hx Hy.
    apply bool_eq_of_iff.
    rewrite andb_true_iff, filter_sp_eq, filter_lc_subset, filter_rc_subset. split.
    - intros ->. split; apply Z.ldiff_diag.
    - intros [H1 H2]. apply subset_antisym; assumption.
  Qed.

  (* the four selections as multiplicities: every term of lc and rc is a term of ip, and the
     terms selected twice are exactly those of sp *)
  Lemma filter_ip_sp_lc_rc_count :
    Z.b2z (filter_ip kx ky ko) + Z.b2z (filter_sp kx ky ko)
    = Z.b2z (filter_lc kx ky ko) + Z.b2z (filter_rc kx ky ko).
  Proof using Hx Hy.
    rewrite filter_ip_lc_rc, filter_sp_lc_rc.
    destruct (filter_lc kx ky ko), (filter_rc kx ky ko); reflexivity.
  Qed.

  (* the outer product and the contractions only overlap on scalars *)
  Lemma filter_op_lc : filter_op kx ky ko && filter_lc kx ky ko = Z.eqb kx 0.
  Proof using Hx Hy.
    apply bool_eq_of_iff.
    rewrite andb_true_iff, filter_op_disjoint, filter_lc_subset, Z.eqb_eq. split.
    - intros [H1 H2]. bit_hyp H1. bit_hyp H2. bit_solve.
    - intros ->. split; [apply Z.land_0_l|apply Z.ldiff_0_l].
  Qed.

  Lemma filter_op_rc : filter_op kx ky ko && filter_rc kx ky ko = Z.eqb ky 0.
  Proof using Hx Hy.
    apply bool_eq_of_iff.
    rewrite andb_true_iff, filter_op_disjoint, filter_rc_subset, Z.eqb_eq. split.
    - intros [H1 H2]. bit_hyp H1. bit_hyp H2. bit_solve.
    - intros ->. split; [apply Z.land_0_r|apply Z.ldiff_0_l].
  Qed.
End Filters.

(* ------------------------------------------------------------------------------------ *)
(** * 5. Involution signs *)

(* g (g - 1) and g (g + 1) are even *)
Lemma tri_double g : 2 * (g * (g - 1) / 2) = g * (g - 1).
Proof.
  destruct (Z.Even_or_Odd g) as [[h ->]|[h ->]].
  - replace (2 * h * (2 * h - 1)) with (h * (2 * h - 1) * 2) by ring.
    rewrite Z.div_mul by lia. ring.
  - replace ((2 * h + 1) * (2 * h + 1 - 1)) with ((2 * h + 1) * h * 2) by ring.
    rewrite Z.div_mul by lia. ring.
Qed.

Lemma tri_double' g : 2 * (g * (g + 1) / 2) = g * (g + 1).
Proof.
  pose proof (tri_double (g + 1)) as H.
  replace ((g + 1) * (g + 1 - 1)) with (g * (g + 1)) in H by ring. exact H.
Qed.

(* parities only depend on g mod 4 *)
Lemma odd_mod4 g : Z.odd g = Z.odd (g mod 4).
Proof.
  rewrite (Z.div_mod g 4) at 1 by lia.
  replace (4 * (g / 4) + g mod 4) with (g mod 4 + 2 * (2 * (g / 4))) by ring.
  apply Z.odd_add_mul_2.
Qed.

Lemma tri_odd_mod4 g : Z.odd (g * (g - 1) / 2) = Z.odd ((g mod 4) * (g mod 4 - 1) / 2).
Proof.
  set (m := g mod 4). set (q := g / 4).
  assert (E : g = 4 * q + m) by (subst q m; apply Z.div_mod; lia).
  assert (E2 : g * (g - 1) / 2 = m * (m - 1) / 2 + 2 * (4 * q * q + 2 * q * m - q)).
  { pose proof (tri_double g) as H1. pose proof (tri_double m) as H2.
    set (A := g * (g - 1) / 2) in *. set (B := m * (m - 1) / 2) in *.
    apply Z.mul_reg_l with 2; [lia|].
    rewrite (Z.mul_add_distr_l 2 B), H1, H2, E. ring. }
  rewrite E2. apply Z.odd_add_mul_2.
Qed.

Lemma tri_odd_mod4' g : Z.odd (g * (g + 1) / 2) = Z.odd ((g mod 4) * (g mod 4 + 1) / 2).
Proof.
  set (m := g mod 4). set (q := g / 4).
  assert (E : g = 4 * q + m) by (subst q m; apply Z.div_mod; lia).
  assert (E2 : g * (g + 1) / 2 = m * (m + 1) / 2 + 2 * (4 * q * q + 2 * q * m + q)).
  { pose proof (tri_double' g) as H1. pose proof (tri_double' m) as H2.
    set (A := g * (g + 1) / 2) in *. set (B := m * (m + 1) / 2) in *.
    apply Z.mul_reg_l with 2; [lia|].
    rewrite (Z.mul_add_distr_l 2 B), H1, H2, E. ring. }
  rewrite E2. apply Z.odd_add_mul_2.
Qed.

Lemma mod4_cases g : g mod 4 = 0 \/ g mod 4 = 1 \/ g mod 4 = 2 \/ g mod 4 = 3.
Proof. pose proof (Z.mod_pos_bound g 4). lia. Qed.

(* The three lemmas hold for every k (popcount of the model is defined on all of Z); the
   hypothesis 0 <= k is kept out of the statements because it is not needed. *)
Lemma involution_flips_reverse k :
  involution_flips grades_reverse k = Z.odd (popcount k * (popcount k - 1) / 2).
Proof.
  unfold involution_flips, grades_reverse. cbn [existsb].
  rewrite tri_odd_mod4.
  destruct (mod4_cases (popcount k)) as [E|[E|[E|E]]]; rewrite E; reflexivity.
Qed.

Lemma involution_flips_involute k :
  involution_flips grades_involute k = Z.odd (popcount k).
Proof.
  unfold involution_flips, grades_involute. cbn [existsb].
  rewrite (odd_mod4 (popcount k)).
  destruct (mod4_cases (popcount k)) as [E|[E|[E|E]]]; rewrite E; reflexivity.
Qed.

Lemma involution_flips_conjugate k :
  involution_flips grades_conjugate k = Z.odd (popcount k * (popcount k + 1) / 2).
Proof.
  unfold involution_flips, grades_conjugate. cbn [existsb].
  rewrite tri_odd_mod4'.
  destruct (mod4_cases (popcount k)) as [E|[E|[E|E]]]; rewrite E; reflexivity.
Qed.

(* conjugation = reversion composed with grade involution *)
Lemma involution_flips_conjugate_xorb k :
  involution_flips grades_conjugate k
  = xorb (involution_flips grades_reverse k) (involution_flips grades_involute k).
Proof.
  unfold involution_flips, grades_conjugate, grades_reverse, grades_involute. cbn [existsb].
  destruct (mod4_cases (popcount k)) as [E|[E|[E|E]]]; rewrite E; reflexivity.
Qed.

(* applying the same involution twice restores every sign *)
Definition flip_sign (f : bool) (v : Z) : Z := if f then - v else v.

Lemma involution_flips_twice g k v :
  flip_sign (involution_flips g k) (flip_sign (involution_flips g k) v) = v.
Proof. unfold flip_sign. destruct (involution_flips g k); lia. Qed.

Lemma involution_flips_xorb_twice g k : xorb (involution_flips g k) (involution_flips g k) = false.
Proof. apply xorb_nilpotent. Qed.

Lemma flip_sign_xorb f1 f2 v : flip_sign f1 (flip_sign f2 v) = flip_sign (xorb f1 f2) v.
Proof. unfold flip_sign. destruct f1, f2; cbn [xorb]; lia. Qed.

(** ** grade parity and reversion sign of a product blade *)

Lemma popcount_lxor_odd a b : 0 <= a -> 0 <= b ->
  Z.odd (popcount (Z.lxor a b)) = xorb (Z.odd (popcount a)) (Z.odd (popcount b)).
Proof.
  intros Ha Hb. rewrite <- Z.odd_add.
  pose proof (popcount_lxor a b Ha Hb) as H.
  replace (popcount a + popcount b)
    with (popcount (Z.lxor a b) + 2 * popcount (Z.land a b)) by lia.
  symmetry. apply Z.odd_add_mul_2.
Qed.

(* the grade involution is an automorphism at the level of signs *)
Lemma involute_lxor a b : 0 <= a -> 0 <= b ->
  involution_flips grades_involute (Z.lxor a b)
  = xorb (involution_flips grades_involute a) (involution_flips grades_involute b).
Proof. intros Ha Hb. rewrite !involution_flips_involute. apply popcount_lxor_odd; assumption. Qed.

(* arithmetic core: with t = r + s - 2c,
   r(r-1)/2 + s(s-1)/2 + t(t-1)/2  =  r s - c   (mod 2) *)
Lemma tri_lxor_parity r s c :
  xorb (xorb (Z.odd (r * (r - 1) / 2)) (Z.odd (s * (s - 1) / 2)))
       (Z.odd ((r + s - 2 * c) * (r + s - 2 * c - 1) / 2))
  = Z.odd (r * s - c).
Proof.
  rewrite <- !Z.odd_add.
  set (Tr := r * (r - 1) / 2). set (Ts := s * (s - 1) / 2).
  set (Tt := (r + s - 2 * c) * (r + s - 2 * c - 1) / 2).
  assert (E : Tr + Ts + Tt = (r * s - c) + 2 * (Tr + Ts - c * (r + s) + c * c + c)).
  { pose proof (tri_double r) as H1. pose proof (tri_double s) as H2.
    pose proof (tri_double (r + s - 2 * c)) as H3.
    fold Tr in H1. fold Ts in H2. fold Tt in H3.
    clearbody Tr Ts Tt.
    apply Z.mul_reg_l with 2; [lia|].
    replace (2 * (Tr + Ts + Tt)) with (2 * Tr + 2 * Ts + 2 * Tt) by ring.
    replace (2 * (r * s - c + 2 * (Tr + Ts - c * (r + s) + c * c + c)))
      with (2 * (r * s - c) + 2 * (2 * Tr) + 2 * (2 * Ts) + 4 * (- c * (r + s) + c * c + c))
      by ring.
    rewrite H1, H2, H3. ring. }
  rewrite E. apply Z.odd_add_mul_2.
Qed.

Lemma reverse_lxor a b : 0 <= a -> 0 <= b ->
  xorb (xorb (involution_flips grades_reverse a) (involution_flips grades_reverse b))
       (involution_flips grades_reverse (Z.lxor a b))
  = Z.odd (popcount a * popcount b - popcount (Z.land a b)).
Proof.
  intros Ha Hb. rewrite !involution_flips_reverse.
  pose proof (popcount_lxor a b Ha Hb) as H.
  replace (popcount (Z.lxor a b))
    with (popcount a + popcount b - 2 * popcount (Z.land a b)) by lia.
  apply tri_lxor_parity.
Qed.

(* ------------------------------------------------------------------------------------ *)
(** * 4'. The regressive product: key_out = pss - (kx xor ky),  filter pss == kx + ky - key_out *)

(* complements within a mask: xor is unchanged, "union is everything" = "complements disjoint" *)
Lemma compl_lxor_lxor p a b : Z.ldiff a p = 0 -> Z.ldiff b p = 0 ->
  Z.lxor (p - a) (p - b) = Z.lxor a b.
Proof.
  intros Ha Hb. rewrite (compl_lxor p a Ha), (compl_lxor p b Hb). bit_solve.
Qed.

Lemma compl_disjoint_iff_cover p a b : Z.ldiff a p = 0 -> Z.ldiff b p = 0 ->
  (Z.land (p - a) (p - b) = 0 <-> Z.lor a b = p).
Proof.
  intros Ha Hb. rewrite (compl_lxor p a Ha), (compl_lxor p b Hb).
  bit_hyp Ha. bit_hyp Hb. split; intros H; bit_hyp H; bit_solve.
Qed.

(* the complement of the output key is the key of the geometric product blade *)
Lemma keyout_rp_compl l kx ky : (l - 1) - keyout_rp l kx ky = Z.lxor kx ky.
Proof. unfold keyout_rp. lia. Qed.

(* what the filter condition of the Python code says about an arbitrary kout *)
Lemma filter_rp_kout l kx ky kout : filter_rp l kx ky kout = true <-> kout = kx + ky - (l - 1).
Proof. unfold filter_rp. rewrite Z.eqb_eq. lia. Qed.

Section Regressive.
  Variables n kx ky : Z.
  Hypothesis Hn : 0 <= n.
  Let l := 2 ^ n.           (* len(algebra) *)
  Let p := l - 1.           (* key of the pseudoscalar *)
  Hypothesis Hx : 0 <= kx <= p.
  Hypothesis Hy : 0 <= ky <= p.
  Let r := popcount kx.
  Let s := popcount ky.

  Local Ltac rp_facts :=
    pose proof (le_ones_subset n kx Hn Hx : Z.ldiff kx p = 0) as Hsx;
    pose proof (le_ones_subset n ky Hn Hy : Z.ldiff ky p = 0) as Hsy;
    pose proof (lxor_le_ones n kx ky Hn Hx Hy : 0 <= Z.lxor kx ky <= p) as Hxy;
    pose proof (le_ones_subset n _ Hn Hxy : Z.ldiff (Z.lxor kx ky) p = 0) as Hsxy.

  Lemma keyout_rp_lxor : keyout_rp l kx ky = Z.lxor p (Z.lxor kx ky).
  Proof using Hn Hx Hy. rp_facts. unfold keyout_rp. fold p. apply compl_lxor. exact Hsxy. Qed.

  Lemma keyout_rp_bounds : 0 <= keyout_rp l kx ky <= p.
  Proof using Hn Hx Hy. rp_facts. unfold keyout_rp. fold p. lia. Qed.

  (* the output key is the key of  unhodge (hodge x ^ hodge y) *)
  Lemma keyout_rp_hodge : keyout_rp l kx ky = p - Z.lxor (p - kx) (p - ky).
  Proof using Hn Hx Hy. rp_facts. unfold keyout_rp. fold p. rewrite (compl_lxor_lxor p kx ky Hsx Hsy). reflexivity. Qed.

  Lemma popcount_keyout_rp : popcount (keyout_rp l kx ky) = n - popcount (Z.lxor kx ky).
  Proof using Hn Hx Hy. rp_facts. unfold keyout_rp. fold p. apply popcount_ones_sub; [exact Hn|exact Hxy]. Qed.

  (* the filter selects the pairs whose complements are disjoint ... *)
  Lemma filter_rp_compl_disjoint :
    filter_rp l kx ky (keyout_rp l kx ky) = true <-> Z.land (p - kx) (p - ky) = 0.
  Proof using Hn Hx Hy. rp_facts.
    unfold filter_rp, keyout_rp. fold p. rewrite Z.eqb_eq.
    rewrite <- lxor_eq_add_iff_Z, (compl_lxor_lxor p kx ky Hsx Hsy). lia.
  Qed.

  (* ... i.e. the outer-product filter on the complements (hodge duals) *)
  Lemma filter_rp_filter_op :
    filter_rp l kx ky (keyout_rp l kx ky)
    = filter_op (p - kx) (p - ky) (Z.lxor (p - kx) (p - ky)).
  Proof using Hn Hx Hy. rp_facts.
    apply bool_eq_of_iff. rewrite filter_rp_compl_disjoint, filter_op_disjoint by lia. reflexivity.
  Qed.

  (* ... i.e. the pairs that together cover the pseudoscalar *)
  Lemma filter_rp_cover :
    filter_rp l kx ky (keyout_rp l kx ky) = true <-> Z.lor kx ky = p.
  Proof using Hn Hx Hy. rp_facts. rewrite filter_rp_compl_disjoint. apply compl_disjoint_iff_cover; assumption. Qed.

  (* ... i.e. the output grade is r + s - n *)
  Lemma filter_rp_grade :
    filter_rp l kx ky (keyout_rp l kx ky) = true
    <-> popcount (keyout_rp l kx ky) = r + s - n.
  Proof using Hn Hx Hy. rp_facts.
    rewrite filter_rp_filter_op, filter_op_grade by (unfold p, l; lia).
    rewrite popcount_keyout_rp, (compl_lxor_lxor p kx ky Hsx Hsy).
    unfold p, l. rewrite !popcount_ones_sub by (assumption || exact Hx || exact Hy).
    subst r s. lia.
  Qed.
End Regressive.

(* ------------------------------------------------------------------------------------ *)
(** * 6. Examples *)

Example ex_popcount : map popcount [0; 1; 2; 3; 11; 255; 256; 2 ^ 100 - 1] = [0; 1; 1; 2; 3; 8; 1; 100].
Proof. vm_compute. reflexivity. Qed.

(* e13 ^ e2 is kept (disjoint, 5 xor 2 = 5 + 2), e13 ^ e3 is dropped *)
Example ex_filter_op : (filter_op 5 2 (Z.lxor 5 2), filter_op 5 4 (Z.lxor 5 4)) = (true, false).
Proof. vm_compute. reflexivity. Qed.

(* e1 | e13: left contraction keeps it (1 subset of 5), right contraction drops it, inner keeps it *)
Example ex_filter_contractions :
  (filter_lc 1 5 (Z.lxor 1 5), filter_rc 1 5 (Z.lxor 1 5), filter_ip 1 5 (Z.lxor 1 5),
   filter_sp 1 5 (Z.lxor 1 5), filter_sp 5 5 (Z.lxor 5 5))
  = (true, false, true, false, true).
Proof. vm_compute. reflexivity. Qed.

(* a case where xor happens to be smaller than both and no filter but the geometric product
   keeps the term: e12 * e23 = e13 *)
Example ex_filter_none :
  (filter_op 3 6 5, filter_lc 3 6 5, filter_rc 3 6 5, filter_ip 3 6 5, filter_sp 3 6 5)
  = (false, false, false, false, false).
Proof. vm_compute. reflexivity. Qed.

Definition zrange (n : nat) : list Z := map Z.of_nat (seq 0 n).
Definition count_pairs (n : nat) (f : Z -> Z -> bool) : nat :=
  length (filter (fun xy => f (fst xy) (snd xy)) (list_prod (zrange n) (zrange n))).

(* number of selected pairs of blades in a 3-dimensional algebra (8 blades, 64 pairs):
   op 27 = 3^3, lc = rc = 27, sp 8, ip 27 + 27 - 8 = 46, rp 27 *)
Example ex_counts_3d :
  ( count_pairs 8 (fun x y => filter_op x y (Z.lxor x y)),
    count_pairs 8 (fun x y => filter_lc x y (Z.lxor x y)),
    count_pairs 8 (fun x y => filter_rc x y (Z.lxor x y)),
    count_pairs 8 (fun x y => filter_ip x y (Z.lxor x y)),
    count_pairs 8 (fun x y => filter_sp x y (Z.lxor x y)),
    count_pairs 8 (fun x y => filter_rp 8 x y (keyout_rp 8 x y)) )
  = (27, 27, 27, 46, 8, 27)%nat.
Proof. vm_compute. reflexivity. Qed.

(* regressive product in 3d (pss = 7): e23 v e12 = +-e2 is kept, key 7 - (6 xor 3) = 2;
   e1 v e2 is dropped (1 | 2 <> 7) *)
Example ex_rp :
  (keyout_rp 8 6 3, filter_rp 8 6 3 (keyout_rp 8 6 3), Z.lor 6 3,
   keyout_rp 8 1 2, filter_rp 8 1 2 (keyout_rp 8 1 2), Z.lor 1 2)
  = (2, true, 7, 4, false, 3).
Proof. vm_compute. reflexivity. Qed.

(* sign flips by grade 0..7:  reverse + + - - + + - -,  involute + - + - ...,  conjugate + - - + ... *)
Example ex_involutions :
  let ks := [0; 1; 3; 7; 15; 31; 63; 127] in
  ( map (involution_flips grades_reverse) ks,
    map (involution_flips grades_involute) ks,
    map (involution_flips grades_conjugate) ks )
  = ( [false; false; true; true; false; false; true; true],
      [false; true; false; true; false; true; false; true],
      [false; true; true; false; false; true; true; false] ).
Proof. vm_compute. reflexivity. Qed.

(* reversion sign of the product blade e12 * e23 -> e13:  r = s = 2, c = 1, rs - c = 3 odd *)
Example ex_reverse_lxor :
  ( xorb (xorb (involution_flips grades_reverse 3) (involution_flips grades_reverse 6))
         (involution_flips grades_reverse (Z.lxor 3 6)),
    Z.odd (popcount 3 * popcount 6 - popcount (Z.land 3 6)) ) = (true, true).
Proof. vm_compute. reflexivity. Qed.

(* the non-negativity hypothesis of [popcount_succ_double] is needed: a = -1 *)
Example ex_popcount_neg : (popcount (2 * (-1) + 1), popcount (-1) + 1) = (1, 2).
Proof. vm_compute. reflexivity. Qed.
