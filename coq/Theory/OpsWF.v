(* Theory/OpsWF.v — every well-formed algebra satisfies the sign-table hypotheses of Theory/Ops.v
   (proved in Theory/SignBits.v), so the operator-level theorems hold for every dimension, signature
   ordering, start index and admissible basis. *)
From KV Require Import Model.All Theory.WF Theory.Sign Theory.SignBits Theory.Ops.
Local Open Scope Z_scope.

Theorem wf_sign_hyps A : wf_alg A = true -> sign_hyps A.
Proof.
  intros Hwf. constructor.
  - intros k. apply In_canon_keys. exact Hwf.
  - apply wf_bins_nodup. exact Hwf.
  - intros I J HI HJ. apply sgn_values; assumption.
  - intros I J HI HJ. apply sgn_swap; assumption.
  - intros I J K HI HJ HK. apply sgn_assoc; assumption.
  - intros I J HI HJ Hd. apply (sgn_disjoint A Hwf I J HI HJ Hd).
  - intros I HI. apply sgn_scalar; assumption.
  - intros n b Hin. destruct (c2b_entry_spec A Hwf n b Hin) as (_ & Hb & _ & _).
    apply (name_length A Hwf b n Hb).
Qed.
