(* Theory/InverseExt.v — the hypothesis [ext_ok] of C11 (Theory/Tape.v: "inverse and division are a table of
   generated functions that does not depend on the storage order of the operands") discharged for the
   MODEL of the inverse and of division (Model/Inverse.v, numeric evaluation: nothing filtered, as the
   other composite operators of the table Model/Tape.v std_opd):

     inv_ext dv isz     the table:  "inv" [kx]      -> (keys_out, values -> values of inv_model)
                                    "div" [kx; ky]  -> (keys_out, values -> values of div_model)
                        keys_out is computed from the KEYS alone (the model run on the one-element
                        coefficient type [unit], where no denominator tests zero);
     nat_inv_numden     the run over any coefficients, with the coefficients forgotten, IS the run over
                        [unit] (same break round of the Shirokov loop, same errors of the generators);
     call_inv, call_div a call through the table is literally the model:  call_op .. "inv" [x] = inv_model x;
     inv_ext_ok         ext_ok R A (inv_ext dv isz)  for every commutative ring, every algebra with pairwise
                        distinct canonical keys (every wf_alg), ARBITRARY dv and isz - by the storage
                        congruence of Theory/InverseCongr.v (a permuted operand stores the same blades, so
                        every dimension is covered);
     registered_agrees_with_inverse
                        hence C11 (tape_agrees) for bodies that call .inv(), a / b, number / x, x ** -n,
                        with the modelled inverse in the table instead of a parameter. *)
From Coq Require Import String List ZArith Bool Ring Lia Permutation QArith Qcanon.
From KV Require Import Model.All Model.Inverse Model.Tape Gen.Dunder Theory.WF Theory.Sparse Theory.Product
  Theory.Natural Theory.Tape Theory.Inverse Theory.InverseCongr.
Import ListNotations.

Lemma unit_eq (a b : unit) : a = b. Proof. destruct a, b. reflexivity. Qed.
Lemma unit_list_eq (l l' : list unit) : length l = length l' -> l = l'.
Proof.
  revert l'. induction l as [|a l IH]; intros [|a' l'] H; cbn [length] in H; try discriminate; [reflexivity|].
  f_equal; [apply unit_eq | apply IH; lia].
Qed.

Lemma last_map' {X Y} (f : X -> Y) (l : list X) d : last (map f l) (f d) = f (last l d).
Proof.
  induction l as [|a l IH]; [reflexivity|]. cbn [map last]. destruct l as [|b l]; [reflexivity|]. exact IH.
Qed.

Lemma map_res_bind {X Y X' Y'} (g : X -> X') (f : Y -> Y') (r : res X) (k : X -> res Y) (k' : X' -> res Y') :
  (forall v, map_res f (k v) = k' (g v)) -> map_res f (bind r k) = bind (map_res g r) k'.
Proof. intros H. destruct r as [v|e]; cbn [bind map_res]; [apply H | reflexivity]. Qed.

(* the one-element coefficient type is a commutative ring *)
Definition uadd (_ _ : unit) : unit := tt.
Definition uopp (_ : unit) : unit := tt.
Lemma unit_ring : ring_theory tt tt uadd uadd uadd uopp (@eq unit).
Proof. constructor; intros; apply unit_eq. Qed.
Definition dvU (_ _ : unit) : unit := tt.
Definition iszU (_ : unit) : bool := false.

(* ================= forgetting the coefficients commutes with the generators ================= *)
Section Forget.
  Context {R : Type} (O : ops R).
  Variable dv : R -> R -> R.
  Variable isz : R -> bool.
  Variable A : alg.
  Local Notation h := (fun _ : R => tt).
  Local Notation mh := (map_mv h).
  Hypothesis Hh : ops_hom O Uops h.

  Local Notation ngp := (nat_gp O Uops h Hh A).
  Local Notation nsub := (nat_sub O Uops h Hh A).
  Local Notation nsp := (nat_sp O Uops h Hh A).
  Local Notation nrev := (nat_reverse O Uops h Hh A).
  Local Notation ninvo := (nat_involute O Uops h Hh A).
  Local Notation nconj := (nat_conjugate O Uops h Hh A).

  Lemma mh_scalar c c' : mh (scalar_mv c) = scalar_mv c'.
  Proof. unfold scalar_mv. cbn. f_equal. f_equal. apply unit_eq. Qed.

  Lemma nat_hitzer_num x : map_res mh (hitzer_num O idF A x) = hitzer_num Uops idF A (mh x).
  Proof.
    unfold hitzer_num, i_mul, i_sub, i_rev, i_conj, i_invo, idF.
    destruct (a_d A) as [|[|[|[|[|[|n]]]]]]; cbn [map_res]; try reflexivity.
    - rewrite ninvo. reflexivity.
    - rewrite nconj. reflexivity.
    - rewrite !ngp, nrev, !ngp, !nconj. reflexivity.
    - rewrite (map_res_bind mh mh _ _
                 (fun g => Ok (gp Uops A (conjugate Uops A (mh x))
                                 (sub Uops A (gp Uops A (mh x) (conjugate Uops A (mh x)))
                                      (gp Uops A (scalar_mv (cst Uops 2)) g))))).
      + rewrite (nat_grade_sel O Uops h Hh). rewrite ngp, nconj. reflexivity.
      + intros g. cbn [map_res]. rewrite !ngp, nsub, !ngp, !nconj, (mh_scalar _ (cst Uops 2)). reflexivity.
    - rewrite (map_res_bind mh mh _ _
                 (fun g => let xc := conjugate Uops A (mh x) in
                           let combo := gp Uops A xc (reverse Uops A (gp Uops A (mh x) xc)) in
                           let x_combo := gp Uops A (mh x) combo in
                           Ok (gp Uops A combo (sub Uops A x_combo (gp Uops A (scalar_mv (cst Uops 2)) g))))).
      + rewrite (nat_grade_sel O Uops h Hh). rewrite !ngp, nrev, !ngp, !nconj. reflexivity.
      + intros g. cbn [map_res]. cbv zeta.
        rewrite !ngp, nsub, !ngp, nrev, !ngp, !nconj, (mh_scalar _ (cst Uops 2)). reflexivity.
  Qed.

  (* (numerator, denominator) with the denominator forgotten *)
  Local Notation fp := (fun p : mv R * R => (mh (fst p), tt)).

  Lemma nat_hitzer x : map_res fp (hitzer O idF A x) = hitzer Uops idF A (mh x).
  Proof.
    unfold hitzer. rewrite (map_res_bind mh fp _ _ (fun num => Ok (num, hitzer_den Uops idF A (mh x) num))).
    - rewrite nat_hitzer_num. reflexivity.
    - intros num. cbn [map_res fst snd]. f_equal. f_equal. apply unit_eq.
  Qed.

  (* the table of powers *)
  Definition mpw (pw : list (Z * mv R)) : list (Z * mv unit) := map (fun p => (fst p, mh (snd p))) pw.
  Lemma zassoc_mpw k pw : zassoc k (mpw pw) = option_map mh (zassoc k pw).
  Proof.
    induction pw as [|[k1 v1] pw IH]; [reflexivity|]. cbn [mpw map fst snd zassoc].
    destruct (Z.eqb k1 k); [reflexivity | exact IH].
  Qed.
  Lemma zset_mpw k v pw : mpw (zset k v pw) = zset k (mh v) (mpw pw).
  Proof.
    induction pw as [|[k1 v1] pw IH]; [reflexivity|]. cbn [mpw map fst snd zset].
    destruct (Z.eqb k1 k); cbn [map fst snd]; [reflexivity|]. f_equal. exact IH.
  Qed.

  Local Notation fs := (fun r : list (Z * mv R) * mv R => (mpw (fst r), mh (snd r))).
  Lemma nat_supply_next chains pw step :
    map_res fs (supply_next O idF A chains pw step) = supply_next Uops idF A chains (mpw pw) step.
  Proof.
    unfold supply_next. rewrite zassoc_mpw. destruct (zassoc step pw) as [v|]; cbn [option_map map_res fst snd];
      [reflexivity|].
    destruct (zassoc step chains) as [chain|]; cbn [of_opt bind map_res]; [|reflexivity].
    destruct (chain_penult chain) as [c|]; cbn [of_opt bind map_res]; [|reflexivity].
    rewrite !zassoc_mpw.
    destruct (zassoc c pw) as [a|]; cbn [option_map of_opt bind map_res]; [|reflexivity].
    destruct (zassoc (step - c)%Z pw) as [d|]; cbn [option_map of_opt bind map_res fst snd]; [|reflexivity].
    unfold i_mul, idF. rewrite zset_mpw, ngp. reflexivity.
  Qed.

  Lemma grades_is_0_mh (x : mv R) : grades_is_0 (mh x) = grades_is_0 x.
  Proof. unfold grades_is_0. rewrite keys_map_mv. reflexivity. Qed.

  Lemma nat_shirokov_xi i powers cs cs' xi0 :
    mh (shirokov_xi O idF A i powers cs xi0) = shirokov_xi Uops idF A i (map mh powers) cs' (mh xi0).
  Proof.
    unfold shirokov_xi. generalize (seq 0 (i - 1)). intros l. revert xi0.
    induction l as [|j l IH]; intros xi0; cbn [fold_left]; [reflexivity|].
    rewrite IH. f_equal. unfold i_sub, i_mul, idF. rewrite nsub, ngp.
    rewrite (mh_scalar _ (nth j cs' (o_zero Uops))).
    change (@nil (Z * unit)) with (mh []). rewrite map_nth. reflexivity.
  Qed.

  Local Notation fst4 := (fun r : nat * mv R * list (mv R) * list R =>
                            let '(i, xi, xs, cs) := r in (i, mh xi, map mh xs, map h cs)).

  Lemma nat_shirokov_loop chains n rounds : forall pw powers cs xs cur,
    map_res fst4 (shirokov_loop O dv isz idF A chains n rounds pw powers cs xs cur)
    = shirokov_loop Uops dvU iszU idF A chains n rounds (mpw pw) (map mh powers) (map h cs) (map mh xs)
                    (fst cur, mh (snd cur)).
  Proof.
    induction rounds as [|i rounds IH]; intros pw powers cs xs cur; cbn [shirokov_loop].
    - cbn [map_res fst snd]. reflexivity.
    - rewrite <- nat_supply_next.
      destruct (supply_next O idF A chains pw (Z.of_nat i)) as [[pw1 p]|e]; cbn [map_res bind fst snd];
        [|reflexivity].
      rewrite <- map_last.
      assert (Ex : mh (shirokov_xi O idF A i (powers ++ [p]) cs (nth (i - 1) (powers ++ [p]) []))
                   = shirokov_xi Uops idF A i (map mh (powers ++ [p])) (map h cs)
                                 (nth (i - 1) (map mh (powers ++ [p])) [])).
      { rewrite (nat_shirokov_xi i _ cs (map h cs)). f_equal.
        change (@nil (Z * unit)) with (mh []). rewrite map_nth. reflexivity. }
      rewrite <- Ex, grades_is_0_mh.
      destruct (grades_is_0 (shirokov_xi O idF A i (powers ++ [p]) cs (nth (i - 1) (powers ++ [p]) []))).
      + cbn [map_res]. reflexivity.
      + rewrite IH. cbn [fst snd]. rewrite !map_app. cbn [map].
        reflexivity.
  Qed.

  Lemma nat_shirokov x : map_res fp (shirokov O dv isz idF A x) = shirokov Uops dvU iszU idF A (mh x).
  Proof.
    unfold shirokov, shirokov_run.
    destruct (minimal_chains (Z.of_nat (shirokov_n A))) as [chains|e]; cbn [bind map_res]; [|reflexivity].
    pose proof (nat_shirokov_loop chains (shirokov_n A) (seq 1 (shirokov_n A)) [(1%Z, x)] [] [] [] (0%nat, [])) as H.
    cbn [mpw map fst snd] in H. change (mh (@nil (Z * R))) with (@nil (Z * unit)) in H.
    rewrite (map_res_bind fst4 fp _ _
               (fun x0 : nat * mv unit * list (mv unit) * list unit =>
                  let '(i, xi, xs, cs) := x0 in Ok (shirokov_adj Uops idF A i xs cs, e_of Uops xi))).
    - f_equal. exact H.
    - intros [[[i xi] xs] cs]. cbn [map_res fst snd]. f_equal. f_equal; [|apply unit_eq].
      unfold shirokov_adj. destruct (Nat.eqb i 1); [reflexivity|].
      unfold i_sub, idF. rewrite nsub. rewrite (mh_scalar _ (last (map h cs) (o_zero Uops))).
      change (@nil (Z * unit)) with (mh []). rewrite last_map'. reflexivity.
  Qed.

  Theorem nat_inv_numden y : map_res fp (inv_numden O dv isz idF A y) = inv_numden Uops dvU iszU idF A (mh y).
  Proof. unfold inv_numden. destruct (Nat.ltb (a_d A) 6); [apply nat_hitzer | apply nat_shirokov]. Qed.

  (* whenever the model returns, the run on the keys alone returns the keys of the result; an error of the
     generators (never ZeroDivisionError) is the same error *)
  Theorem inv_model_forget y r : inv_model O dv isz idF A y = Ok r ->
    inv_model Uops dvU iszU idF A (mh y) = Ok (mh r).
  Proof.
    unfold inv_model. rewrite <- nat_inv_numden.
    destruct (inv_numden O dv isz idF A y) as [[num den]|e]; cbn [bind map_res fst snd]; [|discriminate].
    unfold iszU. destruct (isz den); [discriminate|]. intros E. inversion E; subst r; clear E.
    unfold i_mul, idF. rewrite ngp. reflexivity.
  Qed.
  Theorem inv_model_forget_err y e : inv_model Uops dvU iszU idF A (mh y) = Err e ->
    inv_model O dv isz idF A y = Err e.
  Proof.
    unfold inv_model. rewrite <- nat_inv_numden.
    destruct (inv_numden O dv isz idF A y) as [[num den]|e']; cbn [bind map_res fst snd]; [discriminate|].
    intros E. inversion E. reflexivity.
  Qed.
  Theorem div_model_forget x y r : div_model O dv isz idF A x y = Ok r ->
    div_model Uops dvU iszU idF A (mh x) (mh y) = Ok (mh r).
  Proof.
    unfold div_model. rewrite <- nat_inv_numden.
    destruct (inv_numden O dv isz idF A y) as [[num den]|e]; cbn [bind map_res fst snd]; [|discriminate].
    unfold iszU. destruct (isz den); [discriminate|]. intros E. inversion E; subst r; clear E.
    unfold i_mul, idF. rewrite !ngp. reflexivity.
  Qed.
  Theorem div_model_forget_err x y e : div_model Uops dvU iszU idF A (mh x) (mh y) = Err e ->
    div_model O dv isz idF A x y = Err e.
  Proof.
    unfold div_model. rewrite <- nat_inv_numden.
    destruct (inv_numden O dv isz idF A y) as [[num den]|e']; cbn [bind map_res fst snd]; [discriminate|].
    intros E. inversion E. reflexivity.
  Qed.
End Forget.

(* ================= the table ================= *)
Section Table.
  Context {R : Type} (O : ops R).
  Variable dv : R -> R -> R.
  Variable isz : R -> bool.
  Variable A : alg.

  Definition inv_fun (kx : list Z) : gfun R := fun vs =>
    match vs with
    | [vx] => if Nat.eqb (length vx) (length kx)
              then r <- inv_model O dv isz idF A (combine kx vx) ;; Ok (vals r) else Err EValue
    | _ => Err EType
    end.
  Definition div_fun (kx ky : list Z) : gfun R := fun vs =>
    match vs with
    | [vx; vy] => if Nat.eqb (length vx) (length kx) && Nat.eqb (length vy) (length ky)
                  then r <- div_model O dv isz idF A (combine kx vx) (combine ky vy) ;; Ok (vals r) else Err EValue
    | _ => Err EType
    end.
  (* getattr(algebra, 'inv')[keys_in], getattr(algebra, 'div')[keys_in] *)
  Definition inv_ext : optable R := fun op kin =>
    match kin with
    | [kx] => if String.eqb op "inv"
              then ru <- inv_model Uops dvU iszU idF A (ksym kx) ;; Ok (keys ru, inv_fun kx)
              else Err ENotImpl
    | [kx; ky] => if String.eqb op "div"
                  then ru <- div_model Uops dvU iszU idF A (ksym kx) (ksym ky) ;; Ok (keys ru, div_fun kx ky)
                  else Err ENotImpl
    | _ => Err ENotImpl
    end.
End Table.

Section ExtOk.
  Variable R : Type.
  Variables (rO rI : R) (radd rmul rsub : R -> R -> R) (ropp : R -> R).
  Hypothesis Rth : ring_theory rO rI radd rmul rsub ropp (@eq R).
  Local Notation O := (mkOps R radd rsub rmul ropp rO rI).
  Local Notation h := (fun _ : R => tt).
  Local Notation mh := (map_mv h).
  Variable A : alg.
  Hypothesis Hnd : NoDup (canon_keys A).
  Variable dv : R -> R -> R.
  Variable isz : R -> bool.
  Local Notation ext := (inv_ext O dv isz A).
  Local Notation Hh := (unit_hom R rO rI radd rmul rsub ropp).
  Local Notation srelR := (srel R rO rI radd rmul rsub ropp).
  Local Notation srelU := (srel unit tt tt uadd uadd uadd uopp).

  Lemma mh_ksym (x : mv R) : mh x = ksym (keys x). Proof. apply map_tt. Qed.
  Lemma keys_ksym ks : keys (ksym ks) = ks.
  Proof. unfold keys, ksym. rewrite map_map. cbn [fst]. apply map_id. Qed.
  Lemma keys_combine (ks : list Z) (vs : list R) : length vs = length ks -> keys (combine ks vs) = ks.
  Proof.
    revert vs. induction ks as [|k ks IH]; intros [|v vs] H; cbn [length] in H; try discriminate; [reflexivity|].
    cbn [combine keys map fst]. f_equal. apply IH. lia.
  Qed.

  (* a call through the table IS the model *)
  Theorem call_inv x : call_op ext "inv" [x] = inv_model O dv isz idF A x.
  Proof.
    unfold call_op, inv_ext. cbn [map String.eqb Ascii.eqb Bool.eqb]. rewrite <- mh_ksym.
    destruct (inv_model O dv isz idF A x) as [r|e] eqn:E.
    - rewrite (inv_model_forget O dv isz A Hh x r E). cbn [bind inv_fun].
      rewrite length_vals, length_keys, Nat.eqb_refl, combine_keys_vals, E. cbn [bind].
      rewrite keys_map_mv, combine_keys_vals. reflexivity.
    - destruct (inv_model Uops dvU iszU idF A (mh x)) as [ru|eu] eqn:Eu.
      + cbn [bind inv_fun]. rewrite length_vals, length_keys, Nat.eqb_refl, combine_keys_vals, E. reflexivity.
      + cbn [bind]. rewrite (inv_model_forget_err O dv isz A Hh x eu Eu) in E. exact E.
  Qed.
  Theorem call_div x y : call_op ext "div" [x; y] = div_model O dv isz idF A x y.
  Proof.
    unfold call_op, inv_ext. cbn [map String.eqb Ascii.eqb Bool.eqb]. rewrite <- !mh_ksym.
    destruct (div_model O dv isz idF A x y) as [r|e] eqn:E.
    - rewrite (div_model_forget O dv isz A Hh x y r E). cbn [bind div_fun].
      rewrite !length_vals, !length_keys, !Nat.eqb_refl, !combine_keys_vals, E. cbn [andb bind].
      rewrite keys_map_mv, combine_keys_vals. reflexivity.
    - destruct (div_model Uops dvU iszU idF A (mh x) (mh y)) as [ru|eu] eqn:Eu.
      + cbn [bind div_fun]. rewrite !length_vals, !length_keys, !Nat.eqb_refl, !combine_keys_vals, E. reflexivity.
      + cbn [bind]. rewrite (div_model_forget_err O dv isz A Hh x y eu Eu) in E. exact E.
  Qed.

  Lemma srel_true_perm {T} (tO tI : T) tadd tmul tsub topp (x x' : mv T) :
    srel T tO tI tadd tmul tsub topp true x x' -> Permutation x x'.
  Proof.
    intros (Hx & Hx' & Ex & Kx). specialize (Kx eq_refl).
    assert (N : forall z : mv T, NoDup (keys z) -> NoDup z).
    { intros z Hz. unfold keys in Hz. apply (NoDup_map_inv fst). exact Hz. }
    apply NoDup_Permutation; [apply N; exact Hx | apply N; exact Hx' |].
    assert (T1 : forall (u u' : mv T), NoDup (keys u) -> NoDup (keys u') ->
                 Sparse.equiv tO tI tadd tmul tsub topp u u' -> same_keys T u u' ->
                 forall p, In p u -> In p u').
    { intros u u' Hu Hu' Eu Ku [k v] Hp.
      assert (I : In k (keys u')) by (apply Ku, in_keys_pair; exists v; exact Hp).
      apply in_keys_pair in I. destruct I as [v' I].
      pose proof (coeff_in T tO tI tadd tmul tsub topp k v u Hu Hp) as C1.
      pose proof (coeff_in T tO tI tadd tmul tsub topp k v' u' Hu' I) as C2.
      rewrite (Eu k), C2 in C1. subst v'. exact I. }
    intros p. split; apply T1; auto.
    - intros K. symmetry. apply Ex.
    - intros k. symmetry. apply Kx.
  Qed.

  Lemma wfk_nodup ks : wfk A ks -> NoDup ks. Proof. intros [H _]. exact H. Qed.

  Lemma srelU_ksym kx kx' : NoDup kx -> Permutation kx kx' -> srelU true (ksym kx) (ksym kx').
  Proof.
    intros Hn Hp. apply srel_perm; [rewrite keys_ksym; exact Hn | apply Permutation_map; exact Hp].
  Qed.

  Lemma idF_congrU : filter_congr unit tt tt uadd uadd uadd uopp true idF.
  Proof. intros y y' H. exact H. Qed.
  Lemma idF_congrR : filter_congr R rO rI radd rmul rsub ropp true idF.
  Proof. intros y y' H. exact H. Qed.

  Lemma keys_gp_wfk {T} (OT : ops T) (x y : mv T) : wfk A (keys (gp OT A x y)).
  Proof.
    split; [apply NoDup_keys_canon_sort; exact Hnd | apply keys_canon_sort_incl].
  Qed.

  Theorem inv_ext_ok : ext_ok R A ext.
  Proof.
    constructor.
    - (* static: permuted key tuples generate permuted keys_out *)
      intros op kin kin' ko f Hw Hp E. unfold inv_ext in E |- *.
      destruct Hp as [|kx kx' kin1 kin1' Px Hp]; [discriminate|].
      destruct Hp as [|ky ky' kin2 kin2' Py Hp].
      + destruct (String.eqb op "inv"); [|discriminate].
        inversion Hw as [|? ? Wx _]; subst.
        pose proof (inv_model_congr unit tt tt uadd uadd uadd uopp unit_ring A Hnd true dvU iszU idF idF_congrU
                      (ksym kx) (ksym kx') (or_introl eq_refl) (srelU_ksym kx kx' (wfk_nodup _ Wx) Px)) as C.
        change (mkOps unit uadd uadd uadd uopp tt tt) with Uops in C.
        destruct (inv_model Uops dvU iszU idF A (ksym kx)) as [ru|e]; cbn [bind] in E; [|discriminate].
        destruct (inv_model Uops dvU iszU idF A (ksym kx')) as [ru'|e']; cbn [res_rel] in C; [|contradiction].
        inversion E; subst ko f. cbn [bind]. exists (keys ru'), (inv_fun O dv isz A kx'). split; [reflexivity|].
        apply Permutation_map. apply (srel_true_perm _ _ _ _ _ _ _ _ C).
      + destruct Hp; [|discriminate].
        destruct (String.eqb op "div"); [|discriminate].
        inversion Hw as [|? ? Wx Hw']; subst. inversion Hw' as [|? ? Wy _]; subst.
        pose proof (div_model_congr unit tt tt uadd uadd uadd uopp unit_ring A Hnd true dvU iszU idF idF_congrU
                      (ksym kx) (ksym kx') (ksym ky) (ksym ky') (or_introl eq_refl)
                      (srelU_ksym kx kx' (wfk_nodup _ Wx) Px) (srelU_ksym ky ky' (wfk_nodup _ Wy) Py)) as C.
        change (mkOps unit uadd uadd uadd uopp tt tt) with Uops in C.
        destruct (div_model Uops dvU iszU idF A (ksym kx) (ksym ky)) as [ru|e]; cbn [bind] in E; [|discriminate].
        destruct (div_model Uops dvU iszU idF A (ksym kx') (ksym ky')) as [ru'|e']; cbn [res_rel] in C; [|contradiction].
        inversion E; subst ko f. cbn [bind]. exists (keys ru'), (div_fun O dv isz A kx' ky'). split; [reflexivity|].
        apply Permutation_map. apply (srel_true_perm _ _ _ _ _ _ _ _ C).
    - (* keys_out are pairwise distinct blades of the algebra *)
      intros op kin ko f _ E. unfold inv_ext in E.
      destruct kin as [|kx [|ky [|kz kin]]]; try discriminate.
      + destruct (String.eqb op "inv"); [|discriminate]. unfold inv_model in E.
        destruct (inv_numden Uops dvU iszU idF A (ksym kx)) as [[num den]|e]; cbn [bind iszU] in E; [|discriminate].
        inversion E; subst ko f. apply keys_gp_wfk.
      + destruct (String.eqb op "div"); [|discriminate]. unfold div_model in E.
        destruct (inv_numden Uops dvU iszU idF A (ksym ky)) as [[num den]|e]; cbn [bind iszU] in E; [|discriminate].
        inversion E; subst ko f. apply keys_gp_wfk.
    - (* one value per key *)
      intros op kin ko f vs r E Hl Ef. unfold inv_ext in E.
      destruct Hl as [|kx vx kin1 vs1 Lx Hl]; [discriminate|].
      destruct Hl as [|ky vy kin2 vs2 Ly Hl].
      + destruct (String.eqb op "inv"); [|discriminate].
        destruct (inv_model Uops dvU iszU idF A (ksym kx)) as [ru|e] eqn:Eu; cbn [bind] in E; [|discriminate].
        inversion E; subst ko f; clear E. cbn [inv_fun] in Ef. rewrite Lx, Nat.eqb_refl in Ef.
        destruct (inv_model O dv isz idF A (combine kx vx)) as [r0|e] eqn:E0; cbn [bind] in Ef; [|discriminate].
        inversion Ef; subst r; clear Ef.
        pose proof (inv_model_forget O dv isz A Hh _ _ E0) as F0.
        rewrite !mh_ksym, (keys_combine kx vx Lx), Eu in F0. inversion F0; subst ru.
        rewrite keys_ksym, length_vals, length_keys. reflexivity.
      + destruct Hl; [|discriminate].
        destruct (String.eqb op "div"); [|discriminate].
        destruct (div_model Uops dvU iszU idF A (ksym kx) (ksym ky)) as [ru|e] eqn:Eu; cbn [bind] in E; [|discriminate].
        inversion E; subst ko f; clear E. cbn [div_fun] in Ef. rewrite Lx, Ly, !Nat.eqb_refl in Ef. cbn [andb] in Ef.
        destruct (div_model O dv isz idF A (combine kx vx) (combine ky vy)) as [r0|e] eqn:E0; cbn [bind] in Ef;
          [|discriminate].
        inversion Ef; subst r; clear Ef.
        pose proof (div_model_forget O dv isz A Hh _ _ _ E0) as F0.
        rewrite !mh_ksym, (keys_combine kx vx Lx), (keys_combine ky vy Ly), Eu in F0. inversion F0; subst ru.
        rewrite keys_ksym, length_vals, length_keys. reflexivity.
    - (* C08 for the inverse and the division: a re-stored operand gives the re-stored result *)
      intros op xs xs' m Hw Hp E.
      destruct Hp as [|x x' xs1 xs1' Px Hp]; [unfold call_op, inv_ext in E; cbn [map bind] in E; discriminate|].
      destruct Hp as [|y y' xs2 xs2' Py Hp].
      + inversion Hw as [|? ? Wx _]; subst.
        destruct (String.eqb op "inv") eqn:Eop.
        * apply String.eqb_eq in Eop. subst op. rewrite call_inv in E. rewrite call_inv.
          pose proof (inv_model_congr R rO rI radd rmul rsub ropp Rth A Hnd true dv isz idF idF_congrR x x'
                        (or_introl eq_refl) (srel_perm R rO rI radd rmul rsub ropp x x' (wfk_nodup _ Wx) Px)) as C.
          rewrite E in C. destruct (inv_model O dv isz idF A x') as [m'|e']; cbn [res_rel] in C; [|contradiction].
          exists m'. split; [reflexivity | apply (srel_true_perm _ _ _ _ _ _ _ _ C)].
        * unfold call_op, inv_ext in E. cbn [map] in E. rewrite Eop in E. cbn [bind] in E. discriminate.
      + destruct Hp.
        * inversion Hw as [|? ? Wx Hw']; subst. inversion Hw' as [|? ? Wy _]; subst.
          destruct (String.eqb op "div") eqn:Eop.
          -- apply String.eqb_eq in Eop. subst op. rewrite call_div in E. rewrite call_div.
             pose proof (div_model_congr R rO rI radd rmul rsub ropp Rth A Hnd true dv isz idF idF_congrR x x' y y'
                           (or_introl eq_refl) (srel_perm R rO rI radd rmul rsub ropp x x' (wfk_nodup _ Wx) Px)
                           (srel_perm R rO rI radd rmul rsub ropp y y' (wfk_nodup _ Wy) Py)) as C.
             rewrite E in C. destruct (div_model O dv isz idF A x' y') as [m'|e']; cbn [res_rel] in C; [|contradiction].
             exists m'. split; [reflexivity | apply (srel_true_perm _ _ _ _ _ _ _ _ C)].
          -- unfold call_op, inv_ext in E. cbn [map] in E. rewrite Eop in E. cbn [bind] in E. discriminate.
        * unfold call_op, inv_ext in E. cbn [map bind] in E. discriminate.
  Qed.
End ExtOk.

(* ================= C11 with the modelled inverse in the table ================= *)
Theorem registered_agrees_with_inverse :
  forall (R : Type) (rO rI : R) (radd rmul rsub : R -> R -> R) (ropp : R -> R),
  ring_theory rO rI radd rmul rsub ropp (@eq R) ->
  forall A : alg, wf_alg A = true ->
  forall (dv : R -> R -> R) (isz : R -> bool),
  let O := mkOps R radd rsub rmul ropp rO rI in
  let table := std_opd O A (inv_ext O dv isz A) in
  forall (bodies : list (expr R)) (fuel k : nat) (body : expr R) (xs : list (mv R)) (v : val),
    nth_error bodies k = Some body -> supported body = true -> isnum body = false -> noswap body = true ->
    Forall (wfm R A) xs ->
    plain_call O A table mv_methods tape_methods bodies fuel k xs = Ok v ->
    exists m, registered O A table tape_methods bodies fuel k xs = Ok m
              /\ Permutation m (as_mv v) /\ Sparse.equiv rO rI radd rmul rsub ropp m (as_mv v).
Proof.
  intros R rO rI radd rmul rsub ropp Rth A Hwf dv isz O table bodies fuel k body xs v.
  apply (tape_agrees R rO rI radd rmul rsub ropp Rth A Hwf (inv_ext O dv isz A)).
  apply (inv_ext_ok R rO rI radd rmul rsub ropp Rth A (nodup_of_wf A Hwf) dv isz).
Qed.

(* non-vacuity, computed over the rationals in signature (+,+,-) with the operands of Theory/InverseCongr.v
   (ex_x' = ex_x with permuted blades and two stored zeros): f(a) = a.inv() * a and g(a, b) = b / a ** -2
   are in the supported fragment; the plain and the registered function return the same multivector,
   f(a) = 1 *)
Section ExampleExt.
  Local Open Scope Z_scope.
  Definition ex_table : optable Qc := std_opd Qcops exA3 (inv_ext Qcops Qcdiv Qcisz exA3).
  Definition ex_f : expr Qc := EInfix IMul (EMeth1 "inv" (EArg 0)) (EArg 0).
  Definition ex_g : expr Qc := EInfix IDiv (EArg 1) (EPow (EArg 0) (-2)).
  Example ex_ext_supported :
    supported ex_f = true /\ supported ex_g = true /\ noswap ex_f = true /\ noswap ex_g = true
    /\ isnum ex_f = false /\ isnum ex_g = false.
  Proof. vm_compute. repeat split; reflexivity. Qed.
  Example ex_ext_computed :
    match plain_call Qcops exA3 ex_table mv_methods tape_methods [ex_f; ex_g] 5 0 [ex_x'],
          registered Qcops exA3 ex_table tape_methods [ex_f; ex_g] 5 0 [ex_x'],
          plain_call Qcops exA3 ex_table mv_methods tape_methods [ex_f; ex_g] 5 1 [ex_x'; ex_x],
          registered Qcops exA3 ex_table tape_methods [ex_f; ex_g] 5 1 [ex_x'; ex_x] with
    | Ok v, Ok m, Ok w, Ok n =>
        qmv_eqb m (as_mv v) = true /\ qmv_eqb m [(0, qz 1)] = true /\ qmv_eqb n (as_mv w) = true
        /\ map (fun kv => (fst kv, this (snd kv))) n
           = [(0, (-130 # 1)%Q); (1, (-9 # 1)%Q); (2, (0 # 1)%Q); (4, (-60 # 1)%Q); (3, (-45 # 1)%Q);
              (5, (0 # 1)%Q); (6, (12 # 1)%Q); (7, (-59 # 1)%Q)]
    | _, _, _, _ => False
    end.
  Proof. vm_compute. repeat split; reflexivity. Qed.
End ExampleExt.
