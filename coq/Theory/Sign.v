(* Theory/Sign.v — name-level theory of kingdon's blade-product sign (_swap_blades / _compute_sign):
   closed form of the sign for arbitrary spellings, decomposition of inversion parity, and the
   Clifford relations (square, anticommutation, associativity, reversal symmetry, zero divisors,
   "a blade is the ordered product of its generators") for an ABSTRACT metric m : nat -> Z. *)
From Coq Require Import Lia Permutation Btauto.
From KV Require Import Model.All Theory.Words.
Local Open Scope nat_scope.

(* ---------- definitions ---------- *)
Definition mem (c : nat) (l : name) : bool := existsb (Nat.eqb c) l.
Definition sdiff (a b : name) : name :=
  filter (fun c => negb (mem c b)) a ++ filter (fun c => negb (mem c a)) b.
Definition common (a b : name) : name := filter (fun c => mem c a) b.   (* = eliminated, in b's order *)
Definition par (b : bool) : Z := if b then (-1)%Z else 1%Z.

(* ---------- membership ---------- *)
Lemma mem_In c l : mem c l = true <-> In c l.
Proof.
  unfold mem. rewrite existsb_exists. split.
  - intros (x & Hx & E). apply Nat.eqb_eq in E. subst x. exact Hx.
  - intros H. exists c. split; [exact H | apply Nat.eqb_refl].
Qed.

Lemma mem_nIn c l : mem c l = false <-> ~ In c l.
Proof.
  rewrite <- mem_In. destruct (mem c l); split; intros H; congruence.
Qed.

Lemma mem_ext c u v : (In c u <-> In c v) -> mem c u = mem c v.
Proof.
  intros H. destruct (mem c v) eqn:E.
  - apply mem_In. apply H. apply mem_In. exact E.
  - apply mem_nIn. intro Hc. apply mem_nIn in E. apply E. apply H. exact Hc.
Qed.

Lemma mem_perm c u v : Permutation u v -> mem c u = mem c v.
Proof.
  intros H. apply mem_ext. split; apply Permutation_in; [exact H | apply Permutation_sym; exact H].
Qed.

Lemma mem_app c u v : mem c (u ++ v) = mem c u || mem c v.
Proof. apply existsb_app. Qed.

Lemma mem_cons c x l : mem c (x :: l) = (c =? x) || mem c l.
Proof. reflexivity. Qed.

Lemma mem_filter c f l : mem c (filter f l) = mem c l && f c.
Proof.
  induction l as [|x r IH]; [reflexivity|]. cbn [filter].
  destruct (f x) eqn:Ex; rewrite ?mem_cons, IH; destruct (Nat.eqb_spec c x) as [->|Hne]; cbn [orb andb].
  - rewrite Ex. reflexivity.
  - reflexivity.
  - rewrite Ex. rewrite andb_false_r. reflexivity.
  - reflexivity.
Qed.

Lemma mem_sdiff x a b : mem x (sdiff a b) = xorb (mem x a) (mem x b).
Proof.
  unfold sdiff. rewrite mem_app, !mem_filter. destruct (mem x a), (mem x b); reflexivity.
Qed.

Lemma mem_common x a b : mem x (common a b) = mem x a && mem x b.
Proof. unfold common. rewrite mem_filter. apply andb_comm. Qed.

Lemma mem_remove1 x c l : x <> c -> mem x (remove1 c l) = mem x l.
Proof.
  intros Hne. induction l as [|y r IH]; [reflexivity|]. cbn [remove1].
  destruct (Nat.eqb_spec y c) as [->|Hyc].
  - rewrite mem_cons. apply Nat.eqb_neq in Hne. rewrite Hne. reflexivity.
  - rewrite !mem_cons, IH. reflexivity.
Qed.

(* ---------- list helpers ---------- *)
Lemma filter_all (f : nat -> bool) l : (forall x, In x l -> f x = true) -> filter f l = l.
Proof.
  induction l as [|x r IH]; intros H; [reflexivity|]. cbn [filter].
  rewrite (H x (or_introl eq_refl)). f_equal. apply IH. intros y Hy. apply H. right. exact Hy.
Qed.

Lemma filter_none (f : nat -> bool) l : (forall x, In x l -> f x = false) -> filter f l = [].
Proof.
  induction l as [|x r IH]; intros H; [reflexivity|]. cbn [filter].
  rewrite (H x (or_introl eq_refl)). apply IH. intros y Hy. apply H. right. exact Hy.
Qed.

Lemma filter_remove1 (f : nat -> bool) c l :
  NoDup l -> filter f (remove1 c l) = filter (fun x => negb (x =? c) && f x) l.
Proof.
  induction l as [|y r IH]; intros Hnd; [reflexivity|].
  inversion Hnd as [|y' r' Hy Hr]; subst. cbn [remove1 filter].
  destruct (Nat.eqb_spec y c) as [->|Hyc]; cbn [negb andb].
  - apply filter_ext_in. intros x Hx.
    destruct (Nat.eqb_spec x c) as [->|Hxc]; [contradiction | reflexivity].
  - cbn [filter]. rewrite (IH Hr). reflexivity.
Qed.

Lemma NoDup_app_intro (u v : name) :
  NoDup u -> NoDup v -> (forall x, In x u -> ~ In x v) -> NoDup (u ++ v).
Proof.
  induction u as [|x r IH]; intros Hu Hv H; [exact Hv|].
  inversion Hu as [|x' r' Hx Hr]; subst. cbn [app]. constructor.
  - intro Hc. apply in_app_or in Hc. destruct Hc as [Hc|Hc]; [contradiction|].
    apply (H x (or_introl eq_refl) Hc).
  - apply IH; [exact Hr | exact Hv |]. intros y Hy. apply H. right. exact Hy.
Qed.

Lemma NoDup_sdiff a b : NoDup a -> NoDup b -> NoDup (sdiff a b).
Proof.
  intros Ha Hb. unfold sdiff. apply NoDup_app_intro; try (apply NoDup_filter; assumption).
  intros x Hx Hx'. apply filter_In in Hx. apply filter_In in Hx'.
  destruct Hx as [Hxa _]. destruct Hx' as [_ Hxna].
  apply mem_In in Hxa. rewrite Hxa in Hxna. discriminate.
Qed.

Lemma In_sdiff x a b : In x (sdiff a b) <-> (In x a /\ ~ In x b) \/ (In x b /\ ~ In x a).
Proof.
  rewrite <- mem_In, mem_sdiff, <- !mem_nIn, <- !mem_In.
  destruct (mem x a), (mem x b); cbn; intuition congruence.
Qed.

Lemma perm_partition (f : nat -> bool) l :
  Permutation l (filter f l ++ filter (fun x => negb (f x)) l).
Proof.
  induction l as [|x r IH]; [constructor|]. cbn [filter].
  destruct (f x); cbn [negb app].
  - constructor. exact IH.
  - apply Permutation_cons_app. exact IH.
Qed.

Lemma common_perm a b :
  NoDup a -> NoDup b -> Permutation (filter (fun c => mem c b) a) (common a b).
Proof.
  intros Ha Hb. apply NoDup_Permutation; try (apply NoDup_filter; assumption).
  intros x. unfold common. rewrite !filter_In, !mem_In. tauto.
Qed.

(* ---------- 1. phase 1 computes the symmetric difference and the common letters ---------- *)
Lemma phase1_step_in cur sw el c idx :
  index c cur = Some idx ->
  phase1_step (cur, sw, el) c =
    (remove1 c cur, (sw + (Z.of_nat (length cur) - Z.of_nat idx - 1))%Z, el ++ [c]).
Proof. intros H. unfold phase1_step. rewrite H. reflexivity. Qed.

Lemma phase1_step_notin cur sw el c :
  index c cur = None -> phase1_step (cur, sw, el) c = (cur ++ [c], sw, el).
Proof. intros H. unfold phase1_step. rewrite H. reflexivity. Qed.

Lemma NoDup_remove1 c l : NoDup l -> NoDup (remove1 c l).
Proof.
  induction l as [|y r IH]; intros Hnd; [constructor|].
  inversion Hnd as [|y' r' Hy Hr]; subst. cbn [remove1].
  destruct (Nat.eqb_spec y c) as [->|Hyc]; [exact Hr|].
  constructor; [|apply IH; exact Hr].
  intro Hc. apply Hy. apply mem_In. rewrite <- (mem_remove1 y c r Hyc). apply mem_In. exact Hc.
Qed.

Lemma NoDup_snoc c (l : name) : NoDup l -> ~ In c l -> NoDup (l ++ [c]).
Proof.
  intros Hl Hc. apply NoDup_app_intro; [exact Hl | constructor; [intros [] | constructor] |].
  intros x Hx [Hxc|[]]. subst x. contradiction.
Qed.

Lemma phase1_gen b : forall cur sw el, NoDup cur -> NoDup b ->
  exists sw', fold_left phase1_step b (cur, sw, el) =
    (filter (fun c => negb (mem c b)) cur ++ filter (fun c => negb (mem c cur)) b, sw',
     el ++ filter (fun c => mem c cur) b).
Proof.
  induction b as [|c rest IH]; intros cur sw el Hcur Hb; cbn [fold_left].
  - exists sw. cbn [filter]. rewrite !app_nil_r. rewrite filter_all; [reflexivity|]. intros; reflexivity.
  - inversion Hb as [|c' r' Hc Hrest]; subst.
    destruct (index c cur) as [idx|] eqn:Ei.
    + rewrite (phase1_step_in _ _ _ _ _ Ei).
      destruct (index_split _ _ _ Ei) as (p & q & Hsplit & _ & _ & _).
      assert (Hin : In c cur) by (rewrite Hsplit; apply in_or_app; right; left; reflexivity).
      destruct (IH (remove1 c cur) (sw + (Z.of_nat (length cur) - Z.of_nat idx - 1))%Z (el ++ [c])
                   (NoDup_remove1 c cur Hcur) Hrest) as (sw' & Hrun).
      exists sw'. refine (eq_trans Hrun _). cbn [filter]. apply mem_In in Hin. rewrite Hin. cbn [negb].
      assert (Hext : forall x, In x rest -> mem x (remove1 c cur) = mem x cur).
      { intros x Hx. apply mem_remove1. intros ->. contradiction. }
      f_equal; [f_equal|].
      * f_equal.
        -- rewrite (filter_remove1 _ c cur Hcur). apply filter_ext_in. intros x _.
           rewrite mem_cons. rewrite negb_orb. reflexivity.
        -- apply filter_ext_in. intros x Hx. rewrite (Hext x Hx). reflexivity.
      * rewrite <- app_assoc. cbn [app]. do 2 f_equal. apply filter_ext_in. exact Hext.
    + rewrite (phase1_step_notin _ _ _ _ Ei). apply index_none in Ei.
      destruct (IH (cur ++ [c]) sw el (NoDup_snoc c cur Hcur Ei) Hrest) as (sw' & Hrun).
      exists sw'. refine (eq_trans Hrun _). cbn [filter]. apply mem_nIn in Ei. rewrite Ei. cbn [negb].
      assert (Hext : forall x, In x rest -> mem x (cur ++ [c]) = mem x cur).
      { intros x Hx. rewrite mem_app, mem_cons. destruct (Nat.eqb_spec x c) as [->|Hne]; [contradiction|].
        cbn. rewrite !orb_false_r. reflexivity. }
      f_equal; [f_equal|].
      * rewrite filter_app. cbn [filter]. apply mem_nIn in Hc. rewrite Hc. cbn [negb].
        rewrite <- app_assoc. cbn [app]. f_equal.
        -- apply filter_ext_in. intros x Hx. rewrite mem_cons.
           destruct (Nat.eqb_spec x c) as [->|Hne]; [|reflexivity].
           apply mem_In in Hx. congruence.
        -- f_equal. apply filter_ext_in. intros x Hx. rewrite (Hext x Hx). reflexivity.
      * f_equal. apply filter_ext_in. exact Hext.
Qed.

Theorem phase1_spec a b : NoDup a -> NoDup b ->
  exists sw, phase1 a b = (sdiff a b, sw, common a b).
Proof.
  intros Ha Hb. destruct (phase1_gen b a 0%Z [] Ha Hb) as (sw & H). exists sw. exact H.
Qed.

(* ---------- 3. decomposition of inversion parity ---------- *)
(* ncross u v = #{(x,y) | x in u, y in v, y < x};  cross = its parity *)
Fixpoint ncross (u v : name) : nat :=
  match u with [] => 0 | x :: r => clt x v + ncross r v end.
Definition cross (u v : name) : bool := Nat.odd (ncross u v).

Lemma clt_perm x u v : Permutation u v -> clt x u = clt x v.
Proof.
  intros H. induction H as [|y u v H IH|y z u|u v w H1 IH1 H2 IH2]; cbn [clt]; lia.
Qed.

Lemma ncross_nil_r u : ncross u [] = 0.
Proof. induction u as [|x r IH]; [reflexivity|]. cbn [ncross clt]. exact IH. Qed.

Lemma ncross_app_l u1 u2 v : ncross (u1 ++ u2) v = ncross u1 v + ncross u2 v.
Proof. induction u1 as [|x r IH]; [reflexivity|]. cbn [app ncross]. rewrite IH. lia. Qed.

Lemma ncross_app_r u v1 v2 : ncross u (v1 ++ v2) = ncross u v1 + ncross u v2.
Proof. induction u as [|x r IH]; [reflexivity|]. cbn [ncross]. rewrite IH, clt_app. lia. Qed.

Lemma ncross_perm_l u u' v : Permutation u u' -> ncross u v = ncross u' v.
Proof.
  intros H. induction H as [|y u u' H IH|y z u|u u' u'' H1 IH1 H2 IH2]; cbn [ncross]; lia.
Qed.

Lemma ncross_perm_r u v v' : Permutation v v' -> ncross u v = ncross u v'.
Proof.
  intros H. induction u as [|x r IH]; [reflexivity|]. cbn [ncross].
  rewrite IH, (clt_perm x v v' H). reflexivity.
Qed.

Lemma cross_nil_l v : cross [] v = false.
Proof. reflexivity. Qed.

Lemma cross_nil_r u : cross u [] = false.
Proof. unfold cross. rewrite ncross_nil_r. reflexivity. Qed.

Lemma cross_cons_l x u v : cross (x :: u) v = xorb (Nat.odd (clt x v)) (cross u v).
Proof. unfold cross. cbn [ncross]. apply odd_add. Qed.

Lemma cross_app_l u1 u2 v : cross (u1 ++ u2) v = xorb (cross u1 v) (cross u2 v).
Proof. unfold cross. rewrite ncross_app_l. apply odd_add. Qed.

Lemma cross_app_r u v1 v2 : cross u (v1 ++ v2) = xorb (cross u v1) (cross u v2).
Proof. unfold cross. rewrite ncross_app_r. apply odd_add. Qed.

Lemma cross_perm_l u u' v : Permutation u u' -> cross u v = cross u' v.
Proof. intros H. unfold cross. rewrite (ncross_perm_l u u' v H). reflexivity. Qed.

Lemma cross_perm_r u v v' : Permutation v v' -> cross u v = cross u v'.
Proof. intros H. unfold cross. rewrite (ncross_perm_r u v v' H). reflexivity. Qed.

Theorem inv2_app u v : inv2 (u ++ v) = xorb (xorb (inv2 u) (inv2 v)) (cross u v).
Proof.
  induction u as [|x r IH]; cbn [app inv2].
  - rewrite cross_nil_l. destruct (inv2 v); reflexivity.
  - rewrite IH, cross_cons_l, clt_app, odd_add. btauto.
Qed.

Lemma inv2_perm_ends u u' v v' :
  Permutation u u' -> Permutation v v' ->
  xorb (inv2 (u ++ v)) (xorb (inv2 u) (inv2 v)) = xorb (inv2 (u' ++ v')) (xorb (inv2 u') (inv2 v')).
Proof.
  intros Hu Hv. rewrite !inv2_app, (cross_perm_l u u' v Hu), (cross_perm_r u' v v' Hv). btauto.
Qed.

(* key lemma: letters common to a and b are counted twice, so they cancel *)
Theorem cross_sdiff_l a b t c :
  NoDup a -> NoDup b -> Permutation (sdiff a b) t ->
  cross t c = xorb (cross a c) (cross b c).
Proof.
  intros Ha Hb Hp. rewrite <- (cross_perm_l _ _ c Hp). unfold sdiff. rewrite cross_app_l.
  rewrite (cross_perm_l a _ c (perm_partition (fun x => mem x b) a)).
  rewrite (cross_perm_l b _ c (perm_partition (fun x => mem x a) b)).
  rewrite !cross_app_l.
  rewrite (cross_perm_l _ _ c (common_perm a b Ha Hb)). unfold common. btauto.
Qed.

Theorem cross_sdiff_r a b t c :
  NoDup a -> NoDup b -> Permutation (sdiff a b) t ->
  cross c t = xorb (cross c a) (cross c b).
Proof.
  intros Ha Hb Hp. rewrite <- (cross_perm_r c _ _ Hp). unfold sdiff. rewrite cross_app_r.
  rewrite (cross_perm_r c a _ (perm_partition (fun x => mem x b) a)).
  rewrite (cross_perm_r c b _ (perm_partition (fun x => mem x a) b)).
  rewrite !cross_app_r.
  rewrite (cross_perm_r c _ _ (common_perm a b Ha Hb)). unfold common. btauto.
Qed.

(* counting: every pair (x,y) in a x b has y < x, x < y or x = y *)
Fixpoint cgt (x : nat) (l : list nat) : nat :=   (* #{y in l | x < y} *)
  match l with [] => 0 | y :: r => (if x <? y then 1 else 0) + cgt x r end.

Lemma ncross_cons_r b x r : ncross b (x :: r) = cgt x b + ncross b r.
Proof. induction b as [|y b IH]; [reflexivity|]. cbn [ncross clt cgt]. rewrite IH. lia. Qed.

Lemma clt_cgt x b : NoDup b -> clt x b + cgt x b + (if mem x b then 1 else 0) = length b.
Proof.
  induction b as [|y r IH]; intros Hnd; [reflexivity|].
  inversion Hnd as [|y' r' Hy Hr]; subst. specialize (IH Hr).
  cbn [clt cgt length]. rewrite mem_cons.
  destruct (Nat.eqb_spec x y) as [->|Hne]; cbn [orb].
  - rewrite Nat.ltb_irrefl. apply mem_nIn in Hy. rewrite Hy in IH. lia.
  - destruct (Nat.ltb_spec y x), (Nat.ltb_spec x y); lia.
Qed.

Lemma ncross_count a b : NoDup b ->
  ncross a b + ncross b a + length (filter (fun x => mem x b) a) = length a * length b.
Proof.
  intros Hb. induction a as [|x r IH].
  - cbn [ncross filter length]. rewrite ncross_nil_r. reflexivity.
  - cbn [ncross filter]. rewrite ncross_cons_r. pose proof (clt_cgt x b Hb) as Hx.
    destruct (mem x b); cbn [length]; lia.
Qed.

Theorem cross_swap a b : NoDup a -> NoDup b ->
  xorb (cross a b) (cross b a) = Nat.odd (length a * length b - length (common a b)).
Proof.
  intros Ha Hb. unfold cross. rewrite <- odd_add. f_equal.
  pose proof (ncross_count a b Hb) as Hc.
  rewrite (Permutation_length (common_perm a b Ha Hb)) in Hc. lia.
Qed.

(* ---------- products over lists of letters ---------- *)
Fixpoint zprod (h : nat -> Z) (l : name) : Z :=
  match l with [] => 1%Z | g :: r => (h g * zprod h r)%Z end.

Lemma zprod_app h u v : zprod h (u ++ v) = (zprod h u * zprod h v)%Z.
Proof. induction u as [|x r IH]; cbn [app zprod]; [ring | rewrite IH; ring]. Qed.

Lemma zprod_perm h u v : Permutation u v -> zprod h u = zprod h v.
Proof.
  intros H. induction H as [|y u v H IH|y z u|u v w H1 IH1 H2 IH2]; cbn [zprod].
  - reflexivity.
  - rewrite IH. reflexivity.
  - ring.
  - congruence.
Qed.

Lemma zprod_filter h (f : nat -> bool) l :
  zprod h (filter f l) = zprod (fun g => if f g then h g else 1%Z) l.
Proof.
  induction l as [|x r IH]; [reflexivity|]. cbn [filter zprod].
  destruct (f x); cbn [zprod]; rewrite IH; ring.
Qed.

Lemma zprod_ext_in h1 h2 l : (forall g, In g l -> h1 g = h2 g) -> zprod h1 l = zprod h2 l.
Proof.
  induction l as [|x r IH]; intros H; [reflexivity|]. cbn [zprod].
  rewrite (H x (or_introl eq_refl)), IH; [reflexivity|]. intros g Hg. apply H. right. exact Hg.
Qed.

Lemma zprod_mul h1 h2 l : (zprod h1 l * zprod h2 l)%Z = zprod (fun g => (h1 g * h2 g)%Z) l.
Proof. induction l as [|x r IH]; cbn [zprod]; [ring | rewrite <- IH; ring]. Qed.

Lemma zprod_universe h v U :
  NoDup v -> NoDup U -> incl v U ->
  zprod h v = zprod (fun g => if mem g v then h g else 1%Z) U.
Proof.
  intros Hv HU Hincl. rewrite <- (zprod_filter h (fun g => mem g v) U). apply zprod_perm.
  apply NoDup_Permutation; [exact Hv | apply NoDup_filter; exact HU |].
  intros x. rewrite filter_In, mem_In. split; [intros Hx; split; [apply Hincl|]; exact Hx | tauto].
Qed.

Lemma zprod_zero_iff h l : zprod h l = 0%Z <-> exists g, In g l /\ h g = 0%Z.
Proof.
  induction l as [|x r IH]; cbn [zprod].
  - split; [discriminate | intros (g & [] & _)].
  - rewrite Z.mul_eq_0, IH. split.
    + intros [H|(g & Hg & H)]; [exists x | exists g]; split; auto; [left | right]; auto.
    + intros (g & [->|Hg] & H); [left; exact H | right; exists g; auto].
Qed.

Lemma zprod_unit h l :
  (forall g, In g l -> h g = 1%Z \/ h g = (-1)%Z) -> zprod h l = 1%Z \/ zprod h l = (-1)%Z.
Proof.
  induction l as [|x r IH]; intros H; cbn [zprod]; [left; reflexivity|].
  destruct (H x (or_introl eq_refl)) as [-> | ->];
    (destruct IH as [-> | ->]; [intros g Hg; apply H; right; exact Hg | |]); cbn; auto.
Qed.

Lemma par_xorb x y : par (xorb x y) = (par x * par y)%Z.
Proof. destruct x, y; reflexivity. Qed.

Lemma par_unit x : par x = 1%Z \/ par x = (-1)%Z.
Proof. destruct x; cbn; auto. Qed.

Lemma swap_blades_elim a b t sw r el :
  swap_blades a b t = Some (sw, r, el) -> el = snd (phase1 a b).
Proof.
  unfold swap_blades. destruct (phase1 a b) as [[b1 sw1] el1]. cbn [snd].
  destruct t as [|c t].
  - intros H. inversion H. reflexivity.
  - destruct (phase2 0 (c :: t) b1 sw1) as [[b' sw']|]; intros H; inversion H. reflexivity.
Qed.

Lemma sdiff_comm_perm a b : Permutation (sdiff a b) (sdiff b a).
Proof. unfold sdiff. apply Permutation_app_comm. Qed.

Lemma sdiff_assoc_perm a b c ab bc abc :
  NoDup a -> NoDup b -> NoDup c ->
  Permutation (sdiff a b) ab -> Permutation (sdiff b c) bc -> Permutation (sdiff ab c) abc ->
  Permutation (sdiff a bc) abc.
Proof.
  intros Ha Hb Hc Hab Hbc Habc.
  assert (Nab : NoDup ab) by (apply (Permutation_NoDup Hab); apply NoDup_sdiff; assumption).
  assert (Nbc : NoDup bc) by (apply (Permutation_NoDup Hbc); apply NoDup_sdiff; assumption).
  assert (Nabc : NoDup abc) by (apply (Permutation_NoDup Habc); apply NoDup_sdiff; assumption).
  apply NoDup_Permutation; [apply NoDup_sdiff; assumption | exact Nabc |].
  intros x. rewrite <- !mem_In. rewrite <- (mem_perm x _ _ Habc), !mem_sdiff.
  rewrite <- (mem_perm x _ _ Hab), <- (mem_perm x _ _ Hbc), !mem_sdiff, xorb_assoc. tauto.
Qed.

Lemma last_cons_default (t : name) ts d : last (t :: ts) d = last ts t.
Proof.
  revert t d. induction ts as [|u ts IH]; intros t d; [reflexivity|].
  change (last (t :: u :: ts) d) with (last (u :: ts) d). rewrite (IH u d), (IH u t). reflexivity.
Qed.

(* whole _swap_blades, closed form: result spelling, eliminated letters, parity of the swap count *)
Theorem swap_blades_closed a b t :
  NoDup a -> NoDup b -> Permutation (sdiff a b) t ->
  exists sw, swap_blades a b t = Some (sw, t, common a b) /\
             Z.odd sw = xorb (inv2 (a ++ b)) (inv2 t).
Proof.
  intros Ha Hb Hp. destruct (phase1_spec a b Ha Hb) as (sw0 & Hph).
  destruct (swap_blades_parity a b t Ha) as (sw & el & Hrun & Hodd).
  { rewrite Hph. exact Hp. }
  pose proof (swap_blades_elim _ _ _ _ _ _ Hrun) as Hel. rewrite Hph in Hel. cbn [snd] in Hel. subst el.
  exists sw. split; [exact Hrun | exact Hodd].
Qed.

(* ====================================================================================== *)
Section Metric.
Variable m : nat -> Z.

Definition mprod (l : name) : Z := fold_left (fun s g => (s * m g)%Z) l 1%Z.

(* the sign kingdon computes for spellings a, b and the table's spelling t of the result *)
Definition sgn_names (a b t : name) : option Z :=
  match swap_blades a b t with
  | Some (sw, _, el) =>
      Some (fold_left (fun s g => (s * m g)%Z) el (if Z.odd sw then (-1)%Z else 1%Z))
  | None => None
  end.

Lemma fold_mul_zprod l s0 : fold_left (fun s g => (s * m g)%Z) l s0 = (s0 * zprod m l)%Z.
Proof.
  revert s0. induction l as [|x r IH]; intros s0; cbn [fold_left zprod]; [ring|]. rewrite IH. ring.
Qed.

Lemma mprod_zprod l : mprod l = zprod m l.
Proof. unfold mprod. rewrite fold_mul_zprod. ring. Qed.

(* ---------- 2. closed form ---------- *)
Theorem sgn_names_closed a b t :
  NoDup a -> NoDup b -> Permutation (sdiff a b) t ->
  sgn_names a b t = Some (par (xorb (inv2 (a ++ b)) (inv2 t)) * mprod (common a b))%Z.
Proof.
  intros Ha Hb Hp. destruct (swap_blades_closed a b t Ha Hb Hp) as (sw & Hrun & Hodd).
  unfold sgn_names. rewrite Hrun, Hodd, fold_mul_zprod, mprod_zprod. reflexivity.
Qed.

(* the same for the model's _compute_sign on spellings (Model/Alg.v), when the signature lookup of
   every contracted letter succeeds and agrees with m *)
Lemma metric_of_closed A el s0 :
  (forall g, In g el -> sig_at A g = Some (m g)) -> metric_of A el s0 = Some (s0 * zprod m el)%Z.
Proof.
  revert s0. induction el as [|x r IH]; intros s0 H; cbn [metric_of zprod].
  - f_equal. ring.
  - rewrite (H x (or_introl eq_refl)), IH; [f_equal; ring|]. intros g Hg. apply H. right. exact Hg.
Qed.

Theorem sign_names_closed A a b t :
  NoDup a -> NoDup b -> Permutation (sdiff a b) t ->
  (forall g, In g a -> In g b -> sig_at A g = Some (m g)) ->
  sign_names A a b t = Ok (par (xorb (inv2 (a ++ b)) (inv2 t)) * mprod (common a b))%Z.
Proof.
  intros Ha Hb Hp Hm. destruct (swap_blades_closed a b t Ha Hb Hp) as (sw & Hrun & Hodd).
  unfold sign_names. rewrite Hrun. cbn [of_opt bind]. rewrite metric_of_closed.
  - cbn [of_opt]. rewrite Hodd, mprod_zprod. reflexivity.
  - intros g Hg. unfold common in Hg. apply filter_In in Hg. destruct Hg as [Hgb Hga].
    apply mem_In in Hga. apply Hm; assumption.
Qed.

(* ---------- 4. Clifford relations ---------- *)
Theorem sq g : sgn_names [g] [g] [] = Some (m g).
Proof.
  rewrite sgn_names_closed.
  - unfold common, mprod. cbn [app inv2 clt filter mem existsb fold_left].
    rewrite Nat.eqb_refl, Nat.ltb_irrefl. cbn [orb fold_left Nat.add]. change (Nat.odd 0) with false. cbn [xorb par].
    f_equal. ring.
  - constructor; [intros [] | constructor].
  - constructor; [intros [] | constructor].
  - unfold sdiff. cbn [filter mem existsb]. rewrite Nat.eqb_refl. constructor.
Qed.

Lemma NoDup_single (g : nat) : NoDup [g].
Proof. constructor; [intros [] | constructor]. Qed.

Lemma sdiff_snoc cur g : ~ In g cur -> sdiff cur [g] = cur ++ [g].
Proof.
  intros Hg. unfold sdiff. f_equal.
  - apply filter_all. intros x Hx. cbn [mem existsb].
    destruct (Nat.eqb_spec x g) as [->|Hne]; [contradiction | reflexivity].
  - cbn [filter]. apply mem_nIn in Hg. rewrite Hg. reflexivity.
Qed.

Lemma common_snoc cur g : ~ In g cur -> common cur [g] = [].
Proof. intros Hg. unfold common. cbn [filter]. apply mem_nIn in Hg. rewrite Hg. reflexivity. Qed.

Theorem anticomm g h t :
  g <> h -> Permutation [g; h] t ->
  exists s, (s = 1 \/ s = -1)%Z /\ sgn_names [g] [h] t = Some s /\ sgn_names [h] [g] t = Some (- s)%Z.
Proof.
  intros Hne Hp.
  assert (Hg : ~ In h [g]) by (intros [E|[]]; congruence).
  assert (Hh : ~ In g [h]) by (intros [E|[]]; congruence).
  exists (par (xorb (inv2 ([g] ++ [h])) (inv2 t))). split; [apply par_unit|]. split.
  - rewrite sgn_names_closed; try apply NoDup_single.
    + rewrite (common_snoc [g] h Hg). unfold mprod. cbn [fold_left]. f_equal. ring.
    + rewrite (sdiff_snoc [g] h Hg). exact Hp.
  - rewrite sgn_names_closed; try apply NoDup_single.
    + rewrite (common_snoc [h] g Hh). unfold mprod. cbn [fold_left]. f_equal.
      pose proof (inv2_swap_adjacent [] g h [] Hne) as Hsw. cbn [app] in *. rewrite Hsw.
      destruct (inv2 [h; g]), (inv2 t); reflexivity.
    + rewrite (sdiff_snoc [h] g Hh). cbn [app]. apply (perm_trans (perm_swap g h [])). exact Hp.
Qed.

Lemma In_common g a b : In g (common a b) <-> In g a /\ In g b.
Proof. unfold common. rewrite filter_In, mem_In. tauto. Qed.

(* zero divisors: the sign is 0 exactly when a null generator is contracted (no hypothesis on m) *)
Theorem zero_iff a b t :
  NoDup a -> NoDup b -> Permutation (sdiff a b) t ->
  (sgn_names a b t = Some 0%Z <-> exists g, In g a /\ In g b /\ m g = 0%Z).
Proof.
  intros Ha Hb Hp. rewrite (sgn_names_closed a b t Ha Hb Hp), mprod_zprod.
  set (p := xorb _ _). split.
  - intros H. injection H as H0. apply Z.mul_eq_0 in H0. destruct H0 as [H0|H0].
    + destruct p; discriminate.
    + apply zprod_zero_iff in H0. destruct H0 as (g & Hg & Hm). apply In_common in Hg.
      exists g. tauto.
  - intros (g & Hga & Hgb & Hm). f_equal.
    assert (Hz : zprod m (common a b) = 0%Z).
    { apply zprod_zero_iff. exists g. split; [apply In_common; tauto | exact Hm]. }
    rewrite Hz. ring.
Qed.

Theorem sgn_names_unit a b t :
  (forall g, m g = 1 \/ m g = -1 \/ m g = 0)%Z ->
  NoDup a -> NoDup b -> Permutation (sdiff a b) t ->
  ~ (exists g, In g a /\ In g b /\ m g = 0%Z) ->
  sgn_names a b t = Some 1%Z \/ sgn_names a b t = Some (-1)%Z.
Proof.
  intros Hm Ha Hb Hp Hnz. rewrite (sgn_names_closed a b t Ha Hb Hp), mprod_zprod.
  set (p := xorb _ _).
  assert (Hu : zprod m (common a b) = 1%Z \/ zprod m (common a b) = (-1)%Z).
  { apply zprod_unit. intros g Hg. apply In_common in Hg.
    destruct (Hm g) as [H|[H|H]]; [left; exact H | right; exact H |].
    exfalso. apply Hnz. exists g. tauto. }
  destruct Hu as [-> | ->]; destruct p; cbn; auto.
Qed.

Theorem nonzero_iff a b t :
  (forall g, m g = 1 \/ m g = -1 \/ m g = 0)%Z ->
  NoDup a -> NoDup b -> Permutation (sdiff a b) t ->
  (sgn_names a b t = Some 0%Z <-> exists g, In g a /\ In g b /\ m g = 0%Z) /\
  (~ (exists g, In g a /\ In g b /\ m g = 0%Z) ->
   sgn_names a b t = Some 1%Z \/ sgn_names a b t = Some (-1)%Z).
Proof.
  intros Hm Ha Hb Hp. split; [apply zero_iff; assumption | apply sgn_names_unit; assumption].
Qed.

Lemma mprod_common_universe u v U :
  NoDup v -> NoDup U -> incl v U ->
  mprod (common u v) =
  zprod (fun g => if mem g v then (if mem g u then m g else 1%Z) else 1%Z) U.
Proof.
  intros Hv HU Hincl. rewrite mprod_zprod. unfold common. rewrite zprod_filter.
  apply zprod_universe; assumption.
Qed.

Theorem assoc a b c ab bc abc :
  NoDup a -> NoDup b -> NoDup c ->
  Permutation (sdiff a b) ab -> Permutation (sdiff b c) bc -> Permutation (sdiff ab c) abc ->
  exists s1 s2 s3 s4,
    sgn_names a b ab = Some s1 /\ sgn_names ab c abc = Some s2 /\
    sgn_names b c bc = Some s3 /\ sgn_names a bc abc = Some s4 /\
    (s1 * s2 = s3 * s4)%Z.
Proof.
  intros Ha Hb Hc Hab Hbc Habc.
  pose proof (sdiff_assoc_perm a b c ab bc abc Ha Hb Hc Hab Hbc Habc) as Habc'.
  assert (Nab : NoDup ab) by (apply (Permutation_NoDup Hab); apply NoDup_sdiff; assumption).
  assert (Nbc : NoDup bc) by (apply (Permutation_NoDup Hbc); apply NoDup_sdiff; assumption).
  eexists _, _, _, _.
  split; [apply (sgn_names_closed a b ab); assumption|].
  split; [apply (sgn_names_closed ab c abc); assumption|].
  split; [apply (sgn_names_closed b c bc); assumption|].
  split; [apply (sgn_names_closed a bc abc); assumption|].
  (* parity part *)
  assert (Hpar : xorb (xorb (inv2 (a ++ b)) (inv2 ab)) (xorb (inv2 (ab ++ c)) (inv2 abc))
               = xorb (xorb (inv2 (b ++ c)) (inv2 bc)) (xorb (inv2 (a ++ bc)) (inv2 abc))).
  { rewrite !inv2_app.
    rewrite (cross_sdiff_l a b ab c Ha Hb Hab), (cross_sdiff_r b c bc a Hb Hc Hbc). btauto. }
  (* metric part, over one universe *)
  set (U := nodup Nat.eq_dec (a ++ b ++ c)).
  assert (HU : NoDup U) by apply NoDup_nodup.
  assert (Ib : incl b U).
  { intros x Hx. apply nodup_In. apply in_or_app. right. apply in_or_app. left. exact Hx. }
  assert (Ic : incl c U).
  { intros x Hx. apply nodup_In. apply in_or_app. right. apply in_or_app. right. exact Hx. }
  assert (Ibc : incl bc U).
  { intros x Hx. apply (Permutation_in x (Permutation_sym Hbc)) in Hx. apply In_sdiff in Hx.
    destruct Hx as [[Hx _]|[Hx _]]; [apply Ib | apply Ic]; exact Hx. }
  assert (Hmet : (mprod (common a b) * mprod (common ab c) = mprod (common b c) * mprod (common a bc))%Z).
  { rewrite (mprod_common_universe a b U Hb HU Ib), (mprod_common_universe ab c U Hc HU Ic),
            (mprod_common_universe b c U Hc HU Ic), (mprod_common_universe a bc U Nbc HU Ibc).
    rewrite !zprod_mul. apply zprod_ext_in. intros g _.
    rewrite <- (mem_perm g _ _ Hab), <- (mem_perm g _ _ Hbc), !mem_sdiff.
    destruct (mem g a), (mem g b), (mem g c); cbn [xorb]; ring. }
  set (M1 := mprod (common a b)) in *. set (M2 := mprod (common ab c)) in *.
  set (M3 := mprod (common b c)) in *. set (M4 := mprod (common a bc)) in *.
  set (p1 := xorb (inv2 (a ++ b)) (inv2 ab)) in *. set (p2 := xorb (inv2 (ab ++ c)) (inv2 abc)) in *.
  set (p3 := xorb (inv2 (b ++ c)) (inv2 bc)) in *. set (p4 := xorb (inv2 (a ++ bc)) (inv2 abc)) in *.
  transitivity (par (xorb p1 p2) * (M1 * M2))%Z; [rewrite par_xorb; ring|].
  rewrite Hpar, Hmet, par_xorb. ring.
Qed.

Theorem swap_sym a b t s :
  NoDup a -> NoDup b -> Permutation (sdiff a b) t ->
  sgn_names a b t = Some s ->
  sgn_names b a t = Some (par (Nat.odd (length a * length b - length (common a b))) * s)%Z.
Proof.
  intros Ha Hb Hp Hs. rewrite (sgn_names_closed a b t Ha Hb Hp) in Hs. injection Hs as Hs'. subst s.
  assert (Hp' : Permutation (sdiff b a) t) by (apply (perm_trans (sdiff_comm_perm b a)); exact Hp).
  rewrite (sgn_names_closed b a t Hb Ha Hp'). apply f_equal.
  rewrite !mprod_zprod. change (common b a) with (filter (fun c => mem c b) a).
  rewrite (zprod_perm m _ _ (common_perm a b Ha Hb)).
  rewrite <- (cross_swap a b Ha Hb), !inv2_app, Z.mul_assoc, <- !par_xorb.
  apply (f_equal (fun z => (par z * zprod m (common a b))%Z)). btauto.
Qed.

(* ---------- a blade is the ordered product of its generators, through the table ---------- *)
(* chain cur [g1..gk] [t1..tk]: multiply cur by e_g1, look the result up under the spelling t1,
   multiply that by e_g2, ... ; the accumulated sign *)
Fixpoint chain (cur : name) (gs : name) (ts : list name) : option Z :=
  match gs, ts with
  | [], [] => Some 1%Z
  | g :: gs', t :: ts' =>
      match sgn_names cur [g] t, chain t gs' ts' with
      | Some s, Some s' => Some (s * s')%Z
      | _, _ => None
      end
  | _, _ => None
  end.

(* ts are spellings of the successive partial products of p.g1.g2... *)
Fixpoint spellings (p gs : name) (ts : list name) : Prop :=
  match gs, ts with
  | [], [] => True
  | g :: gs', t :: ts' => Permutation (p ++ [g]) t /\ spellings (p ++ [g]) gs' ts'
  | _, _ => False
  end.

Lemma NoDup_app_l (u v : name) : NoDup (u ++ v) -> NoDup u.
Proof.
  induction u as [|x r IH]; intros H; [constructor|].
  cbn [app] in H. inversion H as [|x' r' Hx Hr]; subst. constructor.
  - intro Hc. apply Hx. apply in_or_app. left. exact Hc.
  - apply IH. exact Hr.
Qed.

Lemma chain_gen gs : forall p cur ts,
  NoDup (p ++ gs) -> Permutation p cur -> spellings p gs ts ->
  chain cur gs ts =
  Some (par (xorb (xorb (inv2 cur) (inv2 (last ts cur))) (xorb (inv2 p) (inv2 (p ++ gs))))).
Proof.
  induction gs as [|g gs IH]; intros p cur ts Hnd Hperm Hsp.
  - destruct ts as [|t ts]; [|destruct Hsp]. cbn [chain last]. rewrite app_nil_r, !xorb_nilpotent.
    reflexivity.
  - destruct ts as [|t ts]; [destruct Hsp|]. destruct Hsp as [Ht Hsp]. cbn [chain].
    assert (Hg : ~ In g p).
    { pose proof (NoDup_remove_2 _ _ _ Hnd) as H. intro Hc. apply H. apply in_or_app. left. exact Hc. }
    assert (Hgc : ~ In g cur).
    { intro Hc. apply Hg. apply (Permutation_in g (Permutation_sym Hperm)). exact Hc. }
    assert (Np : NoDup p) by (apply (NoDup_app_l p (g :: gs)); exact Hnd).
    assert (Ncur : NoDup cur) by (apply (Permutation_NoDup Hperm); exact Np).
    assert (Hpt : Permutation (sdiff cur [g]) t).
    { rewrite (sdiff_snoc cur g Hgc). apply perm_trans with (p ++ [g]); [|exact Ht].
      apply Permutation_app_tail. apply Permutation_sym. exact Hperm. }
    rewrite (sgn_names_closed cur [g] t Ncur (NoDup_single g) Hpt), (common_snoc cur g Hgc).
    assert (Hnd' : NoDup ((p ++ [g]) ++ gs)) by (rewrite <- app_assoc; exact Hnd).
    rewrite (IH (p ++ [g]) t ts Hnd' Ht Hsp), last_cons_default. apply f_equal.
    unfold mprod. cbn [fold_left]. rewrite <- app_assoc. cbn [app]. rewrite Z.mul_1_r, <- par_xorb.
    apply f_equal.
    rewrite (inv2_app cur [g]), (inv2_app p [g]), (cross_perm_l p cur [g] Hperm). btauto.
Qed.

Theorem ordered_product_spellings n ts :
  NoDup n -> spellings [] n ts -> last ts [] = n -> chain [] n ts = Some 1%Z.
Proof.
  intros Hn Hsp Hlast. rewrite (chain_gen n [] [] ts Hn (perm_nil _) Hsp), Hlast. cbn [app inv2].
  destruct (inv2 n); reflexivity.
Qed.

Lemma spellings_of_nth gs : forall p ts,
  length ts = length gs ->
  (forall i, i < length gs ->
     exists t, nth_error ts i = Some t /\ Permutation (p ++ firstn (S i) gs) t) ->
  spellings p gs ts.
Proof.
  induction gs as [|g gs IH]; intros p ts Hlen H.
  - destruct ts; [exact I | discriminate].
  - destruct ts as [|t ts]; [discriminate|]. cbn [spellings]. cbn [length] in *. split.
    + destruct (H 0) as (t0 & E & Hp); [lia|]. cbn [nth_error] in E. injection E as <-.
      cbn [firstn] in Hp. exact Hp.
    + apply IH; [lia|]. intros i Hi. destruct (H (S i)) as (t' & E & Hp); [lia|].
      exists t'. split; [exact E|]. rewrite <- app_assoc. exact Hp.
Qed.

(* intermediate spellings arbitrary, final spelling = n itself, total sign = +1 *)
Theorem ordered_product n ts :
  NoDup n ->
  (forall i, i < length n -> exists t, nth_error ts i = Some t /\ Permutation (firstn (S i) n) t) ->
  length ts = length n -> last ts [] = n ->
  chain [] n ts = Some 1%Z.
Proof.
  intros Hn H Hlen Hlast. apply ordered_product_spellings; [exact Hn | | exact Hlast].
  apply spellings_of_nth; [exact Hlen | exact H].
Qed.

End Metric.

(* ---------- 5. non-vacuity ---------- *)
Definition ex_metric (g : nat) : Z := match g with 1 => 2%Z | 2 => 3%Z | 3 => 5%Z | _ => 7%Z end.

(* e31 * e12 = -e23 *)
Example ex_sgn_euclid : sgn_names (fun _ => 1%Z) [3;1] [1;2] [2;3] = Some (-1)%Z.
Proof. vm_compute. reflexivity. Qed.

Example ex_sgn_null : sgn_names (fun g => if g =? 1 then 0%Z else 1%Z) [3;1] [1;2] [2;3] = Some 0%Z.
Proof. vm_compute. reflexivity. Qed.

(* the four products of assoc for a = e31, b = e12, c = e234 and spellings e23, e314, e4 *)
Example ex_assoc_values :
  (sgn_names ex_metric [3;1] [1;2] [2;3], sgn_names ex_metric [2;3] [2;3;4] [4],
   sgn_names ex_metric [1;2] [2;3;4] [3;1;4], sgn_names ex_metric [3;1] [3;1;4] [4])
  = (Some (-2), Some (-15), Some (-3), Some (-10))%Z.
Proof. vm_compute. reflexivity. Qed.

Example ex_assoc_hyps :
  exists s1 s2 s3 s4,
    sgn_names ex_metric [3;1] [1;2] [2;3] = Some s1 /\ sgn_names ex_metric [2;3] [2;3;4] [4] = Some s2 /\
    sgn_names ex_metric [1;2] [2;3;4] [3;1;4] = Some s3 /\ sgn_names ex_metric [3;1] [3;1;4] [4] = Some s4 /\
    (s1 * s2 = s3 * s4)%Z.
Proof.
  apply assoc.
  - repeat constructor; cbn; intuition lia.
  - repeat constructor; cbn; intuition lia.
  - repeat constructor; cbn; intuition lia.
  - vm_compute. apply perm_swap.
  - vm_compute. apply perm_swap.
  - vm_compute. apply Permutation_refl.
Qed.

Example ex_swap_sym :
  (sgn_names ex_metric [3;1] [1;2] [2;3], sgn_names ex_metric [1;2] [3;1] [2;3],
   par (Nat.odd (length [3;1] * length [1;2] - length (common [3;1] [1;2]))))
  = (Some (-2), Some 2, -1)%Z.
Proof. vm_compute. reflexivity. Qed.

(* e312 = e3 e1 e2 through the spellings e3, e13, e312 *)
Example ex_chain : chain ex_metric [] [3;1;2] [[3]; [1;3]; [3;1;2]] = Some 1%Z.
Proof. vm_compute. reflexivity. Qed.

Example ex_chain_thm : chain ex_metric [] [3;1;2] [[3]; [1;3]; [3;1;2]] = Some 1%Z.
Proof.
  apply ordered_product_spellings; [repeat constructor; cbn; intuition lia | | reflexivity].
  cbn. repeat split; [apply Permutation_refl | apply perm_swap | apply Permutation_refl].
Qed.
