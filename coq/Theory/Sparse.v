(* Theory/Sparse.v — sparse multivectors (association lists key -> coefficient) over an ABSTRACT
   commutative ring: coefficient read-out [coeff], extensional equality [equiv], finite sums [rsum],
   and the dictionary helpers of the model (zassoc / zset / zin / todict / canon_sort) described
   through [coeff] and [keys].

   The ring is given by Section variables with a [ring_theory]; the operation record of the model
   is instantiated as  O := mkOps R radd rsub rmul ropp rO rI  (a local notation, so that after
   [End] every statement mentions the record literally and quantifies over all rings). *)
From Coq Require Import List ZArith Bool Ring Lia Permutation RelationClasses.
From KV Require Import Model.Codegen.
Import ListNotations.

(* ---------- ring-independent facts on zin / keys ---------- *)

Lemma zin_true_iff k l : zin k l = true <-> In k l.
Proof.
  unfold zin. rewrite existsb_exists. split.
  - intros [x [Hin E]]. apply Z.eqb_eq in E. subst x. exact Hin.
  - intros Hin. exists k. split; [exact Hin | apply Z.eqb_refl].
Qed.

Lemma zin_false_iff k l : zin k l = false <-> ~ In k l.
Proof.
  rewrite <- zin_true_iff. destruct (zin k l).
  - split; [discriminate | intros H; exfalso; apply H; reflexivity].
  - split; [intros _ H; discriminate | reflexivity].
Qed.

Lemma zin_cons k a l : zin k (a :: l) = Z.eqb k a || zin k l.
Proof. reflexivity. Qed.

Lemma zin_app k l1 l2 : zin k (l1 ++ l2) = zin k l1 || zin k l2.
Proof. unfold zin. apply existsb_app. Qed.

Lemma keys_app {V} (x y : list (Z * V)) : map fst (x ++ y) = map fst x ++ map fst y.
Proof. apply map_app. Qed.

Lemma NoDup_snoc {A} (l : list A) a : NoDup l -> ~ In a l -> NoDup (l ++ [a]).
Proof.
  intros Hl Ha. induction l as [|b l IH]; cbn [app].
  - constructor; [intros [] | constructor].
  - inversion Hl as [|? ? Hb Hl']; subst. constructor.
    + rewrite in_app_iff. cbn [In]. intros [H|[H|[]]].
      * apply Hb. exact H.
      * subst. apply Ha. left. reflexivity.
    + apply IH; [exact Hl' | intros H; apply Ha; right; exact H].
Qed.

Section Sparse.
  Variable R : Type.
  Variables (rO rI : R) (radd rmul rsub : R -> R -> R) (ropp : R -> R).
  Hypothesis Rth : ring_theory rO rI radd rmul rsub ropp (@eq R).
  Add Ring Rring : Rth.
  Local Notation O := (mkOps R radd rsub rmul ropp rO rI).
  Local Notation "a + b" := (radd a b).
  Local Notation "a * b" := (rmul a b).
  Local Notation "a - b" := (rsub a b).
  Local Notation "- a" := (ropp a).

  (* ---------- coeff ---------- *)

  Lemma coeff_nil K : coeff O K [] = rO.
  Proof. reflexivity. Qed.

  Lemma coeff_cons K k v (r : mv R) :
    coeff O K ((k, v) :: r) = if Z.eqb k K then v else coeff O K r.
  Proof. reflexivity. Qed.

  Lemma coeff_notin K (x : mv R) : ~ In K (keys x) -> coeff O K x = rO.
  Proof.
    induction x as [|[k v] r IH]; intros Hn.
    - reflexivity.
    - rewrite coeff_cons. destruct (Z.eqb k K) eqn:E.
      + apply Z.eqb_eq in E. subst k. exfalso. apply Hn. left. reflexivity.
      + apply IH. intros Hin. apply Hn. right. exact Hin.
  Qed.

  Lemma coeff_in K v (x : mv R) : NoDup (keys x) -> In (K, v) x -> coeff O K x = v.
  Proof.
    induction x as [|[k w] r IH]; intros Hnd Hin.
    - destruct Hin.
    - cbn [keys map fst] in Hnd. inversion Hnd as [|? ? Hk Hr]; subst.
      rewrite coeff_cons. destruct Hin as [E|Hin].
      + inversion E; subst. rewrite Z.eqb_refl. reflexivity.
      + destruct (Z.eqb k K) eqn:E.
        * apply Z.eqb_eq in E. subst k. exfalso. apply Hk.
          change (In (fst (K, v)) (map fst r)). apply in_map. exact Hin.
        * apply IH; assumption.
  Qed.

  Lemma coeff_app K (x y : mv R) :
    coeff O K (x ++ y) = if zin K (keys x) then coeff O K x else coeff O K y.
  Proof.
    induction x as [|[k v] r IH].
    - reflexivity.
    - cbn [app keys map fst]. rewrite !coeff_cons, zin_cons, (Z.eqb_sym K k).
      destruct (Z.eqb k K); [reflexivity | exact IH].
  Qed.

  (* reading through a key-preserving map on the values *)
  Lemma coeff_map_val (h : Z -> R -> R) K (x : mv R) :
    h K rO = rO ->
    coeff O K (map (fun kv => (fst kv, h (fst kv) (snd kv))) x) = h K (coeff O K x).
  Proof.
    intros Hh. induction x as [|[k v] r IH].
    - cbn [map]. rewrite coeff_nil. symmetry. exact Hh.
    - cbn [map fst snd]. rewrite !coeff_cons. destruct (Z.eqb k K) eqn:E.
      + apply Z.eqb_eq in E. subst k. reflexivity.
      + exact IH.
  Qed.

  (* reading through a map that also moves the keys by an injective function *)
  Lemma coeff_map_key_val (f : Z -> Z) (h : Z -> R -> R) k (x : mv R) :
    (forall a b, f a = f b -> a = b) -> h k rO = rO ->
    coeff O (f k) (map (fun kv => (f (fst kv), h (fst kv) (snd kv))) x) = h k (coeff O k x).
  Proof.
    intros Hf Hh. induction x as [|[k' v] r IH].
    - cbn [map]. rewrite coeff_nil. symmetry. exact Hh.
    - cbn [map fst snd]. rewrite !coeff_cons. destruct (Z.eqb k' k) eqn:E.
      + apply Z.eqb_eq in E. subst k'. rewrite Z.eqb_refl. reflexivity.
      + destruct (Z.eqb (f k') (f k)) eqn:E2.
        * apply Z.eqb_eq in E2. apply Hf in E2. subst k'. rewrite Z.eqb_refl in E. discriminate.
        * exact IH.
  Qed.

  (* ---------- extensional equality of sparse multivectors ---------- *)

  Definition equiv (x y : mv R) : Prop := forall K, coeff O K x = coeff O K y.
  Local Infix "==" := equiv (at level 70, no associativity).

  Lemma equiv_refl x : x == x.
  Proof. intros K. reflexivity. Qed.
  Lemma equiv_sym x y : x == y -> y == x.
  Proof. intros H K. symmetry. apply H. Qed.
  Lemma equiv_trans x y z : x == y -> y == z -> x == z.
  Proof. intros H1 H2 K. rewrite H1. apply H2. Qed.
  Lemma equiv_Equivalence : Equivalence equiv.
  Proof.
    split; [exact equiv_refl | exact equiv_sym | exact equiv_trans].
  Qed.

  (* ---------- finite sums ---------- *)

  Fixpoint rsum (l : list R) : R := match l with [] => rO | a :: r => a + rsum r end.

  Lemma rsum_app l1 l2 : rsum (l1 ++ l2) = rsum l1 + rsum l2.
  Proof.
    induction l1 as [|a l1 IH]; cbn [app rsum].
    - ring.
    - rewrite IH. ring.
  Qed.

  Lemma rsum_perm l1 l2 : Permutation l1 l2 -> rsum l1 = rsum l2.
  Proof.
    intros HP. induction HP as [| a l1 l2 _ IH | a b l | l1 l2 l3 _ IH1 _ IH2]; cbn [rsum].
    - reflexivity.
    - rewrite IH. reflexivity.
    - ring.
    - rewrite IH1. exact IH2.
  Qed.

  Lemma rsum_map_perm {A} (f : A -> R) l1 l2 :
    Permutation l1 l2 -> rsum (map f l1) = rsum (map f l2).
  Proof. intros HP. apply rsum_perm. apply Permutation_map. exact HP. Qed.

  Lemma rsum_zero l : (forall a, In a l -> a = rO) -> rsum l = rO.
  Proof.
    induction l as [|a l IH]; intros H; cbn [rsum].
    - reflexivity.
    - rewrite (H a (or_introl eq_refl)), IH.
      + ring.
      + intros b Hb. apply H. right. exact Hb.
  Qed.

  Lemma rsum_map_zero {A} (f : A -> R) l : (forall a, In a l -> f a = rO) -> rsum (map f l) = rO.
  Proof.
    intros H. apply rsum_zero. intros a Ha. apply in_map_iff in Ha.
    destruct Ha as [b [E Hb]]. subst a. apply H. exact Hb.
  Qed.

  Lemma rsum_map_ext {A} (f g : A -> R) l :
    (forall a, In a l -> f a = g a) -> rsum (map f l) = rsum (map g l).
  Proof.
    induction l as [|a l IH]; intros H; cbn [map rsum].
    - reflexivity.
    - rewrite (H a (or_introl eq_refl)), IH.
      + reflexivity.
      + intros b Hb. apply H. right. exact Hb.
  Qed.

  Lemma rsum_map_add {A} (f g : A -> R) l :
    rsum (map (fun a => f a + g a) l) = rsum (map f l) + rsum (map g l).
  Proof.
    induction l as [|a l IH]; cbn [map rsum].
    - ring.
    - rewrite IH. ring.
  Qed.

  Lemma rsum_map_sub {A} (f g : A -> R) l :
    rsum (map (fun a => f a - g a) l) = rsum (map f l) - rsum (map g l).
  Proof.
    induction l as [|a l IH]; cbn [map rsum].
    - ring.
    - rewrite IH. ring.
  Qed.

  Lemma rsum_map_opp {A} (f : A -> R) l :
    rsum (map (fun a => - f a) l) = - rsum (map f l).
  Proof.
    induction l as [|a l IH]; cbn [map rsum].
    - ring.
    - rewrite IH. ring.
  Qed.

  Lemma rsum_map_scal_l {A} c (f : A -> R) l :
    rsum (map (fun a => c * f a) l) = c * rsum (map f l).
  Proof.
    induction l as [|a l IH]; cbn [map rsum].
    - ring.
    - rewrite IH. ring.
  Qed.

  Lemma rsum_map_scal_r {A} c (f : A -> R) l :
    rsum (map (fun a => f a * c) l) = rsum (map f l) * c.
  Proof.
    induction l as [|a l IH]; cbn [map rsum].
    - ring.
    - rewrite IH. ring.
  Qed.

  Lemma rsum_flat_map {A B} (f : B -> R) (g : A -> list B) l :
    rsum (map f (flat_map g l)) = rsum (map (fun a => rsum (map f (g a))) l).
  Proof.
    induction l as [|a l IH]; cbn [flat_map map rsum].
    - reflexivity.
    - rewrite map_app, rsum_app, IH. reflexivity.
  Qed.

  (* a sum over a cartesian product is an iterated sum *)
  Lemma rsum_list_prod {A B} (f : A * B -> R) l1 l2 :
    rsum (map f (list_prod l1 l2))
    = rsum (map (fun a => rsum (map (fun b => f (a, b)) l2)) l1).
  Proof.
    induction l1 as [|a l1 IH]; cbn [list_prod map rsum].
    - reflexivity.
    - rewrite map_app, rsum_app, IH, map_map. reflexivity.
  Qed.

  (* exchange of two finite sums *)
  Lemma rsum_swap {A B} (f : A -> B -> R) l1 l2 :
    rsum (map (fun a => rsum (map (fun b => f a b) l2)) l1)
    = rsum (map (fun b => rsum (map (fun a => f a b) l1)) l2).
  Proof.
    induction l1 as [|a l1 IH]; cbn [map rsum].
    - symmetry. apply rsum_map_zero. intros b _. reflexivity.
    - rewrite IH, <- rsum_map_add. reflexivity.
  Qed.

  (* Kronecker delta under a sum over a duplicate-free list *)
  Lemma rsum_delta (f : Z -> R) k U :
    NoDup U ->
    rsum (map (fun k' => if Z.eqb k' k then f k' else rO) U) = if zin k U then f k else rO.
  Proof.
    induction U as [|a U IH]; intros HU; cbn [map rsum].
    - reflexivity.
    - inversion HU as [|? ? Ha HU']; subst. rewrite zin_cons, (Z.eqb_sym k a), (IH HU').
      destruct (Z.eqb a k) eqn:E; cbn [orb].
      + apply Z.eqb_eq in E. subst a.
        apply zin_false_iff in Ha. rewrite Ha. ring.
      + ring.
  Qed.

  (* THE finite-sum lemma: a sum over the stored entries of x is a sum over any duplicate-free
     superset U of its keys, reading the coefficients with [coeff] (absent = 0) *)
  Lemma rsum_universe (g : Z -> R -> R) (x : mv R) U :
    (forall k, g k rO = rO) -> NoDup (keys x) -> NoDup U -> incl (keys x) U ->
    rsum (map (fun kv => g (fst kv) (snd kv)) x) = rsum (map (fun k => g k (coeff O k x)) U).
  Proof.
    intros Hg. revert U. induction x as [|[k v] r IH]; intros U Hx HU Hincl.
    - cbn [map rsum]. symmetry. apply rsum_map_zero. intros k _. rewrite coeff_nil. apply Hg.
    - cbn [keys map fst] in Hx. inversion Hx as [|? ? Hk Hr]; subst.
      assert (HkU : In k U) by (apply Hincl; left; reflexivity).
      destruct (in_split _ _ HkU) as [U1 [U2 EU]]. subst U.
      assert (HP : Permutation (U1 ++ k :: U2) (k :: U1 ++ U2))
        by (symmetry; apply Permutation_middle).
      rewrite (rsum_map_perm _ _ _ HP).
      assert (HU' : NoDup (k :: U1 ++ U2)) by (eapply Permutation_NoDup; eauto).
      inversion HU' as [|? ? HkU' HU'']; subst.
      cbn [map rsum fst snd]. rewrite coeff_cons, Z.eqb_refl. f_equal.
      rewrite (IH (U1 ++ U2) Hr HU'').
      + apply rsum_map_ext. intros k' Hk'. rewrite coeff_cons.
        destruct (Z.eqb k k') eqn:E; [|reflexivity].
        apply Z.eqb_eq in E. subst k'. contradiction.
      + intros k' Hk'.
        assert (Hin : In k' (U1 ++ k :: U2)) by (apply Hincl; right; exact Hk').
        apply in_app_or in Hin. apply in_or_app. destruct Hin as [Hin|[Hin|Hin]].
        * left. exact Hin.
        * subst k'. contradiction.
        * right. exact Hin.
  Qed.

  (* two duplicate-free universes that both contain the support give the same sum *)
  Lemma rsum_universe_change (g : Z -> R -> R) (x : mv R) U U' :
    (forall k, g k rO = rO) -> NoDup (keys x) ->
    NoDup U -> incl (keys x) U -> NoDup U' -> incl (keys x) U' ->
    rsum (map (fun k => g k (coeff O k x)) U) = rsum (map (fun k => g k (coeff O k x)) U').
  Proof.
    intros Hg Hx HU Hi HU' Hi'.
    rewrite <- (rsum_universe g x U Hg Hx HU Hi). apply rsum_universe; assumption.
  Qed.

  (* the coefficient itself as a sum over the stored entries *)
  Lemma coeff_rsum K (x : mv R) :
    NoDup (keys x) ->
    coeff O K x = rsum (map (fun kv => if Z.eqb (fst kv) K then snd kv else rO) x).
  Proof.
    induction x as [|[k v] r IH]; intros Hx.
    - reflexivity.
    - cbn [keys map fst] in Hx. inversion Hx as [|? ? Hk Hr]; subst.
      cbn [map rsum fst snd]. rewrite coeff_cons. destruct (Z.eqb k K) eqn:E.
      + apply Z.eqb_eq in E. subst k. rewrite <- (IH Hr), (coeff_notin K r Hk). ring.
      + rewrite <- (IH Hr). ring.
  Qed.

  (* ---------- zassoc / zset / todict ---------- *)

  Lemma zassoc_some_coeff k v (d : mv R) : zassoc k d = Some v -> coeff O k d = v.
  Proof.
    induction d as [|[k' w] r IH]; cbn [zassoc]; intros H.
    - discriminate.
    - rewrite coeff_cons. destruct (Z.eqb k' k).
      + inversion H. reflexivity.
      + apply IH. exact H.
  Qed.

  Lemma zassoc_none_notin {V} k (d : list (Z * V)) : zassoc k d = None <-> ~ In k (map fst d).
  Proof.
    induction d as [|[k' w] r IH]; cbn [zassoc map fst].
    - split; [intros _ H; destruct H | reflexivity].
    - destruct (Z.eqb k' k) eqn:E.
      + apply Z.eqb_eq in E. subst k'. split; [discriminate|].
        intros H. exfalso. apply H. left. reflexivity.
      + apply Z.eqb_neq in E. rewrite IH. split.
        * intros H [H'|H']; [apply E; exact H' | apply H; exact H'].
        * intros H H'. apply H. right. exact H'.
  Qed.

  Lemma zassoc_none_coeff k (d : mv R) : zassoc k d = None -> coeff O k d = rO.
  Proof. intros H. apply coeff_notin. apply zassoc_none_notin. exact H. Qed.

  Lemma zassoc_some_in {V} k (v : V) d : zassoc k d = Some v -> In (k, v) d.
  Proof.
    induction d as [|[k' w] r IH]; cbn [zassoc]; intros H.
    - discriminate.
    - destruct (Z.eqb k' k) eqn:E.
      + apply Z.eqb_eq in E. inversion H. subst. left. reflexivity.
      + right. apply IH. exact H.
  Qed.

  Lemma zassoc_zin {V} k (d : list (Z * V)) :
    zin k (map fst d) = match zassoc k d with Some _ => true | None => false end.
  Proof.
    induction d as [|[k' w] r IH]; cbn [zassoc map fst].
    - reflexivity.
    - rewrite zin_cons, (Z.eqb_sym k k'). destruct (Z.eqb k' k); [reflexivity | exact IH].
  Qed.

  Lemma zassoc_coeff k (d : mv R) :
    zassoc k d = if zin k (keys d) then Some (coeff O k d) else None.
  Proof.
    destruct (zassoc k d) as [v|] eqn:E.
    - rewrite (zassoc_some_coeff _ _ _ E).
      assert (Hin : In k (keys d)).
      { change k with (fst (k, v)). apply in_map. apply zassoc_some_in. exact E. }
      apply zin_true_iff in Hin. rewrite Hin. reflexivity.
    - apply zassoc_none_notin in E. apply zin_false_iff in E. unfold keys. rewrite E. reflexivity.
  Qed.

  Lemma coeff_zset K k v (d : mv R) :
    coeff O K (zset k v d) = if Z.eqb k K then v else coeff O K d.
  Proof.
    induction d as [|[k' w] r IH]; cbn [zset].
    - rewrite coeff_cons, coeff_nil. reflexivity.
    - destruct (Z.eqb k' k) eqn:E; rewrite !coeff_cons.
      + apply Z.eqb_eq in E. subst k'. destruct (Z.eqb k K); reflexivity.
      + rewrite IH. destruct (Z.eqb k' K) eqn:E2; [|reflexivity].
        apply Z.eqb_eq in E2. subst k'. rewrite Z.eqb_sym, E. reflexivity.
  Qed.

  Lemma keys_zset {V} k (v : V) d :
    map fst (zset k v d) = if zin k (map fst d) then map fst d else map fst d ++ [k].
  Proof.
    induction d as [|[k' w] r IH]; cbn [zset map fst].
    - reflexivity.
    - rewrite zin_cons, (Z.eqb_sym k k'). destruct (Z.eqb k' k) eqn:E; cbn [orb map fst].
      + reflexivity.
      + rewrite IH. destruct (zin k (map fst r)); reflexivity.
  Qed.

  Lemma in_keys_zset {V} K k (v : V) d :
    In K (map fst (zset k v d)) <-> K = k \/ In K (map fst d).
  Proof.
    rewrite keys_zset. destruct (zin k (map fst d)) eqn:E.
    - apply zin_true_iff in E. split.
      + intros H. right. exact H.
      + intros [H|H]; [subst K; exact E | exact H].
    - rewrite in_app_iff. cbn [In]. split.
      + intros [H|[H|[]]]; [right; exact H | left; symmetry; exact H].
      + intros [H|H]; [right; left; symmetry; exact H | left; exact H].
  Qed.

  Lemma NoDup_keys_zset {V} k (v : V) d : NoDup (map fst d) -> NoDup (map fst (zset k v d)).
  Proof.
    intros Hd. rewrite keys_zset. destruct (zin k (map fst d)) eqn:E.
    - exact Hd.
    - apply zin_false_iff in E. apply NoDup_snoc; assumption.
  Qed.

  Lemma zset_notin {V} k (v : V) d : ~ In k (map fst d) -> zset k v d = d ++ [(k, v)].
  Proof.
    induction d as [|[k' w] r IH]; cbn [zset map fst app]; intros Hn.
    - reflexivity.
    - destruct (Z.eqb k' k) eqn:E.
      + apply Z.eqb_eq in E. subst k'. exfalso. apply Hn. left. reflexivity.
      + rewrite IH; [reflexivity|]. intros H. apply Hn. right. exact H.
  Qed.

  Lemma todict_fold_nodup (x d : mv R) :
    NoDup (keys (d ++ x)) -> fold_left (fun d kv => zset (fst kv) (snd kv) d) x d = d ++ x.
  Proof.
    revert d. induction x as [|[k v] r IH]; intros d Hnd; cbn [fold_left fst snd].
    - rewrite app_nil_r. reflexivity.
    - assert (Hk : ~ In k (keys d)).
      { unfold keys in *. rewrite map_app in Hnd. cbn [map fst] in Hnd.
        apply NoDup_remove_2 in Hnd. intros H. apply Hnd. apply in_or_app. left. exact H. }
      rewrite (zset_notin k v d Hk), IH.
      + rewrite <- app_assoc. reflexivity.
      + rewrite <- app_assoc. exact Hnd.
  Qed.

  (* dict(x.items()) is x itself when the keys of x are distinct *)
  Lemma todict_nodup (x : mv R) : NoDup (keys x) -> todict x = x.
  Proof. intros H. unfold todict. rewrite todict_fold_nodup; [reflexivity | exact H]. Qed.

  Lemma todict_fold_keys (x d : mv R) :
    NoDup (keys d) ->
    NoDup (keys (fold_left (fun d kv => zset (fst kv) (snd kv) d) x d))
    /\ (forall K, In K (keys (fold_left (fun d kv => zset (fst kv) (snd kv) d) x d))
                  <-> In K (keys d) \/ In K (keys x)).
  Proof.
    revert d. induction x as [|[k v] r IH]; intros d Hd; cbn [fold_left fst snd].
    - split; [exact Hd|]. intros K. cbn [keys map In]. tauto.
    - destruct (IH (zset k v d) (NoDup_keys_zset k v d Hd)) as [H1 H2]. split; [exact H1|].
      intros K. rewrite H2. unfold keys at 1. rewrite in_keys_zset. cbn [keys map fst In].
      split.
      + intros [[H|H]|H]; [right; left; symmetry; exact H | left; exact H | right; right; exact H].
      + intros [H|[H|H]]; [left; right; exact H | left; left; symmetry; exact H | right; exact H].
  Qed.

  Lemma NoDup_keys_todict (x : mv R) : NoDup (keys (todict x)).
  Proof. apply (todict_fold_keys x []). constructor. Qed.

  Lemma in_keys_todict K (x : mv R) : In K (keys (todict x)) <-> In K (keys x).
  Proof.
    unfold todict. destruct (todict_fold_keys x [] (NoDup_nil _)) as [_ H]. rewrite H.
    cbn [keys map In]. tauto.
  Qed.

  (* ---------- canon_sort (the re-sort of do_codegen) ---------- *)

  (* generic in the list of canonical keys *)
  Definition sort_by (L : list Z) (d : mv R) : mv R :=
    flat_map (fun k => match zassoc k d with Some v => [(k, v)] | None => [] end) L.

  Lemma canon_sort_sort_by A (d : mv R) : canon_sort A d = sort_by (canon_keys A) d.
  Proof. reflexivity. Qed.

  Lemma coeff_sort_by L (d : mv R) K :
    coeff O K (sort_by L d) = if zin K L then coeff O K d else rO.
  Proof.
    induction L as [|k L IH]; cbn [sort_by flat_map].
    - reflexivity.
    - fold (sort_by L d). rewrite zin_cons, (Z.eqb_sym K k).
      destruct (zassoc k d) as [v|] eqn:Ez.
      + cbn [app]. rewrite coeff_cons. destruct (Z.eqb k K) eqn:E; cbn [orb].
        * apply Z.eqb_eq in E. subst k. symmetry. apply zassoc_some_coeff. exact Ez.
        * exact IH.
      + cbn [app]. rewrite IH. destruct (Z.eqb k K) eqn:E; cbn [orb]; [|reflexivity].
        apply Z.eqb_eq in E. subst k. rewrite (zassoc_none_coeff _ _ Ez).
        destruct (zin K L); reflexivity.
  Qed.

  Lemma keys_sort_by L (d : mv R) :
    keys (sort_by L d) = filter (fun k => zin k (keys d)) L.
  Proof.
    induction L as [|k L IH]; cbn [sort_by flat_map filter].
    - reflexivity.
    - fold (sort_by L d). unfold keys in *. rewrite map_app, IH, zassoc_zin.
      destruct (zassoc k d); reflexivity.
  Qed.

  (* no hypothesis on the algebra is needed for the coefficients *)
  Lemma coeff_canon_sort A (d : mv R) K :
    coeff O K (canon_sort A d) = if zin K (canon_keys A) then coeff O K d else rO.
  Proof. apply coeff_sort_by. Qed.

  Lemma coeff_canon_sort_in A (d : mv R) K :
    In K (canon_keys A) -> coeff O K (canon_sort A d) = coeff O K d.
  Proof. intros H. rewrite coeff_canon_sort. apply zin_true_iff in H. rewrite H. reflexivity. Qed.

  Lemma coeff_canon_sort_notin A (d : mv R) K :
    ~ In K (canon_keys A) -> coeff O K (canon_sort A d) = rO.
  Proof. intros H. rewrite coeff_canon_sort. apply zin_false_iff in H. rewrite H. reflexivity. Qed.

  Lemma keys_canon_sort A (d : mv R) :
    keys (canon_sort A d) = filter (fun k => zin k (keys d)) (canon_keys A).
  Proof. apply keys_sort_by. Qed.

  Lemma in_keys_canon_sort A (d : mv R) K :
    In K (keys (canon_sort A d)) <-> In K (canon_keys A) /\ In K (keys d).
  Proof. rewrite keys_canon_sort, filter_In, zin_true_iff. reflexivity. Qed.

  Lemma keys_canon_sort_incl A (d : mv R) : incl (keys (canon_sort A d)) (canon_keys A).
  Proof. intros K H. apply in_keys_canon_sort in H. apply H. Qed.

  Lemma NoDup_keys_canon_sort A (d : mv R) :
    NoDup (canon_keys A) -> NoDup (keys (canon_sort A d)).
  Proof. intros H. rewrite keys_canon_sort. apply NoDup_filter. exact H. Qed.

  (* re-sorting loses nothing when all stored keys are canonical keys of the algebra *)
  Lemma canon_sort_equiv A (d : mv R) : incl (keys d) (canon_keys A) -> canon_sort A d == d.
  Proof.
    intros Hi K. rewrite coeff_canon_sort. destruct (zin K (canon_keys A)) eqn:E; [reflexivity|].
    apply zin_false_iff in E. symmetry. apply coeff_notin. intros H. apply E. apply Hi. exact H.
  Qed.

  Lemma canon_sort_congr A (d d' : mv R) : d == d' -> canon_sort A d == canon_sort A d'.
  Proof. intros H K. rewrite !coeff_canon_sort, (H K). reflexivity. Qed.

End Sparse.

Arguments equiv {R} rO rI radd rmul rsub ropp x y.
Arguments rsum {R} rO radd l.
Arguments sort_by {R} L d.
