(* Theory/Relabel.v — C14: a custom basis is a pure relabelling.

   For two well-formed algebras A (custom) and D (intended: the default-basis algebra) with the same
   signature list and start index, the map
       phi (e_I of A)  :=  the ORDERED PRODUCT, taken in D, of the generators of A's spelling of I
                        =  phi_sign A D I * e_(phi_key A D I) of D
   is an isomorphism of the two sign tables (Section 2), hence of all the generated operators on
   sparse multivectors over any commutative ring (Section 3).  The statements are symmetric in A, D:
   nothing uses that D has the default basis.

   1. one algebra: the ordered product of ANY duplicate-free spelling, in closed form
      (name_fold_closed), and the accessor clause (_blade2canon);
   2. two algebras: phi_key is a grade-preserving bijection of [0, 2^d) commuting with xor, phi_sign
      is +-1, and  phi_sign I * phi_sign J * sgn D (phi I) (phi J) = sgn A I J * phi_sign (I xor J);
   3. multivectors: relabel commutes with gp, op, ip, lc, rc, sp, cp, acp, add, sub, neg, the three
      involutions, grade selection; with hodge, unhodge, polarity, unpolarity, rp up to the
      orientation o = phi_sign (pss_key A) of the custom pseudoscalar;
   4. a concrete custom basis where phi_sign = -1 occurs, all pairs evaluated. *)
From Coq Require Import List ZArith Bool Ring Lia Permutation Btauto.
From KV Require Import Model.All Theory.WF Theory.Words Theory.Sign Theory.Bits Theory.Sparse Theory.Product
  Theory.Ops Theory.SignBits Theory.OpsWF.
Import ListNotations.
Local Open Scope Z_scope.

(* ====================================================================================== *)
(** * 0. Definitions *)

(* key of a spelling: the OR of the generator keys (the fold of _blade2canon) *)
Definition name_key (A : alg) (n : name) : Z := fold_left (fun acc g => Z.lor acc (genbit A g)) n 0.
(* the ordered product e_g1 e_g2 .. e_gk through the sign table: (accumulated sign, key) *)
Definition name_fold (A : alg) (n : name) : Z * Z :=
  fold_left (fun '(s, k) g => (s * sgn A k (genbit A g), Z.lxor k (genbit A g))) n (1, 0).
Definition name_sign (A : alg) (n : name) : Z := fst (name_fold A n).

(* phi on basis blades: e_I of A  |->  phi_sign A D I * e_(phi_key A D I) of D *)
Definition phi_key (A D : alg) (I : Z) : Z := name_key D (nm A I).
Definition phi_sign (A D : alg) (I : Z) : Z := name_sign D (nm A I).

(* ====================================================================================== *)
(** * 1. One well-formed algebra: ordered products of arbitrary spellings *)

Lemma inv2_nil : inv2 [] = false.
Proof. reflexivity. Qed.

Lemma testbit_fold_lor (f : nat -> Z) (n : name) : forall acc k,
  Z.testbit (fold_left (fun a g => Z.lor a (f g)) n acc) k
  = Z.testbit acc k || existsb (fun g => Z.testbit (f g) k) n.
Proof.
  induction n as [|g n IH]; intros acc k; cbn [fold_left existsb].
  - rewrite orb_false_r. reflexivity.
  - rewrite IH, Z.lor_spec, orb_assoc. reflexivity.
Qed.

Lemma common_perm2 a a' b b' : NoDup b -> Permutation a a' -> Permutation b b' ->
  Permutation (common a b) (common a' b').
Proof.
  intros Nb Pa Pb. apply NoDup_Permutation.
  - unfold common. apply NoDup_filter. exact Nb.
  - unfold common. apply NoDup_filter. apply (Permutation_NoDup Pb Nb).
  - intros g. rewrite !In_common'. split; intros [H1 H2]; split.
    + apply (Permutation_in g Pa H1).
    + apply (Permutation_in g Pb H2).
    + apply (Permutation_in g (Permutation_sym Pa) H1).
    + apply (Permutation_in g (Permutation_sym Pb) H2).
Qed.

Section OneAlg.
Variable A : alg.
Hypothesis Hwf : wf_alg A = true.
Local Notation vecs := (alg_vecs A).
Local Notation L := (alg_len A).
Local Notation pos := (gpos A).
Local Notation d := (Z.of_nat (a_d A)).

(* the generator digits are exactly start .. start + d - 1 *)
Lemma in_vecs_iff g : In g vecs <-> a_start A <= Z.of_nat g /\ Z.of_nat g - a_start A < d.
Proof.
  split; [apply (wf_vecs_range A Hwf)|]. intros [Hlo Hhi].
  destruct (sig_positions_covered A Hwf (Z.to_nat (Z.of_nat g - a_start A))) as (g' & Hg' & E); [lia|].
  pose proof (wf_vecs_range A Hwf g' Hg') as [Hlo' Hhi'].
  assert (g' = g) by lia. subst g'. exact Hg'.
Qed.

Lemma name_key_bits n k : 0 <= k -> (forall g, In g n -> In g vecs) ->
  (Z.testbit (name_key A n) k = true <-> exists g, In g n /\ k = pos g).
Proof.
  intros Hk Hv. unfold name_key. rewrite testbit_fold_lor, Z.bits_0. cbn [orb].
  rewrite existsb_exists. split; intros (g & Hg & Hb); exists g; (split; [exact Hg|]).
  - destruct (genbit_spec A Hwf g (Hv g Hg)) as (E & _ & _). rewrite E in Hb.
    rewrite pow2_bit in Hb by (apply (gpos_range A Hwf); apply Hv; exact Hg).
    apply Z.eqb_eq in Hb. auto.
  - destruct (genbit_spec A Hwf g (Hv g Hg)) as (E & _ & _). rewrite E.
    rewrite pow2_bit by (apply (gpos_range A Hwf); apply Hv; exact Hg).
    apply Z.eqb_eq. auto.
Qed.

(* THE ordered product of a duplicate-free spelling n of generators of A: its key is name_key A n, the
   table's own spelling of that key is a permutation of n, and the sign is the parity of that
   permutation (difference of the inversion parities) *)
Theorem name_fold_closed n : NoDup n -> (forall g, In g n -> In g vecs) ->
  0 <= name_key A n < L /\
  Permutation n (nm A (name_key A n)) /\
  name_fold A n = (par (xorb (inv2 n) (inv2 (nm A (name_key A n)))), name_key A n).
Proof.
  intros Nn Hv. pose proof (alg_len_pos A) as HL.
  assert (H0 : 0 <= 0 < L) by lia.
  assert (Hp0 : Permutation [] (nm A 0)) by (rewrite (nm_0 A Hwf); constructor).
  destruct (partials_spec A Hwf n [] 0 Nn Hv H0 Hp0) as (Hsp & Hr & Hfin). cbn [app] in Hfin.
  set (K := last (partials A 0 n) 0) in *.
  assert (HK : K = name_key A n).
  { apply Z.bits_inj'. intros k Hk. apply bool_eq_of_iff.
    rewrite (name_bits A Hwf K _ (nm_spec A Hwf K Hr)), (name_key_bits n k Hk Hv).
    split; intros (g & Hg & E); exists g; (split; [|exact E]).
    - apply (Permutation_in g (Permutation_sym Hfin) Hg).
    - apply (Permutation_in g Hfin Hg). }
  rewrite <- HK. split; [exact Hr|]. split; [exact Hfin|].
  pose proof (chain_gen (metric A) n [] [] _ Nn (perm_nil _) Hsp) as Hch.
  assert (Hlast : last (map (nm A) (partials A 0 n)) [] = nm A K).
  { rewrite <- (nm_0 A Hwf) at 1. rewrite last_map. reflexivity. }
  rewrite Hlast in Hch. cbn [app] in Hch. rewrite inv2_nil in Hch.
  rewrite <- (nm_0 A Hwf) in Hch at 1.
  unfold name_fold. change (fold_left (op_step A) n (1, 0) = (par (xorb (inv2 n) (inv2 (nm A K))), K)).
  rewrite (fold_chain A Hwf n 0 1 _ H0 Hv Hch). fold K. f_equal.
  rewrite Z.mul_1_l. f_equal. destruct (inv2 (nm A K)), (inv2 n); reflexivity.
Qed.

Corollary name_sign_closed n : NoDup n -> (forall g, In g n -> In g vecs) ->
  name_sign A n = par (xorb (inv2 n) (inv2 (nm A (name_key A n)))).
Proof.
  intros Nn Hv. destruct (name_fold_closed n Nn Hv) as (_ & _ & E). unfold name_sign. rewrite E. reflexivity.
Qed.

Corollary name_fold_key n : NoDup n -> (forall g, In g n -> In g vecs) ->
  name_fold A n = (name_sign A n, name_key A n).
Proof.
  intros Nn Hv. destruct (name_fold_closed n Nn Hv) as (_ & _ & E). unfold name_sign. rewrite E. reflexivity.
Qed.

Corollary name_sign_unit n : NoDup n -> (forall g, In g n -> In g vecs) ->
  name_sign A n = 1 \/ name_sign A n = -1.
Proof. intros Nn Hv. rewrite (name_sign_closed n Nn Hv). apply par_unit. Qed.

(* on the table's own spellings: key and sign +1 *)
Lemma name_key_nm I : 0 <= I < L -> name_key A (nm A I) = I /\ name_sign A (nm A I) = 1.
Proof.
  intros HI. pose proof (nm_spec A Hwf I HI) as E.
  pose proof (sgn_ordered_product A Hwf I _ E) as Hop. fold (name_fold A (nm A I)) in Hop.
  rewrite (name_fold_key (nm A I) (bin2canon_NoDup A Hwf I _ E)
             (fun g Hg => name_in_vecs A Hwf I _ g E Hg)) in Hop.
  injection Hop as H1 H2. auto.
Qed.

(* ---------- the accessor clause: _blade2canon ---------- *)
(* a blade spelled with ANY duplicate-free sequence n of generators: _blade2canon finds the table's
   spelling c of the same generator set and a swap count sw such that the ordered product of n is
   (-1)^sw e_c; when n is itself in the table, c = n and sw = 0 *)
Theorem blade2canon_spec n : NoDup n -> (forall g, In g n -> In g vecs) ->
  exists c sw K,
    blade2canon A n = (Some c, sw) /\ canon2bin A c = Some K /\ bin2canon A K = Some c /\
    Permutation n c /\ name_fold A n = (par (Z.odd sw), K).
Proof.
  intros Nn Hv. unfold blade2canon. destruct (canon2bin A n) as [B|] eqn:Ec.
  - assert (Hin : In (n, B) (a_c2b A)) by (apply find_by_name_In; exact Ec).
    destruct (c2b_entry_spec A Hwf n B Hin) as (HB & Hb & Hc & _).
    exists n, 0, B. split; [reflexivity|]. split; [exact Hc|]. split; [exact Hb|].
    split; [apply Permutation_refl|]. apply (sgn_ordered_product A Hwf B n Hb).
  - destruct (name_fold_closed n Nn Hv) as (HK & Hp & Hf).
    change (fold_left (fun acc g => Z.lor acc (gen_bin A g)) n 0) with (name_key A n).
    set (K := name_key A n) in *. pose proof (nm_spec A Hwf K HK) as Eb. rewrite Eb.
    set (c := nm A K) in *.
    assert (Hsd : Permutation (sdiff n []) c).
    { unfold sdiff. cbn [filter]. rewrite app_nil_r, filter_all; [exact Hp|]. intros; reflexivity. }
    destruct (swap_blades_closed n [] c Nn (NoDup_nil _) Hsd) as (sw & Hrun & Hodd).
    rewrite Hrun. exists c, sw, K. split; [reflexivity|].
    split; [apply (entry_canon2bin A Hwf); apply (bin2canon_entry A); exact Eb|].
    split; [exact Eb|]. split; [exact Hp|]. rewrite Hf, Hodd, app_nil_r. reflexivity.
Qed.

End OneAlg.

(* ====================================================================================== *)
(** * 2. Two well-formed algebras with the same signature and start index *)

Lemma same_metric A D : a_sig A = a_sig D -> a_start A = a_start D -> forall g, metric A g = metric D g.
Proof. intros Hs Ht g. unfold metric, sig_at. rewrite Hs, Ht. reflexivity. Qed.

Lemma same_dim A D : wf_alg A = true -> wf_alg D = true -> a_sig A = a_sig D -> a_d A = a_d D.
Proof. intros HA HD Hs. rewrite <- (wf_sig_len A HA), <- (wf_sig_len D HD), Hs. reflexivity. Qed.

Lemma same_vecs A D : wf_alg A = true -> wf_alg D = true -> a_sig A = a_sig D -> a_start A = a_start D ->
  forall g, In g (alg_vecs A) <-> In g (alg_vecs D).
Proof.
  intros HA HD Hs Ht g. rewrite (in_vecs_iff A HA), (in_vecs_iff D HD), Ht, (same_dim A D HA HD Hs). reflexivity.
Qed.

Section TwoAlg.
Variables A D : alg.
Hypothesis HA : wf_alg A = true.
Hypothesis HD : wf_alg D = true.
Hypothesis Hsig : a_sig A = a_sig D.
Hypothesis Hstart : a_start A = a_start D.
Local Notation LA := (alg_len A).
Local Notation LD := (alg_len D).
Local Notation phi := (phi_key A D).
Local Notation eps := (phi_sign A D).

Lemma same_len : LA = LD.
Proof using HA HD Hsig. unfold alg_len. rewrite (same_dim A D HA HD Hsig). reflexivity. Qed.

Lemma nmA_in_vecsD I : 0 <= I < LA -> forall g, In g (nm A I) -> In g (alg_vecs D).
Proof using HA HD Hsig Hstart.
  intros HI g Hg. apply (same_vecs A D HA HD Hsig Hstart).
  apply (name_in_vecs A HA I _ g (nm_spec A HA I HI) Hg).
Qed.

(* phi on one blade, in closed form *)
Theorem phi_spec I : 0 <= I < LA ->
  0 <= phi I < LD /\
  Permutation (nm A I) (nm D (phi I)) /\
  eps I = par (xorb (inv2 (nm A I)) (inv2 (nm D (phi I)))) /\
  name_fold D (nm A I) = (eps I, phi I).
Proof using HA HD Hsig Hstart.
  intros HI. pose proof (bin2canon_NoDup A HA I _ (nm_spec A HA I HI)) as Nn.
  destruct (name_fold_closed D HD (nm A I) Nn (nmA_in_vecsD I HI)) as (H1 & H2 & H3).
  unfold phi_key, phi_sign, name_sign. rewrite H3. auto.
Qed.

Lemma phi_range I : 0 <= I < LA -> 0 <= phi I < LD.
Proof using HA HD Hsig Hstart. intros HI. apply (phi_spec I HI). Qed.

Lemma phi_perm I : 0 <= I < LA -> Permutation (nm A I) (nm D (phi I)).
Proof using HA HD Hsig Hstart. intros HI. apply (phi_spec I HI). Qed.

Theorem phi_sign_unit I : 0 <= I < LA -> eps I = 1 \/ eps I = -1.
Proof using HA HD Hsig Hstart. intros HI. destruct (phi_spec I HI) as (_ & _ & -> & _). apply par_unit. Qed.

Lemma phi_sign_sq I : 0 <= I < LA -> eps I * eps I = 1.
Proof using HA HD Hsig Hstart. intros HI. destruct (phi_sign_unit I HI) as [-> | ->]; reflexivity. Qed.

(* phi_key preserves the grade *)
Theorem phi_popcount I : 0 <= I < LA -> popcount (phi I) = popcount I.
Proof using HA HD Hsig Hstart.
  intros HI. rewrite <- (name_length A HA I _ (nm_spec A HA I HI)).
  rewrite <- (name_length D HD (phi I) _ (nm_spec D HD _ (phi_range I HI))).
  rewrite (Permutation_length (phi_perm I HI)). reflexivity.
Qed.

(* phi_key is a homomorphism for xor *)
Theorem phi_lxor I J : 0 <= I < LA -> 0 <= J < LA -> phi (Z.lxor I J) = Z.lxor (phi I) (phi J).
Proof using HA HD Hsig Hstart.
  intros HI HJ. pose proof (lxor_range A I J HI HJ) as HIJ.
  pose proof (phi_range I HI) as RI. pose proof (phi_range J HJ) as RJ. pose proof (phi_range _ HIJ) as RIJ.
  pose proof (lxor_range D _ _ RI RJ) as RX.
  apply (key_ext D HD _ _ _ _ (nm_spec D HD _ RIJ) (nm_spec D HD _ RX)). intros g.
  pose proof (name_lxor A HA I J _ _ _ (nm_spec A HA I HI) (nm_spec A HA J HJ) (nm_spec A HA _ HIJ)) as PA.
  pose proof (name_lxor D HD _ _ _ _ _ (nm_spec D HD _ RI) (nm_spec D HD _ RJ) (nm_spec D HD _ RX)) as PD.
  pose proof (phi_perm I HI) as PI. pose proof (phi_perm J HJ) as PJ. pose proof (phi_perm _ HIJ) as PIJ.
  assert (EI : forall x, In x (nm A I) <-> In x (nm D (phi I))).
  { intros x. split; apply Permutation_in; [exact PI | apply Permutation_sym; exact PI]. }
  assert (EJ : forall x, In x (nm A J) <-> In x (nm D (phi J))).
  { intros x. split; apply Permutation_in; [exact PJ | apply Permutation_sym; exact PJ]. }
  split; intros Hg.
  - apply (Permutation_in g PD). apply In_sdiff. rewrite <- !EI, <- !EJ. apply In_sdiff.
    apply (Permutation_in g (Permutation_sym PA)). apply (Permutation_in g (Permutation_sym PIJ)). exact Hg.
  - apply (Permutation_in g PIJ). apply (Permutation_in g PA). apply In_sdiff. rewrite !EI, !EJ. apply In_sdiff.
    apply (Permutation_in g (Permutation_sym PD)). exact Hg.
Qed.

Lemma phi_0 : phi 0 = 0 /\ eps 0 = 1.
Proof using HA. unfold phi_key, phi_sign. rewrite (nm_0 A HA). split; reflexivity. Qed.

(* THE TABLE ISOMORPHISM:  phi(e_I) phi(e_J) = phi(e_I e_J)  on signed basis blades *)
Theorem table_iso I J : 0 <= I < LA -> 0 <= J < LA ->
  eps I * eps J * sgn D (phi I) (phi J) = sgn A I J * eps (Z.lxor I J).
Proof using HA HD Hsig Hstart.
  intros HI HJ. pose proof (lxor_range A I J HI HJ) as HIJ.
  pose proof (phi_range I HI) as RI. pose proof (phi_range J HJ) as RJ. pose proof (phi_range _ HIJ) as RIJ.
  pose proof (nm_spec A HA I HI) as EI. pose proof (nm_spec A HA J HJ) as EJ. pose proof (nm_spec A HA _ HIJ) as EIJ.
  pose proof (nm_spec D HD _ RI) as FI. pose proof (nm_spec D HD _ RJ) as FJ. pose proof (nm_spec D HD _ RIJ) as FIJ.
  rewrite (phi_lxor I J HI HJ) in FIJ.
  pose proof (phi_perm I HI) as PI. pose proof (phi_perm J HJ) as PJ.
  destruct (phi_spec I HI) as (_ & _ & SI & _). destruct (phi_spec J HJ) as (_ & _ & SJ & _).
  destruct (phi_spec _ HIJ) as (_ & _ & SIJ & _). rewrite (phi_lxor I J HI HJ) in SIJ.
  set (aI := nm A I) in *. set (aJ := nm A J) in *. set (aIJ := nm A (Z.lxor I J)) in *.
  set (dI := nm D (phi I)) in *. set (dJ := nm D (phi J)) in *. set (dIJ := nm D (Z.lxor (phi I) (phi J))) in *.
  pose proof (bin2canon_NoDup A HA _ _ EI) as NaI. pose proof (bin2canon_NoDup A HA _ _ EJ) as NaJ.
  pose proof (bin2canon_NoDup D HD _ _ FI) as NdI. pose proof (bin2canon_NoDup D HD _ _ FJ) as NdJ.
  pose proof (sgn_table A HA I J _ _ _ EI EJ EIJ) as TA.
  rewrite (sgn_names_closed _ aI aJ aIJ NaI NaJ (name_lxor A HA I J _ _ _ EI EJ EIJ)) in TA.
  pose proof (sgn_table D HD _ _ _ _ _ FI FJ FIJ) as TD.
  rewrite (sgn_names_closed _ dI dJ dIJ NdI NdJ (name_lxor D HD _ _ _ _ _ FI FJ FIJ)) in TD.
  injection TA as TA. injection TD as TD. rewrite <- TA, <- TD, SI, SJ, SIJ.
  assert (EM : mprod (metric D) (common dI dJ) = mprod (metric A) (common aI aJ)).
  { rewrite !mprod_zprod. rewrite (zprod_perm _ _ _ (common_perm2 aI dI aJ dJ NaJ PI PJ)).
    apply zprod_ext_in. intros g _. symmetry. apply (same_metric A D Hsig Hstart). }
  rewrite EM, !inv2_app, <- (cross_perm_l aI dI dJ PI), <- (cross_perm_r aI aJ dJ PJ).
  set (M := mprod (metric A) (common aI aJ)).
  destruct (inv2 aI), (inv2 aJ), (inv2 aIJ), (inv2 dI), (inv2 dJ), (inv2 dIJ), (cross aI aJ);
    cbn [xorb par]; ring.
Qed.

End TwoAlg.

(* the inverse map is phi in the other direction: phi_key is a bijection of [0, 2^d) *)
Section Inverse.
Variables A D : alg.
Hypothesis HA : wf_alg A = true.
Hypothesis HD : wf_alg D = true.
Hypothesis Hsig : a_sig A = a_sig D.
Hypothesis Hstart : a_start A = a_start D.

Theorem phi_inv I : 0 <= I < alg_len A ->
  phi_key D A (phi_key A D I) = I /\ phi_sign D A (phi_key A D I) = phi_sign A D I.
Proof using HA HD Hsig Hstart.
  intros HI. pose proof (phi_range A D HA HD Hsig Hstart I HI) as RI.
  pose proof (phi_range D A HD HA (eq_sym Hsig) (eq_sym Hstart) _ RI) as RII.
  pose proof (phi_perm A D HA HD Hsig Hstart I HI) as P1.
  pose proof (phi_perm D A HD HA (eq_sym Hsig) (eq_sym Hstart) _ RI) as P2.
  assert (E : phi_key D A (phi_key A D I) = I).
  { apply (key_ext A HA _ _ _ _ (nm_spec A HA _ RII) (nm_spec A HA I HI)). intros g. split; intros Hg.
    - apply (Permutation_in g (Permutation_sym P1)). apply (Permutation_in g (Permutation_sym P2)). exact Hg.
    - apply (Permutation_in g P2). apply (Permutation_in g P1). exact Hg. }
  split; [exact E|].
  destruct (phi_spec A D HA HD Hsig Hstart I HI) as (_ & _ & -> & _).
  destruct (phi_spec D A HD HA (eq_sym Hsig) (eq_sym Hstart) _ RI) as (_ & _ & -> & _).
  rewrite E. f_equal. apply xorb_comm.
Qed.

Theorem phi_inj I J : 0 <= I < alg_len A -> 0 <= J < alg_len A -> phi_key A D I = phi_key A D J -> I = J.
Proof using HA HD Hsig Hstart.
  intros HI HJ E. destruct (phi_inv I HI) as [<- _]. destruct (phi_inv J HJ) as [<- _]. rewrite E. reflexivity.
Qed.

(* the custom pseudoscalar goes to the pseudoscalar *)
Theorem phi_pss : phi_key A D (pss_key A) = pss_key D.
Proof using HA HD Hsig Hstart.
  pose proof (alg_len_pos A) as LP. assert (HP : 0 <= pss_key A < alg_len A) by (unfold pss_key; lia).
  pose proof (phi_range A D HA HD Hsig Hstart _ HP) as RP.
  pose proof (phi_popcount A D HA HD Hsig Hstart _ HP) as Hpc.
  pose proof (same_dim A D HA HD Hsig) as Hd.
  unfold pss_key, alg_len in *. rewrite <- Hd in *.
  set (d := Z.of_nat (a_d A)) in *. assert (Hd0 : 0 <= d) by (unfold d; lia).
  rewrite (popcount_ones d Hd0) in Hpc.
  pose proof (popcount_ones_sub d (phi_key A D (2 ^ d - 1)) Hd0 ltac:(lia)) as Hc.
  rewrite Hpc, Z.sub_diag in Hc. apply popcount_eq_0 in Hc. lia.
Qed.

End Inverse.

(* ---------- consequences used by the operator theorems ---------- *)
Section TwoAlg2.
Variables A D : alg.
Hypothesis HA : wf_alg A = true.
Hypothesis HD : wf_alg D = true.
Hypothesis Hsig : a_sig A = a_sig D.
Hypothesis Hstart : a_start A = a_start D.
Local Notation LA := (alg_len A).
Local Notation LD := (alg_len D).
Local Notation phi := (phi_key A D).
Local Notation eps := (phi_sign A D).
Local Notation pA := (pss_key A).
Local Notation pD := (pss_key D).

Let Hrange := phi_range A D HA HD Hsig Hstart.
Let Hunit := phi_sign_unit A D HA HD Hsig Hstart.

Lemma phi_surj K' : 0 <= K' < LD -> exists K, 0 <= K < LA /\ phi K = K'.
Proof using HA HD Hsig Hstart.
  intros HK. exists (phi_key D A K'). split.
  - apply (phi_range D A HD HA (eq_sym Hsig) (eq_sym Hstart) K' HK).
  - apply (phi_inv D A HD HA (eq_sym Hsig) (eq_sym Hstart) K' HK).
Qed.

Lemma phi_eqb a b : 0 <= a < LA -> 0 <= b < LA -> Z.eqb (phi a) (phi b) = Z.eqb a b.
Proof using HA HD Hsig Hstart.
  intros Ha Hb. apply bool_eq_of_iff. rewrite !Z.eqb_eq. split.
  - apply (phi_inj A D HA HD Hsig Hstart a b Ha Hb).
  - intros ->. reflexivity.
Qed.

(* the sign table of D on the images, solved for sgn D *)
Lemma table_solved I J : 0 <= I < LA -> 0 <= J < LA ->
  sgn D (phi I) (phi J) = eps I * eps J * eps (Z.lxor I J) * sgn A I J.
Proof using HA HD Hsig Hstart.
  intros HI HJ. pose proof (table_iso A D HA HD Hsig Hstart I J HI HJ) as H.
  destruct (Hunit I HI) as [E1|E1], (Hunit J HJ) as [E2|E2],
           (Hunit _ (lxor_range A I J HI HJ)) as [E3|E3]; rewrite E1, E2, E3 in *; lia.
Qed.

Lemma phi_compl K : 0 <= K < LA -> phi (pA - K) = pD - phi K.
Proof using HA HD Hsig Hstart.
  intros HK. rewrite <- (lxor_pss_r A K HK), (phi_lxor A D HA HD Hsig Hstart K pA HK (inr_p A)).
  rewrite (phi_pss A D HA HD Hsig Hstart). apply (lxor_pss_r D). apply Hrange. exact HK.
Qed.

Lemma phi_grade_sel (sel : Z -> Z -> Z -> bool) a b : 0 <= a < LA -> 0 <= b < LA ->
  sel (grade (phi a)) (grade (phi b)) (grade (Z.lxor (phi a) (phi b)))
  = sel (grade a) (grade b) (grade (Z.lxor a b)).
Proof using HA HD Hsig Hstart.
  intros Ha Hb. unfold grade. rewrite <- (phi_lxor A D HA HD Hsig Hstart a b Ha Hb).
  rewrite !(phi_popcount A D HA HD Hsig Hstart) by (try apply lxor_range; assumption). reflexivity.
Qed.

Lemma filter_cp_phi a b ko ko' : 0 <= a < LA -> 0 <= b < LA ->
  filter_cp (sgn D) (phi a) (phi b) ko' = filter_cp (sgn A) a b ko /\
  filter_acp (sgn D) (phi a) (phi b) ko' = filter_acp (sgn A) a b ko.
Proof using HA HD Hsig Hstart.
  intros Ha Hb. unfold filter_cp, filter_acp.
  rewrite (table_solved a b Ha Hb), (table_solved b a Hb Ha), (Z.lxor_comm b a).
  destruct (Hunit a Ha) as [E1|E1], (Hunit b Hb) as [E2|E2],
           (Hunit _ (lxor_range A a b Ha Hb)) as [E3|E3]; rewrite E1, E2, E3;
    split; f_equal; apply bool_eq_of_iff; rewrite !Z.eqb_eq; lia.
Qed.

Lemma sgn_pss_same : sgn D pD pD = sgn A pA pA.
Proof using HA HD Hsig Hstart.
  pose proof (table_solved pA pA (inr_p A) (inr_p A)) as H.
  rewrite (phi_pss A D HA HD Hsig Hstart), Z.lxor_nilpotent in H.
  destruct (phi_0 A D HA) as [_ E0]. rewrite E0 in H.
  destruct (Hunit pA (inr_p A)) as [E|E]; rewrite E in H; lia.
Qed.

(* the sign of the regressive product: the four table entries pick up the orientation of the
   pseudoscalar three times (odd), every other orientation sign twice *)
Lemma sign_rp_phi a b : 0 <= a < LA -> 0 <= b < LA ->
  eps a * eps b * sign_rp (sgn D) LD (phi a) (phi b)
  = eps pA * sign_rp (sgn A) LA a b * eps (keyout_rp LA a b).
Proof using HA HD Hsig Hstart.
  intros Ha Hb. pose proof (lxor_range A a b Ha Hb) as Hab.
  unfold sign_rp, keyout_rp. cbv zeta. change (LD - 1) with pD. change (LA - 1) with pA.
  pose proof (phi_lxor A D HA HD Hsig Hstart a b Ha Hb) as Ex. rewrite <- Ex.
  rewrite <- !phi_compl by assumption.
  rewrite !table_solved by (try apply inr_compl; assumption).
  rewrite (lxor_compl A a Ha), (lxor_compl A b Hb), (lxor_compl_compl A a b Ha Hb).
  rewrite (Z.lxor_comm (pA - Z.lxor a b)), (lxor_compl A _ Hab).
  destruct (Hunit a Ha) as [E1|E1], (Hunit b Hb) as [E2|E2], (Hunit _ Hab) as [E3|E3],
           (Hunit pA (inr_p A)) as [E4|E4], (Hunit _ (inr_compl A a Ha)) as [E5|E5],
           (Hunit _ (inr_compl A b Hb)) as [E6|E6], (Hunit _ (inr_compl A _ Hab)) as [E7|E7];
    rewrite E1, E2, E3, E4, E5, E6, E7; ring.
Qed.

End TwoAlg2.

(* ====================================================================================== *)
(** * 3. Sparse multivectors over any commutative ring *)

Section Multivectors.
  Variable R : Type.
  Variables (rO rI : R) (radd rmul rsub : R -> R -> R) (ropp : R -> R).
  Hypothesis Rth : ring_theory rO rI radd rmul rsub ropp (@eq R).
  Add Ring Rring : Rth.
  Local Notation O := (mkOps R radd rsub rmul ropp rO rI).
  Local Notation "a + b" := (radd a b) : kvr_scope.
  Local Notation "a * b" := (rmul a b) : kvr_scope.
  Local Notation "a - b" := (rsub a b) : kvr_scope.
  Local Notation "- a" := (ropp a) : kvr_scope.
  Local Notation rsum := (Sparse.rsum rO radd).
  Local Notation equiv := (Sparse.equiv rO rI radd rmul rsub ropp).
  Local Infix "==" := equiv (at level 70, no associativity).
  Local Notation contrib := (Product.contrib rO rmul ropp).
  Local Notation sg := (Ops.sg rO rI ropp).

  Variables A D : alg.
  Hypothesis HA : wf_alg A = true.
  Hypothesis HD : wf_alg D = true.
  Hypothesis Hsig : a_sig A = a_sig D.
  Hypothesis Hstart : a_start A = a_start D.
  Local Notation LA := (alg_len A).
  Local Notation LD := (alg_len D).
  Local Notation phi := (phi_key A D).
  Local Notation eps := (phi_sign A D).
  Local Notation pA := (pss_key A).
  Local Notation pD := (pss_key D).
  Local Notation shA := (wf_sign_hyps A HA).
  Local Notation shD := (wf_sign_hyps D HD).
  Local Notation HkA := (sh_keys A shA).
  Local Notation HkD := (sh_keys D shD).
  Local Notation HnA := (sh_nodup A shA).
  Local Notation HnD := (sh_nodup D shD).
  Local Notation Hrange := (phi_range A D HA HD Hsig Hstart).
  Local Notation Hunit := (phi_sign_unit A D HA HD Hsig Hstart).

  (* phi extended linearly: every stored blade is replaced by the ordered product of its generators *)
  Definition relabel (x : mv R) : mv R :=
    map (fun kv => (phi (fst kv), (sg (eps (fst kv)) * snd kv)%r)) x.
  (* multiplication by a scalar of the ring *)
  Definition mscal (c : R) (x : mv R) : mv R := map (fun kv => (fst kv, (c * snd kv)%r)) x.

  Lemma keys_relabel x : keys (relabel x) = map phi (keys x).
  Proof. apply (keys_map_key_val R phi (fun k v => (sg (eps k) * v)%r)). Qed.

  Lemma keys_mscal c x : keys (mscal c x) = keys x.
  Proof. apply (keys_map_val R (fun _ v => (c * v)%r)). Qed.

  Lemma wfmv_relabel x : wfmv A x -> wfmv D (relabel x).
  Proof.
    intros [Hnd Hr]. split; rewrite keys_relabel.
    - apply NoDup_map_inj_in; [|exact Hnd]. intros a b Ha Hb E.
      apply (phi_inj A D HA HD Hsig Hstart a b (Hr a Ha) (Hr b Hb) E).
    - intros k Hk. apply in_map_iff in Hk. destruct Hk as (a & <- & Ha). apply Hrange. apply Hr. exact Ha.
  Qed.

  Lemma wfmv_mscal B c x : wfmv B x -> wfmv B (mscal c x).
  Proof. unfold wfmv. rewrite keys_mscal. auto. Qed.

  Lemma coeff_mscal c x K : coeff O K (mscal c x) = (c * coeff O K x)%r.
  Proof. apply (coeff_map_val R rO rI radd rmul rsub ropp (fun _ v => (c * v)%r)). ring. Qed.

  Lemma mscal_one x : mscal (sg 1) x == x.
  Proof. intros K. rewrite coeff_mscal. change (sg 1) with rI. ring. Qed.

  (* reading the relabelled multivector at the image of a key *)
  Lemma coeff_relabel x K : wfmv A x -> 0 <= K < LA ->
    coeff O (phi K) (relabel x) = (sg (eps K) * coeff O K x)%r.
  Proof.
    intros [_ Hr] HK. induction x as [|[k v] r IH].
    - cbn [relabel map]. rewrite !coeff_nil. ring.
    - cbn [relabel map fst snd]. rewrite !coeff_cons.
      assert (Hk : 0 <= k < LA) by (apply Hr; left; reflexivity).
      rewrite (phi_eqb A D HA HD Hsig Hstart k K Hk HK). destruct (Z.eqb k K) eqn:E.
      + apply Z.eqb_eq in E. subst k. reflexivity.
      + apply IH. intros k' Hk'. apply Hr. right. exact Hk'.
  Qed.

  (* the criterion used for every operator: compare coefficient by coefficient along phi *)
  Lemma relabel_by_coeff (u v : mv R) : wfmv A u -> wfmv D v ->
    (forall K, 0 <= K < LA -> (sg (eps K) * coeff O K u)%r = coeff O (phi K) v) ->
    relabel u == v.
  Proof.
    intros Hu Hv H. apply (equiv_inrange R rO rI radd rmul rsub ropp D); [apply wfmv_relabel; exact Hu | exact Hv |].
    intros K' HK'. destruct (phi_surj A D HA HD Hsig Hstart K' HK') as (K & HK & <-).
    rewrite (coeff_relabel u K Hu HK). apply H. exact HK.
  Qed.

  (* the keys of D are the images of the keys of A: re-indexing of sums *)
  Lemma canon_keys_phi : Permutation (map phi (canon_keys A)) (canon_keys D).
  Proof.
    apply NoDup_Permutation.
    - apply NoDup_map_inj_in; [|exact HnA]. intros a b Ha Hb E.
      apply (phi_inj A D HA HD Hsig Hstart a b); [apply HkA; exact Ha | apply HkA; exact Hb | exact E].
    - exact HnD.
    - intros k. rewrite in_map_iff. split.
      + intros (a & <- & Ha). apply HkD. apply Hrange. apply HkA. exact Ha.
      + intros Hk. apply HkD in Hk. destruct (phi_surj A D HA HD Hsig Hstart k Hk) as (a & Ha & <-).
        exists a. split; [reflexivity | apply HkA; exact Ha].
  Qed.

  Lemma rsum_reindex (F : Z -> R) :
    rsum (map F (canon_keys D)) = rsum (map (fun a => F (phi a)) (canon_keys A)).
  Proof.
    rewrite <- (rsum_map_perm R rO rI radd rmul rsub ropp Rth F _ _ canon_keys_phi), map_map. reflexivity.
  Qed.

  Lemma rsum_reindex2 (h : Z -> Z -> R) :
    rsum (map (fun a' => rsum (map (fun b' => h a' b') (canon_keys D))) (canon_keys D))
    = rsum (map (fun a => rsum (map (fun b => h (phi a) (phi b)) (canon_keys A))) (canon_keys A)).
  Proof.
    rewrite (rsum_reindex (fun a' => rsum (map (fun b' => h a' b') (canon_keys D)))).
    apply rsum_map_ext. intros a _. apply (rsum_reindex (fun b' => h (phi a) b')).
  Qed.

  (* ---------- THE generic product theorem ---------- *)
  (* two generated products (sign function, filter, output key) that correspond under phi up to a
     constant sign c correspond on multivectors up to c *)
  Section GenericProduct.
    Variables (sfA sfD : Z -> Z -> Z) (fA fD : option (Z -> Z -> Z -> bool)) (koA koD : Z -> Z -> Z) (c : Z).
    Hypothesis Hc : c = 1 \/ c = -1.
    Hypothesis Hko : forall a b, 0 <= a < LA -> 0 <= b < LA ->
      0 <= koA a b < LA /\ koD (phi a) (phi b) = phi (koA a b).
    Hypothesis Hf : forall a b, 0 <= a < LA -> 0 <= b < LA ->
      accepts fD (phi a) (phi b) (koD (phi a) (phi b)) = accepts fA a b (koA a b).
    Hypothesis Hs : forall a b, 0 <= a < LA -> 0 <= b < LA ->
      eps a * eps b * sfD (phi a) (phi b) = c * sfA a b * eps (koA a b).

    Lemma term_phi a b K xa yb : 0 <= a < LA -> 0 <= b < LA -> 0 <= K < LA ->
      (sg (eps K) * contrib sfA fA koA K ((a, xa), (b, yb)))%r
      = (sg c * contrib sfD fD koD (phi K) ((phi a, (sg (eps a) * xa)%r), (phi b, (sg (eps b) * yb)%r)))%r.
    Proof using Rth HA HD Hsig Hstart Hc Hko Hf Hs.
      intros Ha Hb HK. rewrite !(contrib_sg R rO rI radd rmul rsub ropp Rth).
      destruct (Hko a b Ha Hb) as [Hr Ek]. rewrite (Hf a b Ha Hb), Ek.
      rewrite (phi_eqb A D HA HD Hsig Hstart _ K Hr HK).
      destruct (accepts fA a b (koA a b)); cbn [andb]; [|ring].
      destruct (Z.eqb (koA a b) K) eqn:E; [|ring]. apply Z.eqb_eq in E.
      transitivity (sg (eps K * sfA a b) * (xa * yb))%r.
      { rewrite (sg_mul R rO rI radd rmul rsub ropp Rth). ring. }
      transitivity (sg (c * (eps a * eps b * sfD (phi a) (phi b))) * (xa * yb))%r.
      { f_equal. f_equal. rewrite (Hs a b Ha Hb), E. destruct Hc as [-> | ->]; ring. }
      rewrite !(sg_mul R rO rI radd rmul rsub ropp Rth). ring.
    Qed.

    Theorem relabel_product (x y : mv R) : wfmv A x -> wfmv A y ->
      relabel (canon_sort A (codegen_product O sfA fA koA x y))
      == mscal (sg c) (canon_sort D (codegen_product O sfD fD koD (relabel x) (relabel y))).
    Proof using Rth HA HD Hsig Hstart Hc Hko Hf Hs.
      intros Hx Hy. apply relabel_by_coeff.
      - apply (wfmv_canon_sort R A HkA HnA).
      - apply wfmv_mscal. apply (wfmv_canon_sort R D HkD HnD).
      - intros K HK. rewrite coeff_mscal.
        rewrite (sorted_coeff_U R rO rI radd rmul rsub ropp Rth A HkA HnA _ _ _ x y K Hx Hy HK).
        rewrite (sorted_coeff_U R rO rI radd rmul rsub ropp Rth D HkD HnD _ _ _ _ _ (phi K)
                   (wfmv_relabel x Hx) (wfmv_relabel y Hy) (Hrange K HK)).
        rewrite (rsum_reindex2 (fun a' b' => contrib sfD fD koD (phi K)
                   ((a', coeff O a' (relabel x)), (b', coeff O b' (relabel y))))).
        rewrite !(scal_rsum2 R rO rI radd rmul rsub ropp Rth).
        apply (rsum_U_ext R rO radd A HkA). intros a b Ha Hb.
        rewrite (coeff_relabel x a Hx Ha), (coeff_relabel y b Hy Hb).
        apply term_phi; assumption.
    Qed.
  End GenericProduct.

  (* ---------- the geometric product and the filtered products ---------- *)
  Lemma relabel_filtered (fA fD : option (Z -> Z -> Z -> bool)) (x y : mv R) :
    (forall a b, 0 <= a < LA -> 0 <= b < LA ->
       accepts fD (phi a) (phi b) (Z.lxor (phi a) (phi b)) = accepts fA a b (Z.lxor a b)) ->
    wfmv A x -> wfmv A y ->
    relabel (canon_sort A (codegen_product O (sgn A) fA Z.lxor x y))
    == canon_sort D (codegen_product O (sgn D) fD Z.lxor (relabel x) (relabel y)).
  Proof.
    intros Hf Hx Hy.
    eapply (equiv_trans R rO rI radd rmul rsub ropp); [|apply mscal_one].
    apply (relabel_product (sgn A) (sgn D) fA fD Z.lxor Z.lxor 1); try assumption.
    - left. reflexivity.
    - intros a b Ha Hb. split; [apply (lxor_range A a b Ha Hb)|].
      symmetry. apply (phi_lxor A D HA HD Hsig Hstart a b Ha Hb).
    - intros a b Ha Hb. rewrite (table_iso A D HA HD Hsig Hstart a b Ha Hb). ring.
  Qed.

  Theorem relabel_gp (x y : mv R) : wfmv A x -> wfmv A y ->
    relabel (gp O A x y) == gp O D (relabel x) (relabel y).
  Proof. apply (relabel_filtered None None). intros; reflexivity. Qed.

  Lemma relabel_graded f sel (x y : mv R) :
    (forall kx ky, 0 <= kx -> 0 <= ky ->
       f kx ky (Z.lxor kx ky) = sel (grade kx) (grade ky) (grade (Z.lxor kx ky))) ->
    wfmv A x -> wfmv A y ->
    relabel (canon_sort A (codegen_product O (sgn A) (Some f) Z.lxor x y))
    == canon_sort D (codegen_product O (sgn D) (Some f) Z.lxor (relabel x) (relabel y)).
  Proof.
    intros Hsel. apply (relabel_filtered (Some f) (Some f)). intros a b Ha Hb. cbn [accepts].
    pose proof (Hrange a Ha). pose proof (Hrange b Hb).
    rewrite !Hsel by lia. apply (phi_grade_sel A D HA HD Hsig Hstart sel a b Ha Hb).
  Qed.

  Theorem relabel_op (x y : mv R) : wfmv A x -> wfmv A y ->
    relabel (op O A x y) == op O D (relabel x) (relabel y).
  Proof. apply (relabel_graded filter_op sel_op). exact filter_op_sel. Qed.
  Theorem relabel_ip (x y : mv R) : wfmv A x -> wfmv A y ->
    relabel (ip O A x y) == ip O D (relabel x) (relabel y).
  Proof. apply (relabel_graded filter_ip sel_ip). exact filter_ip_sel. Qed.
  Theorem relabel_lc (x y : mv R) : wfmv A x -> wfmv A y ->
    relabel (lc O A x y) == lc O D (relabel x) (relabel y).
  Proof. apply (relabel_graded filter_lc sel_lc). exact filter_lc_sel. Qed.
  Theorem relabel_rc (x y : mv R) : wfmv A x -> wfmv A y ->
    relabel (rc O A x y) == rc O D (relabel x) (relabel y).
  Proof. apply (relabel_graded filter_rc sel_rc). exact filter_rc_sel. Qed.
  Theorem relabel_sp (x y : mv R) : wfmv A x -> wfmv A y ->
    relabel (sp O A x y) == sp O D (relabel x) (relabel y).
  Proof. apply (relabel_graded filter_sp sel_sp). exact filter_sp_sel. Qed.

  Theorem relabel_cp (x y : mv R) : wfmv A x -> wfmv A y ->
    relabel (cp O A x y) == cp O D (relabel x) (relabel y).
  Proof.
    apply (relabel_filtered (Some (filter_cp (sgn A))) (Some (filter_cp (sgn D)))).
    intros a b Ha Hb. cbn [accepts]. apply (filter_cp_phi A D HA HD Hsig Hstart a b _ _ Ha Hb).
  Qed.
  Theorem relabel_acp (x y : mv R) : wfmv A x -> wfmv A y ->
    relabel (acp O A x y) == acp O D (relabel x) (relabel y).
  Proof.
    apply (relabel_filtered (Some (filter_acp (sgn A))) (Some (filter_acp (sgn D)))).
    intros a b Ha Hb. cbn [accepts]. apply (filter_cp_phi A D HA HD Hsig Hstart a b _ _ Ha Hb).
  Qed.

  (* ---------- sum, difference, negation, involutions ---------- *)
  Theorem relabel_add (x y : mv R) : wfmv A x -> wfmv A y ->
    relabel (add O A x y) == add O D (relabel x) (relabel y).
  Proof.
    intros Hx Hy. pose proof (wfmv_relabel x Hx) as Hx'. pose proof (wfmv_relabel y Hy) as Hy'.
    apply relabel_by_coeff; [apply (wfmv_canon_sort R A HkA HnA) | apply (wfmv_canon_sort R D HkD HnD) |].
    intros K HK.
    rewrite (add_coeff R rO rI radd rmul rsub ropp Rth A x y K (proj2 (HkA K) HK) (proj1 Hx) (proj1 Hy)).
    rewrite (add_coeff R rO rI radd rmul rsub ropp Rth D _ _ _ (proj2 (HkD _) (Hrange K HK)) (proj1 Hx') (proj1 Hy')).
    rewrite (coeff_relabel x K Hx HK), (coeff_relabel y K Hy HK). ring.
  Qed.

  Theorem relabel_sub (x y : mv R) : wfmv A x -> wfmv A y ->
    relabel (sub O A x y) == sub O D (relabel x) (relabel y).
  Proof.
    intros Hx Hy. pose proof (wfmv_relabel x Hx) as Hx'. pose proof (wfmv_relabel y Hy) as Hy'.
    apply relabel_by_coeff; [apply (wfmv_canon_sort R A HkA HnA) | apply (wfmv_canon_sort R D HkD HnD) |].
    intros K HK.
    rewrite (sub_coeff R rO rI radd rmul rsub ropp Rth A x y K (proj2 (HkA K) HK) (proj1 Hx) (proj1 Hy)).
    rewrite (sub_coeff R rO rI radd rmul rsub ropp Rth D _ _ _ (proj2 (HkD _) (Hrange K HK)) (proj1 Hx') (proj1 Hy')).
    rewrite (coeff_relabel x K Hx HK), (coeff_relabel y K Hy HK). ring.
  Qed.

  Theorem relabel_neg (x : mv R) : wfmv A x -> relabel (neg O A x) == neg O D (relabel x).
  Proof.
    intros Hx. pose proof (wfmv_relabel x Hx) as Hx'.
    apply relabel_by_coeff; [apply (wfmv_canon_sort R A HkA HnA) | apply (wfmv_canon_sort R D HkD HnD) |].
    intros K HK.
    rewrite (neg_coeff R rO rI radd rmul rsub ropp Rth A x K (proj2 (HkA K) HK) (proj1 Hx)).
    rewrite (neg_coeff R rO rI radd rmul rsub ropp Rth D _ _ (proj2 (HkD _) (Hrange K HK)) (proj1 Hx')).
    rewrite (coeff_relabel x K Hx HK). ring.
  Qed.

  Lemma relabel_involution g (x : mv R) : wfmv A x ->
    relabel (canon_sort A (raw_involution O g x)) == canon_sort D (raw_involution O g (relabel x)).
  Proof.
    intros Hx. pose proof (wfmv_relabel x Hx) as Hx'.
    apply relabel_by_coeff; [apply (wfmv_canon_sort R A HkA HnA) | apply (wfmv_canon_sort R D HkD HnD) |].
    intros K HK.
    rewrite (inv_coeff R rO rI radd rmul rsub ropp Rth A HkA g x K (proj1 Hx) HK).
    rewrite (inv_coeff R rO rI radd rmul rsub ropp Rth D HkD g _ _ (proj1 Hx') (Hrange K HK)).
    rewrite (coeff_relabel x K Hx HK). unfold involution_flips.
    rewrite (phi_popcount A D HA HD Hsig Hstart K HK).
    destruct (existsb _ g); unfold fl; ring.
  Qed.

  Theorem relabel_reverse (x : mv R) : wfmv A x -> relabel (reverse O A x) == reverse O D (relabel x).
  Proof. apply (relabel_involution grades_reverse). Qed.
  Theorem relabel_involute (x : mv R) : wfmv A x -> relabel (involute O A x) == involute O D (relabel x).
  Proof. apply (relabel_involution grades_involute). Qed.
  Theorem relabel_conjugate (x : mv R) : wfmv A x -> relabel (conjugate O A x) == conjugate O D (relabel x).
  Proof. apply (relabel_involution grades_conjugate). Qed.

  (* ---------- grade selection ---------- *)
  Lemma drop_zin (b : bool) K (z : mv R) :
    (if b && zin K (keys z) then coeff O K z else rO) = (if b then coeff O K z else rO).
  Proof.
    destruct b; cbn [andb]; [|reflexivity]. destruct (zin K (keys z)) eqn:E; [reflexivity|].
    apply zin_false_iff in E. symmetry. apply (coeff_notin R rO rI radd rmul rsub ropp K z E).
  Qed.

  Lemma grades_ok_same grades : grades_ok D grades = grades_ok A grades.
  Proof. unfold grades_ok. rewrite (same_dim A D HA HD Hsig). reflexivity. Qed.

  (* same failure (grades not strictly increasing within 0..d), and the selected parts correspond *)
  Theorem relabel_grade_sel grades (x : mv R) : wfmv A x ->
    match grade_sel O A grades x with
    | Ok r => exists r', grade_sel O D grades (relabel x) = Ok r' /\ relabel r == r'
    | Err e => grade_sel O D grades (relabel x) = Err e
    end.
  Proof.
    intros Hx. pose proof (wfmv_relabel x Hx) as Hx'. pose proof (grades_ok_same grades) as Eok.
    destruct (grades_ok A grades) eqn:EA.
    - pose proof (grade_sel_ok R rO rI radd rmul rsub ropp A grades x EA) as SA.
      pose proof (grade_sel_ok R rO rI radd rmul rsub ropp D grades (relabel x) Eok) as SD.
      rewrite SA. eexists. split; [exact SD|].
      apply relabel_by_coeff.
      + apply (grade_sel_wf R rO rI radd rmul rsub ropp A HkA HnA (sh_grade A shA) grades x _ SA Hx).
      + apply (grade_sel_wf R rO rI radd rmul rsub ropp D HkD HnD (sh_grade D shD) grades _ _ SD Hx').
      + intros K HK.
        rewrite (grade_sel_coeff R rO rI radd rmul rsub ropp A HkA (sh_grade A shA) grades x _ K SA HK).
        rewrite (grade_sel_coeff R rO rI radd rmul rsub ropp D HkD (sh_grade D shD) grades _ _ _ SD (Hrange K HK)).
        rewrite !drop_zin, (coeff_relabel x K Hx HK). unfold grade_in, grade.
        rewrite (phi_popcount A D HA HD Hsig Hstart K HK).
        destruct (existsb _ grades); ring.
    - assert (SA : grade_sel O A grades x = Err EKey)
        by (apply (grade_sel_err R rO rI radd rmul rsub ropp A grades x); exact EA).
      rewrite SA. apply (grade_sel_err R rO rI radd rmul rsub ropp D grades (relabel x)). exact Eok.
  Qed.

  (* ---------- the dual-type operators: up to the orientation of the custom pseudoscalar ---------- *)
  (* o = phi_sign (pss_key A): the ordered product of the generators of the custom pseudoscalar's
     spelling is o times the pseudoscalar of D *)
  Local Notation o := (eps pA).

  Lemma sg_eq (z1 z2 : Z) (v : R) : z1 = z2 -> (sg z1 * v)%r = (sg z2 * v)%r.
  Proof. intros ->. reflexivity. Qed.

  Theorem relabel_hodge (x : mv R) : wfmv A x ->
    relabel (hodge O A x) == mscal (sg o) (hodge O D (relabel x)).
  Proof.
    intros Hx. pose proof (wfmv_relabel x Hx) as Hx'.
    apply relabel_by_coeff; [apply (wfmv_canon_sort R A HkA HnA) | apply wfmv_mscal; apply (wfmv_canon_sort R D HkD HnD) |].
    intros K HK. pose proof (inr_compl A K HK) as HC. rewrite coeff_mscal.
    rewrite (hodge_at_sg R rO rI radd rmul rsub ropp Rth A HkA (sh_disj A shA) x K (proj1 Hx) HK).
    rewrite (hodge_at_sg R rO rI radd rmul rsub ropp Rth D HkD (sh_disj D shD) _ _ (proj1 Hx') (Hrange K HK)).
    rewrite <- (phi_compl A D HA HD Hsig Hstart K HK), (coeff_relabel x _ Hx HC).
    rewrite (table_solved A D HA HD Hsig Hstart _ K HC HK), (Z.lxor_comm (pA - K) K), (lxor_compl A K HK).
    set (v := coeff O (pA - K) x). set (sA := sgn A (pA - K) K).
    transitivity (sg (eps K * sA) * v)%r; [rewrite !(sg_mul R rO rI radd rmul rsub ropp Rth); ring|].
    transitivity (sg (o * (eps (pA - K) * eps K * o * sA) * eps (pA - K)) * v)%r;
      [|rewrite !(sg_mul R rO rI radd rmul rsub ropp Rth); ring].
    apply sg_eq. destruct (Hunit _ HC) as [E1|E1], (Hunit pA (inr_p A)) as [E2|E2]; rewrite E1, E2; ring.
  Qed.

  Theorem relabel_unhodge (x : mv R) : wfmv A x ->
    relabel (unhodge O A x) == mscal (sg o) (unhodge O D (relabel x)).
  Proof.
    intros Hx. pose proof (wfmv_relabel x Hx) as Hx'.
    apply relabel_by_coeff; [apply (wfmv_canon_sort R A HkA HnA) | apply wfmv_mscal; apply (wfmv_canon_sort R D HkD HnD) |].
    intros K HK. pose proof (inr_compl A K HK) as HC. rewrite coeff_mscal.
    rewrite (unhodge_at_sg R rO rI radd rmul rsub ropp Rth A HkA (sh_disj A shA) x K (proj1 Hx) HK).
    rewrite (unhodge_at_sg R rO rI radd rmul rsub ropp Rth D HkD (sh_disj D shD) _ _ (proj1 Hx') (Hrange K HK)).
    rewrite <- (phi_compl A D HA HD Hsig Hstart K HK), (coeff_relabel x _ Hx HC).
    rewrite (table_solved A D HA HD Hsig Hstart K _ HK HC), (lxor_compl A K HK).
    set (v := coeff O (pA - K) x). set (sA := sgn A K (pA - K)).
    transitivity (sg (eps K * sA) * v)%r; [rewrite !(sg_mul R rO rI radd rmul rsub ropp Rth); ring|].
    transitivity (sg (o * (eps K * eps (pA - K) * o * sA) * eps (pA - K)) * v)%r;
      [|rewrite !(sg_mul R rO rI radd rmul rsub ropp Rth); ring].
    apply sg_eq. destruct (Hunit _ HC) as [E1|E1], (Hunit pA (inr_p A)) as [E2|E2]; rewrite E1, E2; ring.
  Qed.

  (* right multiplication by (a multiple of) the pseudoscalar *)
  Lemma relabel_gp_pss (x : mv R) c K : wfmv A x -> 0 <= K < LA ->
    (sg (eps K) * coeff O K (gp O A x [(pA, c)]))%r
    = (sg o * coeff O (phi K) (gp O D (relabel x) [(pD, c)]))%r.
  Proof.
    intros Hx HK. pose proof (wfmv_relabel x Hx) as Hx'. pose proof (inr_compl A K HK) as HC.
    rewrite (gp_blade_pss R rO rI radd rmul rsub ropp Rth A HkA x c K Hx HK).
    rewrite (gp_blade_pss R rO rI radd rmul rsub ropp Rth D HkD _ c _ Hx' (Hrange K HK)).
    rewrite <- (phi_compl A D HA HD Hsig Hstart K HK), (coeff_relabel x _ Hx HC).
    rewrite <- (phi_pss A D HA HD Hsig Hstart) at 1.
    rewrite (table_solved A D HA HD Hsig Hstart _ pA HC (inr_p A)), (lxor_pss_r A _ HC), (compl_compl A K).
    set (v := coeff O (pA - K) x). set (sA := sgn A (pA - K) pA).
    transitivity (sg (eps K * sA) * (v * c))%r; [rewrite !(sg_mul R rO rI radd rmul rsub ropp Rth); ring|].
    transitivity (sg (o * (eps (pA - K) * o * eps K * sA) * eps (pA - K)) * (v * c))%r;
      [|rewrite !(sg_mul R rO rI radd rmul rsub ropp Rth); ring].
    apply sg_eq. destruct (Hunit _ HC) as [E1|E1], (Hunit pA (inr_p A)) as [E2|E2]; rewrite E1, E2; ring.
  Qed.

  Theorem relabel_unpolarity (x : mv R) : wfmv A x ->
    relabel (unpolarity O A x) == mscal (sg o) (unpolarity O D (relabel x)).
  Proof.
    intros Hx.
    apply relabel_by_coeff; [apply (wfmv_canon_sort R A HkA HnA) | apply wfmv_mscal; apply (wfmv_canon_sort R D HkD HnD) |].
    intros K HK. rewrite coeff_mscal. apply (relabel_gp_pss x rI K Hx HK).
  Qed.

  (* polarity: the same outcome (ZeroDivisionError for a degenerate metric), results correspond up to o *)
  Theorem relabel_polarity (x : mv R) : wfmv A x ->
    match polarity O A x with
    | Ok r => exists r', polarity O D (relabel x) = Ok r' /\ relabel r == mscal (sg o) r'
    | Err e => polarity O D (relabel x) = Err e
    end.
  Proof.
    intros Hx. pose proof (wfmv_relabel x Hx) as Hx'.
    pose proof (sgn_pss_same A D HA HD Hsig Hstart) as Epp.
    assert (Eshape : forall z : mv R, wfmv A z ->
              relabel (gp O A z (pss_mv O A)) == mscal (sg o) (gp O D (relabel z) (pss_mv O D))).
    { intros z Hz. apply (relabel_unpolarity z Hz). }
    unfold polarity. cbv zeta. rewrite Epp.
    destruct (Z.eqb (sgn A pA pA) (-1)).
    - eexists. split; [reflexivity|].
      eapply (equiv_trans R rO rI radd rmul rsub ropp); [apply Eshape; apply (wfmv_canon_sort R A HkA HnA)|].
      intros K. rewrite !coeff_mscal. f_equal.
      apply (sorted_product_congr R rO rI radd rmul rsub ropp Rth D (sgn D) None Z.lxor).
      + apply (proj1 (wfmv_relabel _ (wfmv_canon_sort R A HkA HnA _))).
      + apply (proj1 (wfmv_canon_sort R D HkD HnD _)).
      + constructor; [intros [] | constructor].
      + constructor; [intros [] | constructor].
      + apply (relabel_neg x Hx).
      + intros K'. reflexivity.
    - destruct (Z.eqb (sgn A pA pA) 1).
      + eexists. split; [reflexivity|]. apply (Eshape x Hx).
      + destruct (Z.eqb (sgn A pA pA) 0); reflexivity.
  Qed.

  (* the regressive product *)
  Theorem relabel_rp (x y : mv R) : wfmv A x -> wfmv A y ->
    relabel (rp O A x y) == mscal (sg o) (rp O D (relabel x) (relabel y)).
  Proof.
    intros Hx Hy.
    apply (relabel_product (sign_rp (sgn A) LA) (sign_rp (sgn D) LD)
             (Some (filter_rp LA)) (Some (filter_rp LD)) (keyout_rp LA) (keyout_rp LD) o); try assumption.
    - apply (Hunit pA (inr_p A)).
    - intros a b Ha Hb. pose proof (lxor_range A a b Ha Hb) as Hab. unfold keyout_rp.
      change (LA - 1) with pA. change (LD - 1) with pD. split; [apply (inr_compl A _ Hab)|].
      rewrite (phi_compl A D HA HD Hsig Hstart _ Hab), (phi_lxor A D HA HD Hsig Hstart a b Ha Hb). reflexivity.
    - intros a b Ha Hb. cbn [accepts].
      rewrite (filter_rp_op A a b Ha Hb), (filter_rp_op D _ _ (Hrange a Ha) (Hrange b Hb)).
      rewrite <- !(phi_compl A D HA HD Hsig Hstart) by assumption.
      pose proof (inr_compl A a Ha) as Ca. pose proof (inr_compl A b Hb) as Cb.
      pose proof (Hrange _ Ca). pose proof (Hrange _ Cb).
      rewrite !filter_op_sel by lia. apply (phi_grade_sel A D HA HD Hsig Hstart sel_op _ _ Ca Cb).
    - intros a b Ha Hb. apply (sign_rp_phi A D HA HD Hsig Hstart a b Ha Hb).
  Qed.

  (* MultiVector.dual / undual with any kind: same outcome, results correspond up to o *)
  Lemma alg_r_same : alg_r D = alg_r A.
  Proof. unfold alg_r. rewrite Hsig. reflexivity. Qed.

  Theorem relabel_dual k (x : mv R) : wfmv A x ->
    match dual O A k x with
    | Ok r => exists r', dual O D k (relabel x) = Ok r' /\ relabel r == mscal (sg o) r'
    | Err e => dual O D k (relabel x) = Err e
    end.
  Proof.
    intros Hx. unfold dual. rewrite alg_r_same. destruct k.
    - destruct (Nat.eqb (alg_r A) 0); [apply (relabel_polarity x Hx)|].
      destruct (Nat.eqb (alg_r A) 1); [|reflexivity].
      eexists. split; [reflexivity | apply (relabel_hodge x Hx)].
    - apply (relabel_polarity x Hx).
    - eexists. split; [reflexivity | apply (relabel_hodge x Hx)].
    - reflexivity.
  Qed.

  Theorem relabel_undual k (x : mv R) : wfmv A x ->
    match undual O A k x with
    | Ok r => exists r', undual O D k (relabel x) = Ok r' /\ relabel r == mscal (sg o) r'
    | Err e => undual O D k (relabel x) = Err e
    end.
  Proof.
    intros Hx. unfold undual. rewrite alg_r_same. destruct k.
    - destruct (Nat.eqb (alg_r A) 0); [eexists; split; [reflexivity | apply (relabel_unpolarity x Hx)]|].
      destruct (Nat.eqb (alg_r A) 1); [|reflexivity].
      eexists. split; [reflexivity | apply (relabel_unhodge x Hx)].
    - eexists. split; [reflexivity | apply (relabel_unpolarity x Hx)].
    - eexists. split; [reflexivity | apply (relabel_unhodge x Hx)].
    - reflexivity.
  Qed.

  (* ---------- the accessor clause: coefficient of a blade spelled in any order ---------- *)
  (* x.e_n for a spelling n: _blade2canon gives the canonical name c and a swap count; the value is the
     stored coefficient of c, negated for an odd swap count (None: the blade is not in the algebra) *)
  Definition spelled_coeff (B : alg) (n : name) (x : mv R) : option R :=
    match blade2canon B n with
    | (Some c, sw) => match canon2bin B c with
                      | Some K => Some (if Z.odd sw then (- coeff O K x)%r else coeff O K x)
                      | None => None
                      end
    | (None, _) => None
    end.

  Lemma par_inj b1 b2 : par b1 = par b2 -> b1 = b2.
  Proof. destruct b1, b2; cbn; intros H; try reflexivity; discriminate. Qed.

  Theorem relabel_spelled_coeff n (x : mv R) :
    NoDup n -> (forall g, In g n -> In g (alg_vecs A)) -> wfmv A x ->
    exists v, spelled_coeff A n x = Some v /\ spelled_coeff D n (relabel x) = Some v.
  Proof.
    intros Nn HvA Hx.
    assert (HvD : forall g, In g n -> In g (alg_vecs D)).
    { intros g Hg. apply (same_vecs A D HA HD Hsig Hstart). apply HvA. exact Hg. }
    destruct (blade2canon_spec A HA n Nn HvA) as (cA & swA & KA & EbA & EcA & EnA & PA & FA).
    destruct (blade2canon_spec D HD n Nn HvD) as (cD & swD & KD & EbD & EcD & EnD & PD & FD).
    destruct (name_fold_closed A HA n Nn HvA) as (_ & _ & GA). rewrite GA in FA.
    destruct (name_fold_closed D HD n Nn HvD) as (_ & _ & GD). rewrite GD in FD.
    injection FA as SA KAe. injection FD as SD KDe. apply par_inj in SA. apply par_inj in SD.
    rewrite KAe in SA. rewrite KDe in SD.
    pose proof (bin2canon_range A HA KA cA EnA) as RA.
    rewrite (nm_eq A KA cA EnA) in SA. rewrite (nm_eq D KD cD EnD) in SD.
    assert (Ephi : phi KA = KD).
    { apply (key_ext D HD _ _ _ _ (nm_spec D HD _ (Hrange KA RA)) EnD). intros g.
      pose proof (phi_perm A D HA HD Hsig Hstart KA RA) as P1. rewrite (nm_eq A KA cA EnA) in P1.
      split; intros Hg.
      - apply (Permutation_in g PD). apply (Permutation_in g (Permutation_sym PA)).
        apply (Permutation_in g (Permutation_sym P1)). exact Hg.
      - apply (Permutation_in g P1). apply (Permutation_in g PA).
        apply (Permutation_in g (Permutation_sym PD)). exact Hg. }
    unfold spelled_coeff. rewrite EbA, EcA, EbD, EcD. eexists. split; [reflexivity|]. f_equal.
    rewrite <- Ephi, (coeff_relabel x KA Hx RA).
    destruct (phi_spec A D HA HD Hsig Hstart KA RA) as (_ & _ & -> & _).
    rewrite Ephi, (nm_eq A KA cA EnA), (nm_eq D KD cD EnD), <- SA, <- SD.
    destruct (inv2 n), (inv2 cA), (inv2 cD); cbn [xorb par];
      rewrite ?(sg_1 R rO rI ropp), ?(sg_m1 R rO rI ropp); ring.
  Qed.

End Multivectors.

(* ---------- the statements of Props/C14.v, packaged ---------- *)
Lemma default_instance A graded :
  let D := mk_default (a_sig A) (a_start A) graded in a_sig A = a_sig D /\ a_start A = a_start D.
Proof. split; reflexivity. Qed.

Theorem phi_bijection A D : wf_alg A = true -> wf_alg D = true ->
  a_sig A = a_sig D -> a_start A = a_start D ->
  alg_len A = alg_len D /\
  phi_key A D (pss_key A) = pss_key D /\
  forall I, 0 <= I < alg_len A ->
    0 <= phi_key A D I < alg_len D /\
    phi_key D A (phi_key A D I) = I /\ phi_sign D A (phi_key A D I) = phi_sign A D I /\
    popcount (phi_key A D I) = popcount I /\
    (phi_sign A D I = 1 \/ phi_sign A D I = -1).
Proof.
  intros HA HD Hs Ht. split; [apply (same_len A D HA HD Hs)|].
  split; [apply (phi_pss A D HA HD Hs Ht)|]. intros I HI.
  split; [apply (phi_range A D HA HD Hs Ht I HI)|].
  destruct (phi_inv A D HA HD Hs Ht I HI) as [E1 E2]. split; [exact E1|]. split; [exact E2|].
  split; [apply (phi_popcount A D HA HD Hs Ht I HI) | apply (phi_sign_unit A D HA HD Hs Ht I HI)].
Qed.

Section Packaged.
  Variable R : Type.
  Variables (rO rI : R) (radd rmul rsub : R -> R -> R) (ropp : R -> R).
  Hypothesis Rth : ring_theory rO rI radd rmul rsub ropp (@eq R).
  Local Notation O := (mkOps R radd rsub rmul ropp rO rI).
  Local Notation "x == y" := (Sparse.equiv rO rI radd rmul rsub ropp x y) (at level 70, no associativity).
  Local Notation relabel := (relabel R rO rI rmul ropp).
  Local Notation mscal := (mscal R rmul).
  Local Notation sg := (Ops.sg rO rI ropp).
  Local Notation iso A D := (wf_alg A = true /\ wf_alg D = true /\ a_sig A = a_sig D /\ a_start A = a_start D).
  Local Notation T l := (l R rO rI radd rmul rsub ropp Rth) (only parsing).

  Theorem relabel_wf_coeff A D : iso A D -> forall (x : mv R), wfmv A x ->
    wfmv D (relabel A D x) /\
    forall K, 0 <= K < alg_len A -> coeff O (phi_key A D K) (relabel A D x) = rmul (sg (phi_sign A D K)) (coeff O K x).
  Proof.
    intros (HA & HD & Hs & Ht) x Hx. split.
    - apply (wfmv_relabel R rO rI rmul ropp A D HA HD Hs Ht x Hx).
    - intros K HK. apply (T coeff_relabel A D HA HD Hs Ht x K Hx HK).
  Qed.

  Theorem iso_gp A D : iso A D -> forall (x y : mv R), wfmv A x -> wfmv A y ->
    relabel A D (gp O A x y) == gp O D (relabel A D x) (relabel A D y).
  Proof. intros (HA & HD & Hs & Ht). apply (T relabel_gp A D HA HD Hs Ht). Qed.

  Theorem iso_grade_ops A D : iso A D -> forall (x y : mv R), wfmv A x -> wfmv A y ->
    relabel A D (op O A x y) == op O D (relabel A D x) (relabel A D y) /\
    relabel A D (ip O A x y) == ip O D (relabel A D x) (relabel A D y) /\
    relabel A D (lc O A x y) == lc O D (relabel A D x) (relabel A D y) /\
    relabel A D (rc O A x y) == rc O D (relabel A D x) (relabel A D y) /\
    relabel A D (sp O A x y) == sp O D (relabel A D x) (relabel A D y) /\
    relabel A D (cp O A x y) == cp O D (relabel A D x) (relabel A D y) /\
    relabel A D (acp O A x y) == acp O D (relabel A D x) (relabel A D y) /\
    relabel A D (add O A x y) == add O D (relabel A D x) (relabel A D y) /\
    relabel A D (sub O A x y) == sub O D (relabel A D x) (relabel A D y) /\
    relabel A D (neg O A x) == neg O D (relabel A D x) /\
    relabel A D (reverse O A x) == reverse O D (relabel A D x) /\
    relabel A D (involute O A x) == involute O D (relabel A D x) /\
    relabel A D (conjugate O A x) == conjugate O D (relabel A D x).
  Proof.
    intros (HA & HD & Hs & Ht) x y Hx Hy.
    split; [apply (T relabel_op A D HA HD Hs Ht x y Hx Hy)|].
    split; [apply (T relabel_ip A D HA HD Hs Ht x y Hx Hy)|].
    split; [apply (T relabel_lc A D HA HD Hs Ht x y Hx Hy)|].
    split; [apply (T relabel_rc A D HA HD Hs Ht x y Hx Hy)|].
    split; [apply (T relabel_sp A D HA HD Hs Ht x y Hx Hy)|].
    split; [apply (T relabel_cp A D HA HD Hs Ht x y Hx Hy)|].
    split; [apply (T relabel_acp A D HA HD Hs Ht x y Hx Hy)|].
    split; [apply (T relabel_add A D HA HD Hs Ht x y Hx Hy)|].
    split; [apply (T relabel_sub A D HA HD Hs Ht x y Hx Hy)|].
    split; [apply (T relabel_neg A D HA HD Hs Ht x Hx)|].
    split; [apply (T relabel_reverse A D HA HD Hs Ht x Hx)|].
    split; [apply (T relabel_involute A D HA HD Hs Ht x Hx) | apply (T relabel_conjugate A D HA HD Hs Ht x Hx)].
  Qed.

  Theorem iso_grade_sel A D : iso A D -> forall grades (x : mv R), wfmv A x ->
    match grade_sel O A grades x with
    | Ok r => exists r', grade_sel O D grades (relabel A D x) = Ok r' /\ relabel A D r == r'
    | Err e => grade_sel O D grades (relabel A D x) = Err e
    end.
  Proof. intros (HA & HD & Hs & Ht). apply (T relabel_grade_sel A D HA HD Hs Ht). Qed.

  Theorem iso_duals A D : iso A D -> forall (x y : mv R), wfmv A x -> wfmv A y ->
    let o := sg (phi_sign A D (pss_key A)) in
    relabel A D (hodge O A x) == mscal o (hodge O D (relabel A D x)) /\
    relabel A D (unhodge O A x) == mscal o (unhodge O D (relabel A D x)) /\
    relabel A D (unpolarity O A x) == mscal o (unpolarity O D (relabel A D x)) /\
    relabel A D (rp O A x y) == mscal o (rp O D (relabel A D x) (relabel A D y)) /\
    match polarity O A x with
    | Ok r => exists r', polarity O D (relabel A D x) = Ok r' /\ relabel A D r == mscal o r'
    | Err e => polarity O D (relabel A D x) = Err e
    end /\
    (forall k, match dual O A k x with
               | Ok r => exists r', dual O D k (relabel A D x) = Ok r' /\ relabel A D r == mscal o r'
               | Err e => dual O D k (relabel A D x) = Err e
               end) /\
    (forall k, match undual O A k x with
               | Ok r => exists r', undual O D k (relabel A D x) = Ok r' /\ relabel A D r == mscal o r'
               | Err e => undual O D k (relabel A D x) = Err e
               end).
  Proof.
    intros (HA & HD & Hs & Ht) x y Hx Hy. cbv zeta.
    split; [apply (T relabel_hodge A D HA HD Hs Ht x Hx)|].
    split; [apply (T relabel_unhodge A D HA HD Hs Ht x Hx)|].
    split; [apply (T relabel_unpolarity A D HA HD Hs Ht x Hx)|].
    split; [apply (T relabel_rp A D HA HD Hs Ht x y Hx Hy)|].
    split; [apply (T relabel_polarity A D HA HD Hs Ht x Hx)|].
    split; intros k; [apply (T relabel_dual A D HA HD Hs Ht k x Hx) | apply (T relabel_undual A D HA HD Hs Ht k x Hx)].
  Qed.

  Theorem iso_spelled_coeff A D : iso A D -> forall n (x : mv R),
    NoDup n -> (forall g, In g n -> In g (alg_vecs A)) -> wfmv A x ->
    exists v, spelled_coeff R rO rI radd rmul rsub ropp A n x = Some v
              /\ spelled_coeff R rO rI radd rmul rsub ropp D n (relabel A D x) = Some v.
  Proof. intros (HA & HD & Hs & Ht). apply (T relabel_spelled_coeff A D HA HD Hs Ht). Qed.
End Packaged.

(* ====================================================================================== *)
(** * 4. Concrete instances (non-vacuity) *)

(* 3DPGA (SignBits.ex_pga3d: basis e, e1, e2, e3, e0, e01, e02, e03, e12, e31, e23, e032, e013, e021,
   e123, e0123; vecs = [1; 2; 3; 0]) against the default basis of the same signature [0; 1; 1; 1] and
   start index 0 (vecs = [0; 1; 2; 3]): the generator bits are permuted, and the spellings e31, e021,
   e032 are odd permutations of the ascending ones, so phi_sign = -1 there. *)
Definition ex_D : alg := mk_default (sig_of_pqr 3 0 1) 0 false.

Example ex_D_wf : wf_alg ex_D = true.
Proof. vm_compute. reflexivity. Qed.

Example ex_same_sig_start : a_sig ex_pga3d = a_sig ex_D /\ a_start ex_pga3d = a_start ex_D.
Proof. vm_compute. split; reflexivity. Qed.

Example ex_phi_values :
  map (fun I => (phi_key ex_pga3d ex_D I, phi_sign ex_pga3d ex_D I)) (Alg.zrange 16)
  = [(0, 1); (2, 1); (4, 1); (6, 1); (8, 1); (10, -1); (12, 1); (14, 1);
     (1, 1); (3, 1); (5, 1); (7, -1); (9, 1); (11, 1); (13, -1); (15, 1)].
Proof. vm_compute. reflexivity. Qed.

(* the table isomorphism, evaluated on all 256 pairs *)
Definition table_iso_b (A D : alg) : bool :=
  forallb (fun I => forallb (fun J =>
      Z.eqb (phi_sign A D I * phi_sign A D J * sgn D (phi_key A D I) (phi_key A D J))
            (sgn A I J * phi_sign A D (Z.lxor I J))
      && Z.eqb (phi_key A D (Z.lxor I J)) (Z.lxor (phi_key A D I) (phi_key A D J)))
    (canon_keys A)) (canon_keys A).

Example ex_table_iso_all : table_iso_b ex_pga3d ex_D = true.
Proof. vm_compute. reflexivity. Qed.

(* ... and one entry of it through the theorem: e31 e01 (keys 5, 9) *)
Example ex_table_iso_thm :
  phi_sign ex_pga3d ex_D 5 * phi_sign ex_pga3d ex_D 9 * sgn ex_D (phi_key ex_pga3d ex_D 5) (phi_key ex_pga3d ex_D 9)
  = sgn ex_pga3d 5 9 * phi_sign ex_pga3d ex_D (Z.lxor 5 9).
Proof.
  destruct ex_same_sig_start as [Hs Ht].
  apply (table_iso ex_pga3d ex_D ex_wf_pga3d ex_D_wf Hs Ht); rewrite ex_pga3d_len; lia.
Qed.

Example ex_table_iso_values :
  (phi_sign ex_pga3d ex_D 5, phi_sign ex_pga3d ex_D 9, sgn ex_D 10 3, sgn ex_pga3d 5 9, phi_sign ex_pga3d ex_D 12)
  = (-1, 1, -1, 1, 1).
Proof. vm_compute. reflexivity. Qed.

(* multivectors over Z:  x = 2 e31 + 3 e1 - e032,  y = e01 + 4 e23 + 7 *)
Definition ex_x : mv Z := [(5, 2); (1, 3); (14, -1)].
Definition ex_y : mv Z := [(9, 1); (6, 4); (0, 7)].
Local Notation zrelabel := (relabel Z 0 1 Z.mul Z.opp).

Lemma ex_x_wf : wfmv ex_pga3d ex_x.
Proof.
  split; [repeat constructor; cbn; intuition lia|].
  rewrite ex_pga3d_len. intros k Hk. cbn in Hk. intuition lia.
Qed.
Lemma ex_y_wf : wfmv ex_pga3d ex_y.
Proof.
  split; [repeat constructor; cbn; intuition lia|].
  rewrite ex_pga3d_len. intros k Hk. cbn in Hk. intuition lia.
Qed.

Example ex_relabel_gp_thm :
  Sparse.equiv 0 1 Z.add Z.mul Z.sub Z.opp
    (zrelabel ex_pga3d ex_D (gp Zops ex_pga3d ex_x ex_y))
    (gp Zops ex_D (zrelabel ex_pga3d ex_D ex_x) (zrelabel ex_pga3d ex_D ex_y)).
Proof.
  destruct ex_same_sig_start as [Hs Ht].
  apply (relabel_gp Z 0 1 Z.add Z.mul Z.sub Z.opp Zth ex_pga3d ex_D ex_wf_pga3d ex_D_wf Hs Ht _ _ ex_x_wf ex_y_wf).
Qed.

Example ex_relabel_gp_values :
  (zrelabel ex_pga3d ex_D ex_x,
   zrelabel ex_pga3d ex_D (gp Zops ex_pga3d ex_x ex_y),
   gp Zops ex_D (zrelabel ex_pga3d ex_D ex_x) (zrelabel ex_pga3d ex_D ex_y))
  = ([(10, -2); (2, 3); (13, 1)],
     [(2, 21); (1, -7); (9, 2); (6, 8); (10, -14); (13, 7); (14, 12)],
     [(1, -7); (2, 21); (9, 2); (6, 8); (10, -14); (13, 7); (14, 12)]).
Proof. vm_compute. reflexivity. Qed.

(* a custom pseudoscalar with the opposite orientation: Cl(1,1) with basis e, e1, e2, e21;
   o = phi_sign (pss) = -1 and the Hodge dual picks it up *)
Definition ex_A2 : alg :=
  match mk_custom [1; -1] [[]; [1]; [2]; [2; 1]]%nat false with Ok a => a | Err _ => mk_default [] 0 false end.
Definition ex_D2 : alg := mk_default [1; -1] 1 false.

Example ex_A2_ok : mk_custom [1; -1] [[]; [1]; [2]; [2; 1]]%nat false = Ok ex_A2 /\
  wf_alg ex_A2 = true /\ wf_alg ex_D2 = true /\ a_sig ex_A2 = a_sig ex_D2 /\ a_start ex_A2 = a_start ex_D2.
Proof. vm_compute. repeat split. Qed.

Example ex_orientation : phi_sign ex_A2 ex_D2 (pss_key ex_A2) = -1 /\ table_iso_b ex_A2 ex_D2 = true.
Proof. vm_compute. split; reflexivity. Qed.

Example ex_relabel_hodge_values :
  let x := [(1, 2); (3, 5); (0, 7)] in
  (zrelabel ex_A2 ex_D2 (hodge Zops ex_A2 x),
   hodge Zops ex_D2 (zrelabel ex_A2 ex_D2 x),
   mscal Z Z.mul (-1) (hodge Zops ex_D2 (zrelabel ex_A2 ex_D2 x)))
  = ([(0, 5); (2, -2); (3, -7)], [(0, -5); (2, 2); (3, 7)], [(0, 5); (2, -2); (3, -7)]).
Proof. vm_compute. reflexivity. Qed.

Example ex_instances :
  wf_alg ex_pga3d = true /\ wf_alg ex_D = true /\ a_sig ex_pga3d = a_sig ex_D /\ a_start ex_pga3d = a_start ex_D /\
  map (fun I => (phi_key ex_pga3d ex_D I, phi_sign ex_pga3d ex_D I)) (Alg.zrange 16)
  = [(0, 1); (2, 1); (4, 1); (6, 1); (8, 1); (10, -1); (12, 1); (14, 1);
     (1, 1); (3, 1); (5, 1); (7, -1); (9, 1); (11, 1); (13, -1); (15, 1)] /\
  table_iso_b ex_pga3d ex_D = true /\
  phi_sign ex_A2 ex_D2 (pss_key ex_A2) = -1 /\ table_iso_b ex_A2 ex_D2 = true.
Proof. vm_compute. repeat split. Qed.
