(* Theory/InverseCongr.v — C08 for the inverse, division and integer powers: the model of kingdon's
   inverse (Model/Inverse.v: codegen_hitzer_inv, codegen_shirokov_inv, codegen_inv, codegen_div,
   MultiVector.__truediv__/__rtruediv__/__pow__) does not depend on how its operands are stored.

   Everything is proved for EVERY commutative ring of coefficients, EVERY algebra whose canonical keys
   are pairwise distinct ([NoDup (canon_keys A)], implied by [wf_alg A = true]: nodup_of_wf), an
   ARBITRARY coefficient division [dv : R -> R -> R] (nothing is used about it but that it is a function),
   an ARBITRARY zero test [isz : R -> bool] (it is only ever applied to coefficients, which are equal),
   and every OperatorDict.filter [F] that respects the storage relation ([filter_respects]); the two
   filters kingdon uses do: the identity (numeric evaluation, filter_respects_id) and [filter_nz isz]
   for a zero test that is only true on 0 (symbolic generation, filter_respects_nz).

   The storage relation, [srel b x x']:
     b = false   x and x' have pairwise distinct keys and the same coefficient on every blade
                 (x == x': absent = 0, so permuting the key tuple AND storing explicit zeros, up to the
                 full layouts, are covered: a stored 0 and an absent key have the same coefficient);
     b = true    moreover the same SET of stored keys (any permutation of the key tuple).
   Every elementary operator the generators call (gp, sp, sub, the three involutions, grade selection,
   a coefficient wrapped as a scalar, .e) maps srel b to srel b, for both b.

     hitzer_num_congr, hitzer_den_congr, hitzer_congr
                    d <= 5 (closed forms): srel b operands give srel b numerators, EQUAL denominators,
                    the same error (NotImplementedError for d >= 6) - for both b;
     supply_next_congr, power_supply_from_congr
                    `next(supply)`: related tables of powers give related powers / the same error;
     shirokov_loop_congr   for EVERY list of rounds, every related pair of loop states: the same break
                    index i, srel true xi, pointwise srel true lists xs, EQUAL lists cs, or the same
                    error; here b = true is needed: the break test `xi.grades == (0,)` reads the stored
                    KEYS of xi, not its coefficients;
     inv_numden_congr, inv_model_congr, div_model_congr, rdiv_number_congr, div_number_congr,
     pow_model_congr
                    alg.inv(x), a / b (both operands re-stored), number / x, x / number, x ** n for every
                    integer n: both raise the same exception, or both return, with srel b results -
                    for b = false when d <= 5 (and for x ** n, n >= 0, in every dimension), for b = true
                    in every dimension.
   Readable corollaries (what Props/C08.v states): inverse_storage_independent,
   division_storage_independent, power_storage_independent, ..., in terms of == and same_keys only.

   What is NOT true of the model (why "the same stored blades" cannot be dropped for d >= 6): with the numeric
   filter (nothing dropped) a zero-padded operand makes the Shirokov loop miss its break - 2 stored as {e: 2}
   breaks in round 1 and inverts to 1/2, stored as {e: 2, e1: 0} the loop runs all 8 rounds and the model
   returns 0 (shirokov_padded_numeric_refuted, over Qc with its own division).  With the exact zero filter
   the two runs break in rounds 1 and 2 and return the same 1/2 (shirokov_padded_filtered_computed): equal
   VALUES across different break rounds are Shirokov's theorem (C07, not proved), not a congruence.
   kingdon's alg.inv never runs the loop on numbers: the code is generated from a symbolic operand with one
   nonzero symbol per stored blade, under the zero filter; there == operands store the same blades, and
   filter_nz_exact_upgrade shows that an exact filter restores "same stored blades" after every operator.
   restored_perm / restored_pad: the two re-storages of the property as instances.
   Examples (ExamplesQc): d = 3 permuted + zero-padded operand, inverse / division / x ** -2 computed over
   Qc; ZeroDivisionError on both storages; d = 6 permuted operand through the Shirokov loop. *)
From Coq Require Import List ZArith Bool Ring Lia Permutation RelationClasses QArith Qcanon.
From KV Require Import Model.All Model.Inverse Theory.WF Theory.Bits Theory.Sparse Theory.Product Theory.Ops
  Theory.SignBits Theory.OpsWF Theory.Natural Theory.Inverse.
Import ListNotations.

(* ================= results: the same error, or related values ================= *)
Definition res_rel {X} (P : X -> X -> Prop) (r r' : res X) : Prop :=
  match r, r' with
  | Ok v, Ok v' => P v v'
  | Err e, Err e' => e = e'
  | _, _ => False
  end.

Lemma res_rel_bind {X Y} (P : X -> X -> Prop) (Q : Y -> Y -> Prop) (r r' : res X) (f f' : X -> res Y) :
  res_rel P r r' -> (forall v v', P v v' -> res_rel Q (f v) (f' v')) -> res_rel Q (bind r f) (bind r' f').
Proof.
  destruct r as [v|e], r' as [v'|e']; cbn [res_rel bind]; intros H Hf; try contradiction.
  - apply Hf. exact H.
  - exact H.
Qed.

Lemma res_rel_mono {X} (P Q : X -> X -> Prop) (r r' : res X) :
  (forall v v', P v v' -> Q v v') -> res_rel P r r' -> res_rel Q r r'.
Proof. destruct r, r'; cbn [res_rel]; auto. Qed.

Lemma res_rel_Ok {X} (P : X -> X -> Prop) (r r' : res X) v :
  res_rel P r r' -> r = Ok v -> exists v', r' = Ok v' /\ P v v'.
Proof. intros H ->. destruct r' as [v'|e]; cbn [res_rel] in H; [exists v'; auto | contradiction]. Qed.

Lemma res_rel_Err {X} (P : X -> X -> Prop) (r r' : res X) e :
  res_rel P r r' -> (r = Err e <-> r' = Err e).
Proof.
  destruct r as [v|e1], r' as [v'|e2]; cbn [res_rel]; intros H; try contradiction.
  - split; discriminate.
  - subst. reflexivity.
Qed.

(* ================= list facts ================= *)
Lemma in_keys_pair {V} (x : list (Z * V)) k : In k (map fst x) <-> exists v, In (k, v) x.
Proof.
  rewrite in_map_iff. split.
  - intros [[k' v] [E H]]. cbn [fst] in E. subst k'. exists v. exact H.
  - intros [v H]. exists (k, v). split; [reflexivity | exact H].
Qed.

Lemma Forall2_nth_rel {X} (P : X -> X -> Prop) l l' d d' n :
  Forall2 P l l' -> P d d' -> P (nth n l d) (nth n l' d').
Proof.
  intros H Hd. revert n. induction H as [|a a' l l' Ha H IH]; intros [|n]; cbn [nth]; auto.
Qed.

Lemma Forall2_mono {X} (P Q : X -> X -> Prop) l l' :
  (forall a a', P a a' -> Q a a') -> Forall2 P l l' -> Forall2 Q l l'.
Proof. intros HPQ H. induction H; constructor; auto. Qed.

Lemma Forall2_last_rel {X} (P : X -> X -> Prop) l l' d d' :
  Forall2 P l l' -> P d d' -> P (last l d) (last l' d').
Proof.
  intros H Hd. induction H as [|a a' l l' Ha H IH]; cbn [last]; [exact Hd|].
  destruct H; [exact Ha | exact IH].
Qed.

Lemma NoDup_app_left {X} (l l' : list X) : NoDup (l ++ l') -> NoDup l.
Proof.
  induction l as [|a l IH]; cbn [app]; intros H; [constructor|].
  inversion H as [|? ? Ha Hl]; subst. constructor; [|apply IH; exact Hl].
  intros Hi. apply Ha. apply in_or_app. left. exact Hi.
Qed.

Lemma snd_inj_of_nodup {X Y} (l : list (X * Y)) :
  NoDup (map snd l) -> forall a a' b, In (a, b) l -> In (a', b) l -> a = a'.
Proof.
  induction l as [|[x y] l IH]; cbn [map snd]; intros Hn a a' b H H'; [destruct H|].
  inversion Hn as [|? ? Hy Hn']; subst.
  destruct H as [H|H], H' as [H'|H'].
  - congruence.
  - inversion H; subst. exfalso. apply Hy. change b with (snd (a', b)). apply in_map. exact H'.
  - inversion H'; subst. exfalso. apply Hy. change b with (snd (a, b)). apply in_map. exact H.
  - apply (IH Hn' a a' b H H').
Qed.

(* the key lists of grade selection are duplicate free as soon as the canonical keys are *)
Lemma NoDup_indices_of_nodup A grades ks :
  NoDup (canon_keys A) -> indices_for_grades A grades = Ok ks -> NoDup ks.
Proof.
  intros Hn. unfold indices_for_grades.
  destruct (strictly_inc grades && forallb (fun g => Nat.leb g (a_d A)) grades) eqn:E; [|discriminate].
  intros H. inversion H; subst ks; clear H. apply andb_true_iff in E. destruct E as [Es _].
  apply NoDup_flat_map_disjoint.
  - apply strictly_inc_NoDup. exact Es.
  - intros g _. unfold indices_for_grade. apply NoDup_map_filter. exact Hn.
  - intros g g' k _ _ H1 H2. unfold indices_for_grade in H1, H2.
    apply in_map_iff in H1. destruct H1 as [[n k1] [E1 H1]]. cbn [snd] in E1. subst k1.
    apply in_map_iff in H2. destruct H2 as [[n' k2] [E2 H2]]. cbn [snd] in E2. subst k2.
    apply filter_In in H1. destruct H1 as [H1 L1]. apply filter_In in H2. destruct H2 as [H2 L2].
    cbn [fst] in L1, L2. apply Nat.eqb_eq in L1. apply Nat.eqb_eq in L2.
    pose proof (snd_inj_of_nodup (a_c2b A) Hn n n' k H1 H2) as En. subst n'. congruence.
Qed.

Lemma nodup_of_wf A : wf_alg A = true -> NoDup (canon_keys A).
Proof. intros H. exact (sh_nodup A (wf_sign_hyps A H)). Qed.

Section Congr.
  Variable R : Type.
  Variables (rO rI : R) (radd rmul rsub : R -> R -> R) (ropp : R -> R).
  Hypothesis Rth : ring_theory rO rI radd rmul rsub ropp (@eq R).
  Add Ring Rring : Rth.
  Local Notation O := (mkOps R radd rsub rmul ropp rO rI).
  Local Notation equiv := (Sparse.equiv rO rI radd rmul rsub ropp).
  Local Infix "==" := equiv (at level 70, no associativity).
  Local Notation RT l := (l R rO rI radd rmul rsub ropp Rth) (only parsing).
  Local Notation RN l := (l R rO rI radd rmul rsub ropp) (only parsing).
  Local Open Scope Z_scope.

  (* ================= the storage relation ================= *)
  Definition same_keys (x x' : mv R) : Prop := forall k, In k (keys x) <-> In k (keys x').
  Definition srel (b : bool) (x x' : mv R) : Prop :=
    NoDup (keys x) /\ NoDup (keys x') /\ x == x' /\ (b = true -> same_keys x x').

  Lemma same_keys_refl x : same_keys x x. Proof. intros k. reflexivity. Qed.
  Lemma same_keys_sym x x' : same_keys x x' -> same_keys x' x.
  Proof. intros H k. symmetry. apply H. Qed.

  Lemma srel_refl b x : NoDup (keys x) -> srel b x x.
  Proof. intros H. split; [|split; [|split]]; auto. intros K; reflexivity. intros _. apply same_keys_refl. Qed.
  Lemma srel_sym b x x' : srel b x x' -> srel b x' x.
  Proof.
    intros (H1 & H2 & H3 & H4). split; [|split; [|split]]; auto.
    - intros K. symmetry. apply H3.
    - intros Hb. apply same_keys_sym. auto.
  Qed.
  Lemma srel_weaken b x x' : srel b x x' -> srel false x x'.
  Proof. intros (H1 & H2 & H3 & _). split; [|split; [|split]]; auto. discriminate. Qed.
  Lemma srel_trans b x y z : srel b x y -> srel b y z -> srel b x z.
  Proof.
    intros (H1 & H2 & H3 & H4) (G1 & G2 & G3 & G4). split; [|split; [|split]]; auto.
    - intros K. rewrite (H3 K). apply G3.
    - intros Hb k. rewrite (H4 Hb k). apply G4. exact Hb.
  Qed.
  (* == is decided on the stored keys *)
  Lemma equiv_by_keys (x x' : mv R) :
    (forall K, In K (keys x ++ keys x') -> coeff O K x = coeff O K x') -> x == x'.
  Proof.
    intros H K. destruct (in_dec Z.eq_dec K (keys x ++ keys x')) as [Hi|Hi]; [apply H; exact Hi|].
    rewrite !(RN coeff_notin); [reflexivity | |]; intros Hc; apply Hi, in_or_app; auto.
  Qed.
  Lemma srel_nil b : srel b [] [].
  Proof. apply srel_refl. constructor. Qed.
  Lemma srel_scalar b c : srel b (scalar_mv c) (scalar_mv c).
  Proof. apply srel_refl. cbn. constructor; [intros [] | constructor]. Qed.
  Lemma srel_blade_e b : srel b (blade_e O) (blade_e O).
  Proof. apply srel_refl. cbn. constructor; [intros [] | constructor]. Qed.

  (* a permuted re-storage is related in the strong sense, a zero-padded one in the weak sense *)
  Lemma srel_perm x x' : NoDup (keys x) -> Permutation x x' -> srel true x x'.
  Proof.
    intros Hn Hp. assert (Hk : Permutation (keys x) (keys x')) by (apply Permutation_map; exact Hp).
    assert (Hn' : NoDup (keys x')) by (eapply Permutation_NoDup; eassumption).
    split; [|split; [|split]]; auto.
    - intros K. destruct (in_dec Z.eq_dec K (keys x)) as [Hin|Hni].
      + apply in_keys_pair in Hin. destruct Hin as [v Hv].
        rewrite (RN coeff_in K v x Hn Hv).
        rewrite (RN coeff_in K v x' Hn' (Permutation_in _ Hp Hv)). reflexivity.
      + rewrite !(RN coeff_notin); [reflexivity | | exact Hni].
        intros H. apply Hni. eapply Permutation_in; [apply Permutation_sym; exact Hk | exact H].
    - intros _ k. split; intros H; eapply Permutation_in; try exact H; [exact Hk | apply Permutation_sym; exact Hk].
  Qed.
  Lemma srel_pad x (ks : list Z) :
    NoDup (keys x ++ ks) -> srel false x (x ++ map (fun k => (k, rO)) ks).
  Proof.
    intros Hn. assert (Hx : NoDup (keys x)) by (eapply NoDup_app_left; exact Hn).
    split; [|split; [|split]]; auto.
    - unfold keys. rewrite map_app, map_map. cbn [fst]. rewrite map_id. exact Hn.
    - intros K. rewrite (RN coeff_app). destruct (zin K (keys x)) eqn:E; [reflexivity|].
      rewrite (RN coeff_notin K x) by (apply zin_false_iff; exact E). clear Hn Hx E.
      induction ks as [|k ks IH]; [reflexivity|]. cbn [map]. rewrite (RN coeff_cons).
      destruct (Z.eqb k K); [reflexivity | exact IH].
    - discriminate.
  Qed.

  Variable A : alg.
  Hypothesis Hnd : NoDup (canon_keys A).

  (* ================= the elementary operators respect the relation ================= *)
  Lemma srel_product b sfun filt kout x x' y y' : srel b x x' -> srel b y y' ->
    srel b (canon_sort A (codegen_product O sfun filt kout x y))
           (canon_sort A (codegen_product O sfun filt kout x' y')).
  Proof.
    intros (Hx & Hx' & Ex & Kx) (Hy & Hy' & Ey & Ky). split; [|split; [|split]].
    - apply NoDup_keys_canon_sort. exact Hnd.
    - apply NoDup_keys_canon_sort. exact Hnd.
    - apply (RT sorted_product_congr); assumption.
    - intros Hb. specialize (Kx Hb). specialize (Ky Hb).
      assert (T : forall (u u' v v' : mv R) K, same_keys u u' -> same_keys v v' ->
                In K (keys (canon_sort A (codegen_product O sfun filt kout u v))) ->
                In K (keys (canon_sort A (codegen_product O sfun filt kout u' v')))).
      { intros u u' v v' K Ku Kv H. apply (RN sorted_product_keys) in H. apply (RN sorted_product_keys).
        destruct H as [Hc (kx & vx & ky & vy & H1 & H2 & H3)]. split; [exact Hc|].
        assert (I1 : In kx (keys u')) by (apply Ku, in_keys_pair; exists vx; exact H1).
        assert (I2 : In ky (keys v')) by (apply Kv, in_keys_pair; exists vy; exact H2).
        apply in_keys_pair in I1. destruct I1 as [vx' I1]. apply in_keys_pair in I2. destruct I2 as [vy' I2].
        exists kx, vx', ky, vy'. split; [exact I1 | split; [exact I2 | exact H3]]. }
      intros K. split; apply T; auto using same_keys_sym.
  Qed.

  Lemma srel_gp b x x' y y' : srel b x x' -> srel b y y' -> srel b (gp O A x y) (gp O A x' y').
  Proof. apply srel_product. Qed.
  Lemma srel_sp b x x' y y' : srel b x x' -> srel b y y' -> srel b (sp O A x y) (sp O A x' y').
  Proof. apply srel_product. Qed.

  Lemma in_keys_raw_sub (x y : mv R) K : NoDup (keys x) -> NoDup (keys y) ->
    (In K (keys (raw_sub O x y)) <-> In K (keys x) \/ In K (keys y)).
  Proof.
    intros Hx Hy. rewrite (RN keys_raw_sub x y Hx Hy), in_app_iff, filter_In. split.
    - intros [H|[H _]]; auto.
    - intros [H|H]; [left; exact H|]. destruct (in_dec Z.eq_dec K (keys x)) as [Hi|Hi]; [left; exact Hi|].
      right. split; [exact H|]. apply negb_true_iff, zin_false_iff. exact Hi.
  Qed.

  Lemma srel_sub b x x' y y' : srel b x x' -> srel b y y' -> srel b (sub O A x y) (sub O A x' y').
  Proof.
    intros (Hx & Hx' & Ex & Kx) (Hy & Hy' & Ey & Ky). split; [|split; [|split]].
    - apply NoDup_keys_canon_sort. exact Hnd.
    - apply NoDup_keys_canon_sort. exact Hnd.
    - apply (RT sub_congr); assumption.
    - intros Hb. specialize (Kx Hb). specialize (Ky Hb). intros K. unfold sub.
      rewrite !in_keys_canon_sort, !in_keys_raw_sub by assumption. rewrite (Kx K), (Ky K). reflexivity.
  Qed.

  Lemma srel_involution b g x x' : srel b x x' ->
    srel b (canon_sort A (raw_involution O g x)) (canon_sort A (raw_involution O g x')).
  Proof.
    intros (Hx & Hx' & Ex & Kx). split; [|split; [|split]].
    - apply NoDup_keys_canon_sort. exact Hnd.
    - apply NoDup_keys_canon_sort. exact Hnd.
    - apply (RN canon_sort_congr). apply (RT raw_involution_congr); assumption.
    - intros Hb K. rewrite !in_keys_canon_sort, !(RN keys_raw_involution) by assumption.
      rewrite (Kx Hb K). reflexivity.
  Qed.
  Lemma srel_reverse b x x' : srel b x x' -> srel b (reverse O A x) (reverse O A x').
  Proof. apply srel_involution. Qed.
  Lemma srel_involute b x x' : srel b x x' -> srel b (involute O A x) (involute O A x').
  Proof. apply srel_involution. Qed.
  Lemma srel_conjugate b x x' : srel b x x' -> srel b (conjugate O A x) (conjugate O A x').
  Proof. apply srel_involution. Qed.

  (* MultiVector.grade(...): the stored keys of the requested grades; raises for the same tuples *)
  Lemma coeff_select' (x : mv R) ks K :
    coeff O K (select rO rI radd rmul rsub ropp ks x) = if zin K ks then coeff O K x else rO.
  Proof.
    rewrite (RN coeff_select). destruct (zin K ks); cbn [andb]; [|reflexivity].
    destruct (zin K (keys x)) eqn:E; [reflexivity|]. symmetry. apply (RN coeff_notin).
    apply zin_false_iff. exact E.
  Qed.
  Lemma srel_grade_sel b gs x x' : srel b x x' ->
    res_rel (srel b) (grade_sel O A gs x) (grade_sel O A gs x').
  Proof.
    intros (Hx & Hx' & Ex & Kx). unfold grade_sel.
    destruct (indices_for_grades A gs) as [ks|e] eqn:E; cbn [bind res_rel]; [|reflexivity].
    pose proof (NoDup_indices_of_nodup A gs ks Hnd E) as Hks.
    change (srel b (select rO rI radd rmul rsub ropp ks x) (select rO rI radd rmul rsub ropp ks x')). split; [|split; [|split]].
    - rewrite (RN keys_select). apply NoDup_filter. exact Hks.
    - rewrite (RN keys_select). apply NoDup_filter. exact Hks.
    - intros K. rewrite !coeff_select', (Ex K). reflexivity.
    - intros Hb K. rewrite !(RN keys_select), !filter_In, !zin_true_iff, (Kx Hb K). reflexivity.
  Qed.

  (* x.e *)
  Lemma e_of_congr b x x' : srel b x x' -> e_of O x = e_of O x'.
  Proof. intros (_ & _ & Ex & _). apply Ex. Qed.

  (* xi.grades == (0,) reads the stored keys: it needs the strong relation *)
  Lemma grades_is_0_congr x x' : srel true x x' -> grades_is_0 x = grades_is_0 x'.
  Proof.
    intros (_ & _ & _ & Kx). specialize (Kx eq_refl). unfold grades_is_0.
    destruct (keys x) as [|k ks] eqn:E, (keys x') as [|k' ks'] eqn:E'.
    - reflexivity.
    - exfalso. assert (H : In k' (keys x)) by (apply Kx; rewrite E'; left; reflexivity).
      rewrite E in H. destruct H.
    - exfalso. assert (H : In k (keys x')) by (apply Kx; rewrite E; left; reflexivity).
      rewrite E' in H. destruct H.
    - apply bool_eq_of_iff. rewrite !forallb_forall. rewrite <- E, <- E'.
      split; intros H z Hz; apply H, Kx, Hz.
  Qed.

  (* ================= OperatorDict.filter ================= *)
  Definition filter_congr (b : bool) (F : mv R -> mv R) : Prop :=
    forall y y', srel b y y' -> srel b (F y) (F y').
  Definition filter_respects (F : mv R -> mv R) : Prop := forall b, filter_congr b F.

  Lemma filter_respects_id : filter_respects (fun z => z).
  Proof. intros b y y' H. exact H. Qed.

  Lemma coeff_filter_nz (isz : R -> bool) : (forall r, isz r = true -> r = rO) ->
    forall (z : mv R) K, NoDup (keys z) -> coeff O K (filter_nz isz z) = coeff O K z.
  Proof.
    intros Hz z K Hn. induction z as [|[k v] z IH]; [reflexivity|].
    cbn [keys map fst] in Hn. inversion Hn as [|? ? Hk Hn']; subst. specialize (IH Hn').
    unfold filter_nz in *. cbn [filter snd]. destruct (isz v) eqn:E; cbn [negb].
    - rewrite IH. cbn [coeff]. destruct (Z.eqb k K) eqn:EK; [|reflexivity].
      apply Z.eqb_eq in EK. subst K. rewrite (Hz v E). apply (RN coeff_notin). exact Hk.
    - cbn [coeff]. destruct (Z.eqb k K); [reflexivity | exact IH].
  Qed.

  Lemma filter_respects_nz (isz : R -> bool) : (forall r, isz r = true -> r = rO) ->
    filter_respects (filter_nz isz).
  Proof.
    intros Hz b y y' (Hy & Hy' & Ey & Ky). split; [|split; [|split]].
    - apply NoDup_keys_filter_nz. exact Hy.
    - apply NoDup_keys_filter_nz. exact Hy'.
    - intros K. rewrite !(coeff_filter_nz isz Hz) by assumption. apply Ey.
    - intros Hb. specialize (Ky Hb).
      assert (T : forall u u' : mv R, NoDup (keys u) -> NoDup (keys u') -> u == u' -> same_keys u u' ->
                forall k, In k (keys (filter_nz isz u)) -> In k (keys (filter_nz isz u'))).
      { intros u u' Hu Hu' Eu Ku k H. apply in_keys_pair in H. destruct H as [v H].
        unfold filter_nz in H. apply filter_In in H. destruct H as [H Hv]. cbn [snd] in Hv.
        assert (I : In k (keys u')) by (apply Ku, in_keys_pair; exists v; exact H).
        apply in_keys_pair in I. destruct I as [v' I].
        assert (v' = v).
        { rewrite <- (RN coeff_in k v' u' Hu' I), <- (RN coeff_in k v u Hu H). symmetry. apply Eu. }
        subst v'. apply in_keys_pair. exists v. unfold filter_nz. apply filter_In. split; assumption. }
      intros k. split; apply T; auto using same_keys_sym. intros K. symmetry. apply Ey.
  Qed.

  (* an EXACT zero test makes the stored keys a function of the element: the filtered results of ==
     operands store the same keys (the weak relation is upgraded to the strong one) *)
  Lemma filter_nz_exact_upgrade (isz : R -> bool) : (forall r, isz r = true <-> r = rO) ->
    forall y y', srel false y y' -> srel true (filter_nz isz y) (filter_nz isz y').
  Proof.
    intros Hz y y' (Hy & Hy' & Ey & _).
    assert (Hz' : forall r, isz r = true -> r = rO) by (intros r; apply Hz).
    split; [|split; [|split]].
    - apply NoDup_keys_filter_nz. exact Hy.
    - apply NoDup_keys_filter_nz. exact Hy'.
    - intros K. rewrite !(coeff_filter_nz isz Hz') by assumption. apply Ey.
    - intros _.
      assert (T : forall u u' : mv R, NoDup (keys u) -> NoDup (keys u') -> u == u' ->
                forall k, In k (keys (filter_nz isz u)) -> In k (keys (filter_nz isz u'))).
      { intros u u' Hu Hu' Eu k H. apply in_keys_pair in H. destruct H as [v H].
        unfold filter_nz in H. apply filter_In in H. destruct H as [H Hv]. cbn [snd] in Hv.
        pose proof (RN coeff_in k v u Hu H) as Cv. rewrite (Eu k) in Cv.
        destruct (in_dec Z.eq_dec k (keys u')) as [I|I].
        - apply in_keys_pair in I. destruct I as [v' I]. rewrite (RN coeff_in k v' u' Hu' I) in Cv. subst v'.
          apply in_keys_pair. exists v. unfold filter_nz. apply filter_In. split; assumption.
        - rewrite (RN coeff_notin k u' I) in Cv. subst v. apply negb_true_iff in Hv.
          assert (isz rO = true) by (apply Hz; reflexivity). congruence. }
      intros k. split; apply T; auto. intros K. symmetry. apply Ey.
  Qed.

  (* ================= the generators ================= *)
  Section Generators.
    Variable b : bool.
    Variable dv : R -> R -> R.
    Variable isz : R -> bool.
    Variable F : mv R -> mv R.
    Hypothesis HF : filter_congr b F.

    Local Notation imul := (i_mul O F A).
    Local Notation isub := (i_sub O F A).
    Local Notation sr := (srel b).

    Lemma srel_imul x x' y y' : sr x x' -> sr y y' -> sr (imul x y) (imul x' y').
    Proof. intros. apply HF, srel_gp; assumption. Qed.
    Lemma srel_isub x x' y y' : sr x x' -> sr y y' -> sr (isub x y) (isub x' y').
    Proof. intros. apply HF, srel_sub; assumption. Qed.
    Lemma srel_irev x x' : sr x x' -> sr (i_rev O F A x) (i_rev O F A x').
    Proof. intros. apply HF, srel_reverse; assumption. Qed.
    Lemma srel_iconj x x' : sr x x' -> sr (i_conj O F A x) (i_conj O F A x').
    Proof. intros. apply HF, srel_conjugate; assumption. Qed.
    Lemma srel_iinvo x x' : sr x x' -> sr (i_invo O F A x) (i_invo O F A x').
    Proof. intros. apply HF, srel_involute; assumption. Qed.
    Lemma srel_isp x x' y y' : sr x x' -> sr y y' -> sr (i_sp O F A x y) (i_sp O F A x' y').
    Proof. intros. apply HF, srel_sp; assumption. Qed.

    Ltac srt :=
      repeat first [ assumption | apply srel_scalar | apply srel_blade_e | apply srel_nil
                   | apply srel_imul | apply srel_isub | apply srel_irev | apply srel_iconj
                   | apply srel_iinvo | apply srel_isp ].

    (* ---------- codegen_hitzer_inv ---------- *)
    Theorem hitzer_num_congr x x' : sr x x' ->
      res_rel sr (hitzer_num O F A x) (hitzer_num O F A x').
    Proof.
      intros H. unfold hitzer_num.
      destruct (a_d A) as [|[|[|[|[|[|n]]]]]]; cbn [res_rel]; try solve [srt]; try reflexivity.
      - apply (res_rel_bind sr sr); [apply srel_grade_sel; srt|].
        intros g g' Hg. cbn [res_rel]. srt.
      - apply (res_rel_bind sr sr); [apply srel_grade_sel; srt|].
        intros g g' Hg. cbn [res_rel]. srt.
    Qed.

    Theorem hitzer_den_congr x x' num num' : sr x x' -> sr num num' ->
      hitzer_den O F A x num = hitzer_den O F A x' num'.
    Proof. intros Hx Hn. unfold hitzer_den. apply (e_of_congr b). srt. Qed.

    (* (numerator, denominator): related numerators, EQUAL denominators *)
    Definition pr_rel (p p' : mv R * R) : Prop := sr (fst p) (fst p') /\ snd p = snd p'.

    Theorem hitzer_congr x x' : sr x x' -> res_rel pr_rel (hitzer O F A x) (hitzer O F A x').
    Proof.
      intros H. unfold hitzer. apply (res_rel_bind sr pr_rel); [apply hitzer_num_congr; exact H|].
      intros num num' Hn. cbn [res_rel]. split; cbn [fst snd]; [exact Hn | apply hitzer_den_congr; assumption].
    Qed.

    (* ---------- power_supply ---------- *)
    Definition pw_rel (pw pw' : list (Z * mv R)) : Prop :=
      Forall2 (fun p p' => fst p = fst p' /\ sr (snd p) (snd p')) pw pw'.

    Lemma pw_rel_zassoc k pw pw' : pw_rel pw pw' ->
      match zassoc k pw, zassoc k pw' with
      | Some v, Some v' => sr v v'
      | None, None => True
      | _, _ => False
      end.
    Proof.
      intros H. induction H as [|[k1 v1] [k2 v2] pw pw' [Ek Hv] H IH]; cbn [zassoc]; [exact I|].
      cbn [fst snd] in Ek, Hv. subst k2. destruct (Z.eqb k1 k); [exact Hv | exact IH].
    Qed.

    Lemma pw_rel_zset k v v' pw pw' : pw_rel pw pw' -> sr v v' -> pw_rel (zset k v pw) (zset k v' pw').
    Proof.
      intros H Hv. induction H as [|[k1 v1] [k2 v2] pw pw' [Ek Hv1] H IH]; cbn [zset].
      - constructor; [split; [reflexivity | exact Hv] | constructor].
      - cbn [fst snd] in Ek, Hv1. subst k2. destruct (Z.eqb k1 k).
        + constructor; [split; [reflexivity | exact Hv] | exact H].
        + constructor; [split; [reflexivity | exact Hv1] | exact IH].
    Qed.

    Definition sn_rel (r r' : list (Z * mv R) * mv R) : Prop := pw_rel (fst r) (fst r') /\ sr (snd r) (snd r').

    Theorem supply_next_congr chains pw pw' step : pw_rel pw pw' ->
      res_rel sn_rel (supply_next O F A chains pw step) (supply_next O F A chains pw' step).
    Proof.
      intros H. unfold supply_next. pose proof (pw_rel_zassoc step pw pw' H) as Z1.
      destruct (zassoc step pw) as [v|], (zassoc step pw') as [v'|]; try contradiction.
      - cbn [res_rel]. split; assumption.
      - destruct (zassoc step chains) as [chain|]; cbn [of_opt bind res_rel]; [|reflexivity].
        destruct (chain_penult chain) as [c|]; cbn [of_opt bind res_rel]; [|reflexivity].
        pose proof (pw_rel_zassoc c pw pw' H) as Z2.
        destruct (zassoc c pw) as [a|], (zassoc c pw') as [a'|]; try contradiction;
          cbn [of_opt bind res_rel]; [|reflexivity].
        pose proof (pw_rel_zassoc (step - c) pw pw' H) as Z3.
        destruct (zassoc (step - c) pw) as [d|], (zassoc (step - c) pw') as [d'|]; try contradiction;
          cbn [of_opt bind res_rel]; [|reflexivity].
        split; cbn [fst snd]; [apply pw_rel_zset; [exact H | srt] | srt].
    Qed.

    Theorem power_supply_from_congr chains exps : forall pw pw', pw_rel pw pw' ->
      res_rel (Forall2 sr) (power_supply_from O F A chains pw exps) (power_supply_from O F A chains pw' exps).
    Proof.
      induction exps as [|step r IH]; intros pw pw' H; cbn [power_supply_from]; [constructor|].
      apply (res_rel_bind sn_rel (Forall2 sr)); [apply supply_next_congr; exact H|].
      intros [pw1 v] [pw1' v'] [H1 H2]. cbn [fst snd] in H1, H2.
      apply (res_rel_bind (Forall2 sr) (Forall2 sr)); [apply IH; exact H1|].
      intros vs vs' Hvs. cbn [res_rel]. constructor; assumption.
    Qed.

    Lemma pw_rel_init x x' : sr x x' -> pw_rel [(1, x)] [(1, x')].
    Proof. intros H. constructor; [split; [reflexivity | exact H] | constructor]. Qed.

    Theorem power_supply_congr x x' exps : sr x x' ->
      res_rel (Forall2 sr) (power_supply O F A x exps) (power_supply O F A x' exps).
    Proof.
      intros H. unfold power_supply. destruct (minimal_chains (zmax_list exps)) as [chains|e]; cbn [bind res_rel];
        [|reflexivity].
      apply power_supply_from_congr, pw_rel_init, H.
    Qed.

    (* ---------- codegen_shirokov_inv: the break test reads stored keys, b = true ---------- *)
    Hypothesis Hb : b = true.

    Lemma grades_is_0_congr' x x' : sr x x' -> grades_is_0 x = grades_is_0 x'.
    Proof. rewrite Hb. apply grades_is_0_congr. Qed.

    Lemma shirokov_xi_congr i powers powers' cs xi0 xi0' :
      Forall2 sr powers powers' -> sr xi0 xi0' ->
      sr (shirokov_xi O F A i powers cs xi0) (shirokov_xi O F A i powers' cs xi0').
    Proof.
      intros Hp. unfold shirokov_xi. generalize (seq 0 (i - 1)). intros l. revert xi0 xi0'.
      induction l as [|j l IH]; intros xi0 xi0' H0; cbn [fold_left]; [exact H0|].
      apply IH. apply srel_isub; [exact H0|]. apply srel_imul; [|apply srel_scalar].
      apply Forall2_nth_rel; [exact Hp | apply srel_nil].
    Qed.

    (* (i, xi, xs, cs) after the loop: the same round, related xi and xs, EQUAL coefficients cs *)
    Definition st_rel (r r' : nat * mv R * list (mv R) * list R) : Prop :=
      let '(i, xi, xs, cs) := r in
      let '(i', xi', xs', cs') := r' in
      i = i' /\ sr xi xi' /\ Forall2 sr xs xs' /\ cs = cs'.

    Theorem shirokov_loop_congr chains n rounds : forall pw pw' powers powers' cs xs xs' cur cur',
      pw_rel pw pw' -> Forall2 sr powers powers' -> Forall2 sr xs xs' ->
      fst cur = fst cur' -> sr (snd cur) (snd cur') ->
      res_rel st_rel (shirokov_loop O dv isz F A chains n rounds pw powers cs xs cur)
                     (shirokov_loop O dv isz F A chains n rounds pw' powers' cs xs' cur').
    Proof.
      induction rounds as [|i rounds IH]; intros pw pw' powers powers' cs xs xs' cur cur' Hpw Hp Hxs Hc1 Hc2;
        cbn [shirokov_loop].
      - cbn [res_rel st_rel]. auto.
      - apply (res_rel_bind sn_rel st_rel); [apply supply_next_congr; exact Hpw|].
        intros [pw1 p] [pw1' p'] [H1 H2]. cbn [fst snd] in H1, H2.
        assert (Hp' : Forall2 sr (powers ++ [p]) (powers' ++ [p'])).
        { apply Forall2_app; [exact Hp | constructor; [exact H2 | constructor]]. }
        set (xi := shirokov_xi O F A i (powers ++ [p]) cs (nth (i - 1) (powers ++ [p]) [])).
        set (xi' := shirokov_xi O F A i (powers' ++ [p']) cs (nth (i - 1) (powers' ++ [p']) [])).
        assert (Hxi : sr xi xi').
        { apply shirokov_xi_congr; [exact Hp'|]. apply Forall2_nth_rel; [exact Hp' | apply srel_nil]. }
        rewrite (grades_is_0_congr' xi xi' Hxi). destruct (grades_is_0 xi').
        + cbn [res_rel st_rel]. auto.
        + rewrite (e_of_congr b xi xi' Hxi). apply IH; try assumption; try reflexivity.
          apply Forall2_app; [exact Hxs | constructor; [exact Hxi | constructor]].
    Qed.

    Theorem shirokov_run_congr x x' : sr x x' ->
      res_rel st_rel (shirokov_run O dv isz F A x) (shirokov_run O dv isz F A x').
    Proof.
      intros H. unfold shirokov_run.
      destruct (minimal_chains (Z.of_nat (shirokov_n A))) as [chains|e]; cbn [bind res_rel]; [|reflexivity].
      apply shirokov_loop_congr.
      - apply pw_rel_init. exact H.
      - constructor.
      - constructor.
      - reflexivity.
      - cbn [snd]. apply srel_nil.
    Qed.

    Lemma shirokov_adj_congr i xs xs' cs : Forall2 sr xs xs' ->
      sr (shirokov_adj O F A i xs cs) (shirokov_adj O F A i xs' cs).
    Proof.
      intros H. unfold shirokov_adj. destruct (Nat.eqb i 1); [apply srel_blade_e|].
      apply srel_isub; [|apply srel_scalar]. apply Forall2_last_rel; [exact H | apply srel_nil].
    Qed.

    Theorem shirokov_congr x x' : sr x x' ->
      res_rel pr_rel (shirokov O dv isz F A x) (shirokov O dv isz F A x').
    Proof.
      intros H. unfold shirokov. apply (res_rel_bind st_rel pr_rel); [apply shirokov_run_congr; exact H|].
      intros [[[i xi] xs] cs] [[[i' xi'] xs'] cs'] (E1 & E2 & E3 & E4). subst i' cs'.
      cbn [res_rel]. split; cbn [fst snd]; [apply shirokov_adj_congr; exact E3 | apply (e_of_congr b); exact E2].
    Qed.
  End Generators.

  (* ================= codegen_inv, codegen_div, __pow__ ================= *)
  Section InvDivPow.
    Variable b : bool.
    Variable dv : R -> R -> R.
    Variable isz : R -> bool.
    Variable F : mv R -> mv R.
    Hypothesis HF : filter_congr b F.
    Local Notation sr := (srel b).

    (* the strong relation, or a dimension where the closed forms are used *)
    Definition inv_scope : Prop := b = true \/ (a_d A < 6)%nat.

    Theorem inv_numden_congr y y' : inv_scope -> sr y y' ->
      res_rel (pr_rel b) (inv_numden O dv isz F A y) (inv_numden O dv isz F A y').
    Proof.
      intros Hs H. unfold inv_numden. destruct (Nat.ltb (a_d A) 6) eqn:E.
      - apply hitzer_congr; assumption.
      - destruct Hs as [Hb|Hd]; [|apply Nat.ltb_ge in E; lia]. apply shirokov_congr; assumption.
    Qed.

    Theorem inv_model_congr y y' : inv_scope -> sr y y' ->
      res_rel sr (inv_model O dv isz F A y) (inv_model O dv isz F A y').
    Proof.
      intros Hs H. unfold inv_model. apply (res_rel_bind (pr_rel b) sr); [apply inv_numden_congr; assumption|].
      intros [num den] [num' den'] [H1 H2]. cbn [fst snd] in H1, H2. subst den'.
      destruct (isz den); cbn [res_rel]; [reflexivity|].
      apply srel_imul; [exact HF | exact H1 | apply srel_scalar].
    Qed.

    Theorem div_model_congr x x' y y' : inv_scope -> sr x x' -> sr y y' ->
      res_rel sr (div_model O dv isz F A x y) (div_model O dv isz F A x' y').
    Proof.
      intros Hs Hx H. unfold div_model. apply (res_rel_bind (pr_rel b) sr); [apply inv_numden_congr; assumption|].
      intros [num den] [num' den'] [H1 H2]. cbn [fst snd] in H1, H2. subst den'.
      destruct (isz den); cbn [res_rel]; [reflexivity|].
      apply srel_imul; [exact HF | | apply srel_scalar]. apply srel_imul; assumption.
    Qed.

    Theorem rdiv_number_congr c x x' : inv_scope -> sr x x' ->
      res_rel sr (rdiv_number O dv isz F A c x) (rdiv_number O dv isz F A c x').
    Proof. intros Hs H. apply div_model_congr; [exact Hs | apply srel_scalar | exact H]. Qed.

    (* x / number: the divisor is the one-key multivector {e: number} on both sides, no scope needed
       beyond the relation of the dividend when d <= 5; for d >= 6 the divisor is related strongly to itself *)
    Theorem div_number_congr x x' c : inv_scope -> sr x x' ->
      res_rel sr (div_number O dv isz F A x c) (div_number O dv isz F A x' c).
    Proof. intros Hs H. apply div_model_congr; [exact Hs | exact H | apply srel_scalar]. Qed.

    Lemma fold_mul_congr {X} (l : list X) xi xi' : sr xi xi' -> forall r r', sr r r' ->
      sr (fold_left (fun r _ => i_mul O F A r xi) l r) (fold_left (fun r _ => i_mul O F A r xi') l r').
    Proof.
      intros Hxi. induction l as [|a l IH]; intros r r' Hr; cbn [fold_left]; [exact Hr|].
      apply IH. apply srel_imul; assumption.
    Qed.

    (* x ** p: every integer p; the inverse is only used for p < 0 *)
    Theorem pow_model_congr x x' p : (0 <= p \/ inv_scope) -> sr x x' ->
      res_rel sr (pow_model O dv isz F A x p) (pow_model O dv isz F A x' p).
    Proof.
      intros Hs H. unfold pow_model. destruct (Z.eqb p 0); [cbn [res_rel]; apply srel_blade_e|].
      destruct (Z.ltb p 0) eqn:E.
      - apply Z.ltb_lt in E. destruct Hs as [Hp|Hs]; [lia|].
        apply (res_rel_bind sr sr); [apply inv_model_congr; assumption|].
        intros xi xi' Hxi. cbn [res_rel]. apply fold_mul_congr; assumption.
      - cbn [res_rel]. apply fold_mul_congr; assumption.
    Qed.
  End InvDivPow.

  (* ================= the statements of Props/C08.v, in terms of == and same_keys ================= *)
  Definition res_equiv : res (mv R) -> res (mv R) -> Prop := res_rel (fun r r' => r == r').
  (* ... and the results store the same set of blades *)
  Definition res_same : res (mv R) -> res (mv R) -> Prop := res_rel (fun r r' => r == r' /\ same_keys r r').

  Lemma srel_of b x x' : NoDup (keys x) -> NoDup (keys x') -> x == x' ->
    (b = true -> same_keys x x') -> srel b x x'.
  Proof. intros. split; [|split; [|split]]; assumption. Qed.
  Lemma res_equiv_of b r r' : res_rel (srel b) r r' -> res_equiv r r'.
  Proof. apply res_rel_mono. intros v v' (_ & _ & H & _). exact H. Qed.
  Lemma res_same_of r r' : res_rel (srel true) r r' -> res_same r r'.
  Proof. apply res_rel_mono. intros v v' (_ & _ & H & K). split; [exact H | apply K; reflexivity]. Qed.

  (* operands in the scope of the theorems: any == operands for d <= 5, == operands storing the same set of
     blades (in any order) for d >= 6 *)
  Definition restored (x x' : mv R) : Prop :=
    NoDup (keys x) /\ NoDup (keys x') /\ x == x' /\ ((a_d A < 6)%nat \/ same_keys x x').
  (* without the restriction for d >= 6 *)
  Definition restored_any (x x' : mv R) : Prop := NoDup (keys x) /\ NoDup (keys x') /\ x == x'.

  Lemma restored_srel x x' : restored x x' -> exists b, srel b x x' /\ inv_scope b.
  Proof.
    intros (H1 & H2 & H3 & [Hd|Hk]).
    - exists false. split; [apply srel_of; auto; discriminate | right; exact Hd].
    - exists true. split; [apply srel_of; auto | left; reflexivity].
  Qed.
  (* two operands: one flag for both *)
  Lemma restored_srel2 x x' y y' : restored x x' -> restored y y' ->
    exists b, srel b x x' /\ srel b y y' /\ inv_scope b.
  Proof.
    intros (H1 & H2 & H3 & H4) (G1 & G2 & G3 & G4).
    destruct (Nat.ltb (a_d A) 6) eqn:E.
    - apply Nat.ltb_lt in E. exists false. split; [|split]; [apply srel_of; auto; discriminate .. | right; exact E].
    - apply Nat.ltb_ge in E. destruct H4 as [H4|H4]; [lia|]. destruct G4 as [G4|G4]; [lia|].
      exists true. split; [|split]; [apply srel_of; auto .. | left; reflexivity].
  Qed.

  (* the two re-storages the property names: permuting the key tuple (every dimension), storing explicit
     zeros on extra blades (d <= 5; always for restored_any) *)
  Lemma restored_perm x x' : NoDup (keys x) -> Permutation x x' -> restored x x'.
  Proof.
    intros Hn Hp. destruct (srel_perm x x' Hn Hp) as (H1 & H2 & H3 & H4).
    split; [|split; [|split]]; auto.
  Qed.
  Lemma restored_any_pad x ks : NoDup (keys x ++ ks) -> restored_any x (x ++ map (fun k => (k, rO)) ks).
  Proof. intros Hn. destruct (srel_pad x ks Hn) as (H1 & H2 & H3 & _). split; [|split]; auto. Qed.
  Lemma restored_pad x ks : (a_d A < 6)%nat -> NoDup (keys x ++ ks) ->
    restored x (x ++ map (fun k => (k, rO)) ks).
  Proof. intros Hd Hn. destruct (srel_pad x ks Hn) as (H1 & H2 & H3 & _). split; [|split; [|split]]; auto. Qed.

  Section Statements.
    Variable dv : R -> R -> R.
    Variable isz : R -> bool.
    Variable F : mv R -> mv R.
    Hypothesis HF : filter_respects F.

    Theorem hitzer_num_storage_independent x x' : restored_any x x' ->
      res_equiv (hitzer_num O F A x) (hitzer_num O F A x').
    Proof.
      intros (H1 & H2 & H3). apply (res_equiv_of false). apply hitzer_num_congr; [apply HF|].
      apply srel_of; auto; discriminate.
    Qed.

    Theorem hitzer_storage_independent x x' : restored_any x x' ->
      res_rel (fun p p' => fst p == fst p' /\ snd p = snd p') (hitzer O F A x) (hitzer O F A x').
    Proof.
      intros (H1 & H2 & H3).
      apply (res_rel_mono (pr_rel false)); [intros p p' [(_ & _ & E & _) Ed]; split; assumption|].
      apply hitzer_congr; [apply HF|]. apply srel_of; auto; discriminate.
    Qed.

    (* the whole loop state after the for loop, for operands that store the same set of blades *)
    Theorem shirokov_storage_independent x x' :
      NoDup (keys x) -> NoDup (keys x') -> x == x' -> same_keys x x' ->
      res_rel (fun r r' =>
                 let '(i, xi, xs, cs) := r in
                 let '(i', xi', xs', cs') := r' in
                 i = i' /\ (xi == xi' /\ same_keys xi xi')
                 /\ Forall2 (fun u u' => u == u' /\ same_keys u u') xs xs' /\ cs = cs')
              (shirokov_run O dv isz F A x) (shirokov_run O dv isz F A x').
    Proof.
      intros H1 H2 H3 H4. apply (res_rel_mono (st_rel true)).
      - intros [[[i xi] xs] cs] [[[i' xi'] xs'] cs'] (E1 & E2 & E3 & E4).
        split; [exact E1 | split; [|split; [|exact E4]]].
        + destruct E2 as (_ & _ & E & K). split; [exact E | apply K; reflexivity].
        + eapply Forall2_mono; [|exact E3]. intros u u' (_ & _ & E & K). split; [exact E | apply K; reflexivity].
      - apply shirokov_run_congr; [apply HF | reflexivity | apply srel_of; auto].
    Qed.

    Theorem inverse_storage_independent x x' : restored x x' ->
      res_equiv (inv_model O dv isz F A x) (inv_model O dv isz F A x').
    Proof.
      intros H. destruct (restored_srel x x' H) as (b & Hr & Hs).
      apply (res_equiv_of b). apply inv_model_congr; [apply HF | exact Hs | exact Hr].
    Qed.

    (* operands storing the same blades: the inverses store the same blades too *)
    Theorem inverse_storage_independent_keys x x' :
      NoDup (keys x) -> NoDup (keys x') -> x == x' -> same_keys x x' ->
      res_same (inv_model O dv isz F A x) (inv_model O dv isz F A x').
    Proof.
      intros H1 H2 H3 H4. apply res_same_of. apply inv_model_congr; [apply HF | left; reflexivity|].
      apply srel_of; auto.
    Qed.

    (* a / b, both operands re-stored; the dividend is never restricted *)
    Theorem division_storage_independent a a' y y' : restored_any a a' -> restored y y' ->
      res_equiv (div_model O dv isz F A a y) (div_model O dv isz F A a' y').
    Proof.
      intros (H1 & H2 & H3) (G1 & G2 & G3 & [Hd|Hk]).
      - apply (res_equiv_of false).
        apply div_model_congr; [apply HF | right; exact Hd | apply srel_of; auto; discriminate ..].
      - (* d >= 6 possible: the dividend only enters through one final product *)
        unfold div_model.
        assert (Hn : res_rel (pr_rel true) (inv_numden O dv isz F A y) (inv_numden O dv isz F A y')).
        { apply inv_numden_congr; [apply HF | left; reflexivity | apply srel_of; auto]. }
        apply (res_equiv_of false). apply (res_rel_bind (pr_rel true) (srel false)); [exact Hn|].
        intros [num den] [num' den'] [E1 E2]. cbn [fst snd] in E1, E2. subst den'.
        destruct (isz den); cbn [res_rel]; [reflexivity|].
        apply srel_imul; [apply HF | | apply srel_scalar].
        apply srel_imul; [apply HF | apply srel_of; auto; discriminate | apply (srel_weaken true); exact E1].
    Qed.

    Theorem rdivision_storage_independent c x x' : restored x x' ->
      res_equiv (rdiv_number O dv isz F A c x) (rdiv_number O dv isz F A c x').
    Proof.
      intros H. destruct (restored_srel x x' H) as (b & Hr & Hs).
      apply (res_equiv_of b). apply rdiv_number_congr; [apply HF | exact Hs | exact Hr].
    Qed.

    (* x / number: every dimension, any == operands (the divisor is literally the same scalar) *)
    Theorem division_by_number_storage_independent x x' c : restored_any x x' ->
      res_equiv (div_number O dv isz F A x c) (div_number O dv isz F A x' c).
    Proof.
      intros H. apply division_storage_independent; [exact H|].
      split; [|split; [|split]]; try (cbn; constructor; [intros [] | constructor]).
      - intros K. reflexivity.
      - right. apply same_keys_refl.
    Qed.

    (* x ** p for every integer p: p >= 0 in every dimension for any == operands, p < 0 as the inverse *)
    Theorem power_storage_independent x x' p : restored_any x x' -> (0 <= p \/ restored x x') ->
      res_equiv (pow_model O dv isz F A x p) (pow_model O dv isz F A x' p).
    Proof.
      intros (H1 & H2 & H3) [Hp|H].
      - apply (res_equiv_of false). apply pow_model_congr; [apply HF | left; exact Hp|].
        apply srel_of; auto; discriminate.
      - destruct (restored_srel x x' H) as (b & Hr & Hs).
        apply (res_equiv_of b). apply pow_model_congr; [apply HF | right; exact Hs | exact Hr].
    Qed.
  End Statements.
End Congr.

(* ================= non-vacuity: concrete operands, computed ================= *)
Section ExamplesQc.
  Local Notation eqv := (Sparse.equiv (Q2Qc 0) (Q2Qc 1) Qcplus Qcmult Qcminus Qcopp).
  Local Notation restoredQ := (restored Qc (Q2Qc 0) (Q2Qc 1) Qcplus Qcmult Qcminus Qcopp).
  Local Notation restored_anyQ := (restored_any Qc (Q2Qc 0) (Q2Qc 1) Qcplus Qcmult Qcminus Qcopp).
  Local Notation res_equivQ := (res_equiv Qc (Q2Qc 0) (Q2Qc 1) Qcplus Qcmult Qcminus Qcopp).
  Local Open Scope Z_scope.

  Definition qz (z : Z) : Qc := Q2Qc (z # 1).
  Definition qmv_eqb (x y : mv Qc) : bool :=
    forallb (fun K => Qc_eq_bool (coeff Qcops K x) (coeff Qcops K y)) (keys x ++ keys y).
  Lemma qmv_eqb_sound x y : qmv_eqb x y = true -> eqv x y.
  Proof.
    intros H. apply equiv_by_keys. intros K HK. unfold qmv_eqb in H. rewrite forallb_forall in H.
    apply Qc_eq_bool_correct. apply H. exact HK.
  Qed.
  Lemma not_res_equiv_witness (r r' : res (mv Qc)) K :
    match r, r' with
    | Ok v, Ok v' => Qc_eq_bool (coeff Qcops K v) (coeff Qcops K v') = false
    | _, _ => True
    end -> (exists v v', r = Ok v /\ r' = Ok v') -> ~ res_equivQ r r'.
  Proof.
    intros H (v & v' & -> & ->) E. cbn [res_equiv res_rel] in E. pose proof (E K) as EK.
    change (coeff Qcops K v = coeff Qcops K v') in EK. rewrite EK in H.
    assert (T : Qc_eq_bool (coeff Qcops K v') (coeff Qcops K v') = true).
    { unfold Qc_eq_bool. destruct (Qc_eq_dec (coeff Qcops K v') (coeff Qcops K v')) as [_|N]; [reflexivity|].
      exfalso. apply N. reflexivity. }
    congruence.
  Qed.

  (* --- d = 3, signature (+,+,-): 2 + e1 + 5 e12 + e123, and the same element stored in another order with
     explicit zeros on e2 and e13 --- *)
  Definition exA3 : alg := mk_default [1; 1; -1] 1 false.
  Definition ex_x : mv Qc := [(0, qz 2); (1, qz 1); (3, qz 5); (7, qz 1)].
  Definition ex_x' : mv Qc := [(7, qz 1); (2, qz 0); (1, qz 1); (0, qz 2); (5, qz 0); (3, qz 5)].

  Example ex_A3_nodup : NoDup (canon_keys exA3).
  Proof. apply znodupb_NoDup. vm_compute. reflexivity. Qed.
  Example ex_restored : restoredQ exA3 ex_x ex_x'.
  Proof.
    split; [|split; [|split]].
    - apply znodupb_NoDup. vm_compute. reflexivity.
    - apply znodupb_NoDup. vm_compute. reflexivity.
    - apply qmv_eqb_sound. vm_compute. reflexivity.
    - left. vm_compute. lia.
  Qed.
  (* both inverses are computed and have the same coefficient on every blade *)
  Example ex_inverse_computed :
    match inv_model Qcops Qcdiv Qcisz idF exA3 ex_x, inv_model Qcops Qcdiv Qcisz idF exA3 ex_x' with
    | Ok r, Ok r' => qmv_eqb r r' = true
                     /\ map (fun kv => (fst kv, this (snd kv))) r
                        = [(0, (18 # 275)%Q); (1, (-29 # 825)%Q); (2, (0 # 1)%Q); (4, (-4 # 165)%Q); (3, (-29 # 165)%Q); (5, (0 # 1)%Q);
                           (6, (4 # 825)%Q); (7, (7 # 275)%Q)]
    | _, _ => False
    end.
  Proof. vm_compute. split; reflexivity. Qed.
  (* ... as the theorem says *)
  Example ex_inverse_instance :
    res_equivQ (inv_model Qcops Qcdiv Qcisz idF exA3 ex_x) (inv_model Qcops Qcdiv Qcisz idF exA3 ex_x').
  Proof.
    exact (inverse_storage_independent Qc (Q2Qc 0) (Q2Qc 1) Qcplus Qcmult Qcminus Qcopp Qcrt exA3 ex_A3_nodup
             Qcdiv Qcisz idF (filter_respects_id Qc (Q2Qc 0) (Q2Qc 1) Qcplus Qcmult Qcminus Qcopp) ex_x ex_x' ex_restored).
  Qed.
  (* only the SET of stored blades may differ: (2 + e1)^-1 stores e, e1; with a stored zero on e12 in the
     operand it stores e, e1, e2, e12 (two more zeros) *)
  Example ex_padded_keys_differ :
    let y := [(1, qz 1); (0, qz 2)] in
    let y' := [(0, qz 2); (3, qz 0); (1, qz 1)] in
    restoredQ exA3 y y' /\
    match inv_model Qcops Qcdiv Qcisz idF exA3 y, inv_model Qcops Qcdiv Qcisz idF exA3 y' with
    | Ok r, Ok r' => qmv_eqb r r' = true /\ keys r = [0; 1] /\ keys r' = [0; 1; 2; 3]
    | _, _ => False
    end.
  Proof.
    split.
    - split; [|split; [|split]].
      + apply znodupb_NoDup. vm_compute. reflexivity.
      + apply znodupb_NoDup. vm_compute. reflexivity.
      + apply qmv_eqb_sound. vm_compute. reflexivity.
      + left. vm_compute. lia.
    - vm_compute. repeat split; reflexivity.
  Qed.
  (* division and a negative power of the re-stored operands, computed *)
  Example ex_div_pow_computed :
    match div_model Qcops Qcdiv Qcisz idF exA3 ex_x' ex_x, div_model Qcops Qcdiv Qcisz idF exA3 ex_x ex_x',
          pow_model Qcops Qcdiv Qcisz idF exA3 ex_x (-2), pow_model Qcops Qcdiv Qcisz idF exA3 ex_x' (-2) with
    | Ok r, Ok r', Ok p, Ok p' => qmv_eqb r r' = true /\ qmv_eqb r [(0, qz 1)] = true /\ qmv_eqb p p' = true
    | _, _, _, _ => False
    end.
  Proof. vm_compute. repeat split; reflexivity. Qed.
  (* the error branch: 1 + e1 is a zero divisor, both storages raise ZeroDivisionError *)
  Example ex_zde_both :
    inv_model Qcops Qcdiv Qcisz idF exA3 [(0, qz 1); (1, qz 1)] = Err EZeroDiv
    /\ inv_model Qcops Qcdiv Qcisz idF exA3 [(1, qz 1); (3, qz 0); (0, qz 1)] = Err EZeroDiv.
  Proof. vm_compute. split; reflexivity. Qed.

  (* --- d = 6 (Shirokov), symbolic-style filter: 1 + 2 e1 + 3 e23 and a permuted storage --- *)
  Definition exA6 : alg := mk_default [1; 1; 1; 1; -1; 0] 1 false.
  Definition ex_u : mv Qc := [(1, qz 2); (0, qz 1); (6, qz 3)].
  Definition ex_u' : mv Qc := [(0, qz 1); (6, qz 3); (1, qz 2)].
  Example ex_A6_nodup : NoDup (canon_keys exA6).
  Proof. apply znodupb_NoDup. vm_compute. reflexivity. Qed.
  Example ex_restored6 : restoredQ exA6 ex_u ex_u'.
  Proof.
    apply restored_perm; [apply znodupb_NoDup; vm_compute; reflexivity|].
    apply (Permutation_cons_append [(0, qz 1); (6, qz 3)] (1, qz 2)).
  Qed.
  (* the same break round, equal coefficient lists, and the inverse 1/30 + 2/15 e1 - 7/30 e23 + 1/15 e123 *)
  Example ex_shirokov_computed :
    match shirokov_run Qcops Qcdiv Qcisz (filter_nz Qcisz) exA6 ex_u,
          shirokov_run Qcops Qcdiv Qcisz (filter_nz Qcisz) exA6 ex_u' with
    | Ok (i, xi, _, cs), Ok (i', xi', _, cs') =>
        i = 8%nat /\ i' = 8%nat /\ grades_is_0 xi = true /\ map this cs = map this cs' /\ length cs = 7%nat
    | _, _ => False
    end
    /\ match inv_model Qcops Qcdiv Qcisz (filter_nz Qcisz) exA6 ex_u,
             inv_model Qcops Qcdiv Qcisz (filter_nz Qcisz) exA6 ex_u' with
       | Ok r, Ok r' => qmv_eqb r r' = true
                        /\ map (fun kv => (fst kv, this (snd kv))) r = [(0, (1 # 30)%Q); (1, (2 # 15)%Q); (6, (-7 # 30)%Q); (7, (1 # 15)%Q)]
       | _, _ => False
       end.
  Proof. vm_compute. repeat split; reflexivity. Qed.
  Example ex_shirokov_instance :
    res_equivQ (inv_model Qcops Qcdiv Qcisz (filter_nz Qcisz) exA6 ex_u)
               (inv_model Qcops Qcdiv Qcisz (filter_nz Qcisz) exA6 ex_u').
  Proof.
    exact (inverse_storage_independent Qc (Q2Qc 0) (Q2Qc 1) Qcplus Qcmult Qcminus Qcopp Qcrt exA6 ex_A6_nodup
             Qcdiv Qcisz (filter_nz Qcisz)
             (filter_respects_nz Qc (Q2Qc 0) (Q2Qc 1) Qcplus Qcmult Qcminus Qcopp Qcisz Qc_isz_exact) ex_u ex_u' ex_restored6).
  Qed.

  (* --- why "the same stored blades" cannot be dropped for d >= 6 ---
     numeric evaluation (nothing filtered), the scalar 2 stored as {e: 2} and as {e: 2, e1: 0}: the first run
     breaks in round 1 and returns 1/2; in the second xi never has the grade tuple (0,), the loop is exhausted
     and adj = xs[-1] - cs[-1] is 0: the two stored forms of one element get DIFFERENT "inverses" *)
  Example shirokov_padded_numeric_refuted :
    let x := [(0, qz 2)] in
    let x' := [(0, qz 2); (1, qz 0)] in
    restored_anyQ x x' /\
    (exists i i' xi xi' xs xs' cs cs',
        shirokov_run Qcops Qcdiv Qcisz idF exA6 x = Ok (i, xi, xs, cs)
        /\ shirokov_run Qcops Qcdiv Qcisz idF exA6 x' = Ok (i', xi', xs', cs') /\ i = 1%nat /\ i' = 8%nat) /\
    ~ res_equivQ (inv_model Qcops Qcdiv Qcisz idF exA6 x) (inv_model Qcops Qcdiv Qcisz idF exA6 x').
  Proof.
    split; [|split].
    - split; [|split].
      + apply znodupb_NoDup. vm_compute. reflexivity.
      + apply znodupb_NoDup. vm_compute. reflexivity.
      + apply qmv_eqb_sound. vm_compute. reflexivity.
    - destruct (shirokov_run Qcops Qcdiv Qcisz idF exA6 [(0, qz 2)]) as [[[[i xi] xs] cs]|e] eqn:E1;
        [|vm_compute in E1; discriminate].
      destruct (shirokov_run Qcops Qcdiv Qcisz idF exA6 [(0, qz 2); (1, qz 0)]) as [[[[i' xi'] xs'] cs']|e] eqn:E2;
        [|vm_compute in E2; discriminate].
      exists i, i', xi, xi', xs, xs', cs, cs'. split; [reflexivity | split; [reflexivity|]].
      vm_compute in E1. vm_compute in E2. inversion E1. inversion E2. split; reflexivity.
    - apply (not_res_equiv_witness _ _ 0).
      + vm_compute. reflexivity.
      + destruct (inv_model Qcops Qcdiv Qcisz idF exA6 [(0, qz 2)]) as [v|e] eqn:E1; [|vm_compute in E1; discriminate].
        destruct (inv_model Qcops Qcdiv Qcisz idF exA6 [(0, qz 2); (1, qz 0)]) as [v'|e] eqn:E2;
          [|vm_compute in E2; discriminate].
        exists v, v'. split; reflexivity.
  Qed.
  (* with the exact zero filter (the stored zero disappears after the first product) the two runs still break
     in different rounds, 1 and 2, but return the same value 1/2: equal values here are Shirokov's theorem,
     not a congruence *)
  Example shirokov_padded_filtered_computed :
    let x := [(0, qz 2)] in
    let x' := [(0, qz 2); (1, qz 0)] in
    match shirokov_run Qcops Qcdiv Qcisz (filter_nz Qcisz) exA6 x,
          shirokov_run Qcops Qcdiv Qcisz (filter_nz Qcisz) exA6 x' with
    | Ok (i, _, _, _), Ok (i', _, _, _) => i = 1%nat /\ i' = 2%nat
    | _, _ => False
    end
    /\ match inv_model Qcops Qcdiv Qcisz (filter_nz Qcisz) exA6 x,
             inv_model Qcops Qcdiv Qcisz (filter_nz Qcisz) exA6 x' with
       | Ok r, Ok r' => qmv_eqb r r' = true /\ map (fun kv => (fst kv, this (snd kv))) r = [(0, (1 # 2)%Q)]
       | _, _ => False
       end.
  Proof. vm_compute. repeat split; reflexivity. Qed.
End ExamplesQc.
