(* Theory/SignBits.v — the name-level sign theory (Theory/Sign.v) lifted to kingdon's bit-keyed sign
   table, for EVERY well-formed algebra (wf_alg A = true, Theory/WF.v).

   1. structure of a well-formed algebra: generators <-> bit positions, bin2canon is total on
      [0, 2^d), names <-> bits, the name of I xor J is a permutation of the symmetric difference;
   2. _compute_sign never raises on in-range keys and returns the closed-form name-level sign;
   3. the Clifford relations for the table  sgn A : Z -> Z -> Z;
   4. examples. *)
From Coq Require Import Lia Permutation ZArith List Bool Arith.
From KV Require Import Model.All Theory.WF Theory.Words Theory.Sign Theory.Bits.
Local Open Scope Z_scope.

(* ====================================================================================== *)
(** * 0. Definitions *)

(* vecs of Algebra.__post_init__: the names of length 1, in basis order *)
Definition alg_vecs (A : alg) : list nat := vecs_of (map fst (a_c2b A)).

(* bit position of a generator digit, read off vec2bin (vec2bin[g] = 2 ** pos g) *)
Definition vpos (vecs : list nat) (g : nat) : Z :=
  match vec2bin_from 0 vecs g with Some b => Z.log2 b | None => 0 end.
Definition gpos (A : alg) (g : nat) : Z := vpos (alg_vecs A) g.

(* the metric: signature[int(g, 16) - start_index]; 0 where the lookup raises *)
Definition metric (A : alg) (g : nat) : Z := match sig_at A g with Some v => v | None => 0 end.

(* the key of the generator e_g *)
Definition genbit (A : alg) (g : nat) : Z := gen_bin A g.

(* the table's spelling of a key ([] where bin2canon raises) *)
Definition nm (A : alg) (k : Z) : name := match bin2canon A k with Some n => n | None => [] end.

(* one step of "multiply the blade with key k (accumulated sign s) by the generator e_g, through the table" *)
Definition op_step (A : alg) : Z * Z -> nat -> Z * Z :=
  fun '(s, k) g => (s * sgn A k (genbit A g), Z.lxor k (genbit A g)).
(* the keys of the successive partial products  k.g1, k.g1.g2, ... *)
Fixpoint partials (A : alg) (k : Z) (gs : name) : list Z :=
  match gs with
  | [] => []
  | g :: r => Z.lxor k (genbit A g) :: partials A (Z.lxor k (genbit A g)) r
  end.

(* ====================================================================================== *)
(** * 0'. Reflection and list lemmas *)

Lemma nodupb_NoDup l : nodupb l = true -> NoDup l.
Proof.
  induction l as [|x r IH]; cbn [nodupb]; intros H; [constructor|].
  apply andb_prop in H. destruct H as [Hx Hr]. constructor; [|apply IH; exact Hr].
  intro Hin. apply negb_true_iff in Hx.
  assert (E : existsb (Nat.eqb x) r = true).
  { apply existsb_exists. exists x. split; [exact Hin | apply Nat.eqb_refl]. }
  congruence.
Qed.

Lemma znodupb_NoDup l : znodupb l = true -> NoDup l.
Proof.
  induction l as [|x r IH]; cbn [znodupb]; intros H; [constructor|].
  apply andb_prop in H. destruct H as [Hx Hr]. constructor; [|apply IH; exact Hr].
  intro Hin. apply negb_true_iff in Hx.
  assert (E : existsb (Z.eqb x) r = true).
  { apply existsb_exists. exists x. split; [exact Hin | apply Z.eqb_refl]. }
  congruence.
Qed.

Lemma opt_eqb_Some (x : option Z) b : opt_eqb Z.eqb x (Some b) = true -> x = Some b.
Proof. destruct x as [a|]; cbn [opt_eqb]; intros H; [|discriminate]. apply Z.eqb_eq in H. congruence. Qed.

Lemma name_eqb_eq (a b : name) : name_eqb a b = true <-> a = b.
Proof.
  unfold name_eqb. revert b. induction a as [|x r IH]; intros [|y s]; cbn [list_eqb];
    try (split; [discriminate | discriminate]); [tauto|].
  rewrite andb_true_iff, Nat.eqb_eq, IH. split; [intros [-> ->]; reflexivity | intros H; inversion H; auto].
Qed.

Lemma find_by_bin_In k l n : find_by_bin k l = Some n -> In (n, k) l.
Proof.
  induction l as [|[n' b] r IH]; cbn [find_by_bin]; [discriminate|].
  destruct (Z.eqb_spec b k) as [->|Hne]; intros H.
  - left. congruence.
  - right. apply IH. exact H.
Qed.

Lemma find_by_bin_complete k l n : NoDup (map snd l) -> In (n, k) l -> find_by_bin k l = Some n.
Proof.
  induction l as [|[n' b] r IH]; cbn [find_by_bin map snd]; intros Hnd Hin; [destruct Hin|].
  inversion Hnd as [|b' r' Hb Hr]; subst. destruct Hin as [E|Hin].
  - injection E as -> ->. rewrite Z.eqb_refl. reflexivity.
  - destruct (Z.eqb_spec b k) as [->|Hne]; [|apply IH; assumption].
    exfalso. apply Hb. apply in_map_iff. exists (n, k). split; [reflexivity | exact Hin].
Qed.

Lemma find_by_name_In n l b : find_by_name n l = Some b -> In (n, b) l.
Proof.
  induction l as [|[n' b'] r IH]; cbn [find_by_name]; [discriminate|].
  destruct (name_eqb n' n) eqn:E; intros H.
  - apply name_eqb_eq in E. left. congruence.
  - right. apply IH. exact H.
Qed.

Lemma find_by_name_ex n l b : In (n, b) l -> exists b', find_by_name n l = Some b'.
Proof.
  induction l as [|[n' b'] r IH]; cbn [find_by_name]; intros Hin; [destruct Hin|].
  destruct (name_eqb n' n) eqn:E; [eexists; reflexivity|].
  destruct Hin as [H|Hin]; [|apply IH; exact Hin].
  injection H as -> ->. assert (E' : name_eqb n n = true) by (apply name_eqb_eq; reflexivity). congruence.
Qed.

Lemma NoDup_map_inj_in {X Y} (f : X -> Y) (l : list X) :
  (forall x y, In x l -> In y l -> f x = f y -> x = y) -> NoDup l -> NoDup (map f l).
Proof.
  induction l as [|x r IH]; intros Hinj Hnd; [constructor|].
  inversion Hnd as [|x' r' Hx Hr]; subst. cbn [map]. constructor.
  - intro Hc. apply in_map_iff in Hc. destruct Hc as (y & Hy & Hyr).
    apply Hx. rewrite (Hinj x y); [exact Hyr | left; reflexivity | right; exact Hyr | symmetry; exact Hy].
  - apply IH; [|exact Hr]. intros a b Ha Hb. apply Hinj; right; assumption.
Qed.

Lemma In_vecs_of g basis : In g (vecs_of basis) <-> In [g] basis.
Proof.
  unfold vecs_of. rewrite in_flat_map. split.
  - intros (n & Hn & Hg). destruct n as [|x [|y r]]; [destruct Hg | | destruct Hg].
    destruct Hg as [->|[]]. exact Hn.
  - intros H. exists [g]. split; [exact H | left; reflexivity].
Qed.

(* Sign.In_common carries a spurious metric argument *)
Lemma In_common' g a b : In g (common a b) <-> In g a /\ In g b.
Proof. unfold common. rewrite filter_In, mem_In. tauto. Qed.

Lemma Zodd_of_nat n : Z.odd (Z.of_nat n) = Nat.odd n.
Proof.
  pose proof (Zodd_add_nat 0 n) as H. rewrite Z.add_0_l in H. rewrite H.
  change (Z.odd 0) with false. apply xorb_false_l.
Qed.

Lemma last_cons_def {X} (x : X) l d : last (x :: l) d = last l x.
Proof.
  revert x d. induction l as [|y l IH]; intros x d; [reflexivity|].
  change (last (x :: y :: l) d) with (last (y :: l) d). rewrite (IH y d), (IH y x). reflexivity.
Qed.

Lemma last_map {X Y} (f : X -> Y) l d : last (map f l) (f d) = f (last l d).
Proof.
  revert d. induction l as [|x l IH]; intros d; [reflexivity|].
  cbn [map]. rewrite !last_cons_def. apply IH.
Qed.

Lemma pow2_bit p k : 0 <= p -> Z.testbit (2 ^ p) k = (p =? k).
Proof. intros Hp. apply Z.pow2_bits_eqb. exact Hp. Qed.

Lemma popcount_pow2 p : 0 <= p -> popcount (2 ^ p) = 1.
Proof.
  intros Hp. pattern p. apply natlike_ind; [reflexivity| |exact Hp].
  intros x Hx IH. rewrite Z.pow_succ_r by exact Hx.
  rewrite popcount_double; [exact IH|]. pose proof (pow2_pos x Hx). lia.
Qed.

(* pigeonhole: a duplicate-free list of n numbers below n enumerates 0 .. n-1 *)
Lemma pigeon_nat (l : list nat) n :
  NoDup l -> length l = n -> (forall x, In x l -> (x < n)%nat) -> Permutation l (seq 0 n).
Proof.
  intros Hnd Hlen Hlt. apply NoDup_Permutation_bis; [exact Hnd | rewrite seq_length; lia |].
  intros x Hx. apply in_seq. specialize (Hlt x Hx). lia.
Qed.

(* ====================================================================================== *)
(** * 1a. vec2bin and name_bin over a duplicate-free generator list *)

Lemma vec2bin_from_notin vecs : forall j g, ~ In g vecs -> vec2bin_from j vecs g = None.
Proof.
  induction vecs as [|v r IH]; intros j g Hg; [reflexivity|]. cbn [vec2bin_from].
  rewrite IH by (intro Hc; apply Hg; right; exact Hc).
  destruct (Nat.eqb_spec v g) as [->|Hne]; [exfalso; apply Hg; left; reflexivity | reflexivity].
Qed.

Lemma vec2bin_from_nth vecs : forall j i g, NoDup vecs -> nth_error vecs i = Some g ->
  vec2bin_from j vecs g = Some (2 ^ Z.of_nat (j + i)).
Proof.
  induction vecs as [|v r IH]; intros j i g Hnd Hi; [destruct i; discriminate|].
  inversion Hnd as [|v' r' Hv Hr]; subst. cbn [vec2bin_from]. destruct i as [|i]; cbn [nth_error] in Hi.
  - injection Hi as ->. rewrite (vec2bin_from_notin r (S j) g Hv), Nat.eqb_refl, Nat.add_0_r. reflexivity.
  - rewrite (IH (S j) i g Hr Hi). do 2 f_equal. lia.
Qed.

Section Vecs.
Variable vecs : list nat.
Hypothesis Hnd : NoDup vecs.

Lemma vpos_nth i g : nth_error vecs i = Some g -> vpos vecs g = Z.of_nat i.
Proof.
  intros Hi. unfold vpos. rewrite (vec2bin_from_nth vecs 0 i g Hnd Hi). cbn [Nat.add].
  apply Z.log2_pow2. lia.
Qed.

Lemma vpos_range g : In g vecs -> 0 <= vpos vecs g < Z.of_nat (length vecs).
Proof.
  intros Hg. destruct (In_nth_error _ _ Hg) as (i & Hi). rewrite (vpos_nth i g Hi).
  assert (i < length vecs)%nat by (apply nth_error_Some; congruence). lia.
Qed.

Lemma vpos_nth_iff i g : In g vecs -> (nth_error vecs i = Some g <-> vpos vecs g = Z.of_nat i).
Proof.
  intros Hg. split; [apply vpos_nth|]. intros H.
  destruct (In_nth_error _ _ Hg) as (i' & Hi'). rewrite (vpos_nth i' g Hi') in H.
  apply Nat2Z.inj in H. subst i'. exact Hi'.
Qed.

Lemma vpos_inj g h : In g vecs -> In h vecs -> vpos vecs g = vpos vecs h -> g = h.
Proof.
  intros Hg Hh E. destruct (In_nth_error _ _ Hg) as (i & Hi). destruct (In_nth_error _ _ Hh) as (j & Hj).
  rewrite (vpos_nth i g Hi), (vpos_nth j h Hj) in E. apply Nat2Z.inj in E. subst j. congruence.
Qed.

(* every position below the number of generators is the position of a generator *)
Lemma vpos_surj j : 0 <= j < Z.of_nat (length vecs) -> exists g, In g vecs /\ vpos vecs g = j.
Proof.
  intros Hj. destruct (nth_error vecs (Z.to_nat j)) as [g|] eqn:E.
  - exists g. split; [apply (nth_error_In _ _ E) | rewrite (vpos_nth _ _ E); lia].
  - apply nth_error_None in E. lia.
Qed.

Lemma vec2bin_pos g : In g vecs -> vec2bin_from 0 vecs g = Some (2 ^ vpos vecs g).
Proof.
  intros Hg. destruct (In_nth_error _ _ Hg) as (i & Hi).
  rewrite (vpos_nth i g Hi), (vec2bin_from_nth vecs 0 i g Hnd Hi). reflexivity.
Qed.

Lemma vec2bin_Some_iff g : (exists b, vec2bin_from 0 vecs g = Some b) <-> In g vecs.
Proof.
  split.
  - intros (b & Hb). destruct (in_dec Nat.eq_dec g vecs) as [H|H]; [exact H|].
    rewrite (vec2bin_from_notin vecs 0 g H) in Hb. discriminate.
  - intros Hg. eexists. apply vec2bin_pos. exact Hg.
Qed.

Lemma name_bin_in n : forall b, name_bin vecs n = Some b -> forall g, In g n -> In g vecs.
Proof.
  induction n as [|x r IH]; intros b Hb g Hg; [destruct Hg|]. cbn [name_bin] in Hb.
  destruct (vec2bin_from 0 vecs x) as [bx|] eqn:Ex; [|discriminate].
  destruct (name_bin vecs r) as [acc|] eqn:Er; [|discriminate].
  destruct Hg as [<-|Hg]; [apply vec2bin_Some_iff; eexists; exact Ex | apply (IH acc eq_refl g Hg)].
Qed.

Lemma name_bin_total n : (forall g, In g n -> In g vecs) -> exists b, name_bin vecs n = Some b.
Proof.
  induction n as [|x r IH]; intros H; [exists 0; reflexivity|]. cbn [name_bin].
  rewrite (vec2bin_pos x (H x (or_introl eq_refl))).
  destruct IH as (acc & ->); [intros g Hg; apply H; right; exact Hg|]. eexists; reflexivity.
Qed.

Lemma name_bin_cons g r b :
  name_bin vecs (g :: r) = Some b ->
  exists acc, name_bin vecs r = Some acc /\ In g vecs /\ b = Z.lxor (2 ^ vpos vecs g) acc.
Proof.
  intros Hb. assert (Hg : In g vecs) by (apply (name_bin_in _ _ Hb); left; reflexivity).
  cbn [name_bin] in Hb. rewrite (vec2bin_pos g Hg) in Hb.
  destruct (name_bin vecs r) as [acc|]; [|discriminate]. exists acc. injection Hb as <-. auto.
Qed.

(* the heart: the bits of canon2bin[n] are the positions of the generators of n *)
Lemma name_bin_bits n : forall b, NoDup n -> name_bin vecs n = Some b ->
  forall k, Z.testbit b k = true <-> exists g, In g n /\ k = vpos vecs g.
Proof.
  induction n as [|x r IH]; intros b Hn Hb k.
  - cbn [name_bin] in Hb. injection Hb as <-. rewrite Z.bits_0. split; [discriminate | intros (g & [] & _)].
  - inversion Hn as [|x' r' Hx Hr]; subst.
    destruct (name_bin_cons x r b Hb) as (acc & Hacc & Hxv & ->).
    pose proof (vpos_range x Hxv) as Hpx.
    rewrite Z.lxor_spec, pow2_bit by lia. specialize (IH acc Hr Hacc).
    destruct (Z.eqb_spec (vpos vecs x) k) as [E|Hne].
    + subst k. assert (Hf : Z.testbit acc (vpos vecs x) = false).
      { destruct (Z.testbit acc (vpos vecs x)) eqn:Et; [|reflexivity]. exfalso.
        apply IH in Et. destruct Et as (g & Hg & Eg). apply Hx.
        rewrite (vpos_inj x g Hxv (name_bin_in r acc Hacc g Hg) Eg). exact Hg. }
      rewrite Hf. cbn [xorb]. split; [intros _; exists x; split; [left|]; reflexivity | intros _; reflexivity].
    + rewrite xorb_false_l, IH. split.
      * intros (g & Hg & Eg). exists g. split; [right; exact Hg | exact Eg].
      * intros (g & [<-|Hg] & Eg); [congruence | exists g; auto].
Qed.

Lemma name_bin_range n : forall b, name_bin vecs n = Some b -> 0 <= b <= 2 ^ Z.of_nat (length vecs) - 1.
Proof.
  induction n as [|x r IH]; intros b Hb.
  - cbn [name_bin] in Hb. injection Hb as <-. pose proof (pow2_pos (Z.of_nat (length vecs))). lia.
  - destruct (name_bin_cons x r b Hb) as (acc & Hacc & Hxv & ->).
    pose proof (vpos_range x Hxv) as Hpx. apply lxor_le_ones; [lia | | apply IH; exact Hacc].
    pose proof (pow2_pos (vpos vecs x)).
    assert (2 ^ vpos vecs x < 2 ^ Z.of_nat (length vecs)) by (apply Z.pow_lt_mono_r; lia). lia.
Qed.

Lemma name_bin_popcount n : forall b, NoDup n -> name_bin vecs n = Some b ->
  popcount b = Z.of_nat (length n).
Proof.
  induction n as [|x r IH]; intros b Hn Hb.
  - cbn [name_bin] in Hb. injection Hb as <-. reflexivity.
  - inversion Hn as [|x' r' Hx Hr]; subst.
    destruct (name_bin_cons x r b Hb) as (acc & Hacc & Hxv & ->).
    pose proof (vpos_range x Hxv) as Hpx. pose proof (name_bin_range r acc Hacc) as Hra.
    pose proof (pow2_pos (vpos vecs x)) as Hpp.
    pose proof (popcount_lxor (2 ^ vpos vecs x) acc) as Hpl.
    assert (Hland : Z.land (2 ^ vpos vecs x) acc = 0).
    { apply Z.bits_inj'. intros k _. rewrite Z.land_spec, Z.bits_0, pow2_bit by lia.
      destruct (Z.eqb_spec (vpos vecs x) k) as [E|Hne]; [|reflexivity]. subst k. cbn [andb].
      destruct (Z.testbit acc (vpos vecs x)) eqn:Et; [|reflexivity]. exfalso.
      apply (name_bin_bits r acc Hr Hacc) in Et. destruct Et as (g & Hg & Eg). apply Hx.
      rewrite (vpos_inj x g Hxv (name_bin_in r acc Hacc g Hg) Eg). exact Hg. }
    rewrite Hland, popcount_0, popcount_pow2, (IH acc Hr Hacc) in Hpl by lia.
    cbn [length]. lia.
Qed.

End Vecs.

Lemma In_zrange b n : In b (Alg.zrange n) <-> 0 <= b < Z.of_nat n.
Proof.
  unfold Alg.zrange. rewrite in_map_iff. split.
  - intros (i & <- & Hi). apply in_seq in Hi. lia.
  - intros Hb. exists (Z.to_nat b). split; [lia | apply in_seq; lia].
Qed.

Lemma NoDup_zrange n : NoDup (Alg.zrange n).
Proof.
  unfold Alg.zrange. apply NoDup_map_inj_in; [|apply seq_NoDup].
  intros x y _ _ E. apply Nat2Z.inj. exact E.
Qed.

(* ====================================================================================== *)
(** * 1b. Structure of a well-formed algebra *)

Lemma wf_split A : wf_alg A = true ->
  NoDup (alg_vecs A) /\ length (alg_vecs A) = a_d A /\ length (a_sig A) = a_d A /\
  (forall s, In s (a_sig A) -> s = 1 \/ s = -1 \/ s = 0) /\
  (forall g, In g (alg_vecs A) ->
     a_start A <= Z.of_nat g /\ Z.of_nat g - a_start A < Z.of_nat (a_d A)) /\
  (forall n b, In (n, b) (a_c2b A) -> NoDup n /\ name_bin (alg_vecs A) n = Some b) /\
  NoDup (map snd (a_c2b A)) /\ length (a_c2b A) = (2 ^ a_d A)%nat.
Proof.
  intros H. unfold wf_alg in H. change (vecs_of (map fst (a_c2b A))) with (alg_vecs A) in H.
  apply andb_prop in H. destruct H as [H _].
  apply andb_prop in H. destruct H as [H H8].
  apply andb_prop in H. destruct H as [H H7].
  apply andb_prop in H. destruct H as [H H6].
  apply andb_prop in H. destruct H as [H H5].
  apply andb_prop in H. destruct H as [H H4].
  apply andb_prop in H. destruct H as [H H3].
  apply andb_prop in H. destruct H as [H1 H2].
  split; [apply nodupb_NoDup; exact H1|].
  split; [apply Nat.eqb_eq; exact H2|].
  split; [apply Nat.eqb_eq; exact H3|].
  split.
  { intros s Hs. rewrite forallb_forall in H4. specialize (H4 s Hs).
    apply orb_prop in H4. destruct H4 as [H4|H4]; [apply orb_prop in H4; destruct H4 as [H4|H4]|];
      apply Z.eqb_eq in H4; auto. }
  split.
  { intros g Hg. rewrite forallb_forall in H5. specialize (H5 g Hg).
    apply andb_prop in H5. destruct H5 as [Ha Hb]. apply Z.leb_le in Ha. apply Z.ltb_lt in Hb. auto. }
  split.
  { intros n b Hnb. rewrite forallb_forall in H6. specialize (H6 (n, b) Hnb). cbn [fst snd] in H6.
    apply andb_prop in H6. destruct H6 as [Ha Hb].
    split; [apply nodupb_NoDup; exact Ha | apply opt_eqb_Some; exact Hb]. }
  split; [apply znodupb_NoDup; exact H7 | apply Nat.eqb_eq; exact H8].
Qed.

Section WFAlg.
Variable A : alg.
Hypothesis Hwf : wf_alg A = true.

Local Notation vecs := (alg_vecs A).
Local Notation L := (alg_len A).
Local Notation m := (metric A).
Local Notation pos := (gpos A).
Local Notation d := (Z.of_nat (a_d A)).

Lemma wf_vecs_nodup : NoDup vecs.
Proof. apply (wf_split A Hwf). Qed.
Lemma wf_vecs_len : length vecs = a_d A.
Proof. apply (wf_split A Hwf). Qed.
Lemma wf_sig_len : length (a_sig A) = a_d A.
Proof. apply (wf_split A Hwf). Qed.
Lemma wf_sig_vals s : In s (a_sig A) -> s = 1 \/ s = -1 \/ s = 0.
Proof. apply (wf_split A Hwf). Qed.
Lemma wf_vecs_range g : In g vecs -> a_start A <= Z.of_nat g /\ Z.of_nat g - a_start A < d.
Proof. apply (wf_split A Hwf). Qed.
Lemma wf_entry n b : In (n, b) (a_c2b A) -> NoDup n /\ name_bin vecs n = Some b.
Proof. apply (wf_split A Hwf). Qed.
Lemma wf_bins_nodup : NoDup (canon_keys A).
Proof. apply (wf_split A Hwf). Qed.
Lemma wf_c2b_len : length (a_c2b A) = (2 ^ a_d A)%nat.
Proof. apply (wf_split A Hwf). Qed.

Lemma alg_len_nat : L = Z.of_nat (2 ^ a_d A).
Proof. unfold alg_len. rewrite Nat2Z.inj_pow. reflexivity. Qed.

Lemma alg_len_pos : 0 < L.
Proof. unfold alg_len. apply pow2_pos. lia. Qed.

(* ---------- generators <-> bit positions ---------- *)
Lemma gpos_range g : In g vecs -> 0 <= pos g < d.
Proof. intros Hg. rewrite <- wf_vecs_len. apply (vpos_range vecs wf_vecs_nodup g Hg). Qed.

Lemma gpos_inj g h : In g vecs -> In h vecs -> pos g = pos h -> g = h.
Proof. apply (vpos_inj vecs wf_vecs_nodup). Qed.

Lemma gpos_surj j : 0 <= j < d -> exists g, In g vecs /\ pos g = j.
Proof. intros Hj. apply (vpos_surj vecs wf_vecs_nodup). rewrite wf_vecs_len. exact Hj. Qed.

Lemma gpos_nth i g : nth_error vecs i = Some g -> pos g = Z.of_nat i.
Proof. apply (vpos_nth vecs wf_vecs_nodup). Qed.

(* vec2bin[g] = 2 ** j for exactly one j, which is pos g, and 0 <= j < d *)
Lemma vec2bin_gpos g : In g vecs -> vec2bin_from 0 vecs g = Some (2 ^ pos g).
Proof. apply (vec2bin_pos vecs wf_vecs_nodup). Qed.

Theorem gen_bit_unique g : In g vecs ->
  exists! j, 0 <= j < d /\ vec2bin_from 0 vecs g = Some (2 ^ j).
Proof.
  intros Hg. exists (pos g). split; [split; [apply gpos_range; exact Hg | apply vec2bin_gpos; exact Hg]|].
  intros j [Hj Hb]. rewrite (vec2bin_gpos g Hg) in Hb. injection Hb as Hb.
  apply (Z.pow_inj_r 2); [lia | apply gpos_range; exact Hg | lia | exact Hb].
Qed.

(* ---------- the signature at a generator ---------- *)
Lemma sig_at_vec g : In g vecs ->
  sig_at A g = nth_error (a_sig A) (Z.to_nat (Z.of_nat g - a_start A)) /\
  exists v, sig_at A g = Some v /\ (v = 1 \/ v = -1 \/ v = 0).
Proof.
  intros Hg. destruct (wf_vecs_range g Hg) as [Hlo Hhi]. pose proof wf_sig_len as Hlen.
  assert (E : sig_at A g = nth_error (a_sig A) (Z.to_nat (Z.of_nat g - a_start A))).
  { unfold sig_at. cbv zeta. rewrite Hlen.
    destruct (Z.ltb_spec (Z.of_nat g - a_start A) (- d)) as [H1|H1]; [lia|].
    destruct (Z.leb_spec d (Z.of_nat g - a_start A)) as [H2|H2]; [lia|]. cbn [orb].
    destruct (Z.ltb_spec (Z.of_nat g - a_start A) 0) as [H3|H3]; [lia|]. reflexivity. }
  split; [exact E|]. rewrite E.
  destruct (nth_error (a_sig A) (Z.to_nat (Z.of_nat g - a_start A))) as [v|] eqn:En.
  - exists v. split; [reflexivity|]. apply wf_sig_vals. apply (nth_error_In _ _ En).
  - apply nth_error_None in En. lia.
Qed.

Lemma sig_at_metric g : In g vecs -> sig_at A g = Some (m g).
Proof.
  intros Hg. destruct (sig_at_vec g Hg) as (_ & v & Hv & _). unfold metric. rewrite Hv. reflexivity.
Qed.

(* m g is the signature entry at position g - start_index *)
Lemma metric_nth g : In g vecs -> m g = nth (Z.to_nat (Z.of_nat g - a_start A)) (a_sig A) 0.
Proof.
  intros Hg. destruct (sig_at_vec g Hg) as (E & v & Hv & _). unfold metric. rewrite Hv.
  rewrite E in Hv. symmetry. apply nth_error_nth. exact Hv.
Qed.

Lemma metric_values g : m g = 1 \/ m g = -1 \/ m g = 0.
Proof.
  unfold metric. destruct (sig_at A g) as [v|] eqn:E; [|auto].
  apply wf_sig_vals. unfold sig_at in E. cbv zeta in E.
  destruct (_ || _); [discriminate|]. apply (nth_error_In _ _ E).
Qed.

(* the generator digits cover every signature position *)
Lemma sig_positions_covered i : (i < a_d A)%nat ->
  exists g, In g vecs /\ Z.to_nat (Z.of_nat g - a_start A) = i.
Proof.
  intros Hi. set (f := fun g : nat => Z.to_nat (Z.of_nat g - a_start A)).
  assert (Hp : Permutation (map f vecs) (seq 0 (a_d A))).
  { apply pigeon_nat.
    - apply NoDup_map_inj_in; [|exact wf_vecs_nodup]. intros x y Hx Hy E. unfold f in E.
      pose proof (wf_vecs_range x Hx). pose proof (wf_vecs_range y Hy). lia.
    - rewrite map_length. exact wf_vecs_len.
    - intros x Hx. apply in_map_iff in Hx. destruct Hx as (g & <- & Hg). unfold f.
      pose proof (wf_vecs_range g Hg). lia. }
  assert (Hin : In i (map f vecs)).
  { apply (Permutation_in i (Permutation_sym Hp)). apply in_seq. lia. }
  apply in_map_iff in Hin. destruct Hin as (g & E & Hg). exists g. auto.
Qed.

Lemma null_generator_iff : In 0 (a_sig A) <-> exists g, In g vecs /\ m g = 0.
Proof.
  split.
  - intros H0. destruct (In_nth_error _ _ H0) as (i & Hi).
    assert (Hlt : (i < a_d A)%nat) by (rewrite <- wf_sig_len; apply nth_error_Some; congruence).
    destruct (sig_positions_covered i Hlt) as (g & Hg & Eg). exists g. split; [exact Hg|].
    rewrite (metric_nth g Hg), Eg. apply nth_error_nth. exact Hi.
  - intros (g & Hg & H0). destruct (sig_at_vec g Hg) as (E & v & Hv & _).
    unfold metric in H0. rewrite Hv in H0. subst v. rewrite E in Hv. apply (nth_error_In _ _ Hv).
Qed.

(* ---------- entries of canon2bin ---------- *)
Lemma entry_range n b : In (n, b) (a_c2b A) -> 0 <= b < L.
Proof.
  intros H. destruct (wf_entry n b H) as [_ Hb].
  pose proof (name_bin_range vecs wf_vecs_nodup n b Hb) as Hr. rewrite wf_vecs_len in Hr.
  unfold alg_len. lia.
Qed.

Lemma entry_bin2canon n b : In (n, b) (a_c2b A) -> bin2canon A b = Some n.
Proof. intros H. apply find_by_bin_complete; [exact wf_bins_nodup | exact H]. Qed.

Lemma entry_canon2bin n b : In (n, b) (a_c2b A) -> canon2bin A n = Some b.
Proof.
  intros H. destruct (find_by_name_ex n _ b H) as (b' & Hb'). unfold canon2bin. rewrite Hb'.
  apply find_by_name_In in Hb'. destruct (wf_entry n b H) as [_ E1]. destruct (wf_entry n b' Hb') as [_ E2].
  congruence.
Qed.

Theorem canon_keys_perm : Permutation (canon_keys A) (Alg.zrange (2 ^ a_d A)).
Proof.
  apply NoDup_Permutation_bis; [exact wf_bins_nodup | |].
  - unfold canon_keys, Alg.zrange. rewrite !map_length, seq_length, wf_c2b_len. lia.
  - intros b Hb. unfold canon_keys in Hb. apply in_map_iff in Hb. destruct Hb as ([n b'] & E & Hin).
    cbn [snd] in E. subst b'. apply In_zrange. rewrite <- alg_len_nat. apply (entry_range n b Hin).
Qed.

Lemma In_canon_keys I : In I (canon_keys A) <-> 0 <= I < L.
Proof.
  rewrite alg_len_nat, <- In_zrange. split; apply Permutation_in;
    [exact canon_keys_perm | apply Permutation_sym; exact canon_keys_perm].
Qed.

Lemma bin2canon_entry I n : bin2canon A I = Some n -> In (n, I) (a_c2b A).
Proof. apply find_by_bin_In. Qed.

Lemma key_entry I : 0 <= I < L -> exists n, In (n, I) (a_c2b A).
Proof.
  intros HI. apply In_canon_keys in HI. unfold canon_keys in HI. apply in_map_iff in HI.
  destruct HI as ([n b] & E & Hin). cbn [snd] in E. subst b. exists n. exact Hin.
Qed.

Theorem bin2canon_total I : 0 <= I < L ->
  exists n, bin2canon A I = Some n /\ NoDup n /\ canon2bin A n = Some I.
Proof.
  intros HI. destruct (key_entry I HI) as (n & Hin). exists n.
  split; [apply entry_bin2canon; exact Hin|].
  split; [apply (wf_entry n I Hin) | apply entry_canon2bin; exact Hin].
Qed.

(* the converse: every item of canon2bin is in range and is found again through bin2canon *)
Theorem c2b_entry_spec n b : In (n, b) (a_c2b A) ->
  0 <= b < L /\ bin2canon A b = Some n /\ canon2bin A n = Some b /\ NoDup n.
Proof.
  intros H. split; [apply (entry_range n b H)|]. split; [apply entry_bin2canon; exact H|].
  split; [apply entry_canon2bin; exact H | apply (wf_entry n b H)].
Qed.

Lemma bin2canon_range I n : bin2canon A I = Some n -> 0 <= I < L.
Proof. intros H. apply (entry_range n I). apply bin2canon_entry. exact H. Qed.

Lemma bin2canon_NoDup I n : bin2canon A I = Some n -> NoDup n.
Proof. intros H. apply (wf_entry n I). apply bin2canon_entry. exact H. Qed.

Lemma bin2canon_name_bin I n : bin2canon A I = Some n -> name_bin vecs n = Some I.
Proof. intros H. apply (wf_entry n I). apply bin2canon_entry. exact H. Qed.

Lemma nm_spec I : 0 <= I < L -> bin2canon A I = Some (nm A I).
Proof. intros HI. destruct (bin2canon_total I HI) as (n & Hn & _). unfold nm. rewrite Hn. reflexivity. Qed.

(* ---------- membership = bits ---------- *)
Theorem name_bits I n : bin2canon A I = Some n ->
  forall k, Z.testbit I k = true <-> exists g, In g n /\ k = pos g.
Proof.
  intros H. apply (name_bin_bits vecs wf_vecs_nodup n I (bin2canon_NoDup I n H) (bin2canon_name_bin I n H)).
Qed.

Lemma name_in_vecs I n g : bin2canon A I = Some n -> In g n -> In g vecs.
Proof. intros H. apply (name_bin_in vecs wf_vecs_nodup n I (bin2canon_name_bin I n H)). Qed.

Theorem name_mem I n g : bin2canon A I = Some n ->
  (In g n <-> In g vecs /\ Z.testbit I (pos g) = true).
Proof.
  intros H. split.
  - intros Hg. split; [apply (name_in_vecs I n g H Hg)|]. apply (name_bits I n H). exists g. auto.
  - intros [Hv Hb]. apply (name_bits I n H) in Hb. destruct Hb as (g' & Hg' & E).
    rewrite (gpos_inj g g' Hv (name_in_vecs I n g' H Hg') E). exact Hg'.
Qed.

Theorem name_length I n : bin2canon A I = Some n -> Z.of_nat (length n) = popcount I.
Proof.
  intros H. symmetry.
  apply (name_bin_popcount vecs wf_vecs_nodup n I (bin2canon_NoDup I n H) (bin2canon_name_bin I n H)).
Qed.

Theorem name_0 : bin2canon A 0 = Some [].
Proof.
  pose proof alg_len_pos as HL. destruct (bin2canon_total 0) as (n & Hn & _); [lia|].
  pose proof (name_length 0 n Hn) as Hl. rewrite popcount_0 in Hl.
  destruct n as [|x r]; [exact Hn | cbn [length] in Hl; lia].
Qed.

Lemma pow2_range j : 0 <= j < d -> 0 <= 2 ^ j < L.
Proof.
  intros Hj. pose proof (pow2_pos j). unfold alg_len.
  assert (2 ^ j < 2 ^ d) by (apply Z.pow_lt_mono_r; lia). lia.
Qed.

Theorem name_pow2 j : 0 <= j < d ->
  exists g, bin2canon A (2 ^ j) = Some [g] /\ In g vecs /\ pos g = j.
Proof.
  intros Hj. destruct (bin2canon_total (2 ^ j) (pow2_range j Hj)) as (n & Hn & _).
  pose proof (name_length _ n Hn) as Hl. rewrite popcount_pow2 in Hl by lia.
  destruct n as [|g [|y r]]; cbn [length] in Hl; try lia. exists g.
  split; [exact Hn|]. destruct (proj1 (name_mem _ [g] g Hn) (or_introl eq_refl)) as [Hv Hb].
  split; [exact Hv|]. rewrite pow2_bit in Hb by lia. apply Z.eqb_eq in Hb. auto.
Qed.

(* the key of a generator: canon2bin['e' + g] = 2 ** pos g, spelled [g] by the table *)
Theorem genbit_spec g : In g vecs ->
  genbit A g = 2 ^ pos g /\ canon2bin A [g] = Some (2 ^ pos g) /\ bin2canon A (2 ^ pos g) = Some [g].
Proof.
  intros Hg. destruct (name_pow2 (pos g) (gpos_range g Hg)) as (g' & Hn & Hv' & E).
  rewrite (gpos_inj g' g Hv' Hg E) in Hn. pose proof (entry_canon2bin _ _ (bin2canon_entry _ _ Hn)) as Hc.
  unfold genbit, gen_bin. rewrite Hc. auto.
Qed.

(* ---------- xor of keys = symmetric difference of names ---------- *)
Lemma lxor_range I J : 0 <= I < L -> 0 <= J < L -> 0 <= Z.lxor I J < L.
Proof.
  intros HI HJ. unfold alg_len in *.
  pose proof (lxor_le_ones d I J). lia.
Qed.

Lemma land_range I J : 0 <= I < L -> 0 <= J < L -> 0 <= Z.land I J < L.
Proof.
  intros HI HJ. unfold alg_len in *.
  pose proof (land_le_ones d I J). lia.
Qed.

Theorem name_lxor I J nI nJ nIJ :
  bin2canon A I = Some nI -> bin2canon A J = Some nJ -> bin2canon A (Z.lxor I J) = Some nIJ ->
  Permutation (sdiff nI nJ) nIJ.
Proof.
  intros HI HJ HIJ. apply NoDup_Permutation.
  - apply NoDup_sdiff; [apply (bin2canon_NoDup I) | apply (bin2canon_NoDup J)]; assumption.
  - apply (bin2canon_NoDup _ _ HIJ).
  - intros g. rewrite In_sdiff, (name_mem I nI g HI), (name_mem J nJ g HJ), (name_mem _ nIJ g HIJ), Z.lxor_spec.
    destruct (Z.testbit I (pos g)), (Z.testbit J (pos g)); cbn [xorb]; intuition congruence.
Qed.

Lemma name_land I J nI nJ nL :
  bin2canon A I = Some nI -> bin2canon A J = Some nJ -> bin2canon A (Z.land I J) = Some nL ->
  Permutation (common nI nJ) nL.
Proof.
  intros HI HJ HL. apply NoDup_Permutation.
  - unfold common. apply NoDup_filter. apply (bin2canon_NoDup J nJ HJ).
  - apply (bin2canon_NoDup _ _ HL).
  - intros g. rewrite In_common', (name_mem I nI g HI), (name_mem J nJ g HJ), (name_mem _ nL g HL), Z.land_spec.
    destruct (Z.testbit I (pos g)), (Z.testbit J (pos g)); cbn [andb]; intuition congruence.
Qed.

(* keys are determined by the members of their names *)
Lemma key_ext I J nI nJ :
  bin2canon A I = Some nI -> bin2canon A J = Some nJ -> (forall g, In g nI <-> In g nJ) -> I = J.
Proof.
  intros HI HJ Hext. apply Z.bits_inj'. intros k _. apply bool_eq_of_iff.
  rewrite (name_bits I nI HI), (name_bits J nJ HJ). split; intros (g & Hg & E); exists g; split; auto; apply Hext; exact Hg.
Qed.

(* ====================================================================================== *)
(** * 2. _compute_sign on in-range keys: never raises, returns the name-level sign *)

Theorem compute_sign_names I J nI nJ nIJ :
  bin2canon A I = Some nI -> bin2canon A J = Some nJ -> bin2canon A (Z.lxor I J) = Some nIJ ->
  exists s, sgn_names m nI nJ nIJ = Some s /\ compute_sign A I J = Ok s /\ sgn A I J = s.
Proof.
  intros HI HJ HIJ.
  pose proof (bin2canon_NoDup I nI HI) as NI. pose proof (bin2canon_NoDup J nJ HJ) as NJ.
  pose proof (name_lxor I J nI nJ nIJ HI HJ HIJ) as Hp.
  assert (Hc : compute_sign A I J =
               Ok (par (xorb (inv2 (nI ++ nJ)) (inv2 nIJ)) * mprod m (common nI nJ))).
  { unfold compute_sign. rewrite HI, HJ, HIJ. cbn [of_opt bind].
    apply sign_names_closed; try assumption.
    intros g Hg _. apply sig_at_metric. apply (name_in_vecs I nI g HI Hg). }
  eexists. split; [apply (sgn_names_closed m nI nJ nIJ NI NJ Hp)|].
  split; [exact Hc | unfold sgn; rewrite Hc; reflexivity].
Qed.

Theorem compute_sign_closed I J : 0 <= I < L -> 0 <= J < L ->
  exists nI nJ nIJ s,
    bin2canon A I = Some nI /\ bin2canon A J = Some nJ /\ bin2canon A (Z.lxor I J) = Some nIJ /\
    sgn_names m nI nJ nIJ = Some s /\ compute_sign A I J = Ok s /\ sgn A I J = s.
Proof.
  intros HI HJ. pose proof (nm_spec I HI) as EI. pose proof (nm_spec J HJ) as EJ.
  pose proof (nm_spec _ (lxor_range I J HI HJ)) as EIJ.
  destruct (compute_sign_names I J _ _ _ EI EJ EIJ) as (s & H1 & H2 & H3).
  exists (nm A I), (nm A J), (nm A (Z.lxor I J)), s. auto 7.
Qed.

(* the workhorse: the table entry is the name-level sign of the table's own spellings *)
Lemma sgn_table I J nI nJ nIJ :
  bin2canon A I = Some nI -> bin2canon A J = Some nJ -> bin2canon A (Z.lxor I J) = Some nIJ ->
  sgn_names m nI nJ nIJ = Some (sgn A I J).
Proof.
  intros HI HJ HIJ. destruct (compute_sign_names I J nI nJ nIJ HI HJ HIJ) as (s & H1 & _ & H3).
  rewrite H3. exact H1.
Qed.

Corollary compute_sign_ok I J : 0 <= I < L -> 0 <= J < L -> compute_sign A I J = Ok (sgn A I J).
Proof.
  intros HI HJ. destruct (compute_sign_closed I J HI HJ) as (nI & nJ & nIJ & s & _ & _ & _ & _ & Hc & Hs).
  rewrite Hs. exact Hc.
Qed.

(* the eager table (iteration over canon2bin.items() squared) has exactly the in-range pairs as keys
   and no entry raises *)
Theorem signs_table_spec I J r :
  In (I, J, r) (signs_table A) <-> (0 <= I < L /\ 0 <= J < L /\ r = Ok (sgn A I J)).
Proof.
  unfold signs_table. rewrite in_map_iff. split.
  - intros ([[n1 b1] [n2 b2]] & E & Hin). cbn [fst snd] in E. apply in_prod_iff in Hin.
    destruct Hin as [H1 H2]. injection E as -> -> <-.
    pose proof (entry_range _ _ H1) as R1. pose proof (entry_range _ _ H2) as R2.
    split; [exact R1|]. split; [exact R2|]. apply compute_sign_ok; assumption.
  - intros (HI & HJ & ->). destruct (key_entry I HI) as (nI & H1). destruct (key_entry J HJ) as (nJ & H2).
    exists ((nI, I), (nJ, J)). cbn [fst snd]. split; [|apply in_prod_iff; auto].
    rewrite (compute_sign_ok I J HI HJ). reflexivity.
Qed.

(* ====================================================================================== *)
(** * 3. The Clifford relations for the table *)

(* e_g e_g = signature[g - start_index] *)
Theorem sgn_square j : 0 <= j < d ->
  exists g, bin2canon A (2 ^ j) = Some [g] /\ In g vecs /\ pos g = j /\
            sgn A (2 ^ j) (2 ^ j) = m g /\ Z.lxor (2 ^ j) (2 ^ j) = 0 /\
            m g = nth (Z.to_nat (Z.of_nat g - a_start A)) (a_sig A) 0.
Proof.
  intros Hj. destruct (name_pow2 j Hj) as (g & Hn & Hv & Hp). exists g.
  split; [exact Hn|]. split; [exact Hv|]. split; [exact Hp|].
  assert (Hx : Z.lxor (2 ^ j) (2 ^ j) = 0) by apply Z.lxor_nilpotent.
  split; [|split; [exact Hx | apply metric_nth; exact Hv]].
  assert (H0 : bin2canon A (Z.lxor (2 ^ j) (2 ^ j)) = Some []) by (rewrite Hx; exact name_0).
  pose proof (sgn_table _ _ _ _ _ Hn Hn H0) as Ht. rewrite (sq m g) in Ht. congruence.
Qed.

Corollary sgn_square_named j g : 0 <= j < d -> bin2canon A (2 ^ j) = Some [g] ->
  sgn A (2 ^ j) (2 ^ j) = m g /\ Z.lxor (2 ^ j) (2 ^ j) = 0 /\
  m g = nth (Z.to_nat (Z.of_nat g - a_start A)) (a_sig A) 0.
Proof.
  intros Hj Hn. destruct (sgn_square j Hj) as (g' & Hn' & _ & _ & Hs & Hx & Hm).
  rewrite Hn in Hn'. injection Hn' as <-. auto.
Qed.

Corollary sgn_square_gen g : In g vecs ->
  sgn A (genbit A g) (genbit A g) = m g /\ Z.lxor (genbit A g) (genbit A g) = 0.
Proof.
  intros Hg. destruct (genbit_spec g Hg) as (-> & _ & Hn).
  destruct (sgn_square (pos g) (gpos_range g Hg)) as (g' & Hn' & _ & _ & Hs & Hx & _).
  rewrite Hn in Hn'. injection Hn' as <-. auto.
Qed.

(* e_g e_h = - e_h e_g for distinct generators *)
Theorem sgn_anticomm j k : 0 <= j < d -> 0 <= k < d -> j <> k ->
  sgn A (2 ^ j) (2 ^ k) = - sgn A (2 ^ k) (2 ^ j) /\
  (sgn A (2 ^ j) (2 ^ k) = 1 \/ sgn A (2 ^ j) (2 ^ k) = -1).
Proof.
  intros Hj Hk Hne.
  destruct (name_pow2 j Hj) as (g & Hg & Hgv & Hgp). destruct (name_pow2 k Hk) as (h & Hh & Hhv & Hhp).
  assert (Hgh : g <> h) by (intros ->; congruence).
  pose proof (nm_spec _ (lxor_range _ _ (pow2_range j Hj) (pow2_range k Hk))) as Ht.
  set (t := nm A (Z.lxor (2 ^ j) (2 ^ k))) in *.
  pose proof (name_lxor _ _ _ _ _ Hg Hh Ht) as Hp.
  assert (Hnin : ~ In h [g]) by (intros [E|[]]; congruence).
  rewrite (sdiff_snoc [g] h Hnin) in Hp. cbn [app] in Hp.
  destruct (anticomm m g h t Hgh Hp) as (s & Hs & H1 & H2).
  pose proof (sgn_table _ _ _ _ _ Hg Hh Ht) as T1.
  assert (Ht' : bin2canon A (Z.lxor (2 ^ k) (2 ^ j)) = Some t) by (rewrite Z.lxor_comm; exact Ht).
  pose proof (sgn_table _ _ _ _ _ Hh Hg Ht') as T2.
  rewrite H1 in T1. rewrite H2 in T2. injection T1 as T1. injection T2 as T2.
  rewrite <- T1, <- T2. split; [lia | exact Hs].
Qed.

Corollary sgn_anticomm_gen g h : In g vecs -> In h vecs -> g <> h ->
  sgn A (genbit A g) (genbit A h) = - sgn A (genbit A h) (genbit A g) /\
  (sgn A (genbit A g) (genbit A h) = 1 \/ sgn A (genbit A g) (genbit A h) = -1).
Proof.
  intros Hg Hh Hne. destruct (genbit_spec g Hg) as (-> & _ & _). destruct (genbit_spec h Hh) as (-> & _ & _).
  apply sgn_anticomm; [apply gpos_range; exact Hg | apply gpos_range; exact Hh |].
  intro E. apply Hne. apply (gpos_inj g h Hg Hh E).
Qed.

(* (e_I e_J) e_K = e_I (e_J e_K) *)
Theorem sgn_assoc I J K : 0 <= I < L -> 0 <= J < L -> 0 <= K < L ->
  sgn A I J * sgn A (Z.lxor I J) K = sgn A J K * sgn A I (Z.lxor J K).
Proof.
  intros HI HJ HK.
  pose proof (lxor_range I J HI HJ) as HIJ. pose proof (lxor_range J K HJ HK) as HJK.
  pose proof (lxor_range _ K HIJ HK) as HIJK.
  pose proof (nm_spec I HI) as EI. pose proof (nm_spec J HJ) as EJ. pose proof (nm_spec K HK) as EK.
  pose proof (nm_spec _ HIJ) as EIJ. pose proof (nm_spec _ HJK) as EJK. pose proof (nm_spec _ HIJK) as EIJK.
  assert (EIJK' : bin2canon A (Z.lxor I (Z.lxor J K)) = Some (nm A (Z.lxor (Z.lxor I J) K))).
  { rewrite <- Z.lxor_assoc. exact EIJK. }
  destruct (assoc m (nm A I) (nm A J) (nm A K) (nm A (Z.lxor I J)) (nm A (Z.lxor J K))
                  (nm A (Z.lxor (Z.lxor I J) K))) as (s1 & s2 & s3 & s4 & H1 & H2 & H3 & H4 & Heq).
  - apply (bin2canon_NoDup I _ EI).
  - apply (bin2canon_NoDup J _ EJ).
  - apply (bin2canon_NoDup K _ EK).
  - apply (name_lxor I J _ _ _ EI EJ EIJ).
  - apply (name_lxor J K _ _ _ EJ EK EJK).
  - apply (name_lxor _ K _ _ _ EIJ EK EIJK).
  - rewrite (sgn_table I J _ _ _ EI EJ EIJ) in H1.
    rewrite (sgn_table _ K _ _ _ EIJ EK EIJK) in H2.
    rewrite (sgn_table J K _ _ _ EJ EK EJK) in H3.
    rewrite (sgn_table I _ _ _ _ EI EJK EIJK') in H4.
    congruence.
Qed.

(* 1 e_I = e_I = e_I 1 *)
Theorem sgn_scalar I : 0 <= I < L -> sgn A 0 I = 1 /\ sgn A I 0 = 1.
Proof.
  intros HI. pose proof (nm_spec I HI) as EI. set (n := nm A I) in *.
  pose proof (bin2canon_NoDup I n EI) as NI.
  assert (E0 : bin2canon A (Z.lxor 0 I) = Some n) by (rewrite Z.lxor_0_l; exact EI).
  assert (E1 : bin2canon A (Z.lxor I 0) = Some n) by (rewrite Z.lxor_0_r; exact EI).
  pose proof (sgn_table 0 I _ _ _ name_0 EI E0) as T0.
  pose proof (sgn_table I 0 _ _ _ EI name_0 E1) as T1.
  assert (P0 : Permutation (sdiff [] n) n).
  { apply (name_lxor 0 (Z.lxor 0 I) [] n n name_0 E0). rewrite Z.lxor_0_l. exact E0. }
  assert (P1 : Permutation (sdiff n []) n).
  { apply (name_lxor (Z.lxor I 0) 0 n [] n E1 name_0). rewrite Z.lxor_0_r. exact E1. }
  rewrite (sgn_names_closed m [] n n (NoDup_nil _) NI P0) in T0.
  rewrite (sgn_names_closed m n [] n NI (NoDup_nil _) P1) in T1.
  assert (C0 : common [] n = []) by (unfold common; apply filter_none; intros; reflexivity).
  assert (C1 : common n [] = []) by reflexivity.
  rewrite C0 in T0. rewrite C1, app_nil_r in T1. cbn [app] in T0.
  rewrite xorb_nilpotent in T0, T1. unfold mprod in T0, T1. cbn [fold_left par] in T0, T1.
  injection T0 as T0. injection T1 as T1. lia.
Qed.

(* e_J e_I = (-1)^(rs - c) e_I e_J,  r, s the grades, c the number of common generators *)
Theorem sgn_swap I J : 0 <= I < L -> 0 <= J < L ->
  sgn A J I = par (Z.odd (popcount I * popcount J - popcount (Z.land I J))) * sgn A I J.
Proof.
  intros HI HJ. pose proof (nm_spec I HI) as EI. pose proof (nm_spec J HJ) as EJ.
  pose proof (nm_spec _ (lxor_range I J HI HJ)) as EIJ. pose proof (nm_spec _ (land_range I J HI HJ)) as EL.
  set (nI := nm A I) in *. set (nJ := nm A J) in *. set (t := nm A (Z.lxor I J)) in *.
  set (nL := nm A (Z.land I J)) in *.
  pose proof (bin2canon_NoDup I nI EI) as NI. pose proof (bin2canon_NoDup J nJ EJ) as NJ.
  pose proof (name_lxor I J _ _ _ EI EJ EIJ) as Hp.
  pose proof (swap_sym m nI nJ t _ NI NJ Hp (sgn_table I J _ _ _ EI EJ EIJ)) as Hsw.
  assert (EJI : bin2canon A (Z.lxor J I) = Some t) by (rewrite Z.lxor_comm; exact EIJ).
  rewrite (sgn_table J I _ _ _ EJ EI EJI) in Hsw. injection Hsw as Hsw. rewrite Hsw.
  f_equal. f_equal.
  pose proof (name_length I nI EI) as LI. pose proof (name_length J nJ EJ) as LJ.
  pose proof (name_length _ nL EL) as LL.
  pose proof (Permutation_length (name_land I J _ _ _ EI EJ EL)) as Hc.
  pose proof (ncross_count nI nJ NJ) as Hcnt.
  rewrite (Permutation_length (common_perm nI nJ NI NJ)) in Hcnt.
  rewrite <- LI, <- LJ, <- LL, <- Hc, <- Zodd_of_nat. f_equal. lia.
Qed.

(* values and zero divisors *)
Theorem sgn_zero_iff I J : 0 <= I < L -> 0 <= J < L ->
  (sgn A I J = 0 <-> exists g, In g vecs /\ Z.testbit (Z.land I J) (pos g) = true /\ m g = 0).
Proof.
  intros HI HJ. pose proof (nm_spec I HI) as EI. pose proof (nm_spec J HJ) as EJ.
  pose proof (nm_spec _ (lxor_range I J HI HJ)) as EIJ.
  pose proof (zero_iff m _ _ _ (bin2canon_NoDup I _ EI) (bin2canon_NoDup J _ EJ)
                       (name_lxor I J _ _ _ EI EJ EIJ)) as Hz.
  rewrite (sgn_table I J _ _ _ EI EJ EIJ) in Hz. split.
  - intros H0. rewrite H0 in Hz. destruct (proj1 Hz eq_refl) as (g & HgI & HgJ & Hm).
    apply (name_mem I _ g EI) in HgI. apply (name_mem J _ g EJ) in HgJ.
    exists g. rewrite Z.land_spec. destruct HgI as [Hv ->]. destruct HgJ as [_ ->]. auto.
  - intros (g & Hv & Hb & Hm). rewrite Z.land_spec in Hb. apply andb_prop in Hb. destruct Hb as [HbI HbJ].
    assert (Hs : Some (sgn A I J) = Some 0); [|congruence].
    apply Hz. exists g. split; [apply (name_mem I _ g EI); auto|].
    split; [apply (name_mem J _ g EJ); auto | exact Hm].
Qed.

Theorem sgn_values I J : 0 <= I < L -> 0 <= J < L ->
  sgn A I J = 1 \/ sgn A I J = -1 \/ sgn A I J = 0.
Proof.
  intros HI HJ. destruct (Z.eq_dec (sgn A I J) 0) as [E|Hne]; [auto|].
  pose proof (nm_spec I HI) as EI. pose proof (nm_spec J HJ) as EJ.
  pose proof (nm_spec _ (lxor_range I J HI HJ)) as EIJ.
  pose proof (bin2canon_NoDup I _ EI) as NI. pose proof (bin2canon_NoDup J _ EJ) as NJ.
  pose proof (name_lxor I J _ _ _ EI EJ EIJ) as Hp.
  destruct (sgn_names_unit m _ _ _ metric_values NI NJ Hp) as [H|H].
  - intro Hex. apply Hne. apply (zero_iff m _ _ _ NI NJ Hp) in Hex.
    rewrite (sgn_table I J _ _ _ EI EJ EIJ) in Hex. congruence.
  - rewrite (sgn_table I J _ _ _ EI EJ EIJ) in H. left. congruence.
  - rewrite (sgn_table I J _ _ _ EI EJ EIJ) in H. right. left. congruence.
Qed.

Corollary sgn_unit_iff I J : 0 <= I < L -> 0 <= J < L ->
  (sgn A I J = 1 \/ sgn A I J = -1 <->
   ~ exists g, In g vecs /\ Z.testbit (Z.land I J) (pos g) = true /\ m g = 0).
Proof.
  intros HI HJ. rewrite <- (sgn_zero_iff I J HI HJ).
  destruct (sgn_values I J HI HJ) as [H|[H|H]]; rewrite H; lia.
Qed.

(* blades without a common generator never multiply to zero (outer-product part of the table) *)
Corollary sgn_disjoint I J : 0 <= I < L -> 0 <= J < L -> Z.land I J = 0 ->
  sgn A I J <> 0 /\ (sgn A I J = 1 \/ sgn A I J = -1).
Proof.
  intros HI HJ H0.
  assert (Hne : sgn A I J <> 0).
  { intro E. apply (sgn_zero_iff I J HI HJ) in E. destruct E as (g & _ & Hb & _).
    rewrite H0, Z.bits_0 in Hb. discriminate. }
  split; [exact Hne|]. destruct (sgn_values I J HI HJ) as [H|[H|H]]; auto. contradiction.
Qed.

(* Hodge duals: e_I and its complement e_(pss - I), in both orders *)
Corollary sgn_hodge I : 0 <= I < L ->
  (sgn A I (L - 1 - I) = 1 \/ sgn A I (L - 1 - I) = -1) /\
  (sgn A (L - 1 - I) I = 1 \/ sgn A (L - 1 - I) I = -1).
Proof.
  intros HI. assert (HC : 0 <= L - 1 - I < L) by lia.
  assert (Hland : Z.land I (L - 1 - I) = 0).
  { unfold alg_len in *. apply (ones_sub_land d I); lia. }
  split; [apply (sgn_disjoint I _ HI HC Hland)|].
  apply (sgn_disjoint _ I HC HI). rewrite Z.land_comm. exact Hland.
Qed.

Lemma pss_bits k : 0 <= k < d -> Z.testbit (L - 1) k = true.
Proof.
  intros Hk. unfold alg_len. replace (2 ^ d - 1) with (Z.ones d) by (rewrite Z.ones_equiv; lia).
  apply Z.ones_spec_low. exact Hk.
Qed.

(* pss * pss = 0 exactly for degenerate metrics *)
Corollary sgn_pss_zero_iff : sgn A (L - 1) (L - 1) = 0 <-> In 0 (a_sig A).
Proof.
  pose proof alg_len_pos as HL. assert (HP : 0 <= L - 1 < L) by lia.
  rewrite (sgn_zero_iff _ _ HP HP), null_generator_iff, Z.land_diag. split.
  - intros (g & Hv & _ & Hm). exists g. auto.
  - intros (g & Hv & Hm). exists g. split; [exact Hv|]. split; [|exact Hm].
    apply pss_bits. apply gpos_range. exact Hv.
Qed.

Corollary sgn_pss_unit_iff :
  (sgn A (L - 1) (L - 1) = 1 \/ sgn A (L - 1) (L - 1) = -1) <-> ~ In 0 (a_sig A).
Proof.
  pose proof alg_len_pos as HL. assert (HP : 0 <= L - 1 < L) by lia.
  rewrite <- sgn_pss_zero_iff. destruct (sgn_values _ _ HP HP) as [H|[H|H]]; rewrite H; lia.
Qed.

(* ---------- a blade is the ordered product of its generators, through the table ---------- *)
Lemma nm_eq I n : bin2canon A I = Some n -> nm A I = n.
Proof. intros H. unfold nm. rewrite H. reflexivity. Qed.

Lemma nm_0 : nm A 0 = [].
Proof. apply nm_eq. exact name_0. Qed.

Lemma genbit_range g : In g vecs -> 0 <= genbit A g < L.
Proof. intros Hg. destruct (genbit_spec g Hg) as (-> & _ & _). apply pow2_range. apply gpos_range. exact Hg. Qed.

Lemma genbit_name g : In g vecs -> bin2canon A (genbit A g) = Some [g].
Proof. intros Hg. destruct (genbit_spec g Hg) as (-> & _ & H). exact H. Qed.

(* the table's names of the partial products are spellings of the prefixes *)
Lemma partials_spec gs : forall p k,
  NoDup (p ++ gs) -> (forall g, In g gs -> In g vecs) -> 0 <= k < L -> Permutation p (nm A k) ->
  spellings p gs (map (nm A) (partials A k gs)) /\
  0 <= last (partials A k gs) k < L /\
  Permutation (p ++ gs) (nm A (last (partials A k gs) k)).
Proof.
  induction gs as [|g gs IH]; intros p k Hnd Hv Hk Hp.
  - cbn [partials map spellings last]. rewrite app_nil_r. auto.
  - cbn [partials map spellings]. rewrite last_cons_def.
    assert (Hgv : In g vecs) by (apply Hv; left; reflexivity).
    set (k1 := Z.lxor k (genbit A g)).
    assert (Hk1 : 0 <= k1 < L) by (apply lxor_range; [exact Hk | apply genbit_range; exact Hgv]).
    assert (Hgp : ~ In g p).
    { pose proof (NoDup_remove_2 _ _ _ Hnd) as H. intro Hc. apply H. apply in_or_app. left. exact Hc. }
    assert (Hgk : ~ In g (nm A k)).
    { intro Hc. apply Hgp. apply (Permutation_in g (Permutation_sym Hp)). exact Hc. }
    assert (Hp1 : Permutation (p ++ [g]) (nm A k1)).
    { pose proof (name_lxor k (genbit A g) _ _ _ (nm_spec k Hk) (genbit_name g Hgv) (nm_spec k1 Hk1)) as H.
      rewrite (sdiff_snoc _ g Hgk) in H. apply perm_trans with (nm A k ++ [g]); [|exact H].
      apply Permutation_app_tail. exact Hp. }
    assert (Hnd' : NoDup ((p ++ [g]) ++ gs)) by (rewrite <- app_assoc; exact Hnd).
    destruct (IH (p ++ [g]) k1 Hnd' (fun x Hx => Hv x (or_intror Hx)) Hk1 Hp1) as (Hsp & Hr & Hfin).
    split; [split; [exact Hp1 | exact Hsp]|]. split; [exact Hr|].
    rewrite <- app_assoc in Hfin. exact Hfin.
Qed.

(* running the table along gs computes the name-level chain *)
Lemma fold_chain gs : forall k s0 c,
  0 <= k < L -> (forall g, In g gs -> In g vecs) ->
  chain m (nm A k) gs (map (nm A) (partials A k gs)) = Some c ->
  fold_left (op_step A) gs (s0, k) = (s0 * c, last (partials A k gs) k).
Proof.
  induction gs as [|g gs IH]; intros k s0 c Hk Hv Hc.
  - cbn [partials map chain] in Hc. injection Hc as <-. cbn [fold_left partials last]. f_equal. lia.
  - cbn [partials map chain] in Hc. cbn [fold_left partials]. rewrite last_cons_def.
    assert (Hgv : In g vecs) by (apply Hv; left; reflexivity).
    set (k1 := Z.lxor k (genbit A g)) in *.
    assert (Hk1 : 0 <= k1 < L) by (apply lxor_range; [exact Hk | apply genbit_range; exact Hgv]).
    rewrite (sgn_table k (genbit A g) _ _ _ (nm_spec k Hk) (genbit_name g Hgv) (nm_spec k1 Hk1)) in Hc.
    destruct (chain m (nm A k1) gs (map (nm A) (partials A k1 gs))) as [c'|] eqn:Ec; [|discriminate].
    injection Hc as <-. unfold op_step at 2. fold k1.
    rewrite (IH k1 (s0 * sgn A k (genbit A g)) c' Hk1 (fun x Hx => Hv x (or_intror Hx)) Ec).
    f_equal. lia.
Qed.

(* e_{g1 g2 .. gk} = e_g1 e_g2 .. e_gk with sign +1, for the table's own spelling of every key *)
Theorem sgn_ordered_product B n : bin2canon A B = Some n ->
  fold_left (fun '(s, k) g => (s * sgn A k (genbit A g), Z.lxor k (genbit A g))) n (1, 0) = (1, B).
Proof.
  intros HB. change (fold_left (op_step A) n (1, 0) = (1, B)).
  pose proof (bin2canon_NoDup B n HB) as Nn. pose proof alg_len_pos as HL.
  assert (H0 : 0 <= 0 < L) by lia.
  assert (Hv : forall g, In g n -> In g vecs) by (intros g; apply (name_in_vecs B n g HB)).
  assert (Hp0 : Permutation [] (nm A 0)) by (rewrite nm_0; constructor).
  destruct (partials_spec n [] 0 Nn Hv H0 Hp0) as (Hsp & Hr & Hfin). cbn [app] in Hfin.
  set (K := last (partials A 0 n) 0) in *.
  assert (HK : K = B).
  { apply (key_ext K B (nm A K) n (nm_spec K Hr) HB). intros g. split; apply Permutation_in;
      [apply Permutation_sym; exact Hfin | exact Hfin]. }
  assert (Hlast : last (map (nm A) (partials A 0 n)) [] = n).
  { rewrite <- nm_0 at 1. rewrite last_map. fold K. rewrite HK. apply nm_eq. exact HB. }
  pose proof (ordered_product_spellings m n _ Nn Hsp Hlast) as Hch. rewrite <- nm_0 in Hch at 1.
  rewrite (fold_chain n 0 1 1 H0 Hv Hch). fold K. rewrite HK. reflexivity.
Qed.

End WFAlg.

(* ====================================================================================== *)
(** * 4. Examples *)

Definition ex_sta : alg := mk_default [1; 1; -1] 1 false.

Example ex_wf_default : wf_alg ex_sta = true.
Proof. vm_compute. reflexivity. Qed.

Definition ex_pga3d_basis : list name :=
  [[];[1];[2];[3];[0];[0;1];[0;2];[0;3];[1;2];[3;1];[2;3];[0;3;2];[0;1;3];[0;2;1];[1;2;3];[0;1;2;3]]%nat.
Definition ex_pga3d : alg :=
  match mk_custom (sig_of_pqr 3 0 1) ex_pga3d_basis false with Ok a => a | Err _ => mk_default [] 0 false end.

Example ex_pga3d_ok : mk_custom (sig_of_pqr 3 0 1) ex_pga3d_basis false = Ok ex_pga3d.
Proof. vm_compute. reflexivity. Qed.

Example ex_wf_pga3d : wf_alg ex_pga3d = true.
Proof. vm_compute. reflexivity. Qed.

(* wf_alg is not vacuous: a signature entry 2, a basis with a repeated generator *)
Example ex_wf_rejects :
  (wf_alg (mkAlg [1; 2] 1 2 (default_c2b 2 1) false),
   wf_alg (mkAlg [1; 1] 1 2 [([], 0); ([1%nat], 1); ([1%nat], 2); ([1; 1]%nat, 3)] false)) = (false, false).
Proof. vm_compute. reflexivity. Qed.

Lemma ex_pga3d_len : alg_len ex_pga3d = 16.
Proof. vm_compute. reflexivity. Qed.

(* 3DPGA: vecs = [1; 2; 3; 0], so e1, e2, e3, e0 have the bits 1, 2, 4, 8;
   keys 5 = e31, 9 = e01, 6 = e23:  (e31 e01) e23 = e31 (e01 e23) *)
Example ex_sgn_assoc :
  sgn ex_pga3d 5 9 * sgn ex_pga3d (Z.lxor 5 9) 6 = sgn ex_pga3d 9 6 * sgn ex_pga3d 5 (Z.lxor 9 6).
Proof. apply (sgn_assoc ex_pga3d ex_wf_pga3d); rewrite ex_pga3d_len; lia. Qed.

Example ex_sgn_assoc_values :
  (bin2canon ex_pga3d 5, bin2canon ex_pga3d 9, bin2canon ex_pga3d 6,
   sgn ex_pga3d 5 9, sgn ex_pga3d (Z.lxor 5 9) 6, sgn ex_pga3d 9 6, sgn ex_pga3d 5 (Z.lxor 9 6))
  = (Some [3; 1]%nat, Some [0; 1]%nat, Some [2; 3]%nat, 1, -1, 1, -1).
Proof. vm_compute. reflexivity. Qed.

Example ex_sgn_pss : sgn ex_pga3d 15 15 = 0 /\ (sgn ex_sta 7 7 = 1 \/ sgn ex_sta 7 7 = -1).
Proof.
  split.
  - apply (sgn_pss_zero_iff ex_pga3d ex_wf_pga3d). vm_compute. auto.
  - apply (sgn_pss_unit_iff ex_sta ex_wf_default). vm_compute. intuition discriminate.
Qed.

Example ex_ordered_product :
  fold_left (fun '(s, k) g => (s * sgn ex_pga3d k (genbit ex_pga3d g), Z.lxor k (genbit ex_pga3d g)))
            [0; 3; 2]%nat (1, 0) = (1, 14).
Proof. apply (sgn_ordered_product ex_pga3d ex_wf_pga3d). vm_compute. reflexivity. Qed.
