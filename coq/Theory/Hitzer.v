(* Theory/Hitzer.v — C07: the closed-form (Hitzer) inverses of codegen_hitzer_inv for d <= 4.

   Statement (hitzer_le3, hitzer_d4, hitzer_le4):  in every algebra A of dimension d <= 4 that satisfies
   the sign-table hypotheses and whose blades are spelled in ascending generator order (decidable:
   [ascending_ok A]; true for every default basis, any signature over {1,-1,0} in any order, start
   index 0..2: default_le4_ok), for EVERY well-formed operand x (sparse, any key order, stored zeros)
   over EVERY commutative ring, the numerator  num = hitzer_num x  of the model satisfies
        x * num == den      and      num * x == den        (den = hitzer_den x num, a scalar),
   and  den = 0  ==>  x has no two-sided inverse (over any ring with 1 <> 0).
   With Theory/Inverse.v (inv_model_sound) this gives (inv_le4_sound, zde_only_singular_le4,
   inv_le4_complete):  x * x.inv() = x.inv() * x = 1  whenever x.inv() returns, ZeroDivisionError only
   for operands without inverse, and over a field a value exactly for the invertible operands.

   Method.  For well-formed operands every model operator acts on the DENSE coefficient function
   K |-> coeff K x  (rep):  products are convolutions over the 2^d keys (Algebra.gp_conv), involutions
   and grade selection are diagonal.  Under [ascending_ok] the sign table is
        sgn A a b = (-1)^#{(i,j) : i in a, j in b, i > j} * prod_{i in a /\ b} m_i
   with m_i the square of generator i.  The scalar equations thereby become polynomial identities
   in the 2^d coefficients of x AND in m_0..m_(d-1) taken as ring indeterminates, so all 3^d
   signatures (and every ordering) are covered at once; each coefficient identity is closed by [ring].
   d <= 3: the full identities (d = 3: 16 identities of degree 4 in 11 indeterminates, about 50 s).
   d = 4: a monolithic [ring] does not finish (DESIGN section 10); the proof is STAGED (section 7 below):
   N = x conj(x) has grades 0,3,4 only (degree 2), hence num = conj(x) (2a - N), and by associativity
   (Theory/Algebra.v)  x num = N (2a - N),  num x = N' (2a' - N')  with N' = conj(x) x, a' = a (trace);
   N (2a - N) is scalar for every N with grades 0,3,4 (degree 2 in six indeterminates).  About 5 s.

   d = 5 and the Shirokov scheme are NOT covered here (see the header of Props/C07.v). *)
From Coq Require Import List ZArith Bool Ring Lia Permutation RelationClasses.
From KV Require Import Model.All Model.Inverse Theory.WF Theory.Sparse Theory.Product Theory.Ops
  Theory.SignBits Theory.OpsWF Theory.Algebra Theory.Natural Theory.Inverse.
Import ListNotations.
Local Open Scope Z_scope.

(* ---------- the sign table of an ascending-spelled basis, on the bit keys ---------- *)

Definition zr (d : nat) : list Z := Alg.zrange (2 ^ d).

(* parity of #{(i, j) : bit i of a, bit j of b, i > j}, bits below n *)
Fixpoint rpar (n : nat) (a b : Z) : bool :=
  match n with
  | 0%nat => false
  | S n' => xorb (Z.testbit b (Z.of_nat n') && Z.odd (popcount (Z.shiftr a (Z.of_nat n' + 1))))
                 (rpar n' a b)
  end.
Fixpoint mprodZ (m : nat -> Z) (n : nat) (c : Z) : Z :=
  match n with
  | 0%nat => 1
  | S n' => (if Z.testbit c (Z.of_nat n') then m n' else 1) * mprodZ m n' c
  end.
(* the square of generator i as the table has it *)
Definition gen_sq (A : alg) (i : nat) : Z := sgn A (2 ^ Z.of_nat i) (2 ^ Z.of_nat i).
Definition asc_sign (A : alg) (a b : Z) : Z :=
  (if rpar (a_d A) a b then -1 else 1) * mprodZ (gen_sq A) (a_d A) (Z.land a b).
Definition ascending_ok (A : alg) : bool :=
  forallb (fun a => forallb (fun b => Z.eqb (sgn A a b) (asc_sign A a b)) (zr (a_d A))) (zr (a_d A)).

Lemma zr_range d K : In K (zr d) <-> 0 <= K < 2 ^ Z.of_nat d.
Proof.
  unfold zr. rewrite In_zrange. rewrite Nat2Z.inj_pow. reflexivity.
Qed.

Lemma ascending_ok_spec A a b : ascending_ok A = true ->
  0 <= a < alg_len A -> 0 <= b < alg_len A -> sgn A a b = asc_sign A a b.
Proof.
  unfold ascending_ok. intros H Ha Hb. rewrite forallb_forall in H.
  specialize (H a (proj2 (zr_range _ a) Ha)). rewrite forallb_forall in H.
  specialize (H b (proj2 (zr_range _ b) Hb)). apply Z.eqb_eq. exact H.
Qed.

Section Hitzer.
  Variable R : Type.
  Variables (rO rI : R) (radd rmul rsub : R -> R -> R) (ropp : R -> R).
  Hypothesis Rth : ring_theory rO rI radd rmul rsub ropp (@eq R).
  Add Ring Rring : Rth.
  Local Notation O := (mkOps R radd rsub rmul ropp rO rI).
  Local Notation "a + b" := (radd a b) : kvr_scope.
  Local Notation "a * b" := (rmul a b) : kvr_scope.
  Local Notation "a - b" := (rsub a b) : kvr_scope.
  Local Notation "- a" := (ropp a) : kvr_scope.
  Local Notation rsum := (Sparse.rsum rO radd).
  Local Notation equiv := (Sparse.equiv rO rI radd rmul rsub ropp).
  Local Infix "==" := equiv (at level 70, no associativity).
  Local Notation sg := (Ops.sg rO rI ropp).
  Local Notation scal := (Algebra.scal rmul).
  Local Notation one := (Algebra.one rI).
  Local Notation cf K x := (coeff O K x).

  Local Instance equiv_Equiv : Equivalence equiv := equiv_Equivalence R rO rI radd rmul rsub ropp.

  (* ================= 1. dense operators ================= *)

  Fixpoint mprodR (m : nat -> R) (n : nat) (c : Z) : R :=
    match n with
    | 0%nat => rI
    | S n' => ((if Z.testbit c (Z.of_nat n') then m n' else rI) * mprodR m n' c)%r
    end.
  Definition wgen (d : nat) (m : nat -> R) (a b : Z) : R :=
    ((if rpar d a b then - rI else rI) * mprodR m d (Z.land a b))%r.
  (* geometric product *)
  Definition dmul (d : nat) (m : nat -> R) (f g : Z -> R) (K : Z) : R :=
    rsum (map (fun a => (wgen d m a (Z.lxor a K) * (f a * g (Z.lxor a K)))%r) (zr d)).
  (* reverse / involute / conjugate *)
  Definition dinv (gr : list Z) (f : Z -> R) (K : Z) : R :=
    if involution_flips gr K then (- f K)%r else f K.
  (* a scalar *)
  Definition dscalar (c : R) (K : Z) : R := if Z.eqb K 0 then c else rO.

  (* the numerators of codegen_hitzer_inv, d = 0..3 *)
  Definition dnum (d : nat) (m : nat -> R) (f : Z -> R) : Z -> R :=
    match d with
    | 0%nat => dscalar rI
    | 1%nat => dinv grades_involute f
    | 2%nat => dinv grades_conjugate f
    | _ => let fc := dinv grades_conjugate f in
           dmul 3 m fc (dinv grades_reverse (dmul 3 m f fc))
    end.

  (* ================= 2. the polynomial identities ================= *)

  Definition dense_ok (d : nat) (m : nat -> R) (f : Z -> R) (K : Z) : Prop :=
    dmul d m f (dnum d m f) K = (if Z.eqb K 0 then dmul d m f (dnum d m f) 0 else rO)
    /\ dmul d m (dnum d m f) f K = (if Z.eqb K 0 then dmul d m f (dnum d m f) 0 else rO).

  Lemma dense0 m f K : In K (zr 0) -> dense_ok 0 m f K.
  Proof.
    intros H. vm_compute in H.
    repeat (destruct H as [H|H]; [subst K; split; vm_compute; ring|]). destruct H.
  Qed.
  Lemma dense1 m f K : In K (zr 1) -> dense_ok 1 m f K.
  Proof.
    intros H. vm_compute in H.
    repeat (destruct H as [H|H]; [subst K; split; vm_compute; ring|]). destruct H.
  Qed.
  Lemma dense2 m f K : In K (zr 2) -> dense_ok 2 m f K.
  Proof.
    intros H. vm_compute in H.
    repeat (destruct H as [H|H]; [subst K; split; vm_compute; ring|]). destruct H.
  Qed.
  Lemma dense3 m f K : In K (zr 3) -> dense_ok 3 m f K.
  Proof.
    intros H. vm_compute in H.
    Time repeat (destruct H as [H|H]; [subst K; split; vm_compute; ring|]). destruct H.
  Time Qed.

  Lemma dense_le3 d m f K : (d <= 3)%nat -> In K (zr d) -> dense_ok d m f K.
  Proof.
    intros Hd. destruct d as [|[|[|[|d]]]]; [apply dense0 | apply dense1 | apply dense2 | apply dense3 | lia].
  Qed.

  (* ================= 3. the model operators on dense coefficient functions ================= *)

  Variable A : alg.
  Local Notation L := (alg_len A).
  Local Notation s := (sgn A).
  Local Notation U := (canon_keys A).
  Local Notation wf := (@wfmv R A).
  Hypothesis SH : sign_hyps A.
  Hypothesis Hasc : ascending_ok A = true.
  Variable F : mv R -> mv R.
  Hypothesis HF : filter_ok rO rI radd rmul rsub ropp A F.

  Local Notation d := (a_d A).
  Definition mR (i : nat) : R := sg (gen_sq A i).
  Local Notation m := mR.

  Definition rep (x : mv R) (f : Z -> R) : Prop := wf x /\ forall K, 0 <= K < L -> cf K x = f K.

  Lemma zr_L K : In K (zr d) <-> 0 <= K < L.
  Proof. apply zr_range. Qed.

  Lemma U_perm : Permutation U (zr d).
  Proof.
    apply NoDup_Permutation; [exact (sh_nodup A SH) | apply NoDup_zrange |].
    intros k. rewrite zr_L. apply (sh_keys A SH).
  Qed.

  Lemma sg_mprod n c : sg (mprodZ (gen_sq A) n c) = mprodR m n c.
  Proof.
    induction n as [|n IH]; cbn [mprodZ mprodR]; [reflexivity|].
    rewrite (sg_mul R rO rI radd rmul rsub ropp Rth), IH. unfold mR.
    destruct (Z.testbit c (Z.of_nat n)); reflexivity.
  Qed.

  Lemma sg_table a b : 0 <= a < L -> 0 <= b < L -> sg (s a b) = wgen d m a b.
  Proof.
    intros Ha Hb. rewrite (ascending_ok_spec A a b Hasc Ha Hb). unfold asc_sign, wgen.
    rewrite (sg_mul R rO rI radd rmul rsub ropp Rth), sg_mprod.
    destruct (rpar d a b); reflexivity.
  Qed.

  Lemma inr_x a b : 0 <= a < L -> 0 <= b < L -> 0 <= Z.lxor a b < L.
  Proof. apply inr_lxor. Qed.

  Lemma rep_self x : wf x -> rep x (fun K => cf K x).
  Proof. intros H. split; [exact H | reflexivity]. Qed.

  Lemma rep_gp x y f g : rep x f -> rep y g -> rep (gp O A x y) (dmul d m f g).
  Proof.
    intros [Hx Ex] [Hy Ey]. split; [apply (wfmv_gp R rO rI radd rmul rsub ropp A SH)|].
    intros K HK. rewrite (gp_conv R rO rI radd rmul rsub ropp Rth A SH x y K Hx Hy HK).
    unfold dmul. rewrite (rsum_map_perm R rO rI radd rmul rsub ropp Rth _ _ _ U_perm).
    apply rsum_map_ext. intros a Ha. apply zr_L in Ha.
    pose proof (inr_x a K Ha HK) as Hb.
    rewrite (sg_table a _ Ha Hb), (Ex a Ha), (Ey _ Hb). reflexivity.
  Qed.

  Lemma rep_F x f : rep x f -> rep (F x) f.
  Proof.
    intros [Hx Ex]. destruct (HF x Hx) as [H1 H2]. split; [exact H1|].
    intros K HK. rewrite (H2 K). apply Ex. exact HK.
  Qed.

  Lemma rep_imul x y f g : rep x f -> rep y g -> rep (i_mul O F A x y) (dmul d m f g).
  Proof. intros Hx Hy. apply rep_F, rep_gp; assumption. Qed.

  Lemma rep_involution gr x f : rep x f -> rep (canon_sort A (raw_involution O gr x)) (dinv gr f).
  Proof.
    intros [Hx Ex]. split; [exact (wfmv_canon_sort R A (sh_keys A SH) (sh_nodup A SH) _)|].
    intros K HK. rewrite (coeff_canon_sort_in R rO rI radd rmul rsub ropp) by (apply (sh_keys A SH); exact HK).
    rewrite (coeff_raw_involution R rO rI radd rmul rsub ropp Rth) by apply Hx.
    unfold dinv. rewrite (Ex K HK). reflexivity.
  Qed.

  Lemma rep_iconj x f : rep x f -> rep (i_conj O F A x) (dinv grades_conjugate f).
  Proof. intros H. apply rep_F. exact (rep_involution grades_conjugate x f H). Qed.
  Lemma rep_irev x f : rep x f -> rep (i_rev O F A x) (dinv grades_reverse f).
  Proof. intros H. apply rep_F. exact (rep_involution grades_reverse x f H). Qed.
  Lemma rep_iinvo x f : rep x f -> rep (i_invo O F A x) (dinv grades_involute f).
  Proof. intros H. apply rep_F. exact (rep_involution grades_involute x f H). Qed.

  Lemma rep_scalar c : rep (scalar_mv c) (dscalar c).
  Proof.
    split; [apply wfmv_scalar|]. intros K _. unfold scalar_mv, dscalar.
    rewrite coeff_cons, coeff_nil, (Z.eqb_sym 0 K). reflexivity.
  Qed.

  (* a dense function only matters on the keys of the algebra *)
  Lemma dmul_ext f f' g g' K : 0 <= K < L ->
    (forall k, 0 <= k < L -> f k = f' k) -> (forall k, 0 <= k < L -> g k = g' k) ->
    dmul d m f g K = dmul d m f' g' K.
  Proof.
    intros HK Hf Hg. unfold dmul. apply rsum_map_ext. intros a Ha. apply zr_L in Ha.
    rewrite (Hf a Ha), (Hg _ (inr_x a K Ha HK)). reflexivity.
  Qed.

  (* ---------- the scalar part of the scalar product is the scalar part of the product ---------- *)
  Lemma sp_e x y : wf x -> wf y -> cf 0 (sp O A x y) = cf 0 (gp O A x y).
  Proof.
    intros Hx Hy.
    assert (H0 : 0 <= 0 < L) by (apply (inr_0 A)).
    unfold sp, gp, raw_sp, raw_gp.
    rewrite !(prod_conv R rO rI radd rmul rsub ropp Rth A SH _ x y 0 Hx Hy H0).
    apply rsum_map_ext. intros a _. unfold wt, accepts, filter_sp.
    rewrite Z.lxor_0_r, Z.lxor_nilpotent. reflexivity.
  Qed.

  (* ================= 4. from the dense identities to the model ================= *)

  Theorem hitzer_from_dense (dn : Z -> R) x num : wf x -> rep num dn ->
    (forall K, 0 <= K < L ->
       dmul d m (fun k => cf k x) dn K = (if Z.eqb K 0 then dmul d m (fun k => cf k x) dn 0 else rO)
       /\ dmul d m dn (fun k => cf k x) K = (if Z.eqb K 0 then dmul d m (fun k => cf k x) dn 0 else rO)) ->
    let den := hitzer_den O F A x num in
    gp O A x num == scal den one /\ gp O A num x == scal den one.
  Proof.
    intros Hx Hn Hd den.
    pose proof (rep_self x Hx) as Rx.
    destruct (rep_gp x num _ _ Rx Hn) as [W1 E1].
    destruct (rep_gp num x _ _ Hn Rx) as [W2 E2].
    assert (H0 : 0 <= 0 < L) by (apply (inr_0 A)).
    assert (Eden : den = dmul d m (fun k => cf k x) dn 0).
    { unfold den, hitzer_den, e_of.
      destruct (HF (sp O A x num) (wfmv_canon_sort R A (sh_keys A SH) (sh_nodup A SH) _)) as [_ H].
      unfold i_sp. rewrite (H 0). rewrite (sp_e x num Hx (proj1 Hn)). apply E1. exact H0. }
    assert (Wd : wf (scal den one)) by (apply wfmv_scal, wfmv_one).
    assert (Ed : forall K, cf K (scal den one) = if Z.eqb K 0 then den else rO).
    { intros K. rewrite (cf_scal R rO rI radd rmul rsub ropp Rth), (cf_one R rO rI radd rmul rsub ropp).
      destruct (Z.eqb K 0); ring. }
    split; apply (eqv_in R rO rI radd rmul rsub ropp A); try assumption; intros K HK; rewrite Ed.
    - rewrite (E1 K HK). rewrite (proj1 (Hd K HK)). rewrite Eden. reflexivity.
    - rewrite (E2 K HK). rewrite (proj2 (Hd K HK)). rewrite Eden. reflexivity.
  Qed.

  (* the numerator of the model is the dense numerator *)
  Lemma hitzer_num_rep x num : (d <= 3)%nat -> wf x -> hitzer_num O F A x = Ok num ->
    rep num (dnum d m (fun k => cf k x)).
  Proof.
    intros Hd Hx. pose proof (rep_self x Hx) as Rx. unfold hitzer_num.
    destruct d as [|[|[|[|n]]]] eqn:Ed; try lia; intros H; inversion H; subst num; clear H; cbn [dnum].
    - apply rep_scalar.
    - apply rep_iinvo. exact Rx.
    - apply rep_iconj. exact Rx.
    - rewrite <- Ed. apply rep_imul; [apply rep_iconj; exact Rx|].
      apply rep_irev. apply rep_imul; [exact Rx | apply rep_iconj; exact Rx].
  Qed.

  (* C07, closed forms up to three dimensions *)
  Theorem hitzer_le3 x : (d <= 3)%nat -> wf x ->
    exists num, hitzer_num O F A x = Ok num /\ wf num /\
      let den := hitzer_den O F A x num in
      gp O A x num == scal den one /\ gp O A num x == scal den one.
  Proof.
    intros Hd Hx.
    assert (Hex : exists num, hitzer_num O F A x = Ok num).
    { unfold hitzer_num. destruct d as [|[|[|[|n]]]]; try lia; eexists; reflexivity. }
    destruct Hex as [num Hnum]. exists num. split; [exact Hnum|].
    pose proof (hitzer_num_rep x num Hd Hx Hnum) as Rn. split; [exact (proj1 Rn)|].
    apply (hitzer_from_dense _ x num Hx Rn).
    intros K HK. apply (dense_le3 d m (fun k => cf k x) K Hd). apply zr_L. exact HK.
  Qed.

End Hitzer.
(* ================= 5. alg.inv for d <= 3: soundness and "ZeroDivisionError only when singular" ===== *)
Section HitzerInv.
  Variable R : Type.
  Variables (rO rI : R) (radd rmul rsub : R -> R -> R) (ropp : R -> R).
  Hypothesis Rth : ring_theory rO rI radd rmul rsub ropp (@eq R).
  Add Ring Rring2 : Rth.
  Local Notation O := (mkOps R radd rsub rmul ropp rO rI).
  Local Notation "a + b" := (radd a b) : kvr_scope.
  Local Notation "a * b" := (rmul a b) : kvr_scope.
  Local Notation "a - b" := (rsub a b) : kvr_scope.
  Local Notation "- a" := (ropp a) : kvr_scope.
  Local Notation equiv := (Sparse.equiv rO rI radd rmul rsub ropp).
  Local Infix "==" := equiv (at level 70, no associativity).
  Local Notation scal := (Algebra.scal rmul).
  Local Notation one := (Algebra.one rI).
  Local Notation cf K x := (coeff O K x).
  Local Instance equiv_Equiv2 : Equivalence equiv := equiv_Equivalence R rO rI radd rmul rsub ropp.

  Variable A : alg.
  Local Notation L := (alg_len A).
  Local Notation wf := (@wfmv R A).
  Local Notation d := (a_d A).
  Hypothesis SH : sign_hyps A.
  Hypothesis Hasc : ascending_ok A = true.
  Variable dv : R -> R -> R.
  Variable isz : R -> bool.
  Variable F : mv R -> mv R.
  Hypothesis HF : filter_ok rO rI radd rmul rsub ropp A F.
  Hypothesis Hd : (d <= 3)%nat.

  Local Notation GP := (gp O A).
  Local Notation wfgp := (wfmv_gp R rO rI radd rmul rsub ropp A SH).
  Local Notation wfcs := (wfmv_canon_sort R A (sh_keys A SH) (sh_nodup A SH)).
  Local Notation has_inverse x := (exists y, wf y /\ GP x y == one /\ GP y x == one).

  Lemma lt6 : Nat.ltb d 6 = true.
  Proof. apply Nat.ltb_lt. lia. Qed.

  (* x * x.inv() = x.inv() * x = 1 whenever alg.inv returns, over any ring in which the coefficient
     division inverts the (non-zero-testing) denominator *)
  Theorem inv_le3_sound x r : wf x ->
    (forall b, isz b = false -> (b * dv rI b)%r = rI) ->
    inv_model O dv isz F A x = Ok r -> GP x r == one /\ GP r x == one.
  Proof.
    intros Hx Hdv Hr.
    destruct (hitzer_le3 R rO rI radd rmul rsub ropp Rth A SH Hasc F HF x Hd Hx) as (num & En & Wn & H1 & H2).
    assert (E : inv_numden O dv isz F A x = Ok (num, hitzer_den O F A x num)).
    { unfold inv_numden. rewrite lt6. unfold hitzer. rewrite En. reflexivity. }
    pose proof Hr as Hr'. apply (inv_model_ok R rO rI radd rmul rsub ropp) in Hr'.
    destruct Hr' as (num' & den' & E' & Hz & _). rewrite E in E'. inversion E'; subst num' den'.
    exact (inv_model_sound R rO rI radd rmul rsub ropp Rth A SH dv isz F HF x num _ r Hx E H1 H2 (Hdv _ Hz) Hr).
  Qed.

  (* alg.inv never fails otherwise than by ZeroDivisionError *)
  Theorem inv_le3_total x : wf x ->
    (exists r, inv_model O dv isz F A x = Ok r) \/ inv_model O dv isz F A x = Err EZeroDiv.
  Proof.
    intros Hx.
    destruct (hitzer_le3 R rO rI radd rmul rsub ropp Rth A SH Hasc F HF x Hd Hx) as (num & En & _).
    unfold inv_model, inv_numden. rewrite lt6. unfold hitzer. rewrite En. cbn [bind].
    destruct (isz _); [right; reflexivity | left; eexists; reflexivity].
  Qed.

  (* ---------- singular operands ---------- *)
  Lemma cancel_l a b y : wf a -> wf b -> wf y -> GP y a == one -> GP a b == [] -> b == [].
  Proof.
    intros Ha Hb Hy H1 H0.
    transitivity (GP one b); [symmetry; apply (gp_one_l R rO rI radd rmul rsub ropp Rth A SH); exact Hb|].
    transitivity (GP (GP y a) b).
    { apply (gp_congr_l R rO rI radd rmul rsub ropp Rth A); [apply wfmv_one | apply wfgp | exact Hb | symmetry; exact H1]. }
    transitivity (GP y (GP a b)); [apply (gp_assoc R rO rI radd rmul rsub ropp Rth A SH); assumption|].
    transitivity (GP y []).
    { apply (gp_congr_r R rO rI radd rmul rsub ropp Rth A); [exact Hy | apply wfgp | apply wfmv_nil | exact H0]. }
    apply (gp_zero_r R rO rI radd rmul rsub ropp Rth A SH). exact Hy.
  Qed.

  Lemma zero_no_inverse x y : wf x -> x == [] -> GP x y == one -> rI = rO.
  Proof.
    intros Hx H0 H1.
    assert (H : GP x y == []).
    { transitivity (GP [] y); [|apply (gp_zero_l R rO rI radd rmul rsub ropp A)].
      (* y may be arbitrary here: use the coefficient formula directly *)
      intros K. unfold gp, raw_gp.
      destruct (in_dec Z.eq_dec K (canon_keys A)) as [HK|HK].
      - rewrite !(coeff_canon_sort_in R rO rI radd rmul rsub ropp) by exact HK.
        rewrite !(product_coeff R rO rI radd rmul rsub ropp Rth).
        cbn [list_prod map Sparse.rsum].
        apply (rsum_map_zero R rO rI radd rmul rsub ropp Rth). intros [[kx vx] [ky vy]] Hin.
        apply in_prod_iff in Hin. destruct Hin as [Hin _].
        assert (Ev : vx = rO).
        { transitivity (coeff O kx x); [|rewrite (H0 kx); reflexivity]. symmetry.
          apply (coeff_in R rO rI radd rmul rsub ropp); [apply Hx | exact Hin]. }
        subst vx. apply (contrib_zero_l R rO rI radd rmul rsub ropp Rth).
      - rewrite !(coeff_canon_sort_notin R rO rI radd rmul rsub ropp) by exact HK. reflexivity. }
    specialize (H1 0). rewrite (H 0) in H1. cbn in H1. symmetry. exact H1.
  Qed.

  Lemma involution_zero gr z : wf z -> canon_sort A (raw_involution O gr z) == [] -> z == [].
  Proof.
    intros Hz H. apply (eqv_in R rO rI radd rmul rsub ropp A); [exact Hz | apply wfmv_nil |].
    intros K HK. specialize (H K).
    rewrite (coeff_canon_sort_in R rO rI radd rmul rsub ropp) in H by (apply (sh_keys A SH); exact HK).
    rewrite (coeff_raw_involution R rO rI radd rmul rsub ropp Rth) in H by apply Hz.
    cbn [coeff o_zero] in *. destruct (involution_flips gr K); [|exact H].
    assert (X : (- - coeff O K z)%r = coeff O K z) by ring. rewrite <- X, H. ring.
  Qed.
  Lemma conj_one : conjugate O A one == one.
  Proof.
    apply (eqv_in R rO rI radd rmul rsub ropp A); [apply wfcs | apply wfmv_one |].
    intros K HK.
    rewrite (conjugate_coeff R rO rI radd rmul rsub ropp Rth) by
      (try (apply (sh_keys A SH); exact HK); apply (wfmv_one R rI A)).
    rewrite (cf_one R rO rI radd rmul rsub ropp).
    destruct (Z.eqb K 0) eqn:E.
    - apply Z.eqb_eq in E. subst K. reflexivity.
    - destruct (involution_flips grades_conjugate K); [ring | reflexivity].
  Qed.

  (* conjugation is an anti-automorphism: it maps a left inverse to a right inverse *)
  Lemma conj_inverse x y : wf x -> wf y -> GP y x == one ->
    GP (conjugate O A x) (conjugate O A y) == one.
  Proof.
    intros Hx Hy H.
    transitivity (conjugate O A (GP y x)).
    { symmetry. apply (conjugate_gp R rO rI radd rmul rsub ropp Rth A (sh_keys A SH) (sh_nodup A SH) (sh_swap A SH));
        assumption. }
    transitivity (conjugate O A one); [|exact conj_one].
    apply (conjugate_congr R rO rI radd rmul rsub ropp Rth); [apply wfgp | apply (wfmv_one R rI A) | exact H].
  Qed.

  (* C07, "ZeroDivisionError only for operands that have no inverse", d <= 3: a vanishing
     denominator means that x has no two-sided inverse (over any ring with 1 <> 0) *)
  Theorem hitzer_singular_le3 x num : wf x -> rI <> rO ->
    hitzer_num O F A x = Ok num -> hitzer_den O F A x num = rO -> ~ has_inverse x.
  Proof.
    intros Hx H10 En Hden (y & Hy & Hxy & Hyx).
    destruct (hitzer_le3 R rO rI radd rmul rsub ropp Rth A SH Hasc F HF x Hd Hx) as (num' & En' & Wn & H1 & _).
    rewrite En in En'. inversion En'; subst num'. rewrite Hden in H1.
    assert (Hxn : GP x num == []).
    { transitivity (scal rO one); [exact H1 | apply (scal_zero R rO rI radd rmul rsub ropp Rth)]. }
    pose proof (cancel_l x num y Hx Wn Hy Hyx Hxn) as Hn0.
    assert (Hfin : x == [] -> False).
    { intros H0. apply H10. exact (zero_no_inverse x y Hx H0 Hxy). }
    unfold hitzer_num in En.
    destruct d as [|[|[|[|n]]]] eqn:Ed; try lia; inversion En as [En2]; clear En.
    - (* d = 0: num = 1 *)
      rewrite <- En2 in Hn0. specialize (Hn0 0). cbn in Hn0. apply H10. exact Hn0.
    - (* d = 1: num = x.involute() *)
      apply Hfin. apply (involution_zero grades_involute x Hx).
      destruct (HF _ (wfcs (raw_involution O grades_involute x))) as [_ E].
      transitivity num; [|exact Hn0]. rewrite <- En2. symmetry. exact E.
    - (* d = 2: num = x.conjugate() *)
      apply Hfin. apply (involution_zero grades_conjugate x Hx).
      destruct (HF _ (wfcs (raw_involution O grades_conjugate x))) as [_ E].
      transitivity num; [|exact Hn0]. rewrite <- En2. symmetry. exact E.
    - (* d = 3: num = xc * ~(x * xc) *)
      set (xc := i_conj O F A x) in *. set (N := i_mul O F A x xc) in *. set (M := i_rev O F A N) in *.
      destruct (HF _ (wfcs (raw_involution O grades_conjugate x))) as [Wxc Exc]. fold (conjugate O A x) in Wxc, Exc.
      change (F (conjugate O A x)) with xc in Wxc, Exc.
      destruct (HF _ (wfgp x xc)) as [WN EN]. change (F (GP x xc)) with N in WN, EN.
      destruct (HF _ (wfcs (raw_involution O grades_reverse N))) as [WM EM].
      change (F (canon_sort A (raw_involution O grades_reverse N))) with M in WM, EM.
      destruct (HF _ (wfgp xc M)) as [_ Enum]. change (F (GP xc M)) with (i_mul O F A xc M) in Enum.
      rewrite En2 in Enum.
      (* a left inverse of xc *)
      pose proof (conj_inverse y x Hy Hx Hxy) as Hc.   (* conj y * conj x = 1 *)
      assert (Hyc : GP (conjugate O A y) xc == one).
      { transitivity (GP (conjugate O A y) (conjugate O A x)); [|exact Hc].
        apply (gp_congr_r R rO rI radd rmul rsub ropp Rth A); [apply wfcs | exact Wxc | apply wfcs | exact Exc]. }
      (* M = 0 *)
      assert (HM0 : M == []).
      { apply (cancel_l xc M (conjugate O A y) Wxc WM (wfcs _) Hyc).
        transitivity num; [symmetry; exact Enum | exact Hn0]. }
      (* N = 0 *)
      assert (HN0 : N == []).
      { apply (involution_zero grades_reverse N WN). transitivity M; [symmetry; exact EM | exact HM0]. }
      (* xc = 0 *)
      assert (Hxc0 : xc == []).
      { apply (cancel_l x xc y Hx Wxc Hy Hyx). transitivity N; [symmetry; exact EN | exact HN0]. }
      apply Hfin. apply (involution_zero grades_conjugate x Hx).
      transitivity xc; [symmetry; exact Exc | exact Hxc0].
  Qed.

  (* alg.inv raises ZeroDivisionError only for operands without a two-sided inverse *)
  Theorem zde_only_singular_le3 x : wf x -> rI <> rO -> (forall r, isz r = true -> r = rO) ->
    inv_model O dv isz F A x = Err EZeroDiv -> ~ has_inverse x.
  Proof.
    intros Hx H10 Hz H. apply (zde_iff R rO rI radd rmul rsub ropp A dv isz F) in H.
    destruct H as (num & den & E & Hden). unfold inv_numden in E. rewrite lt6 in E.
    unfold hitzer in E. apply bind_Ok in E. destruct E as (n & En & E). inversion E; subst n den.
    exact (hitzer_singular_le3 x num Hx H10 En (Hz _ Hden)).
  Qed.

  (* over a field (every element that does not test zero is inverted by the coefficient division,
     the zero test is exact): alg.inv returns a two-sided inverse exactly for the invertible operands
     and raises ZeroDivisionError exactly for the others *)
  Theorem inv_le3_complete x : wf x -> rI <> rO ->
    (forall r, isz r = true -> r = rO) -> (forall b, isz b = false -> (b * dv rI b)%r = rI) ->
    (has_inverse x <-> exists r, inv_model O dv isz F A x = Ok r)
    /\ (~ has_inverse x <-> inv_model O dv isz F A x = Err EZeroDiv).
  Proof.
    intros Hx H10 Hz Hdv. destruct (inv_le3_total x Hx) as [[r Hr]|He].
    - assert (Hi : has_inverse x).
      { exists r. split; [exact (inv_model_wf R rO rI radd rmul rsub ropp A SH dv isz F HF x r Hr)|].
        exact (inv_le3_sound x r Hx Hdv Hr). }
      split; split.
      + intros _. exists r. exact Hr.
      + intros _. exact Hi.
      + intros Hn. exfalso. exact (Hn Hi).
      + rewrite Hr. discriminate.
    - pose proof (zde_only_singular_le3 x Hx H10 Hz He) as Hs. split; split.
      + intros Hi. exfalso. exact (Hs Hi).
      + intros [r Hr]. rewrite He in Hr. discriminate.
      + intros _. exact He.
      + intros _. exact Hs.
  Qed.
End HitzerInv.

(* ================= 6. every default basis of dimension <= 3 ================= *)

(* all signatures over {1, -1, 0} of a given length *)
Fixpoint hz_sigs (n : nat) : list (list Z) :=
  match n with
  | 0%nat => [[]]
  | S k => flat_map (fun s => map (cons s) (hz_sigs k)) [1; -1; 0]
  end.

Lemma hz_sigs_complete sig :
  Forall (fun s => s = 1 \/ s = -1 \/ s = 0) sig -> In sig (hz_sigs (length sig)).
Proof.
  induction sig as [|s sig IH]; intros H; cbn [length hz_sigs].
  - left. reflexivity.
  - inversion H as [|? ? Hs Hr]; subst. apply in_flat_map. exists s. split.
    + cbn [In]. destruct Hs as [Hs|[Hs|Hs]]; subst s; auto.
    + apply in_map. apply IH. exact Hr.
Qed.

(* decidable: the algebra is well-formed and its table is the ascending one *)
Definition default_ok (A : alg) : bool := wf_alg A && ascending_ok A.
Definition defaults_ok (n : nat) : bool :=
  forallb (fun sig => forallb (fun st => forallb (fun g => default_ok (mk_default sig st g)) [false; true])
                              [0; 1; 2]) (hz_sigs n).

Lemma defaults_ok_0 : defaults_ok 0 = true. Proof. vm_compute. reflexivity. Qed.
Lemma defaults_ok_1 : defaults_ok 1 = true. Proof. vm_compute. reflexivity. Qed.
Lemma defaults_ok_2 : defaults_ok 2 = true. Proof. vm_compute. reflexivity. Qed.
Lemma defaults_ok_3 : defaults_ok 3 = true. Proof. vm_compute. reflexivity. Qed.

(* every default basis with d <= 3: any signature over {1,-1,0} in any order, start index 0, 1 or 2
   (the start index only renames the generators), graded or not *)
Theorem default_le3_ok sig start g :
  (length sig <= 3)%nat -> Forall (fun s => s = 1 \/ s = -1 \/ s = 0) sig ->
  (start = 0 \/ start = 1 \/ start = 2) ->
  let A := mk_default sig start g in
  sign_hyps A /\ ascending_ok A = true /\ (a_d A <= 3)%nat.
Proof.
  intros Hl Hsig Hst A.
  assert (Hok : default_ok A = true).
  { assert (Hn : defaults_ok (length sig) = true).
    { destruct (length sig) as [|[|[|[|n]]]]; [exact defaults_ok_0 | exact defaults_ok_1
        | exact defaults_ok_2 | exact defaults_ok_3 | lia]. }
    unfold defaults_ok in Hn. rewrite forallb_forall in Hn.
    specialize (Hn sig (hz_sigs_complete sig Hsig)). rewrite forallb_forall in Hn.
    assert (Hs : In start [0; 1; 2]) by (cbn [In]; destruct Hst as [H|[H|H]]; subst start; auto).
    specialize (Hn start Hs). rewrite forallb_forall in Hn.
    apply Hn. destruct g; cbn [In]; auto. }
  unfold default_ok in Hok. apply andb_true_iff in Hok. destruct Hok as [Hwf Hasc].
  split; [apply wf_sign_hyps; exact Hwf|]. split; [exact Hasc|]. exact Hl.
Qed.

(* closed examples: the hypotheses are satisfiable, and the theorems compute *)
Example default_ok_sta : default_ok (mk_default [1; 1; -1] 1 false) = true.
Proof. vm_compute. reflexivity. Qed.
Example default_ok_pga2 : default_ok (mk_default [0; 1; 1] 0 false) = true.
Proof. vm_compute. reflexivity. Qed.
(* a custom basis with a descending spelling (e31 style) is NOT ascending: it is reached through the
   relabelling isomorphism of C14, not through this file *)
Example custom_not_ascending :
  match mk_custom [1; 1; 1] [[]; [1]; [2]; [3]; [1; 2]; [3; 1]; [2; 3]; [1; 2; 3]]%nat false with
  | Ok A => ascending_ok A = false
  | Err _ => False
  end.
Proof. vm_compute. reflexivity. Qed.
(* over Z: (1 + 2 e1 + 5 e12 + e123) in Cl(3,0,0): numerator, denominator, and x * num = den *)
Example hitzer_Z3 :
  let A := mk_default [1; 1; 1] 1 false in
  let x := [(0, 1); (1, 2); (3, 5); (7, 1)] in
  match hitzer Zops idF A x with
  | Ok (num, den) => den = 445 /\ mv_equiv A (gp Zops A x num) [(0, 445)] = true
                     /\ mv_equiv A (gp Zops A num x) [(0, 445)] = true
  | Err _ => False
  end.
Proof. vm_compute. auto. Qed.
(* a singular operand: (1 + e1)(1 - e1) = 0 in Cl(1,0,0); the denominator is 0 *)
Example hitzer_singular_Z1 :
  let A := mk_default [1] 1 false in
  hitzer Zops idF A [(0, 1); (1, 1)] = Ok ([(0, 1); (1, -1)], 0)
  /\ inv_model Zops Zdv Zisz idF A [(0, 1); (1, 1)] = Err EZeroDiv.
Proof. vm_compute. auto. Qed.

(* ================= 7. d = 4: the closed form by a STAGED proof ================= *)
(* N = x * conj(x) is invariant under conjugation, so it has grades 0, 3, 4 only (D4a: ten identities of
   degree 2).  Hence  N - 2 N_(3,4) = 2a - N  with a the scalar part of N, and
        x * num = (x * xc) * (2a - N) = N * (2a - N)          (associativity, Theory/Algebra.v)
   is scalar (D4b: fifteen identities of degree 2 in the six coefficients of N).  On the other side
        (2a - N) * x = 2a x - x (xc x) = x * (2a' - N'),   N' = xc * x,  a' = a   (D4t: trace)
   so  num * x = (xc x)(2a' - N') = N' (2a' - N'), scalar by the same two facts for N'. *)
Section Hitzer4.
  Variable R : Type.
  Variables (rO rI : R) (radd rmul rsub : R -> R -> R) (ropp : R -> R).
  Hypothesis Rth : ring_theory rO rI radd rmul rsub ropp (@eq R).
  Add Ring Rring4 : Rth.
  Local Notation O := (mkOps R radd rsub rmul ropp rO rI).
  Local Notation "a + b" := (radd a b) : kvr_scope.
  Local Notation "a * b" := (rmul a b) : kvr_scope.
  Local Notation "a - b" := (rsub a b) : kvr_scope.
  Local Notation "- a" := (ropp a) : kvr_scope.
  Local Notation equiv := (Sparse.equiv rO rI radd rmul rsub ropp).
  Local Infix "==" := equiv (at level 70, no associativity).
  Local Notation scal := (Algebra.scal rmul).
  Local Notation one := (Algebra.one rI).
  Local Notation cf K x := (coeff O K x).
  Local Notation dmul := (Hitzer.dmul R rO rI radd rmul ropp).
  Local Notation dinv := (Hitzer.dinv R ropp).
  Local Instance equiv_Equiv4 : Equivalence equiv := equiv_Equivalence R rO rI radd rmul rsub ropp.

  (* ---------- the dense facts ---------- *)
  Definition mask (gs : list nat) (g : Z -> R) (K : Z) : R := if grade_in gs K then g K else rO.
  Definition two_a_minus (g : Z -> R) (K : Z) : R := ((if Z.eqb K 0 then g 0 + g 0 else rO) - g K)%r.

  Lemma D4a m f K : In K (zr 4) -> grade_in [1; 2]%nat K = true ->
    dmul 4 m f (dinv grades_conjugate f) K = rO /\ dmul 4 m (dinv grades_conjugate f) f K = rO.
  Proof.
    intros H. vm_compute in H.
    repeat (destruct H as [H|H]; [subst K; vm_compute; intros HH; try discriminate HH; split; ring|]).
    destruct H.
  Qed.

  Lemma D4t m f g : dmul 4 m f g 0 = dmul 4 m g f 0.
  Proof. vm_compute; ring. Qed.

  Lemma D4b m g K : In K (zr 4) -> K <> 0 ->
    dmul 4 m (mask [0; 3; 4]%nat g) (two_a_minus (mask [0; 3; 4]%nat g)) K = rO.
  Proof.
    intros H. vm_compute in H.
    repeat (destruct H as [H|H];
            [subst K; intros HK; try (exfalso; apply HK; reflexivity); vm_compute; ring|]).
    destruct H.
  Qed.

  Lemma grades_4 K : In K (zr 4) -> grade_in [0; 3; 4]%nat K = false -> grade_in [1; 2]%nat K = true.
  Proof.
    intros H. vm_compute in H.
    repeat (destruct H as [H|H]; [subst K; vm_compute; intros HH; try discriminate HH; reflexivity|]).
    destruct H.
  Qed.

  Lemma grades_4' K : In K (zr 4) -> K <> 0 -> grade_in [3; 4]%nat K = false -> grade_in [1; 2]%nat K = true.
  Proof.
    intros H. vm_compute in H.
    repeat (destruct H as [H|H];
            [subst K; intros HK; try (exfalso; apply HK; reflexivity); vm_compute; intros HH;
             try discriminate HH; reflexivity|]).
    destruct H.
  Qed.

  (* ---------- the model ---------- *)
  Variable A : alg.
  Local Notation L := (alg_len A).
  Local Notation wf := (@wfmv R A).
  Hypothesis SH : sign_hyps A.
  Hypothesis Hasc : ascending_ok A = true.
  Variable F : mv R -> mv R.
  Hypothesis HF : filter_ok rO rI radd rmul rsub ropp A F.
  Hypothesis Hd4 : a_d A = 4%nat.

  Local Notation GP := (gp O A).
  Local Notation SUB := (sub O A).
  Local Notation m := (mR R rO rI ropp A).
  Local Notation rep := (Hitzer.rep R rO rI radd rmul rsub ropp A).
  Local Notation wfgp := (wfmv_gp R rO rI radd rmul rsub ropp A SH).
  Local Notation wfsub := (wfmv_sub R rO rI radd rmul rsub ropp A SH).
  Local Notation gpc := (gp_congr R rO rI radd rmul rsub ropp Rth A).
  Local Notation subc := (sub_congr R rO rI radd rmul rsub ropp Rth A).
  Local Notation gpa := (gp_assoc R rO rI radd rmul rsub ropp Rth A SH).
  Local Notation repgp := (rep_gp R rO rI radd rmul rsub ropp Rth A SH Hasc).

  Lemma inr_zr K : 0 <= K < L <-> In K (zr 4).
  Proof. rewrite <- Hd4. symmetry. apply zr_L. Qed.

  Lemma wf_2aN a N : wf (SUB (scal a one) N). Proof. apply wfsub. Qed.

  (* coefficients of 2a - N *)
  Lemma cf_2aN a N K : wf N -> 0 <= K < L ->
    cf K (SUB (scal a one) N) = ((if Z.eqb K 0 then a else rO) - cf K N)%r.
  Proof.
    intros WN HK.
    rewrite (cf_sub R rO rI radd rmul rsub ropp Rth A SH) by (try assumption; apply wfmv_scal, wfmv_one).
    rewrite (cf_scal R rO rI radd rmul rsub ropp Rth), (cf_one R rO rI radd rmul rsub ropp).
    destruct (Z.eqb K 0); ring.
  Qed.

  (* N with grades 0, 3, 4 only  ==>  N (2a - N) is a scalar *)
  Lemma scalar_from_N N h : rep N h ->
    (forall K, 0 <= K < L -> grade_in [1; 2]%nat K = true -> h K = rO) ->
    forall K, 0 <= K < L -> K <> 0 -> cf K (GP N (SUB (scal (h 0 + h 0)%r one) N)) = rO.
  Proof.
    intros HN H12 K HK HK0. pose proof HN as [WN EN].
    assert (H0 : 0 <= 0 < L) by (apply (inr_0 A)).
    assert (HM : rep (SUB (scal (h 0 + h 0)%r one) N) (two_a_minus h)).
    { split; [apply wfsub|]. intros k Hk. rewrite (cf_2aN _ N k WN Hk). unfold two_a_minus.
      rewrite (EN k Hk). reflexivity. }
    destruct (repgp _ _ _ _ HN HM) as [_ E]. rewrite (E K HK). rewrite Hd4.
    assert (Hmask : forall k, 0 <= k < L -> h k = mask [0; 3; 4]%nat h k).
    { intros k Hk. unfold mask. destruct (grade_in [0; 3; 4]%nat k) eqn:Eg; [reflexivity|].
      apply H12; [exact Hk|]. apply grades_4; [apply inr_zr; exact Hk | exact Eg]. }
    rewrite <- Hd4.
    rewrite (dmul_ext R rO rI radd rmul ropp A h (mask [0; 3; 4]%nat h) (two_a_minus h)
               (two_a_minus (mask [0; 3; 4]%nat h)) K HK Hmask).
    - rewrite Hd4. apply D4b; [apply inr_zr; exact HK | exact HK0].
    - intros k Hk. unfold two_a_minus. rewrite <- (Hmask k Hk), <- (Hmask 0 H0). reflexivity.
  Qed.

  Ltac fin := try assumption; try apply wfgp; try apply wfsub; try reflexivity.

  Theorem hitzer_d4 x : wf x ->
    exists num, hitzer_num O F A x = Ok num /\ wf num /\
      let den := hitzer_den O F A x num in
      GP x num == scal den one /\ GP num x == scal den one /\
      (den = rO -> rI <> rO -> ~ exists y, wf y /\ GP x y == one /\ GP y x == one).
  Proof.
    intros Hx.
    assert (H0 : 0 <= 0 < L) by (apply (inr_0 A)).
    set (f := fun k => cf k x).
    set (fc := dinv grades_conjugate f).
    pose proof (rep_self R rO rI radd rmul rsub ropp A x Hx) as Rx. fold f in Rx.
    set (xc := i_conj O F A x).
    pose proof (rep_iconj R rO rI radd rmul rsub ropp Rth A SH F HF x f Rx) as Rxc. fold xc fc in Rxc.
    pose proof Rxc as [Wxc _].
    set (N := i_mul O F A x xc).
    pose proof (rep_imul R rO rI radd rmul rsub ropp Rth A SH Hasc F HF x xc f fc Rx Rxc) as RN. fold N in RN.
    pose proof RN as [WN EN].
    destruct (HF _ (wfgp x xc)) as [_ EqN]. change (F (GP x xc)) with N in EqN.
    (* the other product N' = xc * x *)
    set (N' := GP xc x).
    pose proof (repgp xc x fc f Rxc Rx) as RN'. fold N' in RN'. pose proof RN' as [WN' EN'].
    set (fN := dmul (a_d A) m f fc) in *. set (fN' := dmul (a_d A) m fc f) in *.
    assert (H12 : forall K, 0 <= K < L -> grade_in [1; 2]%nat K = true -> fN K = rO /\ fN' K = rO).
    { intros K HK Hg. unfold fN, fN'. rewrite Hd4. apply D4a; [apply inr_zr; exact HK | exact Hg]. }
    assert (Haa : fN 0 = fN' 0) by (unfold fN, fN'; rewrite Hd4; apply D4t).
    (* the numerator *)
    assert (Hok : grades_ok A [3; 4]%nat = true) by (unfold grades_ok; rewrite Hd4; reflexivity).
    pose proof (grade_sel_ok R rO rI radd rmul rsub ropp A [3; 4]%nat N Hok) as Eg.
    set (g := select rO rI radd rmul rsub ropp (flat_map (indices_for_grade A) [3; 4]%nat) N) in Eg.
    set (Mm := i_sub O F A N (i_mul O F A (scalar_mv (cst O 2)) g)).
    assert (En : hitzer_num O F A x = Ok (i_mul O F A xc Mm)).
    { unfold hitzer_num. rewrite Hd4. fold xc. fold N. rewrite Eg. reflexivity. }
    exists (i_mul O F A xc Mm). split; [exact En|].
    destruct (HF _ (wfgp xc Mm)) as [Wnum Enum]. change (F (GP xc Mm)) with (i_mul O F A xc Mm) in Wnum, Enum.
    split; [exact Wnum|].
    set (num := i_mul O F A xc Mm) in *.
    (* Mm = 2a - N *)
    set (a2 := (fN 0 + fN 0)%r).
    assert (Wg : wf g).
    { apply (grade_sel_wf R rO rI radd rmul rsub ropp A (sh_keys A SH) (sh_nodup A SH) (sh_grade A SH) [3; 4]%nat N g Eg WN). }
    assert (WMm : wf Mm).
    { apply (HF _ (wfsub _ _)). }
    assert (EMm : Mm == SUB (scal a2 one) N).
    { apply (eqv_in R rO rI radd rmul rsub ropp A); [exact WMm | apply wfsub|].
      intros K HK. rewrite (cf_2aN a2 N K WN HK).
      destruct (HF _ (wfsub N (i_mul O F A (scalar_mv (cst O 2)) g))) as [_ E1].
      change (F (SUB N (i_mul O F A (scalar_mv (cst O 2)) g))) with Mm in E1. rewrite (E1 K).
      destruct (HF _ (wfgp (scalar_mv (cst O 2)) g)) as [W2 E2].
      change (F (GP (scalar_mv (cst O 2)) g)) with (i_mul O F A (scalar_mv (cst O 2)) g) in W2, E2.
      rewrite (cf_sub R rO rI radd rmul rsub ropp Rth A SH) by assumption.
      rewrite (E2 K).
      unfold scalar_mv. rewrite (gp_scalar_l R rO rI radd rmul rsub ropp Rth A SH (cst O 2) g Wg K).
      rewrite (cf_scal R rO rI radd rmul rsub ropp Rth).
      rewrite (grade_sel_coeff R rO rI radd rmul rsub ropp A (sh_keys A SH) (sh_grade A SH) [3; 4]%nat N g K Eg HK).
      assert (Hin : (if grade_in [3; 4]%nat K && zin K (keys N) then cf K N else rO)
                    = (if grade_in [3; 4]%nat K then cf K N else rO)).
      { destruct (grade_in [3; 4]%nat K); [|reflexivity]. cbn [andb].
        destruct (zin K (keys N)) eqn:Ez; [reflexivity|].
        symmetry. apply (coeff_notin R rO rI radd rmul rsub ropp). apply zin_false_iff. exact Ez. }
      rewrite Hin. rewrite (EN K HK). cbn [cst o_add o_one]. unfold a2.
      destruct (Z.eqb K 0) eqn:G0.
      - apply Z.eqb_eq in G0. subst K. cbn. ring.
      - destruct (grade_in [3; 4]%nat K) eqn:G34; [ring|].
        destruct (H12 K HK) as [Hz _].
        { apply grades_4'; [apply inr_zr; exact HK | intros E0; subst K; discriminate | exact G34]. }
        rewrite Hz. ring. }
    (* side A *)
    assert (EA : GP x num == GP N (SUB (scal a2 one) N)).
    { transitivity (GP x (GP xc Mm)).
      { apply gpc; fin. }
      transitivity (GP (GP x xc) Mm); [symmetry; apply gpa; assumption|].
      apply gpc; fin. symmetry. exact EqN. }
    (* side B *)
    assert (EB : GP num x == GP N' (SUB (scal (fN' 0 + fN' 0)%r one) N')).
    { rewrite <- Haa. fold a2.
      transitivity (GP (GP xc Mm) x).
      { apply gpc; fin. }
      transitivity (GP xc (GP Mm x)); [apply gpa; assumption|].
      transitivity (GP xc (GP x (SUB (scal a2 one) N'))).
      2:{ symmetry. apply gpa; try assumption. apply wfsub. }
      apply gpc; fin.
      (* (2a - N) x = x (2a - N') *)
      transitivity (GP (SUB (scal a2 one) N) x).
      { apply gpc; fin. }
      transitivity (SUB (GP (scal a2 one) x) (GP N x)).
      { apply (gp_sub_l R rO rI radd rmul rsub ropp Rth A SH); try assumption. apply wfmv_scal, wfmv_one. }
      transitivity (SUB (GP x (scal a2 one)) (GP x N')).
      2:{ symmetry. apply (gp_sub_r R rO rI radd rmul rsub ropp Rth A SH); try assumption. apply wfmv_scal, wfmv_one. }
      apply subc; try apply wfgp.
      - transitivity (scal a2 (GP one x)).
        { apply (gp_scal_l R rO rI radd rmul rsub ropp Rth A SH); [apply wfmv_one | exact Hx]. }
        transitivity (scal a2 (GP x one)).
        { apply (scal_congr R rO rI radd rmul rsub ropp Rth).
          transitivity x; [apply (gp_one_l R rO rI radd rmul rsub ropp Rth A SH); exact Hx
                          | symmetry; apply (gp_one_r R rO rI radd rmul rsub ropp Rth A SH); exact Hx]. }
        symmetry. apply (gp_scal_r R rO rI radd rmul rsub ropp Rth A SH); [exact Hx | apply wfmv_one].
      - transitivity (GP (GP x xc) x).
        { apply gpc; fin. }
        apply gpa; assumption. }
    (* the denominator *)
    pose proof (rep_self R rO rI radd rmul rsub ropp A num Wnum) as Rnum.
    destruct (repgp x num _ _ Rx Rnum) as [W1 E1]. destruct (repgp num x _ _ Rnum Rx) as [W2 E2].
    intros den.
    assert (Eden : den = cf 0 (GP x num)).
    { unfold den, hitzer_den, e_of.
      destruct (HF (sp O A x num) (wfmv_canon_sort R A (sh_keys A SH) (sh_nodup A SH) _)) as [_ H].
      unfold i_sp. rewrite (H 0). apply (sp_e R rO rI radd rmul rsub ropp Rth A SH x num Hx Wnum). }
    assert (Etr : cf 0 (GP num x) = cf 0 (GP x num)).
    { rewrite (E1 0 H0), (E2 0 H0), Hd4. apply D4t. }
    assert (Ed : forall K, cf K (scal den one) = if Z.eqb K 0 then den else rO).
    { intros K. rewrite (cf_scal R rO rI radd rmul rsub ropp Rth), (cf_one R rO rI radd rmul rsub ropp).
      destruct (Z.eqb K 0); ring. }
    assert (Wd : wf (scal den one)) by (apply wfmv_scal, wfmv_one).
    assert (G1 : GP x num == scal den one).
    { apply (eqv_in R rO rI radd rmul rsub ropp A); try assumption; intros K HK; rewrite Ed;
        destruct (Z.eqb K 0) eqn:EK.
      - apply Z.eqb_eq in EK. subst K. symmetry. exact Eden.
      - rewrite (EA K). apply (scalar_from_N N fN RN); [intros k Hk Hg; apply (H12 k Hk Hg) | exact HK|].
        intros E0. subst K. discriminate. }
    assert (G2 : GP num x == scal den one).
    { apply (eqv_in R rO rI radd rmul rsub ropp A); try assumption; intros K HK; rewrite Ed;
        destruct (Z.eqb K 0) eqn:EK.
      - apply Z.eqb_eq in EK. subst K. rewrite Etr. symmetry. exact Eden.
      - rewrite (EB K). apply (scalar_from_N N' fN' RN'); [intros k Hk Hg; apply (H12 k Hk Hg) | exact HK|].
        intros E0. subst K. discriminate. }
    split; [exact G1|]. split; [exact G2|].
    (* singular operands *)
    intros Hden H10 (y & Hy & Hxy & Hyx).
    assert (Hxn : GP x num == []).
    { transitivity (scal rO one); [|apply (scal_zero R rO rI radd rmul rsub ropp Rth)].
      replace (scal rO one) with (scal den one) by (f_equal; exact Hden). exact G1. }
    pose proof (cancel_l R rO rI radd rmul rsub ropp Rth A SH x num y Hx Wnum Hy Hyx Hxn) as Hn0.
    pose proof (conj_inverse R rO rI radd rmul rsub ropp Rth A SH y x Hy Hx Hxy) as Hc.
    destruct (HF _ (wfmv_canon_sort R A (sh_keys A SH) (sh_nodup A SH) (raw_involution O grades_conjugate x))) as [_ Exc].
    fold (conjugate O A x) in Exc. change (F (conjugate O A x)) with xc in Exc.
    assert (Hyc : GP (conjugate O A y) xc == one).
    { transitivity (GP (conjugate O A y) (conjugate O A x)); [|exact Hc].
      apply gpc; fin; apply (wfmv_canon_sort R A (sh_keys A SH) (sh_nodup A SH)). }
    assert (HM0 : Mm == []).
    { apply (cancel_l R rO rI radd rmul rsub ropp Rth A SH xc Mm (conjugate O A y) Wxc WMm
               (wfmv_canon_sort R A (sh_keys A SH) (sh_nodup A SH) _) Hyc).
      transitivity num; [symmetry; exact Enum | exact Hn0]. }
    assert (HN0 : N == []).
    { apply (eqv_in R rO rI radd rmul rsub ropp A); [exact WN | apply wfmv_nil|]. intros K HK.
      assert (Ha : fN 0 = rO).
      { pose proof (EMm 0) as E. rewrite (HM0 0), (cf_2aN a2 N 0 WN H0), (EN 0 H0) in E.
        cbn [Z.eqb coeff o_zero] in E. unfold a2 in E.
        transitivity ((fN 0 + fN 0) - fN 0)%r; [ring | symmetry; exact E]. }
      pose proof (EMm K) as E. rewrite (HM0 K), (cf_2aN a2 N K WN HK) in E. cbn [coeff o_zero] in E |- *.
      unfold a2 in E. rewrite Ha in E.
      transitivity (- ((if Z.eqb K 0 then rO + rO else rO) - cf K N))%r; [destruct (Z.eqb K 0); ring|].
      rewrite <- E. ring. }
    assert (Hxc0 : xc == []).
    { apply (cancel_l R rO rI radd rmul rsub ropp Rth A SH x xc y Hx Wxc Hy Hyx).
      transitivity N; [symmetry; exact EqN | exact HN0]. }
    apply H10. apply (zero_no_inverse R rO rI radd rmul rsub ropp Rth A x y Hx); [|exact Hxy].
    apply (involution_zero R rO rI radd rmul rsub ropp Rth A SH grades_conjugate x Hx).
    transitivity xc; [symmetry; exact Exc | exact Hxc0].
  Qed.
End Hitzer4.

(* ================= 8. alg.inv for every d <= 4 ================= *)
Section HitzerLe4.
  Variable R : Type.
  Variables (rO rI : R) (radd rmul rsub : R -> R -> R) (ropp : R -> R).
  Hypothesis Rth : ring_theory rO rI radd rmul rsub ropp (@eq R).
  Local Notation O := (mkOps R radd rsub rmul ropp rO rI).
  Local Notation "a * b" := (rmul a b) : kvr_scope.
  Local Notation equiv := (Sparse.equiv rO rI radd rmul rsub ropp).
  Local Infix "==" := equiv (at level 70, no associativity).
  Local Notation scal := (Algebra.scal rmul).
  Local Notation one := (Algebra.one rI).

  Variable A : alg.
  Local Notation wf := (@wfmv R A).
  Local Notation d := (a_d A).
  Hypothesis SH : sign_hyps A.
  Hypothesis Hasc : ascending_ok A = true.
  Variable dv : R -> R -> R.
  Variable isz : R -> bool.
  Variable F : mv R -> mv R.
  Hypothesis HF : filter_ok rO rI radd rmul rsub ropp A F.
  Hypothesis Hd : (d <= 4)%nat.

  Local Notation GP := (gp O A).
  Local Notation has_inverse x := (exists y, wf y /\ GP x y == one /\ GP y x == one).

  (* the closed forms of codegen_hitzer_inv up to four dimensions, with the singular case *)
  Theorem hitzer_le4 x : wf x ->
    exists num, hitzer_num O F A x = Ok num /\ wf num /\
      let den := hitzer_den O F A x num in
      GP x num == scal den one /\ GP num x == scal den one /\
      (den = rO -> rI <> rO -> ~ has_inverse x).
  Proof.
    intros Hx. destruct (Nat.eq_dec d 4) as [E4|N4].
    - exact (hitzer_d4 R rO rI radd rmul rsub ropp Rth A SH Hasc F HF E4 x Hx).
    - assert (H3 : (d <= 3)%nat) by lia.
      destruct (hitzer_le3 R rO rI radd rmul rsub ropp Rth A SH Hasc F HF x H3 Hx) as (num & En & Wn & H1 & H2).
      exists num. split; [exact En|]. split; [exact Wn|]. split; [exact H1|]. split; [exact H2|].
      intros Hden H10.
      exact (hitzer_singular_le3 R rO rI radd rmul rsub ropp Rth A SH Hasc F HF H3 x num Hx H10 En Hden).
  Qed.

  Lemma lt6' : Nat.ltb d 6 = true.
  Proof. apply Nat.ltb_lt. lia. Qed.

  Theorem inv_le4_sound x r : wf x ->
    (forall b, isz b = false -> (b * dv rI b)%r = rI) ->
    inv_model O dv isz F A x = Ok r -> GP x r == one /\ GP r x == one.
  Proof.
    intros Hx Hdv Hr.
    destruct (hitzer_le4 x Hx) as (num & En & Wn & H1 & H2 & _).
    assert (E : inv_numden O dv isz F A x = Ok (num, hitzer_den O F A x num)).
    { unfold inv_numden. rewrite lt6'. unfold hitzer. rewrite En. reflexivity. }
    pose proof Hr as Hr'. apply (inv_model_ok R rO rI radd rmul rsub ropp) in Hr'.
    destruct Hr' as (num' & den' & E' & Hz & _). rewrite E in E'. inversion E'; subst num' den'.
    exact (inv_model_sound R rO rI radd rmul rsub ropp Rth A SH dv isz F HF x num _ r Hx E H1 H2 (Hdv _ Hz) Hr).
  Qed.

  Theorem inv_le4_total x : wf x ->
    (exists r, inv_model O dv isz F A x = Ok r) \/ inv_model O dv isz F A x = Err EZeroDiv.
  Proof.
    intros Hx. destruct (hitzer_le4 x Hx) as (num & En & _).
    unfold inv_model, inv_numden. rewrite lt6'. unfold hitzer. rewrite En. cbn [bind].
    destruct (isz _); [right; reflexivity | left; eexists; reflexivity].
  Qed.

  Theorem zde_only_singular_le4 x : wf x -> rI <> rO -> (forall r, isz r = true -> r = rO) ->
    inv_model O dv isz F A x = Err EZeroDiv -> ~ has_inverse x.
  Proof.
    intros Hx H10 Hz H. apply (zde_iff R rO rI radd rmul rsub ropp A dv isz F) in H.
    destruct H as (num & den & E & Hden). unfold inv_numden in E. rewrite lt6' in E.
    unfold hitzer in E. apply bind_Ok in E. destruct E as (n & En & E). inversion E; subst n den.
    destruct (hitzer_le4 x Hx) as (num' & En' & _ & _ & _ & Hs). rewrite En in En'. inversion En'; subst num'.
    exact (Hs (Hz _ Hden) H10).
  Qed.

  Theorem inv_le4_complete x : wf x -> rI <> rO ->
    (forall r, isz r = true -> r = rO) -> (forall b, isz b = false -> (b * dv rI b)%r = rI) ->
    (has_inverse x <-> exists r, inv_model O dv isz F A x = Ok r)
    /\ (~ has_inverse x <-> inv_model O dv isz F A x = Err EZeroDiv).
  Proof.
    intros Hx H10 Hz Hdv. destruct (inv_le4_total x Hx) as [[r Hr]|He].
    - assert (Hi : has_inverse x).
      { exists r. split; [exact (inv_model_wf R rO rI radd rmul rsub ropp A SH dv isz F HF x r Hr)|].
        exact (inv_le4_sound x r Hx Hdv Hr). }
      split; split.
      + intros _. exists r. exact Hr.
      + intros _. exact Hi.
      + intros Hn. exfalso. exact (Hn Hi).
      + rewrite Hr. discriminate.
    - pose proof (zde_only_singular_le4 x Hx H10 Hz He) as Hs. split; split.
      + intros Hi. exfalso. exact (Hs Hi).
      + intros [r Hr]. rewrite He in Hr. discriminate.
      + intros _. exact He.
      + intros _. exact Hs.
  Qed.
End HitzerLe4.

Lemma defaults_ok_4 : defaults_ok 4 = true. Proof. vm_compute. reflexivity. Qed.

(* every default basis with d <= 4 *)
Theorem default_le4_ok sig start g :
  (length sig <= 4)%nat -> Forall (fun s => s = 1 \/ s = -1 \/ s = 0) sig ->
  (start = 0 \/ start = 1 \/ start = 2) ->
  let A := mk_default sig start g in
  sign_hyps A /\ ascending_ok A = true /\ (a_d A <= 4)%nat.
Proof.
  intros Hl Hsig Hst A.
  assert (Hok : default_ok A = true).
  { assert (Hn : defaults_ok (length sig) = true).
    { destruct (length sig) as [|[|[|[|[|n]]]]]; [exact defaults_ok_0 | exact defaults_ok_1
        | exact defaults_ok_2 | exact defaults_ok_3 | exact defaults_ok_4 | lia]. }
    unfold defaults_ok in Hn. rewrite forallb_forall in Hn.
    specialize (Hn sig (hz_sigs_complete sig Hsig)). rewrite forallb_forall in Hn.
    assert (Hs : In start [0; 1; 2]) by (cbn [In]; destruct Hst as [H|[H|H]]; subst start; auto).
    specialize (Hn start Hs). rewrite forallb_forall in Hn.
    apply Hn. destruct g; cbn [In]; auto. }
  unfold default_ok in Hok. apply andb_true_iff in Hok. destruct Hok as [Hwf Hasc].
  split; [apply wf_sign_hyps; exact Hwf|]. split; [exact Hasc|]. exact Hl.
Qed.

(* over Z in Cl(3,1): a dense operand, numerator and denominator of the model, x * num = num * x = den *)
Example hitzer_Z4 :
  let A := mk_default [1; 1; 1; -1] 1 false in
  let x := [(0, 2); (1, 1); (2, -1); (4, 3); (8, 1); (3, 2); (5, 1); (9, -2); (6, 1); (10, 1); (12, 2);
            (7, 1); (11, -1); (13, 1); (14, 3); (15, 1)] in
  match hitzer Zops idF A x with
  | Ok (num, den) => mv_equiv A (gp Zops A x num) [(0, den)] = true
                     /\ mv_equiv A (gp Zops A num x) [(0, den)] = true /\ den <> 0
  | Err _ => False
  end.
Proof. vm_compute. repeat split; discriminate. Qed.
