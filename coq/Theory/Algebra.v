(* Theory/Algebra.v — the multivector-level ALGEBRA LAWS of the model operators (Model/Codegen.v)
   over an ABSTRACT commutative ring, for an abstract algebra A under the sign-table hypotheses of
   Theory/Ops.v (taken as the single hypothesis [sign_hyps A]; proved for every well-formed algebra
   in Theory/OpsWF.v):

     1. gp_assoc                       the geometric product is associative,
     2. gp_add_l/r gp_sub_l/r gp_neg_l/r   it is bilinear w.r.t. the model add / sub / neg,
     3. scal, one; gp_one_l/r gp_scal_l/r gp_scalar_l/r scal_scal scal_add scal_one ...
     4. congruences (gp_congr add_congr sub_congr neg_congr scal_congr op_congr), wfmv preservation,
     5. add / sub / neg form an abelian group up to [==],
     6. the same for the outer product: op_assoc op_add_l/r op_scal_l/r op_one_l/r ...,
     7. inverse_unique, inv_from_scalar_r/l,
     8. corollaries for every well-formed algebra ([wf_alg A = true]), closed examples over Z.

   [==] is Sparse.equiv (coefficient-wise equality, absent = 0); [wfmv A x] = pairwise distinct keys,
   all in [0, alg_len A).  All statements hold for sparse multivectors in any key order, with
   stored zeros, including the empty one.

   Method: for well-formed operands every coefficient of a sorted product with key_out = xor is a
   CONVOLUTION over the keys of the algebra,
       (x . y)_K = sum_a  w(a, a xor K) * x_a * y_(a xor K)          (prod_conv)
   where w is the sign (0 when the pair is filtered out).  Bilinearity is then termwise, the units
   collapse the sum by a Kronecker delta, and associativity is the re-indexing m = a xor b of the
   inner sum plus the cocycle identity of the signs (sh_assoc). *)
From Coq Require Import List ZArith Bool Ring Lia Permutation RelationClasses.
From KV Require Import Model.All Theory.WF Theory.Sign Theory.Bits Theory.Sparse Theory.Product
  Theory.Ops Theory.OpsWF.
Import ListNotations.

(* ---------- ring-independent facts on xor / disjointness ---------- *)

Lemma lxor_cancel a b : Z.lxor a (Z.lxor a b) = b.
Proof. rewrite <- Z.lxor_assoc, Z.lxor_nilpotent, Z.lxor_0_l. reflexivity. Qed.

Lemma lxor_move a b K : Z.lxor a b = K <-> b = Z.lxor a K.
Proof. split; intros H; subst; rewrite lxor_cancel; reflexivity. Qed.

Lemma lxor_rot a b K : Z.lxor b (Z.lxor a K) = Z.lxor (Z.lxor a b) K.
Proof. rewrite <- Z.lxor_assoc, (Z.lxor_comm b a). reflexivity. Qed.

Lemma lxor_3 a b K : Z.lxor b (Z.lxor (Z.lxor a b) K) = Z.lxor a K.
Proof. rewrite (Z.lxor_comm a b), Z.lxor_assoc. apply lxor_cancel. Qed.

(* a, b, c pairwise disjoint, bracketed in the two ways *)
Lemma disjoint_3 a b c :
  (Z.land a b = 0 /\ Z.land (Z.lxor a b) c = 0)%Z <-> (Z.land b c = 0 /\ Z.land a (Z.lxor b c) = 0)%Z.
Proof.
  split; intros [H1 H2]; bit_hyp H1; bit_hyp H2; split; bit_solve.
Qed.

Section Algebra.
  Variable R : Type.
  Variables (rO rI : R) (radd rmul rsub : R -> R -> R) (ropp : R -> R).
  Hypothesis Rth : ring_theory rO rI radd rmul rsub ropp (@eq R).
  Add Ring Rring : Rth.
  Local Notation O := (mkOps R radd rsub rmul ropp rO rI).
  Local Notation "a + b" := (radd a b) : kvr_scope.
  Local Notation "a * b" := (rmul a b) : kvr_scope.
  Local Notation "a - b" := (rsub a b) : kvr_scope.
  Local Notation "- a" := (ropp a) : kvr_scope.
  Local Notation rsum := (Sparse.rsum rO radd).
  Local Notation equiv := (Sparse.equiv rO rI radd rmul rsub ropp).
  Local Infix "==" := equiv (at level 70, no associativity).
  Local Notation contrib := (Product.contrib rO rmul ropp).
  Local Notation sg := (Ops.sg rO rI ropp).
  Local Notation RT l := (l R rO rI radd rmul rsub ropp Rth) (only parsing).
  Local Notation RN l := (l R rO rI radd rmul rsub ropp) (only parsing).
  Local Open Scope Z_scope.

  Variable A : alg.
  Local Notation L := (alg_len A).
  Local Notation s := (sgn A).
  Local Notation U := (canon_keys A).
  Local Notation wf := (@wfmv R A).
  Local Notation cf K x := (coeff O K x).

  (* the sign-table hypotheses of Theory/Ops.v, as one record *)
  Hypothesis SH : sign_hyps A.
  Local Notation Hkeys := (sh_keys A SH).
  Local Notation Hnodup := (sh_nodup A SH).
  Local Notation Hassoc := (sh_assoc A SH).
  Local Notation Hscal := (sh_scal A SH).

  Local Instance equiv_Equiv : Equivalence equiv := RN equiv_Equivalence.

  Ltac ops := cbn [o_add o_sub o_mul o_neg o_zero o_one].

  (* ================= 0. scalars, the unit, well-formedness ================= *)

  (* left scalar multiple c * x (what  num * mv  does on the stored values) *)
  Definition scal (c : R) (x : mv R) : mv R := map (fun kv => (fst kv, (c * snd kv)%r)) x.
  (* alg.scalar([1]) *)
  Definition one : mv R := [(0, rI)].

  Lemma inr_U K : 0 <= K < L -> In K U.
  Proof. apply Hkeys. Qed.
  Lemma U_inr K : In K U -> 0 <= K < L.
  Proof. apply Hkeys. Qed.

  Lemma zin_U K : 0 <= K < L -> zin K U = true.
  Proof. intros H. apply zin_true_iff. apply inr_U. exact H. Qed.

  Lemma wfmv_nil : wf [].
  Proof. split; [constructor | intros k []]. Qed.

  Lemma wfmv_cs (z : mv R) : wf (canon_sort A z).
  Proof. exact (wfmv_canon_sort R A Hkeys Hnodup z). Qed.

  Lemma wfmv_gp x y : wf (gp O A x y).
  Proof. apply wfmv_cs. Qed.
  Lemma wfmv_op x y : wf (op O A x y).
  Proof. apply wfmv_cs. Qed.
  Lemma wfmv_add x y : wf (add O A x y).
  Proof. apply wfmv_cs. Qed.
  Lemma wfmv_sub x y : wf (sub O A x y).
  Proof. apply wfmv_cs. Qed.
  Lemma wfmv_neg x : wf (neg O A x).
  Proof. apply wfmv_cs. Qed.

  Lemma keys_scal c x : keys (scal c x) = keys x.
  Proof. unfold scal. apply (keys_map_val R (fun _ v => (c * v)%r)). Qed.

  Lemma wfmv_scal c x : wf x -> wf (scal c x).
  Proof. intros [H1 H2]. split; rewrite keys_scal; assumption. Qed.

  Lemma wfmv_scalar c : wf [(0, c)].
  Proof. apply wfmv_single. apply inr_0. Qed.

  Lemma wfmv_one : wf one.
  Proof. apply wfmv_scalar. Qed.

  Lemma eqv_in x y : wf x -> wf y -> (forall K, 0 <= K < L -> cf K x = cf K y) -> x == y.
  Proof. apply (RN equiv_inrange). Qed.

  (* ---------- coefficients of the linear operators ---------- *)

  Lemma cf_add x y K : wf x -> wf y -> 0 <= K < L -> cf K (add O A x y) = (cf K x + cf K y)%r.
  Proof.
    intros Hx Hy HK. apply (RT add_coeff); [apply inr_U; exact HK | apply Hx | apply Hy].
  Qed.

  Lemma cf_sub x y K : wf x -> wf y -> 0 <= K < L -> cf K (sub O A x y) = (cf K x - cf K y)%r.
  Proof.
    intros Hx Hy HK. apply (RT sub_coeff); [apply inr_U; exact HK | apply Hx | apply Hy].
  Qed.

  Lemma cf_neg x K : wf x -> 0 <= K < L -> cf K (neg O A x) = (- cf K x)%r.
  Proof.
    intros Hx HK. apply (RT neg_coeff); [apply inr_U; exact HK | apply Hx].
  Qed.

  (* no hypothesis at all *)
  Lemma cf_scal c x K : cf K (scal c x) = (c * cf K x)%r.
  Proof. unfold scal. apply (RN coeff_map_val (fun _ v => (c * v)%r)). ring. Qed.

  Lemma cf_scalar c K : cf K [(0, c)] = if Z.eqb K 0 then c else rO.
  Proof. rewrite coeff_cons, coeff_nil, (Z.eqb_sym 0 K). reflexivity. Qed.

  Lemma cf_one K : cf K one = if Z.eqb K 0 then rI else rO.
  Proof. apply cf_scalar. Qed.

  (* side conditions: well-formedness of operands, keys in range *)
  Ltac wf_tac :=
    first [ assumption | exact (wfmv_cs _) | exact wfmv_nil | exact (wfmv_scalar _) | exact wfmv_one
          | (refine (inr_lxor A _ _ _ _); assumption)
          | (refine (wfmv_scal _ _ _); wf_tac) ].

  (* ================= 1. the convolution form of a sorted xor-product ================= *)

  Local Notation P filt x y := (canon_sort A (codegen_product O s filt Z.lxor x y)).

  (* weight of the pair of blades (a, b): the sign, 0 when the pair is filtered out *)
  Definition wt (filt : option (Z -> Z -> Z -> bool)) (a b : Z) : R :=
    if accepts filt a b (Z.lxor a b) then sg (s a b) else rO.

  Lemma prod_conv filt x y K : wf x -> wf y -> 0 <= K < L ->
    cf K (P filt x y)
    = rsum (map (fun a => (wt filt a (Z.lxor a K) * (cf a x * cf (Z.lxor a K) y))%r) U).
  Proof.
    intros Hx Hy HK. rewrite (RT sorted_coeff_U A Hkeys Hnodup) by assumption.
    apply rsum_map_ext. intros a Ha. apply U_inr in Ha.
    transitivity (rsum (map (fun b => if Z.eqb b (Z.lxor a K)
                                      then (fun b => (wt filt a b * (cf a x * cf b y))%r) b else rO) U)).
    - apply rsum_map_ext. intros b Hb. rewrite (RT contrib_sg). unfold wt.
      assert (E : Z.eqb (Z.lxor a b) K = Z.eqb b (Z.lxor a K)).
      { apply bool_eq_of_iff. rewrite !Z.eqb_eq. apply lxor_move. }
      rewrite E. destruct (accepts filt a b (Z.lxor a b)), (Z.eqb b (Z.lxor a K)); cbn [andb]; ring.
    - rewrite (RT rsum_delta) by exact Hnodup.
      rewrite zin_U by (apply inr_lxor; assumption). reflexivity.
  Qed.

  (* re-indexing a sum over all keys by b |-> a xor b *)
  Lemma rsum_reindex (f : Z -> R) a : 0 <= a < L ->
    rsum (map f U) = rsum (map (fun b => f (Z.lxor a b)) U).
  Proof.
    intros Ha. rewrite <- (map_map (Z.lxor a) f). apply (RT rsum_map_perm).
    apply NoDup_Permutation.
    - exact Hnodup.
    - apply NoDup_map_inj; [|exact Hnodup]. intros u v E.
      apply (f_equal (Z.lxor a)) in E. rewrite !lxor_cancel in E. exact E.
    - intros k. rewrite in_map_iff. split.
      + intros Hk. exists (Z.lxor a k). split; [apply lxor_cancel|].
        apply inr_U. apply inr_lxor; [exact Ha | apply U_inr; exact Hk].
      + intros [u [E Hu]]. subst k. apply inr_U. apply inr_lxor; [exact Ha | apply U_inr; exact Hu].
  Qed.

  (* ---------- associativity, generic in the filter ---------- *)

  Lemma prod_assoc filt x y z :
    (forall a b c, 0 <= a < L -> 0 <= b < L -> 0 <= c < L ->
       (wt filt a b * wt filt (Z.lxor a b) c)%r = (wt filt b c * wt filt a (Z.lxor b c))%r) ->
    wf x -> wf y -> wf z ->
    P filt (P filt x y) z == P filt x (P filt y z).
  Proof.
    intros Hw Hx Hy Hz. apply eqv_in; [apply wfmv_cs | apply wfmv_cs |]. intros K HK.
    rewrite (prod_conv filt (P filt x y) z K (wfmv_cs _) Hz HK).
    rewrite (prod_conv filt x (P filt y z) K Hx (wfmv_cs _) HK).
    (* left side: expand the inner product, exchange the sums, re-index *)
    transitivity (rsum (map (fun m => rsum (map (fun a =>
        (wt filt m (Z.lxor m K)
         * ((wt filt a (Z.lxor a m) * (cf a x * cf (Z.lxor a m) y)) * cf (Z.lxor m K) z))%r) U)) U)).
    { apply rsum_map_ext. intros m Hm. apply U_inr in Hm.
      rewrite (prod_conv filt x y m Hx Hy Hm).
      rewrite <- (RT rsum_map_scal_r), <- (RT rsum_map_scal_l). reflexivity. }
    rewrite (RT rsum_swap (fun m a =>
        (wt filt m (Z.lxor m K)
         * ((wt filt a (Z.lxor a m) * (cf a x * cf (Z.lxor a m) y)) * cf (Z.lxor m K) z))%r) U U).
    apply rsum_map_ext. intros a Ha. apply U_inr in Ha.
    rewrite (prod_conv filt y z (Z.lxor a K) Hy Hz (inr_lxor A a K Ha HK)).
    rewrite (rsum_reindex _ a Ha).
    rewrite <- (RT rsum_map_scal_l), <- (RT rsum_map_scal_l).
    apply rsum_map_ext. intros b Hb. apply U_inr in Hb.
    rewrite lxor_cancel, (lxor_rot a b K).
    pose proof (Hw a b (Z.lxor (Z.lxor a b) K) Ha Hb
                  (inr_lxor A _ K (inr_lxor A a b Ha Hb) HK)) as E.
    rewrite lxor_3 in E.
    set (c := Z.lxor (Z.lxor a b) K) in *.
    transitivity ((wt filt a b * wt filt (Z.lxor a b) c) * (cf a x * cf b y * cf c z))%r; [ring|].
    rewrite E. ring.
  Qed.

  (* ---------- bilinearity, generic in the filter ---------- *)

  Lemma prod_add_l filt x x' y : wf x -> wf x' -> wf y ->
    P filt (add O A x x') y == add O A (P filt x y) (P filt x' y).
  Proof.
    intros Hx Hx' Hy. apply eqv_in; [apply wfmv_cs | apply wfmv_add |]. intros K HK.
    rewrite cf_add by wf_tac.
    rewrite !prod_conv by wf_tac.
    rewrite <- (RT rsum_map_add). apply rsum_map_ext. intros a Ha. apply U_inr in Ha.
    rewrite cf_add by assumption. ring.
  Qed.

  Lemma prod_add_r filt x y y' : wf x -> wf y -> wf y' ->
    P filt x (add O A y y') == add O A (P filt x y) (P filt x y').
  Proof.
    intros Hx Hy Hy'. apply eqv_in; [apply wfmv_cs | apply wfmv_add |]. intros K HK.
    rewrite cf_add by wf_tac.
    rewrite !prod_conv by wf_tac.
    rewrite <- (RT rsum_map_add). apply rsum_map_ext. intros a Ha. apply U_inr in Ha.
    rewrite cf_add by wf_tac. ring.
  Qed.

  Lemma prod_sub_l filt x x' y : wf x -> wf x' -> wf y ->
    P filt (sub O A x x') y == sub O A (P filt x y) (P filt x' y).
  Proof.
    intros Hx Hx' Hy. apply eqv_in; [apply wfmv_cs | apply wfmv_sub |]. intros K HK.
    rewrite cf_sub by wf_tac.
    rewrite !prod_conv by wf_tac.
    rewrite <- (RT rsum_map_sub). apply rsum_map_ext. intros a Ha. apply U_inr in Ha.
    rewrite cf_sub by assumption. ring.
  Qed.

  Lemma prod_sub_r filt x y y' : wf x -> wf y -> wf y' ->
    P filt x (sub O A y y') == sub O A (P filt x y) (P filt x y').
  Proof.
    intros Hx Hy Hy'. apply eqv_in; [apply wfmv_cs | apply wfmv_sub |]. intros K HK.
    rewrite cf_sub by wf_tac.
    rewrite !prod_conv by wf_tac.
    rewrite <- (RT rsum_map_sub). apply rsum_map_ext. intros a Ha. apply U_inr in Ha.
    rewrite cf_sub by wf_tac. ring.
  Qed.

  Lemma prod_neg_l filt x y : wf x -> wf y ->
    P filt (neg O A x) y == neg O A (P filt x y).
  Proof.
    intros Hx Hy. apply eqv_in; [apply wfmv_cs | apply wfmv_neg |]. intros K HK.
    rewrite cf_neg by wf_tac.
    rewrite !prod_conv by wf_tac.
    rewrite <- (RT rsum_map_opp). apply rsum_map_ext. intros a Ha. apply U_inr in Ha.
    rewrite cf_neg by assumption. ring.
  Qed.

  Lemma prod_neg_r filt x y : wf x -> wf y ->
    P filt x (neg O A y) == neg O A (P filt x y).
  Proof.
    intros Hx Hy. apply eqv_in; [apply wfmv_cs | apply wfmv_neg |]. intros K HK.
    rewrite cf_neg by wf_tac.
    rewrite !prod_conv by wf_tac.
    rewrite <- (RT rsum_map_opp). apply rsum_map_ext. intros a Ha. apply U_inr in Ha.
    rewrite cf_neg by wf_tac. ring.
  Qed.

  Lemma prod_scal_l filt c x y : wf x -> wf y ->
    P filt (scal c x) y == scal c (P filt x y).
  Proof.
    intros Hx Hy. apply eqv_in; [apply wfmv_cs | apply wfmv_scal; apply wfmv_cs |]. intros K HK.
    rewrite cf_scal.
    rewrite !prod_conv by wf_tac.
    rewrite <- (RT rsum_map_scal_l). apply rsum_map_ext. intros a Ha.
    rewrite cf_scal. ring.
  Qed.

  Lemma prod_scal_r filt c x y : wf x -> wf y ->
    P filt x (scal c y) == scal c (P filt x y).
  Proof.
    intros Hx Hy. apply eqv_in; [apply wfmv_cs | apply wfmv_scal; apply wfmv_cs |]. intros K HK.
    rewrite cf_scal.
    rewrite !prod_conv by wf_tac.
    rewrite <- (RT rsum_map_scal_l). apply rsum_map_ext. intros a Ha.
    rewrite cf_scal. ring.
  Qed.

  (* ---------- a pure scalar operand, generic in the filter ---------- *)

  Lemma prod_scalar_l filt c x :
    (forall K, 0 <= K < L -> wt filt 0 K = rI) -> wf x ->
    P filt [(0, c)] x == scal c x.
  Proof.
    intros Hw Hx. apply eqv_in; [apply wfmv_cs | apply wfmv_scal; exact Hx |]. intros K HK.
    rewrite cf_scal, prod_conv by wf_tac.
    transitivity (rsum (map (fun a => if Z.eqb a 0
        then (fun a => (wt filt a (Z.lxor a K) * (c * cf (Z.lxor a K) x))%r) a else rO) U)).
    - apply rsum_map_ext. intros a _. rewrite cf_scalar. destruct (Z.eqb a 0); ring.
    - rewrite (RT rsum_delta) by exact Hnodup. rewrite zin_U by apply inr_0.
      rewrite Z.lxor_0_l, (Hw K HK). ring.
  Qed.

  Lemma prod_scalar_r filt c x :
    (forall K, 0 <= K < L -> wt filt K 0 = rI) -> wf x ->
    P filt x [(0, c)] == scal c x.
  Proof.
    intros Hw Hx. apply eqv_in; [apply wfmv_cs | apply wfmv_scal; exact Hx |]. intros K HK.
    rewrite cf_scal, prod_conv by wf_tac.
    transitivity (rsum (map (fun a => if Z.eqb a K
        then (fun a => (wt filt a (Z.lxor a K) * (cf a x * c))%r) a else rO) U)).
    - apply rsum_map_ext. intros a _. rewrite cf_scalar.
      assert (E : Z.eqb (Z.lxor a K) 0 = Z.eqb a K).
      { apply bool_eq_of_iff. rewrite !Z.eqb_eq. apply Z.lxor_eq_0_iff. }
      rewrite E. destruct (Z.eqb a K); ring.
    - rewrite (RT rsum_delta) by exact Hnodup. rewrite zin_U by exact HK.
      rewrite Z.lxor_nilpotent, (Hw K HK). ring.
  Qed.

  (* ================= 2. the weights of gp and op ================= *)

  Lemma wt_gp a b : wt None a b = sg (s a b).
  Proof. reflexivity. Qed.

  Lemma wt_gp_assoc a b c : 0 <= a < L -> 0 <= b < L -> 0 <= c < L ->
    (wt None a b * wt None (Z.lxor a b) c)%r = (wt None b c * wt None a (Z.lxor b c))%r.
  Proof.
    intros Ha Hb Hc. rewrite !wt_gp, <- !(RT sg_mul), (Hassoc a b c Ha Hb Hc). reflexivity.
  Qed.

  Lemma wt_gp_0_l K : 0 <= K < L -> wt None 0 K = rI.
  Proof. intros HK. rewrite wt_gp. destruct (Hscal K HK) as [E _]. rewrite E. reflexivity. Qed.

  Lemma wt_gp_0_r K : 0 <= K < L -> wt None K 0 = rI.
  Proof. intros HK. rewrite wt_gp. destruct (Hscal K HK) as [_ E]. rewrite E. reflexivity. Qed.

  Lemma wt_op a b : wt (Some filter_op) a b = if filter_op a b (Z.lxor a b) then sg (s a b) else rO.
  Proof. reflexivity. Qed.

  Lemma wt_op_assoc a b c : 0 <= a < L -> 0 <= b < L -> 0 <= c < L ->
    (wt (Some filter_op) a b * wt (Some filter_op) (Z.lxor a b) c)%r
    = (wt (Some filter_op) b c * wt (Some filter_op) a (Z.lxor b c))%r.
  Proof.
    intros Ha Hb Hc. rewrite !wt_op.
    pose proof (inr_lxor A a b Ha Hb) as Hab. pose proof (inr_lxor A b c Hb Hc) as Hbc.
    assert (E : filter_op a b (Z.lxor a b) && filter_op (Z.lxor a b) c (Z.lxor (Z.lxor a b) c)
                = filter_op b c (Z.lxor b c) && filter_op a (Z.lxor b c) (Z.lxor a (Z.lxor b c))).
    { apply bool_eq_of_iff. rewrite !andb_true_iff.
      rewrite !filter_op_disjoint by lia. apply disjoint_3. }
    pose proof (wt_gp_assoc a b c Ha Hb Hc) as E2. rewrite !wt_gp in E2.
    destruct (filter_op a b (Z.lxor a b)), (filter_op (Z.lxor a b) c (Z.lxor (Z.lxor a b) c)),
      (filter_op b c (Z.lxor b c)), (filter_op a (Z.lxor b c) (Z.lxor a (Z.lxor b c)));
      cbn [andb] in E; try discriminate E; try exact E2; ring.
  Qed.

  Lemma wt_op_0_l K : 0 <= K < L -> wt (Some filter_op) 0 K = rI.
  Proof.
    intros HK. rewrite wt_op. unfold filter_op. rewrite Z.lxor_0_l, Z.add_0_l, Z.eqb_refl.
    apply (wt_gp_0_l K HK).
  Qed.

  Lemma wt_op_0_r K : 0 <= K < L -> wt (Some filter_op) K 0 = rI.
  Proof.
    intros HK. rewrite wt_op. unfold filter_op. rewrite Z.lxor_0_r, Z.add_0_r, Z.eqb_refl.
    apply (wt_gp_0_r K HK).
  Qed.

  (* ================= 3. the geometric product ================= *)

  (* coefficient K of x y for well-formed operands: a single sum over the keys of the algebra *)
  Theorem gp_conv x y K : wf x -> wf y -> 0 <= K < L ->
    cf K (gp O A x y)
    = rsum (map (fun a => (sg (s a (Z.lxor a K)) * (cf a x * cf (Z.lxor a K) y))%r) U).
  Proof. exact (prod_conv None x y K). Qed.

  Theorem gp_assoc x y z : wf x -> wf y -> wf z ->
    gp O A (gp O A x y) z == gp O A x (gp O A y z).
  Proof. exact (prod_assoc None x y z wt_gp_assoc). Qed.

  Theorem gp_add_l x x' y : wf x -> wf x' -> wf y ->
    gp O A (add O A x x') y == add O A (gp O A x y) (gp O A x' y).
  Proof. exact (prod_add_l None x x' y). Qed.

  Theorem gp_add_r x y y' : wf x -> wf y -> wf y' ->
    gp O A x (add O A y y') == add O A (gp O A x y) (gp O A x y').
  Proof. exact (prod_add_r None x y y'). Qed.

  Theorem gp_sub_l x x' y : wf x -> wf x' -> wf y ->
    gp O A (sub O A x x') y == sub O A (gp O A x y) (gp O A x' y).
  Proof. exact (prod_sub_l None x x' y). Qed.

  Theorem gp_sub_r x y y' : wf x -> wf y -> wf y' ->
    gp O A x (sub O A y y') == sub O A (gp O A x y) (gp O A x y').
  Proof. exact (prod_sub_r None x y y'). Qed.

  Theorem gp_neg_l x y : wf x -> wf y -> gp O A (neg O A x) y == neg O A (gp O A x y).
  Proof. exact (prod_neg_l None x y). Qed.

  Theorem gp_neg_r x y : wf x -> wf y -> gp O A x (neg O A y) == neg O A (gp O A x y).
  Proof. exact (prod_neg_r None x y). Qed.

  Theorem gp_scal_l c x y : wf x -> wf y -> gp O A (scal c x) y == scal c (gp O A x y).
  Proof. exact (prod_scal_l None c x y). Qed.

  Theorem gp_scal_r c x y : wf x -> wf y -> gp O A x (scal c y) == scal c (gp O A x y).
  Proof. exact (prod_scal_r None c x y). Qed.

  (* the product with a pure scalar multivector is the scalar multiple, on either side *)
  Theorem gp_scalar_l c x : wf x -> gp O A [(0, c)] x == scal c x.
  Proof. exact (prod_scalar_l None c x wt_gp_0_l). Qed.

  Theorem gp_scalar_r c x : wf x -> gp O A x [(0, c)] == scal c x.
  Proof. exact (prod_scalar_r None c x wt_gp_0_r). Qed.

  (* ---------- scal ---------- *)

  Theorem scal_congr c x y : x == y -> scal c x == scal c y.
  Proof. intros H K. rewrite !cf_scal, (H K). reflexivity. Qed.

  Theorem scal_one x : scal rI x == x.
  Proof. intros K. rewrite cf_scal. ring. Qed.

  Theorem scal_scal c d x : scal c (scal d x) == scal (c * d)%r x.
  Proof. intros K. rewrite !cf_scal. ring. Qed.

  Theorem scal_zero x : scal rO x == [].
  Proof. intros K. rewrite cf_scal, coeff_nil. ring. Qed.

  Theorem scal_nil c : scal c [] = [].
  Proof. reflexivity. Qed.

  Theorem scal_add c x y : wf x -> wf y ->
    scal c (add O A x y) == add O A (scal c x) (scal c y).
  Proof.
    intros Hx Hy. apply eqv_in; [apply wfmv_scal; apply wfmv_add | apply wfmv_add |]. intros K HK.
    rewrite cf_scal, !cf_add by wf_tac. rewrite !cf_scal. ring.
  Qed.

  Theorem scal_sub c x y : wf x -> wf y ->
    scal c (sub O A x y) == sub O A (scal c x) (scal c y).
  Proof.
    intros Hx Hy. apply eqv_in; [apply wfmv_scal; apply wfmv_sub | apply wfmv_sub |]. intros K HK.
    rewrite cf_scal, !cf_sub by wf_tac. rewrite !cf_scal. ring.
  Qed.

  Theorem scal_neg c x : wf x -> scal c (neg O A x) == neg O A (scal c x).
  Proof.
    intros Hx. apply eqv_in; [apply wfmv_scal; apply wfmv_neg | apply wfmv_neg |]. intros K HK.
    rewrite cf_scal, !cf_neg by wf_tac. rewrite !cf_scal. ring.
  Qed.

  (* (c + d) x = c x + d x *)
  Theorem scal_plus c d x : wf x -> scal (c + d)%r x == add O A (scal c x) (scal d x).
  Proof.
    intros Hx. apply eqv_in; [apply wfmv_scal; exact Hx | apply wfmv_add |]. intros K HK.
    rewrite cf_add by wf_tac. rewrite !cf_scal. ring.
  Qed.

  (* -x = (-1) x *)
  Theorem neg_scal x : wf x -> neg O A x == scal (- rI)%r x.
  Proof.
    intros Hx. apply eqv_in; [apply wfmv_neg | apply wfmv_scal; exact Hx |]. intros K HK.
    rewrite cf_neg, cf_scal by assumption. ring.
  Qed.

  Theorem scalar_scal c : [(0, c)] == scal c one.
  Proof. intros K. rewrite cf_scal, cf_scalar, cf_one. destruct (Z.eqb K 0); ring. Qed.

  (* ---------- the unit ---------- *)

  Theorem gp_one_l x : wf x -> gp O A one x == x.
  Proof. intros Hx. rewrite <- (scal_one x) at 2. apply gp_scalar_l. exact Hx. Qed.

  Theorem gp_one_r x : wf x -> gp O A x one == x.
  Proof. intros Hx. rewrite <- (scal_one x) at 2. apply gp_scalar_r. exact Hx. Qed.

  (* ================= 4. congruences ================= *)

  Theorem gp_congr x x' y y' : wf x -> wf x' -> wf y -> wf y' ->
    x == x' -> y == y' -> gp O A x y == gp O A x' y'.
  Proof.
    intros Hx Hx' Hy Hy'. apply (RT sorted_product_congr); [apply Hx | apply Hx' | apply Hy | apply Hy'].
  Qed.

  Theorem op_congr x x' y y' : wf x -> wf x' -> wf y -> wf y' ->
    x == x' -> y == y' -> op O A x y == op O A x' y'.
  Proof.
    intros Hx Hx' Hy Hy'. apply (RT sorted_product_congr); [apply Hx | apply Hx' | apply Hy | apply Hy'].
  Qed.

  Theorem add_congr x x' y y' : wf x -> wf x' -> wf y -> wf y' ->
    x == x' -> y == y' -> add O A x y == add O A x' y'.
  Proof.
    intros Hx Hx' Hy Hy'. apply (RT Product.add_congr); [apply Hx | apply Hx' | apply Hy | apply Hy'].
  Qed.

  Theorem sub_congr x x' y y' : wf x -> wf x' -> wf y -> wf y' ->
    x == x' -> y == y' -> sub O A x y == sub O A x' y'.
  Proof.
    intros Hx Hx' Hy Hy'. apply (RT Product.sub_congr); [apply Hx | apply Hx' | apply Hy | apply Hy'].
  Qed.

  Theorem neg_congr x x' : wf x -> wf x' -> x == x' -> neg O A x == neg O A x'.
  Proof. intros Hx Hx'. apply (RT Product.neg_congr); [apply Hx | apply Hx']. Qed.

  (* one-sided forms, convenient in chains of [transitivity] *)
  Corollary gp_congr_l x x' y : wf x -> wf x' -> wf y -> x == x' -> gp O A x y == gp O A x' y.
  Proof. intros Hx Hx' Hy E. apply gp_congr; try assumption. reflexivity. Qed.
  Corollary gp_congr_r x y y' : wf x -> wf y -> wf y' -> y == y' -> gp O A x y == gp O A x y'.
  Proof. intros Hx Hy Hy' E. apply gp_congr; try assumption. reflexivity. Qed.
  Corollary op_congr_l x x' y : wf x -> wf x' -> wf y -> x == x' -> op O A x y == op O A x' y.
  Proof. intros Hx Hx' Hy E. apply op_congr; try assumption. reflexivity. Qed.
  Corollary op_congr_r x y y' : wf x -> wf y -> wf y' -> y == y' -> op O A x y == op O A x y'.
  Proof. intros Hx Hy Hy' E. apply op_congr; try assumption. reflexivity. Qed.
  Corollary add_congr_l x x' y : wf x -> wf x' -> wf y -> x == x' -> add O A x y == add O A x' y.
  Proof. intros Hx Hx' Hy E. apply add_congr; try assumption. reflexivity. Qed.
  Corollary add_congr_r x y y' : wf x -> wf y -> wf y' -> y == y' -> add O A x y == add O A x y'.
  Proof. intros Hx Hy Hy' E. apply add_congr; try assumption. reflexivity. Qed.

  (* ================= 5. add / sub / neg: an abelian group up to == ================= *)

  Ltac lin_tac :=
    intros; apply eqv_in; [wf_tac | wf_tac |];
    intros ?K ?HK;
    repeat first [ rewrite cf_add by wf_tac | rewrite cf_sub by wf_tac | rewrite cf_neg by wf_tac ];
    rewrite ?coeff_nil; try ring.

  Theorem add_comm x y : wf x -> wf y -> add O A x y == add O A y x.
  Proof. lin_tac. Qed.

  Theorem add_assoc x y z : wf x -> wf y -> wf z ->
    add O A (add O A x y) z == add O A x (add O A y z).
  Proof. lin_tac. Qed.

  (* the empty multivector is the zero *)
  Theorem add_zero x : wf x -> add O A x [] == x.
  Proof. lin_tac. Qed.

  Theorem add_zero_l x : wf x -> add O A [] x == x.
  Proof. lin_tac. Qed.

  Theorem add_neg x : wf x -> add O A x (neg O A x) == [].
  Proof. lin_tac. Qed.

  Theorem add_neg_l x : wf x -> add O A (neg O A x) x == [].
  Proof. lin_tac. Qed.

  Theorem sub_def x y : wf x -> wf y -> sub O A x y == add O A x (neg O A y).
  Proof. lin_tac. Qed.

  Theorem sub_self x : wf x -> sub O A x x == [].
  Proof. lin_tac. Qed.

  Theorem neg_neg x : wf x -> neg O A (neg O A x) == x.
  Proof. lin_tac. Qed.

  Theorem neg_add x y : wf x -> wf y -> neg O A (add O A x y) == add O A (neg O A x) (neg O A y).
  Proof. lin_tac. Qed.

  Theorem neg_zero : neg O A [] == [].
  Proof. lin_tac. Qed.

  (* the zero annihilates every product *)
  Lemma canon_sort_nil : canon_sort A ([] : mv R) == [].
  Proof. intros K. rewrite (RN coeff_canon_sort), coeff_nil. destruct (zin K U); reflexivity. Qed.

  Theorem gp_zero_l x : gp O A [] x == [].
  Proof. exact canon_sort_nil. Qed.

  Theorem gp_zero_r x : wf x -> gp O A x [] == [].
  Proof.
    intros Hx. apply eqv_in; [apply wfmv_cs | apply wfmv_nil |]. intros K HK.
    rewrite gp_conv by wf_tac. rewrite coeff_nil.
    apply (RT rsum_map_zero). intros a _. rewrite coeff_nil. ring.
  Qed.

  (* ================= 6. the outer product ================= *)

  Theorem op_conv x y K : wf x -> wf y -> 0 <= K < L ->
    cf K (op O A x y)
    = rsum (map (fun a => ((if Z.eqb (Z.land a (Z.lxor a K)) 0 then sg (s a (Z.lxor a K)) else rO)
                           * (cf a x * cf (Z.lxor a K) y))%r) U).
  Proof.
    intros Hx Hy HK. unfold op, raw_op. rewrite (prod_conv (Some filter_op) x y K Hx Hy HK).
    apply rsum_map_ext. intros a Ha. apply U_inr in Ha. rewrite wt_op.
    pose proof (inr_lxor A a K Ha HK) as HaK.
    assert (E : filter_op a (Z.lxor a K) (Z.lxor a (Z.lxor a K)) = Z.eqb (Z.land a (Z.lxor a K)) 0).
    { apply bool_eq_of_iff. rewrite Z.eqb_eq. apply filter_op_disjoint; lia. }
    rewrite E. reflexivity.
  Qed.

  Theorem op_assoc x y z : wf x -> wf y -> wf z ->
    op O A (op O A x y) z == op O A x (op O A y z).
  Proof. exact (prod_assoc (Some filter_op) x y z wt_op_assoc). Qed.

  Theorem op_add_l x x' y : wf x -> wf x' -> wf y ->
    op O A (add O A x x') y == add O A (op O A x y) (op O A x' y).
  Proof. exact (prod_add_l (Some filter_op) x x' y). Qed.

  Theorem op_add_r x y y' : wf x -> wf y -> wf y' ->
    op O A x (add O A y y') == add O A (op O A x y) (op O A x y').
  Proof. exact (prod_add_r (Some filter_op) x y y'). Qed.

  Theorem op_sub_l x x' y : wf x -> wf x' -> wf y ->
    op O A (sub O A x x') y == sub O A (op O A x y) (op O A x' y).
  Proof. exact (prod_sub_l (Some filter_op) x x' y). Qed.

  Theorem op_sub_r x y y' : wf x -> wf y -> wf y' ->
    op O A x (sub O A y y') == sub O A (op O A x y) (op O A x y').
  Proof. exact (prod_sub_r (Some filter_op) x y y'). Qed.

  Theorem op_neg_l x y : wf x -> wf y -> op O A (neg O A x) y == neg O A (op O A x y).
  Proof. exact (prod_neg_l (Some filter_op) x y). Qed.

  Theorem op_neg_r x y : wf x -> wf y -> op O A x (neg O A y) == neg O A (op O A x y).
  Proof. exact (prod_neg_r (Some filter_op) x y). Qed.

  Theorem op_scal_l c x y : wf x -> wf y -> op O A (scal c x) y == scal c (op O A x y).
  Proof. exact (prod_scal_l (Some filter_op) c x y). Qed.

  Theorem op_scal_r c x y : wf x -> wf y -> op O A x (scal c y) == scal c (op O A x y).
  Proof. exact (prod_scal_r (Some filter_op) c x y). Qed.

  Theorem op_scalar_l c x : wf x -> op O A [(0, c)] x == scal c x.
  Proof. exact (prod_scalar_l (Some filter_op) c x wt_op_0_l). Qed.

  Theorem op_scalar_r c x : wf x -> op O A x [(0, c)] == scal c x.
  Proof. exact (prod_scalar_r (Some filter_op) c x wt_op_0_r). Qed.

  Theorem op_one_l x : wf x -> op O A one x == x.
  Proof. intros Hx. rewrite <- (scal_one x) at 2. apply op_scalar_l. exact Hx. Qed.

  Theorem op_one_r x : wf x -> op O A x one == x.
  Proof. intros Hx. rewrite <- (scal_one x) at 2. apply op_scalar_r. exact Hx. Qed.

  Theorem op_zero_l x : op O A [] x == [].
  Proof. exact canon_sort_nil. Qed.

  Theorem op_zero_r x : wf x -> op O A x [] == [].
  Proof.
    intros Hx. apply eqv_in; [apply wfmv_cs | apply wfmv_nil |]. intros K HK.
    rewrite op_conv by wf_tac. rewrite coeff_nil.
    apply (RT rsum_map_zero). intros a _. rewrite coeff_nil. ring.
  Qed.

  (* ================= 7. inverses ================= *)

  (* a right inverse and a left inverse of the same element coincide *)
  Theorem inverse_unique x y z : wf x -> wf y -> wf z ->
    gp O A x y == one -> gp O A z x == one -> y == z.
  Proof.
    intros Hx Hy Hz Hxy Hzx.
    transitivity (gp O A one y); [symmetry; apply gp_one_l; exact Hy|].
    transitivity (gp O A (gp O A z x) y).
    { apply gp_congr_l; [apply wfmv_one | apply wfmv_gp | exact Hy | symmetry; exact Hzx]. }
    transitivity (gp O A z (gp O A x y)); [apply gp_assoc; assumption|].
    transitivity (gp O A z one).
    { apply gp_congr_r; [exact Hz | apply wfmv_gp | apply wfmv_one | exact Hxy]. }
    apply gp_one_r. exact Hz.
  Qed.

  (* x n = d (a scalar) and d e = 1  ==>  e n is a right inverse of x *)
  Theorem inv_from_scalar_r x n d e : wf x -> wf n ->
    gp O A x n == scal d one -> (d * e)%r = rI -> gp O A x (scal e n) == one.
  Proof.
    intros Hx Hn H Hde.
    transitivity (scal e (gp O A x n)); [apply gp_scal_r; assumption|].
    transitivity (scal e (scal d one)); [apply scal_congr; exact H|].
    transitivity (scal (e * d)%r one); [apply scal_scal|].
    replace (e * d)%r with rI by (rewrite <- Hde; ring). apply scal_one.
  Qed.

  (* n x = d (a scalar) and d e = 1  ==>  e n is a left inverse of x *)
  Theorem inv_from_scalar_l x n d e : wf x -> wf n ->
    gp O A n x == scal d one -> (d * e)%r = rI -> gp O A (scal e n) x == one.
  Proof.
    intros Hx Hn H Hde.
    transitivity (scal e (gp O A n x)); [apply gp_scal_l; assumption|].
    transitivity (scal e (scal d one)); [apply scal_congr; exact H|].
    transitivity (scal (e * d)%r one); [apply scal_scal|].
    replace (e * d)%r with rI by (rewrite <- Hde; ring). apply scal_one.
  Qed.

  (* the same with the scalar written as the stored multivector [(0, d)] *)
  Corollary inv_from_scalar_r' x n d e : wf x -> wf n ->
    gp O A x n == [(0, d)] -> (d * e)%r = rI -> gp O A x (scal e n) == one.
  Proof.
    intros Hx Hn H Hde. apply (inv_from_scalar_r x n d e Hx Hn); [|exact Hde].
    transitivity [(0, d)]; [exact H | apply scalar_scal].
  Qed.

  Corollary inv_from_scalar_l' x n d e : wf x -> wf n ->
    gp O A n x == [(0, d)] -> (d * e)%r = rI -> gp O A (scal e n) x == one.
  Proof.
    intros Hx Hn H Hde. apply (inv_from_scalar_l x n d e Hx Hn); [|exact Hde].
    transitivity [(0, d)]; [exact H | apply scalar_scal].
  Qed.

  (* a two-sided inverse is unique, and inverses of a product *)
  Theorem inverse_product x y x' y' : wf x -> wf y -> wf x' -> wf y' ->
    gp O A x x' == one -> gp O A y y' == one ->
    gp O A (gp O A x y) (gp O A y' x') == one.
  Proof.
    intros Hx Hy Hx' Hy' Ex Ey.
    transitivity (gp O A x (gp O A y (gp O A y' x'))); [apply gp_assoc; try assumption; apply wfmv_gp|].
    transitivity (gp O A x (gp O A (gp O A y y') x')).
    { apply gp_congr_r; try apply wfmv_gp; [exact Hx|]. symmetry. apply gp_assoc; assumption. }
    transitivity (gp O A x (gp O A one x')).
    { apply gp_congr_r; try apply wfmv_gp; [exact Hx|].
      apply gp_congr_l; [apply wfmv_gp | apply wfmv_one | exact Hx' | exact Ey]. }
    transitivity (gp O A x x'); [|exact Ex].
    apply gp_congr_r; [exact Hx | apply wfmv_gp | exact Hx' | apply gp_one_l; exact Hx'].
  Qed.

  (* ================= 8. grades under the outer product; nilpotency ================= *)

  (* all coefficients of x below grade g vanish *)
  Definition min_grade (g : Z) (x : mv R) : Prop :=
    forall K, 0 <= K < L -> popcount K < g -> cf K x = rO.

  (* the syntactic criterion: every stored key has grade >= g *)
  Lemma min_grade_keys g x : (forall k, In k (keys x) -> g <= popcount k) -> min_grade g x.
  Proof.
    intros H K HK Hg. apply (RN coeff_notin). intros Hin. specialize (H K Hin). lia.
  Qed.

  Lemma min_grade_0 x : min_grade 0 x.
  Proof. intros K HK Hg. pose proof (popcount_nonneg K). lia. Qed.

  Lemma min_grade_congr g x y : x == y -> min_grade g x -> min_grade g y.
  Proof. intros E H K HK Hg. rewrite <- (E K). apply H; assumption. Qed.

  Theorem op_min_grade g h x y : wf x -> wf y -> min_grade g x -> min_grade h y ->
    min_grade (g + h) (op O A x y).
  Proof.
    intros Hx Hy Gx Gy K HK Hg. rewrite op_conv by assumption.
    apply (RT rsum_map_zero). intros a Ha. apply U_inr in Ha.
    pose proof (inr_lxor A a K Ha HK) as HaK.
    destruct (Z.eqb (Z.land a (Z.lxor a K)) 0) eqn:E; [|ring].
    apply Z.eqb_eq in E. apply disjoint_grade in E; [|lia|lia]. rewrite lxor_cancel in E.
    destruct (Z_lt_dec (popcount a) g) as [Hlt|Hge].
    - rewrite (Gx a Ha Hlt). ring.
    - rewrite (Gy (Z.lxor a K) HaK) by lia. ring.
  Qed.

  (* outer powers  x ^ x ^ ... ^ x  (n factors; the empty product is 1) *)
  Fixpoint op_pow (n : nat) (x : mv R) : mv R :=
    match n with 0%nat => one | S n => op O A x (op_pow n x) end.

  Lemma wfmv_op_pow n x : wf (op_pow n x).
  Proof. destruct n; [exact wfmv_one | exact (wfmv_cs _)]. Qed.

  Theorem op_pow_min_grade n x : wf x -> min_grade 1 x -> min_grade (Z.of_nat n) (op_pow n x).
  Proof.
    intros Hx Gx. induction n as [|n IH].
    - apply min_grade_0.
    - replace (Z.of_nat (S n)) with (1 + Z.of_nat n) by lia. cbn [op_pow].
      apply op_min_grade; [exact Hx | apply wfmv_op_pow | exact Gx | exact IH].
  Qed.

  (* a multivector without scalar part is nilpotent for the outer product: its (d+1)-th outer
     power vanishes, so the outer exponential is a finite sum *)
  Theorem op_nilpotent_grade x : wf x -> min_grade 1 x -> op_pow (S (a_d A)) x == [].
  Proof.
    intros Hx Gx. apply eqv_in; [apply wfmv_op_pow | exact wfmv_nil |]. intros K HK.
    rewrite coeff_nil. apply (op_pow_min_grade (S (a_d A)) x Hx Gx K HK).
    pose proof (popcount_le_ones (Z.of_nat (a_d A)) K (Zle_0_nat _) (inr_ones A K HK)). lia.
  Qed.

  Corollary op_nilpotent_keys x : wf x -> (forall k, In k (keys x) -> 1 <= popcount k) ->
    op_pow (S (a_d A)) x == [].
  Proof. intros Hx H. apply op_nilpotent_grade; [exact Hx | apply min_grade_keys; exact H]. Qed.

End Algebra.


Arguments scal {R} rmul c x.
Arguments one {R} rI.
Arguments wt {R} rO rI ropp A filt a b.
Arguments min_grade {R} rO rI radd rmul rsub ropp A g x.
Arguments op_pow {R} rO rI radd rmul rsub ropp A n x.

(* ================= 9. every well-formed algebra ================= *)

(* The sign-table hypotheses hold for every well-formed algebra (Theory/OpsWF.v), so all the laws
   above hold for every dimension, signature, start index and admissible basis: each theorem [T]
   of the section gives [T ... (wf_sign_hyps A Hwf)].  The main ones, spelled out: *)
Section AlgebraWF.
  Variable R : Type.
  Variables (rO rI : R) (radd rmul rsub : R -> R -> R) (ropp : R -> R).
  Hypothesis Rth : ring_theory rO rI radd rmul rsub ropp (@eq R).
  Local Notation O := (mkOps R radd rsub rmul ropp rO rI).
  Local Notation equiv := (Sparse.equiv rO rI radd rmul rsub ropp).
  Local Infix "==" := equiv (at level 70, no associativity).
  Local Notation RT l := (l R rO rI radd rmul rsub ropp Rth) (only parsing).
  Local Notation scal := (scal rmul).
  Local Notation one := (one rI).

  Variable A : alg.
  Hypothesis Hwf : wf_alg A = true.
  Local Notation SH := (wf_sign_hyps A Hwf).
  Local Notation wf := (@wfmv R A).

  Theorem gp_assoc_wf x y z : wf x -> wf y -> wf z ->
    gp O A (gp O A x y) z == gp O A x (gp O A y z).
  Proof. exact (RT gp_assoc A SH x y z). Qed.

  Theorem gp_add_l_wf x x' y : wf x -> wf x' -> wf y ->
    gp O A (add O A x x') y == add O A (gp O A x y) (gp O A x' y).
  Proof. exact (RT gp_add_l A SH x x' y). Qed.
  Theorem gp_add_r_wf x y y' : wf x -> wf y -> wf y' ->
    gp O A x (add O A y y') == add O A (gp O A x y) (gp O A x y').
  Proof. exact (RT gp_add_r A SH x y y'). Qed.
  Theorem gp_sub_l_wf x x' y : wf x -> wf x' -> wf y ->
    gp O A (sub O A x x') y == sub O A (gp O A x y) (gp O A x' y).
  Proof. exact (RT gp_sub_l A SH x x' y). Qed.
  Theorem gp_sub_r_wf x y y' : wf x -> wf y -> wf y' ->
    gp O A x (sub O A y y') == sub O A (gp O A x y) (gp O A x y').
  Proof. exact (RT gp_sub_r A SH x y y'). Qed.
  Theorem gp_neg_l_wf x y : wf x -> wf y -> gp O A (neg O A x) y == neg O A (gp O A x y).
  Proof. exact (RT gp_neg_l A SH x y). Qed.
  Theorem gp_neg_r_wf x y : wf x -> wf y -> gp O A x (neg O A y) == neg O A (gp O A x y).
  Proof. exact (RT gp_neg_r A SH x y). Qed.
  Theorem gp_scal_l_wf c x y : wf x -> wf y -> gp O A (scal c x) y == scal c (gp O A x y).
  Proof. exact (RT gp_scal_l A SH c x y). Qed.
  Theorem gp_scal_r_wf c x y : wf x -> wf y -> gp O A x (scal c y) == scal c (gp O A x y).
  Proof. exact (RT gp_scal_r A SH c x y). Qed.
  Theorem gp_scalar_l_wf c x : wf x -> gp O A [(0%Z, c)] x == scal c x.
  Proof. exact (RT gp_scalar_l A SH c x). Qed.
  Theorem gp_scalar_r_wf c x : wf x -> gp O A x [(0%Z, c)] == scal c x.
  Proof. exact (RT gp_scalar_r A SH c x). Qed.
  Theorem gp_one_l_wf x : wf x -> gp O A one x == x.
  Proof. exact (RT gp_one_l A SH x). Qed.
  Theorem gp_one_r_wf x : wf x -> gp O A x one == x.
  Proof. exact (RT gp_one_r A SH x). Qed.
  Theorem gp_congr_wf x x' y y' : wf x -> wf x' -> wf y -> wf y' ->
    x == x' -> y == y' -> gp O A x y == gp O A x' y'.
  Proof. exact (RT gp_congr A x x' y y'). Qed.

  Theorem op_assoc_wf x y z : wf x -> wf y -> wf z ->
    op O A (op O A x y) z == op O A x (op O A y z).
  Proof. exact (RT op_assoc A SH x y z). Qed.
  Theorem op_add_l_wf x x' y : wf x -> wf x' -> wf y ->
    op O A (add O A x x') y == add O A (op O A x y) (op O A x' y).
  Proof. exact (RT op_add_l A SH x x' y). Qed.
  Theorem op_add_r_wf x y y' : wf x -> wf y -> wf y' ->
    op O A x (add O A y y') == add O A (op O A x y) (op O A x y').
  Proof. exact (RT op_add_r A SH x y y'). Qed.
  Theorem op_scal_l_wf c x y : wf x -> wf y -> op O A (scal c x) y == scal c (op O A x y).
  Proof. exact (RT op_scal_l A SH c x y). Qed.
  Theorem op_scal_r_wf c x y : wf x -> wf y -> op O A x (scal c y) == scal c (op O A x y).
  Proof. exact (RT op_scal_r A SH c x y). Qed.
  Theorem op_one_l_wf x : wf x -> op O A one x == x.
  Proof. exact (RT op_one_l A SH x). Qed.
  Theorem op_one_r_wf x : wf x -> op O A x one == x.
  Proof. exact (RT op_one_r A SH x). Qed.
  Theorem op_nilpotent_grade_wf x : wf x ->
    min_grade rO rI radd rmul rsub ropp A 1 x ->
    op_pow rO rI radd rmul rsub ropp A (S (a_d A)) x == [].
  Proof. exact (RT op_nilpotent_grade A SH x). Qed.

  Theorem add_comm_wf x y : wf x -> wf y -> add O A x y == add O A y x.
  Proof. exact (RT add_comm A SH x y). Qed.
  Theorem add_assoc_wf x y z : wf x -> wf y -> wf z ->
    add O A (add O A x y) z == add O A x (add O A y z).
  Proof. exact (RT add_assoc A SH x y z). Qed.
  Theorem add_zero_wf x : wf x -> add O A x [] == x.
  Proof. exact (RT add_zero A SH x). Qed.
  Theorem add_neg_wf x : wf x -> add O A x (neg O A x) == [].
  Proof. exact (RT add_neg A SH x). Qed.
  Theorem sub_def_wf x y : wf x -> wf y -> sub O A x y == add O A x (neg O A y).
  Proof. exact (RT sub_def A SH x y). Qed.
  Theorem scal_add_wf c x y : wf x -> wf y ->
    scal c (add O A x y) == add O A (scal c x) (scal c y).
  Proof. exact (RT scal_add A SH c x y). Qed.

  Theorem wfmv_ops_wf x y :
    wf (gp O A x y) /\ wf (op O A x y) /\ wf (add O A x y) /\ wf (sub O A x y) /\ wf (neg O A x)
    /\ wf one /\ (forall c, wf x -> wf (scal c x)).
  Proof.
    do 5 (split; [exact (wfmv_cs R A SH _)|]).
    split; [exact (wfmv_one R rI A)|]. exact (fun c H => wfmv_scal R rmul A c x H).
  Qed.

  Theorem inverse_unique_wf x y z : wf x -> wf y -> wf z ->
    gp O A x y == one -> gp O A z x == one -> y == z.
  Proof. exact (RT inverse_unique A SH x y z). Qed.
  Theorem inv_from_scalar_r_wf x n d e : wf x -> wf n ->
    gp O A x n == scal d one -> rmul d e = rI -> gp O A x (scal e n) == one.
  Proof. exact (RT inv_from_scalar_r A SH x n d e). Qed.
  Theorem inv_from_scalar_l_wf x n d e : wf x -> wf n ->
    gp O A n x == scal d one -> rmul d e = rI -> gp O A (scal e n) x == one.
  Proof. exact (RT inv_from_scalar_l A SH x n d e). Qed.
End AlgebraWF.

(* ================= 10. closed examples over Z (non-vacuity) ================= *)

(* the boolean comparison of the model decides [==] on multivectors whose keys are canonical *)
Lemma mv_equiv_sound A (x y : mv Z) :
  mv_equiv A x y = true -> Sparse.equiv 0%Z 1%Z Z.add Z.mul Z.sub Z.opp x y.
Proof.
  unfold mv_equiv. rewrite !andb_true_iff, !forallb_forall. intros [[H1 H2] H3] K.
  change (coeff Zops K x = coeff Zops K y).
  destruct (zin K (canon_keys A)) eqn:E.
  - apply zin_true_iff in E. apply Z.eqb_eq. apply H1. exact E.
  - apply zin_false_iff in E. unfold Zops.
    rewrite !(coeff_notin Z 0%Z 1%Z Z.add Z.mul Z.sub Z.opp); [reflexivity | |].
    + intros Hin. apply E. apply zin_true_iff. apply H3. exact Hin.
    + intros Hin. apply E. apply zin_true_iff. apply H2. exact Hin.
Qed.

Section ExamplesZ.
  Local Open Scope Z_scope.
  Local Notation Zequiv := (Sparse.equiv 0 1 Z.add Z.mul Z.sub Z.opp).
  Local Notation Zscal := (scal Z.mul).
  Local Notation Zone := (one 1).
  Local Notation ZT l := (l Z 0 1 Z.add Z.mul Z.sub Z.opp Zth) (only parsing).

  (* the hypotheses are satisfiable: Ops.A3 = mk_default [1; 1; -1] 1 false (keys 1 = e1, 2 = e2,
     4 = e3 with e3^2 = -1), sign_hyps by enumeration (Ops.A3_hyps), and it is well-formed *)
  Example A3_wf : wf_alg A3 = true.
  Proof. vm_compute. reflexivity. Qed.

  (* --- closed instances: every hypothesis discharged --- *)
  Example gp_assoc_A3 (x y z : mv Z) : wfmv A3 x -> wfmv A3 y -> wfmv A3 z ->
    Zequiv (gp Zops A3 (gp Zops A3 x y) z) (gp Zops A3 x (gp Zops A3 y z)).
  Proof. exact (ZT gp_assoc A3 A3_hyps x y z). Qed.

  Example gp_add_l_A3 (x x' y : mv Z) : wfmv A3 x -> wfmv A3 x' -> wfmv A3 y ->
    Zequiv (gp Zops A3 (add Zops A3 x x') y) (add Zops A3 (gp Zops A3 x y) (gp Zops A3 x' y)).
  Proof. exact (ZT gp_add_l A3 A3_hyps x x' y). Qed.

  Example op_assoc_P2 (x y z : mv Z) : wfmv P2 x -> wfmv P2 y -> wfmv P2 z ->
    Zequiv (op Zops P2 (op Zops P2 x y) z) (op Zops P2 x (op Zops P2 y z)).
  Proof. exact (ZT op_assoc P2 P2_hyps x y z). Qed.

  (* --- the same on concrete sparse operands (Ops.x3, Ops.y3: unsorted keys), by computation --- *)
  Definition z3 : mv Z := [(4, 3); (0, -1); (3, 2)].

  Example gp_assoc_ex :
    gp Zops A3 (gp Zops A3 x3 y3) z3 = gp Zops A3 x3 (gp Zops A3 y3 z3)
    /\ gp Zops A3 (gp Zops A3 x3 y3) z3
       = [(0, -60); (1, 40); (2, -40); (4, -12); (3, -12); (5, 40); (6, 40); (7, 60)].
  Proof. vm_compute. split; reflexivity. Qed.

  Example op_assoc_ex :
    op Zops A3 (op Zops A3 x3 y3) z3 = op Zops A3 x3 (op Zops A3 y3 z3).
  Proof. vm_compute. reflexivity. Qed.

  Example gp_distrib_ex :
    gp Zops A3 (add Zops A3 x3 z3) y3 = add Zops A3 (gp Zops A3 x3 y3) (gp Zops A3 z3 y3).
  Proof. vm_compute. reflexivity. Qed.

  Example gp_scal_ex :
    gp Zops A3 (Zscal 5 x3) y3 = Zscal 5 (gp Zops A3 x3 y3)
    /\ gp Zops A3 [(0, 5)] x3 = [(0, 20); (1, 10); (6, -15); (7, 25)]
    /\ Zscal 5 x3 = [(1, 10); (6, -15); (7, 25); (0, 20)].
  Proof. vm_compute. repeat split; reflexivity. Qed.

  (* --- inverses.  v = e1 + e2 + e3 squares to 1 + 1 - 1 = 1; the product stores the cancelled
     bivector coefficients as zeros, so  v v == 1  holds as [==] but not as equality of lists --- *)
  Definition v3 : mv Z := [(4, 1); (1, 1); (2, 1)].

  Lemma v3_wf : wfmv A3 v3.
  Proof.
    split.
    - repeat constructor; cbn; intuition lia.
    - intros k Hk. change (alg_len A3) with 8. cbn in Hk. intuition lia.
  Qed.

  Example v3_square_list : gp Zops A3 v3 v3 = [(0, 1); (3, 0); (5, 0); (6, 0)].
  Proof. vm_compute. reflexivity. Qed.

  Example v3_square : Zequiv (gp Zops A3 v3 v3) [(0, 1)].
  Proof. apply (mv_equiv_sound A3). vm_compute. reflexivity. Qed.

  (* inv_from_scalar: from v v == 1 * one, 1 * 1 = 1 *)
  Example v3_inverse : Zequiv (gp Zops A3 v3 (Zscal 1 v3)) Zone.
  Proof.
    apply (ZT inv_from_scalar_r' A3 A3_hyps v3 v3 1 1 v3_wf v3_wf v3_square). reflexivity.
  Qed.

  (* e3 squares to -1, so -e3 is its inverse *)
  Example e3_inverse : Zequiv (gp Zops A3 [(4, 1)] (Zscal (-1) [(4, 1)])) Zone.
  Proof.
    assert (He : wfmv A3 ([(4, 1)] : mv Z)) by (apply wfmv_single; vm_compute; split; [discriminate | reflexivity]).
    apply (ZT inv_from_scalar_r' A3 A3_hyps [(4, 1)] [(4, 1)] (-1) (-1) He He); [|reflexivity].
    apply (mv_equiv_sound A3). vm_compute. reflexivity.
  Qed.

  (* inverse_unique: any left inverse z of v3 is v3 itself (up to ==) *)
  Example v3_inverse_unique (z : mv Z) : wfmv A3 z -> Zequiv (gp Zops A3 z v3) Zone -> Zequiv v3 z.
  Proof.
    intros Hz Hl. apply (ZT inverse_unique A3 A3_hyps v3 v3 z v3_wf v3_wf Hz); [|exact Hl].
    exact v3_square.
  Qed.

  (* outer nilpotency in 3 dimensions: (e1 + 2 e23 + 5 e123 ...)^4 = 0, the third power is not *)
  Example op_pow_ex :
    op_pow 0 1 Z.add Z.mul Z.sub Z.opp A3 4 [(1, 2); (6, -3); (7, 5)] = []
    /\ op_pow 0 1 Z.add Z.mul Z.sub Z.opp A3 2 [(1, 2); (6, -3); (7, 5)] = [(7, -12)].
  Proof. vm_compute. split; reflexivity. Qed.
End ExamplesZ.

Print Assumptions gp_assoc.
Print Assumptions gp_add_l.
Print Assumptions gp_scal_l.
Print Assumptions gp_one_l.
Print Assumptions op_assoc.
Print Assumptions op_nilpotent_grade.
Print Assumptions inverse_unique.
Print Assumptions inv_from_scalar_r.
Print Assumptions gp_assoc_wf.
Print Assumptions inverse_unique_wf.
Print Assumptions v3_inverse.
