(* Theory/Graph.v — the payload kingdon sends to its ganja.js front end (Model/Graph.v):
   decode (graph.js) after encode (graph.py) gives, for every multivector reachable through lists, tuples and
   zero-argument callables, exactly its coefficient on every blade; key2idx describes the algebra; the drag
   write-back overwrites exactly the stored coefficients. *)
From KV Require Import Model.Graph.
From Coq Require Import Lia.
Local Open Scope Z_scope.

(* ------------------------------------------------------------------------------------------------ *)
(** * Specification side *)

(* coefficient of blade k in m at trailing index idx: first match in g_keys, absent = 0 *)
Definition coeff (m : gmv) (idx : nat) (k : Z) : Z :=
  match zindex k (g_keys m) with
  | Some j => nth idx (nth j (g_vals m) []) 0
  | None => 0
  end.
Definition coeffs_of (canon : list Z) (m : gmv) (idx : nat) : list Z := map (coeff m idx) canon.

Record wf_mv (canon : list Z) (m : gmv) : Prop := mk_wf_mv {
  wf_nodup : NoDup (g_keys m);
  wf_incl : incl (g_keys m) canon;
  wf_len : length (g_vals m) = length (g_keys m);
  wf_cols : exists n, (1 <= n)%nat /\ Forall (fun c => length c = n) (g_vals m) /\
                      (g_arr m = false -> n = 1%nat) }.

Fixpoint wf_subj (canon : list Z) (s : subj) : Prop :=
  match s with
  | SNum _ | SStr _ => True
  | SMv m => wf_mv canon m
  | SList l | STuple l =>
      (fix all (l : list subj) : Prop := match l with [] => True | x :: r => wf_subj canon x /\ all r end) l
  | SCall r => wf_subj canon r
  end.

Lemma wf_subj_list_Forall canon l :
  (fix all (l : list subj) : Prop := match l with [] => True | x :: r => wf_subj canon x /\ all r end) l
  <-> Forall (wf_subj canon) l.
Proof.
  induction l as [|x r IH].
  - split; intros; [constructor | exact I].
  - split.
    + intros [Hx Hr]. constructor; [exact Hx | apply IH; exact Hr].
    + intros H. inversion H as [|? ? Hx Hr]; subst. split; [exact Hx | apply IH; exact Hr].
Qed.

Lemma wf_subj_SList canon l : wf_subj canon (SList l) <-> Forall (wf_subj canon) l.
Proof. apply wf_subj_list_Forall. Qed.
Lemma wf_subj_STuple canon l : wf_subj canon (STuple l) <-> Forall (wf_subj canon) l.
Proof. apply wf_subj_list_Forall. Qed.

(* the trailing indices a multivector is expanded over *)
Definition mv_indices (m : gmv) : list nat := if g_arr m then seq 0 (mv_width m) else [0%nat].

(* what the front end must see: numbers/strings unchanged, a multivector as its full canonical coefficient
   list, an array-valued one expanded INTO THE ENCLOSING LIST, lists and tuples as (JSON) lists, a callable
   replaced by what its result contributes (so a callable returning a list gives ONE nested list, a callable
   returning an array-valued multivector is spliced) *)
Fixpoint expected (canon : list Z) (s : subj) : list elem :=
  match s with
  | SNum n => [ENum n]
  | SStr x => [EStr x]
  | SMv m => map (fun i => EMv (coeffs_of canon m i)) (mv_indices m)
  | SList l => [EList (flat_map (expected canon) l)]
  | STuple l => [EList (flat_map (expected canon) l)]
  | SCall r => expected canon r
  end.
Definition expected_root (canon : list Z) (pre : list subj) : list elem := flat_map (expected canon) pre.

(* induction principle for the nested type *)
Section SubjInd.
  Variable P : subj -> Prop.
  Hypothesis HNum : forall n, P (SNum n).
  Hypothesis HStr : forall s, P (SStr s).
  Hypothesis HMv : forall m, P (SMv m).
  Hypothesis HList : forall l, Forall P l -> P (SList l).
  Hypothesis HTuple : forall l, Forall P l -> P (STuple l).
  Hypothesis HCall : forall r, P r -> P (SCall r).
  Fixpoint subj_ind' (s : subj) : P s :=
    match s with
    | SNum n => HNum n
    | SStr x => HStr x
    | SMv m => HMv m
    | SList l => HList l ((fix go (l : list subj) : Forall P l :=
                             match l with [] => Forall_nil P | x :: r => Forall_cons x (subj_ind' x) (go r) end) l)
    | STuple l => HTuple l ((fix go (l : list subj) : Forall P l :=
                             match l with [] => Forall_nil P | x :: r => Forall_cons x (subj_ind' x) (go r) end) l)
    | SCall r => HCall r (subj_ind' r)
    end.
End SubjInd.

(* ------------------------------------------------------------------------------------------------ *)
(** * List helpers *)

Lemma lz_eqb_eq a b : lz_eqb a b = true <-> a = b.
Proof.
  unfold lz_eqb. revert b. induction a as [|x r IH]; intros [|y s]; cbn [list_eqb]; split; intros H;
    try reflexivity; try discriminate.
  - apply andb_prop in H. destruct H as [H1 H2]. apply Z.eqb_eq in H1. apply IH in H2. subst. reflexivity.
  - injection H as -> ->. rewrite Z.eqb_refl. cbn [andb]. apply IH. reflexivity.
Qed.

Lemma zindex_Some k l j : zindex k l = Some j -> nth_error l j = Some k.
Proof.
  revert j. induction l as [|x r IH]; intros j H; cbn [zindex] in H.
  - discriminate.
  - destruct (Z.eqb x k) eqn:E.
    + injection H as <-. apply Z.eqb_eq in E. subst. reflexivity.
    + destruct (zindex k r) as [j'|]; cbn [option_map] in H; [|discriminate].
      injection H as <-. cbn [nth_error]. apply IH. reflexivity.
Qed.

Lemma zindex_None k l : zindex k l = None <-> ~ In k l.
Proof.
  induction l as [|x r IH]; cbn [zindex In].
  - split; [intros _ [] | reflexivity].
  - destruct (Z.eqb x k) eqn:E.
    + apply Z.eqb_eq in E. split; [discriminate | intros H; exfalso; apply H; left; exact E].
    + apply Z.eqb_neq in E. destruct (zindex k r) as [j|]; cbn [option_map].
      * split; [discriminate|]. intros H. exfalso. destruct IH as [_ IH2].
        assert (Hn : ~ In k r) by (intros Hi; apply H; right; exact Hi).
        specialize (IH2 Hn). discriminate.
      * split; [|reflexivity]. intros _ [H|H]; [apply E; exact H|]. destruct IH as [IH1 _]. apply IH1; [reflexivity|exact H].
Qed.

Lemma zindex_In k l : In k l -> exists j, zindex k l = Some j.
Proof.
  intros H. destruct (zindex k l) as [j|] eqn:E; [exists j; reflexivity|].
  apply zindex_None in E. contradiction.
Qed.

Lemma zindex_lt k l j : zindex k l = Some j -> (j < length l)%nat.
Proof. intros H. apply zindex_Some in H. apply nth_error_Some. rewrite H. discriminate. Qed.

Lemma zindex_nth_error l : NoDup l -> forall j k, nth_error l j = Some k -> zindex k l = Some j.
Proof.
  intros Hnd. induction Hnd as [|x r Hx Hr IH]; intros j k H.
  - destruct j; discriminate.
  - destruct j as [|j]; cbn [nth_error] in H; cbn [zindex].
    + injection H as ->. rewrite Z.eqb_refl. reflexivity.
    + destruct (Z.eqb x k) eqn:E.
      * apply Z.eqb_eq in E. subst. exfalso. apply Hx. eapply nth_error_In. exact H.
      * rewrite (IH j k H). reflexivity.
Qed.

Lemma zindex_nth l i : NoDup l -> (i < length l)%nat -> zindex (nth i l 0) l = Some i.
Proof.
  intros Hnd Hi. apply zindex_nth_error; [exact Hnd|]. apply nth_error_nth'. exact Hi.
Qed.

Lemma zin_In k l : zin k l = true <-> In k l.
Proof.
  unfold zin. rewrite existsb_exists. split.
  - intros [x [Hx E]]. apply Z.eqb_eq in E. subst. exact Hx.
  - intros H. exists k. split; [exact H | apply Z.eqb_refl].
Qed.

Lemma zin_zindex k l : zin k l = match zindex k l with Some _ => true | None => false end.
Proof.
  destruct (zindex k l) as [j|] eqn:E.
  - apply zin_In. apply zindex_Some in E. eapply nth_error_In. exact E.
  - apply zindex_None in E. destruct (zin k l) eqn:Z; [|reflexivity]. apply zin_In in Z. contradiction.
Qed.

Lemma set_nth_length {A} i (v : A) l : length (set_nth i v l) = length l.
Proof. revert i. induction l as [|x r IH]; intros [|i]; cbn [set_nth length]; try reflexivity. rewrite IH. reflexivity. Qed.

Lemma nth_set_nth_eq {A} i (v d : A) l : (i < length l)%nat -> nth i (set_nth i v l) d = v.
Proof.
  revert i. induction l as [|x r IH]; intros [|i] H; cbn [length] in H; try lia; cbn [set_nth nth].
  - reflexivity.
  - apply IH. lia.
Qed.

Lemma nth_set_nth_neq {A} i j (v d : A) l : i <> j -> nth j (set_nth i v l) d = nth j l d.
Proof.
  revert i j. induction l as [|x r IH]; intros [|i] [|j] H; cbn [set_nth nth]; try reflexivity; try congruence.
  apply IH. congruence.
Qed.

Lemma set_nth_same {A} i (d : A) l : set_nth i (nth i l d) l = l.
Proof.
  revert i. induction l as [|x r IH]; intros [|i]; cbn [set_nth nth]; try reflexivity. rewrite IH. reflexivity.
Qed.

Lemma set_nth_out {A} i (v : A) l : (length l <= i)%nat -> set_nth i v l = l.
Proof.
  revert i. induction l as [|x r IH]; intros [|i] H; cbn [length] in H; cbn [set_nth]; try reflexivity; try lia.
  rewrite IH by lia. reflexivity.
Qed.

Lemma firstn_S_set_nth {A} j (v : A) l : (j < length l)%nat -> firstn (S j) (set_nth j v l) = firstn j l ++ [v].
Proof.
  revert j. induction l as [|x r IH]; intros [|j] H; cbn [length] in H; try lia.
  - reflexivity.
  - cbn [set_nth]. change (firstn (S (S j)) (x :: set_nth j v r)) with (x :: firstn (S j) (set_nth j v r)).
    rewrite IH by lia. reflexivity.
Qed.

Lemma Forall_set_nth {A} (P : A -> Prop) i v l : Forall P l -> P v -> Forall P (set_nth i v l).
Proof.
  intros Hl Hv. revert i. induction Hl as [|x r Hx Hr IH]; intros [|i]; cbn [set_nth]; constructor; auto.
Qed.

Lemma map_flat_map' {A B C} (f : B -> C) (g : A -> list B) l :
  map f (flat_map g l) = flat_map (fun x => map f (g x)) l.
Proof. induction l as [|x r IH]; cbn [flat_map map]; [reflexivity|]. rewrite map_app, IH. reflexivity. Qed.

Lemma nth_map0 {A} (f : A -> Z) (d : A) l i : f d = 0 -> nth i (map f l) 0 = f (nth i l d).
Proof. intros H. rewrite <- H. apply map_nth. Qed.

(* ------------------------------------------------------------------------------------------------ *)
(** * 4. key2idx *)

Lemma key2idx_from_zindex canon : NoDup canon -> forall i k,
  key2idx_from i canon k = option_map (fun j => (i + j)%nat) (zindex k canon).
Proof.
  intros Hnd. induction Hnd as [|x r Hx Hr IH]; intros i k; cbn [key2idx_from zindex].
  - reflexivity.
  - rewrite IH. destruct (Z.eqb x k) eqn:E.
    + apply Z.eqb_eq in E. subst x. apply zindex_None in Hx. rewrite Hx. cbn [option_map]. f_equal. lia.
    + destruct (zindex k r) as [j|]; cbn [option_map]; [f_equal; lia | reflexivity].
Qed.

Lemma key2idx_zindex canon k : NoDup canon -> key2idx canon k = zindex k canon.
Proof.
  intros Hnd. unfold key2idx. rewrite key2idx_from_zindex by exact Hnd.
  destruct (zindex k canon); reflexivity.
Qed.

Theorem key2idx_spec canon k i : NoDup canon ->
  (key2idx canon k = Some i <-> nth_error canon i = Some k).
Proof.
  intros Hnd. rewrite key2idx_zindex by exact Hnd. split.
  - apply zindex_Some.
  - apply zindex_nth_error. exact Hnd.
Qed.

Theorem key2idx_total canon k : NoDup canon -> In k canon ->
  exists i, key2idx canon k = Some i /\ (i < length canon)%nat.
Proof.
  intros Hnd Hin. rewrite key2idx_zindex by exact Hnd.
  destruct (zindex_In _ _ Hin) as [j Hj]. exists j. split; [exact Hj | eapply zindex_lt; exact Hj].
Qed.

Theorem key2idx_None canon k : NoDup canon -> (key2idx canon k = None <-> ~ In k canon).
Proof. intros Hnd. rewrite key2idx_zindex by exact Hnd. apply zindex_None. Qed.

(* key2idx is injective, and enumerates canon: it is the inverse of  i |-> canon[i] *)
Theorem key2idx_nth canon i : NoDup canon -> (i < length canon)%nat -> key2idx canon (nth i canon 0) = Some i.
Proof. intros Hnd Hi. rewrite key2idx_zindex by exact Hnd. apply zindex_nth; assumption. Qed.

Theorem key2idx_inj canon k1 k2 i : NoDup canon ->
  key2idx canon k1 = Some i -> key2idx canon k2 = Some i -> k1 = k2.
Proof.
  intros Hnd H1 H2. apply key2idx_spec in H1; [|exact Hnd]. apply key2idx_spec in H2; [|exact Hnd]. congruence.
Qed.

(* ------------------------------------------------------------------------------------------------ *)
(** * toElement *)

Lemma place_length canon keys : forall j vals acc, length (place canon keys j vals acc) = length acc.
Proof.
  induction keys as [|k r IH]; intros j vals acc; cbn [place]; [reflexivity|].
  rewrite IH. destruct (key2idx canon k); [apply set_nth_length | reflexivity].
Qed.

Lemma place_nth canon : NoDup canon -> forall keys j vals acc i,
  NoDup keys -> incl keys canon -> length acc = length canon -> (i < length canon)%nat ->
  nth i (place canon keys j vals acc) 0 =
    match zindex (nth i canon 0) keys with Some p => nth (j + p) vals 0 | None => nth i acc 0 end.
Proof.
  intros Hc. induction keys as [|k r IH]; intros j vals acc i Hk Hin Hlen Hi; cbn [place zindex].
  - reflexivity.
  - inversion Hk as [|? ? Hkr Hr]; subst.
    assert (Hkc : In k canon) by (apply Hin; left; reflexivity).
    assert (Hrc : incl r canon) by (intros y Hy; apply Hin; right; exact Hy).
    destruct (key2idx_total canon k Hc Hkc) as [i0 [Hi0 Hi0lt]]. rewrite Hi0.
    rewrite IH; [| exact Hr | exact Hrc | rewrite set_nth_length; exact Hlen | exact Hi].
    destruct (Z.eqb k (nth i canon 0)) eqn:E.
    + apply Z.eqb_eq in E.
      assert (Hii : i0 = i).
      { rewrite E in Hi0. rewrite key2idx_nth in Hi0 by assumption. congruence. }
      subst i0. assert (Hn : zindex (nth i canon 0) r = None) by (apply zindex_None; rewrite <- E; exact Hkr).
      rewrite Hn. rewrite nth_set_nth_eq by lia. f_equal. lia.
    + apply Z.eqb_neq in E.
      destruct (zindex (nth i canon 0) r) as [p|]; cbn [option_map].
      * f_equal. lia.
      * apply nth_set_nth_neq. intros ->. apply E.
        apply key2idx_spec in Hi0; [|exact Hc]. rewrite (nth_error_nth' canon 0 Hi) in Hi0. congruence.
Qed.

(* the value the front end reconstructs on blade k from (keys, vals) *)
Definition lookup (keys vals : list Z) (k : Z) : Z :=
  match zindex k keys with Some p => nth p vals 0 | None => 0 end.

Lemma to_element_keyed canon keys vals : NoDup canon -> NoDup keys -> incl keys canon ->
  to_element canon vals (Some keys) = map (lookup keys vals) canon.
Proof.
  intros Hc Hk Hin. cbn [to_element]. rewrite (nodup_fixed_point Z.eq_dec Hc).
  apply (nth_ext _ _ 0 0).
  - rewrite place_length, repeat_length, map_length. reflexivity.
  - intros i Hi. rewrite place_length, repeat_length in Hi.
    rewrite place_nth; [| exact Hc | exact Hk | exact Hin | apply repeat_length | exact Hi].
    rewrite (nth_indep (map _ _) 0 (lookup keys vals 0)) by (rewrite map_length; exact Hi).
    rewrite map_nth. unfold lookup. destruct (zindex (nth i canon 0) keys) as [p|].
    + reflexivity.
    + apply nth_repeat.
Qed.

Lemma to_element_pos canon vals : NoDup canon -> length vals = length canon ->
  to_element canon vals None = map (lookup canon vals) canon.
Proof.
  intros Hc Hlen. cbn [to_element]. apply (nth_ext _ _ 0 0).
  - rewrite map_length. exact Hlen.
  - intros i Hi. rewrite Hlen in Hi.
    rewrite (nth_indep (map _ _) 0 (lookup canon vals 0)) by (rewrite map_length; exact Hi).
    rewrite map_nth. unfold lookup. rewrite zindex_nth by assumption. reflexivity.
Qed.

Lemma decode_plain canon keys vals :
  NoDup canon -> NoDup keys -> incl keys canon -> length vals = length keys ->
  decode canon (encode_plain canon keys vals) = EMv (map (lookup keys vals) canon).
Proof.
  intros Hc Hk Hin Hlen. unfold encode_plain. destruct (lz_eqb keys canon) eqn:E; cbn [decode].
  - apply lz_eqb_eq in E. subst keys. rewrite to_element_pos by assumption. reflexivity.
  - rewrite to_element_keyed by assumption. reflexivity.
Qed.

Lemma nth_mv_at m i p : nth p (mv_at m i) 0 = nth i (nth p (g_vals m) []) 0.
Proof. unfold mv_at. apply (nth_map0 (fun col => nth i col 0) []). destruct i; reflexivity. Qed.

Lemma lookup_mv_at canon m i : map (lookup (g_keys m) (mv_at m i)) canon = coeffs_of canon m i.
Proof.
  unfold coeffs_of. apply map_ext. intros k. unfold lookup, coeff.
  destruct (zindex k (g_keys m)) as [p|]; [apply nth_mv_at | reflexivity].
Qed.

Lemma decode_mv_at canon m i : NoDup canon -> wf_mv canon m ->
  decode canon (encode_plain canon (g_keys m) (mv_at m i)) = EMv (coeffs_of canon m i).
Proof.
  intros Hc [Hk Hin Hlen _]. rewrite decode_plain; try assumption.
  - rewrite lookup_mv_at. reflexivity.
  - unfold mv_at. rewrite map_length. exact Hlen.
Qed.

(* ------------------------------------------------------------------------------------------------ *)
(** * 1, 2. one multivector *)

Theorem decode_encode_mv canon m : NoDup canon -> wf_mv canon m -> g_arr m = false ->
  map (decode canon) (encode_one canon (SMv m)) = [EMv (coeffs_of canon m 0)].
Proof.
  intros Hc Hwf Harr. cbn [encode_one]. unfold encode_mv. rewrite Harr. cbn [map].
  rewrite decode_mv_at by assumption. reflexivity.
Qed.

(* the two cases spelled out: no keys sent (positional decoding) / keys sent *)
Corollary decode_encode_mv_canonical canon m : NoDup canon -> wf_mv canon m -> g_arr m = false ->
  g_keys m = canon ->
  encode_one canon (SMv m) = [PMv (mv_at m 0) None] /\
  decode canon (PMv (mv_at m 0) None) = EMv (coeffs_of canon m 0).
Proof.
  intros Hc Hwf Harr Hk.
  assert (E : encode_one canon (SMv m) = [PMv (mv_at m 0) None]).
  { cbn [encode_one]. unfold encode_mv, encode_plain. rewrite Harr.
    replace (lz_eqb (g_keys m) canon) with true by (symmetry; apply lz_eqb_eq; exact Hk). reflexivity. }
  split; [exact E|].
  pose proof (decode_encode_mv canon m Hc Hwf Harr) as H. rewrite E in H. cbn [map] in H. congruence.
Qed.

Corollary decode_encode_mv_keyed canon m : NoDup canon -> wf_mv canon m -> g_arr m = false ->
  g_keys m <> canon ->
  encode_one canon (SMv m) = [PMv (mv_at m 0) (Some (g_keys m))] /\
  decode canon (PMv (mv_at m 0) (Some (g_keys m))) = EMv (coeffs_of canon m 0).
Proof.
  intros Hc Hwf Harr Hk.
  assert (E : encode_one canon (SMv m) = [PMv (mv_at m 0) (Some (g_keys m))]).
  { cbn [encode_one]. unfold encode_mv, encode_plain. rewrite Harr.
    destruct (lz_eqb (g_keys m) canon) eqn:E; [apply lz_eqb_eq in E; contradiction | reflexivity]. }
  split; [exact E|].
  pose proof (decode_encode_mv canon m Hc Hwf Harr) as H. rewrite E in H. cbn [map] in H. congruence.
Qed.

Theorem decode_encode_array canon m : NoDup canon -> wf_mv canon m -> g_arr m = true ->
  map (decode canon) (encode_one canon (SMv m)) =
  map (fun i => EMv (coeffs_of canon m i)) (seq 0 (mv_width m)).
Proof.
  intros Hc Hwf Harr. cbn [encode_one]. unfold encode_mv. rewrite Harr. rewrite map_map.
  apply map_ext. intros i. apply decode_mv_at; assumption.
Qed.

(* n trailing entries: every value list has length n and there is at least one key *)
Corollary decode_encode_array_n canon m n : NoDup canon -> wf_mv canon m -> g_arr m = true ->
  g_vals m <> [] -> Forall (fun c => length c = n) (g_vals m) ->
  map (decode canon) (encode_one canon (SMv m)) = map (fun i => EMv (coeffs_of canon m i)) (seq 0 n).
Proof.
  intros Hc Hwf Harr Hne Hall. rewrite decode_encode_array by assumption.
  unfold mv_width. destruct (g_vals m) as [|c r]; [contradiction|]. inversion Hall; subst. reflexivity.
Qed.

Lemma decode_encode_SMv canon m : NoDup canon -> wf_mv canon m ->
  map (decode canon) (encode_one canon (SMv m)) = expected canon (SMv m).
Proof.
  intros Hc Hwf. cbn [expected]. unfold mv_indices. destruct (g_arr m) eqn:Harr.
  - apply decode_encode_array; assumption.
  - apply decode_encode_mv; assumption.
Qed.

(* ------------------------------------------------------------------------------------------------ *)
(** * 3. the whole tree *)

Lemma decode_flat_map canon l :
  Forall (fun s => wf_subj canon s -> map (decode canon) (encode_one canon s) = expected canon s) l ->
  Forall (wf_subj canon) l ->
  map (decode canon) (flat_map (encode_one canon) l) = flat_map (expected canon) l.
Proof.
  intros HP Hwf. rewrite map_flat_map'. induction HP as [|x r Hx Hr IH]; cbn [flat_map]; [reflexivity|].
  inversion Hwf as [|? ? Hwx Hwr]; subst. rewrite Hx by exact Hwx. rewrite IH by exact Hwr. reflexivity.
Qed.

Theorem decode_encode canon s : NoDup canon -> wf_subj canon s ->
  map (decode canon) (encode_one canon s) = expected canon s.
Proof.
  intros Hc. induction s as [n|x|m|l IH|l IH|r IH] using subj_ind'; intros Hwf.
  - reflexivity.
  - reflexivity.
  - apply decode_encode_SMv; [exact Hc | exact Hwf].
  - apply wf_subj_SList in Hwf. cbn [encode_one expected map decode].
    rewrite (decode_flat_map canon l IH Hwf). reflexivity.
  - apply wf_subj_STuple in Hwf. cbn [encode_one expected map decode].
    rewrite (decode_flat_map canon l IH Hwf). reflexivity.
  - cbn [encode_one expected]. apply IH. exact Hwf.
Qed.

Theorem decode_encode_root canon pre : NoDup canon -> Forall (wf_subj canon) pre ->
  map (decode canon) (encode_root canon pre) = expected_root canon pre.
Proof.
  intros Hc Hwf. unfold encode_root, expected_root. apply decode_flat_map; [|exact Hwf].
  apply Forall_forall. intros s _ Hs. apply decode_encode; assumption.
Qed.

(* Algebra.graph( *raw ): _get_pre_subjects first *)
Lemma wf_pre_subjects canon raw : Forall (wf_subj canon) raw -> Forall (wf_subj canon) (pre_subjects raw).
Proof.
  intros H. unfold pre_subjects. destruct raw as [|s [|s' r]]; try exact H;
    [| destruct s; exact H].
  destruct s as [n|x|m|l|l|c]; try exact H.
  inversion H as [|? ? Hc _]; subst. cbn [wf_subj] in Hc.
  destruct c as [n|x|m|l|l|c']; try (constructor; [exact Hc | constructor]).
  - apply wf_subj_SList. exact Hc.
  - apply wf_subj_STuple. exact Hc.
Qed.

Theorem decode_graph_subjects canon raw : NoDup canon -> Forall (wf_subj canon) raw ->
  map (decode canon) (graph_subjects canon raw) = expected_root canon (pre_subjects raw).
Proof. intros Hc H. apply decode_encode_root; [exact Hc | apply wf_pre_subjects; exact H]. Qed.

(* tuples are not distinguishable in the payload: PTuple is never produced *)
Fixpoint no_tuple (p : payload) : Prop :=
  match p with
  | PTuple _ => False
  | PList l => (fix all (l : list payload) : Prop := match l with [] => True | x :: r => no_tuple x /\ all r end) l
  | _ => True
  end.

Lemma no_tuple_list_Forall l :
  (fix all (l : list payload) : Prop := match l with [] => True | x :: r => no_tuple x /\ all r end) l
  <-> Forall no_tuple l.
Proof.
  induction l as [|x r IH].
  - split; intros; [constructor | exact I].
  - split.
    + intros [Hx Hr]. constructor; [exact Hx | apply IH; exact Hr].
    + intros H. inversion H as [|? ? Hx Hr]; subst. split; [exact Hx | apply IH; exact Hr].
Qed.

Lemma no_tuple_flat_map canon l :
  Forall (fun s => Forall no_tuple (encode_one canon s)) l -> Forall no_tuple (flat_map (encode_one canon) l).
Proof.
  intros H. induction H as [|x r Hx Hr IH]; cbn [flat_map]; [constructor|].
  apply Forall_app. split; assumption.
Qed.

Theorem encode_no_tuple canon s : Forall no_tuple (encode_one canon s).
Proof.
  induction s as [n|x|m|l IH|l IH|r IH] using subj_ind'; cbn [encode_one].
  - repeat constructor.
  - repeat constructor.
  - unfold encode_mv, encode_plain. destruct (g_arr m).
    + apply Forall_forall. intros p Hp. apply in_map_iff in Hp. destruct Hp as [i [<- _]].
      destruct (lz_eqb (g_keys m) canon); exact I.
    + constructor; [|constructor]. destruct (lz_eqb (g_keys m) canon); exact I.
  - constructor; [|constructor]. cbn [no_tuple]. apply no_tuple_list_Forall. apply no_tuple_flat_map. exact IH.
  - constructor; [|constructor]. cbn [no_tuple]. apply no_tuple_list_Forall. apply no_tuple_flat_map. exact IH.
  - exact IH.
Qed.

(* ------------------------------------------------------------------------------------------------ *)
(** * 5. drag write-back *)

(* the unconditional assignment  old_vals[j] = val *)
Fixpoint inplace_pos_u (j : nat) (new : list Z) (vals : list (list Z)) : list (list Z) :=
  match new with
  | [] => vals
  | v :: r => inplace_pos_u (S j) r (set_nth j [v] vals)
  end.
Fixpoint inplace_keyed_u (canon : list Z) (j : nat) (keys : list Z) (new : list Z) (vals : list (list Z))
  : list (list Z) :=
  match keys with
  | [] => vals
  | k :: r => match key2idx canon k with
              | Some i => inplace_keyed_u canon (S j) r new (set_nth j [nth i new 0] vals)
              | None => vals
              end
  end.
Definition inplace_one_u (canon : list Z) (m : gmv) (new : list Z) : gmv :=
  if lz_eqb (g_keys m) canon
  then mkG (g_keys m) (inplace_pos_u 0 new (g_vals m)) (g_arr m)
  else mkG (g_keys m) (inplace_keyed_u canon 0 (g_keys m) new (g_vals m)) (g_arr m).

Definition scalar_cols (vals : list (list Z)) : Prop := Forall (fun c => length c = 1%nat) vals.

(* "if old_vals[j] != val: old_vals[j] = val"  is the same as  "old_vals[j] = val" *)
Lemma assign_ne_eq j v vals : scalar_cols vals -> assign_ne j v vals = set_nth j [v] vals.
Proof.
  intros Hs. unfold assign_ne. destruct (Z.eqb (hd 0 (nth j vals [])) v) eqn:E; [|reflexivity].
  apply Z.eqb_eq in E. destruct (Nat.lt_ge_cases j (length vals)) as [Hj|Hj].
  - assert (Hc : length (nth j vals []) = 1%nat).
    { unfold scalar_cols in Hs. rewrite Forall_forall in Hs. apply Hs. apply nth_In. exact Hj. }
    assert (Hv : [v] = nth j vals []).
    { destruct (nth j vals []) as [|a [|b t]]; cbn [length] in Hc; try discriminate.
      cbn [hd] in E. subst. reflexivity. }
    rewrite Hv. symmetry. apply set_nth_same.
  - symmetry. apply set_nth_out. exact Hj.
Qed.

Lemma scalar_cols_set_nth j v vals : scalar_cols vals -> scalar_cols (set_nth j [v] vals).
Proof. intros H. apply Forall_set_nth; [exact H | reflexivity]. Qed.

Lemma inplace_pos_cond_uncond new : forall j vals, scalar_cols vals ->
  inplace_pos j new vals = inplace_pos_u j new vals.
Proof.
  induction new as [|v r IH]; intros j vals Hs; cbn [inplace_pos inplace_pos_u]; [reflexivity|].
  rewrite assign_ne_eq by exact Hs. apply IH. apply scalar_cols_set_nth. exact Hs.
Qed.

Lemma inplace_keyed_cond_uncond canon new keys : forall j vals, scalar_cols vals ->
  inplace_keyed canon j keys new vals = inplace_keyed_u canon j keys new vals.
Proof.
  induction keys as [|k r IH]; intros j vals Hs; cbn [inplace_keyed inplace_keyed_u]; [reflexivity|].
  destruct (key2idx canon k) as [i|]; [|reflexivity].
  rewrite assign_ne_eq by exact Hs. apply IH. apply scalar_cols_set_nth. exact Hs.
Qed.

Theorem inplace_cond_uncond canon m new : scalar_cols (g_vals m) ->
  inplace_one canon m new = inplace_one_u canon m new.
Proof.
  intros Hs. unfold inplace_one, inplace_one_u. destruct (lz_eqb (g_keys m) canon).
  - rewrite inplace_pos_cond_uncond by exact Hs. reflexivity.
  - rewrite inplace_keyed_cond_uncond by exact Hs. reflexivity.
Qed.

Lemma wf_scalar_cols canon m : wf_mv canon m -> g_arr m = false -> scalar_cols (g_vals m).
Proof.
  intros [_ _ _ [n [_ [Hall Hn]]]] Harr. rewrite (Hn Harr) in Hall. exact Hall.
Qed.

(* position of k in canon *)
Definition idx_of (canon : list Z) (k : Z) : nat := match zindex k canon with Some i => i | None => 0%nat end.

Lemma inplace_pos_u_closed new : forall j vals, (j + length new = length vals)%nat ->
  inplace_pos_u j new vals = firstn j vals ++ map (fun v => [v]) new.
Proof.
  induction new as [|v r IH]; intros j vals Hlen; cbn [inplace_pos_u map length] in *.
  - rewrite app_nil_r. rewrite firstn_all2 by lia. reflexivity.
  - rewrite IH by (rewrite set_nth_length; lia).
    rewrite firstn_S_set_nth by lia. rewrite <- app_assoc. reflexivity.
Qed.

Lemma inplace_keyed_u_closed canon new : NoDup canon -> forall keys j vals,
  incl keys canon -> (j + length keys = length vals)%nat ->
  inplace_keyed_u canon j keys new vals = firstn j vals ++ map (fun k => [nth (idx_of canon k) new 0]) keys.
Proof.
  intros Hc. induction keys as [|k r IH]; intros j vals Hin Hlen; cbn [inplace_keyed_u map length] in *.
  - rewrite app_nil_r. rewrite firstn_all2 by lia. reflexivity.
  - assert (Hkc : In k canon) by (apply Hin; left; reflexivity).
    assert (Hrc : incl r canon) by (intros y Hy; apply Hin; right; exact Hy).
    rewrite key2idx_zindex by exact Hc. unfold idx_of at 1.
    destruct (zindex_In _ _ Hkc) as [i Hi]. rewrite Hi.
    rewrite IH; [| exact Hrc | rewrite set_nth_length; lia].
    rewrite firstn_S_set_nth by lia. rewrite <- app_assoc. reflexivity.
Qed.

Lemma map_idx_of_self canon new : NoDup canon -> length new = length canon ->
  map (fun k => nth (idx_of canon k) new 0) canon = new.
Proof.
  intros Hc Hlen. apply (nth_ext _ _ 0 0).
  - rewrite map_length. symmetry. exact Hlen.
  - intros i Hi. rewrite map_length in Hi.
    rewrite (nth_indep (map _ _) 0 ((fun k => nth (idx_of canon k) new 0) 0)) by (rewrite map_length; exact Hi).
    rewrite (map_nth (fun k => nth (idx_of canon k) new 0)). unfold idx_of. rewrite zindex_nth by assumption.
    reflexivity.
Qed.

(* the stored values after the write-back, in both branches: on the stored key k the reported coefficient
   at the position of k in the canonical order *)
Theorem inplace_one_vals canon m new : NoDup canon -> wf_mv canon m -> g_arr m = false ->
  length new = length canon ->
  inplace_one canon m new =
  mkG (g_keys m) (map (fun k => [nth (idx_of canon k) new 0]) (g_keys m)) false.
Proof.
  intros Hc Hwf Harr Hnew. rewrite inplace_cond_uncond by (eapply wf_scalar_cols; eassumption).
  destruct Hwf as [Hk Hin Hlen _]. unfold inplace_one_u. rewrite Harr.
  destruct (lz_eqb (g_keys m) canon) eqn:E.
  - apply lz_eqb_eq in E.
    assert (Hkl : length (g_keys m) = length canon) by (rewrite E; reflexivity).
    rewrite inplace_pos_u_closed by (cbn; lia). cbn [firstn app].
    rewrite E. f_equal.
    rewrite <- (map_idx_of_self canon new Hc Hnew) at 1. rewrite map_map. reflexivity.
  - rewrite inplace_keyed_u_closed; [| exact Hc | exact Hin | cbn; lia]. reflexivity.
Qed.

Corollary inplace_one_keys canon m new : g_keys (inplace_one canon m new) = g_keys m.
Proof. unfold inplace_one. destruct (lz_eqb (g_keys m) canon); reflexivity. Qed.

Lemma inplace_one_wf canon m new : NoDup canon -> wf_mv canon m -> g_arr m = false ->
  length new = length canon -> wf_mv canon (inplace_one canon m new).
Proof.
  intros Hc Hwf Harr Hnew. rewrite inplace_one_vals by assumption. destruct Hwf as [Hk Hin Hlen _].
  constructor; cbn [g_keys g_vals g_arr].
  - exact Hk.
  - exact Hin.
  - apply map_length.
  - exists 1%nat. split; [lia|]. split; [|reflexivity].
    apply Forall_forall. intros c Hcin. apply in_map_iff in Hcin. destruct Hcin as [k [<- _]]. reflexivity.
Qed.

(* coefficient of the updated multivector on ANY blade *)
Theorem inplace_coeff canon m new k : NoDup canon -> wf_mv canon m -> g_arr m = false ->
  length new = length canon ->
  coeff (inplace_one canon m new) 0 k = if zin k (g_keys m) then nth (idx_of canon k) new 0 else 0.
Proof.
  intros Hc Hwf Harr Hnew. rewrite inplace_one_vals by assumption. unfold coeff. cbn [g_keys g_vals].
  rewrite zin_zindex. destruct (zindex k (g_keys m)) as [j|] eqn:E; [|reflexivity].
  pose proof (zindex_lt _ _ _ E) as Hj. apply zindex_Some in E.
  rewrite (nth_indep _ [] ((fun k => [nth (idx_of canon k) new 0]) 0)) by (rewrite map_length; exact Hj).
  rewrite (map_nth (fun k => [nth (idx_of canon k) new 0])).
  rewrite (nth_error_nth _ _ 0 E). reflexivity.
Qed.

(* in canonical order: agrees with the reported element on stored keys, 0 elsewhere *)
Theorem inplace_spec canon m new : NoDup canon -> wf_mv canon m -> g_arr m = false ->
  length new = length canon ->
  g_keys (inplace_one canon m new) = g_keys m /\
  coeffs_of canon (inplace_one canon m new) 0 =
    map (fun kv => if zin (fst kv) (g_keys m) then snd kv else 0) (combine canon new).
Proof.
  intros Hc Hwf Harr Hnew. split; [apply inplace_one_keys|].
  unfold coeffs_of. apply (nth_ext _ _ 0 0).
  - rewrite !map_length, combine_length. lia.
  - intros i Hi. rewrite map_length in Hi.
    rewrite (nth_indep (map (coeff _ 0) canon) 0 (coeff (inplace_one canon m new) 0 0)) by (rewrite map_length; exact Hi).
    rewrite map_nth. rewrite inplace_coeff by assumption.
    set (f := fun kv : Z * Z => if zin (fst kv) (g_keys m) then snd kv else 0).
    rewrite (nth_indep (map f _) 0 (f (0, 0))) by (rewrite map_length, combine_length; lia).
    rewrite map_nth. rewrite combine_nth by (symmetry; exact Hnew). unfold f. cbn [fst snd].
    unfold idx_of. rewrite zindex_nth by assumption. reflexivity.
Qed.

(* pointwise reading *)
Corollary inplace_spec_nth canon m new i : NoDup canon -> wf_mv canon m -> g_arr m = false ->
  length new = length canon -> (i < length canon)%nat ->
  nth i (coeffs_of canon (inplace_one canon m new) 0) 0 =
    if zin (nth i canon 0) (g_keys m) then nth i new 0 else 0.
Proof.
  intros Hc Hwf Harr Hnew Hi. unfold coeffs_of.
  rewrite (nth_indep (map _ canon) 0 (coeff (inplace_one canon m new) 0 0)) by (rewrite map_length; exact Hi).
  rewrite map_nth. rewrite inplace_coeff by assumption. unfold idx_of. rewrite zindex_nth by assumption.
  reflexivity.
Qed.

(* a full multivector (all blades stored, in any order) takes exactly the reported element *)
Corollary inplace_spec_full canon m new : NoDup canon -> wf_mv canon m -> g_arr m = false ->
  length new = length canon -> incl canon (g_keys m) ->
  coeffs_of canon (inplace_one canon m new) 0 = new.
Proof.
  intros Hc Hwf Harr Hnew Hfull. destruct (inplace_spec canon m new Hc Hwf Harr Hnew) as [_ ->].
  apply (nth_ext _ _ 0 0).
  - rewrite map_length, combine_length. lia.
  - intros i Hi. rewrite map_length, combine_length in Hi.
    set (f := fun kv : Z * Z => if zin (fst kv) (g_keys m) then snd kv else 0).
    rewrite (nth_indep (map f _) 0 (f (0, 0))) by (rewrite map_length, combine_length; lia).
    rewrite map_nth. rewrite combine_nth by (symmetry; exact Hnew). unfold f. cbn [fst snd].
    replace (zin (nth i canon 0) (g_keys m)) with true; [reflexivity|].
    symmetry. apply zin_In. apply Hfull. apply nth_In. lia.
Qed.

(* what is sent back to the front end after the update (self.subjects = self.get_subjects()) *)
Theorem decode_encode_inplace canon m new : NoDup canon -> wf_mv canon m -> g_arr m = false ->
  length new = length canon ->
  map (decode canon) (encode_one canon (SMv (inplace_one canon m new))) =
  [EMv (map (fun kv => if zin (fst kv) (g_keys m) then snd kv else 0) (combine canon new))].
Proof.
  intros Hc Hwf Harr Hnew. rewrite decode_encode_mv.
  - destruct (inplace_spec canon m new Hc Hwf Harr Hnew) as [_ ->]. reflexivity.
  - exact Hc.
  - apply inplace_one_wf; assumption.
  - rewrite inplace_one_vals by assumption. reflexivity.
Qed.

(* nothing moved: reporting the decoded element back leaves the multivector unchanged *)
Theorem inplace_fixpoint canon m : NoDup canon -> wf_mv canon m -> g_arr m = false ->
  inplace_one canon m (coeffs_of canon m 0) = m.
Proof.
  intros Hc Hwf Harr.
  rewrite inplace_one_vals; [| exact Hc | exact Hwf | exact Harr | unfold coeffs_of; apply map_length].
  pose proof (wf_scalar_cols canon m Hwf Harr) as Hs. destruct Hwf as [Hk Hin Hlen _].
  destruct m as [keys vals arr]. cbn [g_keys g_vals g_arr] in *. subst arr. f_equal.
  apply (nth_ext _ _ [] []).
  - rewrite map_length. symmetry. exact Hlen.
  - intros j Hj. rewrite map_length in Hj.
    rewrite (nth_indep _ [] ((fun k => [nth (idx_of canon k) (coeffs_of canon (mkG keys vals false) 0) 0]) 0))
      by (rewrite map_length; exact Hj).
    rewrite (map_nth (fun k => [nth (idx_of canon k) (coeffs_of canon (mkG keys vals false) 0) 0])).
    set (k := nth j keys 0).
    assert (Hkin : In k canon) by (apply Hin; apply nth_In; exact Hj).
    unfold idx_of. destruct (zindex_In _ _ Hkin) as [i Hi]. rewrite Hi.
    pose proof (zindex_lt _ _ _ Hi) as Hilt. apply zindex_Some in Hi.
    unfold coeffs_of.
    rewrite (nth_indep (map _ canon) 0 (coeff (mkG keys vals false) 0 0)) by (rewrite map_length; exact Hilt).
    rewrite map_nth. rewrite (nth_error_nth _ _ 0 Hi).
    unfold coeff. cbn [g_keys g_vals]. unfold k. rewrite zindex_nth by assumption.
    assert (Hc1 : length (nth j vals []) = 1%nat).
    { unfold scalar_cols in Hs. rewrite Forall_forall in Hs. apply Hs. apply nth_In. lia. }
    destruct (nth j vals []) as [|a [|b t]]; cbn [length] in Hc1; try discriminate. reflexivity.
Qed.

(* ------------------------------------------------------------------------------------------------ *)
(** * Which entry of [subjects] belongs to which pre_subject
   draggable_points_idxs are indices INTO pre_subjects; the front end uses them as indices into the decoded
   subjects.  The two agree exactly as long as every earlier pre_subject contributes ONE entry. *)

Fixpoint width (s : subj) : nat :=
  match s with
  | SMv m => length (mv_indices m)
  | SCall r => width r
  | _ => 1%nat
  end.

Lemma encode_one_length canon s : length (encode_one canon s) = width s.
Proof.
  induction s as [n|x|m|l IH|l IH|r IH] using subj_ind'; cbn [encode_one width]; try reflexivity.
  - unfold encode_mv, mv_indices. destruct (g_arr m); [rewrite map_length; reflexivity | reflexivity].
  - exact IH.
Qed.

Theorem encode_root_nth canon pre j s : nth_error pre j = Some s ->
  Forall (fun x => width x = 1%nat) (firstn j pre) ->
  encode_one canon s = firstn (width s) (skipn j (encode_root canon pre)).
Proof.
  unfold encode_root. revert j. induction pre as [|x r IH]; intros j Hj Hw.
  - destruct j; discriminate.
  - destruct j as [|j]; cbn [nth_error] in Hj; cbn [flat_map skipn].
    + injection Hj as ->. rewrite <- (encode_one_length canon s).
      rewrite firstn_app, Nat.sub_diag, firstn_all. cbn [firstn]. rewrite app_nil_r. reflexivity.
    + cbn [firstn] in Hw. inversion Hw as [|? ? Hx Hr]; subst.
      pose proof (encode_one_length canon x) as Hl. rewrite Hx in Hl.
      destruct (encode_one canon x) as [|p [|q t]]; cbn [length] in Hl; try discriminate.
      cbn [app skipn]. apply IH; assumption.
Qed.

(* in general the entry for pre_subjects[j] starts at the sum of the widths before it *)
Theorem encode_root_offset canon pre j s : nth_error pre j = Some s ->
  encode_one canon s =
  firstn (width s) (skipn (list_sum (map width (firstn j pre))) (encode_root canon pre)).
Proof.
  unfold encode_root. revert j. induction pre as [|x r IH]; intros j Hj.
  - destruct j; discriminate.
  - destruct j as [|j]; cbn [nth_error] in Hj; cbn [flat_map].
    + injection Hj as ->. change (list_sum (map width (firstn 0 (s :: r)))) with 0%nat. cbn [skipn].
      rewrite <- (encode_one_length canon s).
      rewrite firstn_app, Nat.sub_diag, firstn_all. cbn [firstn]. rewrite app_nil_r. reflexivity.
    + change (list_sum (map width (firstn (S j) (x :: r))))
        with (width x + list_sum (map width (firstn j r)))%nat.
      rewrite <- (encode_one_length canon x). rewrite skipn_app.
      rewrite (skipn_all2 (encode_one canon x)) by lia. cbn [app].
      replace (length (encode_one canon x) + list_sum (map width (firstn j r)) - length (encode_one canon x))%nat
        with (list_sum (map width (firstn j r))) by lia.
      apply IH. exact Hj.
Qed.

(* ------------------------------------------------------------------------------------------------ *)
(** * 6. Examples *)

Definition canon3 : list Z := [0; 1; 2; 4; 3; 5; 6; 7].          (* Algebra(3) and Algebra(2,0,1) *)
Definition ex_sparse : gmv := mkG [1; 4] [[3]; [5]] false.
Definition ex_canon : gmv := mkG canon3 [[10]; [11]; [12]; [14]; [13]; [15]; [16]; [17]] false.
Definition ex_binary : gmv := mkG [0; 1; 2; 3; 4; 5; 6; 7] [[10]; [11]; [12]; [13]; [14]; [15]; [16]; [17]] false.
Definition ex_array : gmv := mkG [1; 2; 4] [[1; 2; 3]; [4; 5; 6]; [7; 8; 9]] true.

Example ex_payload :
  encode_root canon3
    [SNum 255; SList [SMv ex_sparse; STuple [SMv ex_canon; SStr 7]]; SMv ex_binary; SMv ex_array;
     SCall (SMv ex_sparse); SCall (SList [SMv ex_array])] =
  [PNum 255;
   PList [PMv [3; 5] (Some [1; 4]); PList [PMv [10; 11; 12; 14; 13; 15; 16; 17] None; PStr 7]];
   PMv [10; 11; 12; 13; 14; 15; 16; 17] (Some [0; 1; 2; 3; 4; 5; 6; 7]);
   PMv [1; 4; 7] (Some [1; 2; 4]); PMv [2; 5; 8] (Some [1; 2; 4]); PMv [3; 6; 9] (Some [1; 2; 4]);
   PMv [3; 5] (Some [1; 4]);
   PList [PMv [1; 4; 7] (Some [1; 2; 4]); PMv [2; 5; 8] (Some [1; 2; 4]); PMv [3; 6; 9] (Some [1; 2; 4])]].
Proof. vm_compute. reflexivity. Qed.

Example ex_decoded :
  map (decode canon3)
    (encode_root canon3
       [SNum 255; SList [SMv ex_sparse; STuple [SMv ex_canon; SStr 7]]; SMv ex_binary; SMv ex_array;
        SCall (SMv ex_sparse); SCall (SList [SMv ex_array])]) =
  [ENum 255;
   EList [EMv [0; 3; 0; 5; 0; 0; 0; 0]; EList [EMv [10; 11; 12; 14; 13; 15; 16; 17]; EStr 7]];
   EMv [10; 11; 12; 14; 13; 15; 16; 17];      (* binary-order storage: e3 (key 4) before e12 (key 3) *)
   EMv [0; 1; 4; 7; 0; 0; 0; 0]; EMv [0; 2; 5; 8; 0; 0; 0; 0]; EMv [0; 3; 6; 9; 0; 0; 0; 0];
   EMv [0; 3; 0; 5; 0; 0; 0; 0];
   EList [EMv [0; 1; 4; 7; 0; 0; 0; 0]; EMv [0; 2; 5; 8; 0; 0; 0; 0]; EMv [0; 3; 6; 9; 0; 0; 0; 0]]].
Proof. vm_compute. reflexivity. Qed.

Example ex_expected :
  expected_root canon3
    [SNum 255; SList [SMv ex_sparse; STuple [SMv ex_canon; SStr 7]]; SMv ex_binary; SMv ex_array;
     SCall (SMv ex_sparse); SCall (SList [SMv ex_array])] =
  map (decode canon3)
    (encode_root canon3
       [SNum 255; SList [SMv ex_sparse; STuple [SMv ex_canon; SStr 7]]; SMv ex_binary; SMv ex_array;
        SCall (SMv ex_sparse); SCall (SList [SMv ex_array])]).
Proof. vm_compute. reflexivity. Qed.

(* Algebra.graph(f) with a single callable returning a list: the list IS the list of subjects *)
Example ex_single_callable :
  graph_subjects canon3 [SCall (SList [SMv ex_sparse; SNum 1])] = [PMv [3; 5] (Some [1; 4]); PNum 1] /\
  graph_subjects canon3 [SCall (SList [SMv ex_sparse; SNum 1]); SNum 2] =
    [PList [PMv [3; 5] (Some [1; 4]); PNum 1]; PNum 2].
Proof. vm_compute. split; reflexivity. Qed.

Example ex_key2idx : map (key2idx canon3) [0; 1; 2; 3; 4; 5; 6; 7; 8] =
  [Some 0; Some 1; Some 2; Some 4; Some 3; Some 5; Some 6; Some 7; None]%nat.
Proof. vm_compute. reflexivity. Qed.

(* drag updates: keyed branch (sparse, binary order) and positional branch *)
Example ex_drag_sparse :
  inplace_one canon3 ex_sparse [100; 101; 102; 103; 104; 105; 106; 107] = mkG [1; 4] [[101]; [103]] false.
Proof. vm_compute. reflexivity. Qed.
Example ex_drag_binary :
  inplace_one canon3 ex_binary [100; 101; 102; 103; 104; 105; 106; 107] =
  mkG [0; 1; 2; 3; 4; 5; 6; 7] [[100]; [101]; [102]; [104]; [103]; [105]; [106]; [107]] false.
Proof. vm_compute. reflexivity. Qed.
Example ex_drag_canon :
  inplace_one canon3 ex_canon [100; 101; 102; 103; 104; 105; 106; 107] =
  mkG canon3 [[100]; [101]; [102]; [103]; [104]; [105]; [106]; [107]] false.
Proof. vm_compute. reflexivity. Qed.
Example ex_drag_resent :
  map (decode canon3) (encode_one canon3 (SMv (inplace_one canon3 ex_binary [100; 101; 102; 103; 104; 105; 106; 107])))
  = [EMv [100; 101; 102; 103; 104; 105; 106; 107]].
Proof. vm_compute. reflexivity. Qed.

(* DEFECT (index shift): pre_subjects = [callable returning a 3-element array-valued multivector; P].
   draggable_points_idxs = [1] (an index into pre_subjects), but subjects[1] is the SECOND array element:
   the front end reports that element for P and P is overwritten although nothing was moved. *)
Definition ex_pts : gmv := mkG [1; 2] [[10; 20; 30]; [11; 21; 31]] true.
Definition ex_P : gmv := mkG [1; 2] [[7]; [8]] false.
Example ex_index_shift :
  let canon2 := [0; 1; 2; 3] in
  let pre := [SCall (SMv ex_pts); SMv ex_P] in
  let shown := map (decode canon2) (encode_root canon2 pre) in
  draggable_idxs None pre = [1%nat] /\
  nth 1 shown (ENum 0) = EMv [0; 20; 21; 0] /\                       (* not P = [0;7;8;0] *)
  inplace_all canon2 pre [(1%nat, [0; 20; 21; 0])] = [SCall (SMv ex_pts); SMv (mkG [1; 2] [[20]; [21]] false)].
Proof. vm_compute. repeat split; reflexivity. Qed.
