(* Theory/SeriesReal.v — C19, the analytic half of "exp(x) equals its power series" over the real numbers.

   Theory/Series.v (exp_formula_algebraic) shows, in every algebra and over every commutative ring, that for
   an x with x x = s the partial sums of sum x^k/k! are   ev s n + od s n * x   with
       ev s n = sum_{j<=n} s^j/(2j)!,     od s n = sum_{j<=n} s^j/(2j+1)!.
   Here R is Coq's real numbers (standard library Reals; only its axioms are used, see Print Assumptions
   in Props/C19.v) and  v / j  is real division.  exp_series_limit: the two scalar sequences converge to
       s > 0:  cosh(sqrt s),   sinh(sqrt s)/sqrt s         (the triple THyp of MultiVector.exp)
       s = 0:  1, 1                                         (TUnit)
       s < 0:  cos(sqrt(-s)),  sin(sqrt(-s))/sqrt(-s)       (TTrigNum / TTrigSym)
   and exp_power_series: the partial sums of the power series converge, coefficient by coefficient, to
   cosh(l) + sinhc(l) x, the value MultiVector.exp assembles.  Convergence is [Un_cv] of the standard library
   (epsilon-N); cos, sin, exp are the library's functions (defined there by their power series), cosh and
   sinh the library's (exp x +- exp(-x))/2. *)
From Coq Require Import Reals Lra Lia RealField List ZArith.
From KV Require Import Model.All Model.Series Theory.WF Theory.Sparse Theory.Ops Theory.OpsWF Theory.Algebra Theory.Series.
Import ListNotations.
Local Open Scope R_scope.

Definition Rdivn (v : R) (j : Z) : R := v / IZR j.
Notation Rev := (ev R 0 1 Rplus Rmult Rdivn).
Notation Rod := (od R 0 1 Rplus Rmult Rdivn).

Lemma rnat_INR n : rnat R 0 1 Rplus n = INR n.
Proof. induction n as [|n IH]; [reflexivity|]. cbn [rnat]. rewrite IH, S_INR. ring. Qed.

Lemma divn_ok_R : divn_ok R 0 1 Rplus Rmult Rdivn.
Proof.
  intros v n Hn. rewrite rnat_INR. unfold Rdivn. rewrite <- INR_IZR_INZ. field.
  apply not_0_INR. lia.
Qed.

Lemma invfact_R k : invfact R 1 Rmult Rdivn k = / INR (fact k).
Proof.
  pose proof (invfact_spec R 0 1 Rplus Rmult Rminus Ropp RTheory Rdivn sqrt Rinv divn_ok_R k) as H.
  rewrite rnat_INR in H. pose proof (INR_fact_neq_0 k) as Hk.
  transitivity ((/ INR (fact k) * INR (fact k)) * invfact R 1 Rmult Rdivn k); [field; exact Hk|].
  rewrite Rmult_assoc, H. ring.
Qed.
Lemma rpow_pow s j : rpow R 1 Rmult s j = s ^ j.
Proof. induction j as [|j IH]; [reflexivity|]. cbn [rpow pow]. rewrite IH. reflexivity. Qed.
Lemma rsum_sum_f (f : nat -> R) n : rsum 0 Rplus (map f (seq 0 (S n))) = sum_f_R0 f n.
Proof.
  induction n as [|n IH]; [cbn; ring|].
  rewrite seq_S, map_app, (rsum_app R 0 1 Rplus Rmult Rminus Ropp RTheory), IH. cbn. ring.
Qed.
Lemma Rev_sum s n : Rev s n = sum_f_R0 (fun j => s ^ j / INR (fact (2 * j))) n.
Proof.
  unfold ev. rewrite rsum_sum_f. apply sum_eq. intros j _. rewrite rpow_pow, invfact_R. reflexivity.
Qed.
Lemma Rod_sum s n : Rod s n = sum_f_R0 (fun j => s ^ j / INR (fact (2 * j + 1))) n.
Proof.
  unfold od. rewrite rsum_sum_f. apply sum_eq. intros j _. rewrite rpow_pow, invfact_R. reflexivity.
Qed.

(* ---------- elementary facts on Un_cv ---------- *)
Lemma Un_cv_ext (U V : nat -> R) l : (forall n, U n = V n) -> Un_cv U l -> Un_cv V l.
Proof. intros E H eps He. destruct (H eps He) as [N HN]. exists N. intros n Hn. rewrite <- E. apply HN, Hn. Qed.
Lemma Un_cv_const c : Un_cv (fun _ => c) c.
Proof. intros eps He. exists 0%nat. intros n _. unfold R_dist. rewrite Rminus_diag_eq, Rabs_R0 by reflexivity. exact He. Qed.
Lemma Un_cv_sub (U : nat -> R) l : Un_cv U l -> Un_cv (fun n => U (2 * n + 1)%nat) l.
Proof. intros H eps He. destruct (H eps He) as [N HN]. exists N. intros n Hn. apply HN. lia. Qed.

(* ---------- s < 0 : cos and sin ---------- *)
Lemma sign_pow s i : (-1) ^ i * (- s) ^ i = s ^ i.
Proof. rewrite <- Rpow_mult_distr. f_equal. ring. Qed.

Lemma Rev_neg s : s < 0 -> Un_cv (Rev s) (cos (sqrt (- s))).
Proof.
  intros Hs. unfold cos. destruct (exist_cos (Rsqr (sqrt (- s)))) as [l Hl].
  unfold cos_in, infinite_sum in Hl. unfold Rsqr in Hl. rewrite sqrt_sqrt in Hl by lra.
  intros eps He. destruct (Hl eps He) as [N HN]. exists N. intros n Hn. rewrite Rev_sum.
  rewrite (sum_eq _ (fun i => cos_n i * (- s) ^ i)); [apply HN, Hn|].
  intros i _. unfold cos_n. rewrite <- (sign_pow s i). field. apply INR_fact_neq_0.
Qed.
Lemma Rod_neg s : s < 0 -> Un_cv (Rod s) (sin (sqrt (- s)) / sqrt (- s)).
Proof.
  intros Hs. assert (Hq : 0 < sqrt (- s)) by (apply sqrt_lt_R0; lra).
  unfold sin. destruct (exist_sin (Rsqr (sqrt (- s)))) as [l Hl].
  unfold sin_in, infinite_sum in Hl. unfold Rsqr in Hl. rewrite sqrt_sqrt in Hl by lra.
  replace (sqrt (- s) * l / sqrt (- s)) with l by (field; lra).
  intros eps He. destruct (Hl eps He) as [N HN]. exists N. intros n Hn. rewrite Rod_sum.
  rewrite (sum_eq _ (fun i => sin_n i * (- s) ^ i)); [apply HN, Hn|].
  intros i _. unfold sin_n. rewrite <- (sign_pow s i). field. apply INR_fact_neq_0.
Qed.

(* ---------- s > 0 : cosh and sinh through the even / odd parts of the exponential series ---------- *)
Definition Aexp (x : R) (N : nat) : R := sum_f_R0 (fun i => / INR (fact i) * x ^ i) N.
Lemma Aexp_cv x : Un_cv (Aexp x) (exp x).
Proof. unfold exp. destruct (exist_exp x) as [l Hl]. exact Hl. Qed.

Lemma neg_pow_even x k : (- x) ^ (2 * k) = x ^ (2 * k).
Proof. replace (- x) with (-1 * x) by ring. rewrite Rpow_mult_distr, pow_1_even. ring. Qed.
Lemma neg_pow_odd x k : (- x) ^ (S (2 * k)) = - x ^ (S (2 * k)).
Proof. replace (- x) with (-1 * x) by ring. rewrite Rpow_mult_distr, pow_1_odd. ring. Qed.

Lemma Aexp_even_part x n :
  Aexp x (2 * n + 1) + Aexp (- x) (2 * n + 1) = 2 * sum_f_R0 (fun j => x ^ (2 * j) / INR (fact (2 * j))) n.
Proof.
  induction n as [|n IH].
  - unfold Aexp. cbn. field.
  - replace (2 * S n + 1)%nat with (S (S (2 * n + 1))) by lia. unfold Aexp in *.
    rewrite !tech5.
    replace (S (2 * n + 1)) with (2 * S n)%nat by lia.
    rewrite neg_pow_even, neg_pow_odd.
    pose proof (INR_fact_neq_0 (2 * S n)). pose proof (INR_fact_neq_0 (S (2 * S n))).
    transitivity ((sum_f_R0 (fun i => / INR (fact i) * x ^ i) (2 * n + 1) +
                   sum_f_R0 (fun i => / INR (fact i) * (- x) ^ i) (2 * n + 1)) +
                  2 * (x ^ (2 * S n) / INR (fact (2 * S n)))); [field; split; assumption|].
    rewrite IH. ring.
Qed.
Lemma Aexp_odd_part x n :
  Aexp x (2 * n + 1) - Aexp (- x) (2 * n + 1) = 2 * (x * sum_f_R0 (fun j => x ^ (2 * j) / INR (fact (2 * j + 1))) n).
Proof.
  induction n as [|n IH].
  - unfold Aexp. cbn. field.
  - replace (2 * S n + 1)%nat with (S (S (2 * n + 1))) by lia. unfold Aexp in *.
    rewrite !tech5.
    replace (S (2 * n + 1)) with (2 * S n)%nat by lia.
    rewrite neg_pow_even, neg_pow_odd.
    replace (2 * S n + 1)%nat with (S (2 * S n)) by lia.
    pose proof (INR_fact_neq_0 (2 * S n)). pose proof (INR_fact_neq_0 (S (2 * S n))).
    transitivity ((sum_f_R0 (fun i => / INR (fact i) * x ^ i) (2 * n + 1) -
                   sum_f_R0 (fun i => / INR (fact i) * (- x) ^ i) (2 * n + 1)) +
                  2 * (x ^ (S (2 * S n)) / INR (fact (S (2 * S n))))); [field; split; assumption|].
    rewrite IH. cbn [pow]. field. assumption.
Qed.

Lemma sq_pow x j : 0 <= x -> (sqrt x) ^ (2 * j) = x ^ j.
Proof. intros Hx. rewrite pow_mult. f_equal. cbn [pow]. rewrite Rmult_1_r. apply sqrt_sqrt, Hx. Qed.

Lemma Rev_pos s : 0 < s -> Un_cv (Rev s) (cosh (sqrt s)).
Proof.
  intros Hs. set (x := sqrt s). unfold cosh.
  apply (Un_cv_ext (fun n => (Aexp x (2 * n + 1) + Aexp (- x) (2 * n + 1)) * / 2)).
  - intros n. rewrite Aexp_even_part, Rev_sum.
    rewrite (sum_eq _ (fun j => s ^ j / INR (fact (2 * j))) n); [field|].
    intros j _. unfold x. rewrite sq_pow by lra. reflexivity.
  - unfold Rdiv. apply CV_mult; [|apply Un_cv_const].
    apply CV_plus; apply Un_cv_sub, Aexp_cv.
Qed.
Lemma Rod_pos s : 0 < s -> Un_cv (Rod s) (sinh (sqrt s) / sqrt s).
Proof.
  intros Hs. set (x := sqrt s). assert (Hx : 0 < x) by (apply sqrt_lt_R0; lra). unfold sinh.
  apply (Un_cv_ext (fun n => (Aexp x (2 * n + 1) - Aexp (- x) (2 * n + 1)) * (/ 2 * / x))).
  - intros n. rewrite Aexp_odd_part, Rod_sum.
    rewrite (sum_eq _ (fun j => s ^ j / INR (fact (2 * j + 1))) n); [field; lra|].
    intros j _. unfold x. rewrite sq_pow by lra. reflexivity.
  - replace ((exp x - exp (- x)) / 2 / x) with ((exp x - exp (- x)) * (/ 2 * / x)) by (field; lra).
    apply CV_mult; [|apply Un_cv_const].
    apply CV_minus; apply Un_cv_sub, Aexp_cv.
Qed.
Lemma Rev_zero n : Rev 0 n = 1.
Proof.
  rewrite Rev_sum. induction n as [|n IH]; [cbn; field|].
  rewrite tech5, IH. cbn [pow]. pose proof (INR_fact_neq_0 (2 * S n)). field. assumption.
Qed.
Lemma Rod_zero n : Rod 0 n = 1.
Proof.
  rewrite Rod_sum. induction n as [|n IH]; [cbn; field|].
  rewrite tech5, IH. cbn [pow]. pose proof (INR_fact_neq_0 (2 * S n + 1)). field. assumption.
Qed.

(* the (sqrt, cosh, sinhc) triples of MultiVector.exp as real functions *)
Definition sinc (l : R) : R := if Req_EM_T l 0 then 1 else sin l / l.    (* sympy.sinc, np.sinc(x/pi) *)
Definition tf_real (t : exp_triple) : (R -> R) * (R -> R) * (R -> R) :=
  match t with
  | THyp => (sqrt, cosh, fun l => sinh l / l)
  | TUnit => (sqrt, fun _ => 1, fun _ => 1)
  | TTrigSym | TTrigNum => (fun s => sqrt (- s), cos, sinc)
  end.
(* the class of a python float *)
Definition classify_float (s : R) : ll_class :=
  if Rlt_dec 0 s then LPos else if Req_EM_T s 0 then LZero else LOther.

(* for every real s the triple selected by exp_branch for the class of s gives the limits of the two scalar
   series: exp_branch is sound on python floats *)
Theorem exp_series_limit s :
  let '(fsqrt, fcosh, fsinhc) := tf_real (exp_branch (classify_float s)) in
  Un_cv (Rev s) (fcosh (fsqrt s)) /\ Un_cv (Rod s) (fsinhc (fsqrt s)).
Proof.
  unfold classify_float. destruct (Rlt_dec 0 s) as [Hp|Hnp]; cbn [exp_branch tf_real].
  - split; [apply Rev_pos, Hp | apply Rod_pos, Hp].
  - destruct (Req_EM_T s 0) as [Hz|Hnz]; cbn [exp_branch tf_real].
    + subst s. split.
      * apply (Un_cv_ext (fun _ => 1)); [intros n; symmetry; apply Rev_zero | apply Un_cv_const].
      * apply (Un_cv_ext (fun _ => 1)); [intros n; symmetry; apply Rod_zero | apply Un_cv_const].
    + assert (Hneg : s < 0) by lra. split; [apply Rev_neg, Hneg|].
      unfold sinc. destruct (Req_EM_T (sqrt (- s)) 0) as [E|_]; [|apply Rod_neg, Hneg].
      exfalso. assert (0 < sqrt (- s)) by (apply sqrt_lt_R0; lra). lra.
Qed.

(* exp(x) equals its power series, over the reals, in every algebra: for an x with x x = s the partial sums
   sum_{k<=2n+1} x^k/k! converge, coefficient by coefficient, to  cosh(l) + sinhc(l) x  for the triple that
   MultiVector.exp selects for a python float s *)
Theorem exp_power_series A (SH : sign_hyps A) (x : mv R) s :
  wfmv A x -> equiv 0 1 Rplus Rmult Rminus Ropp (gp (mkOps R Rplus Rminus Rmult Ropp 0 1) A x x) (scal Rmult s (one 1)) ->
  let '(fsqrt, fcosh, fsinhc) := tf_real (exp_branch (classify_float s)) in
  forall K,
    Un_cv (fun n => coeff (mkOps R Rplus Rminus Rmult Ropp 0 1) K
                      (msum R 0 1 Rplus Rmult Rminus Ropp A (map (pterm R 0 1 Rplus Rmult Rminus Ropp Rdivn A x) (seq 0 (2 * n + 2)))))
          (coeff (mkOps R Rplus Rminus Rmult Ropp 0 1) K (E R 0 1 Rplus Rmult Rminus Ropp A x (fcosh (fsqrt s)) (fsinhc (fsqrt s)))).
Proof.
  intros Hx Hsq. pose proof (exp_series_limit s) as Hlim.
  destruct (tf_real (exp_branch (classify_float s))) as [[fsqrt fcosh] fsinhc]. destruct Hlim as [Hc Hs].
  intros K.
  apply (Un_cv_ext (fun n => coeff (mkOps R Rplus Rminus Rmult Ropp 0 1) K (E R 0 1 Rplus Rmult Rminus Ropp A x (Rev s n) (Rod s n)))).
  { intros n. symmetry. apply (exp_formula_algebraic R 0 1 Rplus Rmult Rminus Ropp RTheory Rdivn sqrt Rinv A SH x Hx s Hsq n K). }
  destruct (Z_lt_dec K 0) as [Hlo|Hlo]; [|destruct (Z_lt_dec K (alg_len A)) as [Hhi|Hhi]].
  - apply (Un_cv_ext (fun _ => 0)); [|rewrite (coeff_out R 0 1 Rplus Rmult Rminus Ropp A _ K (WE R 0 1 Rplus Rmult Rminus Ropp A SH x _ _)) by lia; apply Un_cv_const].
    intros n. symmetry. apply (coeff_out R 0 1 Rplus Rmult Rminus Ropp A _ K (WE R 0 1 Rplus Rmult Rminus Ropp A SH x _ _)). lia.
  - assert (HK : (0 <= K < alg_len A)%Z) by lia.
    rewrite (cf_E R 0 1 Rplus Rmult Rminus Ropp RTheory A SH x _ _ K Hx HK).
    apply (Un_cv_ext (fun n => Rev s n * coeff (mkOps R Rplus Rminus Rmult Ropp 0 1) K (one 1)
                             + Rod s n * coeff (mkOps R Rplus Rminus Rmult Ropp 0 1) K x)).
    { intros n. symmetry. apply (cf_E R 0 1 Rplus Rmult Rminus Ropp RTheory A SH x _ _ K Hx HK). }
    apply CV_plus; (apply CV_mult; [assumption | apply Un_cv_const]).
  - apply (Un_cv_ext (fun _ => 0)); [|rewrite (coeff_out R 0 1 Rplus Rmult Rminus Ropp A _ K (WE R 0 1 Rplus Rmult Rminus Ropp A SH x _ _)) by lia; apply Un_cv_const].
    intros n. symmetry. apply (coeff_out R 0 1 Rplus Rmult Rminus Ropp A _ K (WE R 0 1 Rplus Rmult Rminus Ropp A SH x _ _)). lia.
Qed.

(* ---------- sqrt over the reals: the hypotheses of sqrt_model_study hold on the property's domain ---------- *)
Notation RO := (mkOps R Rplus Rminus Rmult Ropp 0 1).
Notation RSO := (mkSops R RO Rdivn sqrt Rinv).
Lemma half_R v : half RSO v = v / 2.
Proof. reflexivity. Qed.
(* a Study number a + bI with (bI)^2 = s, positive scalar part a and non-negative Study norm a^2 - s
   (automatic when s <= 0) *)
Lemma study_hyps_real a s : 0 < a -> 0 <= a * a - s ->
  let r := sqrt (a * a - s) in let c := sqrt (half RSO (a + r)) in
  r * r = a * a - s /\ c * c = half RSO (a + r) /\ c * / c = 1.
Proof.
  intros Ha Hn r c. assert (Hr : 0 <= r) by apply sqrt_pos.
  assert (Hh : 0 < half RSO (a + r)) by (rewrite half_R; lra).
  assert (Hc : 0 < c) by (apply sqrt_lt_R0, Hh).
  split; [apply sqrt_sqrt, Hn|]. split; [apply sqrt_sqrt; lra | field; lra].
Qed.
(* sqrt(x) * sqrt(x) = x for a real Study number with positive scalar part, in every algebra (the general
   branch of codegen_sqrt; F is the symbolic zero-filter) *)
Theorem sqrt_study_real A (SH : sign_hyps A) F (x : mv R) s :
  filter_ok R 0 1 Rplus Rmult Rminus Ropp A F -> wfmv A x -> is_scalar_only x = false ->
  let a := coeff RO 0 x in let bI := study_bI RSO F A x in
  equiv 0 1 Rplus Rmult Rminus Ropp (gp RO A bI bI) (scal Rmult s (one 1)) ->
  mv_truthy (F (gp RO A bI bI)) = true ->
  0 < a -> 0 <= a * a - s ->
  let y := sqrt_model_with RSO F A x in equiv 0 1 Rplus Rmult Rminus Ropp (gp RO A y y) x.
Proof.
  intros HF Hx Hs a bI Hsq Ht Ha Hn.
  destruct (study_hyps_real a s Ha Hn) as [H1 [H2 H3]].
  exact (sqrt_model_study R 0 1 Rplus Rmult Rminus Ropp RTheory Rdivn sqrt Rinv A SH divn_ok_R F HF x s Hx Hs Hsq Ht H1 H2 H3).
Qed.
